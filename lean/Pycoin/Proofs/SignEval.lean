import Pycoin.Spec.Consensus
/-!
C05 — symbolic evaluation of the consensus specification (`Spec/Consensus.lean`) on the scripts the signer writes:
`GetScriptOp` on direct pushes, fuel independence of the interpreter loop, one lemma per opcode the standard templates use,
and `VerifyScript` for the plain / witness / P2SH shapes.
-/
namespace Pycoin.Sign
open Pycoin Pycoin.Spec.Consensus

theorem hasAtLeast_append (d rest : Bytes) : hasAtLeast (d ++ rest) d.length = true := by
  unfold hasAtLeast
  cases d with
  | nil => simp
  | cons a l =>
    simp only [List.length_cons, Nat.add_sub_cancel, List.cons_append]
    have : (a :: (l ++ rest)).drop l.length = ((a :: l) ++ rest).drop l.length := rfl
    rw [this, List.drop_append_of_le_length (by simp)]
    have : ((a :: l).drop l.length) ≠ [] := by
      intro h
      have := congrArg List.length h
      simp at this
    cases h : (a :: l).drop l.length with
    | nil => exact absurd h this
    | cons x y => simp

theorem toNat_ofNat_lt {n : Nat} (h : n < 256) : (UInt8.ofNat n).toNat = n := by
  simp [UInt8.toNat_ofNat']; omega

/-- `GetScriptOp` on a direct push of 0..75 bytes -/
theorem getScriptOp_direct (d rest : Bytes) (h : d.length ≤ 75) :
    getScriptOp (UInt8.ofNat d.length :: (d ++ rest)) = some (d.length, d, rest, 1 + 0 + d.length) := by
  have ht : (UInt8.ofNat d.length).toNat = d.length := toNat_ofNat_lt (by omega)
  unfold getScriptOp
  simp only [ht, OP_PUSHDATA4, OP_PUSHDATA1]
  rw [if_pos (by omega)]
  simp only [show d.length < 76 from by omega, if_true, List.drop_zero]
  simp [hasAtLeast]
  intro hne
  have : 0 < d.length := List.length_pos_iff.mpr hne
  omega

/-- an opcode byte that is not a push -/
theorem getScriptOp_op (b : UInt8) (rest : Bytes) (h : 0x4e < b.toNat) :
    getScriptOp (b :: rest) = some (b.toNat, [], rest, 1) := by
  unfold getScriptOp
  simp only [OP_PUSHDATA4]
  rw [if_neg (by omega)]

end Pycoin.Sign

namespace Pycoin.Sign
open Pycoin Pycoin.Spec.Consensus

theorem getScriptOp_length {rest : Bytes} {op : Nat} {data rest' : Bytes} {size : Nat}
    (h : getScriptOp rest = some (op, data, rest', size)) : rest'.length < rest.length := by
  cases rest with
  | nil => simp [getScriptOp] at h
  | cons b r =>
    simp only [getScriptOp] at h
    by_cases hop : b.toNat ≤ OP_PUSHDATA4
    · rw [if_pos hop] at h
      generalize (if b.toNat < OP_PUSHDATA1 then 0 else if b.toNat = OP_PUSHDATA1 then 1 else if b.toNat = OP_PUSHDATA2 then 2 else 4) = lb at h
      generalize (if b.toNat < OP_PUSHDATA1 then b.toNat else leNat (List.take lb r)) = ns at h
      by_cases h1 : (!hasAtLeast r lb) = true
      · rw [if_pos h1] at h; cases h
      · rw [if_neg h1] at h
        by_cases h2 : (!hasAtLeast (List.drop lb r) ns) = true
        · rw [if_pos h2] at h; cases h
        · rw [if_neg h2] at h
          simp only [Option.some.injEq, Prod.mk.injEq] at h
          obtain ⟨_, _, h3, _⟩ := h
          rw [← h3]
          simp only [List.length_drop, List.length_cons]
          omega
    · rw [if_neg hop] at h
      simp only [Option.some.injEq, Prod.mk.injEq] at h
      obtain ⟨_, _, h3, _⟩ := h
      rw [← h3]; simp

abbrev PChk := Bytes → Bytes → Bytes → SigVersion → Bool

def liftChk (chk : PChk) : SigChecker Id := fun a b c d => pure (chk a b c d)

/-- one interpreter step with a pure checker -/
def stepP (chk : PChk) (env : Env) (st : State) (opcode : Nat) (data : Bytes) (pcNext : Nat) : Res State :=
  Id.run (stepM (liftChk chk) env st opcode data pcNext)

/-- the interpreter loop with a pure checker and exactly enough fuel -/
def evalLoopP (chk : PChk) (env : Env) (rest : Bytes) (pc : Nat) (st : State) : Res State :=
  Id.run (evalLoop (liftChk chk) env rest.length rest pc st)

theorem evalLoop_fuel (chk : PChk) (env : Env) :
    ∀ (f : Nat) (rest : Bytes) (pc : Nat) (st : State), rest.length ≤ f →
      evalLoop (liftChk chk) env f rest pc st = evalLoop (liftChk chk) env rest.length rest pc st := by
  intro f
  induction f using Nat.strongRecOn with
  | _ f ih =>
    intro rest pc st hle
    cases rest with
    | nil => cases f <;> simp [evalLoop]
    | cons b r =>
      cases f with
      | zero => simp at hle
      | succ f' =>
        simp only [List.length_cons, evalLoop]
        split
        · rfl
        · cases hg : getScriptOp (b :: r) with
          | none => rfl
          | some t =>
            obtain ⟨op, data, rest', size⟩ := t
            have hlt := getScriptOp_length hg
            simp only [List.length_cons] at hlt hle
            simp only []
            have e1 := fun pc st => ih f' (by omega) rest' pc st (by omega)
            have e2 := fun pc st => ih r.length (by omega) rest' pc st (by omega)
            simp only [e1, e2]

theorem evalLoopP_nil (chk : PChk) (env : Env) (pc : Nat) (st : State) : evalLoopP chk env [] pc st = .ok st := by
  simp [evalLoopP, evalLoop, Id.run, pure]

theorem evalLoopP_cons (chk : PChk) (env : Env) (b : UInt8) (r : Bytes) (pc : Nat) (st : State)
    {op : Nat} {data rest' : Bytes} {size : Nat} (h : getScriptOp (b :: r) = some (op, data, rest', size)) :
    evalLoopP chk env (b :: r) pc st =
      match stepP chk env st op data (pc + size) with
      | .error e => .error e
      | .ok st' => evalLoopP chk env rest' (pc + size) st' := by
  have hlt := getScriptOp_length h
  simp only [List.length_cons] at hlt
  unfold evalLoopP stepP
  simp only [List.length_cons, evalLoop, h]
  simp only [List.isEmpty_cons, Bool.false_eq_true, if_false]
  simp only [evalLoop_fuel chk env r.length rest' _ _ (by omega)]
  simp only [Id.run, bind, pure]
  cases stepM (liftChk chk) env st op data (pc + size) <;> rfl


theorem not_disabled_of_le {op : Nat} (h : op ≤ 0x60) : isDisabledOpcode op = false := by
  simp [isDisabledOpcode, OP_CAT, OP_SUBSTR, OP_LEFT, OP_RIGHT, OP_INVERT, OP_AND, OP_OR, OP_XOR, OP_2MUL, OP_2DIV,
    OP_MUL, OP_DIV, OP_MOD, OP_LSHIFT, OP_RSHIFT]
  omega

/-- a data push executed outside any conditional -/
theorem stepP_push (chk : PChk) (env : Env) (stack alt : List Bytes) (nOp cs : Nat) (opcode : Nat) (data : Bytes)
    (pcNext : Nat) (hop : opcode ≤ 0x4e) (hlen : data.length ≤ 520) (hmin : checkMinimalPush data opcode = true)
    (hstack : stack.length + alt.length < 1000) (hops : nOp ≤ 201) :
    stepP chk env ⟨stack, alt, [], nOp, cs⟩ opcode data pcNext = .ok ⟨data :: stack, alt, [], nOp, cs⟩ := by
  unfold stepP stepM
  have h1 : ¬ data.length > MAX_SCRIPT_ELEMENT_SIZE := by simp [MAX_SCRIPT_ELEMENT_SIZE]; omega
  have h2 : ¬ opcode > OP_16 := by simp [OP_16]; omega
  simp only [h1, h2, if_false, List.all_nil, not_disabled_of_le (show opcode ≤ 0x60 by omega)]
  have h3 : ¬ nOp > MAX_OPS_PER_SCRIPT := by simp [MAX_OPS_PER_SCRIPT]; omega
  have h4 : opcode ≤ OP_PUSHDATA4 := by simp [OP_PUSHDATA4]; omega
  simp [h3, h4, hmin, Id.run, pure, MAX_STACK_SIZE]
  omega


section ops
variable (chk : PChk) (env : Env) (alt : List Bytes) (nOp cs pcNext : Nat)

/-- common prefix of `stepM` for a non-push opcode outside conditionals: op count, disabled test -/
theorem stepP_nonpush (st : State) (opcode : Nat) (hexec : st.vfExec = []) (h16 : opcode > 0x60)
    (hdis : isDisabledOpcode opcode = false) (hops : st.nOpCount + 1 ≤ 201)
    (hcs : ¬ (opcode == OP_CHECKSIG || opcode == OP_CHECKSIGVERIFY) = true)
    (hcms : ¬ (opcode == OP_CHECKMULTISIG || opcode == OP_CHECKMULTISIGVERIFY) = true) :
    stepP chk env st opcode [] pcNext =
      match execOp env { st with nOpCount := st.nOpCount + 1 } true opcode pcNext with
      | .error e => .error e
      | .ok st' => if st'.stack.length + st'.alt.length > MAX_STACK_SIZE then .error .STACK_SIZE else .ok st' := by
  unfold stepP stepM
  have h1 : ¬ ([] : Bytes).length > MAX_SCRIPT_ELEMENT_SIZE := by simp [MAX_SCRIPT_ELEMENT_SIZE]
  have h2 : opcode > OP_16 := by simp [OP_16]; omega
  have h3 : ¬ st.nOpCount + 1 > MAX_OPS_PER_SCRIPT := by simp [MAX_OPS_PER_SCRIPT]; omega
  have h4 : ¬ opcode ≤ OP_PUSHDATA4 := by simp [OP_PUSHDATA4]; omega
  simp only [h1, h2, h3, h4, hdis, hexec, if_true, if_false, List.all_nil, Bool.true_and, Bool.false_eq_true,
    Bool.true_or, hcs, hcms, Bool.and_false, decide_false]
  simp only [Id.run, pure]
  rfl

theorem stepP_dup (x : Bytes) (stack : List Bytes) (hops : nOp + 1 ≤ 201) (hst : stack.length + alt.length + 2 ≤ 1000) :
    stepP chk env ⟨x :: stack, alt, [], nOp, cs⟩ 0x76 [] pcNext = .ok ⟨x :: x :: stack, alt, [], nOp + 1, cs⟩ := by
  rw [stepP_nonpush chk env pcNext _ 0x76 rfl (by decide) (by decide) hops (by decide) (by decide)]
  simp [execOp, OP_1NEGATE, OP_1, OP_16, OP_NOP, OP_CHECKLOCKTIMEVERIFY, OP_CHECKSEQUENCEVERIFY, OP_NOP1, OP_NOP4, OP_NOP10,
    OP_IF, OP_NOTIF, OP_ELSE, OP_ENDIF, OP_VERIFY, OP_RETURN, OP_TOALTSTACK, OP_FROMALTSTACK, OP_2DROP, OP_2DUP, OP_3DUP,
    OP_2OVER, OP_2ROT, OP_2SWAP, OP_IFDUP, OP_DEPTH, OP_DROP, OP_DUP, MAX_STACK_SIZE]
  omega

theorem stepP_hash160 (x : Bytes) (stack : List Bytes) (hops : nOp + 1 ≤ 201) (hst : stack.length + alt.length + 1 ≤ 1000) :
    stepP chk env ⟨x :: stack, alt, [], nOp, cs⟩ 0xa9 [] pcNext = .ok ⟨Hash.hash160 x :: stack, alt, [], nOp + 1, cs⟩ := by
  rw [stepP_nonpush chk env pcNext _ 0xa9 rfl (by decide) (by decide) hops (by decide) (by decide)]
  simp [execOp, hashOp, OP_1NEGATE, OP_1, OP_16, OP_NOP, OP_CHECKLOCKTIMEVERIFY, OP_CHECKSEQUENCEVERIFY, OP_NOP1, OP_NOP4, OP_NOP10,
    OP_IF, OP_NOTIF, OP_ELSE, OP_ENDIF, OP_VERIFY, OP_RETURN, OP_TOALTSTACK, OP_FROMALTSTACK, OP_2DROP, OP_2DUP, OP_3DUP,
    OP_2OVER, OP_2ROT, OP_2SWAP, OP_IFDUP, OP_DEPTH, OP_DROP, OP_DUP, OP_NIP, OP_OVER, OP_PICK, OP_ROLL, OP_ROT, OP_SWAP,
    OP_TUCK, OP_SIZE, OP_EQUAL, OP_EQUALVERIFY, OP_1ADD, OP_1SUB, OP_NEGATE, OP_ABS, OP_NOT, OP_0NOTEQUAL, OP_ADD, OP_MAX,
    OP_WITHIN, OP_RIPEMD160, OP_HASH256, OP_SHA1, OP_SHA256, OP_HASH160, MAX_STACK_SIZE]
  omega

theorem stepP_equalverify (x : Bytes) (stack : List Bytes) (hops : nOp + 1 ≤ 201) (hst : stack.length + alt.length ≤ 1000) :
    stepP chk env ⟨x :: x :: stack, alt, [], nOp, cs⟩ 0x88 [] pcNext = .ok ⟨stack, alt, [], nOp + 1, cs⟩ := by
  rw [stepP_nonpush chk env pcNext _ 0x88 rfl (by decide) (by decide) hops (by decide) (by decide)]
  simp [execOp, OP_1NEGATE, OP_1, OP_16, OP_NOP, OP_CHECKLOCKTIMEVERIFY, OP_CHECKSEQUENCEVERIFY, OP_NOP1, OP_NOP4, OP_NOP10,
    OP_IF, OP_NOTIF, OP_ELSE, OP_ENDIF, OP_VERIFY, OP_RETURN, OP_TOALTSTACK, OP_FROMALTSTACK, OP_2DROP, OP_2DUP, OP_3DUP,
    OP_2OVER, OP_2ROT, OP_2SWAP, OP_IFDUP, OP_DEPTH, OP_DROP, OP_DUP, OP_NIP, OP_OVER, OP_PICK, OP_ROLL, OP_ROT, OP_SWAP,
    OP_TUCK, OP_SIZE, OP_EQUAL, OP_EQUALVERIFY, MAX_STACK_SIZE]
  omega

theorem stepP_equal (x : Bytes) (stack : List Bytes) (hops : nOp + 1 ≤ 201) (hst : stack.length + alt.length + 1 ≤ 1000) :
    stepP chk env ⟨x :: x :: stack, alt, [], nOp, cs⟩ 0x87 [] pcNext = .ok ⟨[1] :: stack, alt, [], nOp + 1, cs⟩ := by
  rw [stepP_nonpush chk env pcNext _ 0x87 rfl (by decide) (by decide) hops (by decide) (by decide)]
  simp [execOp, boolBytes, vchTrue, OP_1NEGATE, OP_1, OP_16, OP_NOP, OP_CHECKLOCKTIMEVERIFY, OP_CHECKSEQUENCEVERIFY, OP_NOP1, OP_NOP4, OP_NOP10,
    OP_IF, OP_NOTIF, OP_ELSE, OP_ENDIF, OP_VERIFY, OP_RETURN, OP_TOALTSTACK, OP_FROMALTSTACK, OP_2DROP, OP_2DUP, OP_3DUP,
    OP_2OVER, OP_2ROT, OP_2SWAP, OP_IFDUP, OP_DEPTH, OP_DROP, OP_DUP, OP_NIP, OP_OVER, OP_PICK, OP_ROLL, OP_ROT, OP_SWAP,
    OP_TUCK, OP_SIZE, OP_EQUAL, OP_EQUALVERIFY, MAX_STACK_SIZE]
  omega

/-- `OP_CHECKSIG` with a signature and key that pass the encoding rules and verify -/
theorem stepP_checksig (sig key : Bytes) (stack : List Bytes) (hops : nOp + 1 ≤ 201)
    (hst : stack.length + alt.length + 1 ≤ 1000)
    (hsig : checkSignatureEncoding sig env.flags = none) (hkey : checkPubKeyEncoding key env.flags env.sigversion = none)
    (hchk : chk sig key (scriptCodeFor env ⟨key :: sig :: stack, alt, [], nOp + 1, cs⟩ [sig]) env.sigversion = true) :
    stepP chk env ⟨key :: sig :: stack, alt, [], nOp, cs⟩ 0xac [] pcNext = .ok ⟨[1] :: stack, alt, [], nOp + 1, cs⟩ := by
  unfold stepP stepM
  have h1 : ¬ ([] : Bytes).length > MAX_SCRIPT_ELEMENT_SIZE := by simp [MAX_SCRIPT_ELEMENT_SIZE]
  have h3 : ¬ nOp + 1 > MAX_OPS_PER_SCRIPT := by simp [MAX_OPS_PER_SCRIPT]; omega
  simp only [h1, h3, if_false, List.all_nil, show (0xac : Nat) > OP_16 from by decide, if_true,
    show isDisabledOpcode 0xac = false from by decide, Bool.false_eq_true,
    show ¬ (0xac : Nat) ≤ OP_PUSHDATA4 from by decide, Bool.true_and, decide_false, Bool.and_false, Bool.true_or,
    show ((0xac : Nat) == OP_CHECKSIG || (0xac : Nat) == OP_CHECKSIGVERIFY) = true from by decide]
  simp only [execCheckSig, hsig, hkey, liftChk, hchk, bind, pure, Id.run]
  simp [boolBytes, vchTrue, OP_CHECKSIGVERIFY, MAX_STACK_SIZE]
  omega

end ops


/-- `EvalScript` in terms of the loop with exact fuel -/
theorem evalScript_eq (chk : PChk) (stack : List Bytes) (script : Bytes) (flags : Flags) (tx : TxCtx) (sv : SigVersion)
    (hlen : script.length ≤ 10000) :
    evalScript chk stack script flags tx sv =
      match evalLoopP chk ⟨script, flags, sv, tx⟩ script 0 ⟨stack, [], [], 0, 0⟩ with
      | .error e => .error e
      | .ok st => if !st.vfExec.isEmpty then .error .UNBALANCED_CONDITIONAL else .ok st.stack := by
  unfold evalScript evalScriptM evalLoopP
  have : ¬ script.length > MAX_SCRIPT_SIZE := by simp [MAX_SCRIPT_SIZE]; omega
  simp only [this, if_false]
  simp only [Id.run, bind, pure]
  change (match evalLoop (liftChk chk) ⟨script, flags, sv, tx⟩ script.length script 0 ⟨stack, [], [], 0, 0⟩ with
    | .error e => _ | .ok st => _) = _
  cases evalLoop (liftChk chk) ⟨script, flags, sv, tx⟩ script.length script 0 ⟨stack, [], [], 0, 0⟩ with
  | error e => rfl
  | ok st => cases h : st.vfExec <;> simp [h]

/-- a direct push `len data` as both pycoin's `compile_push_data` and Core's `CScript <<` write it for 2..75 bytes -/
def directPush (d : Bytes) : Bytes := UInt8.ofNat d.length :: d

theorem checkMinimalPush_direct (d : Bytes) (h2 : 2 ≤ d.length) (h75 : d.length ≤ 75) :
    checkMinimalPush d d.length = true := by
  unfold checkMinimalPush
  match d, h2 with
  | a :: b :: t, _ => simp at h75 ⊢; omega


theorem evalLoopP_step (chk : PChk) (env : Env) (b : UInt8) (r : Bytes) (pc : Nat) (st st' : State)
    {op : Nat} {data rest' : Bytes} {size : Nat} (h : getScriptOp (b :: r) = some (op, data, rest', size))
    (hs : stepP chk env st op data (pc + size) = .ok st') :
    evalLoopP chk env (b :: r) pc st = evalLoopP chk env rest' (pc + size) st' := by
  rw [evalLoopP_cons _ _ _ _ _ _ h, hs]

theorem evalScript_of_loop (chk : PChk) (stack : List Bytes) (script : Bytes) (flags : Flags) (tx : TxCtx) (sv : SigVersion)
    (hlen : script.length ≤ 10000) (st : State)
    (h : evalLoopP chk ⟨script, flags, sv, tx⟩ script 0 ⟨stack, [], [], 0, 0⟩ = .ok st) (hv : st.vfExec = []) :
    evalScript chk stack script flags tx sv = .ok st.stack := by
  rw [evalScript_eq _ _ _ _ _ _ hlen, h]
  simp [hv]

theorem directPush_append (d rest : Bytes) : directPush d ++ rest = UInt8.ofNat d.length :: (d ++ rest) := rfl

/-- a scriptSig of two direct pushes leaves both items on the stack -/
theorem evalScript_two_pushes (chk : PChk) (a b : Bytes) (flags : Flags) (tx : TxCtx)
    (ha2 : 2 ≤ a.length) (ha : a.length ≤ 75) (hb2 : 2 ≤ b.length) (hb : b.length ≤ 75) :
    evalScript chk [] (directPush a ++ directPush b) flags tx .base = .ok [b, a] := by
  apply evalScript_of_loop _ _ _ _ _ _ (by simp [directPush]; omega) ⟨[b, a], [], [], 0, 0⟩ _ rfl
  generalize (⟨directPush a ++ directPush b, flags, .base, tx⟩ : Env) = env
  rw [directPush_append, evalLoopP_step _ _ _ _ _ _ _ (getScriptOp_direct a _ ha)
    (stepP_push _ _ _ _ _ _ _ _ _ (by omega) (by omega) (checkMinimalPush_direct a ha2 ha) (by simp) (by omega))]
  rw [show directPush b = UInt8.ofNat b.length :: (b ++ []) by simp [directPush],
    evalLoopP_step _ _ _ _ _ _ _ (getScriptOp_direct b _ hb)
    (stepP_push _ _ _ _ _ _ _ _ _ (by omega) (by omega) (checkMinimalPush_direct b hb2 hb) (by simp) (by omega))]
  rw [evalLoopP_nil]

theorem stepP_hash160' (chk : PChk) (env : Env) (alt : List Bytes) (nOp cs pcNext : Nat) (x h : Bytes) (stack : List Bytes)
    (hh : Hash.hash160 x = h) (hops : nOp + 1 ≤ 201) (hst : stack.length + alt.length + 1 ≤ 1000) :
    stepP chk env ⟨x :: stack, alt, [], nOp, cs⟩ 0xa9 [] pcNext = .ok ⟨h :: stack, alt, [], nOp + 1, cs⟩ := by
  subst hh
  exact stepP_hash160 chk env alt nOp cs pcNext x stack hops hst

/-- `DUP HASH160 <h> EQUALVERIFY CHECKSIG` -/
def p2pkhScript (h : Bytes) : Bytes := [0x76, 0xa9, 0x14] ++ h ++ [0x88, 0xac]

/-- the P2PKH script run on `[key, sig]` with `hash160 key = h` leaves a single true -/
theorem evalScript_p2pkh (chk : PChk) (sig key h : Bytes) (flags : Flags) (tx : TxCtx) (sv : SigVersion)
    (hh : Hash.hash160 key = h) (hlen : h.length = 20)
    (hsig : checkSignatureEncoding sig flags = none) (hkey : checkPubKeyEncoding key flags sv = none)
    (hchk : chk sig key (scriptCodeFor ⟨p2pkhScript h, flags, sv, tx⟩ ⟨[], [], [], 0, 0⟩ [sig]) sv = true) :
    evalScript chk [key, sig] (p2pkhScript h) flags tx sv = .ok [[1]] := by
  apply evalScript_of_loop _ _ _ _ _ _ (by simp [p2pkhScript]; omega) ⟨[[1]], [], [], 4, 0⟩ _ rfl
  have hcode : ∀ (st : State), st.codeSep = 0 →
      scriptCodeFor ⟨p2pkhScript h, flags, sv, tx⟩ st [sig] = scriptCodeFor ⟨p2pkhScript h, flags, sv, tx⟩ ⟨[], [], [], 0, 0⟩ [sig] := by
    intro st hst; simp [scriptCodeFor, hst]
  generalize henv : (⟨p2pkhScript h, flags, sv, tx⟩ : Env) = env at *
  have hf : env.flags = flags := by rw [← henv]
  have hv : env.sigversion = sv := by rw [← henv]
  have e0 : p2pkhScript h = 0x76 :: (0xa9 :: (UInt8.ofNat h.length :: (h ++ [0x88, 0xac]))) := by
    simp [p2pkhScript, hlen]
  rw [e0, evalLoopP_step _ _ _ _ _ _ _ (getScriptOp_op 0x76 _ (by decide))
    (stepP_dup _ _ _ _ _ _ _ _ (by omega) (by simp))]
  rw [evalLoopP_step _ _ _ _ _ _ _ (getScriptOp_op 0xa9 _ (by decide))
    (stepP_hash160' _ _ _ _ _ _ _ _ _ hh (by omega) (by simp))]
  rw [evalLoopP_step _ _ _ _ _ _ _ (getScriptOp_direct h _ (by omega))
    (stepP_push _ _ _ _ _ _ _ _ _ (by omega) (by omega) (checkMinimalPush_direct h (by omega) (by omega)) (by simp) (by omega))]
  rw [evalLoopP_step _ _ _ _ _ _ _ (getScriptOp_op 0x88 _ (by decide))
    (stepP_equalverify _ _ _ _ _ _ _ _ (by omega) (by simp))]
  rw [evalLoopP_step _ _ _ _ _ _ _ (getScriptOp_op 0xac _ (by decide))
    (stepP_checksig _ _ _ _ _ _ _ _ _ (by omega) (by simp) (by rw [hf]; exact hsig) (by rw [hf, hv]; exact hkey)
      (by rw [hv, hcode _ rfl]; exact hchk))]
  rw [evalLoopP_nil]



theorem evalScriptM_id (chk : PChk) (stack : List Bytes) (script : Bytes) (flags : Flags) (tx : TxCtx) (sv : SigVersion) :
    evalScriptM (m := Id) (fun a b c d => pure (chk a b c d)) stack script flags tx sv = evalScript chk stack script flags tx sv := rfl

/-- `VerifyScript` for a scriptPubKey that is neither P2SH nor a witness program, spent without witness -/
theorem verifyScript_plain (chk : PChk) (scriptSig spk : Bytes) (flags : Flags) (tx : TxCtx) (s1 : List Bytes) (top : Bytes)
    (hpo : isPushOnly scriptSig = true)
    (h1 : evalScript chk [] scriptSig flags tx .base = .ok s1)
    (h2 : evalScript chk s1 spk flags tx .base = .ok [top]) (htop : castToBool top = true)
    (hnw : isWitnessProgram spk = none) (hnp : isPayToScriptHash spk = false) :
    verifyScript chk scriptSig spk [] flags tx = none := by
  unfold verifyScript verifyScriptM
  simp only [evalScriptM_id, h1, h2, hpo, hnw, hnp, htop]
  simp [Id.run, bind, pure]
  rw [h2]
  simp [htop]




/-- a script made of direct pushes only -/
def pushesOf (items : List Bytes) : Bytes := items.flatMap directPush

theorem isPushOnlyAux_pushes : ∀ (items : List Bytes) (f : Nat), (∀ d ∈ items, d.length ≤ 75) →
    (pushesOf items).length ≤ f → isPushOnlyAux f (pushesOf items) = true := by
  intro items
  induction items with
  | nil => intro f _ _; cases f <;> simp [pushesOf, isPushOnlyAux]
  | cons d r ih =>
    intro f hall hf
    have hd : d.length ≤ 75 := hall d (by simp)
    have e : pushesOf (d :: r) = UInt8.ofNat d.length :: (d ++ pushesOf r) := by simp [pushesOf, directPush]
    rw [e] at hf ⊢
    cases f with
    | zero => simp at hf
    | succ f' =>
      simp only [isPushOnlyAux, List.isEmpty_cons, getScriptOp_direct d _ hd]
      have : ¬ d.length > OP_16 := by simp [OP_16]; omega
      simp only [Bool.false_eq_true, if_false, this]
      apply ih f' (fun x hx => hall x (List.mem_cons_of_mem _ hx))
      simp at hf; omega

theorem isPushOnly_pushes (items : List Bytes) (h : ∀ d ∈ items, d.length ≤ 75) : isPushOnly (pushesOf items) = true :=
  isPushOnlyAux_pushes items _ h (Nat.le_refl _)

theorem p2pkh_not_witness (h : Bytes) (hlen : h.length = 20) : isWitnessProgram (p2pkhScript h) = none := by
  have e : p2pkhScript h = 0x76 :: 0xa9 :: (0x14 :: h ++ [0x88, 0xac]) := by simp [p2pkhScript]
  rw [e]
  simp [isWitnessProgram, OP_0, OP_1, OP_16]

theorem p2pkh_not_p2sh (h : Bytes) (hlen : h.length = 20) : isPayToScriptHash (p2pkhScript h) = false := by
  simp [isPayToScriptHash, p2pkhScript, hlen]




/-- `<key> CHECKSIG` -/
def p2pkScript (key : Bytes) : Bytes := directPush key ++ [0xac]

theorem evalScript_one_push (chk : PChk) (a : Bytes) (flags : Flags) (tx : TxCtx)
    (ha2 : 2 ≤ a.length) (ha : a.length ≤ 75) :
    evalScript chk [] (pushesOf [a]) flags tx .base = .ok [a] := by
  apply evalScript_of_loop _ _ _ _ _ _ (by simp [pushesOf, directPush]; omega) ⟨[a], [], [], 0, 0⟩ _ rfl
  generalize (⟨pushesOf [a], flags, .base, tx⟩ : Env) = env
  rw [show pushesOf [a] = UInt8.ofNat a.length :: (a ++ []) by simp [pushesOf, directPush],
    evalLoopP_step _ _ _ _ _ _ _ (getScriptOp_direct a _ ha)
    (stepP_push _ _ _ _ _ _ _ _ _ (by omega) (by omega) (checkMinimalPush_direct a ha2 ha) (by simp) (by omega))]
  rw [evalLoopP_nil]

theorem evalScript_p2pk (chk : PChk) (sig key : Bytes) (flags : Flags) (tx : TxCtx)
    (hk2 : 2 ≤ key.length) (hk : key.length ≤ 75)
    (hsig : checkSignatureEncoding sig flags = none) (hkey : checkPubKeyEncoding key flags .base = none)
    (hchk : chk sig key (scriptCodeFor ⟨p2pkScript key, flags, .base, tx⟩ ⟨[], [], [], 0, 0⟩ [sig]) .base = true) :
    evalScript chk [sig] (p2pkScript key) flags tx .base = .ok [[1]] := by
  apply evalScript_of_loop _ _ _ _ _ _ (by simp [p2pkScript, directPush]; omega) ⟨[[1]], [], [], 1, 0⟩ _ rfl
  have hcode : ∀ (st : State), st.codeSep = 0 →
      scriptCodeFor ⟨p2pkScript key, flags, .base, tx⟩ st [sig] = scriptCodeFor ⟨p2pkScript key, flags, .base, tx⟩ ⟨[], [], [], 0, 0⟩ [sig] := by
    intro st hst; simp [scriptCodeFor, hst]
  generalize henv : (⟨p2pkScript key, flags, .base, tx⟩ : Env) = env at *
  have hf : env.flags = flags := by rw [← henv]
  have hv : env.sigversion = .base := by rw [← henv]
  rw [show p2pkScript key = UInt8.ofNat key.length :: (key ++ [0xac]) from rfl,
    evalLoopP_step _ _ _ _ _ _ _ (getScriptOp_direct key _ hk)
    (stepP_push _ _ _ _ _ _ _ _ _ (by omega) (by omega) (checkMinimalPush_direct key hk2 hk) (by simp) (by omega))]
  rw [evalLoopP_step _ _ _ _ _ _ _ (getScriptOp_op 0xac _ (by decide))
    (stepP_checksig _ _ _ _ _ _ _ _ _ (by omega) (by simp) (by rw [hf]; exact hsig) (by rw [hf, hv]; exact hkey)
      (by rw [hv, hcode _ rfl]; exact hchk))]
  rw [evalLoopP_nil]

theorem p2pk_not_witness (key : Bytes) (hk : 33 ≤ key.length) (hk' : key.length ≤ 75) :
    isWitnessProgram (p2pkScript key) = none := by
  have ht : (UInt8.ofNat key.length).toNat = key.length := toNat_ofNat_lt (by omega)
  have e : p2pkScript key = UInt8.ofNat key.length :: (key ++ [0xac]) := rfl
  rw [e]
  unfold isWitnessProgram
  split
  · rfl
  · cases key with
    | nil => simp at hk
    | cons k0 kt =>
      simp only [List.cons_append, ht, OP_0, OP_1, OP_16]
      have : ((kt.length + 1 != 0) && (decide (kt.length + 1 < 81) || decide (kt.length + 1 > 96))) = true := by
        simp at hk'; simp; omega
      simp only [List.length_cons] at this ⊢
      rw [if_pos this]

theorem p2pk_not_p2sh (key : Bytes) (hk : 33 ≤ key.length) : isPayToScriptHash (p2pkScript key) = false := by
  have e : p2pkScript key = UInt8.ofNat key.length :: (key ++ [0xac]) := rfl
  rw [e]
  simp [isPayToScriptHash]
  omega



/-- `OP_0 <program>` -/
def witnessV0Script (program : Bytes) : Bytes := 0x00 :: directPush program

theorem evalScript_empty (chk : PChk) (stack : List Bytes) (flags : Flags) (tx : TxCtx) (sv : SigVersion) :
    evalScript chk stack [] flags tx sv = .ok stack := by
  apply evalScript_of_loop _ _ _ _ _ _ (by simp) ⟨stack, [], [], 0, 0⟩ _ rfl
  rw [evalLoopP_nil]

theorem getScriptOp_op0 (rest : Bytes) : getScriptOp (0x00 :: rest) = some (0, [], rest, 1 + 0 + 0) := by
  have := getScriptOp_direct [] rest (by simp)
  simpa using this

/-- running `OP_0 <program>` pushes an empty item and the program -/
theorem evalScript_witnessV0Script (chk : PChk) (stack : List Bytes) (p : Bytes) (flags : Flags) (tx : TxCtx)
    (hp2 : 2 ≤ p.length) (hp : p.length ≤ 40) (hs : stack.length ≤ 10) :
    evalScript chk stack (witnessV0Script p) flags tx .base = .ok (p :: [] :: stack) := by
  apply evalScript_of_loop _ _ _ _ _ _ (by simp [witnessV0Script, directPush]; omega) ⟨p :: [] :: stack, [], [], 0, 0⟩ _ rfl
  generalize (⟨witnessV0Script p, flags, .base, tx⟩ : Env) = env
  rw [show witnessV0Script p = 0x00 :: (UInt8.ofNat p.length :: (p ++ [])) by simp [witnessV0Script, directPush],
    evalLoopP_step _ _ _ _ _ _ _ (getScriptOp_op0 _)
    (stepP_push _ _ _ _ _ _ _ _ _ (by omega) (by simp) (by simp [checkMinimalPush, OP_0]) (by simp; omega) (by omega))]
  rw [evalLoopP_step _ _ _ _ _ _ _ (getScriptOp_direct p _ (by omega))
    (stepP_push _ _ _ _ _ _ _ _ _ (by omega) (by omega) (checkMinimalPush_direct p hp2 (by omega)) (by simp; omega) (by omega))]
  rw [evalLoopP_nil]

theorem isWitnessProgram_v0 (p : Bytes) (hp2 : 2 ≤ p.length) (hp : p.length ≤ 40) :
    isWitnessProgram (witnessV0Script p) = some (0, p) := by
  have ht : (UInt8.ofNat p.length).toNat = p.length := toNat_ofNat_lt (by omega)
  have e : witnessV0Script p = 0x00 :: UInt8.ofNat p.length :: p := rfl
  rw [e]
  unfold isWitnessProgram
  have hl : ¬ ((decide ((0x00 :: UInt8.ofNat p.length :: p).length < 4) || decide ((0x00 :: UInt8.ofNat p.length :: p).length > 42)) = true) := by
    simp; omega
  rw [if_neg hl]
  simp only [ht, OP_0, OP_1, OP_16, List.length_cons]
  simp

theorem witnessV0_not_p2sh (p : Bytes) (hp : p.length = 20 ∨ p.length = 32) : isPayToScriptHash (witnessV0Script p) = false := by
  simp [isPayToScriptHash, witnessV0Script, directPush]

theorem pushData_20 (h : Bytes) (hlen : h.length = 20) : pushData h = UInt8.ofNat 20 :: h := by
  simp [pushData, hlen, OP_PUSHDATA1]

/-- `VerifyWitnessProgram` for a version-0 key-hash program with witness `[sig, key]` -/
theorem verifyWitnessProgram_keyhash (chk : PChk) (sig key h : Bytes) (flags : Flags) (tx : TxCtx)
    (hh : Hash.hash160 key = h) (hlen : h.length = 20) (hsl : sig.length ≤ 520) (hkl : key.length ≤ 520)
    (hsig : checkSignatureEncoding sig flags = none) (hkey : checkPubKeyEncoding key flags .witnessV0 = none)
    (hchk : chk sig key (scriptCodeFor ⟨p2pkhScript h, flags, .witnessV0, tx⟩ ⟨[], [], [], 0, 0⟩ [sig]) .witnessV0 = true) :
    verifyWitnessProgramM (m := Id) (fun a b c d => pure (chk a b c d)) [sig, key] 0 h flags tx = none := by
  have hspk : [UInt8.ofNat OP_DUP, UInt8.ofNat OP_HASH160] ++ pushData h ++ [UInt8.ofNat OP_EQUALVERIFY, UInt8.ofNat OP_CHECKSIG]
      = p2pkhScript h := by
    rw [pushData_20 h hlen]; simp [p2pkhScript, OP_DUP, OP_HASH160, OP_EQUALVERIFY, OP_CHECKSIG]
  unfold verifyWitnessProgramM
  simp only [hlen, WITNESS_V0_SCRIPTHASH_SIZE, WITNESS_V0_KEYHASH_SIZE, hspk, evalScriptM_id,
    evalScript_p2pkh chk sig key h flags tx .witnessV0 hh hlen hsig hkey hchk]
  have h1 : ¬ sig.length > MAX_SCRIPT_ELEMENT_SIZE := by simp [MAX_SCRIPT_ELEMENT_SIZE]; omega
  have h2 : ¬ key.length > MAX_SCRIPT_ELEMENT_SIZE := by simp [MAX_SCRIPT_ELEMENT_SIZE]; omega
  simp [h1, h2, bind, pure]
  rw [evalScript_p2pkh chk sig key h flags tx .witnessV0 hh hlen hsig hkey hchk]
  simp [castToBool]




/-- `HASH160 <h> EQUAL` -/
def p2shScript (h : Bytes) : Bytes := 0xa9 :: (directPush h ++ [0x87])

theorem evalScript_p2sh (chk : PChk) (redeem h : Bytes) (rest : List Bytes) (flags : Flags) (tx : TxCtx)
    (hh : Hash.hash160 redeem = h) (hlen : h.length = 20) (hr : rest.length ≤ 30) :
    evalScript chk (redeem :: rest) (p2shScript h) flags tx .base = .ok ([1] :: rest) := by
  apply evalScript_of_loop _ _ _ _ _ _ (by simp [p2shScript, directPush]; omega) ⟨[1] :: rest, [], [], 2, 0⟩ _ rfl
  generalize (⟨p2shScript h, flags, .base, tx⟩ : Env) = env
  rw [show p2shScript h = 0xa9 :: (UInt8.ofNat h.length :: (h ++ [0x87])) by simp [p2shScript, directPush],
    evalLoopP_step _ _ _ _ _ _ _ (getScriptOp_op 0xa9 _ (by decide))
    (stepP_hash160' _ _ _ _ _ _ _ _ _ hh (by omega) (by simp; omega))]
  rw [evalLoopP_step _ _ _ _ _ _ _ (getScriptOp_direct h _ (by omega))
    (stepP_push _ _ _ _ _ _ _ _ _ (by omega) (by omega) (checkMinimalPush_direct h (by omega) (by omega)) (by simp; omega) (by omega))]
  rw [evalLoopP_step _ _ _ _ _ _ _ (getScriptOp_op 0x87 _ (by decide))
    (stepP_equal _ _ _ _ _ _ _ _ (by omega) (by simp; omega))]
  rw [evalLoopP_nil]

theorem p2sh_is_p2sh (h : Bytes) (hlen : h.length = 20) : isPayToScriptHash (p2shScript h) = true := by
  have e : p2shScript h = 0xa9 :: 0x14 :: (h ++ [0x87]) := by simp [p2shScript, directPush, hlen]
  rw [e]
  simp [isPayToScriptHash, hlen]

theorem p2sh_not_witness (h : Bytes) (hlen : h.length = 20) : isWitnessProgram (p2shScript h) = none := by
  have e : p2shScript h = 0xa9 :: 0x14 :: (h ++ [0x87]) := by simp [p2shScript, directPush, hlen]
  rw [e]
  simp [isWitnessProgram, OP_0, OP_1, OP_16]


/-- the signatures (top of stack first) verify for a subsequence of the keys (top of stack first) -/
inductive Embeds (chk : PChk) (code : Bytes) (sv : SigVersion) : List Bytes → List Bytes → Prop
  | nil (keys : List Bytes) : Embeds chk code sv [] keys
  | take {s k : Bytes} {ss ks : List Bytes} : chk s k code sv = true → Embeds chk code sv ss ks → Embeds chk code sv (s :: ss) (k :: ks)
  | skip {k : Bytes} {sigs ks : List Bytes} : Embeds chk code sv sigs ks → Embeds chk code sv sigs (k :: ks)

theorem Embeds.length_le {chk : PChk} {code : Bytes} {sv : SigVersion} {sigs keys : List Bytes}
    (h : Embeds chk code sv sigs keys) : sigs.length ≤ keys.length := by
  induction h with
  | nil => simp
  | take _ _ ih => simp; omega
  | skip _ ih => simp; omega

theorem Embeds.tail {chk : PChk} {code : Bytes} {sv : SigVersion} {s : Bytes} {ss keys : List Bytes}
    (h : Embeds chk code sv (s :: ss) keys) : Embeds chk code sv ss keys := by
  generalize hl : s :: ss = l at h
  induction h with
  | nil => cases hl
  | take _ h' _ => cases hl; exact Embeds.skip h'
  | skip _ ih => exact Embeds.skip (ih hl)

/-- the matching loop of `OP_CHECKMULTISIG` accepts signatures that verify for keys in key order -/
theorem multisigLoop_accepts (chk : PChk) (flags : Flags) (sv : SigVersion) (code : Bytes) :
    ∀ (keys sigs : List Bytes), Embeds chk code sv sigs keys →
      (∀ s ∈ sigs, checkSignatureEncoding s flags = none) → (∀ k ∈ keys, checkPubKeyEncoding k flags sv = none) →
      multisigLoop (m := Id) (liftChk chk) flags sv code sigs keys = .ok true := by
  intro keys
  induction keys with
  | nil =>
    intro sigs he _ _
    cases he with
    | nil => rfl
  | cons k ks ih =>
    intro sigs he hs hk
    cases sigs with
    | nil => rfl
    | cons s ss =>
      simp only [multisigLoop, hs s (by simp), hk k (by simp), liftChk, bind, pure]
      have hss : ∀ x ∈ ss, checkSignatureEncoding x flags = none := fun x hx => hs x (List.mem_cons_of_mem _ hx)
      have hks : ∀ x ∈ ks, checkPubKeyEncoding x flags sv = none := fun x hx => hk x (List.mem_cons_of_mem _ hx)
      by_cases hc : chk s k code sv = true
      · have hemb : Embeds chk code sv ss ks := by
          cases he with
          | take _ h' => exact h'
          | skip h' => exact h'.tail
        have := hemb.length_le
        simp only [hc, if_true]
        rw [if_neg (by omega)]
        exact ih ss hemb hss hks
      · have hemb : Embeds chk code sv (s :: ss) ks := by
          cases he with
          | take hc' _ => exact absurd hc' hc
          | skip h' => exact h'
        have := hemb.length_le
        have hcf : chk s k code sv = false := by simpa using hc
        simp only [hcf, Bool.false_eq_true, if_false]
        rw [if_neg (by omega)]
        exact ih (s :: ss) hemb hs hks




theorem smallnum_check : ∀ k : Fin 21, 1 ≤ k.val →
    ((scriptNumEncode (k.val : Int) == [UInt8.ofNat k.val]) &&
     (match scriptNum [UInt8.ofNat k.val] true with | .ok v => v == (k.val : Int) | .error _ => false) &&
     (match scriptNum [UInt8.ofNat k.val] false with | .ok v => v == (k.val : Int) | .error _ => false) &&
     (scriptNumGetInt (k.val : Int) == (k.val : Int))) = true := by
  decide +kernel

theorem smallnum_facts (k : Fin 21) (hk : 1 ≤ k.val) :
    scriptNumEncode (k.val : Int) = [UInt8.ofNat k.val] ∧
    (∀ req, scriptNum [UInt8.ofNat k.val] req = .ok (k.val : Int)) ∧ scriptNumGetInt (k.val : Int) = k.val := by
  have h := smallnum_check k hk
  simp only [Bool.and_eq_true, beq_iff_eq] at h
  obtain ⟨⟨⟨h1, h2⟩, h3⟩, h4⟩ := h
  refine ⟨h1, ?_, h4⟩
  intro req
  cases req
  · cases hs : scriptNum [UInt8.ofNat k.val] false with
    | ok v => rw [hs] at h3; simp at h3; rw [h3]
    | error e => rw [hs] at h3; simp at h3
  · cases hs : scriptNum [UInt8.ofNat k.val] true with
    | ok v => rw [hs] at h2; simp at h2; rw [h2]
    | error e => rw [hs] at h2; simp at h2

/-- `OP_1 … OP_16` executed outside conditionals push the one-byte number -/
theorem stepP_opn (chk : PChk) (env : Env) (stack alt : List Bytes) (nOp cs pcNext : Nat) (k : Nat) (hk1 : 1 ≤ k) (hk : k ≤ 16)
    (hst : stack.length + alt.length < 1000) (hops : nOp ≤ 201) :
    stepP chk env ⟨stack, alt, [], nOp, cs⟩ (0x50 + k) [] pcNext = .ok ⟨[UInt8.ofNat k] :: stack, alt, [], nOp, cs⟩ := by
  unfold stepP stepM
  have h1 : ¬ ([] : Bytes).length > MAX_SCRIPT_ELEMENT_SIZE := by simp [MAX_SCRIPT_ELEMENT_SIZE]
  have h2 : ¬ 0x50 + k > OP_16 := by simp [OP_16]; omega
  have h3 : ¬ nOp > MAX_OPS_PER_SCRIPT := by simp [MAX_OPS_PER_SCRIPT]; omega
  have h4 : ¬ 0x50 + k ≤ OP_PUSHDATA4 := by simp [OP_PUSHDATA4]; omega
  have h5 : ((0x50 + k == OP_CHECKSIG || 0x50 + k == OP_CHECKSIGVERIFY) = false) := by
    simp [OP_CHECKSIG, OP_CHECKSIGVERIFY]; omega
  have h6 : ((0x50 + k == OP_CHECKMULTISIG || 0x50 + k == OP_CHECKMULTISIGVERIFY) = false) := by
    simp [OP_CHECKMULTISIG, OP_CHECKMULTISIGVERIFY]; omega
  have h7 : (0x50 + k == OP_1NEGATE || (decide (OP_1 ≤ 0x50 + k) && decide (0x50 + k ≤ OP_16))) = true := by
    have a : decide (OP_1 ≤ 0x50 + k) = true := decide_eq_true (by simp only [OP_1]; omega)
    have b : decide (0x50 + k ≤ OP_16) = true := decide_eq_true (by simp only [OP_16]; omega)
    simp [a, b]
  have henc : scriptNumEncode (Int.ofNat (0x50 + k) - Int.ofNat (OP_1 - 1)) = [UInt8.ofNat k] := by
    have := (smallnum_facts ⟨k, by omega⟩ hk1).1
    have e : Int.ofNat (0x50 + k) - Int.ofNat (OP_1 - 1) = (k : Int) := by simp [OP_1]; omega
    rw [e]; exact this
  simp only [h1, h2, h3, h4, h5, h6, if_false, List.all_nil, not_disabled_of_le (show 0x50 + k ≤ 0x60 by omega),
    Bool.true_and, Bool.false_eq_true, Bool.true_or, if_true, decide_false, Bool.and_false]
  simp only [execOp, h7, if_true, henc, Id.run, pure]
  simp [MAX_STACK_SIZE]; omega

/-- a run of direct pushes moves the items onto the stack, last pushed on top -/
theorem evalLoopP_pushes (chk : PChk) (env : Env) : ∀ (items : List Bytes) (rest : Bytes) (pc : Nat) (stack alt : List Bytes)
    (nOp cs : Nat), (∀ d ∈ items, d.length = 0 ∨ (2 ≤ d.length ∧ d.length ≤ 75)) →
    stack.length + alt.length + items.length < 1000 → nOp ≤ 201 →
    ∃ pc', evalLoopP chk env (pushesOf items ++ rest) pc ⟨stack, alt, [], nOp, cs⟩ =
      evalLoopP chk env rest pc' ⟨items.reverse ++ stack, alt, [], nOp, cs⟩ := by
  intro items
  induction items with
  | nil => intro rest pc stack alt nOp cs _ _ _; exact ⟨pc, by simp [pushesOf]⟩
  | cons d r ih =>
    intro rest pc stack alt nOp cs hall hst hops
    have hd := hall d (by simp)
    have hmin : checkMinimalPush d d.length = true := by
      rcases hd with h0 | ⟨h2, h75⟩
      · have : d = [] := List.eq_nil_of_length_eq_zero h0
        subst this; simp [checkMinimalPush, OP_0]
      · exact checkMinimalPush_direct d h2 h75
    have e : pushesOf (d :: r) ++ rest = UInt8.ofNat d.length :: (d ++ (pushesOf r ++ rest)) := by
      simp [pushesOf, directPush]
    rw [e, evalLoopP_step _ _ _ _ _ _ _ (getScriptOp_direct d _ (by omega))
      (stepP_push _ _ _ _ _ _ _ _ _ (by omega) (by omega) hmin (by simp at hst ⊢; omega) hops)]
    obtain ⟨pc', h⟩ := ih rest (pc + (1 + 0 + d.length)) (d :: stack) alt nOp cs
      (fun x hx => hall x (List.mem_cons_of_mem _ hx)) (by simp at hst ⊢; omega) hops
    exact ⟨pc', by rw [h]; simp⟩




theorem scriptCodeFor_codeSep (env : Env) (st st' : State) (sigs : List Bytes) (h : st.codeSep = st'.codeSep) :
    scriptCodeFor env st sigs = scriptCodeFor env st' sigs := by
  simp [scriptCodeFor, h]

/-- `OP_CHECKMULTISIG` on `… dummy sig_m … sig_1 m key_n … key_1 n` (top of stack on the left) when the matching loop accepts -/
theorem stepP_checkmultisig (chk : PChk) (env : Env) (alt : List Bytes) (nOp cs pcNext : Nat)
    (keysTop sigsTop rest : List Bytes) (hn1 : 1 ≤ keysTop.length) (hn : keysTop.length ≤ 20)
    (hm1 : 1 ≤ sigsTop.length) (hm : sigsTop.length ≤ keysTop.length)
    (hops : nOp + 1 + keysTop.length ≤ 201) (hst : rest.length + alt.length + 1 ≤ 1000)
    (hloop : multisigLoop (m := Id) (liftChk chk) env.flags env.sigversion
      (scriptCodeFor env ⟨[], [], [], 0, cs⟩ sigsTop) sigsTop keysTop = .ok true) :
    stepP chk env ⟨[UInt8.ofNat keysTop.length] :: (keysTop ++ ([UInt8.ofNat sigsTop.length] :: (sigsTop ++ ([] :: rest)))),
        alt, [], nOp, cs⟩ 0xae [] pcNext =
      .ok ⟨[1] :: rest, alt, [], nOp + 1 + keysTop.length, cs⟩ := by
  obtain ⟨_, kn, kg⟩ := smallnum_facts ⟨keysTop.length, by omega⟩ hn1
  obtain ⟨_, sn, sg⟩ := smallnum_facts ⟨sigsTop.length, by omega⟩ hm1
  simp only at kn kg sn sg
  unfold stepP stepM
  have h1 : ¬ ([] : Bytes).length > MAX_SCRIPT_ELEMENT_SIZE := by simp [MAX_SCRIPT_ELEMENT_SIZE]
  have h3 : ¬ nOp + 1 > MAX_OPS_PER_SCRIPT := by simp [MAX_OPS_PER_SCRIPT]; omega
  simp only [h1, h3, if_false, List.all_nil, show (0xae : Nat) > OP_16 from by decide, if_true,
    show isDisabledOpcode 0xae = false from by decide, Bool.false_eq_true,
    show ¬ (0xae : Nat) ≤ OP_PUSHDATA4 from by decide, decide_false, Bool.and_false, Bool.true_or,
    show ((0xae : Nat) == OP_CHECKSIG || (0xae : Nat) == OP_CHECKSIGVERIFY) = false from by decide,
    show ((0xae : Nat) == OP_CHECKMULTISIG || (0xae : Nat) == OP_CHECKMULTISIGVERIFY) = true from by decide]
  have hcode : scriptCodeFor env ⟨[UInt8.ofNat keysTop.length] :: (keysTop ++ ([UInt8.ofNat sigsTop.length] :: (sigsTop ++ ([] :: rest)))), alt, [], nOp + 1, cs⟩ sigsTop
      = scriptCodeFor env ⟨[], [], [], 0, cs⟩ sigsTop := scriptCodeFor_codeSep _ _ _ _ rfl
  simp only [execCheckMultiSig, num, kn, kg, sn, sg, MAX_PUBKEYS_PER_MULTISIG, MAX_OPS_PER_SCRIPT]
  have c1 : (decide ((keysTop.length : Int) < 0) || decide ((keysTop.length : Int) > Int.ofNat 20)) = false := by
    simp; omega
  have c2 : ¬ nOp + 1 + keysTop.length > 201 := by omega
  have c3 : ¬ (keysTop ++ [UInt8.ofNat sigsTop.length] :: (sigsTop ++ [] :: rest)).length < keysTop.length + 1 := by
    simp
  have d1 : List.drop keysTop.length (keysTop ++ [UInt8.ofNat sigsTop.length] :: (sigsTop ++ [] :: rest))
      = [UInt8.ofNat sigsTop.length] :: (sigsTop ++ [] :: rest) := List.drop_left
  have t1 : List.take keysTop.length (keysTop ++ [UInt8.ofNat sigsTop.length] :: (sigsTop ++ [] :: rest)) = keysTop :=
    List.take_left
  have c4 : (decide ((sigsTop.length : Int) < 0) || decide ((sigsTop.length : Int) > (keysTop.length : Int))) = false := by
    simp; omega
  have c5 : ¬ (sigsTop ++ [] :: rest).length < sigsTop.length + 1 := by simp
  have d2 : List.drop sigsTop.length (sigsTop ++ [] :: rest) = [] :: rest := List.drop_left
  have t2 : List.take sigsTop.length (sigsTop ++ [] :: rest) = sigsTop := List.take_left
  simp only [Int.toNat_natCast, c1, c2, c3, d1, t1, sn, sg, c4, c5, d2, t2, hcode, hloop, Bool.false_eq_true, if_false,
    bind, pure, Id.run]
  simp [boolBytes, vchTrue, OP_CHECKMULTISIGVERIFY, MAX_STACK_SIZE]
  omega




/-- `OP_m <key>… OP_n CHECKMULTISIG` for `n ≤ 16` -/
def multisigScript (m : Nat) (keys : List Bytes) : Bytes :=
  UInt8.ofNat (0x50 + m) :: (pushesOf keys ++ [UInt8.ofNat (0x50 + keys.length), 0xae])

theorem pushesOf_length_le (items : List Bytes) (k : Nat) (h : ∀ d ∈ items, d.length ≤ k) :
    (pushesOf items).length ≤ items.length * (k + 1) := by
  induction items with
  | nil => simp [pushesOf]
  | cons d r ih =>
    have := ih (fun x hx => h x (List.mem_cons_of_mem _ hx))
    have hd := h d (by simp)
    have e : pushesOf (d :: r) = directPush d ++ pushesOf r := by simp [pushesOf]
    rw [e]; simp [directPush, Nat.succ_mul]; omega

/-- a scriptSig of direct pushes leaves the items on the stack, last pushed on top -/
theorem evalScript_pushes (chk : PChk) (items : List Bytes) (flags : Flags) (tx : TxCtx)
    (hall : ∀ d ∈ items, d.length = 0 ∨ (2 ≤ d.length ∧ d.length ≤ 75)) (hcount : items.length ≤ 100) :
    evalScript chk [] (pushesOf items) flags tx .base = .ok items.reverse := by
  have hl := pushesOf_length_le items 75 (fun d hd => by rcases hall d hd with h | h <;> omega)
  apply evalScript_of_loop _ _ _ _ _ _ (by omega) ⟨items.reverse, [], [], 0, 0⟩ _ rfl
  obtain ⟨pc', h⟩ := evalLoopP_pushes chk ⟨pushesOf items, flags, .base, tx⟩ items [] 0 [] [] 0 0 hall (by simp; omega) (by omega)
  simp only [List.append_nil] at h
  rw [h, evalLoopP_nil]

/-- the multisig script run on `sig_top … sig_bottom dummy` (top first) leaves a single true when the matching loop accepts -/
theorem evalScript_multisig (chk : PChk) (m : Nat) (keys sigsTop : List Bytes) (flags : Flags) (tx : TxCtx) (sv : SigVersion)
    (hm : sigsTop.length = m) (hm1 : 1 ≤ m) (hmn : m ≤ keys.length) (hn : keys.length ≤ 16)
    (hkeys : ∀ k ∈ keys, 2 ≤ k.length ∧ k.length ≤ 75)
    (hloop : multisigLoop (m := Id) (liftChk chk) flags sv
      (scriptCodeFor ⟨multisigScript m keys, flags, sv, tx⟩ ⟨[], [], [], 0, 0⟩ sigsTop) sigsTop keys.reverse = .ok true) :
    evalScript chk (sigsTop ++ [[]]) (multisigScript m keys) flags tx sv = .ok [[1]] := by
  have hl := pushesOf_length_le keys 75 (fun d hd => (hkeys d hd).2)
  apply evalScript_of_loop _ _ _ _ _ _ (by simp [multisigScript]; omega) ⟨[[1]], [], [], 0 + 1 + keys.reverse.length, 0⟩ _ rfl
  generalize henv : (⟨multisigScript m keys, flags, sv, tx⟩ : Env) = env at *
  have hf : env.flags = flags := by rw [← henv]
  have hv : env.sigversion = sv := by rw [← henv]
  have tm : (UInt8.ofNat (0x50 + m)).toNat = 0x50 + m := toNat_ofNat_lt (by omega)
  have tn : (UInt8.ofNat (0x50 + keys.length)).toNat = 0x50 + keys.length := toNat_ofNat_lt (by omega)
  unfold multisigScript
  rw [evalLoopP_step _ _ _ _ _ _ _ (getScriptOp_op _ _ (by rw [tm]; omega))
    (by rw [tm]; exact stepP_opn _ _ _ _ _ _ _ m hm1 (by omega) (by simp; omega) (by omega))]
  obtain ⟨pc', h⟩ := evalLoopP_pushes chk env keys [UInt8.ofNat (0x50 + keys.length), 0xae] (0 + 1) ([UInt8.ofNat m] :: (sigsTop ++ [[]])) [] 0 0
    (fun d hd => Or.inr (hkeys d hd)) (by simp; omega) (by omega)
  rw [h]
  rw [evalLoopP_step _ _ _ _ _ _ _ (getScriptOp_op _ _ (by rw [tn]; omega))
    (by rw [tn]; exact stepP_opn _ _ _ _ _ _ _ keys.length (by omega) hn (by simp; omega) (by omega))]
  have hkl : keys.reverse.length = keys.length := List.length_reverse
  rw [← hm, ← hkl]
  rw [evalLoopP_step _ _ _ _ _ _ _ (getScriptOp_op 0xae _ (by decide))
    (stepP_checkmultisig _ _ _ _ _ _ keys.reverse sigsTop [] (by omega) (by omega) (by omega) (by omega) (by omega) (by simp)
      (by rw [hf, hv]; exact hloop))]
  rw [evalLoopP_nil]




theorem multisig_not_p2sh (m : Nat) (keys : List Bytes) (hm : m ≤ 16) : isPayToScriptHash (multisigScript m keys) = false := by
  have tm : (UInt8.ofNat (0x50 + m)).toNat = 0x50 + m := toNat_ofNat_lt (by omega)
  have hne : UInt8.ofNat (0x50 + m) ≠ 0xa9 := by
    intro h; have := congrArg UInt8.toNat h; rw [tm] at this; simp at this; omega
  unfold isPayToScriptHash multisigScript
  have : ((UInt8.ofNat (0x50 + m) :: (pushesOf keys ++ [UInt8.ofNat (0x50 + keys.length), 0xae]))[0]? == some 0xa9) = false := by
    simp only [List.getElem?_cons_zero]
    cases hb : (some (UInt8.ofNat (0x50 + m)) == some (0xa9 : UInt8)) with
    | false => rfl
    | true => exact absurd (by simpa using hb) hne
  rw [this]; simp

theorem multisig_not_witness (m : Nat) (keys : List Bytes) (hk : 1 ≤ keys.length)
    (hkeys : ∀ k ∈ keys, 2 ≤ k.length ∧ k.length ≤ 75) : isWitnessProgram (multisigScript m keys) = none := by
  cases keys with
  | nil => simp at hk
  | cons k ks =>
    have hk75 := (hkeys k (by simp)).2
    have tk : (UInt8.ofNat k.length).toNat = k.length := toNat_ofNat_lt (by omega)
    have e : multisigScript m (k :: ks) =
        UInt8.ofNat (0x50 + m) :: UInt8.ofNat k.length :: (k ++ (pushesOf ks ++ [UInt8.ofNat (0x50 + (k :: ks).length), 0xae])) := by
      simp [multisigScript, pushesOf, directPush]
    rw [e]
    unfold isWitnessProgram
    split
    · rfl
    · simp only [tk, List.length_cons, List.length_append]
      split
      · rfl
      · rw [if_neg]
        simp


end Pycoin.Sign
