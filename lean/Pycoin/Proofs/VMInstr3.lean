import Mathlib.Tactic.SplitIfs
import Mathlib.Tactic.IntervalCases
import Pycoin.Proofs.VMInstr2
/-!
The remaining instruction classes (pushes, OP_1NEGATE/OP_n, OP_RESERVED, disabled opcodes) and the assembled
statement: `eval_instruction` = one iteration of Core's loop for every opcode outside the CHECKSIG family.
-/
namespace Pycoin.VM
open Pycoin.Spec Pycoin.Gen.VM CondStack Consensus

variable (chk : Bytes → Bytes → Bytes → Bool → Bool) (cfg : Config)

theorem disabled_table : ∀ op, op < 256 → isDisabledOpcode op = true →
    lookupList[op]? = some (.badOpcode errno_DISABLED_OPCODE, true) := by decide +kernel

theorem reserved_table : lookupList[0x50]? = some (.misc_RESERVED, true) := by decide +kernel

/-- Core's iteration for a push opcode (`opcode ≤ OP_PUSHDATA4`) -/
theorem specStep_push (st : Consensus.State) (op pcNext : Nat) (data : Bytes) (h1 : op ≤ 0x4e) :
    specStep chk cfg st op data pcNext =
      if data.length > 520 then .error .PUSH_SIZE
      else if st.nOpCount > 201 then .error .OP_COUNT
      else if st.vfExec.all id then
        if (Flags.ofBits cfg.flags).minimaldata && !checkMinimalPush data op then .error .MINIMALDATA
        else afterC (.ok { st with stack := data :: st.stack })
      else afterC (.ok st) := by
  have e1 : op ≤ OP_PUSHDATA4 := by simp [OP_PUSHDATA4]; omega
  have e2 : ¬ op > OP_16 := by simp [OP_16]; omega
  have e3 : isDisabledOpcode op = false := not_disabled_low op (by omega)
  have e4 : (decide (OP_IF ≤ op) && decide (op ≤ OP_ENDIF)) = false := by
    have : ¬ (OP_IF ≤ op) := by simp only [OP_IF]; omega
    simp [this]
  simp only [specStep, stepM, Id.run, MAX_SCRIPT_ELEMENT_SIZE, MAX_OPS_PER_SCRIPT, e1, e2, e3, e4, if_false, Bool.false_eq_true,
    decide_true, Bool.and_true, Bool.or_false, afterC, Consensus.MAX_STACK_SIZE, pure, specEnv]
  split_ifs <;> simp_all

theorem absS_push (st : Consensus.State) (pc pcNext : Nat) (data : Bytes) :
    ({ push data (absS st pc) with pc := pcNext } : State) = absS { st with stack := data :: st.stack } pcNext := by
  simp [absS, push]

theorem absS_pc (st : Consensus.State) (pc pcNext : Nat) : ({ absS st pc with pc := pcNext } : State) = absS st pcNext := by
  simp [absS]

/-- the common tail for data opcodes: `eval_instruction`'s limits against Core's count check + `after` -/
theorem data_tail (st' : Consensus.State) (pcNext : Nat) :
    Agree pcNext
      (if (absS st' pcNext).opCount > MAX_OP_COUNT then .error (scriptErr errno_OP_COUNT)
       else if (absS st' pcNext).stack.length + (absS st' pcNext).altstack.length > Gen.VM.MAX_STACK_SIZE then
         .error (scriptErr errno_STACK_SIZE)
       else .ok (absS st' pcNext))
      (if st'.nOpCount > 201 then .error .OP_COUNT else afterC (.ok st')) := by
  have hc : ((absS st' pcNext).opCount > (MAX_OP_COUNT : Nat)) ↔ st'.nOpCount > 201 := by
    simp only [absS, MAX_OP_COUNT]; omega
  by_cases h : st'.nOpCount > 201
  · have := hc.mpr h
    simp [Agree, h, this, Except.toOption]
  · have h' : ¬ ((absS st' pcNext).opCount > (MAX_OP_COUNT : Nat)) := fun hh => h (hc.mp hh)
    simp only [h, h', if_false, afterC, Agree, absS, Gen.VM.MAX_STACK_SIZE, Consensus.MAX_STACK_SIZE]
    have h2 : ¬ MAX_OP_COUNT < st'.nOpCount := by simp only [MAX_OP_COUNT]; omega
    by_cases hs : 1000 < st'.stack.length + st'.alt.length <;> simp [hs, h2, Except.toOption]

theorem getScriptOp_op (b : UInt8) (tl : Bytes) (op : Nat) (d r : Bytes) (sz : Nat)
    (h : getScriptOp (b :: tl) = some (op, d, r, sz)) : op = b.toNat := by
  unfold getScriptOp at h
  simp only at h
  split_ifs at h <;> simp_all

theorem evalInstr_notok (env : Env) (cfg : Config) (s : State) (f : Fetched)
    (hget : getOpcode cfg.script s.pc (hasFlag cfg.flags VERIFY_MINIMALDATA && s.cond.allIfTrue) = .ok f)
    (hok : f.isOk = false) : evalInstruction env cfg s = .error (scriptErr errno_BAD_OPCODE) := by
  unfold evalInstruction
  simp [hget, hok, bind, Except.bind]

theorem evalInstr_nonminimal (env : Env) (cfg : Config) (s : State)
    (hget : getOpcode cfg.script s.pc (hasFlag cfg.flags VERIFY_MINIMALDATA && s.cond.allIfTrue) = .error nonMinimal) :
    evalInstruction env cfg s = .error nonMinimal := by
  unfold evalInstruction
  simp [hget, bind, Except.bind]

/-- **one instruction**: for every Core state, every position inside the script and every opcode outside the CHECKSIG
family, `eval_instruction` on the representing pycoin state and one iteration of Core's loop agree (both fail, or both
succeed with corresponding states) -/
theorem instr_eq (st : Consensus.State) (pc : Nat) (hpc : pc < cfg.script.length)
    (hw : hasFlag cfg.flags VERIFY_MINIMALIF = true → cfg.witness = true) :
    match getScriptOp (cfg.script.drop pc) with
    | none => (evalInstruction (stdEnv chk) cfg (absS st pc)).toOption = none
    | some (op, data, _, size) =>
      ¬ (0xac ≤ op ∧ op ≤ 0xaf) →
        Agree (pc + size) (evalInstruction (stdEnv chk) cfg (absS st pc)) (specStep chk cfg st op data (pc + size)) := by
  have hall : (absS st pc).cond.allIfTrue = st.vfExec.all id := absC_allIfTrue st.vfExec
  have hpcs : (absS st pc).pc = pc := rfl
  have hr := getOp_refines cfg.script pc (hasFlag cfg.flags VERIFY_MINIMALDATA && (absS st pc).cond.allIfTrue) hpc
  unfold GetOpRefines at hr
  cases hd : cfg.script.drop pc with
  | nil => have := List.drop_eq_nil_iff.mp hd; omega
  | cons b tl =>
  rw [hd] at hr
  cases hg : getScriptOp (b :: tl) with
  | none =>
    rw [hg] at hr
    obtain ⟨f, hf, hok, _⟩ := hr
    simp only
    rw [evalInstr_notok (stdEnv chk) cfg (absS st pc) f hf hok]; rfl
  | some r =>
    obtain ⟨op, data, rest, size⟩ := r
    rw [hg] at hr
    simp only at hr ⊢
    intro hns
    have hopb := getScriptOp_op b tl op data rest size hg
    have hlt : op < 256 := by rw [hopb]; exact b.toNat_lt
    by_cases h1 : op ≤ OP_PUSHDATA4
    · -- data pushes
      have h1' : op ≤ 0x4e := by simpa [OP_PUSHDATA4] using h1
      simp only [h1, if_true] at hr
      rw [specStep_push chk cfg st op (pc + size) data h1']
      by_cases hmin : (hasFlag cfg.flags VERIFY_MINIMALDATA && (absS st pc).cond.allIfTrue && !checkMinimalPush data op) = true
      · simp only [hmin, if_true] at hr
        rw [evalInstr_nonminimal (stdEnv chk) cfg (absS st pc) hr]
        have hm : hasFlag cfg.flags VERIFY_MINIMALDATA = true ∧ st.vfExec.all id = true ∧ checkMinimalPush data op = false := by
          rw [hall] at hmin
          generalize hasFlag cfg.flags VERIFY_MINIMALDATA = fa at hmin ⊢
          generalize st.vfExec.all id = fb at hmin ⊢
          generalize checkMinimalPush data op = fc at hmin ⊢
          cases fa <;> cases fb <;> cases fc <;> simp_all
        rw [← flag_minimaldata]
        simp only [Agree, Except.toOption, hm.1, hm.2.1, hm.2.2, Bool.not_false, Bool.and_true, if_true]
        split_ifs <;> rfl
      · simp only [hmin, Bool.false_eq_true, if_false] at hr
        have htab := tbl_push op (by omega) (by omega)
        rw [evalInstr_data (stdEnv chk) cfg (absS st pc) op data (pc + size) hr htab, ← flag_minimaldata, hall]
        have hnm : ¬ ((hasFlag cfg.flags VERIFY_MINIMALDATA && !checkMinimalPush data op) = true ∧ st.vfExec.all id = true) := by
          intro ⟨ha, hb⟩; apply hmin; rw [hall]; simp_all
        by_cases hl : data.length > 520
        · have : data.length > MAX_BLOB_LENGTH := hl
          simp [Agree, hl, this, Except.toOption]
        · have : ¬ data.length > MAX_BLOB_LENGTH := hl
          simp only [hl, this, if_false]
          cases hf : st.vfExec.all id
          · simp only [Bool.false_eq_true, if_false]
            have := data_tail st (pc + size)
            simp only [absS, push] at this ⊢
            exact this
          · have hm2 : ¬ ((hasFlag cfg.flags VERIFY_MINIMALDATA && !checkMinimalPush data op) = true) := fun ha => hnm ⟨ha, hf⟩
            simp only [if_true, hm2, if_false]
            have := data_tail { st with stack := data :: st.stack } (pc + size)
            simp only [absS, push] at this ⊢
            exact this
    · have h1' : 0x4e < op := by simp only [OP_PUSHDATA4] at h1; omega
      have hb : 78 < b.toNat := by rw [← hopb]; exact h1'
      rw [spec_other b tl hb] at hg
      simp only [Option.some.injEq, Prod.mk.injEq] at hg
      obtain ⟨_, hdata, _, hsize⟩ := hg
      subst hdata; subst hsize
      simp only [h1, if_false] at hr
      by_cases h2 : op = OP_1NEGATE ∨ (OP_1 ≤ op ∧ op ≤ OP_16)
      · -- OP_1NEGATE, OP_1 … OP_16: pycoin's decoder carries the number, Core's switch pushes it
        simp only [h2, if_true] at hr
        have hle : op ≤ 0x60 := by simp only [OP_1NEGATE, OP_1, OP_16] at h2; omega
        have hne : op ≠ 80 := by simp only [OP_1NEGATE, OP_1, OP_16] at h2; omega
        have htab := tbl_push op (by omega) hne
        rw [evalInstr_data (stdEnv chk) cfg (absS st pc) op _ (pc + 1) hr htab, specStep_op chk cfg st op (pc + 1) h1' hns, hall]
        have hng : ¬ op > 0x60 := by omega
        have hnd := not_disabled_low op hle
        have hrange : (decide (0x63 ≤ op) && decide (op ≤ 0x68)) = false := by
          have : ¬ 0x63 ≤ op := by omega
          simp [this]
        have hexec : ∀ f, execOp (specEnv cfg) st f op (pc + 1) =
            .ok { st with stack := scriptNumEncode (Int.ofNat op - Int.ofNat (OP_1 - 1)) :: st.stack } := by
          intro f; simp [execOp, h2]
        have hlen : ¬ (scriptNumEncode (Int.ofNat op - Int.ofNat (OP_1 - 1))).length > MAX_BLOB_LENGTH := by
          have : ∀ n : Nat, n < 97 → 79 ≤ n → (scriptNumEncode (Int.ofNat n - Int.ofNat (OP_1 - 1))).length ≤ 1 := by
            decide +kernel
          have := this op (by omega) (by omega)
          simp only [MAX_BLOB_LENGTH]; omega
        simp only [hng, if_false, hnd, Bool.false_eq_true, hrange, Bool.or_false, hlen, hexec]
        cases hf : st.vfExec.all id
        · simp only [Bool.false_eq_true, if_false]
          have := data_tail st (pc + 1)
          simp only [absS, push] at this ⊢
          exact this
        · simp only [if_true]
          have := data_tail { st with stack := scriptNumEncode (Int.ofNat op - Int.ofNat (OP_1 - 1)) :: st.stack } (pc + 1)
          simp only [absS, push] at this ⊢
          exact this
      · simp only [h2, if_false] at hr
        have hr' : getOpcode cfg.script (absS st pc).pc
            (hasFlag cfg.flags VERIFY_MINIMALDATA && (absS st pc).cond.allIfTrue) = .ok ⟨op, none, pc + 1, true⟩ := hr
        by_cases h3 : op = 0x50
        · -- OP_RESERVED: counted by pycoin, un-counted by its handler when skipped; BAD_OPCODE when executed
          subst h3
          rw [evalInstr_op (stdEnv chk) cfg (absS st pc) 0x50 (pc + 1) _ _ hr' reserved_table,
            specStep_op chk cfg st 0x50 (pc + 1) (by decide) hns, hall]
          have hbad := h_bad cfg st (pc + 1) (st.vfExec.all id) 0x50 (Or.inl rfl) (.py "x")
          simp only [Agree, Except.toOption, Option.map] at hbad
          have hbad' : ∃ e, execOp (specEnv cfg) st (st.vfExec.all id) 0x50 (pc + 1) = .error e := by
            cases hx : execOp (specEnv cfg) st (st.vfExec.all id) 0x50 (pc + 1) with
            | error e => exact ⟨e, rfl⟩
            | ok v => rw [hx] at hbad; simp at hbad
          obtain ⟨e, he⟩ := hbad'
          have hnd : isDisabledOpcode 0x50 = false := by decide
          simp only [Bool.or_true, if_true, runHandler, do_RESERVED, hnd, Bool.false_eq_true, if_false,
            show ¬ ((0x50 : Nat) > 0x60) by decide, show (decide (0x63 ≤ (0x50 : Nat)) && decide ((0x50 : Nat) ≤ 0x68)) = false by decide,
            Bool.or_false]
          have hall2 : ({ absS st pc with opCount := (absS st pc).opCount + 1, pc := pc + 1 } : State).cond.allIfTrue = st.vfExec.all id := hall
          cases hf : st.vfExec.all id
          · rw [hf] at hall2
            simp only [hall2, Bool.false_eq_true, if_false, Except.bind, pure, Except.pure]
            have := data_tail st (pc + 1)
            simp only [absS, Int.add_sub_cancel] at this ⊢
            exact this
          · rw [hf] at hall2 he
            simp only [hall2, if_true, Except.bind, he, afterC]
            by_cases hc : st.nOpCount > 201 <;> simp [Agree, Except.toOption, hc]
        · by_cases h4 : isDisabledOpcode op = true
          · -- disabled opcodes fail wherever they occur
            have htab := disabled_table op hlt h4
            rw [evalInstr_op (stdEnv chk) cfg (absS st pc) op (pc + 1) _ _ hr' htab,
              specStep_op chk cfg st op (pc + 1) h1' hns]
            simp only [Bool.or_true, if_true, runHandler, Except.bind, h4]
            by_cases hc : (if op > 0x60 then st.nOpCount + 1 else st.nOpCount) > 201 <;> simp [Agree, Except.toOption, hc]
          · have h4' : isDisabledOpcode op = false := by simpa using h4
            have hgt : 0x60 < op := by simp only [OP_1NEGATE, OP_1, OP_16] at h2; omega
            obtain ⟨h, oc, htab, hoc, hag⟩ := counted_table chk cfg (pc + 1) op hgt hlt hns h4' hw
            exact instr_counted chk cfg st pc (pc + 1) op h oc hgt hlt hns h4' hr htab hoc hag

end Pycoin.VM
