import Pycoin.Model.Wire
import Pycoin.Proofs.Bytes
/-!
The prefix-parser law (DESIGN.md F2) for the codecs of `Model/Wire.lean`:

    WF a → ser a = ok b → parse (b ++ rest) = ok (a, rest)

for each primitive codec, and its closure under sequencing (`PrefixLaw.seq`), format strings
(`parseStruct_streamStruct`), item lists (`parseN_streamList`), compact-size counted lists
(`parseCounted_streamCounted`) and optional trailing data (`PrefixLaw.optional`).
Corollaries: round trip, injectivity of `ser`, unique decoding (`PrefixLaw.unique`).  Core Lean only.
-/
namespace Pycoin.Wire

/-- the prefix-parser law -/
def PrefixLaw {α : Type} (ser : α → Except Err Bytes) (parse : Parser α) (WF : α → Prop) : Prop :=
  ∀ a b rest, WF a → ser a = .ok b → parse (b ++ rest) = .ok (a, rest)

theorem bind_eq_ok {ε α β : Type} (x : Except ε α) (f : α → Except ε β) (b : β) :
    (x >>= f) = .ok b ↔ ∃ a, x = .ok a ∧ f a = .ok b := by
  cases x <;> simp [bind, Except.bind]

/-! ## corollaries -/

theorem PrefixLaw.roundTrip {α : Type} {ser : α → Except Err Bytes} {parse : Parser α} {WF : α → Prop}
    (law : PrefixLaw ser parse WF) (a : α) (b : Bytes) (h : WF a) (hs : ser a = .ok b) :
    parse b = .ok (a, []) := by
  have := law a b [] h hs
  simpa using this

/-- unique decoding: equal streams, whatever follows, carry equal values and equal remainders -/
theorem PrefixLaw.unique {α : Type} {ser : α → Except Err Bytes} {parse : Parser α} {WF : α → Prop}
    (law : PrefixLaw ser parse WF) (a a' : α) (b b' r r' : Bytes) (h : WF a) (h' : WF a')
    (hs : ser a = .ok b) (hs' : ser a' = .ok b') (he : b ++ r = b' ++ r') : a = a' ∧ r = r' := by
  have h1 := law a b r h hs
  have h2 := law a' b' r' h' hs'
  rw [he, h2] at h1
  injection h1 with h1
  injection h1 with h1 h3
  exact ⟨h1.symm, h3.symm⟩

theorem PrefixLaw.injective {α : Type} {ser : α → Except Err Bytes} {parse : Parser α} {WF : α → Prop}
    (law : PrefixLaw ser parse WF) (a a' : α) (b : Bytes) (h : WF a) (h' : WF a')
    (hs : ser a = .ok b) (hs' : ser a' = .ok b) : a = a' :=
  (law.unique a a' b b [] [] h h' hs hs' rfl).1

/-! ## fixed-width integers -/

theorem packLE_ok {k : Nat} {v : Int} {b : Bytes} (h : packLE k v = .ok b) :
    0 ≤ v ∧ v.toNat < 256 ^ k ∧ b = leBytes v.toNat k := by
  unfold packLE at h
  split at h
  · rename_i hr
    injection h with h
    refine ⟨hr.1, ?_, h.symm⟩
    have := hr.2
    omega
  · cases h

theorem packBE_ok {k : Nat} {v : Int} {b : Bytes} (h : packBE k v = .ok b) :
    0 ≤ v ∧ v.toNat < 256 ^ k ∧ b = beBytes v.toNat k := by
  unfold packBE at h
  split at h
  · rename_i hr
    injection h with h
    refine ⟨hr.1, ?_, h.symm⟩
    have := hr.2
    omega
  · cases h

theorem unpackLE_append (k : Nat) (b rest : Bytes) (hb : b.length = k) :
    unpackLE k (b ++ rest) = .ok (leNat b, rest) := by
  unfold unpackLE
  have : ¬ (b ++ rest).length < k := by simp; omega
  simp only [this, if_false]
  rw [List.take_left' hb, List.drop_left' hb]

theorem unpackBE_append (k : Nat) (b rest : Bytes) (hb : b.length = k) :
    unpackBE k (b ++ rest) = .ok (beNat b, rest) := by
  unfold unpackBE
  have : ¬ (b ++ rest).length < k := by simp; omega
  simp only [this, if_false]
  rw [List.take_left' hb, List.drop_left' hb]

theorem unpackLE_packLE (k : Nat) (v : Int) (b rest : Bytes) (h : packLE k v = .ok b) :
    unpackLE k (b ++ rest) = .ok (v.toNat, rest) ∧ (v.toNat : Int) = v := by
  obtain ⟨h0, h1, rfl⟩ := packLE_ok h
  rw [unpackLE_append k _ rest (leBytes_length _ _), leNat_leBytes_of_lt h1]
  exact ⟨rfl, Int.toNat_of_nonneg h0⟩

theorem unpackBE_packBE (k : Nat) (v : Int) (b rest : Bytes) (h : packBE k v = .ok b) :
    unpackBE k (b ++ rest) = .ok (v.toNat, rest) ∧ (v.toNat : Int) = v := by
  obtain ⟨h0, h1, rfl⟩ := packBE_ok h
  rw [unpackBE_append k _ rest (beBytes_length _ _), beNat_beBytes_of_lt h1]
  exact ⟨rfl, Int.toNat_of_nonneg h0⟩

/-! ## compact-size integers -/

theorem map_cons_ok {x : Except Err Bytes} {c : UInt8} {b : Bytes} (h : x.map (c :: ·) = .ok b) :
    ∃ t, x = .ok t ∧ b = c :: t := by
  cases x with
  | error e => cases h
  | ok t =>
    injection h with h
    exact ⟨t, rfl, h.symm⟩

/-- `stream_satoshi_int` then `parse_satoshi_int`, for every value that streams at all (0 ≤ v < 2^64),
across the boundaries 252/253, 65535/65536, 2^32−1/2^32 -/
theorem parseSatoshiInt_streamSatoshiInt (v : Int) (b rest : Bytes) (h : streamSatoshiInt v = .ok b) :
    parseSatoshiInt none (b ++ rest) = .ok (v.toNat, rest) ∧ (v.toNat : Int) = v := by
  unfold streamSatoshiInt at h
  split at h
  · rename_i hlt
    obtain ⟨h0, h1, rfl⟩ := packLE_ok h
    have hv : v.toNat < 253 := by omega
    refine ⟨?_, Int.toNat_of_nonneg h0⟩
    have hb : (UInt8.ofNat (v.toNat % 256)).toNat = v.toNat := by
      simp [UInt8.toNat_ofNat']; omega
    simp only [leBytes, List.cons_append, List.nil_append, parseSatoshiInt, readByte, hb, parseSatoshiIntV]
    have h253 : ¬ v.toNat = 253 := by omega
    have h254 : ¬ v.toNat = 254 := by omega
    have h255 : ¬ v.toNat = 255 := by omega
    simp [h253, h254, h255]
  · split at h
    · obtain ⟨t, ht, rfl⟩ := map_cons_ok h
      have ⟨h1, h2⟩ := unpackLE_packLE 2 v t rest ht
      refine ⟨?_, h2⟩
      simp [parseSatoshiInt, readByte, parseSatoshiIntV, h1]
    · split at h
      · obtain ⟨t, ht, rfl⟩ := map_cons_ok h
        have ⟨h1, h2⟩ := unpackLE_packLE 4 v t rest ht
        refine ⟨?_, h2⟩
        simp [parseSatoshiInt, readByte, parseSatoshiIntV, h1]
      · obtain ⟨t, ht, rfl⟩ := map_cons_ok h
        have ⟨h1, h2⟩ := unpackLE_packLE 8 v t rest ht
        refine ⟨?_, h2⟩
        simp [parseSatoshiInt, readByte, parseSatoshiIntV, h1]

theorem satoshiInt_law : PrefixLaw (fun n : Nat => streamSatoshiInt n) (parseSatoshiInt none) (fun _ => True) := by
  intro n b rest _ h
  have := (parseSatoshiInt_streamSatoshiInt n b rest h).1
  simpa using this

/-! ## length-prefixed strings -/

theorem parseSatoshiString_streamSatoshiString (s b rest : Bytes) (hl : s.length < 2 ^ 63)
    (h : streamSatoshiString s = .ok b) : parseSatoshiString (b ++ rest) = .ok (s, rest) := by
  unfold streamSatoshiString at h
  split at h
  · cases h
  · rename_i hd hh
    have h := Except.ok.inj h
    subst h
    have := (parseSatoshiInt_streamSatoshiInt s.length hd (s ++ rest) hh).1
    unfold parseSatoshiString
    rw [List.append_assoc, this]
    rw [Int.toNat_natCast]
    have hn : ¬ (s.length ≥ 2 ^ 63) := Nat.not_le.mpr hl
    simp only [hn, if_false]
    rw [List.take_left' rfl, List.drop_left' rfl]

theorem satoshiString_law : PrefixLaw streamSatoshiString parseSatoshiString (fun s => s.length < 2 ^ 63) :=
  fun s b rest hl h => parseSatoshiString_streamSatoshiString s b rest hl h

/-! ## format letters -/

/-- the values a letter carries faithfully -/
def LetterWF : Kind → Val → Prop
  | .uintLE _, .int _ => True          -- out-of-range values do not stream at all
  | .uintBE _, .int _ => True
  | .compactInt, .int _ => True
  | .compactString, .bytes b => b.length < 2 ^ 63
  | .fixedBytes n, .bytes b => b.length = n   -- longer values are cut, shorter ones shift the stream
  | .bool, .bool _ => True
  | _, _ => False

theorem parseLetter_streamLetter (k : Kind) (v : Val) (b rest : Bytes) (hwf : LetterWF k v)
    (h : streamLetter k v = .ok b) : parseLetter k (b ++ rest) = .ok (v, rest) := by
  cases k <;> cases v <;> simp only [LetterWF] at hwf
  · rename_i k v
    have ⟨h1, h2⟩ := unpackLE_packLE k v b rest h
    simp [parseLetter, h1, h2]
  · rename_i k v
    have ⟨h1, h2⟩ := unpackBE_packBE k v b rest h
    simp [parseLetter, h1, h2]
  · rename_i v
    have ⟨h1, h2⟩ := parseSatoshiInt_streamSatoshiInt v b rest h
    simp [parseLetter, h1, h2]
  · rename_i s
    have := parseSatoshiString_streamSatoshiString s b rest hwf h
    simp [parseLetter, this]
  · rename_i n s
    simp only [streamLetter] at h
    injection h with h
    subst h
    have hs : List.take n s = s := List.take_of_length_le (by omega)
    rw [hs]
    simp only [parseLetter]
    rw [List.take_left' hwf, List.drop_left' hwf]
  · rename_i x
    simp only [streamLetter] at h
    injection h with h
    subst h
    cases x <;> simp [parseLetter]

/-! ## `stream_struct` / `parse_struct` for formats without arrays -/

/-- every letter is registered, is not `[`, and carries its value faithfully; the lists have the same length -/
def StructWF (tbl : Char → Option Kind) : List Char → List Val → Prop
  | [], [] => True
  | c :: cs, v :: vs => c ≠ '[' ∧ (∃ k, tbl c = some k ∧ LetterWF k v) ∧ StructWF tbl cs vs
  | _, _ => False

theorem parseStruct_streamStruct (tbl : Char → Option Kind) :
    ∀ (fmt : List Char) (vals : List Val) (b rest : Bytes), StructWF tbl fmt vals →
      streamStruct tbl fmt vals = .ok b → parseStruct tbl fmt (b ++ rest) = .ok (vals, rest)
  | [], [], b, rest => by
    intro _ h
    simp only [streamStruct] at h
    injection h with h
    subst h
    simp [parseStruct, parseStructGo]
  | [], _ :: _, b, rest => by intro h; simp [StructWF] at h
  | _ :: _, [], b, rest => by intro h; simp [StructWF] at h
  | c :: cs, v :: vs, b, rest => by
    intro hwf h
    obtain ⟨hc, ⟨k, hk, hl⟩, hrest⟩ := hwf
    unfold streamStruct at h
    simp only [hk] at h
    cases ha : streamLetter k v with
    | error e => simp [ha] at h
    | ok a =>
      cases hr : streamStruct tbl cs vs with
      | error e => simp [ha, hr] at h
      | ok r =>
        simp only [ha, hr] at h
        injection h with h
        subst h
        have h1 := parseLetter_streamLetter k v a (r ++ rest) hl ha
        have h2 := parseStruct_streamStruct tbl cs vs r rest hrest hr
        unfold parseStruct at h2 ⊢
        unfold parseStructGo
        simp only [hc, if_false, hk, List.append_assoc, h1, h2]

/-! ## closure: sequencing, lists, counted lists, optional trailing data -/

/-- serialise `a` then `c`; the second codec may depend on the first value -/
def seqSer {α β : Type} (s1 : α → Except Err Bytes) (s2 : α → β → Except Err Bytes) : α × β → Except Err Bytes :=
  fun p =>
    match s1 p.1 with
    | .error e => .error e
    | .ok x =>
      match s2 p.1 p.2 with
      | .error e => .error e
      | .ok y => .ok (x ++ y)

def seqParse {α β : Type} (p1 : Parser α) (p2 : α → Parser β) : Parser (α × β) := fun b =>
  match p1 b with
  | .error e => .error e
  | .ok (a, r) =>
    match p2 a r with
    | .error e => .error e
    | .ok (c, r') => .ok ((a, c), r')

theorem PrefixLaw.seq {α β : Type} {s1 : α → Except Err Bytes} {p1 : Parser α} {W1 : α → Prop}
    {s2 : α → β → Except Err Bytes} {p2 : α → Parser β} {W2 : α → β → Prop}
    (l1 : PrefixLaw s1 p1 W1) (l2 : ∀ a, W1 a → PrefixLaw (s2 a) (p2 a) (W2 a)) :
    PrefixLaw (seqSer s1 s2) (seqParse p1 p2) (fun p => W1 p.1 ∧ W2 p.1 p.2) := by
  rintro ⟨a, c⟩ b rest ⟨hw1, hw2⟩ h
  unfold seqSer at h
  cases hx : s1 a with
  | error e => simp [hx] at h
  | ok x =>
    cases hy : s2 a c with
    | error e => simp [hx, hy] at h
    | ok y =>
      simp only [hx, hy] at h
      injection h with h
      subst h
      unfold seqParse
      rw [List.append_assoc, l1 a x (y ++ rest) hw1 hx]
      simp only
      rw [l2 a hw1 c y rest hw2 hy]

theorem parseN_streamList {α : Type} {s : α → Except Err Bytes} {p : Parser α} {WF : α → Prop}
    (law : PrefixLaw s p WF) :
    ∀ (l : List α) (b rest : Bytes), (∀ a ∈ l, WF a) → streamList s l = .ok b →
      parseN p l.length (b ++ rest) = .ok (l, rest)
  | [], b, rest => by
    intro _ h
    simp only [streamList] at h
    injection h with h
    subst h
    simp [parseN]
  | a :: as, b, rest => by
    intro hwf h
    unfold streamList at h
    cases hx : s a with
    | error e => simp [hx] at h
    | ok x =>
      cases hr : streamList s as with
      | error e => simp [hx, hr] at h
      | ok r =>
        simp only [hx, hr] at h
        injection h with h
        subst h
        have h1 := law a x (r ++ rest) (hwf a (by simp)) hx
        have h2 := parseN_streamList law as r rest (fun y hy => hwf y (by simp [hy])) hr
        simp only [List.length_cons, parseN, List.append_assoc, h1, h2]

/-- a list with a compact-size count in front -/
theorem parseCounted_streamCounted {α : Type} {s : α → Except Err Bytes} {p : Parser α} {WF : α → Prop}
    (law : PrefixLaw s p WF) :
    PrefixLaw (streamCounted s) (parseCounted p) (fun l => ∀ a ∈ l, WF a) := by
  intro l b rest hwf h
  unfold streamCounted at h
  cases hh : streamSatoshiInt l.length with
  | error e => simp [hh] at h
  | ok hd =>
    cases hr : streamList s l with
    | error e => simp [hh, hr] at h
    | ok r =>
      simp only [hh, hr] at h
      have h := Except.ok.inj h
      subst h
      have h1 := (parseSatoshiInt_streamSatoshiInt l.length hd (r ++ rest) hh).1
      unfold parseCounted
      rw [List.append_assoc, h1, Int.toNat_natCast]
      exact parseN_streamList law l r rest hwf hr

/-- optional trailing data whose presence the parser can tell from the value parsed so far
(`present a`): absent data serialises to nothing -/
def optSer {α β : Type} (s1 : α → Except Err Bytes) (_present : α → Bool) (s2 : α → β → Except Err Bytes) :
    α × Option β → Except Err Bytes :=
  fun p =>
    match p.2 with
    | none => s1 p.1
    | some c => seqSer s1 s2 (p.1, c)

def optParse {α β : Type} (p1 : Parser α) (present : α → Bool) (p2 : α → Parser β) : Parser (α × Option β) :=
  fun b =>
    match p1 b with
    | .error e => .error e
    | .ok (a, r) =>
      if present a then
        match p2 a r with
        | .error e => .error e
        | .ok (c, r') => .ok ((a, some c), r')
      else .ok ((a, none), r)

theorem PrefixLaw.optional {α β : Type} {s1 : α → Except Err Bytes} {p1 : Parser α} {W1 : α → Prop}
    {present : α → Bool} {s2 : α → β → Except Err Bytes} {p2 : α → Parser β} {W2 : α → β → Prop}
    (l1 : PrefixLaw s1 p1 W1) (l2 : ∀ a, W1 a → PrefixLaw (s2 a) (p2 a) (W2 a)) :
    PrefixLaw (optSer s1 present s2) (optParse p1 present p2)
      (fun p => W1 p.1 ∧ (present p.1 = p.2.isSome) ∧ ∀ c, p.2 = some c → W2 p.1 c) := by
  rintro ⟨a, oc⟩ b rest ⟨hw1, hp, hw2⟩ h
  cases oc with
  | none =>
    simp only [optSer] at h
    simp only [Option.isSome_none] at hp
    simp [optParse, l1 a b rest hw1 h, hp]
  | some c =>
    simp only [optSer] at h
    simp only [Option.isSome_some] at hp
    have := PrefixLaw.seq l1 l2 (a, c) b rest ⟨hw1, hw2 c rfl⟩ h
    unfold seqParse at this
    unfold optParse
    cases h1 : p1 (b ++ rest) with
    | error e => simp [h1] at this
    | ok ar =>
      obtain ⟨a', r⟩ := ar
      simp only [h1] at this ⊢
      cases h2 : p2 a' r with
      | error e => simp [h2] at this
      | ok cr =>
        obtain ⟨c', r'⟩ := cr
        simp only [h2] at this
        injection this with this
        injection this with h3 h4
        injection h3 with h5 h6
        subst h5 h6 h4
        simp [hp]

end Pycoin.Wire
