import Pycoin.Proofs.ChainTotal
/-! `add_headers` / `lock_to_index` never raise on well-formed histories (core Lean only) -/
namespace Pycoin.Chain

theorem walkParents_ok (f : Nat → Nat) (pl : Dict Nat) (hac : AcyclicPl f pl) : ∀ (fuel h : Nat),
    below f pl h + 1 ≤ fuel → ∃ r, walkParents pl fuel h = .ok r
  | 0, _, hf => by omega
  | fuel + 1, h, hf => by
      unfold walkParents
      cases hp : dget pl h with
      | none => exact ⟨_, rfl⟩
      | some p =>
        simp only
        obtain ⟨r, hr⟩ := walkParents_ok f pl hac fuel p (by have := below_lt hac h p hp; omega)
        exact ⟨h :: r, by rw [hr]; rfl⟩

theorem maximumPath_ok (f : Nat → Nat) (cf : CF) (hac : AcyclicPl f cf.parent) (h : Nat) :
    ∃ p, cf.maximumPath h = .ok p := by
  unfold CF.maximumPath
  split
  · exact ⟨_, rfl⟩
  · exact walkParents_ok f cf.parent hac _ h (by have := below_le_length f cf.parent h; omega)

theorem scanEq_some : ∀ (a b : List Nat), a.length = b.length → a ≠ [] → a.getLast? = b.getLast? →
    ∃ k, scanEq a b = some k
  | [], _, _, h, _ => absurd rfl h
  | _ :: _, [], hl, _, _ => by simp at hl
  | x :: a, y :: b, hl, _, hlast => by
      unfold scanEq
      by_cases e : x = y
      · exact ⟨0, by simp [e]⟩
      · simp only [e, if_false]
        cases a with
        | nil =>
          have : b = [] := by simpa using hl.symm
          subst this
          simp at hlast; exact absurd hlast e
        | cons a1 a' =>
          cases b with
          | nil => simp at hl
          | cons b1 b' =>
            obtain ⟨k, hk⟩ := scanEq_some (a1 :: a') (b1 :: b') (by simpa using hl) (by simp)
              (by simpa [List.getLast?_cons_cons] using hlast)
            exact ⟨k + 1, by rw [hk]; rfl⟩

theorem findAncestralPath_ok (f : Nat → Nat) (cf : CF) (hs : FinderSound cf) (hac : AcyclicPl f cf.parent) (x y : Nat) :
    ∃ r, cf.findAncestralPath x y = .ok r := by
  obtain ⟨p1, h1⟩ := maximumPath_ok f cf hac x
  obtain ⟨p2, h2⟩ := maximumPath_ok f cf hac y
  have n1 : p1 ≠ [] := (maximumPath_spec cf hs x p1 h1).1.ne_nil
  have n2 : p2 ≠ [] := (maximumPath_spec cf hs y p2 h2).1.ne_nil
  unfold CF.findAncestralPath
  rw [h1, h2]
  simp only [bind, Except.bind]
  by_cases hl : p1.getLast? ≠ p2.getLast?
  · simp [hl]
  · simp only [hl, if_false]
    have hl' : p1.getLast? = p2.getLast? := by simpa using hl
    have l1 : 0 < p1.length := List.length_pos_iff.mpr n1
    have l2 : 0 < p2.length := List.length_pos_iff.mpr n2
    obtain ⟨k, hk⟩ := scanEq_some (p1.drop (p1.length - min p1.length p2.length)) (p2.drop (p2.length - min p1.length p2.length))
      (by simp [List.length_drop]; omega)
      (by intro h; have := congrArg List.length h; simp [List.length_drop] at this; omega)
      (by
        rw [List.getLast?_drop, List.getLast?_drop]
        have a1 : ¬ p1.length ≤ p1.length - min p1.length p2.length := by omega
        have a2 : ¬ p2.length ≤ p2.length - min p1.length p2.length := by omega
        simp only [a1, a2, if_false]; exact hl')
    rw [hk]
    exact ⟨_, rfl⟩

theorem allChains_ok (rev : Bool) (cf : CF) (fo : FinderOK cf) (a : Nat) : ∃ cs, cf.allChainsEndingAt rev a = .ok cs := by
  unfold CF.allChainsEndingAt
  cases hd : dget cf.dbt a with
  | none => exact ⟨[], rfl⟩
  | some s =>
    obtain ⟨cs, hcs, _⟩ := mapM_trees_ok cf (siter rev s) (by
      intro b hb
      obtain ⟨t, ht, _⟩ := fo.inv.dsound a s b hd ((mem_siter rev s b).mp hb)
      exact ⟨t, ht⟩)
    exact ⟨cs, hcs⟩

theorem removeOps_ok (bc : BC) (size : Int) : ∀ (path : List Nat) (idx : Nat) (m : Dict Int),
    (∀ h ∈ path, dhas m h = true) → path.Nodup → ∃ res, removeOps bc size idx path m = .ok res
  | [], _, m, _, _ => ⟨([], m), rfl⟩
  | h :: r, idx, m, hall, hn => by
      unfold removeOps
      have hh := hall h (by simp)
      simp only [hh, if_true]
      obtain ⟨res, hres⟩ := removeOps_ok bc size r (idx + 1) (ddel m h)
        (by
          intro h' hh'
          have hne : h ≠ h' := fun e => (List.nodup_cons.mp hn).1 (e ▸ hh')
          obtain ⟨v, hv⟩ := (dhas_iff m h').mp (hall h' (List.mem_cons_of_mem _ hh'))
          exact (dhas_iff _ _).mpr ⟨v, by rw [dget_ddel_ne _ hne]; exact hv⟩)
        (List.nodup_cons.mp hn).2
      rw [hres]
      exact ⟨_, rfl⟩

/-- acyclicity survives registering headers whose parents rank lower -/
theorem AcyclicPl.register {f : Nat → Nat} {pl : Dict Nat} (hac : AcyclicPl f pl) (nodes : List (Nat × Nat))
    (hn : ∀ e ∈ nodes, f e.2 < f e.1) : AcyclicPl f (register pl [] nodes).1 := by
  intro k v hk
  rcases register_new nodes pl [] k v hk with h | h
  · exact hac k v h
  · exact hn (k, v) h

end Pycoin.Chain
