import Pycoin.Model.Bech32
/-!
`bech32_polymod` is linear over GF(2) (xor), whatever the generator words are; consequences for the checksum.
Core Lean only.
-/
namespace Pycoin.Bech32
open Pycoin.Gen.Codecs

/-! ### generic xor-fold facts -/

theorem foldl_xor_init {α} (f : α → Nat) (l : List α) (c : Nat) :
    l.foldl (fun c x => c ^^^ f x) c = c ^^^ l.foldl (fun c x => c ^^^ f x) 0 := by
  induction l generalizing c with
  | nil => simp
  | cons x xs ih =>
    simp only [List.foldl_cons]
    rw [ih (c ^^^ f x), ih (0 ^^^ f x), Nat.zero_xor, Nat.xor_assoc]

theorem foldl_xor_add {α} (f g : α → Nat) (l : List α) :
    l.foldl (fun c x => c ^^^ (f x ^^^ g x)) 0 =
      l.foldl (fun c x => c ^^^ f x) 0 ^^^ l.foldl (fun c x => c ^^^ g x) 0 := by
  induction l with
  | nil => simp
  | cons x xs ih =>
    simp only [List.foldl_cons, Nat.zero_xor]
    rw [foldl_xor_init _ xs (f x ^^^ g x), foldl_xor_init f xs (f x), foldl_xor_init g xs (g x), ih]
    ac_rfl

/-! ### the generator selection -/

/-- `generator[i] if ((top >> i) & 1) else 0` -/
def gsel (top i g : Nat) : Nat := if (top >>> i) &&& 1 ≠ 0 then g else 0

theorem bit_ne_zero_iff (x i : Nat) : ((x >>> i) &&& 1 ≠ 0) ↔ x.testBit i = true := by
  rw [Nat.testBit, Nat.and_comm]
  simp

theorem gsel_xor (s t i g : Nat) : gsel (s ^^^ t) i g = gsel s i g ^^^ gsel t i g := by
  unfold gsel
  simp only [bit_ne_zero_iff, Nat.testBit_xor]
  cases s.testBit i <;> cases t.testBit i <;> simp

theorem gsel_zero (i g : Nat) : gsel 0 i g = 0 := by simp [gsel]

/-- the xor of the selected generator words -/
def gmix (top : Nat) : Nat := bech32Generator.zipIdx.foldl (fun c gi => c ^^^ gsel top gi.2 gi.1) 0

theorem gmix_xor (s t : Nat) : gmix (s ^^^ t) = gmix s ^^^ gmix t := by
  unfold gmix
  rw [← foldl_xor_add]
  congr 1
  funext c gi
  rw [gsel_xor]

theorem gmix_zero : gmix 0 = 0 := by
  unfold gmix
  generalize bech32Generator.zipIdx = l
  induction l with
  | nil => rfl
  | cons x xs ih => simp only [List.foldl_cons, gsel_zero, Nat.xor_zero] at ih ⊢; exact ih

theorem polymodStep_eq (c v : Nat) :
    polymodStep c v = (((c &&& 0x1FFFFFF) <<< 5) ^^^ v) ^^^ gmix (c >>> 25) := by
  unfold polymodStep gmix
  exact foldl_xor_init (fun gi : Nat × Nat => gsel (c >>> 25) gi.2 gi.1) _ _

/-- **linearity of one round** -/
theorem polymodStep_xor (a b x y : Nat) :
    polymodStep (a ^^^ b) (x ^^^ y) = polymodStep a x ^^^ polymodStep b y := by
  rw [polymodStep_eq, polymodStep_eq, polymodStep_eq, Nat.and_xor_distrib_right, Nat.shiftLeft_xor_distrib,
    Nat.shiftRight_xor_distrib, gmix_xor]
  ac_rfl

/-- **linearity of `bech32_polymod`** in the pair (start value, symbol sequence) -/
theorem foldl_polymodStep_xor (xs ys : List Nat) (h : xs.length = ys.length) (a b : Nat) :
    (List.zipWith (· ^^^ ·) xs ys).foldl polymodStep (a ^^^ b) =
      xs.foldl polymodStep a ^^^ ys.foldl polymodStep b := by
  induction xs generalizing ys a b with
  | nil =>
    cases ys with
    | nil => rfl
    | cons y ys => cases h
  | cons x xs ih =>
    cases ys with
    | nil => cases h
    | cons y ys =>
      simp only [List.zipWith_cons_cons, List.foldl_cons]
      rw [polymodStep_xor]
      exact ih ys (by simpa using h) _ _

/-! ### bounds and the "no feedback" case -/

theorem and31 (x : Nat) : x &&& 31 = x % 32 := Nat.and_two_pow_sub_one_eq_mod x 5

theorem andMask (x : Nat) : x &&& 0x1FFFFFF = x % 2 ^ 25 := Nat.and_two_pow_sub_one_eq_mod x 25

/-- `(c << 5) ^ v = 32 c + v` when `v` fits in five bits -/
theorem shl5_xor (c v : Nat) (hv : v < 32) : (c <<< 5) ^^^ v = c * 32 + v := by
  apply Nat.eq_of_testBit_eq
  intro i
  have h32 : c * 32 + v = 2 ^ 5 * c + v := by omega
  rw [h32, Nat.testBit_two_pow_mul_add c (show v < 2 ^ 5 from hv)]
  rw [Nat.testBit_xor, Nat.testBit_shiftLeft]
  by_cases hi : i < 5
  · have h5 : ¬ (5 ≤ i) := by omega
    simp [hi, h5]
  · have : v.testBit i = false := Nat.testBit_lt_two_pow (Nat.lt_of_lt_of_le hv (by
      calc 32 = 2 ^ 5 := rfl
        _ ≤ 2 ^ i := Nat.pow_le_pow_right (by decide) (by omega)))
    simp [hi, this]; omega

/-- below 2^25 nothing is fed back: the round just appends the symbol -/
theorem polymodStep_small (c v : Nat) (hc : c < 2 ^ 25) (hv : v < 32) : polymodStep c v = c * 32 + v := by
  rw [polymodStep_eq, andMask, Nat.mod_eq_of_lt hc, Nat.shiftRight_eq_div_pow, Nat.div_eq_of_lt hc, gmix_zero,
    Nat.xor_zero, shl5_xor c v hv]

theorem foldl_polymodStep_six (a b c d e f : Nat) (ha : a < 32) (hb : b < 32) (hc : c < 32) (hd : d < 32)
    (he : e < 32) (hf : f < 32) :
    [a, b, c, d, e, f].foldl polymodStep 0 = ((((a * 32 + b) * 32 + c) * 32 + d) * 32 + e) * 32 + f := by
  simp only [List.foldl_cons, List.foldl_nil]
  rw [polymodStep_small 0 a (by decide) ha, polymodStep_small _ b (by omega) hb, polymodStep_small _ c (by omega) hc,
    polymodStep_small _ d (by omega) hd, polymodStep_small _ e (by omega) he, polymodStep_small _ f (by omega) hf]
  omega

/-- every generator word fits in 30 bits (checked on the generated table) -/
theorem generator_lt : ∀ g ∈ bech32Generator, g < 2 ^ 30 := by decide

theorem gmix_lt (top : Nat) : gmix top < 2 ^ 30 := by
  unfold gmix
  have : ∀ (l : List (Nat × Nat)) (c : Nat), c < 2 ^ 30 → (∀ gi ∈ l, gi.1 < 2 ^ 30) →
      l.foldl (fun c gi => c ^^^ gsel top gi.2 gi.1) c < 2 ^ 30 := by
    intro l
    induction l with
    | nil => intro c hc _; exact hc
    | cons x xs ih =>
      intro c hc hl
      simp only [List.foldl_cons]
      apply ih
      · apply Nat.xor_lt_two_pow hc
        unfold gsel
        split
        · exact hl x (by simp)
        · exact Nat.two_pow_pos 30
      · intro gi hgi; exact hl gi (by simp [hgi])
  apply this _ 0 (Nat.two_pow_pos 30)
  intro gi hgi
  have h := (List.mem_zipIdx hgi).2.2
  rw [h]
  exact generator_lt _ (List.getElem_mem _)

theorem polymodStep_lt (c v : Nat) (hv : v < 2 ^ 30) : polymodStep c v < 2 ^ 30 := by
  rw [polymodStep_eq]
  apply Nat.xor_lt_two_pow _ (gmix_lt _)
  apply Nat.xor_lt_two_pow _ hv
  rw [andMask, Nat.shiftLeft_eq]
  have : c % 2 ^ 25 < 2 ^ 25 := Nat.mod_lt _ (Nat.two_pow_pos 25)
  have h30 : (2:Nat) ^ 30 = 2 ^ 25 * 2 ^ 5 := by decide
  omega

/-! ### the checksum -/

/-- the six 5-bit groups of a 30-bit word, most significant first -/
def sixGroups (pm : Nat) : List Nat := (List.range 6).map (fun i => (pm >>> (5 * (5 - i))) &&& 31)

theorem sixGroups_eq (pm : Nat) : sixGroups pm =
    [pm / 2 ^ 25 % 32, pm / 2 ^ 20 % 32, pm / 2 ^ 15 % 32, pm / 2 ^ 10 % 32, pm / 2 ^ 5 % 32, pm % 32] := by
  have hr : List.range 6 = [0, 1, 2, 3, 4, 5] := by decide
  simp [sixGroups, hr, and31, Nat.shiftRight_eq_div_pow]

theorem foldl_sixGroups (pm : Nat) (h : pm < 2 ^ 30) : (sixGroups pm).foldl polymodStep 0 = pm := by
  rw [sixGroups_eq, foldl_polymodStep_six _ _ _ _ _ _ (Nat.mod_lt _ (by decide)) (Nat.mod_lt _ (by decide))
    (Nat.mod_lt _ (by decide)) (Nat.mod_lt _ (by decide)) (Nat.mod_lt _ (by decide)) (Nat.mod_lt _ (by decide))]
  omega

/-- six symbols below 32 are determined by what they fold to -/
theorem sixGroups_foldl (l : List Nat) (hl : l.length = 6) (hlt : ∀ x ∈ l, x < 32) :
    sixGroups (l.foldl polymodStep 0) = l := by
  match l, hl with
  | [a, b, c, d, e, f], _ =>
    have ha := hlt a (by simp); have hb := hlt b (by simp); have hc := hlt c (by simp)
    have hd := hlt d (by simp); have he := hlt e (by simp); have hf := hlt f (by simp)
    rw [foldl_polymodStep_six a b c d e f ha hb hc hd he hf, sixGroups_eq]
    simp only [List.cons.injEq, and_true]
    refine ⟨?_, ?_, ?_, ?_, ?_, ?_⟩ <;> omega

theorem specConst_lt (spec : Encoding) : specConst spec < 2 ^ 30 := by
  cases spec <;> decide

theorem createChecksum_eq (hrp : List Char) (data : List Nat) (spec : Encoding) :
    createChecksum hrp data spec =
      sixGroups (([0, 0, 0, 0, 0, 0] : List Nat).foldl polymodStep (polymod (hrpExpand hrp ++ data)) ^^^ specConst spec) := by
  unfold createChecksum sixGroups polymod
  simp only [List.foldl_append]

/-- folding any six symbols from state `c` = folding six zeros from `c`, xor folding the symbols from 0 -/
theorem foldl_six_split (c : Nat) (l : List Nat) (hl : l.length = 6) :
    l.foldl polymodStep c = ([0, 0, 0, 0, 0, 0] : List Nat).foldl polymodStep c ^^^ l.foldl polymodStep 0 := by
  have h := foldl_polymodStep_xor [0, 0, 0, 0, 0, 0] l (by simp [hl]) c 0
  rw [Nat.xor_zero] at h
  rw [← h]
  match l, hl with
  | [a, b, c', d, e, f], _ => simp

theorem six_zeros_lt (c : Nat) : ([0, 0, 0, 0, 0, 0] : List Nat).foldl polymodStep c < 2 ^ 30 := by
  simp only [List.foldl_cons, List.foldl_nil]
  exact polymodStep_lt _ 0 (by decide)

theorem sixGroups_length (pm : Nat) : (sixGroups pm).length = 6 := by simp [sixGroups]

theorem sixGroups_lt (pm : Nat) : ∀ x ∈ sixGroups pm, x < 32 := by
  intro x hx
  rw [sixGroups_eq] at hx
  simp only [List.mem_cons, List.not_mem_nil, or_false] at hx
  rcases hx with h | h | h | h | h | h <;> (subst h; exact Nat.mod_lt _ (by decide))

/-- polymod of `values ++ checksum` is the constant of the chosen encoding -/
theorem polymod_with_checksum (hrp : List Char) (data : List Nat) (spec : Encoding) :
    polymod (hrpExpand hrp ++ (data ++ createChecksum hrp data spec)) = specConst spec := by
  rw [← List.append_assoc]
  unfold polymod
  rw [List.foldl_append]
  have hc := createChecksum_eq hrp data spec
  unfold polymod at hc
  rw [hc, foldl_six_split _ _ (sixGroups_length _), foldl_sixGroups]
  · rw [← Nat.xor_assoc, Nat.xor_self, Nat.zero_xor]
  · exact Nat.xor_lt_two_pow (six_zeros_lt _) (specConst_lt spec)

/-- conversely: if six symbols below 32 make the polymod equal to a constant, they are the checksum for it -/
theorem checksum_unique (hrp : List Char) (data l : List Nat) (spec : Encoding) (hl : l.length = 6)
    (hlt : ∀ x ∈ l, x < 32) (h : polymod (hrpExpand hrp ++ (data ++ l)) = specConst spec) :
    l = createChecksum hrp data spec := by
  rw [← List.append_assoc] at h
  unfold polymod at h
  rw [List.foldl_append, foldl_six_split _ _ hl] at h
  rw [createChecksum_eq]
  unfold polymod
  rw [← h, ← Nat.xor_assoc, Nat.xor_self, Nat.zero_xor, sixGroups_foldl l hl hlt]

end Pycoin.Bech32
