import Pycoin.Proofs.ChainRec
import Pycoin.Proofs.ChainSpec
/-!
From the records invariant to the specification (`Spec/Chain.lean`) over the delivered set (core Lean only):
the reported chain is a chain of the specification, chains of the specification from the current anchor are chains of
the finder's parent relation.
-/
namespace Pycoin.Chain
open Pycoin.Spec.Chain

def Header.toHdr (h : Header) : Hdr := ⟨h.hash, h.parent, h.weight⟩

/-- Delivered(history) as the specification sees it -/
def deliveredSpec (steps : List Step) : List Hdr := (delivered steps).map Header.toHdr

/-! ### chains of the specification -/

theorem IsChainFrom.snoc {D : List Hdr} {a : Nat} {sc : List Hdr} (h : IsChainFrom D a sc) : ∀ (hd : Hdr),
    hd ∈ D → hd.parent = ((sc.map (·.hash)).getLast?).getD a → IsChainFrom D a (sc ++ [hd]) := by
  induction h with
  | nil a =>
    intro hd hm hp
    exact IsChainFrom.cons hm (by simpa using hp) (IsChainFrom.nil _)
  | @cons a x rest hm hp _ ih =>
    intro hd hmd hpd
    refine IsChainFrom.cons hm hp (ih hd hmd ?_)
    cases rest with
    | nil => simpa using hpd
    | cons y r =>
      have hne : (y.hash :: List.map (·.hash) r).getLast? = some ((y.hash :: List.map (·.hash) r).getLast (by simp)) :=
        List.getLast?_eq_some_getLast (by simp)
      simp only [List.map_cons, List.getLast?_cons_cons] at hpd ⊢
      rw [hne] at hpd ⊢
      exact hpd

theorem IsChainFrom.append {D : List Hdr} {a : Nat} {x : List Hdr} (h : IsChainFrom D a x) : ∀ (y : List Hdr),
    IsChainFrom D (((x.map (·.hash)).getLast?).getD a) y → IsChainFrom D a (x ++ y) := by
  induction h with
  | nil a => intro y hy; simpa using hy
  | @cons a hd rest hm hp _ ih =>
    intro y hy
    refine IsChainFrom.cons hm hp (ih y ?_)
    cases rest with
    | nil => simpa using hy
    | cons z r =>
      have hne : (z.hash :: List.map (·.hash) r).getLast? = some ((z.hash :: List.map (·.hash) r).getLast (by simp)) :=
        List.getLast?_eq_some_getLast (by simp)
      simp only [List.map_cons, List.getLast?_cons_cons] at hy ⊢
      rw [hne] at hy ⊢
      exact hy

theorem IsChainFrom.split {D : List Hdr} : ∀ (x y : List Hdr) (a : Nat), IsChainFrom D a (x ++ y) →
    IsChainFrom D a x ∧ IsChainFrom D (((x.map (·.hash)).getLast?).getD a) y
  | [], y, a, h => ⟨IsChainFrom.nil _, by simpa using h⟩
  | hd :: r, y, a, h => by
      cases h with
      | cons hm hp hrest =>
        obtain ⟨h1, h2⟩ := IsChainFrom.split r y hd.hash hrest
        refine ⟨IsChainFrom.cons hm hp h1, ?_⟩
        cases r with
        | nil => simpa using h2
        | cons z r' =>
          have hne : (z.hash :: List.map (·.hash) r').getLast? = some ((z.hash :: List.map (·.hash) r').getLast (by simp)) :=
            List.getLast?_eq_some_getLast (by simp)
          simp only [List.map_cons, List.getLast?_cons_cons] at h2 ⊢
          rw [hne] at h2 ⊢
          exact h2

theorem IsChainFrom.mem {D : List Hdr} {a : Nat} {sc : List Hdr} (h : IsChainFrom D a sc) : ∀ hd ∈ sc, hd ∈ D := by
  induction h with
  | nil a => intro hd hm; simp at hm
  | @cons a x rest hm _ _ ih =>
    intro hd hmd
    rcases List.mem_cons.mp hmd with e | hmd
    · subst e; exact hm
    · exact ih hd hmd

/-- a chain all of whose members lie in a smaller set is a chain over that set -/
theorem IsChainFrom.restrict {D D' : List Hdr} {a : Nat} {sc : List Hdr} (h : IsChainFrom D a sc) :
    (∀ hd ∈ sc, hd ∈ D') → IsChainFrom D' a sc := by
  induction h with
  | nil a => intro _; exact IsChainFrom.nil _
  | @cons a x rest _ hp _ ih =>
    intro hs
    exact IsChainFrom.cons (hs x (by simp)) hp (ih (fun hd hm => hs hd (List.mem_cons_of_mem _ hm)))

/-- the parent field of the `j`-th header of a chain is the hash before it -/
theorem IsChainFrom.parent_get {D : List Hdr} {a : Nat} {sc : List Hdr} (h : IsChainFrom D a sc) :
    ∀ j (hj : j < sc.length), (a :: sc.map (·.hash))[j]? = some sc[j].parent := by
  induction h with
  | nil a => intro j hj; simp at hj
  | @cons a x rest _ hp _ ih =>
    intro j hj
    cases j with
    | zero => simp [hp]
    | succ j =>
      have := ih j (by simpa using hj)
      simpa using this

/-! ### the locked part -/

theorem ItemsFrom.of_mem {D : List Header} : ∀ (a : Nat) (l : List Item), ItemsFrom D a l → ∀ it ∈ l,
    (∃ hd ∈ D, hd.hash = it.1 ∧ hd.parent = it.2.1) ∧ (∃ hd ∈ D, hd.hash = it.1 ∧ it.2.2 = some hd.weight) ∧
    it.2.1 ∈ a :: (l.map (·.1)).dropLast
  | _, [], _, it, hm => by simp at hm
  | a, (h, p, w) :: r, ⟨h1, h2, h3, h4⟩, it, hm => by
      rcases List.mem_cons.mp hm with e | hm
      · subst e; exact ⟨h2, h3, by simp [h1]⟩
      · obtain ⟨i1, i2, i3⟩ := ItemsFrom.of_mem h r h4 it hm
        refine ⟨i1, i2, ?_⟩
        cases r with
        | nil => simp at hm
        | cons x r' =>
          simp only [List.map_cons, List.dropLast_cons₂] at i3 ⊢
          exact List.mem_cons_of_mem _ i3

/-- what `Rec` and `Consistent` give about the delivered set as the specification sees it -/
structure RecC (anchor0 : Nat) (DS : List Hdr) (bc : BC) : Prop where
  /-- a delivered header that is not locked is recorded with its own parent and weight -/
  unlocked : ∀ hd ∈ DS, hd.hash ∉ lockedHashes bc →
    dget bc.finder.parent hd.hash = some hd.parent ∧ dget bc.weight hd.hash = some hd.weight
  /-- what is recorded is a delivered header -/
  sound : ∀ h p w, dget bc.finder.parent h = some p → dget bc.weight h = some w → (⟨h, p, w⟩ : Hdr) ∈ DS
  /-- a locked item is a delivered header -/
  item : ∀ it ∈ bc.locked, ∃ w, it.2.2 = some w ∧ (⟨it.1, it.2.1, w⟩ : Hdr) ∈ DS
  avoid : ∀ hd ∈ DS, hd.hash ≠ anchor0

theorem Rec.toC {anchor0 : Nat} {D : List Header} {bc : BC} (r : Rec anchor0 D bc)
    (hc : Consistent (D.map Header.toHdr)) : RecC anchor0 (D.map Header.toHdr) bc := by
  have same : ∀ x ∈ D, ∀ y ∈ D, x.hash = y.hash → x = y := by
    intro x hx y hy e
    have := hc x.toHdr (List.mem_map.mpr ⟨x, hx, rfl⟩) y.toHdr (List.mem_map.mpr ⟨y, hy, rfl⟩) e
    cases x; cases y
    simp only [Header.toHdr, Hdr.mk.injEq] at this
    simp [this]
  refine ⟨?_, ?_, ?_, ?_⟩
  · intro hd hm hnl
    obtain ⟨x, hx, rfl⟩ := List.mem_map.mp hm
    have hnl' : x.hash ∉ lockedHashes bc := hnl
    obtain ⟨v, hv⟩ := (dhas_iff _ _).mp (r.parentCompl x hx hnl')
    obtain ⟨y, hy, e1, e2⟩ := r.parentSound _ _ hv
    obtain ⟨wv, hwv⟩ := (dhas_iff _ _).mp (r.weightCompl x hx hnl')
    obtain ⟨z, hz, e3, e4⟩ := r.weightSound _ _ hwv
    have := same y hy x hx e1; subst this
    have := same z hz y hy e3; subst this
    exact ⟨by simpa [Header.toHdr, e2] using hv, by simpa [Header.toHdr, e4] using hwv⟩
  · intro h p w hp hw
    obtain ⟨y, hy, e1, e2⟩ := r.parentSound _ _ hp
    obtain ⟨z, hz, e3, e4⟩ := r.weightSound _ _ hw
    have := same z hz y hy (e3.trans e1.symm); subst this
    exact List.mem_map.mpr ⟨z, hz, by simp [Header.toHdr, e1, e2, e4]⟩
  · intro it hm
    obtain ⟨⟨y, hy, e1, e2⟩, ⟨z, hz, e3, e4⟩, _⟩ := ItemsFrom.of_mem _ _ r.items it hm
    have := same z hz y hy (e3.trans e1.symm); subst this
    exact ⟨z.weight, e4, List.mem_map.mpr ⟨z, hz, by simp [Header.toHdr, e1, e2]⟩⟩
  · intro hd hm
    obtain ⟨x, hx, rfl⟩ := List.mem_map.mp hm
    exact r.avoid x hx

/-- the locked part as headers of the specification -/
def lockedSpec (bc : BC) : List Hdr := bc.locked.map fun it => ⟨it.1, it.2.1, it.2.2.getD 0⟩

theorem lockedSpec_hash (bc : BC) : (lockedSpec bc).map (·.hash) = lockedHashes bc := by
  simp [lockedSpec, lockedHashes]

/-- `_locked_chain` is a chain of the specification from the first anchor -/
theorem itemsFrom_chain {D : List Header} (DS : List Hdr)
    (hmem : ∀ h p w, (∃ hd ∈ D, hd.hash = h ∧ hd.parent = p) → (∃ hd ∈ D, hd.hash = h ∧ w = some hd.weight) →
      ∃ wv, w = some wv ∧ (⟨h, p, wv⟩ : Hdr) ∈ DS) :
    ∀ (a : Nat) (l : List Item), ItemsFrom D a l →
      IsChainFrom DS a (l.map fun it => (⟨it.1, it.2.1, it.2.2.getD 0⟩ : Hdr))
  | a, [], _ => IsChainFrom.nil _
  | a, (h, p, w) :: r, ⟨h1, h2, h3, h4⟩ => by
      obtain ⟨wv, e, hm⟩ := hmem h p w h2 h3
      subst e
      simp only [List.map_cons, Option.getD_some]
      exact IsChainFrom.cons hm h1 (itemsFrom_chain DS hmem h r h4)

/-! ### the unlocked part -/

/-- the headers the dicts record for the hashes `hs` -/
def specOf (pl w : Dict Nat) (hs : List Nat) : List Hdr :=
  hs.map fun h => ⟨h, (dget pl h).getD 0, (dget w h).getD 0⟩

theorem specOf_hash (pl w : Dict Nat) (hs : List Nat) : (specOf pl w hs).map (·.hash) = hs := by
  simp [specOf, Function.comp_def]

/-- a chain of the finder's parent relation above `a` whose members are recorded delivered headers is, read from the
anchor upwards, a chain of the specification -/
theorem upPath_chain (DS : List Hdr) (pl w : Dict Nat)
    (hmem : ∀ h p, dget pl h = some p → ∃ wv, dget w h = some wv ∧ (⟨h, p, wv⟩ : Hdr) ∈ DS) (a : Nat) :
    ∀ (c : List Nat), UpPath pl (c ++ [a]) → IsChainFrom DS a (specOf pl w c.reverse)
  | [], _ => IsChainFrom.nil _
  | x :: r, hu => by
      have hx : dget pl x = some (r.head?.getD a) ∧ UpPath pl (r ++ [a]) := by
        cases r with
        | nil => simpa [UpPath] using hu
        | cons y r' => simpa [UpPath] using hu
      obtain ⟨wv, hwv, hm⟩ := hmem x _ hx.1
      have ih := upPath_chain DS pl w hmem a r hx.2
      have : specOf pl w (x :: r).reverse = specOf pl w r.reverse ++ [⟨x, r.head?.getD a, wv⟩] := by
        simp [specOf, hx.1, hwv]
      rw [this]
      refine IsChainFrom.snoc ih _ hm ?_
      rw [specOf_hash]
      simp [List.getLast?_reverse]

theorem specOf_weight (pl w : Dict Nat) (hs : List Nat) : totalWeight (specOf pl w hs) = chainWeight w hs := by
  simp [specOf, totalWeight, chainWeight, Function.comp_def]

/-! ### chains of the specification from the current anchor avoid the locked part -/

theorem chain_avoids_locked {anchor0 : Nat} {DS : List Hdr} {bc : BC} (hc : Consistent DS) (rc : RecC anchor0 DS bc)
    (hpar : ∀ it ∈ bc.locked, it.2.1 ∈ anchor0 :: (lockedHashes bc).dropLast) :
    ∀ (a : Nat) (sc : List Hdr), IsChainFrom DS a sc → (∀ it ∈ bc.locked, it.2.1 ≠ a) →
      ∀ hd ∈ sc, hd.hash ∉ lockedHashes bc := by
  intro a sc h
  induction h with
  | nil a => intro _ hd hm; simp at hm
  | @cons a x rest hm hp _ ih =>
    intro hq hd hmd
    have hx : x.hash ∉ lockedHashes bc := by
      intro hl
      obtain ⟨it, hit, e⟩ := List.mem_map.mp hl
      obtain ⟨w, _, hmw⟩ := rc.item it hit
      have := hc _ hmw x hm (by simpa using e)
      apply hq it hit
      rw [← hp, ← this]
    rcases List.mem_cons.mp hmd with e | hmd
    · subst e; exact hx
    · refine ih ?_ hd hmd
      intro it hit e
      rcases List.mem_cons.mp (hpar it hit) with h | h
      · exact rc.avoid x hm (e ▸ h)
      · exact hx (e ▸ List.dropLast_subset _ h)

/-- the current anchor is nobody's parent field in `_locked_chain` -/
theorem anchor_not_parent_field {anchor0 : Nat} {D : List Header} {bc : BC} {c : List Nat}
    (g : Good anchor0 bc c) (r : Rec anchor0 D bc) :
    (∀ it ∈ bc.locked, it.2.1 ∈ anchor0 :: (lockedHashes bc).dropLast) ∧ ∀ it ∈ bc.locked, it.2.1 ≠ bc.parentHash := by
  have hpar : ∀ it ∈ bc.locked, it.2.1 ∈ anchor0 :: (lockedHashes bc).dropLast :=
    fun it hit => (ItemsFrom.of_mem _ _ r.items it hit).2.2
  refine ⟨hpar, ?_⟩
  intro it hit e
  have hmem := hpar it hit
  rw [e, g.parentIs] at hmem
  rcases List.eq_nil_or_concat (lockedHashes bc) with hnil | ⟨ys, z, hz⟩
  · have : bc.locked = [] := by simpa [lockedHashes] using hnil
    rw [this] at hit; simp at hit
  · have hz' : lockedHashes bc = ys ++ [z] := by simpa using hz
    rw [hz'] at hmem
    simp only [List.getLast?_append, List.getLast?_singleton, Option.some_or, Option.getD_some,
      List.dropLast_concat, List.mem_cons] at hmem
    rcases hmem with h | h
    · -- the last locked hash is a delivered header, so it is not the first anchor
      have hzl : z ∈ lockedHashes bc := by rw [hz']; simp
      obtain ⟨it', hit', e'⟩ := List.mem_map.mp hzl
      obtain ⟨⟨hd, hm, e1, _⟩, _, _⟩ := ItemsFrom.of_mem _ _ r.items it' hit'
      exact r.avoid hd hm (by rw [e1, e', h])
    · have hnd : (ys ++ [z]).Nodup := by
        have := (List.nodup_append.mp g.nodup).1
        rwa [hz'] at this
      have := (List.nodup_append.mp hnd).2.2 z h z (by simp)
      exact this rfl

end Pycoin.Chain
