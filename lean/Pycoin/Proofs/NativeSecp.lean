import Pycoin.Proofs.NativeEcdsa
import Pycoin.Proofs.RFC6979
/-!
libsecp256k1: THE TRUSTED STATEMENT `LibSecpOk S c` about the library functions the glue of `native/secp256k1.py` calls,
and, under it, agreement of that glue with the pure-Python class.  libsecp256k1 is ABSENT from the sandbox: unlike the
OpenSSL glue, this glue model is tied to the source by reading only (no correspondence run is possible), and no clause
of this contract has been probed on a real library.
-/
namespace Pycoin.Native
open Pycoin Pycoin.Curve WeierstrassCurve

/-- 32 big-endian bytes of a non-negative integer -/
def be32 (v : Int) : Bytes := beBytes v.toNat 32

/-- the low-S representative -/
def lowS (n : Nat) (s : Int) : Int := if s > (n : Int) / 2 then (n : Int) - s else s

/-- the contract, relative to abstractions of the opaque `secp256k1_pubkey` / `secp256k1_ecdsa_signature` objects as an
affine point / a pair `(r, s)` -/
structure LibSecpSpec (c : CurveParams) [Good c] (S : LibSecp256k1) (denP : S.Pubkey → Pt) (denS : S.Sig → Int × Int) :
    Prop where
  /-- `secp256k1_ec_pubkey_create` on a valid secret key `0 < e < n`: the public key `e • G` -/
  create_ok : ∀ (pk : S.Pubkey) (e : Int), 0 < e → e < c.n →
    (S.pubkeyCreate pk (be32 e)).1 = true ∧ OnCurve c (denP (S.pubkeyCreate pk (be32 e)).2) ∧
      Reduced c (denP (S.pubkeyCreate pk (be32 e)).2) ∧
      toPoint c (denP (S.pubkeyCreate pk (be32 e)).2) = e • toPoint c (basis c)
  /-- `secp256k1_ec_pubkey_serialize(…, SECP256K1_EC_UNCOMPRESSED)`: `04 ‖ x ‖ y` -/
  serialize_ok : ∀ (pk : S.Pubkey) (x y : Int), denP pk = some (x, y) →
    S.pubkeySerialize pk Secp.SECP256K1_EC_UNCOMPRESSED = (4 : UInt8) :: (be32 x ++ be32 y)
  /-- `secp256k1_ec_pubkey_parse` of `04 ‖ x ‖ y`: accepted exactly when `x, y < p` and the point is on the curve -/
  parse_ok : ∀ (pk : S.Pubkey) (x y : Int), 0 ≤ x → x < c.p → 0 ≤ y → y < c.p → containsXY c x y = true →
    (S.pubkeyParse pk ((4 : UInt8) :: (be32 x ++ be32 y)) 65).1 = true ∧
      denP (S.pubkeyParse pk ((4 : UInt8) :: (be32 x ++ be32 y)) 65).2 = some (x, y)
  parse_fail : ∀ (pk : S.Pubkey) (x y : Int), 0 ≤ x → x < 2 ^ 256 → 0 ≤ y → y < 2 ^ 256 →
    ¬ (x < c.p ∧ y < c.p ∧ containsXY c x y = true) →
    (S.pubkeyParse pk ((4 : UInt8) :: (be32 x ++ be32 y)) 65).1 = false
  /-- `secp256k1_ec_pubkey_tweak_mul` by `0 < t < n` -/
  tweak_ok : ∀ (pk : S.Pubkey) (t : Int), denP pk ≠ none → OnCurve c (denP pk) → Reduced c (denP pk) → 0 < t → t < c.n →
    (S.pubkeyTweakMul pk (be32 t)).1 = true ∧ OnCurve c (denP (S.pubkeyTweakMul pk (be32 t)).2) ∧
      Reduced c (denP (S.pubkeyTweakMul pk (be32 t)).2) ∧
      toPoint c (denP (S.pubkeyTweakMul pk (be32 t)).2) = t • toPoint c (denP pk)
  /-- `secp256k1_ecdsa_sign` with a nonce callback that writes the valid nonce `k`, when `r` and `s` come out non-zero:
  the textbook signature for that nonce, `s` replaced by its low-S representative -/
  sign_ok : ∀ (sig : S.Sig) (z d k x y ki : Int), 0 ≤ z → z < 2 ^ 256 → 1 ≤ d → d < c.n → 1 ≤ k → k < c.n →
    containsXY c x y = true → Reduced c (some (x, y)) → toPoint c (some (x, y)) = k • toPoint c (basis c) →
    (ki : ZMod c.n) = (k : ZMod c.n)⁻¹ → x % c.n ≠ 0 → (ki * (z + d * (x % c.n) % c.n)) % c.n ≠ 0 →
    (S.ecdsaSign sig (be32 z) (be32 d) (some (be32 k))).1 = true ∧
      denS (S.ecdsaSign sig (be32 z) (be32 d) (some (be32 k))).2 =
        (x % c.n, lowS c.n ((ki * (z + d * (x % c.n) % c.n)) % c.n))
  /-- with `noncefp = NULL` the library's default nonce function is used: RFC 6979 (HMAC-SHA256) of key and hash.
  Stated for `z < n` only: for `z ≥ n` libsecp256k1 feeds the 32 hash bytes unreduced where RFC 6979 says `bits2octets` -/
  sign_default : ∀ (sig : S.Sig) (h1 : Bytes) (d k : Nat), h1.length = 32 → beNat h1 < c.n → 1 ≤ d → d < c.n →
    Spec.RFC6979.generateK Pycoin.RFC6979.defaultFuel c.n d h1 = some k →
    S.ecdsaSign sig h1 (be32 d) none = S.ecdsaSign sig h1 (be32 d) (some (be32 k))
  /-- `secp256k1_ecdsa_signature_serialize_compact`: `r ‖ s` -/
  compact_ok : ∀ (sig : S.Sig), S.sigSerializeCompact sig = be32 (denS sig).1 ++ be32 (denS sig).2
  /-- `secp256k1_ecdsa_signature_parse_compact`: accepted exactly when `r < n` and `s < n` -/
  parse_compact_ok : ∀ (sig : S.Sig) (r s : Int), 0 ≤ r → r < c.n → 0 ≤ s → s < c.n →
    (S.sigParseCompact sig (be32 r ++ be32 s)).1 = true ∧ denS (S.sigParseCompact sig (be32 r ++ be32 s)).2 = (r, s)
  parse_compact_fail : ∀ (sig : S.Sig) (r s : Int), 0 ≤ r → r < 2 ^ 256 → 0 ≤ s → s < 2 ^ 256 → (c.n ≤ r ∨ c.n ≤ s) →
    (S.sigParseCompact sig (be32 r ++ be32 s)).1 = false
  /-- `secp256k1_ecdsa_signature_normalize` -/
  normalize_ok : ∀ (sig : S.Sig), denS (S.sigNormalize sig) = ((denS sig).1, lowS c.n (denS sig).2)
  /-- `secp256k1_ecdsa_verify`: 1 exactly for a low-S signature satisfying the ECDSA equation -/
  verify_ok : ∀ (sig : S.Sig) (pk : S.Pubkey) (z : Int), 1 ≤ z → z < 2 ^ 256 → denP pk ≠ none → OnCurve c (denP pk) →
    Reduced c (denP pk) →
    (S.ecdsaVerify sig (be32 z) pk = 1 ↔
      1 ≤ (denS sig).1 ∧ (denS sig).1 < c.n ∧ 1 ≤ (denS sig).2 ∧ (denS sig).2 ≤ (c.n : Int) / 2 ∧
      xModN c (zsm c ((z : ZMod c.n) * ((denS sig).2 : ZMod c.n)⁻¹) (G c) +
        zsm c (((denS sig).1 : ZMod c.n) * ((denS sig).2 : ZMod c.n)⁻¹) (toPoint c (denP pk))) = some (denS sig).1)

/-- **the assumption on libsecp256k1** -/
def LibSecpOk (S : LibSecp256k1) (c : CurveParams) [Good c] : Prop :=
  ∃ (denP : S.Pubkey → Pt) (denS : S.Sig → Int × Int), LibSecpSpec c S denP denS

/-! ### byte plumbing -/

theorem be32_length (v : Int) : (be32 v).length = 32 := by simp [be32]

theorem toBytes32_ok {v : Int} (h0 : 0 ≤ v) (h1 : v < 2 ^ 256) : Secp.toBytes32 v = .ok (be32 v) := by
  unfold Secp.toBytes32 be32
  have hv : ((v.toNat : Nat) : Int) = v := Int.toNat_of_nonneg h0
  have := Pycoin.RFC6979.toBytesBE_ok v.toNat 32 (by rw [Pycoin.RFC6979.pow256]; omega)
  rw [hv] at this
  exact this

theorem toBytes32_neg {v : Int} (h : v < 0) : Secp.toBytes32 v = .error .overflow := by
  unfold Secp.toBytes32 Pycoin.RFC6979.toBytesBE
  rw [if_pos h]

theorem toBytes32_big {v : Int} (h : 2 ^ 256 ≤ v) : Secp.toBytes32 v = .error .overflow := by
  unfold Secp.toBytes32 Pycoin.RFC6979.toBytesBE
  rw [if_neg (by omega)]
  have : ¬ v.toNat < 256 ^ 32 := by rw [Pycoin.RFC6979.pow256]; omega
  unfold beBytes?
  rw [if_neg this]

theorem fromBytes32_be32 {v : Int} (h0 : 0 ≤ v) (h1 : v < 2 ^ 256) : Secp.fromBytes32 (be32 v) = v := by
  unfold Secp.fromBytes32 be32
  rw [beNat_beBytes_of_lt (by rw [Pycoin.RFC6979.pow256]; omega)]
  exact Int.toNat_of_nonneg h0

theorem slice_pub_x (a b : Bytes) (ha : a.length = 32) : slice ((4 : UInt8) :: (a ++ b)) 1 33 = a := by
  unfold slice
  simp only [List.drop_succ_cons, List.drop_zero]
  rw [show 33 - 1 = 32 by norm_num, List.take_append_of_le_length (by omega), List.take_of_length_le (by omega)]

theorem drop_pub_y (a b : Bytes) (ha : a.length = 32) : ((4 : UInt8) :: (a ++ b)).drop 33 = b := by
  rw [show 33 = 32 + 1 by norm_num, List.drop_succ_cons, List.drop_append_of_le_length (by omega),
    List.drop_of_length_le (by omega), List.nil_append]

theorem take_sig_r (a b : Bytes) (ha : a.length = 32) : (a ++ b).take 32 = a := by
  rw [List.take_append_of_le_length (by omega), List.take_of_length_le (by omega)]

theorem drop_sig_s (a b : Bytes) (ha : a.length = 32) : (a ++ b).drop 32 = b := by
  rw [List.drop_append_of_le_length (by omega), List.drop_of_length_le (by omega), List.nil_append]

variable {c : CurveParams} [Good c] {S : LibSecp256k1} {denP : S.Pubkey → Pt} {denS : S.Sig → Int × Int}

/-- serialise-then-parse of a public key object holding a reduced curve point gives that point -/
theorem pointOfPubkey_spec (spec : LibSecpSpec c S denP denS) (hp256 : c.p ≤ 2 ^ 256) (pk : S.Pubkey) (x y : Int)
    (h : denP pk = some (x, y)) (hc : containsXY c x y = true) (hr : Reduced c (some (x, y))) :
    Secp.pointOfPubkey S c pk = .ok (some (x, y)) := by
  unfold Secp.pointOfPubkey
  simp only
  rw [spec.serialize_ok pk x y h, slice_pub_x _ _ (be32_length x), drop_pub_y _ _ (be32_length x)]
  obtain ⟨h1, h2, h3, h4⟩ := hr
  have hp : (c.p : Int) ≤ 2 ^ 256 := by exact_mod_cast hp256
  rw [fromBytes32_be32 h1 (by omega), fromBytes32_be32 h3 (by omega)]
  simp [mkPoint, hc]

/-- **`Optimizations.__mul__(e)` (libsecp256k1, no blinding) = the blinded pure `Generator.__mul__(e)`**, every `e`, every
blinding factor -/
theorem secp_mul_eq (spec : LibSecpSpec c S denP denS) (ok : ECDSAOk c) (hp256 : c.p ≤ 2 ^ 256) (bf e : Int) :
    Secp.mul S c e = Curve.mulG c bf e := by
  obtain ⟨R', q1, q2, q3⟩ := mulG_refines c ok.gOn ok.nprime.pos.ne' ok.n256 ok.gOrd bf e
  have r' := mulG_reduced c ok.gOn ok.gRed ok.nprime.pos.ne' ok.n256 ok.gOrd bf e R' q1
  have hnpos : (0 : Int) < c.n := by exact_mod_cast ok.nprime.pos
  have hsm : (e % (c.n : Int)) • toPoint c (basis c) = e • toPoint c (basis c) := by
    conv_rhs => rw [← Int.emod_add_mul_ediv e c.n, add_zsmul, mul_comm (c.n : Int), mul_zsmul, ok.gOrd, zsmul_zero, add_zero]
  unfold Secp.mul
  simp only [fmod_natCast]
  rw [q1]
  by_cases he : e % (c.n : Int) = 0
  · rw [if_pos he]
    congr 1
    refine (toPoint_eq_zero c q2 ?_).symm
    rw [q3, ← hsm, he, zero_zsmul]
  · rw [if_neg he]
    have he0 : 0 < e % (c.n : Int) := lt_of_le_of_ne (Int.emod_nonneg e hnpos.ne') (Ne.symm he)
    have hen : e % (c.n : Int) < c.n := Int.emod_lt_of_pos e hnpos
    have hn256 : (c.n : Int) ≤ 2 ^ 256 := by exact_mod_cast ok.n256
    rw [toBytes32_ok he0.le (by omega)]
    simp only
    obtain ⟨c1, c2, c3, c4⟩ := spec.create_ok S.zeroPubkey _ he0 hen
    generalize (S.pubkeyCreate S.zeroPubkey (be32 (e % (c.n : Int)))).2 = pk at c2 c3 c4
    rw [hsm] at c4
    have hne : denP pk ≠ none := by
      intro h0
      rw [h0, toPoint_none] at c4
      have hz : toPoint c (basis c) = 0 :=
        eq_zero_of_smul_eq_zero ok.nprime ok.gOrd he0 hen (by rw [hsm]; exact c4.symm)
      rw [show basis c = some (c.gx, c.gy) from rfl, toPoint_some c ok.gOn] at hz
      exact Affine.Point.some_ne_zero _ hz
    obtain ⟨⟨x, y⟩, hxy⟩ : ∃ q, denP pk = some q := Option.ne_none_iff_exists'.mp hne
    rw [hxy] at c2 c3 c4
    rw [pointOfPubkey_spec spec hp256 pk x y hxy c2 c3]
    congr 1
    exact toPoint_inj c c2 q2 c3 r' (by rw [c4, q3])

/-- **`Optimizations.multiply(P, e)` (libsecp256k1)** for a reduced curve point of the `n`-torsion (infinity included) and
every integer `e`: the point the pure `multiply` returns -/
theorem secp_multiply_eq (spec : LibSecpSpec c S denP denS) (ok : ECDSAOk c) (hp256 : c.p ≤ 2 ^ 256) (P : Pt)
    (hP : OnCurve c P) (rP : Reduced c P) (hT : (c.n : Int) • toPoint c P = 0) (e : Int) :
    Secp.multiply S c P e = (Curve.multiply c P e).map MulRes.pt := by
  obtain ⟨R', q1, q2, q3⟩ := multiply_refines c P hP e (fun _ => hT) (fun h => absurd h ok.nprime.pos.ne')
  have hnpos : (0 : Int) < c.n := by exact_mod_cast ok.nprime.pos
  have hsm : (e % (c.n : Int)) • toPoint c P = e • toPoint c P := by
    conv_rhs => rw [← Int.emod_add_mul_ediv e c.n, add_zsmul, mul_comm (c.n : Int), mul_zsmul, hT, zsmul_zero, add_zero]
  unfold Secp.multiply
  simp only [fmod_natCast]
  rw [q1]
  show _ = Except.ok (MulRes.pt R')
  match P, hP, rP, hT, hsm, q1, q3 with
  | none, _, _, _, _, q1, q3 =>
    simp only
    congr 2
    exact (toPoint_eq_zero c q2 (by rw [q3, toPoint_none, zsmul_zero])).symm
  | some (px, py), hP, rP, hT, hsm, q1, q3 =>
    simp only
    by_cases he : e % (c.n : Int) = 0
    · rw [if_pos he]
      congr 2
      exact (toPoint_eq_zero c q2 (by rw [q3, ← hsm, he, zero_zsmul])).symm
    · rw [if_neg he]
      have he0 : 0 < e % (c.n : Int) := lt_of_le_of_ne (Int.emod_nonneg e hnpos.ne') (Ne.symm he)
      have hen : e % (c.n : Int) < c.n := Int.emod_lt_of_pos e hnpos
      have hn256 : (c.n : Int) ≤ 2 ^ 256 := by exact_mod_cast ok.n256
      have hp : (c.p : Int) ≤ 2 ^ 256 := by exact_mod_cast hp256
      obtain ⟨x0, x1, y0, y1⟩ := rP
      rw [toBytes32_ok x0 (by omega), toBytes32_ok y0 (by omega)]
      simp only
      have hlen : ((4 : UInt8) :: (be32 px ++ be32 py)).length = 65 := by simp [be32_length]
      rw [hlen]
      obtain ⟨p1, p2⟩ := spec.parse_ok S.zeroPubkey px py x0 x1 y0 y1 hP
      rw [p1]
      simp only [not_true_eq_false, if_false]
      rw [toBytes32_ok he0.le (by omega)]
      simp only
      generalize (S.pubkeyParse S.zeroPubkey ((4 : UInt8) :: (be32 px ++ be32 py)) 65).2 = pk at p2
      obtain ⟨t1, t2, t3, t4⟩ := spec.tweak_ok pk _ (by rw [p2]; simp) (by rw [p2]; exact hP)
        (by rw [p2]; exact ⟨x0, x1, y0, y1⟩) he0 hen
      rw [t1]
      simp only [not_true_eq_false, if_false]
      generalize (S.pubkeyTweakMul pk (be32 (e % (c.n : Int)))).2 = pk2 at t2 t3 t4
      rw [p2, hsm] at t4
      have hne : denP pk2 ≠ none := by
        intro h0
        rw [h0, toPoint_none] at t4
        have hz : toPoint c (some (px, py)) = 0 :=
          eq_zero_of_smul_eq_zero ok.nprime hT he0 hen (by rw [hsm]; exact t4.symm)
        rw [toPoint_some c hP] at hz
        exact Affine.Point.some_ne_zero _ hz
      obtain ⟨⟨x, y⟩, hxy⟩ : ∃ q, denP pk2 = some q := Option.ne_none_iff_exists'.mp hne
      rw [hxy] at t2 t3 t4
      rw [pointOfPubkey_spec spec hp256 pk2 x y hxy t2 t3]
      show Except.ok (MulRes.pt (some (x, y))) = _
      congr 2
      have br : Reduced c R' := multiply_reduced c (some (px, py)) hP ⟨x0, x1, y0, y1⟩
        (fun x' y' h => by cases h; exact y_pos_of_torsion ok hP y0 hT) e R' q1
      exact toPoint_inj c t2 q2 t3 br (by rw [t4, q3])

/-! ### verify -/

theorem lowS_le (ok : ECDSAOk c) {s : Int} (h1 : 1 ≤ s) (h2 : s < c.n) :
    1 ≤ lowS c.n s ∧ lowS c.n s < c.n ∧ lowS c.n s ≤ (c.n : Int) / 2 ∧ (lowS c.n s = s ∨ lowS c.n s = (c.n : Int) - s) := by
  have hodd : c.n % 2 = 1 := by
    rcases ok.nprime.eq_two_or_odd with h | h
    · exact absurd h ok.n2
    · exact h
  unfold lowS
  by_cases h : s > (c.n : Int) / 2
  · rw [if_pos h]; refine ⟨by omega, by omega, by omega, Or.inr rfl⟩
  · rw [if_neg h]; refine ⟨h1, h2, by omega, Or.inl rfl⟩

/-- **`Optimizations.verify` (libsecp256k1) = `Generator.verify`** for an affine reduced curve point `Q` of the
`n`-torsion, `1 ≤ z < 2²⁵⁶` and `0 ≤ r, s < 2²⁵⁶` (outside this range `to_bytes_32` raises `OverflowError` where the pure
class returns `False`: `secp_verify_overflow`) -/
theorem secp_verify_eq (spec : LibSecpSpec c S denP denS) (ok : ECDSAOk c) (hp256 : c.p ≤ 2 ^ 256) (bf : Int)
    (qx qy : Int) (hQ : containsXY c qx qy = true) (rQ : Reduced c (some (qx, qy)))
    (hQn : (c.n : Int) • toPoint c (some (qx, qy)) = 0) (z r s : Int) (hz1 : 1 ≤ z) (hz2 : z < 2 ^ 256)
    (hr0 : 0 ≤ r) (hr2 : r < 2 ^ 256) (hs0 : 0 ≤ s) (hs2 : s < 2 ^ 256) :
    Secp.verify S (some (qx, qy)) z r s = Curve.verify c bf (some (qx, qy)) z r s := by
  have hz : z ≠ 0 := by omega
  obtain ⟨b, hb, hiff⟩ := verify_iff ok bf (some (qx, qy)) hQ rQ hQn z r s hz
  rw [hb]
  unfold Secp.verify
  rw [toBytes32_ok hr0 hr2, toBytes32_ok hs0 hs2]
  simp only
  by_cases hrange : r < c.n ∧ s < c.n
  · obtain ⟨pc1, pc2⟩ := spec.parse_compact_ok S.zeroSig r s hr0 hrange.1 hs0 hrange.2
    rw [pc1]
    simp only [not_true_eq_false, if_false]
    generalize (S.sigParseCompact S.zeroSig (be32 r ++ be32 s)).2 = sig at pc2
    obtain ⟨x0, x1, y0, y1⟩ := rQ
    have hp : (c.p : Int) ≤ 2 ^ 256 := by exact_mod_cast hp256
    rw [toBytes32_ok x0 (by omega), toBytes32_ok y0 (by omega)]
    simp only
    have hlen : ((4 : UInt8) :: (be32 qx ++ be32 qy)).length = 65 := by simp [be32_length]
    rw [hlen]
    obtain ⟨p1, p2⟩ := spec.parse_ok S.zeroPubkey qx qy x0 x1 y0 y1 hQ
    rw [p1]
    simp only [not_true_eq_false, if_false]
    rw [toBytes32_ok (by omega) hz2]
    simp only
    generalize (S.pubkeyParse S.zeroPubkey ((4 : UInt8) :: (be32 qx ++ be32 qy)) 65).2 = pk at p2
    have hv := spec.verify_ok (S.sigNormalize sig) pk z hz1 hz2 (by rw [p2]; simp) (by rw [p2]; exact hQ)
      (by rw [p2]; exact ⟨x0, x1, y0, y1⟩)
    rw [spec.normalize_ok sig, pc2, p2] at hv
    simp only at hv
    congr 1
    rw [Bool.eq_iff_iff, decide_eq_true_eq, hv]
    -- the library's criterion on (r, lowS s) against the pure criterion on (r, s)
    by_cases hs1 : 1 ≤ s
    · obtain ⟨l1, l2, l3, l4⟩ := lowS_le ok hs1 hrange.2
      -- pure verify on lowS s
      obtain ⟨b', hb', hiff'⟩ := verify_iff ok bf (some (qx, qy)) hQ ⟨x0, x1, y0, y1⟩ hQn z r (lowS c.n s) hz
      have hsame : b' = b := by
        rcases l4 with h | h
        · rw [h, hb] at hb'; cases hb'; rfl
        · rw [h, verify_neg_s ok bf (some (qx, qy)) hQ ⟨x0, x1, y0, y1⟩ hQn z r s hz, hb] at hb'; cases hb'; rfl
      rw [← hsame, hiff']
      constructor
      · rintro ⟨a1, a2, a3, _, a5⟩; exact ⟨a1, a2, a3, l2, a5⟩
      · rintro ⟨a1, a2, a3, _, a5⟩; exact ⟨a1, a2, a3, l3, a5⟩
    · -- s = 0: both reject
      have hs : s = 0 := by omega
      subst hs
      have hl : lowS c.n 0 = 0 := by
        unfold lowS; rw [if_neg (by have : (0 : Int) ≤ (c.n : Int) / 2 := Int.ediv_nonneg (by omega) (by norm_num); omega)]
      rw [hl, hiff]
      constructor
      · rintro ⟨_, _, a3, _⟩; omega
      · rintro ⟨_, _, a3, _⟩; omega
  · have hfail := spec.parse_compact_fail S.zeroSig r s hr0 hr2 hs0 hs2 (by omega)
    rw [hfail]
    simp only [Bool.false_eq_true, not_false_eq_true, if_true]
    congr 1
    cases b with
    | false => rfl
    | true => exact absurd (hiff.mp rfl) (by intro h; omega)

/-- out of `to_bytes_32`'s range the libsecp256k1 `verify` raises `OverflowError` (the pure `verify` returns `False`) -/
theorem secp_verify_overflow (Q : Pt) (z r s : Int) (h : r < 0 ∨ 2 ^ 256 ≤ r) :
    Secp.verify S Q z r s = .error .overflow := by
  unfold Secp.verify
  rcases h with h | h
  · rw [toBytes32_neg h]
  · rw [toBytes32_big h]

/-! ### sign -/

/-- **`Optimizations.sign` (libsecp256k1) with an explicit `gen_k`** against `Generator.sign` with the same `gen_k`, when the
nonce `k ∈ [1, n)` gives `r ≠ 0`, `s ≠ 0`: the same `r`, and `s` or `n − s` — the low-S one -/
theorem secp_sign_genk (spec : LibSecpSpec c S denP denS) (ok : ECDSAOk c)
    (g : Nat → Int → Int → Except Err Int) (bf d z k x y ki : Int) (hz1 : 1 ≤ z) (hz2 : z < 2 ^ 256)
    (hd1 : 1 ≤ d) (hd2 : d < c.n) (hk : g c.n d z = .ok k) (hk1 : 1 ≤ k) (hk2 : k < c.n)
    (hm : mulG c bf k = .ok (some (x, y))) (hki : inverseN c k = .ok ki)
    (hr : x % c.n ≠ 0) (hs : (ki * (z + d * (x % c.n) % c.n)) % c.n ≠ 0) :
    Curve.sign c bf g d z = .ok (x % c.n, (ki * (z + d * (x % c.n) % c.n)) % c.n) ∧
    Secp.sign S c (some g) d z = .ok (x % c.n, lowS c.n ((ki * (z + d * (x % c.n) % c.n)) % c.n)) := by
  have hn256 : (c.n : Int) ≤ 2 ^ 256 := by exact_mod_cast ok.n256
  have hnpos : (0 : Int) < c.n := by exact_mod_cast ok.nprime.pos
  constructor
  · unfold Curve.sign
    rw [sign_first_nonce g bf d z k x y ki (by omega) hk hm hki hr hs]
  · obtain ⟨R, m1, m2, m3⟩ := mulG_refines c ok.gOn ok.nprime.pos.ne' ok.n256 ok.gOrd bf k
    have mr := mulG_reduced c ok.gOn ok.gRed ok.nprime.pos.ne' ok.n256 ok.gOrd bf k R m1
    rw [hm] at m1; cases m1
    obtain ⟨ki', hki', hkic⟩ := inverseN_spec ok k (intCast_ne_zero_of_range k hk1 hk2)
    rw [hki] at hki'; cases hki'
    obtain ⟨s1, s2⟩ := spec.sign_ok S.zeroSig z d k x y ki (by omega) hz2 hd1 hd2 hk1 hk2 m2 mr m3 hkic hr hs
    unfold Secp.sign
    simp only [hk]
    rw [toBytes32_ok (by omega) (by omega)]
    simp only [Except.map]
    rw [toBytes32_ok (by omega) hz2, toBytes32_ok (by omega) (by omega)]
    simp only
    generalize (S.ecdsaSign S.zeroSig (be32 z) (be32 d) (some (be32 k))).2 = sig at s2
    rw [spec.compact_ok sig, s2]
    simp only
    rw [take_sig_r _ _ (be32_length _), drop_sig_s _ _ (be32_length _)]
    have hr0 : 0 ≤ x % (c.n : Int) := Int.emod_nonneg _ hnpos.ne'
    have hr1 : x % (c.n : Int) < c.n := Int.emod_lt_of_pos _ hnpos
    have hs0 : 0 ≤ (ki * (z + d * (x % c.n) % c.n)) % (c.n : Int) := Int.emod_nonneg _ hnpos.ne'
    have hs1 : (ki * (z + d * (x % c.n) % c.n)) % (c.n : Int) < c.n := Int.emod_lt_of_pos _ hnpos
    obtain ⟨l1, l2, -, -⟩ := lowS_le ok (s := (ki * (z + d * (x % c.n) % c.n)) % (c.n : Int)) (by omega) hs1
    rw [fromBytes32_be32 hr0 (by omega), fromBytes32_be32 (by omega) (by omega)]

/-- **`Optimizations.sign` (libsecp256k1) with the default nonce** against `Generator.sign` (RFC 6979): for a 32-byte hash
`h1` with `1 ≤ z = int(h1) < n`, `1 ≤ d < n`, when the RFC 6979 nonce gives `r ≠ 0`, `s ≠ 0` — the same `r`, and `s` or
`n − s` -/
theorem secp_sign_default (spec : LibSecpSpec c S denP denS) (ok : ECDSAOk c) (bf : Int) (d : Nat) (h1 : Bytes)
    (hh : h1.length = 32) (hz1 : 1 ≤ beNat h1) (hzn : beNat h1 < c.n) (hd1 : 1 ≤ d) (hd2 : d < c.n)
    (k : Nat) (hk : Spec.RFC6979.generateK Pycoin.RFC6979.defaultFuel c.n d h1 = some k)
    (x y ki : Int) (hm : mulG c bf k = .ok (some (x, y))) (hki : inverseN c k = .ok ki)
    (hr : x % c.n ≠ 0) (hs : (ki * ((beNat h1 : Int) + d * (x % c.n) % c.n)) % c.n ≠ 0) :
    Pycoin.RFC6979.sign c bf d (beNat h1) =
      .ok (x % c.n, (ki * ((beNat h1 : Int) + d * (x % c.n) % c.n)) % c.n) ∧
    Secp.sign S c none d (beNat h1) =
      .ok (x % c.n, lowS c.n ((ki * ((beNat h1 : Int) + d * (x % c.n) % c.n)) % c.n)) := by
  have hk' : Pycoin.RFC6979.deterministicGenerateK c.n (d : Int) (beNat h1 : Int) = .ok (k : Int) := by
    unfold Pycoin.RFC6979.deterministicGenerateK
    rw [Pycoin.RFC6979.deterministicK_eq_spec Pycoin.RFC6979.defaultFuel c.n (by omega) d hd2 h1 hh, hk]
  have hn256 : (c.n : Int) ≤ 2 ^ 256 := by exact_mod_cast ok.n256
  -- the RFC 6979 nonce lies in [1, n)
  have hkr : 1 ≤ (k : Int) ∧ (k : Int) < c.n := deterministicGenerateK_range c.n d (beNat h1) k hk'
  have hzi : (beNat h1 : Int) < 2 ^ 256 := by
    have : (beNat h1 : Int) < c.n := by exact_mod_cast hzn
    omega
  obtain ⟨g1, g2⟩ := secp_sign_genk spec ok Pycoin.RFC6979.deterministicGenerateK bf d (beNat h1) k x y ki
    (by exact_mod_cast hz1) hzi
    (by exact_mod_cast hd1) (by exact_mod_cast hd2) hk' hkr.1 hkr.2 hm hki hr hs
  refine ⟨g1, ?_⟩
  -- the default nonce of the library is this `k`
  have hb : be32 (beNat h1 : Int) = h1 := by
    unfold be32
    rw [Int.toNat_natCast, ← hh]
    exact beBytes_beNat h1
  have hdef := spec.sign_default S.zeroSig h1 d k hh hzn hd1 hd2 hk
  unfold Secp.sign at g2 ⊢
  simp only [hk'] at g2
  have hk256 : (k : Int) < 2 ^ 256 := by omega
  rw [toBytes32_ok (by omega) hk256] at g2
  simp only [Except.map] at g2
  simp only
  have hzb : (beNat h1 : Int) < 2 ^ 256 := by
    have : (beNat h1 : Int) < c.n := by exact_mod_cast hzn
    omega
  rw [toBytes32_ok (by omega) hzb] at g2 ⊢
  have hdb : ((d : Nat) : Int) < 2 ^ 256 := by
    have : (d : Int) < c.n := by exact_mod_cast hd2
    omega
  rw [toBytes32_ok (by omega) hdb] at g2 ⊢
  simp only at g2 ⊢
  rw [hb] at g2 ⊢
  rw [hdef]
  exact g2

end Pycoin.Native
