import Pycoin.Model.ScriptStreamer
import Pycoin.Proofs.Bytes
/-! Helper lemmas for the C12 push / decoder theorems: facts about the generated tables (re-checked by
`decide +kernel` against what the code builds now) and the refinement of `get_opcode` to Core's `GetScriptOp`. -/
namespace Pycoin.Script
open Pycoin.Gen.Opcodes

/-! ## what the generated tables must say (each re-checked by kernel evaluation of the whole table) -/

/-- the handler `BitcoinScriptStreamer.decoder` is expected to hold for opcode byte `n` -/
def expectedHandler (n : Nat) : Option Handler :=
  if n = 0 then some (.const [])
  else if n ≤ 75 then some (.sized n)
  else if n = 76 then some (.varlen 1 false 1)
  else if n = 77 then some (.varlen 2 false 256)
  else if n = 78 then some (.varlen 4 false 65536)
  else if n = 79 then some (.const [0x81])
  else if n = 80 then none
  else if n ≤ 96 then some (.const [UInt8.ofNat (n - 80)])
  else none

theorem decoder_table : ∀ n, n < 256 → dictGet (UInt8.ofNat n) decoder = expectedHandler n := by
  decide +kernel

theorem decoder_eq (b : UInt8) : dictGet b decoder = expectedHandler b.toNat := by
  have := decoder_table b.toNat b.toNat_lt
  simpa using this

/-- the bytes `const_encoder` is expected to hold for the one-byte data `[n]` -/
def expectedConst (n : Nat) : Option Bytes :=
  if 1 ≤ n ∧ n ≤ 16 then some [UInt8.ofNat (80 + n)]
  else if n = 0x81 then some [0x4f]
  else none

theorem constEncoder_one : ∀ n, n < 256 → dictGet [UInt8.ofNat n] constEncoder = expectedConst n := by
  decide +kernel

theorem constEncoder_nil : dictGet ([] : Bytes) constEncoder = some [0x00] := by decide +kernel

theorem constEncoder_keys_short : ∀ p ∈ constEncoder, p.1.length ≤ 1 := by decide +kernel

theorem sizedConstValues_eq : sizedConstValues = constEncoder.map (·.1) := by decide +kernel

theorem sizedEncoder_small : ∀ n, n < 76 → dictGet n sizedEncoder = if 1 ≤ n then some (UInt8.ofNat n) else none := by
  decide +kernel

theorem sizedEncoder_keys : ∀ p ∈ sizedEncoder, p.1 ≤ 75 := by decide +kernel

theorem variableEncoder_eq :
    variableEncoder = [(255, 76, 1, false), (65535, 77, 2, false), (4294967295, 78, 4, false)] := by decide +kernel

theorem variableSizedValues_eq : variableSizedValues = List.range' 1 75 := by decide +kernel

theorem dictGet_none {κ ν} [DecidableEq κ] (k : κ) (l : List (κ × ν)) (h : ∀ p ∈ l, p.1 ≠ k) : dictGet k l = none := by
  induction l with
  | nil => rfl
  | cons p r ih =>
    obtain ⟨k', v⟩ := p
    have : k' ≠ k := h (k', v) (by simp)
    simp only [dictGet, this, if_false]
    exact ih (fun q hq => h q (by simp [hq]))

theorem dictGet_mem {κ ν} [DecidableEq κ] (k : κ) (l : List (κ × ν)) (v : ν) (h : dictGet k l = some v) : (k, v) ∈ l := by
  induction l with
  | nil => simp [dictGet] at h
  | cons p r ih =>
    obtain ⟨k', v'⟩ := p
    simp only [dictGet] at h
    split at h
    · rename_i hk; cases h; subst hk; simp
    · simp [ih h]

theorem mem_variableSizedValues (n : Nat) : n ∈ variableSizedValues ↔ 1 ≤ n ∧ n ≤ 75 := by
  rw [variableSizedValues_eq, List.mem_range'_1]; omega

theorem constEncoder_long (d : Bytes) (h : 2 ≤ d.length) : dictGet d constEncoder = none := by
  apply dictGet_none
  intro p hp heq
  have := constEncoder_keys_short p hp
  rw [heq] at this; omega

theorem sizedEncoder_eq (n : Nat) : dictGet n sizedEncoder = if 1 ≤ n ∧ n ≤ 75 then some (UInt8.ofNat n) else none := by
  by_cases h : n < 76
  · rw [sizedEncoder_small n h]
    by_cases h1 : 1 ≤ n <;> simp [h1] <;> omega
  · rw [dictGet_none]
    · have : ¬ (1 ≤ n ∧ n ≤ 75) := by omega
      simp [this]
    · intro p hp heq
      have := sizedEncoder_keys p hp
      omega

/-- membership in `const_values` (the data that has a constant opcode) -/
theorem mem_sizedConstValues (d : Bytes) : d ∈ sizedConstValues ↔ (dictGet d constEncoder).isSome = true := by
  rw [sizedConstValues_eq]
  constructor
  · intro h
    obtain ⟨p, hp, rfl⟩ := List.mem_map.mp h
    cases hget : dictGet p.1 constEncoder with
    | some v => rfl
    | none =>
      exfalso
      -- a key that is in the list is found
      have : ∀ (l : List (Bytes × Bytes)), p ∈ l → dictGet p.1 l ≠ none := by
        intro l hl
        induction l with
        | nil => simp at hl
        | cons q r ih =>
          obtain ⟨k', v'⟩ := q
          simp only [dictGet]
          split
          · simp
          · rename_i hne
            rcases List.mem_cons.mp hl with heq | hr
            · subst heq; exact absurd rfl hne
            · exact ih hr
      exact this _ hp hget
  · intro h
    cases hget : dictGet d constEncoder with
    | none => rw [hget] at h; simp at h
    | some v =>
      have := dictGet_mem d constEncoder v hget
      exact List.mem_map.mpr ⟨(d, v), this, rfl⟩

end Pycoin.Script
