import Pycoin.Model.NativeCurve
import Pycoin.Proofs.Bytes
import Mathlib.Tactic.Ring
import Mathlib.Tactic.Linarith
/-!
Bignum layer of the OpenSSL glue (`native/bignum.py`): the MPI buffer `BignumType.__init__` builds decodes (per the
documented MPI format, `mpiDecode`) to the integer it was built from; `to_int` over base-2⁶⁴ words inverts `bnOfInt`.
-/
namespace Pycoin.Native
open Pycoin Pycoin.Curve

theorem leNat_append' (a b : Bytes) : leNat (a ++ b) = leNat a + 256 ^ a.length * leNat b := by
  induction a with
  | nil => simp [leNat]
  | cons x xs ih => simp only [List.cons_append, leNat, ih, List.length_cons, pow_succ]; ring

theorem beNat_cons (x : UInt8) (bs : Bytes) : beNat (x :: bs) = x.toNat * 256 ^ bs.length + beNat bs := by
  unfold beNat
  rw [List.reverse_cons, leNat_append']
  simp [leNat]; ring

theorem beNat_lt (b : Bytes) : beNat b < 256 ^ b.length := by
  unfold beNat
  have := leNat_lt b.reverse
  simpa using this

/-- `n < 256 ^ ((bit_length(n) + 7) // 8)` -/
theorem lt_pow_byteLen (n : Nat) : n < 256 ^ ((Pycoin.RFC6979.bitLength n + 7) / 8) := by
  unfold Pycoin.RFC6979.bitLength
  by_cases h : n = 0
  · simp [h]
  · simp only [h, if_false]
    have h1 : n < 2 ^ (n.log2 + 1) := Nat.lt_log2_self
    have h2 : 2 ^ (n.log2 + 1) ≤ 2 ^ (8 * ((n.log2 + 1 + 7) / 8)) := Nat.pow_le_pow_right (by norm_num) (by omega)
    have h3 : (256 : Nat) ^ ((n.log2 + 1 + 7) / 8) = 2 ^ (8 * ((n.log2 + 1 + 7) / 8)) := by
      rw [show (256 : Nat) = 2 ^ 8 by norm_num, ← pow_mul]
    omega

theorem cInt_small (v : Int) (h0 : 0 ≤ v) (h1 : v < 2 ^ 31) : Ossl.cInt v = v := by
  unfold Ossl.cInt
  have : fmod v (2 ^ 32) = v := by
    unfold fmod
    rw [Int.fmod_eq_emod_of_nonneg _ (by norm_num)]
    exact Int.emod_eq_of_lt h0 (by omega)
  simp only [this]
  rw [if_neg (by omega)]

/-- the buffer of `BignumType(n)` is the MPI encoding of `n` -/
theorem mpiOf_decode (n : Int) (hsz : (Pycoin.RFC6979.bitLength n.natAbs + 7) / 8 + 5 < 2 ^ 31) :
    ∃ buf theLen, Ossl.mpiOf n = .ok (buf, theLen) ∧ theLen = (Pycoin.RFC6979.bitLength n.natAbs + 7) / 8 ∧
      mpiDecode buf ((theLen : Int) + 5) = some n := by
  set theLen := (Pycoin.RFC6979.bitLength n.natAbs + 7) / 8 with hl
  have hmag : n.natAbs < 256 ^ theLen := lt_pow_byteLen _
  refine ⟨beBytes (theLen + 1) 4 ++ (if n < 0 then (0x80 : UInt8) else 0) :: beBytes n.natAbs theLen, theLen, ?_, rfl, ?_⟩
  · unfold Ossl.mpiOf
    simp only [← hl]
    rw [if_neg (by omega)]
  · unfold mpiDecode
    have hlen : (beBytes (theLen + 1) 4 ++ (if n < 0 then (0x80 : UInt8) else 0) :: beBytes n.natAbs theLen).length
        = theLen + 5 := by simp; omega
    rw [hlen]
    rw [if_neg (by push_cast; omega)]
    have htake : (beBytes (theLen + 1) 4 ++ (if n < 0 then (0x80 : UInt8) else 0) :: beBytes n.natAbs theLen).take 4
        = beBytes (theLen + 1) 4 := by
      rw [List.take_append_of_le_length (by simp)]
      exact List.take_of_length_le (by simp)
    have hdrop : (beBytes (theLen + 1) 4 ++ (if n < 0 then (0x80 : UInt8) else 0) :: beBytes n.natAbs theLen).drop 4
        = (if n < 0 then (0x80 : UInt8) else 0) :: beBytes n.natAbs theLen := by
      rw [List.drop_append_of_le_length (by simp)]
      simp [List.drop_of_length_le]
    simp only [htake, hdrop]
    rw [beNat_beBytes_of_lt (by norm_num; omega : theLen + 1 < 256 ^ 4)]
    rw [if_neg (by omega), if_neg (by omega)]
    rw [beNat_cons, beBytes_length, beNat_beBytes_of_lt hmag]
    simp only [List.headD_cons]
    by_cases hn : n < 0
    · simp only [hn, if_true]
      rw [if_pos (by decide)]
      congr 1
      have h128 : (2 : Int) ^ (8 * (theLen + 1) - 1) = 128 * 256 ^ theLen := by
        rw [show 8 * (theLen + 1) - 1 = 7 + 8 * theLen by omega, pow_add, pow_mul]; norm_num
      rw [h128]
      push_cast
      have habs : |n| = -n := abs_of_neg hn
      rw [habs]
      ring
    · simp only [hn, if_false]
      rw [if_neg (by decide)]
      congr 1
      push_cast
      have habs : |n| = n := abs_of_nonneg (by omega)
      simp [habs]

/-! ### words -/

theorem toIntLoop_lin (bits : Nat) : ∀ (ws : List Nat) (v f : Int),
    Ossl.toIntLoop bits ws v f = v + f * Ossl.toIntLoop bits ws 0 1 := by
  intro ws
  induction ws with
  | nil => intro v f; simp [Ossl.toIntLoop]
  | cons w ws ih =>
    intro v f
    unfold Ossl.toIntLoop
    rw [ih (v + w * f), ih (0 + (w : Int) * 1)]
    ring

theorem toIntLoop_wordsOf (bits : Nat) (hb : 0 < bits) : ∀ (fuel v : Nat), v < fuel →
    Ossl.toIntLoop bits (wordsOf bits fuel v) 0 1 = v := by
  intro fuel
  induction fuel with
  | zero => intro v h; omega
  | succ f ih =>
    intro v hv
    unfold wordsOf
    by_cases h0 : v = 0
    · simp [h0, Ossl.toIntLoop]
    · simp only [h0, if_false]
      unfold Ossl.toIntLoop
      rw [toIntLoop_lin]
      have h2 : 2 ≤ 2 ^ bits := by
        calc 2 = 2 ^ 1 := rfl
          _ ≤ 2 ^ bits := Nat.pow_le_pow_right (by norm_num) hb
      have hdiv : v / 2 ^ bits < f := by
        have : v / 2 ^ bits ≤ v / 2 := Nat.div_le_div_left h2 (by norm_num)
        omega
      rw [ih _ hdiv]
      have := Nat.mod_add_div v (2 ^ bits)
      push_cast
      zify at this
      linarith

theorem toInt_bnOfInt (L : LibCrypto) (h64 : L.ulongBits = 64) (v : Int) : Ossl.toInt L (bnOfInt v) = v := by
  unfold Ossl.toInt bnOfInt
  simp only [h64]
  rw [toIntLoop_wordsOf 64 (by norm_num) _ _ (by omega)]
  by_cases h : v < 0
  · rw [if_pos (by simpa using h)]; omega
  · rw [if_neg (by simpa using h)]; omega

end Pycoin.Native
