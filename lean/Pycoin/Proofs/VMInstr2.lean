import Mathlib.Tactic.SplitIfs
import Mathlib.Tactic.IntervalCases
import Pycoin.Proofs.VMInstr
/-!
`eval_instruction` = one iteration of Core's loop, assembled from the decoder refinement, the table facts and the
handler-level agreements.
-/
namespace Pycoin.VM
open Pycoin.Spec Pycoin.Gen.VM CondStack Consensus

variable (chk : Bytes → Bytes → Bytes → Bool → Bool) (cfg : Config)

/-- opcodes above OP_16 other than the CHECKSIG family, not disabled: counted, dispatched when executing or in
`OP_IF … OP_ENDIF` -/
theorem instr_counted (st : Consensus.State) (pc pcNext op : Nat) (h : Handler) (oc : Bool)
    (hop : 0x60 < op) (hlt : op < 256) (hns : ¬ (0xac ≤ op ∧ op ≤ 0xaf)) (hnd : isDisabledOpcode op = false)
    (hget : getOpcode cfg.script pc (hasFlag cfg.flags VERIFY_MINIMALDATA && (absS st pc).cond.allIfTrue) = .ok ⟨op, none, pcNext, true⟩)
    (htab : lookupList[op]? = some (h, oc))
    (hoc : oc = (decide (0x63 ≤ op) && decide (op ≤ 0x68)))
    (hag : ∀ st', Agree pcNext (runHandler (stdEnv chk) cfg h (absS st' pcNext))
      (execOp (specEnv cfg) st' (st'.vfExec.all id) op pcNext)) :
    Agree pcNext (evalInstruction (stdEnv chk) cfg (absS st pc)) (specStep chk cfg st op [] pcNext) := by
  have hget' : getOpcode cfg.script (absS st pc).pc
      (hasFlag cfg.flags VERIFY_MINIMALDATA && (absS st pc).cond.allIfTrue) = .ok ⟨op, none, pcNext, true⟩ := hget
  rw [evalInstr_op (stdEnv chk) cfg (absS st pc) op pcNext h oc hget' htab, specStep_op chk cfg st op pcNext (by omega) hns]
  have hall : (absS st pc).cond.allIfTrue = st.vfExec.all id := absC_allIfTrue st.vfExec
  have hgt : op > 0x60 := hop
  simp only [hgt, if_true, hnd, Bool.false_eq_true, if_false, hall, absS_bump, hoc]
  set st1 : Consensus.State := { st with nOpCount := st.nOpCount + 1 } with hst1
  by_cases hcnt : st.nOpCount + 1 > 201
  · -- over the limit: Core fails before the switch, pycoin after the handler
    simp only [hcnt, if_true]
    unfold Agree
    simp only [Except.toOption, Option.map]
    cases hcond : (st.vfExec.all id || (decide (0x63 ≤ op) && decide (op ≤ 0x68)))
    · have h201 : ((MAX_OP_COUNT : Nat) : Int) < (st.nOpCount : Int) + 1 := by simp only [MAX_OP_COUNT]; omega
      simp [Except.bind, absS, hst1, h201]
    · simp only [if_true]
      have := hag st1
      unfold Agree at this
      cases hr : runHandler (stdEnv chk) cfg h (absS st1 pcNext) with
      | error e => simp [Except.bind]
      | ok s3 =>
        rw [hr] at this
        cases hc : execOp (specEnv cfg) st1 (st1.vfExec.all id) op pcNext with
        | error e => rw [hc] at this; simp [Except.toOption] at this
        | ok st'' =>
          rw [hc] at this
          simp only [Except.toOption, Option.map, Option.some.injEq] at this
          have hcount := execOp_count _ _ _ _ _ _ hlt hc
          have h201 : (s3.opCount : Int) > (MAX_OP_COUNT : Nat) := by
            rw [this]; simp only [absS, hcount, hst1, MAX_OP_COUNT]; omega
          simp [Except.bind, h201]
  · simp only [hcnt, if_false]
    cases hcond : (st.vfExec.all id || (decide (0x63 ≤ op) && decide (op ≤ 0x68)))
    · simp only [Bool.false_eq_true, if_false]
      exact tail_agree pcNext (.ok (absS st1 pcNext)) (.ok st1) (st.nOpCount + 1) hcnt (by simp [Agree, Except.toOption])
        (by intro st'' h; cases h; rfl)
    · simp only [if_true]
      exact tail_agree pcNext _ _ (st.nOpCount + 1) hcnt (hag st1) (by
        intro st'' hc
        have := execOp_count _ _ _ _ _ _ hlt hc
        simpa [hst1] using this)

/-- every counted, non-disabled opcode outside the CHECKSIG family: its entry in the generated table, its
`outside_conditional` attribute and the agreement of its handler with Core's switch -/
theorem counted_table (pcNext op : Nat) (hop : 0x60 < op) (hlt : op < 256) (hns : ¬ (0xac ≤ op ∧ op ≤ 0xaf))
    (hnd : isDisabledOpcode op = false) (hw : hasFlag cfg.flags VERIFY_MINIMALIF = true → cfg.witness = true) :
    ∃ h oc, lookupList[op]? = some (h, oc) ∧ oc = (decide (0x63 ≤ op) && decide (op ≤ 0x68)) ∧
      ∀ st', Agree pcNext (runHandler (stdEnv chk) cfg h (absS st' pcNext))
        (execOp (specEnv cfg) st' (st'.vfExec.all id) op pcNext) := by
  interval_cases op
  · exact ⟨.stack_NOP, false, by decide +kernel, by decide, fun st' => h_NOP cfg st' pcNext _⟩
  · exact ⟨.stack_VER, false, by decide +kernel, by decide, fun st' => h_bad cfg st' pcNext _ 98 (by omega) _⟩
  · exact ⟨.mkIf false, true, by decide +kernel, by decide, fun st' => h_IF cfg st' pcNext false hw⟩
  · exact ⟨.mkIf true, true, by decide +kernel, by decide, fun st' => h_IF cfg st' pcNext true hw⟩
  · exact ⟨.badOpcode 15, true, by decide +kernel, by decide, fun st' => h_bad cfg st' pcNext _ 101 (by omega) _⟩
  · exact ⟨.badOpcode 15, true, by decide +kernel, by decide, fun st' => h_bad cfg st' pcNext _ 102 (by omega) _⟩
  · exact ⟨.misc_ELSE, true, by decide +kernel, by decide, fun st' => h_ELSE cfg st' pcNext _⟩
  · exact ⟨.misc_ENDIF, true, by decide +kernel, by decide, fun st' => h_ENDIF cfg st' pcNext _⟩
  · exact ⟨.int_VERIFY, false, by decide +kernel, by decide, fun st' => h_VERIFY cfg st' pcNext _⟩
  · exact ⟨.stack_RETURN, false, by decide +kernel, by decide, fun st' => h_RETURN cfg st' pcNext _⟩
  · exact ⟨.misc_TOALTSTACK, false, by decide +kernel, by decide, fun st' => h_TOALTSTACK cfg st' pcNext _⟩
  · exact ⟨.misc_FROMALTSTACK, false, by decide +kernel, by decide, fun st' => h_FROMALTSTACK cfg st' pcNext _⟩
  · exact ⟨.stack_2DROP, false, by decide +kernel, by decide, fun st' => h_2DROP cfg st' pcNext _⟩
  · exact ⟨.stack_2DUP, false, by decide +kernel, by decide, fun st' => h_2DUP cfg st' pcNext _⟩
  · exact ⟨.stack_3DUP, false, by decide +kernel, by decide, fun st' => h_3DUP cfg st' pcNext _⟩
  · exact ⟨.stack_2OVER, false, by decide +kernel, by decide, fun st' => h_2OVER cfg st' pcNext _⟩
  · exact ⟨.stack_2ROT, false, by decide +kernel, by decide, fun st' => h_2ROT cfg st' pcNext _⟩
  · exact ⟨.stack_2SWAP, false, by decide +kernel, by decide, fun st' => h_2SWAP cfg st' pcNext _⟩
  · exact ⟨.misc_IFDUP, false, by decide +kernel, by decide, fun st' => h_IFDUP cfg st' pcNext _⟩
  · exact ⟨.int_DEPTH, false, by decide +kernel, by decide, fun st' => h_DEPTH cfg st' pcNext _⟩
  · exact ⟨.stack_DROP, false, by decide +kernel, by decide, fun st' => h_DROP cfg st' pcNext _⟩
  · exact ⟨.stack_DUP, false, by decide +kernel, by decide, fun st' => h_DUP cfg st' pcNext _⟩
  · exact ⟨.stack_NIP, false, by decide +kernel, by decide, fun st' => h_NIP cfg st' pcNext _⟩
  · exact ⟨.stack_OVER, false, by decide +kernel, by decide, fun st' => h_OVER cfg st' pcNext _⟩
  · exact ⟨.int_PICK, false, by decide +kernel, by decide, fun st' => h_PICK cfg st' pcNext _⟩
  · exact ⟨.int_ROLL, false, by decide +kernel, by decide, fun st' => h_ROLL cfg st' pcNext _⟩
  · exact ⟨.stack_ROT, false, by decide +kernel, by decide, fun st' => h_ROT cfg st' pcNext _⟩
  · exact ⟨.stack_SWAP, false, by decide +kernel, by decide, fun st' => h_SWAP cfg st' pcNext _⟩
  · exact ⟨.stack_TUCK, false, by decide +kernel, by decide, fun st' => h_TUCK cfg st' pcNext _⟩
  · exact absurd hnd (by decide)
  · exact absurd hnd (by decide)
  · exact absurd hnd (by decide)
  · exact absurd hnd (by decide)
  · exact ⟨.int_SIZE, false, by decide +kernel, by decide, fun st' => h_SIZE cfg st' pcNext _⟩
  · exact absurd hnd (by decide)
  · exact absurd hnd (by decide)
  · exact absurd hnd (by decide)
  · exact absurd hnd (by decide)
  · exact ⟨.int_EQUAL, false, by decide +kernel, by decide, fun st' => h_EQUAL cfg st' pcNext _⟩
  · exact ⟨.int_EQUALVERIFY, false, by decide +kernel, by decide, fun st' => h_EQUALVERIFY cfg st' pcNext _⟩
  · exact ⟨.stack_RESERVED1, false, by decide +kernel, by decide, fun st' => h_bad cfg st' pcNext _ 137 (by omega) _⟩
  · exact ⟨.stack_RESERVED2, false, by decide +kernel, by decide, fun st' => h_bad cfg st' pcNext _ 138 (by omega) _⟩
  · exact ⟨.int_1ADD, false, by decide +kernel, by decide, fun st' => h_1ADD cfg st' pcNext _⟩
  · exact ⟨.int_1SUB, false, by decide +kernel, by decide, fun st' => h_1SUB cfg st' pcNext _⟩
  · exact absurd hnd (by decide)
  · exact absurd hnd (by decide)
  · exact ⟨.int_NEGATE, false, by decide +kernel, by decide, fun st' => h_NEGATE cfg st' pcNext _⟩
  · exact ⟨.int_ABS, false, by decide +kernel, by decide, fun st' => h_ABS cfg st' pcNext _⟩
  · exact ⟨.int_NOT, false, by decide +kernel, by decide, fun st' => h_NOT cfg st' pcNext _⟩
  · exact ⟨.int_0NOTEQUAL, false, by decide +kernel, by decide, fun st' => h_0NOTEQUAL cfg st' pcNext _⟩
  · exact ⟨.int_ADD, false, by decide +kernel, by decide, fun st' => h_ADD cfg st' pcNext _⟩
  · exact ⟨.int_SUB, false, by decide +kernel, by decide, fun st' => h_SUB cfg st' pcNext _⟩
  · exact absurd hnd (by decide)
  · exact absurd hnd (by decide)
  · exact absurd hnd (by decide)
  · exact absurd hnd (by decide)
  · exact absurd hnd (by decide)
  · exact ⟨.int_BOOLAND, false, by decide +kernel, by decide, fun st' => h_BOOLAND cfg st' pcNext _⟩
  · exact ⟨.int_BOOLOR, false, by decide +kernel, by decide, fun st' => h_BOOLOR cfg st' pcNext _⟩
  · exact ⟨.int_NUMEQUAL, false, by decide +kernel, by decide, fun st' => h_NUMEQUAL cfg st' pcNext _⟩
  · exact ⟨.int_NUMEQUALVERIFY, false, by decide +kernel, by decide, fun st' => h_NUMEQUALVERIFY cfg st' pcNext _⟩
  · exact ⟨.int_NUMNOTEQUAL, false, by decide +kernel, by decide, fun st' => h_NUMNOTEQUAL cfg st' pcNext _⟩
  · exact ⟨.int_LESSTHAN, false, by decide +kernel, by decide, fun st' => h_LESSTHAN cfg st' pcNext _⟩
  · exact ⟨.int_GREATERTHAN, false, by decide +kernel, by decide, fun st' => h_GREATERTHAN cfg st' pcNext _⟩
  · exact ⟨.int_LESSTHANOREQUAL, false, by decide +kernel, by decide, fun st' => h_LESSTHANOREQUAL cfg st' pcNext _⟩
  · exact ⟨.int_GREATERTHANOREQUAL, false, by decide +kernel, by decide, fun st' => h_GREATERTHANOREQUAL cfg st' pcNext _⟩
  · exact ⟨.int_MIN, false, by decide +kernel, by decide, fun st' => h_MIN cfg st' pcNext _⟩
  · exact ⟨.int_MAX, false, by decide +kernel, by decide, fun st' => h_MAX cfg st' pcNext _⟩
  · exact ⟨.int_WITHIN, false, by decide +kernel, by decide, fun st' => h_WITHIN cfg st' pcNext _⟩
  · exact ⟨.stack_RIPEMD160, false, by decide +kernel, by decide, fun st' => h_RIPEMD160 cfg st' pcNext _ chk⟩
  · exact ⟨.stack_SHA1, false, by decide +kernel, by decide, fun st' => h_SHA1 cfg st' pcNext _ chk⟩
  · exact ⟨.stack_SHA256, false, by decide +kernel, by decide, fun st' => h_SHA256 cfg st' pcNext _ chk⟩
  · exact ⟨.stack_HASH160, false, by decide +kernel, by decide, fun st' => h_HASH160 cfg st' pcNext _ chk⟩
  · exact ⟨.stack_HASH256, false, by decide +kernel, by decide, fun st' => h_HASH256 cfg st' pcNext _ chk⟩
  · exact ⟨.misc_CODESEPARATOR, false, by decide +kernel, by decide, fun st' => h_CODESEPARATOR cfg st' pcNext _⟩
  · exact absurd ⟨by decide, by decide⟩ hns
  · exact absurd ⟨by decide, by decide⟩ hns
  · exact absurd ⟨by decide, by decide⟩ hns
  · exact absurd ⟨by decide, by decide⟩ hns
  · exact ⟨.discourageNops, false, by decide +kernel, by decide, fun st' => h_NOPn cfg st' pcNext _ 176 (by omega)⟩
  · exact ⟨.misc_CHECKLOCKTIMEVERIFY, false, by decide +kernel, by decide, fun st' => h_CLTV cfg st' pcNext _⟩
  · exact ⟨.misc_CHECKSEQUENCEVERIFY, false, by decide +kernel, by decide, fun st' => h_CSV cfg st' pcNext _⟩
  · exact ⟨.discourageNops, false, by decide +kernel, by decide, fun st' => h_NOPn cfg st' pcNext _ 179 (by omega)⟩
  · exact ⟨.discourageNops, false, by decide +kernel, by decide, fun st' => h_NOPn cfg st' pcNext _ 180 (by omega)⟩
  · exact ⟨.discourageNops, false, by decide +kernel, by decide, fun st' => h_NOPn cfg st' pcNext _ 181 (by omega)⟩
  · exact ⟨.discourageNops, false, by decide +kernel, by decide, fun st' => h_NOPn cfg st' pcNext _ 182 (by omega)⟩
  · exact ⟨.discourageNops, false, by decide +kernel, by decide, fun st' => h_NOPn cfg st' pcNext _ 183 (by omega)⟩
  · exact ⟨.discourageNops, false, by decide +kernel, by decide, fun st' => h_NOPn cfg st' pcNext _ 184 (by omega)⟩
  · exact ⟨.discourageNops, false, by decide +kernel, by decide, fun st' => h_NOPn cfg st' pcNext _ 185 (by omega)⟩
  · exact ⟨.badInstruction 186, false, by decide +kernel, by decide, fun st' => h_bad cfg st' pcNext _ 186 (by omega) _⟩
  · exact ⟨.badInstruction 187, false, by decide +kernel, by decide, fun st' => h_bad cfg st' pcNext _ 187 (by omega) _⟩
  · exact ⟨.badInstruction 188, false, by decide +kernel, by decide, fun st' => h_bad cfg st' pcNext _ 188 (by omega) _⟩
  · exact ⟨.badInstruction 189, false, by decide +kernel, by decide, fun st' => h_bad cfg st' pcNext _ 189 (by omega) _⟩
  · exact ⟨.badInstruction 190, false, by decide +kernel, by decide, fun st' => h_bad cfg st' pcNext _ 190 (by omega) _⟩
  · exact ⟨.badInstruction 191, false, by decide +kernel, by decide, fun st' => h_bad cfg st' pcNext _ 191 (by omega) _⟩
  · exact ⟨.badInstruction 192, false, by decide +kernel, by decide, fun st' => h_bad cfg st' pcNext _ 192 (by omega) _⟩
  · exact ⟨.badInstruction 193, false, by decide +kernel, by decide, fun st' => h_bad cfg st' pcNext _ 193 (by omega) _⟩
  · exact ⟨.badInstruction 194, false, by decide +kernel, by decide, fun st' => h_bad cfg st' pcNext _ 194 (by omega) _⟩
  · exact ⟨.badInstruction 195, false, by decide +kernel, by decide, fun st' => h_bad cfg st' pcNext _ 195 (by omega) _⟩
  · exact ⟨.badInstruction 196, false, by decide +kernel, by decide, fun st' => h_bad cfg st' pcNext _ 196 (by omega) _⟩
  · exact ⟨.badInstruction 197, false, by decide +kernel, by decide, fun st' => h_bad cfg st' pcNext _ 197 (by omega) _⟩
  · exact ⟨.badInstruction 198, false, by decide +kernel, by decide, fun st' => h_bad cfg st' pcNext _ 198 (by omega) _⟩
  · exact ⟨.badInstruction 199, false, by decide +kernel, by decide, fun st' => h_bad cfg st' pcNext _ 199 (by omega) _⟩
  · exact ⟨.badInstruction 200, false, by decide +kernel, by decide, fun st' => h_bad cfg st' pcNext _ 200 (by omega) _⟩
  · exact ⟨.badInstruction 201, false, by decide +kernel, by decide, fun st' => h_bad cfg st' pcNext _ 201 (by omega) _⟩
  · exact ⟨.badInstruction 202, false, by decide +kernel, by decide, fun st' => h_bad cfg st' pcNext _ 202 (by omega) _⟩
  · exact ⟨.badInstruction 203, false, by decide +kernel, by decide, fun st' => h_bad cfg st' pcNext _ 203 (by omega) _⟩
  · exact ⟨.badInstruction 204, false, by decide +kernel, by decide, fun st' => h_bad cfg st' pcNext _ 204 (by omega) _⟩
  · exact ⟨.badInstruction 205, false, by decide +kernel, by decide, fun st' => h_bad cfg st' pcNext _ 205 (by omega) _⟩
  · exact ⟨.badInstruction 206, false, by decide +kernel, by decide, fun st' => h_bad cfg st' pcNext _ 206 (by omega) _⟩
  · exact ⟨.badInstruction 207, false, by decide +kernel, by decide, fun st' => h_bad cfg st' pcNext _ 207 (by omega) _⟩
  · exact ⟨.badInstruction 208, false, by decide +kernel, by decide, fun st' => h_bad cfg st' pcNext _ 208 (by omega) _⟩
  · exact ⟨.badInstruction 209, false, by decide +kernel, by decide, fun st' => h_bad cfg st' pcNext _ 209 (by omega) _⟩
  · exact ⟨.badInstruction 210, false, by decide +kernel, by decide, fun st' => h_bad cfg st' pcNext _ 210 (by omega) _⟩
  · exact ⟨.badInstruction 211, false, by decide +kernel, by decide, fun st' => h_bad cfg st' pcNext _ 211 (by omega) _⟩
  · exact ⟨.badInstruction 212, false, by decide +kernel, by decide, fun st' => h_bad cfg st' pcNext _ 212 (by omega) _⟩
  · exact ⟨.badInstruction 213, false, by decide +kernel, by decide, fun st' => h_bad cfg st' pcNext _ 213 (by omega) _⟩
  · exact ⟨.badInstruction 214, false, by decide +kernel, by decide, fun st' => h_bad cfg st' pcNext _ 214 (by omega) _⟩
  · exact ⟨.badInstruction 215, false, by decide +kernel, by decide, fun st' => h_bad cfg st' pcNext _ 215 (by omega) _⟩
  · exact ⟨.badInstruction 216, false, by decide +kernel, by decide, fun st' => h_bad cfg st' pcNext _ 216 (by omega) _⟩
  · exact ⟨.badInstruction 217, false, by decide +kernel, by decide, fun st' => h_bad cfg st' pcNext _ 217 (by omega) _⟩
  · exact ⟨.badInstruction 218, false, by decide +kernel, by decide, fun st' => h_bad cfg st' pcNext _ 218 (by omega) _⟩
  · exact ⟨.badInstruction 219, false, by decide +kernel, by decide, fun st' => h_bad cfg st' pcNext _ 219 (by omega) _⟩
  · exact ⟨.badInstruction 220, false, by decide +kernel, by decide, fun st' => h_bad cfg st' pcNext _ 220 (by omega) _⟩
  · exact ⟨.badInstruction 221, false, by decide +kernel, by decide, fun st' => h_bad cfg st' pcNext _ 221 (by omega) _⟩
  · exact ⟨.badInstruction 222, false, by decide +kernel, by decide, fun st' => h_bad cfg st' pcNext _ 222 (by omega) _⟩
  · exact ⟨.badInstruction 223, false, by decide +kernel, by decide, fun st' => h_bad cfg st' pcNext _ 223 (by omega) _⟩
  · exact ⟨.badInstruction 224, false, by decide +kernel, by decide, fun st' => h_bad cfg st' pcNext _ 224 (by omega) _⟩
  · exact ⟨.badInstruction 225, false, by decide +kernel, by decide, fun st' => h_bad cfg st' pcNext _ 225 (by omega) _⟩
  · exact ⟨.badInstruction 226, false, by decide +kernel, by decide, fun st' => h_bad cfg st' pcNext _ 226 (by omega) _⟩
  · exact ⟨.badInstruction 227, false, by decide +kernel, by decide, fun st' => h_bad cfg st' pcNext _ 227 (by omega) _⟩
  · exact ⟨.badInstruction 228, false, by decide +kernel, by decide, fun st' => h_bad cfg st' pcNext _ 228 (by omega) _⟩
  · exact ⟨.badInstruction 229, false, by decide +kernel, by decide, fun st' => h_bad cfg st' pcNext _ 229 (by omega) _⟩
  · exact ⟨.badInstruction 230, false, by decide +kernel, by decide, fun st' => h_bad cfg st' pcNext _ 230 (by omega) _⟩
  · exact ⟨.badInstruction 231, false, by decide +kernel, by decide, fun st' => h_bad cfg st' pcNext _ 231 (by omega) _⟩
  · exact ⟨.badInstruction 232, false, by decide +kernel, by decide, fun st' => h_bad cfg st' pcNext _ 232 (by omega) _⟩
  · exact ⟨.badInstruction 233, false, by decide +kernel, by decide, fun st' => h_bad cfg st' pcNext _ 233 (by omega) _⟩
  · exact ⟨.badInstruction 234, false, by decide +kernel, by decide, fun st' => h_bad cfg st' pcNext _ 234 (by omega) _⟩
  · exact ⟨.badInstruction 235, false, by decide +kernel, by decide, fun st' => h_bad cfg st' pcNext _ 235 (by omega) _⟩
  · exact ⟨.badInstruction 236, false, by decide +kernel, by decide, fun st' => h_bad cfg st' pcNext _ 236 (by omega) _⟩
  · exact ⟨.badInstruction 237, false, by decide +kernel, by decide, fun st' => h_bad cfg st' pcNext _ 237 (by omega) _⟩
  · exact ⟨.badInstruction 238, false, by decide +kernel, by decide, fun st' => h_bad cfg st' pcNext _ 238 (by omega) _⟩
  · exact ⟨.badInstruction 239, false, by decide +kernel, by decide, fun st' => h_bad cfg st' pcNext _ 239 (by omega) _⟩
  · exact ⟨.badInstruction 240, false, by decide +kernel, by decide, fun st' => h_bad cfg st' pcNext _ 240 (by omega) _⟩
  · exact ⟨.badInstruction 241, false, by decide +kernel, by decide, fun st' => h_bad cfg st' pcNext _ 241 (by omega) _⟩
  · exact ⟨.badInstruction 242, false, by decide +kernel, by decide, fun st' => h_bad cfg st' pcNext _ 242 (by omega) _⟩
  · exact ⟨.badInstruction 243, false, by decide +kernel, by decide, fun st' => h_bad cfg st' pcNext _ 243 (by omega) _⟩
  · exact ⟨.badInstruction 244, false, by decide +kernel, by decide, fun st' => h_bad cfg st' pcNext _ 244 (by omega) _⟩
  · exact ⟨.badInstruction 245, false, by decide +kernel, by decide, fun st' => h_bad cfg st' pcNext _ 245 (by omega) _⟩
  · exact ⟨.badInstruction 246, false, by decide +kernel, by decide, fun st' => h_bad cfg st' pcNext _ 246 (by omega) _⟩
  · exact ⟨.badInstruction 247, false, by decide +kernel, by decide, fun st' => h_bad cfg st' pcNext _ 247 (by omega) _⟩
  · exact ⟨.badInstruction 248, false, by decide +kernel, by decide, fun st' => h_bad cfg st' pcNext _ 248 (by omega) _⟩
  · exact ⟨.badInstruction 249, false, by decide +kernel, by decide, fun st' => h_bad cfg st' pcNext _ 249 (by omega) _⟩
  · exact ⟨.badInstruction 250, false, by decide +kernel, by decide, fun st' => h_bad cfg st' pcNext _ 250 (by omega) _⟩
  · exact ⟨.badInstruction 251, false, by decide +kernel, by decide, fun st' => h_bad cfg st' pcNext _ 251 (by omega) _⟩
  · exact ⟨.badInstruction 252, false, by decide +kernel, by decide, fun st' => h_bad cfg st' pcNext _ 252 (by omega) _⟩
  · exact ⟨.badInstruction 253, false, by decide +kernel, by decide, fun st' => h_bad cfg st' pcNext _ 253 (by omega) _⟩
  · exact ⟨.badInstruction 254, false, by decide +kernel, by decide, fun st' => h_bad cfg st' pcNext _ 254 (by omega) _⟩
  · exact ⟨.badOpcode 15, false, by decide +kernel, by decide, fun st' => h_bad cfg st' pcNext _ 255 (by omega) _⟩

end Pycoin.VM
