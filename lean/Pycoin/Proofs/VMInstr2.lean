import Mathlib.Tactic.SplitIfs
import Pycoin.Proofs.VMInstr
/-!
`eval_instruction` = one iteration of Core's loop, assembled from the decoder refinement, the table facts and the
handler-level agreements.
-/
namespace Pycoin.VM
open Pycoin.Spec Pycoin.Gen.VM CondStack Consensus

variable (chk : Bytes → Bytes → Bytes → Bool → Bool) (cfg : Config)

/-- opcodes above OP_16 other than the CHECKSIG family, not disabled: counted, dispatched when executing or in
`OP_IF … OP_ENDIF` -/
theorem instr_counted (st : Consensus.State) (pc pcNext op : Nat) (h : Handler) (oc : Bool)
    (hop : 0x60 < op) (hlt : op < 256) (hns : ¬ (0xac ≤ op ∧ op ≤ 0xaf)) (hnd : isDisabledOpcode op = false)
    (hget : getOpcode cfg.script pc (hasFlag cfg.flags VERIFY_MINIMALDATA && (absS st pc).cond.allIfTrue) = .ok ⟨op, none, pcNext, true⟩)
    (htab : lookupList[op]? = some (h, oc))
    (hoc : oc = (decide (0x63 ≤ op) && decide (op ≤ 0x68)))
    (hag : ∀ st', Agree pcNext (runHandler (stdEnv chk) cfg h (absS st' pcNext))
      (execOp (specEnv cfg) st' (st'.vfExec.all id) op pcNext)) :
    Agree pcNext (evalInstruction (stdEnv chk) cfg (absS st pc)) (specStep chk cfg st op [] pcNext) := by
  have hget' : getOpcode cfg.script (absS st pc).pc
      (hasFlag cfg.flags VERIFY_MINIMALDATA && (absS st pc).cond.allIfTrue) = .ok ⟨op, none, pcNext, true⟩ := hget
  rw [evalInstr_op (stdEnv chk) cfg (absS st pc) op pcNext h oc hget' htab, specStep_op chk cfg st op pcNext (by omega) hns]
  have hall : (absS st pc).cond.allIfTrue = st.vfExec.all id := absC_allIfTrue st.vfExec
  have hgt : op > 0x60 := hop
  simp only [hgt, if_true, hnd, Bool.false_eq_true, if_false, hall, absS_bump, hoc]
  set st1 : Consensus.State := { st with nOpCount := st.nOpCount + 1 } with hst1
  by_cases hcnt : st.nOpCount + 1 > 201
  · -- over the limit: Core fails before the switch, pycoin after the handler
    simp only [hcnt, if_true]
    unfold Agree
    simp only [Except.toOption, Option.map]
    cases hcond : (st.vfExec.all id || (decide (0x63 ≤ op) && decide (op ≤ 0x68)))
    · have h201 : ((MAX_OP_COUNT : Nat) : Int) < (st.nOpCount : Int) + 1 := by simp only [MAX_OP_COUNT]; omega
      simp [Except.bind, absS, hst1, h201]
    · simp only [if_true]
      have := hag st1
      unfold Agree at this
      cases hr : runHandler (stdEnv chk) cfg h (absS st1 pcNext) with
      | error e => simp [Except.bind]
      | ok s3 =>
        rw [hr] at this
        cases hc : execOp (specEnv cfg) st1 (st1.vfExec.all id) op pcNext with
        | error e => rw [hc] at this; simp [Except.toOption] at this
        | ok st'' =>
          rw [hc] at this
          simp only [Except.toOption, Option.map, Option.some.injEq] at this
          have hcount := execOp_count _ _ _ _ _ _ hlt hc
          have h201 : (s3.opCount : Int) > (MAX_OP_COUNT : Nat) := by
            rw [this]; simp only [absS, hcount, hst1, MAX_OP_COUNT]; omega
          simp [Except.bind, h201]
  · simp only [hcnt, if_false]
    cases hcond : (st.vfExec.all id || (decide (0x63 ≤ op) && decide (op ≤ 0x68)))
    · simp only [Bool.false_eq_true, if_false]
      exact tail_agree pcNext (.ok (absS st1 pcNext)) (.ok st1) (st.nOpCount + 1) hcnt (by simp [Agree, Except.toOption])
        (by intro st'' h; cases h; rfl)
    · simp only [if_true]
      exact tail_agree pcNext _ _ (st.nOpCount + 1) hcnt (hag st1) (by
        intro st'' hc
        have := execOp_count _ _ _ _ _ _ hlt hc
        simpa [hst1] using this)

end Pycoin.VM
