import Pycoin.Proofs.Bech32Poly
/-!
String-level facts for `bech32_encode` / `bech32_decode`: `rfind`, the CHARSET tables, case folding on
code points 33..126, and the two directions decode∘encode, encode∘decode.  Core Lean only.
-/
namespace Pycoin.Bech32
open Pycoin.Gen.Codecs

/-! ### Option.mapM on lists, spelled out -/

theorem mapM_nil' {α β} (f : α → Option β) : ([] : List α).mapM f = some [] := rfl

theorem mapM_cons' {α β} (f : α → Option β) (x : α) (xs : List α) :
    (x :: xs).mapM f = match f x with
      | none => none
      | some y => match xs.mapM f with
        | none => none
        | some ys => some (y :: ys) := by
  rw [List.mapM_cons]
  cases f x with
  | none => rfl
  | some y => cases xs.mapM f <;> rfl

theorem mapM_map_some {α β} (f : α → Option β) (g : α → β) (l : List α) (h : ∀ x ∈ l, f x = some (g x)) :
    l.mapM f = some (l.map g) := by
  induction l with
  | nil => rfl
  | cons x xs ih =>
    rw [mapM_cons', h x (by simp), ih (fun y hy => h y (by simp [hy]))]
    rfl

/-- if `l.mapM f = some r` and `g` inverts `f` pointwise then `r.mapM g = some l` -/
theorem mapM_inverse {α β} (f : α → Option β) (g : β → Option α) (hfg : ∀ a b, f a = some b → g b = some a)
    (l : List α) (r : List β) (h : l.mapM f = some r) : r.mapM g = some l ∧ r.length = l.length := by
  induction l generalizing r with
  | nil => rw [mapM_nil'] at h; injection h with h; subst h; exact ⟨rfl, rfl⟩
  | cons x xs ih =>
    rw [mapM_cons'] at h
    cases hx : f x with
    | none => rw [hx] at h; cases h
    | some y =>
      rw [hx] at h
      cases hxs : xs.mapM f with
      | none => rw [hxs] at h; cases h
      | some ys =>
        rw [hxs] at h
        injection h with h
        subst h
        obtain ⟨h1, h2⟩ := ih ys hxs
        rw [mapM_cons', hfg x y hx, h1]
        exact ⟨rfl, by simp [h2]⟩

theorem mapM_forall {α β} (f : α → Option β) (P : β → Prop) (hP : ∀ a b, f a = some b → P b)
    (l : List α) (r : List β) (h : l.mapM f = some r) : ∀ b ∈ r, P b := by
  induction l generalizing r with
  | nil => rw [mapM_nil'] at h; injection h with h; subst h; intro b hb; cases hb
  | cons x xs ih =>
    rw [mapM_cons'] at h
    cases hx : f x with
    | none => rw [hx] at h; cases h
    | some y =>
      rw [hx] at h
      cases hxs : xs.mapM f with
      | none => rw [hxs] at h; cases h
      | some ys =>
        rw [hxs] at h
        injection h with h
        subst h
        intro b hb
        rcases List.mem_cons.mp hb with rfl | hb
        · exact hP x _ hx
        · exact ih ys hxs b hb

/-! ### rfind -/

theorem rfind_none_iff (c : Char) (l : List Char) : rfind c l = none ↔ c ∉ l := by
  induction l with
  | nil => simp [rfind]
  | cons x xs ih =>
    rw [rfind]
    cases h : rfind c xs with
    | some i =>
      have : c ∈ xs := by
        apply Classical.byContradiction
        intro hn; rw [ih.mpr hn] at h; cases h
      simp [this]
    | none =>
      have hn := ih.mp h
      by_cases hx : x = c
      · simp [hx]
      · simp [hx, hn]; exact fun h => hx h.symm

theorem rfind_append (c : Char) (a b : List Char) (h : c ∉ b) : rfind c (a ++ c :: b) = some a.length := by
  induction a with
  | nil => simp [rfind, (rfind_none_iff c b).mpr h]
  | cons x xs ih => simp [rfind, ih]

theorem rfind_some (c : Char) (l : List Char) (i : Nat) (h : rfind c l = some i) :
    l = l.take i ++ c :: l.drop (i + 1) ∧ i < l.length := by
  induction l generalizing i with
  | nil => simp [rfind] at h
  | cons x xs ih =>
    rw [rfind] at h
    cases hr : rfind c xs with
    | some j =>
      rw [hr] at h
      injection h with h
      subst h
      obtain ⟨h1, h2⟩ := ih j hr
      refine ⟨?_, by simp; omega⟩
      simp only [List.take_succ_cons, List.drop_succ_cons, List.cons_append]
      rw [← h1]
    | none =>
      rw [hr] at h
      by_cases hx : x = c
      · simp only [hx, if_true] at h
        injection h with h
        subst h; subst hx
        simp
      · simp [hx] at h

/-! ### tables -/

/-- `CHARSET[d]` for `d < 32` -/
def charD (d : Nat) : Char := bech32Charset.getD d 'q'

def charsetRowOk (d : Nat) : Bool :=
  bech32Charset[d]? == some (charD d) && charsetFind (charD d) == some d &&
  decide (33 ≤ (charD d).toNat) && decide ((charD d).toNat ≤ 126) && (charD d).toLower == charD d &&
  (charD d != '1')

theorem charsetRowOk_table : ∀ d, d < 32 → charsetRowOk d = true := by decide +kernel

theorem charset_row (d : Nat) (h : d < 32) :
    bech32Charset[d]? = some (charD d) ∧ charsetFind (charD d) = some d ∧ 33 ≤ (charD d).toNat ∧
    (charD d).toNat ≤ 126 ∧ (charD d).toLower = charD d ∧ charD d ≠ '1' := by
  have := charsetRowOk_table d h
  simp only [charsetRowOk, Bool.and_eq_true, beq_iff_eq, decide_eq_true_eq, bne_iff_ne, ne_eq] at this
  obtain ⟨⟨⟨⟨⟨h1, h2⟩, h3⟩, h4⟩, h5⟩, h6⟩ := this
  exact ⟨h1, h2, h3, h4, h5, h6⟩

theorem charset_length : bech32Charset.length = 32 := by decide

theorem charsetFind_some (x : Char) (d : Nat) (h : charsetFind x = some d) :
    d < 32 ∧ bech32Charset[d]? = some x := by
  unfold charsetFind List.idxOf? at h
  rw [List.findIdx?_eq_some_iff_getElem] at h
  obtain ⟨hd, hx, _⟩ := h
  have hx' : bech32Charset[d] = x := by simpa using hx
  refine ⟨by rw [charset_length] at hd; exact hd, ?_⟩
  rw [List.getElem?_eq_getElem hd, hx']

def asciiRowOk (n : Nat) : Bool :=
  decide (33 ≤ (Char.ofNat n).toLower.toNat) && decide ((Char.ofNat n).toLower.toNat ≤ 126) &&
  ((Char.ofNat n).toLower.toLower == (Char.ofNat n).toLower)

theorem asciiRowOk_table : ∀ n, n < 127 → 33 ≤ n → asciiRowOk n = true := by decide +kernel

/-- on code points 33..126 `lower` stays in range and is idempotent -/
theorem ascii_lower (c : Char) (h1 : 33 ≤ c.toNat) (h2 : c.toNat ≤ 126) :
    33 ≤ c.toLower.toNat ∧ c.toLower.toNat ≤ 126 ∧ c.toLower.toLower = c.toLower := by
  have := asciiRowOk_table c.toNat (by omega) h1
  simp only [asciiRowOk, Char.ofNat_toNat, Bool.and_eq_true, beq_iff_eq, decide_eq_true_eq] at this
  exact ⟨this.1.1, this.1.2, this.2⟩

/-! ### what makes a valid human-readable part / data part -/

/-- BIP173: 1..83 characters in 33..126; here also: no upper-case letter (what `encode` can round-trip) -/
def hrpCharOk (c : Char) : Bool := decide (33 ≤ c.toNat) && decide (c.toNat ≤ 126) && (c.toLower == c)

theorem hrpCharOk_iff (c : Char) : hrpCharOk c = true ↔ 33 ≤ c.toNat ∧ c.toNat ≤ 126 ∧ c.toLower = c := by
  simp [hrpCharOk, and_assoc]

theorem map_eq_self {α} (f : α → α) (l : List α) : l.map f = l ↔ ∀ x ∈ l, f x = x := by
  induction l with
  | nil => simp
  | cons x xs ih => simp [ih]

/-- the characters `bech32_encode` emits for symbols below 32 -/
theorem mapM_charset (ds : List Nat) (h : ∀ d ∈ ds, d < 32) :
    ds.mapM (fun d => bech32Charset[d]?) = some (ds.map charD) :=
  mapM_map_some _ charD ds (fun d hd => (charset_row d (h d hd)).1)

theorem mapM_charsetFind (ds : List Nat) (h : ∀ d ∈ ds, d < 32) :
    (ds.map charD).mapM charsetFind = some ds := by
  have := mapM_map_some charsetFind (fun c => (charsetFind c).getD 0) (ds.map charD) (by
    intro x hx
    obtain ⟨d, hd, rfl⟩ := List.mem_map.mp hx
    rw [(charset_row d (h d hd)).2.1]; rfl)
  rw [this, List.map_map]
  congr 1
  rw [map_eq_self]
  intro d hd
  simp [(charset_row d (h d hd)).2.1]

theorem createChecksum_length (hrp : List Char) (data : List Nat) (spec : Encoding) :
    (createChecksum hrp data spec).length = 6 := by
  rw [createChecksum_eq]; exact sixGroups_length _

theorem createChecksum_lt (hrp : List Char) (data : List Nat) (spec : Encoding) :
    ∀ x ∈ createChecksum hrp data spec, x < 32 := by
  rw [createChecksum_eq]; exact sixGroups_lt _

/-! ### decode ∘ encode -/

theorem bech32Encode_eq (hrp : List Char) (data : List Nat) (spec : Encoding) (hd : ∀ d ∈ data, d < 32) :
    bech32Encode hrp data spec = .ok (hrp ++ ['1'] ++ (data ++ createChecksum hrp data spec).map charD) := by
  unfold bech32Encode
  simp only
  rw [mapM_charset]
  intro d hd'
  rcases List.mem_append.mp hd' with h | h
  · exact hd d h
  · exact createChecksum_lt hrp data spec d h

theorem bech32Decode_encode (hrp : List Char) (data : List Nat) (spec : Encoding)
    (hne : hrp ≠ []) (hh : ∀ c ∈ hrp, hrpCharOk c = true) (hd : ∀ d ∈ data, d < 32)
    (hlen : hrp.length + 1 + data.length + 6 ≤ 90) :
    bech32Decode (hrp ++ ['1'] ++ (data ++ createChecksum hrp data spec).map charD) = some (hrp, data, spec) := by
  have hall : ∀ d ∈ data ++ createChecksum hrp data spec, d < 32 := by
    intro d hd'
    rcases List.mem_append.mp hd' with h | h
    · exact hd d h
    · exact createChecksum_lt hrp data spec d h
  generalize hS : hrp ++ ['1'] ++ (data ++ createChecksum hrp data spec).map charD = S
  have hchars : ∀ c ∈ S, 33 ≤ c.toNat ∧ c.toNat ≤ 126 ∧ c.toLower = c := by
    intro c hc
    rw [← hS] at hc
    simp only [List.mem_append, List.mem_singleton, List.mem_map] at hc
    rcases hc with (hc | hc) | ⟨d, hd', rfl⟩
    · exact (hrpCharOk_iff c).mp (hh c hc)
    · subst hc; decide
    · have := charset_row d (hall d (List.mem_append.mpr hd'))
      exact ⟨this.2.2.1, this.2.2.2.1, this.2.2.2.2.1⟩
  have hlow : lower S = S := (map_eq_self _ S).mpr (fun c hc => (hchars c hc).2.2)
  have hany : S.any (fun x => decide (x.toNat < 33 ∨ x.toNat > 126)) = false := by
    rw [List.any_eq_false]
    intro c hc
    have := hchars c hc
    simp; omega
  have hno1 : '1' ∉ (data ++ createChecksum hrp data spec).map charD := by
    intro h
    obtain ⟨d, hd', hc⟩ := List.mem_map.mp h
    exact (charset_row d (hall d hd')).2.2.2.2.2 hc
  have hrf : rfind '1' S = some hrp.length := by
    rw [← hS, List.append_assoc, List.singleton_append]
    exact rfind_append '1' hrp _ hno1
  have hSlen : S.length = hrp.length + 1 + (data.length + 6) := by
    rw [← hS]
    simp only [List.length_append, List.length_map, List.length_cons, List.length_nil, createChecksum_length]
  have hpos : 0 < hrp.length := List.length_pos_iff.mpr hne
  have hdrop : S.drop (hrp.length + 1) = (data ++ createChecksum hrp data spec).map charD := by
    rw [← hS]
    exact List.drop_left' (by simp)
  have htake : S.take hrp.length = hrp := by
    rw [← hS, List.append_assoc, List.take_left']; rfl
  unfold bech32Decode
  simp only [hany, hlow, ne_eq, not_true_eq_false, false_and, or_false, Bool.false_eq_true, if_false, hrf]
  have hcond : ¬ (hrp.length < 1 ∨ hrp.length + 7 > S.length ∨ S.length > bech32MaxLength) := by
    have : bech32MaxLength = 90 := rfl
    omega
  rw [if_neg hcond, hdrop, mapM_charsetFind _ hall]
  simp only [htake]
  have hv : verifyChecksum hrp (data ++ createChecksum hrp data spec) = some spec := by
    unfold verifyChecksum
    simp only [polymod_with_checksum]
    have hne1 : bech32mConst ≠ 1 := by decide
    cases spec <;> simp [specConst, hne1]
  rw [hv]
  simp [createChecksum_length]

/-! ### encode ∘ decode -/

/-- everything `bech32_decode` checked, read off a successful result -/
theorem bech32Decode_some (t hrp : List Char) (data : List Nat) (spec : Encoding)
    (h : bech32Decode t = some (hrp, data, spec)) :
    (∀ c ∈ t, 33 ≤ c.toNat ∧ c.toNat ≤ 126) ∧ (lower t = t ∨ upper t = t) ∧ t.length ≤ 90 ∧
    1 ≤ hrp.length ∧ (∀ c ∈ hrp, hrpCharOk c = true) ∧ (∀ d ∈ data, d < 32) ∧
    hrp.length + 1 + data.length + 6 = t.length ∧
    lower t = hrp ++ ['1'] ++ (data ++ createChecksum hrp data spec).map charD := by
  unfold bech32Decode at h
  split at h
  · cases h
  · rename_i hc1
    have hrange : ∀ c ∈ t, 33 ≤ c.toNat ∧ c.toNat ≤ 126 := by
      intro c hc
      apply Classical.byContradiction
      intro hn
      apply hc1
      left
      rw [List.any_eq_true]
      exact ⟨c, hc, by simp; omega⟩
    have hcase : lower t = t ∨ upper t = t := by
      apply Classical.byContradiction
      intro hn
      apply hc1
      right
      constructor
      · intro h1; exact hn (Or.inl h1)
      · intro h1; exact hn (Or.inr h1)
    simp only at h
    split at h
    · cases h
    · rename_i pos hrf
      split at h
      · cases h
      · rename_i hc2
        split at h
        · cases h
        · rename_i D hD
          split at h
          · cases h
          · rename_i spec' hv
            injection h with h
            simp only [Prod.mk.injEq] at h
            obtain ⟨h1, h2, h3⟩ := h
            subst h3
            have hlt : (lower t).length = t.length := by simp [lower]
            have hmax : bech32MaxLength = 90 := rfl
            rw [hlt, hmax] at hc2
            obtain ⟨hsplit, hposlt⟩ := rfind_some '1' (lower t) pos hrf
            have hDall : ∀ d ∈ D, d < 32 :=
              mapM_forall charsetFind (· < 32) (fun a b hab => (charsetFind_some a b hab).1) _ D hD
            obtain ⟨hinv, hDlen⟩ := mapM_inverse charsetFind (fun d => bech32Charset[d]?)
              (fun a b hab => (charsetFind_some a b hab).2) _ D hD
            have hDlen' : D.length = t.length - (pos + 1) := by rw [hDlen, List.length_drop, hlt]
            have hsplitD : D = data ++ D.drop (D.length - 6) := by
              rw [← h2, List.take_append_drop]
            have hl6 : (D.drop (D.length - 6)).length = 6 := by rw [List.length_drop]; omega
            have hchk : D.drop (D.length - 6) = createChecksum hrp data spec' := by
              apply C_unique hrp data _ spec' hl6
              · intro x hx; exact hDall x (List.mem_of_mem_drop hx)
              · rw [← hsplitD, ← h1]; exact hv
            have hD2 : D = data ++ createChecksum hrp data spec' := by rw [← hchk]; exact hsplitD
            have hdropeq : (lower t).drop (pos + 1) = D.map charD := by
              have := mapM_charset D hDall
              rw [hinv] at this
              injection this
            have hhrplen : hrp.length = pos := by rw [← h1, List.length_take, hlt]; omega
            have hhrp : ∀ c ∈ hrp, hrpCharOk c = true := by
              intro c hc
              rw [← h1] at hc
              have hcm : c ∈ lower t := List.mem_of_mem_take hc
              obtain ⟨c0, hc0, rfl⟩ := List.mem_map.mp hcm
              have hr := hrange c0 hc0
              have := ascii_lower c0 hr.1 hr.2
              exact (hrpCharOk_iff _).mpr this
            refine ⟨hrange, hcase, by omega, by omega, hhrp, ?_, ?_, ?_⟩
            · intro d hd; exact hDall d (by rw [hsplitD]; exact List.mem_append_left _ hd)
            · have : D.length = data.length + 6 := by rw [hD2, List.length_append, createChecksum_length]
              omega
            · rw [hsplit, hdropeq, h1, hD2]
              simp
where
  C_unique (hrp : List Char) (data l : List Nat) (spec : Encoding) (hl : l.length = 6)
      (hlt : ∀ x ∈ l, x < 32) (h : verifyChecksum hrp (data ++ l) = some spec) :
      l = createChecksum hrp data spec := by
    apply checksum_unique hrp data l spec hl hlt
    unfold verifyChecksum at h
    simp only at h
    split at h
    · rename_i h1
      injection h with h; subst h; exact h1
    · split at h
      · rename_i h1 h2
        injection h with h; subst h; exact h2
      · cases h

end Pycoin.Bech32
