import Pycoin.Py.IntBits
/-!
F4 — `lo32 x = x mod 2^32` (as a 32-bit word) is a ring homomorphism `Int → UInt32` that also
commutes with Python's `& | ^ ~ <<` on unbounded integers, and with `>>` after masking.  Used to show
that the unmasked Python accumulators of `contrib/ripemd160.py` and `bloomfilter.murmur3` agree with
32-bit words.  Core Lean only.
-/
namespace Pycoin

/-! ### `BitVec.ofInt` and the Python bit operations, any width -/

theorem bv_ofNat (m : Nat) : BitVec.ofInt w (Int.ofNat m) = BitVec.ofNat w m := by
  simp

theorem bv_negSucc (m : Nat) : BitVec.ofInt w (Int.negSucc m) = ~~~ BitVec.ofNat w m := by
  simp

theorem ofNat_andNot (m n : Nat) : BitVec.ofNat w (Nat.andNot m n) = BitVec.ofNat w m &&& ~~~ BitVec.ofNat w n := by
  simp only [Nat.andNot, BitVec.ofNat_xor, BitVec.ofNat_and]
  ext i hi
  simp
  cases (BitVec.ofNat w m)[i] <;> cases (BitVec.ofNat w n)[i] <;> rfl

theorem ofInt_pyAnd (a b : Int) : BitVec.ofInt w (pyAnd a b) = BitVec.ofInt w a &&& BitVec.ofInt w b := by
  cases a <;> cases b <;> simp only [pyAnd, bv_ofNat, bv_negSucc, ofNat_andNot, BitVec.ofNat_and, BitVec.ofNat_or]
  · rw [BitVec.and_comm]
  · ext i hi; simp

theorem ofInt_pyOr (a b : Int) : BitVec.ofInt w (pyOr a b) = BitVec.ofInt w a ||| BitVec.ofInt w b := by
  cases a <;> cases b <;> simp only [pyOr, bv_ofNat, bv_negSucc, ofNat_andNot, BitVec.ofNat_and, BitVec.ofNat_or]
  all_goals (ext i hi; simp)
  all_goals (rename_i m n; cases (BitVec.ofNat w m)[i] <;> cases (BitVec.ofNat w n)[i] <;> rfl)

theorem ofInt_pyXor (a b : Int) : BitVec.ofInt w (pyXor a b) = BitVec.ofInt w a ^^^ BitVec.ofInt w b := by
  cases a <;> cases b <;> simp only [pyXor, bv_ofNat, bv_negSucc, BitVec.ofNat_xor]
  all_goals (ext i hi; simp)
  all_goals (rename_i m n; cases (BitVec.ofNat w m)[i] <;> cases (BitVec.ofNat w n)[i] <;> rfl)

theorem ofInt_not (a : Int) : BitVec.ofInt w (~~~a) = ~~~ BitVec.ofInt w a := by
  cases a with
  | ofNat m => show BitVec.ofInt w (Int.negSucc m) = _; simp
  | negSucc m => show BitVec.ofInt w (Int.ofNat m) = _; simp


theorem ofInt_two_pow (k : Nat) : BitVec.ofInt w ((2:Int) ^ k) = BitVec.twoPow w k := by
  have : ((2:Int) ^ k) = ((2 ^ k : Nat) : Int) := by simp
  rw [this, BitVec.ofInt_natCast]
  apply BitVec.eq_of_toNat_eq
  rw [BitVec.toNat_twoPow, BitVec.toNat_ofNat]

theorem ofInt_shl (a : Int) (k : Nat) : BitVec.ofInt w (a <<< k) = BitVec.ofInt w a <<< k := by
  rw [Int.shiftLeft_eq, BitVec.ofInt_mul, BitVec.shiftLeft_eq_mul_twoPow, ofInt_two_pow]

/-- a value in `[0, 2^w)` is determined by its image -/
theorem eq_toNat_of_ofInt {v : Int} {b : BitVec w} (h0 : 0 ≤ v) (h1 : v < (2 ^ w : Nat)) (h : BitVec.ofInt w v = b) :
    v = (b.toNat : Int) := by
  subst h
  rw [BitVec.toNat_ofInt, Int.emod_eq_of_lt h0 h1]
  omega

theorem pyAnd_mask_range (x : Int) (k : Nat) :
    0 ≤ pyAnd x ((2 ^ k - 1 : Nat) : Int) ∧ pyAnd x ((2 ^ k - 1 : Nat) : Int) < (2 ^ k : Nat) := by
  have hp : 0 < 2 ^ k := Nat.two_pow_pos k
  have hlt : 2 ^ k - 1 < 2 ^ k := by omega
  cases x with
  | ofNat m =>
    show 0 ≤ ((m &&& (2 ^ k - 1) : Nat) : Int) ∧ ((m &&& (2 ^ k - 1) : Nat) : Int) < _
    have := Nat.and_lt_two_pow m hlt
    omega
  | negSucc m =>
    show 0 ≤ ((Nat.andNot (2 ^ k - 1) m : Nat) : Int) ∧ ((Nat.andNot (2 ^ k - 1) m : Nat) : Int) < _
    have h2 : (2 ^ k - 1) &&& m < 2 ^ k := by rw [Nat.and_comm]; exact Nat.and_lt_two_pow m hlt
    have := Nat.xor_lt_two_pow hlt h2
    unfold Nat.andNot
    omega

theorem ofNat_mask (k : Nat) : BitVec.ofNat k (2 ^ k - 1) = BitVec.allOnes k := by
  apply BitVec.eq_of_toNat_eq
  have hp : 0 < 2 ^ k := Nat.two_pow_pos k
  rw [BitVec.toNat_ofNat, BitVec.toNat_allOnes, Nat.mod_eq_of_lt (by omega)]

/-- Python `x & (2^k - 1)` is the residue of `x` mod `2^k`, as a non-negative integer -/
theorem pyAnd_mask (x : Int) (k : Nat) : pyAnd x ((2 ^ k - 1 : Nat) : Int) = ((BitVec.ofInt k x).toNat : Int) := by
  have h := pyAnd_mask_range x k
  apply eq_toNat_of_ofInt h.1 h.2
  rw [ofInt_pyAnd, BitVec.ofInt_natCast, ofNat_mask, BitVec.and_allOnes]

/-! ### 32-bit words -/

/-- the low 32 bits of a Python integer, as a machine word -/
def lo32 (x : Int) : UInt32 := ⟨BitVec.ofInt 32 x⟩

@[simp] theorem lo32_toBitVec (x : Int) : (lo32 x).toBitVec = BitVec.ofInt 32 x := rfl

theorem lo32_add (a b : Int) : lo32 (a + b) = lo32 a + lo32 b :=
  UInt32.toBitVec_inj.1 (by simp [BitVec.ofInt_add])

theorem lo32_mul (a b : Int) : lo32 (a * b) = lo32 a * lo32 b :=
  UInt32.toBitVec_inj.1 (by simp [BitVec.ofInt_mul])

theorem lo32_and (a b : Int) : lo32 (pyAnd a b) = lo32 a &&& lo32 b :=
  UInt32.toBitVec_inj.1 (by simp [ofInt_pyAnd])

theorem lo32_or (a b : Int) : lo32 (pyOr a b) = lo32 a ||| lo32 b :=
  UInt32.toBitVec_inj.1 (by simp [ofInt_pyOr])

theorem lo32_xor (a b : Int) : lo32 (pyXor a b) = lo32 a ^^^ lo32 b :=
  UInt32.toBitVec_inj.1 (by simp [ofInt_pyXor])

theorem lo32_not (a : Int) : lo32 (~~~a) = ~~~ lo32 a :=
  UInt32.toBitVec_inj.1 (by simp [ofInt_not])

theorem lo32_natCast (n : Nat) : lo32 (n : Int) = UInt32.ofNat n :=
  UInt32.toBitVec_inj.1 (by rw [lo32_toBitVec, BitVec.ofInt_natCast, UInt32.toBitVec_ofNat'])

theorem lo32_shl (a : Int) {k : Nat} (hk : k < 32) : lo32 (a <<< k) = lo32 a <<< UInt32.ofNat k :=
  UInt32.toBitVec_inj.1 (by
    have : k % 4294967296 % 32 = k := by omega
    simp [ofInt_shl, this])

/-- `x & 0xFFFFFFFF` is the value of the low word -/
theorem pyAnd_mask32 (x : Int) : pyAnd x 0xFFFFFFFF = ((lo32 x).toNat : Int) :=
  pyAnd_mask x 32

/-- `(x & 0xFFFFFFFF) >> k` is the logical right shift of the low word -/
theorem lo32_shr_masked (x : Int) {k : Nat} (hk : k < 32) :
    lo32 ((pyAnd x 0xFFFFFFFF) >>> k) = lo32 x >>> UInt32.ofNat k := by
  rw [pyAnd_mask32]
  have h2 : ((lo32 x).toNat : Int) >>> k = (((lo32 x).toNat >>> k : Nat) : Int) := rfl
  rw [h2, lo32_natCast]
  apply UInt32.toNat_inj.1
  have h3 : (lo32 x).toNat >>> k ≤ (lo32 x).toNat := Nat.shiftRight_le _ _
  have h4 := (lo32 x).toNat_lt
  have h5 : k % 4294967296 % 32 = k := by omega
  rw [UInt32.toNat_ofNat', UInt32.toNat_shiftRight, UInt32.toNat_ofNat', h5, Nat.mod_eq_of_lt (by omega)]

end Pycoin
