import Pycoin.Proofs.RecoverConv
/-!
C01 — "for nobody else", the structural half: for a fixed `(z, r, s)` at most four public keys verify (two with the
nonce abscissa `r`, two with `r + n`); for a fixed key and `(r, s)` the hashes that verify form at most four residue
classes modulo `n` (`z ↦ (z/s)•G + (r/s)•Q` is injective modulo `n` and has to hit one of the at most four curve points
with abscissa `≡ r`).  Neither number is one: ECDSA itself accepts `(r, s)` under `d•G` for `z` and for `−z − 2rd`.
-/
namespace Pycoin.Curve
open Pycoin WeierstrassCurve

variable {c : CurveParams} [Good c] (ok : ECDSAOk c)
include ok

/-- `a ↦ a•G` is injective on `ZMod n` -/
theorem zsm_G_inj (a b : ZMod c.n) (h : zsm c a (G c) = zsm c b (G c)) : a = b := by
  have := ok.neZero
  by_contra hne
  apply zsm_G_ne_zero ok (a - b) (sub_ne_zero.mpr hne)
  rw [sub_eq_add_neg, zsm_add ok.gOrd, zsm_neg ok.gOrd, h]
  exact add_neg_cancel _

/-- `verify` sees the hash only modulo `n` (the code never reduces `z`; it refuses `z = 0` but not `z = n`) -/
theorem verify_congr_z (bf : Int) (Q : Pt) (hQ : OnCurve c Q) (rQ : Reduced c Q) (hQn : (c.n : Int) • toPoint c Q = 0)
    (z z' r s : Int) (hz : z ≠ 0) (hz' : z' ≠ 0) (hzz : z % (c.n : Int) = z' % (c.n : Int)) :
    verify c bf Q z r s = verify c bf Q z' r s := by
  obtain ⟨b, hb, hiff⟩ := verify_iff ok bf Q hQ rQ hQn z r s hz
  obtain ⟨b', hb', hiff'⟩ := verify_iff ok bf Q hQ rQ hQn z' r s hz'
  have hc : (z : ZMod c.n) = (z' : ZMod c.n) := (ZMod.intCast_eq_intCast_iff' z z' c.n).mpr hzz
  rw [hb, hb']
  congr 1
  rw [Bool.eq_iff_iff, hiff, hiff', hc]

/-- the nonce point `(z/s)•G + (r/s)•Q` determines the hash modulo `n` -/
theorem noncePointOf_inj_z (z z' r s : Int) (hs : (s : ZMod c.n) ≠ 0) (Q : (W c).Point)
    (h : noncePointOf c z r s Q = noncePointOf c z' r s Q) : z % (c.n : Int) = z' % (c.n : Int) := by
  have := ok.neZero
  have := ok.fact
  unfold noncePointOf at h
  have h1 := zsm_G_inj ok _ _ (add_right_cancel h)
  have h2 : (z : ZMod c.n) = (z' : ZMod c.n) := by
    have hsi : (s : ZMod c.n)⁻¹ ≠ 0 := inv_ne_zero hs
    exact mul_right_cancel₀ hsi h1
  exact (ZMod.intCast_eq_intCast_iff' z z' c.n).mp h2

/-- ECDSA's second hash: a signature `(r, s)` that verifies for `z` under `Q = d•G` verifies for every non-zero
`z' ≡ −z − 2rd (mod n)` too (the nonce point is replaced by its negative, which has the same abscissa).  So "rejects a
signature presented with any other hash" cannot be meant literally: what the code (and every ECDSA verifier) offers is
the equation of `verify_iff`; that a second hash is the digest of a message nobody can find is an assumption on the hash. -/
theorem verify_second_hash (bf : Int) (Q : Pt) (hQ : OnCurve c Q) (rQ : Reduced c Q) (d : Int)
    (hQd : toPoint c Q = zsm c (d : ZMod c.n) (G c)) (z z' r s : Int) (hz : z ≠ 0) (hz' : z' ≠ 0)
    (hzz : (z' : ZMod c.n) = -(z : ZMod c.n) - 2 * (r : ZMod c.n) * (d : ZMod c.n))
    (h : verify c bf Q z r s = .ok true) : verify c bf Q z' r s = .ok true := by
  have := ok.neZero
  have := ok.fact
  have hQn : (c.n : Int) • toPoint c Q = 0 := by rw [hQd]; exact zsm_torsion ok.gOrd _
  obtain ⟨b, hb, hiff⟩ := verify_iff ok bf Q hQ rQ hQn z r s hz
  obtain ⟨b', hb', hiff'⟩ := verify_iff ok bf Q hQ rQ hQn z' r s hz'
  rw [hb] at h
  have hbt : b = true := by injection h
  obtain ⟨h1, h2, h3, h4, h5⟩ := hiff.mp hbt
  rw [hb']
  congr 1
  rw [hiff']
  refine ⟨h1, h2, h3, h4, ?_⟩
  have hpt : zsm c ((z' : ZMod c.n) * (s : ZMod c.n)⁻¹) (G c) + zsm c ((r : ZMod c.n) * (s : ZMod c.n)⁻¹) (toPoint c Q) =
      -(zsm c ((z : ZMod c.n) * (s : ZMod c.n)⁻¹) (G c) + zsm c ((r : ZMod c.n) * (s : ZMod c.n)⁻¹) (toPoint c Q)) := by
    rw [hQd, ← zsm_mul ok.gOrd, ← zsm_add ok.gOrd, ← zsm_add ok.gOrd, ← zsm_neg ok.gOrd, hzz]
    congr 1
    ring
  rw [hpt, xModN_neg]
  exact h5

omit ok in
/-- the curve points with a given abscissa: at most two -/
theorem abscissa_points (h4 : c.p % 4 = 3) (x : Int) :
    ∃ l : List Pt, l.length ≤ 2 ∧ ∀ y : Int, 0 ≤ y → y < c.p → containsXY c x y = true → some (x, y) ∈ l := by
  by_cases hα : alphaOf c x = 0
  · refine ⟨[some (x, 0)], by simp, ?_⟩
    intro y hy0 hyp hc
    have h2 : (y : ZMod c.p) ^ 2 = alphaOf c x := by
      have := (containsXY_iff c x y).mp hc
      rw [W_equation_iff] at this; exact this
    rw [hα] at h2
    have h3 : (y : ZMod c.p) = 0 := by simpa using h2
    have hdvd := (ZMod.intCast_zmod_eq_zero_iff_dvd y c.p).mp h3
    have : y = 0 := by
      by_contra hne
      have := Int.le_of_dvd (by omega) hdvd
      omega
    simp [this]
  · obtain ⟨hsq, hnsq⟩ := pointsForX_spec c h4 x hα
    by_cases hs : IsSquare (alphaOf c x)
    · obtain ⟨y0, y1, -, -, -, -, -, -, -, -, -, hall⟩ := hsq hs
      refine ⟨[some (x, y0), some (x, y1)], by simp, ?_⟩
      intro y hy0 hyp hc
      rcases hall y hy0 hyp hc with rfl | rfl <;> simp
    · obtain ⟨-, hno⟩ := hnsq hs
      refine ⟨[], by simp, ?_⟩
      intro y _ _ hc
      rw [hno y] at hc; cases hc

omit ok in
/-- the curve points whose abscissa is `≡ r (mod n)`, when `p ≤ 2n`: at most four -/
theorem nonce_candidates (h4 : c.p % 4 = 3) (hn0 : c.n ≠ 0) (hp2n : c.p ≤ 2 * c.n) (r : Int) (hr0 : 0 ≤ r) (_hr2 : r < c.n) :
    ∃ l : List (W c).Point, l.length ≤ 4 ∧ ∀ R : (W c).Point, xModN c R = some r → R ∈ l := by
  obtain ⟨l1, hl1, hm1⟩ := abscissa_points (c := c) h4 r
  obtain ⟨l2, hl2, hm2⟩ := abscissa_points (c := c) h4 (r + c.n)
  refine ⟨(l1 ++ l2).map (toPoint c), by simp; omega, ?_⟩
  intro R hx
  have hnpos : (0 : Int) < c.n := by exact_mod_cast Nat.pos_of_ne_zero hn0
  have hR0 : R ≠ 0 := by rintro rfl; simp [xModN] at hx
  obtain ⟨x, y, hc, hx0, hxp, hy0, hyp, hRe, hxm⟩ := exists_pt_of_point R hR0
  rw [hx] at hxm
  have hxr : x % c.n = r := by injection hxm with h; exact h.symm
  have hcases : x = r ∨ x = r + c.n := by
    have h1' := Int.emod_add_mul_ediv x c.n
    have hq0 : 0 ≤ x / (c.n : Int) := Int.ediv_nonneg hx0 hnpos.le
    have hq2 : x / (c.n : Int) < 2 := by
      by_contra hcon
      have : (c.n : Int) * 2 ≤ c.n * (x / c.n) := by nlinarith
      have hp' : (c.p : Int) ≤ 2 * c.n := by exact_mod_cast hp2n
      omega
    have : x / (c.n : Int) = 0 ∨ x / (c.n : Int) = 1 := by omega
    rcases this with h | h <;> rw [h] at h1' <;> [left; right] <;> omega
  rw [List.mem_map]
  rcases hcases with h | h
  · exact ⟨some (x, y), List.mem_append_left _ (by rw [h] at hc ⊢; exact hm1 y hy0 hyp hc), hRe⟩
  · exact ⟨some (x, y), List.mem_append_right _ (by rw [h] at hc ⊢; exact hm2 y hy0 hyp hc), hRe⟩

/-- **at most four public keys verify a given `(z, r, s)`**: a list of pairwise distinct reduced curve points under each
of which the signature verifies has at most four elements (they are among the recovered keys at the abscissas `r` and
`r + n`, two each) -/
theorem verifying_keys_le_four (h4 : c.p % 4 = 3) (hall : ∀ P : (W c).Point, (c.n : Int) • P = 0) (hp2n : c.p ≤ 2 * c.n)
    (bf z r s : Int) (hz : z ≠ 0) (l : List Pt) (hnd : l.Nodup)
    (hl : ∀ Q ∈ l, OnCurve c Q ∧ Reduced c Q ∧ verify c bf Q z r s = .ok true) : l.length ≤ 4 := by
  have := ok.neZero
  have := ok.fact
  rcases l with _ | ⟨Q₀, t⟩
  · simp
  obtain ⟨q0c, q0r, q0v⟩ := hl Q₀ (by simp)
  obtain ⟨h1, h2, h3, h4', -⟩ := (verify_true_iff_nonce_point ok bf Q₀ q0c q0r (hall _) z r s hz).mp q0v
  have hr := intCast_ne_zero_of_range r h1 h2
  have hs := intCast_ne_zero_of_range s h3 h4'
  obtain ⟨C, hC, hCm⟩ := nonce_candidates (c := c) h4 ok.nprime.pos.ne' hp2n r (by omega) h2
  set l := Q₀ :: t with hldef
  -- Q ↦ (z/s)•G + (r/s)•Q maps the list injectively into the candidates
  have hsub : l.map (fun Q => noncePointOf c z r s (toPoint c Q)) ⊆ C := by
    intro R hR
    rw [List.mem_map] at hR
    obtain ⟨Q, hQl, rfl⟩ := hR
    obtain ⟨qc, qr, qv⟩ := hl Q hQl
    obtain ⟨-, -, -, -, R, hRn, hx, hQR⟩ := (verify_true_iff_nonce_point ok bf Q qc qr (hall _) z r s hz).mp qv
    apply hCm
    rw [hQR, noncePointOf_keyOfNonce ok z r s hr hs R hRn]; exact hx
  have hnd' : (l.map (fun Q => noncePointOf c z r s (toPoint c Q))).Nodup := by
    refine List.Nodup.map_on ?_ hnd
    intro Q hQl Q' hQl' he
    obtain ⟨qc, qr, -⟩ := hl Q hQl
    obtain ⟨qc', qr', -⟩ := hl Q' hQl'
    apply toPoint_inj c qc qc' qr qr'
    rw [← keyOfNonce_noncePointOf ok z r s hr hs _ (hall (toPoint c Q)), he,
      keyOfNonce_noncePointOf ok z r s hr hs _ (hall (toPoint c Q'))]
  have := (hnd'.subperm hsub).length_le
  rw [List.length_map] at this
  omega

/-- **at most four residue classes of hashes verify under a given key and `(r, s)`**: a list of non-zero hashes,
pairwise incongruent modulo `n`, each of which verifies, has at most four elements -/
theorem verifying_hashes_le_four (h4 : c.p % 4 = 3) (hp2n : c.p ≤ 2 * c.n)
    (bf : Int) (Q : Pt) (hQ : OnCurve c Q) (rQ : Reduced c Q) (hQn : (c.n : Int) • toPoint c Q = 0) (r s : Int)
    (l : List Int) (hpw : l.Pairwise (fun z z' => z % (c.n : Int) ≠ z' % (c.n : Int)))
    (hl : ∀ z ∈ l, z ≠ 0 ∧ verify c bf Q z r s = .ok true) : l.length ≤ 4 := by
  have := ok.neZero
  have := ok.fact
  rcases l with _ | ⟨z₀, t⟩
  · simp
  obtain ⟨hz0, v0⟩ := hl z₀ (by simp)
  obtain ⟨b, hb, hiff⟩ := verify_iff ok bf Q hQ rQ hQn z₀ r s hz0
  rw [hb] at v0
  obtain ⟨h1, h2, h3, h4', -⟩ := hiff.mp (by injection v0)
  have hs := intCast_ne_zero_of_range s h3 h4'
  obtain ⟨C, hC, hCm⟩ := nonce_candidates (c := c) h4 ok.nprime.pos.ne' hp2n r (by omega) h2
  set l := z₀ :: t with hldef
  have hsub : l.map (fun z => noncePointOf c z r s (toPoint c Q)) ⊆ C := by
    intro R hR
    rw [List.mem_map] at hR
    obtain ⟨z, hzl, rfl⟩ := hR
    obtain ⟨hz, vz⟩ := hl z hzl
    obtain ⟨b, hb, hiff⟩ := verify_iff ok bf Q hQ rQ hQn z r s hz
    rw [hb] at vz
    exact hCm _ (hiff.mp (by injection vz)).2.2.2.2
  have hnd' : (l.map (fun z => noncePointOf c z r s (toPoint c Q))).Nodup := by
    unfold List.Nodup
    rw [List.pairwise_map]
    refine hpw.imp ?_
    intro z z' hne he
    exact hne (noncePointOf_inj_z ok z z' r s hs _ he)
  have := (hnd'.subperm hsub).length_le
  rw [List.length_map] at this
  omega

end Pycoin.Curve
