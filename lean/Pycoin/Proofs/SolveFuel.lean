import Pycoin.Model.ConstraintSolver
/-!
C05 — the `while progress and None in solved_values.values()` loop of `solve_for_constraints` ends after at most
`len(solutions) + 1` rounds: a round that makes progress gives a solved target to a solution that had none, and solved atoms stay
solved, so more fuel than `solutions.length + 1` never changes what `Solve.solverLoop` returns.
-/
namespace Pycoin.Solve
open Pycoin Pycoin.Sign

def Solved.has (sv : Solved) (t : Atom) : Bool := (sv.get t).join.isSome

/-- a solution the loop skips for good: one of its targets has a value -/
def Sol.blocked (sv : Solved) (s : Sol) : Bool := s.targets.any (fun t => sv.has t)

theorem Solved.get_set (a : Atom) (v : Bytes) (b : Atom) : ∀ sv : Solved,
    (Solved.set a v sv).get b = if b = a then some (some v) else sv.get b := by
  intro sv
  induction sv with
  | nil =>
    by_cases h : b = a
    · subst h; simp [Solved.set, Solved.get]
    · have : ¬ a = b := fun e => h e.symm
      simp [Solved.set, Solved.get, h, this]
  | cons p r ih =>
    obtain ⟨k, old⟩ := p
    by_cases hk : k = a
    · subst hk
      by_cases h : b = k
      · subst h; simp [Solved.set, Solved.get]
      · have : ¬ k = b := fun e => h e.symm
        simp [Solved.set, Solved.get, h, this]
    · simp only [Solved.set, hk, if_false]
      by_cases hb : k = b
      · subst hb
        have : ¬ k = a := hk
        simp [Solved.get, this]
      · have e1 : Solved.get ((k, old) :: Solved.set a v r) b = Solved.get (Solved.set a v r) b := by
          simp [Solved.get, List.find?_cons, hb]
        have e2 : Solved.get ((k, old) :: r) b = Solved.get r b := by simp [Solved.get, List.find?_cons, hb]
        rw [e1, e2, ih]

theorem Solved.has_set (a : Atom) (v : Bytes) (sv : Solved) (t : Atom) :
    (Solved.set a v sv).has t = (decide (t = a) || sv.has t) := by
  unfold Solved.has
  rw [Solved.get_set]
  by_cases h : t = a <;> simp [h]

theorem Solved.has_update_mono (s : List (Atom × Bytes)) : ∀ (sv : Solved) (t : Atom), sv.has t = true → (sv.update s).has t = true := by
  induction s with
  | nil => intro sv t h; exact h
  | cons q r ih =>
    intro sv t h
    obtain ⟨a, v⟩ := q
    simp only [Solved.update]
    apply ih
    rw [Solved.has_set, h]; simp

theorem Solved.has_update_mem (s : List (Atom × Bytes)) : ∀ (sv : Solved) (q : Atom × Bytes), q ∈ s → (sv.update s).has q.1 = true := by
  induction s with
  | nil => intro sv q h; cases h
  | cons p r ih =>
    intro sv q h
    obtain ⟨a, v⟩ := p
    simp only [Solved.update]
    rcases List.mem_cons.mp h with rfl | h'
    · apply Solved.has_update_mono
      rw [Solved.has_set]; simp
    · exact ih _ q h'

/-- what a solver assigns are targets of it -/
theorem Sol.apply_targets (a : SolveArgs) (ex : List Bytes) (sv : Solved) (sol : Sol) (s : List (Atom × Bytes))
    (h : sol.apply a ex sv = .ok s) : ∀ q ∈ s, q.1 ∈ sol.targets := by
  intro q hq
  cases sol with
  | hashLookup hh target =>
    simp only [Sol.apply] at h
    split at h
    · cases h
    · split at h
      · cases h
      · cases h; simp at hq; subst hq; simp [Sol.targets]
  | constEq v c =>
    simp only [Sol.apply] at h
    cases h; simp at hq; subst hq; simp [Sol.targets]
  | signing secs sigs w code =>
    simp only [Sol.apply] at h
    split at h
    · cases h
    · split at h
      · cases h
      · cases h
        obtain ⟨p, hp, hpq⟩ := List.mem_filterMap.mp hq
        cases hp2 : p.2 with
        | none => rw [hp2] at hpq; cases hpq
        | some v =>
          rw [hp2] at hpq
          simp only [Option.map_some, Option.some.injEq] at hpq
          subst hpq
          exact (List.of_mem_zip hp).1

/-- solved atoms stay solved through a round; `progress` is only ever raised -/
theorem solverPass_mono (a : SolveArgs) (ex : List Bytes) : ∀ (sols : List Sol) (sv : Solved) (p : Bool) (sv' : Solved) (p' : Bool),
    solverPass a ex sols sv p = .ok (sv', p') → (∀ t, sv.has t = true → sv'.has t = true) ∧ (p = true → p' = true) := by
  intro sols
  induction sols with
  | nil => intro sv p sv' p' h; simp only [solverPass] at h; cases h; exact ⟨fun _ h => h, fun h => h⟩
  | cons s r ih =>
    intro sv p sv' p' h
    simp only [solverPass] at h
    split at h
    · exact ih sv p sv' p' h
    · split at h
      · cases h
      · exact ih sv p sv' p' h
      · split at h
        · cases h
        · rename_i d hd
          obtain ⟨h1, h2⟩ := ih _ _ sv' p' h
          exact ⟨fun t ht => h1 t (Solved.has_update_mono d sv t ht), fun hp => h2 (by simp [hp])⟩

theorem blocked_mono (sv sv' : Solved) (hm : ∀ t, sv.has t = true → sv'.has t = true) (s : Sol) (h : s.blocked sv = true) :
    s.blocked sv' = true := by
  unfold Sol.blocked at *
  rw [List.any_eq_true] at *
  obtain ⟨t, ht, h1⟩ := h
  exact ⟨t, ht, hm t h1⟩

/-- a round that ends with `progress` either started with it or blocked a solution that was not blocked when the round began -/
theorem solverPass_progress (a : SolveArgs) (ex : List Bytes) (sv0 : Solved) : ∀ (sols : List Sol) (sv : Solved) (p : Bool)
    (sv' : Solved), (∀ t, sv0.has t = true → sv.has t = true) → solverPass a ex sols sv p = .ok (sv', true) →
    p = true ∨ ∃ s ∈ sols, s.blocked sv0 = false ∧ s.blocked sv' = true := by
  intro sols
  induction sols with
  | nil => intro sv p sv' _ h; simp only [solverPass] at h; cases h; exact Or.inl rfl
  | cons s r ih =>
    intro sv p sv' hm h
    simp only [solverPass] at h
    split at h
    · rcases ih sv p sv' hm h with hp | ⟨s', hs', hb⟩
      · exact Or.inl hp
      · exact Or.inr ⟨s', List.mem_cons_of_mem _ hs', hb⟩
    · rename_i hnb
      split at h
      · cases h
      · rcases ih sv p sv' hm h with hp | ⟨s', hs', hb⟩
        · exact Or.inl hp
        · exact Or.inr ⟨s', List.mem_cons_of_mem _ hs', hb⟩
      · split at h
        · cases h
        · rename_i d hd
          have hm' : ∀ t, sv0.has t = true → (sv.update d).has t = true :=
            fun t ht => Solved.has_update_mono d sv t (hm t ht)
          rcases ih _ _ sv' hm' h with hp | ⟨s', hs', hb⟩
          · by_cases hpp : p = true
            · exact Or.inl hpp
            · -- `d` is not empty: `s` got a solved target
              have hd' : d.isEmpty = false := by
                cases hpv : p with
                | true => exact absurd hpv hpp
                | false => rw [hpv] at hp; simpa using hp
              right
              refine ⟨s, by simp, ?_, ?_⟩
              · -- not blocked at the start of the round
                cases hb0 : s.blocked sv0 with
                | false => rfl
                | true =>
                  have := blocked_mono sv0 sv hm s hb0
                  unfold Sol.blocked Solved.has at this
                  exact absurd this hnb
              · cases d with
                | nil => simp at hd'
                | cons q rest =>
                  have hq := Sol.apply_targets a ex sv s _ hd q (by simp)
                  have h1 := Solved.has_update_mem (q :: rest) sv q (by simp)
                  have h2 := (solverPass_mono a ex r _ _ sv' true h).1 q.1 h1
                  unfold Sol.blocked
                  rw [List.any_eq_true]
                  exact ⟨q.1, hq, h2⟩
          · exact Or.inr ⟨s', List.mem_cons_of_mem _ hs', hb⟩

theorem countP_lt (sols : List Sol) (f g : Sol → Bool) (hm : ∀ s, f s = true → g s = true)
    (hs : ∃ s ∈ sols, f s = false ∧ g s = true) : sols.countP f < sols.countP g := by
  induction sols with
  | nil => obtain ⟨s, hs, _⟩ := hs; cases hs
  | cons x r ih =>
    obtain ⟨s, hmem, hf, hg⟩ := hs
    have hle : r.countP f ≤ r.countP g := List.countP_mono_left (fun s _ h => hm s h)
    rcases List.mem_cons.mp hmem with rfl | h
    · simp only [List.countP_cons, hf, hg, Bool.false_eq_true, if_false, if_true]; omega
    · have := ih ⟨s, h, hf, hg⟩
      simp only [List.countP_cons]
      by_cases hx : f x = true
      · simp [hx, hm x hx]; omega
      · by_cases hgx : g x = true <;> simp [hx, hgx] <;> omega

/-- fuel beyond the number of solutions that are not yet blocked, plus one, is never used -/
theorem solverLoop_fuel_aux (a : SolveArgs) (ex : List Bytes) (sols : List Sol) (k : Nat) : ∀ (n : Nat) (sv : Solved),
    sols.length - sols.countP (Sol.blocked sv) < n → solverLoop a ex sols (n + k) sv = solverLoop a ex sols n sv := by
  intro n
  induction n with
  | zero => intro sv h; omega
  | succ n ih =>
    intro sv h
    rw [show n + 1 + k = (n + k) + 1 by omega]
    simp only [solverLoop]
    split
    · rfl
    · cases hp : solverPass a ex sols sv false with
      | error e => rfl
      | ok r =>
        obtain ⟨sv', progress⟩ := r
        simp only []
        cases progress with
        | false => rfl
        | true =>
          simp only [if_true]
          apply ih
          have hmono := (solverPass_mono a ex sols sv false sv' true hp).1
          have hstrict : sols.countP (Sol.blocked sv) < sols.countP (Sol.blocked sv') := by
            apply countP_lt sols _ _ (fun s hs => blocked_mono sv sv' hmono s hs)
            rcases solverPass_progress a ex sv sols sv false sv' (fun _ h => h) hp with h | h
            · cases h
            · exact h
          have hle : sols.countP (Sol.blocked sv') ≤ sols.length := List.countP_le_length
          omega

/-! ## the fetch loop -/

/-- every decoder moves the program counter forward -/
theorem runDecoder_pc_lt {d : VM.Decoder} {script : Bytes} {pc : Nat} {vm : Bool} {r : Nat × Option Bytes}
    (h : VM.runDecoder d script pc vm = .ok r) : pc < r.1 := by
  cases d with
  | none => simp only [VM.runDecoder] at h; cases h; simp
  | const data => simp only [VM.runDecoder] at h; cases h; simp
  | sized size cv =>
    simp only [VM.runDecoder] at h
    split at h
    · cases h; simp; omega
    · split at h
      · cases h
      · cases h; simp; omega
  | «variable» ls sv ms =>
    simp only [VM.runDecoder] at h
    split at h
    · cases h; simp; omega
    · split at h
      · cases h; simp; omega
      · split at h
        · cases h
        · cases h; simp; omega
  | unknownFmt w => simp only [VM.runDecoder] at h; cases h

theorem getOpcode_pc_lt {script : Bytes} {pc : Nat} {vm : Bool} {f : VM.Fetched} (h : VM.getOpcode script pc vm = .ok f) :
    pc < f.pc := by
  unfold VM.getOpcode at h
  split at h
  · cases h
  · split at h
    · cases h; simp
    · cases h; simp
    · rename_i d _ _
      cases hr : VM.runDecoder d script pc vm with
      | error e => simp [hr, bind, Except.bind] at h
      | ok r =>
        have := runDecoder_pc_lt hr
        simp only [hr, bind, Except.bind, pure, Except.pure] at h
        cases h
        exact this

/-- `fuel = len(script) - pc` is enough for the `while pc < len(script)` loop: more fuel changes nothing (in particular the
loop never stops for lack of fuel) -/
theorem fetchAll_fuel (script : Bytes) (k : Nat) : ∀ (n pc : Nat), script.length - pc ≤ n →
    fetchAll script (n + k) pc = fetchAll script n pc := by
  intro n
  induction n with
  | zero =>
    intro pc h
    have : ¬ pc < script.length := by omega
    cases k <;> simp [fetchAll, this]
  | succ n ih =>
    intro pc h
    rw [show n + 1 + k = (n + k) + 1 by omega]
    simp only [fetchAll]
    split
    · cases hg : VM.getOpcode script pc false with
      | error e => rfl
      | ok f =>
        simp only []
        split
        · rfl
        · have := getOpcode_pc_lt hg
          rw [ih f.pc (by omega)]
    · rfl

end Pycoin.Solve
