import Pycoin.Proofs.SighashLegacy
/-!
C04 helper lemmas: `_segwit_signature_preimage` writes the ten items of the BIP143 message.
-/
namespace Pycoin.Sighash
open Pycoin Pycoin.Wire Pycoin.Spec.Sighash Pycoin.Spec.Wire

theorem c_forkid : Gen.Sighash.sighashForkid = 0x40 := rfl

theorem parts_eq (c : Coin) : parts c = ⟨0x1f, 0x1f, ['L'], ['L'], ['Q', 'S']⟩ := by
  cases c <;> rfl

theorem st_L (v : Int) (h : U32 v) : st ['L'] [.int v] = .ok (le 4 v.toNat) := by
  simp [st, streamStruct_L_eq v h, liftW]

theorem st_Q (v : Int) (h : U64 v) : st ['Q'] [.int v] = .ok (le 8 v.toNat) := by
  simp [st, streamStruct, tbl_Q, streamLetter, packLE8_eq v h, liftW]

theorem st_QS (o : TxOut) (h : o.WF) : st ['Q', 'S'] [.int o.value, .bytes o.script] = .ok (txout o) := by
  have := TxOut.stream_eq o h
  unfold TxOut.stream at this
  simp only [Gen.Formats.txOut_stream] at this
  simp [st, this, liftW]

theorem concatM_eq {α : Type} (f : α → Except Err Bytes) (g : α → Bytes) :
    ∀ (l : List α), (∀ a ∈ l, f a = .ok (g a)) → concatM f l = .ok (l.map g).flatten
  | [], _ => rfl
  | a :: as, h => by
    simp [concatM, h a (by simp), concatM_eq f g as (fun x hx => h x (by simp [hx]))]

theorem acp_iff (ht : Nat) : (ht &&& Gen.Sighash.sighashAnyonecanpay ≠ 0) ↔ fAnyoneCanPay ht = true := by
  simp [fAnyoneCanPay, SIGHASH_ANYONECANPAY, c_acp]

theorem single_iff (ht : Nat) : (ht &&& 0x1f = Gen.Sighash.sighashSingle) ↔ fHashSingle ht = true := by
  simp [fHashSingle, SIGHASH_SINGLE, c_single]

theorem none_iff (ht : Nat) : (ht &&& 0x1f = Gen.Sighash.sighashNone) ↔ fHashNone ht = true := by
  simp [fHashNone, SIGHASH_NONE, c_none]

theorem hashPrevouts_eq (c : Coin) (tx : Tx) (hwf : tx.WF) (ht : Nat) :
    Sighash.hashPrevouts c tx ht = .ok (Spec.Sighash.hashPrevouts (sha (segwitPartsSingleSha c)) tx ht) := by
  unfold Sighash.hashPrevouts Spec.Sighash.hashPrevouts
  by_cases h : fAnyoneCanPay ht = true
  · simp [(acp_iff ht).mpr h, h]
    rfl
  · have h' : ¬ (ht &&& Gen.Sighash.sighashAnyonecanpay ≠ 0) := fun hh => h ((acp_iff ht).mp hh)
    have hf : fAnyoneCanPay ht = false := by simpa using h
    simp only [h', if_false, hf, Bool.not_false, if_true, parts_eq]
    have hcm : ∀ f : TxIn → Except Err Bytes, (∀ t ∈ tx.ins, f t = .ok (outpoint t)) →
        concatM f tx.ins = .ok (tx.ins.map outpoint).flatten := fun f hf => concatM_eq f outpoint tx.ins hf
    rw [hcm]
    intro t htm
    simp [st_L _ (hwf.ins t htm).index, outpoint]

theorem hashSequence_eq (c : Coin) (tx : Tx) (hwf : tx.WF) (ht : Nat) :
    Sighash.hashSequence c tx ht = .ok (Spec.Sighash.hashSequence (sha (segwitPartsSingleSha c)) tx ht) := by
  unfold Sighash.hashSequence Spec.Sighash.hashSequence
  simp only [parts_eq, acp_iff, single_iff, none_iff]
  by_cases h : fAnyoneCanPay ht = true ∨ fHashSingle ht = true ∨ fHashNone ht = true
  · have : (!fAnyoneCanPay ht && !fHashSingle ht && !fHashNone ht) = false := by
      rcases h with h | h | h <;> simp [h]
    simp only [h, if_true, this, Bool.false_eq_true, if_false]
    rfl
  · have hh : fAnyoneCanPay ht = false ∧ fHashSingle ht = false ∧ fHashNone ht = false := by
      simp only [not_or, Bool.not_eq_true] at h
      exact h
    have hcm := concatM_eq (fun t : TxIn => st ['L'] [.int t.sequence]) (fun t : TxIn => le 4 t.sequence.toNat) tx.ins
      (fun t htm => st_L _ (hwf.ins t htm).sequence)
    simp only [h, if_false, hh.1, hh.2.1, hh.2.2, Bool.not_false, Bool.and_self, if_true, hcm]
    simp

theorem hashOutputs_eq (c : Coin) (tx : Tx) (hwf : tx.WF) (ht idx : Nat) :
    Sighash.hashOutputs c tx ht idx = .ok (Spec.Sighash.hashOutputs (sha (segwitPartsSingleSha c)) tx idx ht) := by
  have hgo : ∀ outs : List TxOut, (∀ o ∈ outs, o.WF) →
      concatM (fun o : TxOut => st ['Q', 'S'] [.int o.value, .bytes o.script]) outs = .ok (outs.map txout).flatten :=
    fun outs ho => concatM_eq _ txout outs (fun o hm => st_QS o (ho o hm))
  unfold Sighash.hashOutputs Spec.Sighash.hashOutputs
  simp only [parts_eq, single_iff, none_iff]
  by_cases hS : fHashSingle ht = true
  · have hN : fHashNone ht = false := by
      cases hN : fHashNone ht with
      | false => rfl
      | true => rw [flags_excl ht hN] at hS; cases hS
    simp only [hS, if_true, hN, Bool.not_true, Bool.false_and, Bool.false_eq_true, if_false]
    by_cases hi : idx ≥ tx.outs.length
    · simp only [hi, if_true, List.getElem?_eq_none hi]
      rfl
    · have hlt : idx < tx.outs.length := by omega
      simp only [hi, if_false, List.getElem?_eq_getElem hlt]
      have hsl : Sighash.hashOutputs.slice tx.outs idx (idx + 1) = [tx.outs[idx]] := by
        unfold Sighash.hashOutputs.slice
        have : idx + 1 - idx = 1 := by omega
        rw [this, List.drop_eq_getElem_cons hlt]
        rfl
      rw [hsl]
      have := hgo [tx.outs[idx]] (by intro o ho; simp at ho; subst ho; exact hwf.outs _ (List.getElem_mem hlt))
      simp only [parts_eq, this]
      simp
  · have hS' : fHashSingle ht = false := by simpa using hS
    simp only [hS', Bool.false_eq_true, if_false, Bool.not_false, Bool.true_and]
    by_cases hN : fHashNone ht = true
    · simp only [hN, if_true, Bool.not_true, Bool.false_eq_true, if_false]
      rfl
    · have hN' : fHashNone ht = false := by simpa using hN
      simp only [hN', Bool.false_eq_true, if_false, Bool.not_false, if_true, parts_eq,
        hgo tx.outs hwf.outs]

theorem ok_bind {ε α β : Type} (a : α) (f : α → Except ε β) : (Except.ok a >>= f) = f a := rfl
theorem pure_ok {ε α : Type} (a : α) : (pure a : Except ε α) = .ok a := rfl
/-- **`_segwit_signature_preimage` writes the BIP143 message** for every in-range transaction, input, known spent
amount, script code and 32-bit hash-type word -/
theorem segwitPreimage_eq (c : Coin) (tx : Tx) (hwf : tx.WF) (us : List (Option TxOut)) (idx : Nat) (hidx : idx < tx.ins.length)
    (o : TxOut) (hu : us[idx]? = some (some o)) (hamt : U64 o.value) (script : Bytes) (hlen : LenOk script)
    (ht : Nat) (hht : ht < 2 ^ 32) :
    segwitPreimage c tx us script idx ht =
      .ok (bip143Preimage (sha (segwitPartsSingleSha c)) tx idx script o.value.toNat ht) := by
  have hin : tx.ins[idx]? = some tx.ins[idx] := List.getElem?_eq_getElem hidx
  have hw := hwf.ins tx.ins[idx] (List.getElem_mem hidx)
  have hU : U32 (ht : Int) := ⟨by omega, by omega⟩
  have e1 := st_L _ hwf.version
  have e2 := st_L _ hwf.lockTime
  have e3 := st_L _ hw.index
  have e4 := st_L _ hw.sequence
  have e5 := st_L _ hU
  have e6 := st_Q _ hamt
  have e7 := hashPrevouts_eq c tx hwf ht
  have e8 := hashSequence_eq c tx hwf ht
  have e9 := hashOutputs_eq c tx hwf ht idx
  have e10 := streamSatoshiString_eq script (lenOk_lt hlen)
  unfold segwitPreimage bip143Preimage
  simp only [Gen.Sighash.segwit_segwitSignaturePreimage_txVersion, Gen.Sighash.segwit_segwitSignaturePreimage_txInPreviousIndex,
    Gen.Sighash.segwit_segwitSignaturePreimage_txOutCoinValue, Gen.Sighash.segwit_segwitSignaturePreimage_txInSequence,
    Gen.Sighash.segwit_segwitSignaturePreimage_txLockTime, Gen.Sighash.segwit_segwitSignaturePreimage_hashType,
    e1, e2, e3, e4, e5, e6, e7, e8, e9, e10, hin, hu, liftW, ok_bind, pure_ok, outpoint,
    Int.toNat_natCast, List.append_assoc]

end Pycoin.Sighash
