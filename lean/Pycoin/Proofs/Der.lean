import Pycoin.Model.Der
import Pycoin.Proofs.Bytes
/-! Lemmas about the DER model (`Model/Der.lean`): shortest big-endian bytes, length and integer round trips. Core Lean only. -/
namespace Pycoin.Der
open Pycoin

/-! ## `hexBytes` -/

theorem byteLen_pos {n : Nat} (h : n ≠ 0) : 0 < byteLen n := by
  simp [byteLen, h]

theorem lt_pow_byteLen (n : Nat) : n < 256 ^ byteLen n ∨ n = 0 := by
  by_cases h : n = 0
  · exact Or.inr h
  · left
    have h1 : n < 2 ^ (Nat.log2 n + 1) := Nat.lt_log2_self
    have h2 : Nat.log2 n + 1 ≤ 8 * byteLen n := by simp only [byteLen, h, if_false]; omega
    have h3 : 2 ^ (Nat.log2 n + 1) ≤ 2 ^ (8 * byteLen n) := Nat.pow_le_pow_right (by decide) h2
    have h4 : (256 : Nat) ^ byteLen n = 2 ^ (8 * byteLen n) := by
      rw [Nat.pow_mul]
    omega

theorem pow_byteLen_le {n : Nat} (h : n ≠ 0) : 256 ^ (byteLen n - 1) ≤ n := by
  have h1 : 2 ^ Nat.log2 n ≤ n := Nat.log2_self_le h
  have h2 : 8 * (byteLen n - 1) ≤ Nat.log2 n := by simp only [byteLen, h, if_false]; omega
  have h3 : 2 ^ (8 * (byteLen n - 1)) ≤ 2 ^ Nat.log2 n := Nat.pow_le_pow_right (by decide) h2
  have h4 : (256 : Nat) ^ (byteLen n - 1) = 2 ^ (8 * (byteLen n - 1)) := by
    rw [Nat.pow_mul]
  omega

theorem byteLen_le_of_lt {n k : Nat} (h : n < 256 ^ k) : byteLen n ≤ k := by
  by_cases h0 : n = 0
  · simp [byteLen, h0]
  · have h4 : (256 : Nat) ^ k = 2 ^ (8 * k) := by rw [Nat.pow_mul]
    have : Nat.log2 n < 8 * k := (Nat.log2_lt h0).mpr (by omega)
    simp only [byteLen, h0, if_false]
    omega

theorem hexBytes_length (n : Nat) : (hexBytes n).length = if n = 0 then 1 else byteLen n := by
  simp [hexBytes]

theorem hexBytes_length_pos (n : Nat) : 0 < (hexBytes n).length := by
  rw [hexBytes_length]
  split
  · decide
  · rename_i h; exact byteLen_pos h

theorem hexBytes_ne_nil (n : Nat) : hexBytes n ≠ [] := by
  intro h
  have := hexBytes_length_pos n
  rw [h] at this
  simp at this

theorem beNat_hexBytes (n : Nat) : beNat (hexBytes n) = n := by
  unfold hexBytes
  apply beNat_beBytes_of_lt
  by_cases h : n = 0
  · simp [h]
  · simp only [h, if_false]
    rcases lt_pow_byteLen n with h1 | h1
    · exact h1
    · exact absurd h1 h

theorem hexBytes_length_le {n k : Nat} (h : n < 256 ^ k) (hk : 0 < k) : (hexBytes n).length ≤ k := by
  rw [hexBytes_length]
  split
  · omega
  · exact byteLen_le_of_lt h

/-- `beBytes` one digit at a time, most significant first -/
theorem beBytes_succ (n k : Nat) : beBytes n (k + 1) = UInt8.ofNat (n / 256 ^ k % 256) :: beBytes n k := by
  induction k generalizing n with
  | zero => simp [beBytes, leBytes]
  | succ k ih =>
    have h1 : beBytes n (k + 2) = beBytes (n / 256) (k + 1) ++ [UInt8.ofNat (n % 256)] := by
      simp [beBytes, leBytes]
    have h2 : beBytes n (k + 1) = beBytes (n / 256) k ++ [UInt8.ofNat (n % 256)] := by
      simp [beBytes, leBytes]
    rw [h1, ih (n / 256), h2, Nat.div_div_eq_div_mul, Nat.pow_succ, Nat.mul_comm 256]
    simp

/-- the shortest form has no leading zero byte (except for `0` itself, written `00`) -/
theorem hexBytes_head_ne_zero {n : Nat} (h : n ≠ 0) : ∃ b rest, hexBytes n = b :: rest ∧ b ≠ 0 := by
  have hk := byteLen_pos h
  obtain ⟨k, hk'⟩ : ∃ k, byteLen n = k + 1 := ⟨byteLen n - 1, by omega⟩
  refine ⟨UInt8.ofNat (n / 256 ^ k % 256), beBytes n k, ?_, ?_⟩
  · simp only [hexBytes, h, if_false, hk', beBytes_succ]
  · have h1 : 256 ^ k ≤ n := by have := pow_byteLen_le h; rw [hk'] at this; simpa using this
    have h2 : n < 256 ^ (k + 1) := by
      rcases lt_pow_byteLen n with h2 | h2
      · rwa [hk'] at h2
      · exact absurd h2 h
    have hpos : 0 < 256 ^ k := Nat.pow_pos (by decide)
    have h3 : 0 < n / 256 ^ k := Nat.div_pos h1 hpos
    have h4 : n / 256 ^ k < 256 := by
      rw [Nat.div_lt_iff_lt_mul hpos]
      rw [Nat.pow_succ] at h2
      omega
    intro h0
    have := congrArg UInt8.toNat h0
    simp [UInt8.toNat_ofNat'] at this
    omega

theorem leNat_append_zero (xs : Bytes) : leNat (xs ++ [0]) = leNat xs := by
  induction xs with
  | nil => simp [leNat]
  | cons x xs ih => simp [leNat, ih]

theorem beNat_zero_cons (xs : Bytes) : beNat ((0 : UInt8) :: xs) = beNat xs := by
  simp [beNat, leNat_append_zero]

theorem hexBytes_zero : hexBytes 0 = [0] := by
  simp [hexBytes, beBytes, leBytes]

/-! ## lengths -/

theorem or_128 : ∀ k, k < 128 → 0x80 ||| k = 128 + k := by decide

theorem toNat_ofNat_lt {v : Nat} (h : v < 256) : (UInt8.ofNat v).toNat = v := by
  simp [UInt8.toNat_ofNat']; omega

/-- when `encode_length` returns, and what it returns -/
theorem encodeLength_eq (l : Nat) (h : (hexBytes l).length < 128) :
    encodeLength l = .ok (if l < 128 then [UInt8.ofNat l]
      else UInt8.ofNat (128 + (hexBytes l).length) :: hexBytes l) := by
  unfold encodeLength
  by_cases hl : l < 128
  · simp [hl]
  · have h2 := or_128 _ h
    simp only [hl, if_false]
    rw [h2]
    have : 128 + (hexBytes l).length < 256 := by omega
    simp [this]

theorem encodeLength_length_le (l : Nat) (e : Bytes) (h : encodeLength l = .ok e) : e.length ≤ 256 := by
  unfold encodeLength at h
  split at h
  · injection h with h; subst h; simp
  · simp only at h
    split at h
    · injection h with h; subst h
      rename_i _ hv
      have : (hexBytes l).length ≤ 0x80 ||| (hexBytes l).length := Nat.right_le_or
      simp; omega
    · cases h

theorem slice_cons_append (b : UInt8) (xs ys : Bytes) : slice (b :: (xs ++ ys)) 1 (1 + xs.length) = xs := by
  simp [slice]

/-- `read_length` undoes `encode_length`, whatever follows -/
theorem readLength_encodeLength (l : Nat) (e rest : Bytes) (h : (hexBytes l).length < 128)
    (he : encodeLength l = .ok e) : readLength (e ++ rest) = .ok (l, e.length) := by
  rw [encodeLength_eq l h] at he
  injection he with he
  by_cases hl : l < 128
  · simp only [hl, if_true] at he
    subst he
    have : (UInt8.ofNat l).toNat = l := toNat_ofNat_lt (by omega)
    simp [readLength, this, hl]
  · simp only [hl, if_false] at he
    subst he
    have hv : (UInt8.ofNat (128 + (hexBytes l).length)).toNat = 128 + (hexBytes l).length :=
      toNat_ofNat_lt (by omega)
    have hpos := hexBytes_length_pos l
    simp only [readLength, List.cons_append, hv]
    have h1 : ¬ (128 + (hexBytes l).length < 0x80) := by omega
    have h2 : 128 + (hexBytes l).length - 0x80 = (hexBytes l).length := by omega
    simp only [h1, if_false, h2]
    have h3 : ¬ ((hexBytes l).length > (UInt8.ofNat (128 + (hexBytes l).length) :: (hexBytes l ++ rest)).length - 1) := by
      simp
    have h4 : ¬ ((hexBytes l).length = 0) := by omega
    simp only [h3, h4, if_false, slice_cons_append, beNat_hexBytes]
    simp; omega

/-! ## integers -/

/-- shape of `encode_integer(r)` for `r ≥ 0` -/
theorem encodeInteger_shape (r : Int) (hr : 0 ≤ r) (e : Bytes) (h : encodeInteger r = .ok e) :
    ∃ l b body, e = 0x02 :: (l ++ b :: body) ∧ encodeLength (b :: body).length = .ok l ∧ b.toNat < 128 ∧
      beNat (b :: body) = r.toNat ∧
      (b :: body = hexBytes r.toNat ∨ (b = 0 ∧ body = hexBytes r.toNat ∧ ∃ c t, body = c :: t ∧ 128 ≤ c.toNat)) := by
  unfold encodeInteger at h
  have hneg : ¬ r < 0 := by omega
  simp only [hneg, if_false] at h
  split at h
  · cases h
  · rename_i b0 t hs
    split at h
    · rename_i hb
      split at h
      · cases h
      · rename_i l hl
        injection h with h
        refine ⟨l, b0, t, ?_, ?_, by omega, ?_, Or.inl hs.symm⟩
        · rw [← h, hs]
        · rw [← hs]; exact hl
        · rw [← hs, beNat_hexBytes]
    · rename_i hb
      split at h
      · cases h
      · rename_i l hl
        injection h with h
        refine ⟨l, 0, hexBytes r.toNat, ?_, ?_, by decide, ?_, Or.inr ⟨rfl, rfl, b0, t, hs, by omega⟩⟩
        · rw [← h]
        · simpa using hl
        · rw [beNat_zero_cons, beNat_hexBytes]

theorem take_one_cons {α} (a : α) (l : List α) : (a :: l).take 1 = [a] := by simp

/-- `remove_integer` undoes `encode_integer` (both modes), whatever follows -/
theorem removeInteger_encodeInteger (r : Int) (hr : 0 ≤ r) (e rest : Bytes) (broken : Bool)
    (h : encodeInteger r = .ok e) (hsz : ∀ n, n ≤ (hexBytes r.toNat).length + 1 → (hexBytes n).length < 128) :
    removeInteger (e ++ rest) broken = .ok (r, rest) := by
  obtain ⟨l, b, body, he, hl, hb, hv, hform⟩ := encodeInteger_shape r hr e h
  have hlen : (b :: body).length ≤ (hexBytes r.toNat).length + 1 := by
    rcases hform with h1 | ⟨_, h2, _⟩
    · rw [h1]; omega
    · simp [h2]
  have hrl := readLength_encodeLength (b :: body).length l ((b :: body) ++ rest) (hsz _ hlen) hl
  subst he
  unfold removeInteger
  have h1 : ((0x02 : UInt8) :: (l ++ b :: body) ++ rest).take 1 = [0x02] := by simp
  have h2 : ((0x02 : UInt8) :: (l ++ b :: body) ++ rest).drop 1 = l ++ ((b :: body) ++ rest) := by simp
  simp only [h1, h2, hrl, ne_eq, not_true_eq_false, if_false]
  have h3 : ¬ (((0x02 : UInt8) :: (l ++ b :: body) ++ rest).length < 1 + l.length + (b :: body).length) := by
    simp; omega
  simp only [h3, if_false]
  have h4 : slice ((0x02 : UInt8) :: (l ++ b :: body) ++ rest) (1 + l.length) (1 + l.length + (b :: body).length)
      = b :: body := by
    have : (0x02 : UInt8) :: (l ++ b :: body) ++ rest = ((0x02 : UInt8) :: l) ++ ((b :: body) ++ rest) := by simp
    rw [this]
    unfold slice
    have hd : (((0x02 : UInt8) :: l) ++ ((b :: body) ++ rest)).drop (1 + l.length) = (b :: body) ++ rest := by
      rw [List.drop_append_of_le_length (by simp; omega)]
      simp [Nat.add_comm]
    rw [hd]
    have : 1 + l.length + (b :: body).length - (1 + l.length) = (b :: body).length := by omega
    rw [this]
    simp
  have h5 : ((0x02 : UInt8) :: (l ++ b :: body) ++ rest).drop (1 + l.length + (b :: body).length) = rest := by
    have : (0x02 : UInt8) :: (l ++ b :: body) ++ rest = ((0x02 : UInt8) :: (l ++ b :: body)) ++ rest := by simp
    rw [this, List.drop_append_of_le_length (by simp; omega)]
    have : 1 + l.length + (b :: body).length = ((0x02 : UInt8) :: (l ++ b :: body)).length := by simp; omega
    rw [this]; simp
  rw [h4, h5]
  have h6 : ¬ (b.toNat ≥ 0x80 ∧ ¬ (broken = true)) := by omega
  simp only [h6, if_false, hv]
  congr 2
  omega

/-! ## size side condition: a length below 2^70 has a length field of fewer than 128 bytes -/

theorem hexBytes_small {n : Nat} (h : n < 2 ^ 70) : (hexBytes n).length < 128 := by
  have h1 : n < 256 ^ 9 := by
    have : (256 : Nat) ^ 9 = 2 ^ 72 := by decide
    have : (2 : Nat) ^ 70 < 2 ^ 72 := by decide
    omega
  have := hexBytes_length_le h1 (by decide)
  omega

theorem encodeLength_ok {l : Nat} (h : l < 2 ^ 70) : ∃ e, encodeLength l = .ok e ∧ e.length ≤ 256 := by
  have h1 := encodeLength_eq l (hexBytes_small h)
  exact ⟨_, h1, encodeLength_length_le _ _ h1⟩

/-- `encode_integer` returns for every non-negative integer shorter than 2^64 bytes -/
theorem encodeInteger_ok (r : Int) (hr : 0 ≤ r) (hsz : byteLen r.toNat < 2 ^ 64) :
    ∃ e, encodeInteger r = .ok e ∧ e.length < 2 ^ 65 := by
  have hlen : (hexBytes r.toNat).length < 2 ^ 64 + 1 := by
    rw [hexBytes_length]; split <;> omega
  have h64 : (2 : Nat) ^ 64 + 2 < 2 ^ 70 := by decide
  have h65 : (2 : Nat) ^ 64 + 260 < 2 ^ 65 := by decide
  unfold encodeInteger
  have hneg : ¬ r < 0 := by omega
  simp only [hneg, if_false]
  split
  · rename_i hnil; exact absurd hnil (hexBytes_ne_nil _)
  · rename_i b t hs
    split
    · obtain ⟨l, hl, hll⟩ := encodeLength_ok (l := (hexBytes r.toNat).length) (by omega)
      rw [hl]
      refine ⟨_, rfl, ?_⟩
      simp; omega
    · obtain ⟨l, hl, hll⟩ := encodeLength_ok (l := (hexBytes r.toNat).length + 1) (by omega)
      rw [hl]
      refine ⟨_, rfl, ?_⟩
      simp; omega

/-- `remove_sequence` on `30 ‖ length ‖ content ‖ t` -/
theorem removeSequence_encode (content l t : Bytes) (hl : encodeLength content.length = .ok l)
    (hsz : (hexBytes content.length).length < 128) :
    removeSequence ((0x30 : UInt8) :: (l ++ content) ++ t) = .ok (content, t) := by
  have hrl := readLength_encodeLength content.length l (content ++ t) hsz hl
  unfold removeSequence
  have h1 : ((0x30 : UInt8) :: (l ++ content) ++ t).take 1 = [0x30] := by simp
  have h2 : ((0x30 : UInt8) :: (l ++ content) ++ t).drop 1 = l ++ (content ++ t) := by simp
  simp only [h1, h2, hrl, ne_eq, not_true_eq_false, if_false]
  have h4 : slice ((0x30 : UInt8) :: (l ++ content) ++ t) (1 + l.length) (1 + l.length + content.length) = content := by
    have : (0x30 : UInt8) :: (l ++ content) ++ t = ((0x30 : UInt8) :: l) ++ (content ++ t) := by simp
    rw [this]
    unfold slice
    have hd : (((0x30 : UInt8) :: l) ++ (content ++ t)).drop (1 + l.length) = content ++ t := by
      rw [List.drop_append_of_le_length (by simp; omega)]
      simp [Nat.add_comm]
    rw [hd]
    have : 1 + l.length + content.length - (1 + l.length) = content.length := by omega
    rw [this]
    simp
  have h5 : ((0x30 : UInt8) :: (l ++ content) ++ t).drop (1 + l.length + content.length) = t := by
    have : (0x30 : UInt8) :: (l ++ content) ++ t = ((0x30 : UInt8) :: (l ++ content)) ++ t := by simp
    rw [this, List.drop_append_of_le_length (by simp; omega)]
    have : 1 + l.length + content.length = ((0x30 : UInt8) :: (l ++ content)).length := by simp; omega
    rw [this]; simp
  rw [h4, h5]

end Pycoin.Der
