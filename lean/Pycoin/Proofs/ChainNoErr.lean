import Pycoin.Proofs.ChainTotalBC
/-! well-formed histories never make the model raise (core Lean only) -/
namespace Pycoin.Chain

/-- the old reported chain is still an upward path after `load_nodes` of what the generator yields -/
theorem add_P1 (anchor0 : Nat) (rev : Bool) (rank : List Nat) (bc : BC) (c : List Nat) (batch : List Header)
    (finder' : CF) (h0 : ∀ hd ∈ batch, hd.hash ≠ anchor0) (g : Good anchor0 bc c)
    (h2 : bc.finder.loadNodes rev rank (feed bc.h2i bc.locked.length bc.weight batch).2 = .ok finder') :
    UpPath finder'.parent (c ++ [bc.parentHash]) := by
  generalize hnodes : (feed bc.h2i bc.locked.length bc.weight batch).2 = nodes at *
  obtain ⟨_, fn⟩ := feed_spec bc.h2i bc.locked.length batch bc.weight
  rw [hnodes] at fn
  have hpl := loadNodes_parent rev rank bc.finder finder' nodes h2
  have Fext : ∀ k v, dget bc.finder.parent k = some v → dget finder'.parent k = some v := by
    intro k v hk; rw [hpl]; exact register_ext _ _ _ _ _ hk
  have Fnew : ∀ k v, dget finder'.parent k = some v → dget bc.finder.parent k = some v ∨ (k, v) ∈ nodes := by
    intro k v hk; rw [hpl] at hk; exact register_new _ _ _ _ _ hk
  have unreg' : ∀ x, dget bc.finder.parent x = none → (∀ p, (x, p) ∉ nodes) → dget finder'.parent x = none := by
    intro x hx hn
    cases hv : dget finder'.parent x with
    | none => rfl
    | some v =>
      rcases Fnew x v hv with h | h
      · rw [hx] at h; cases h
      · exact absurd h (hn v)
  have lockedSkip : ∀ h ∈ lockedHashes bc, ∀ p, (h, p) ∉ nodes := by
    intro h hm p hmem
    obtain ⟨n, hn, e⟩ := mem_locked_index bc c h hm
    have := (g.exact h n).mpr ⟨n, rfl, e⟩
    obtain ⟨_, hns, _⟩ := fn h p hmem
    apply hns
    rw [this]; simp; exact_mod_cast hn
  have anchorSkip : ∀ p, (anchor0, p) ∉ nodes := by
    intro p hmem
    obtain ⟨_, _, hd, hm, e, _⟩ := fn anchor0 p hmem
    exact h0 hd hm e
  have parentUnreg' : dget finder'.parent bc.parentHash = none := by
    rw [g.parentIs]
    cases hl : (lockedHashes bc).getLast? with
    | none => simpa using unreg' anchor0 g.anchorUnreg anchorSkip
    | some x =>
      have hx := List.mem_of_getLast? hl
      simpa using unreg' x (g.lockedUnreg x hx) (lockedSkip x hx)
  apply UpPath.mono Fext _ g.path
  intro x hx
  simp at hx; subst hx; exact parentUnreg'

/-- the part of the old chain that `add_headers` removes is a prefix of it -/
theorem diffPaths_old_prefix (bcx : BC) (hs : FinderSound bcx.finder) (c new : List Nat) (a : Nat)
    (P1 : UpPath bcx.finder.parent (c ++ [a])) (oldPath newPath : List Nat)
    (h4 : bcx.diffPaths c new = .ok (oldPath, newPath)) : ∃ n, oldPath = c.take n := by
  unfold BC.diffPaths at h4
  split at h4
  · rename_i o oc n' nc
    obtain ⟨⟨pa, pb⟩, h4a, h4⟩ := bind_ok h4
    simp only [pure, Except.pure, Except.ok.injEq, Prod.mk.injEq] at h4
    obtain ⟨rfl, rfl⟩ := h4
    unfold CF.findAncestralPath at h4a
    obtain ⟨p1, hp1, h4a⟩ := bind_ok h4a
    obtain ⟨p2, hp2, h4a⟩ := bind_ok h4a
    have e1 : p1 = (o :: oc) ++ [a] := by
      obtain ⟨u, hh⟩ := maximumPath_spec bcx.finder hs o p1 hp1
      exact UpPath.det _ _ u P1 (by rw [hh]; rfl)
    split at h4a
    · simp only [Except.ok.injEq, Prod.mk.injEq] at h4a
      obtain ⟨rfl, _⟩ := h4a
      exact ⟨0, by simp⟩
    · dsimp only at h4a
      split at h4a
      · cases h4a
      · rename_i k hk
        simp only [Except.ok.injEq, Prod.mk.injEq] at h4a
        obtain ⟨rfl, _⟩ := h4a
        obtain ⟨z, z1, _⟩ := scanEq_spec _ _ k hk
        rw [List.getElem?_drop] at z1
        generalize p1.length - min p1.length p2.length + k = j at *
        have lj : j < p1.length := by
          rcases Nat.lt_or_ge j p1.length with h | h
          · exact h
          · rw [List.getElem?_eq_none h] at z1; cases z1
        refine ⟨j, ?_⟩
        rw [take_succ_of_getElem? p1 j z z1, List.dropLast_concat, e1]
        have : j ≤ (o :: oc).length := by
          rw [e1] at lj; simp at lj ⊢; omega
        rw [List.take_append_of_le_length this]
  · simp only [pure, Except.pure, Except.ok.injEq, Prod.mk.injEq] at h4
    obtain ⟨rfl, _⟩ := h4
    exact ⟨c.length, by simp⟩

theorem diffPaths_ok (f : Nat → Nat) (bcx : BC) (hs : FinderSound bcx.finder) (hac : AcyclicPl f bcx.finder.parent)
    (c new : List Nat) : ∃ r, bcx.diffPaths c new = .ok r := by
  unfold BC.diffPaths
  split
  · rename_i o oc n nc
    obtain ⟨⟨a, b⟩, h⟩ := findAncestralPath_ok f bcx.finder hs hac o n
    rw [h]; exact ⟨_, rfl⟩
  · exact ⟨_, rfl⟩

theorem nodup_of_reverse_append {a c : List Nat} (h : (a ++ c.reverse).Nodup) : c.Nodup := by
  have := (List.nodup_append.mp h).2.1
  simpa [List.Nodup, List.pairwise_reverse, eq_comm] using this

/-- **`add_headers` does not raise** from a state satisfying the invariant, when the delivered headers keep the parent
relation acyclic -/
theorem addHeaders_ok (f : Nat → Nat) (anchor0 : Nat) (rev : Bool) (rank : List Nat) (bc : BC) (c : List Nat)
    (batch : List Header) (h0 : ∀ hd ∈ batch, hd.hash ≠ anchor0) (fl : Full anchor0 bc c)
    (hac : AcyclicPl f bc.finder.parent) (hb : ∀ hd ∈ batch, f hd.parent < f hd.hash) :
    ∃ res, bc.addHeaders rev rank batch = .ok res := by
  have hacn : AcyclicPl f (register bc.finder.parent [] (feed bc.h2i bc.locked.length bc.weight batch).2).1 :=
    hac.register _ (by
      intro e he
      obtain ⟨_, _, hd, hm, e1, e2⟩ := (feed_spec bc.h2i bc.locked.length batch bc.weight).2 e.1 e.2 he
      rw [← e1, ← e2]; exact hb hd hm)
  obtain ⟨finder', h2⟩ := loadNodes_ok f rev rank bc.finder _ fl.finder.inv hacn
  have fo' := fl.finder.load rev rank _ h2
  have hac' : AcyclicPl f finder'.parent := by
    rw [loadNodes_parent rev rank bc.finder finder' _ h2]; exact hacn
  obtain ⟨chains, h3⟩ := allChains_ok rev finder' fo' bc.parentHash
  have P1 := add_P1 anchor0 rev rank bc c batch finder' h0 fl.good h2
  unfold BC.addHeaders
  rw [longest_of_cur rev bc c fl.good.cur]
  simp only [bind, Except.bind, h2, BC.longest, h3]
  generalize (feed bc.h2i bc.locked.length bc.weight batch).1 = w
  generalize (pickBest w chains (0, [])).2.dropLast = new
  generalize hA : (BC.mk bc.parentHash bc.h2i w finder' (some new) bc.locked) = A
  have hAf : A.finder = finder' := by rw [← hA]
  have hAm : A.h2i = bc.h2i := by rw [← hA]
  have hAp : A.parentHash = bc.parentHash := by rw [← hA]
  obtain ⟨⟨oldPath, newPath⟩, h4⟩ := diffPaths_ok f A (hAf ▸ fo'.inv.sound) (hAf ▸ hac') c new
  obtain ⟨n, hn⟩ := diffPaths_old_prefix A (hAf ▸ fo'.inv.sound) c new bc.parentHash (hAf ▸ P1) oldPath newPath h4
  have hcn : c.Nodup := nodup_of_reverse_append fl.good.nodup
  obtain ⟨res, hres⟩ := removeOps_ok A ((c.length : Int) + A.locked.length) oldPath 0 A.h2i
    (by
      intro h hh
      rw [hAm, dhas_iff]
      have hc : h ∈ c := by rw [hn] at hh; exact List.mem_of_mem_take hh
      have hL : h ∈ lockedHashes bc ++ c.reverse := List.mem_append_right _ (List.mem_reverse.mpr hc)
      obtain ⟨i, hi, e⟩ := List.getElem_of_mem hL
      exact ⟨(i : Int), (fl.good.exact h i).mpr ⟨i, rfl, by rw [List.getElem?_eq_getElem hi, e]⟩⟩)
    (by rw [hn]; exact List.Nodup.sublist (List.take_sublist _ _) hcn)
  rw [h4]
  simp only [BC.emitOps, bind, Except.bind, hres]
  exact ⟨_, rfl⟩

/-- acyclicity is kept by `add_headers` -/
theorem addHeaders_acyclic (f : Nat → Nat) (rev : Bool) (rank : List Nat) (bc bc' : BC) (c : List Nat)
    (batch : List Header) (ops : List Op) (hcur : curChain bc c) (hac : AcyclicPl f bc.finder.parent)
    (hb : ∀ hd ∈ batch, f hd.parent < f hd.hash)
    (hr : bc.addHeaders rev rank batch = .ok (ops, bc')) : AcyclicPl f bc'.finder.parent := by
  have hload : bc.finder.loadNodes rev rank (feed bc.h2i bc.locked.length bc.weight batch).2 = .ok bc'.finder := by
    unfold BC.addHeaders at hr
    obtain ⟨⟨old, bc1⟩, h1, hr⟩ := bind_ok hr
    have e1 := h1.symm.trans (longest_of_cur rev bc c hcur)
    simp only [Except.ok.injEq, Prod.mk.injEq] at e1
    obtain ⟨e1a, e1b⟩ := e1
    subst e1b
    try simp only at hr
    obtain ⟨finder', h2, hr⟩ := bind_ok hr
    try simp only at hr
    obtain ⟨⟨new, bc3⟩, h3, hr⟩ := bind_ok hr
    try simp only at hr
    obtain ⟨⟨oldPath, newPath⟩, h4, hr⟩ := bind_ok hr
    try simp only at hr
    unfold BC.longest at h3
    try simp only at h3
    obtain ⟨chains, h3a, h3⟩ := bind_ok h3
    simp only [Except.ok.injEq, Prod.mk.injEq] at h3
    obtain ⟨_, rfl⟩ := h3
    unfold BC.emitOps at hr
    obtain ⟨⟨rops, m1⟩, h5, hr⟩ := bind_ok hr
    try simp only at hr
    simp only [Except.ok.injEq, Prod.mk.injEq] at hr
    obtain ⟨_, rfl⟩ := hr
    exact h2
  rw [loadNodes_parent rev rank bc.finder bc'.finder _ hload]
  exact hac.register _ (by
    intro e he
    obtain ⟨_, _, hd, hm, e1, e2⟩ := (feed_spec bc.h2i bc.locked.length batch bc.weight).2 e.1 e.2 he
    rw [← e1, ← e2]; exact hb hd hm)

/-- `lock_to_index` within the reported chain does not raise, and keeps acyclicity -/
theorem lockToIndex_ok (f : Nat → Nat) (anchor0 : Nat) (rev : Bool) (rank : List Nat) (bc : BC) (c : List Nat)
    (index : Nat) (fl : Full anchor0 bc c) (hac : AcyclicPl f bc.finder.parent)
    (hin : index ≤ c.length + bc.locked.length) :
    ∃ cb bc', bc.lockToIndex rev rank index = .ok (cb, bc') ∧ AcyclicPl f bc'.finder.parent := by
  unfold BC.lockToIndex
  rw [longest_of_cur rev bc c fl.good.cur]
  simp only [bind, Except.bind]
  by_cases h1 : index ≤ bc.locked.length
  · simp only [h1, if_true]
    exact ⟨_, _, rfl, hac⟩
  · simp only [h1, if_false]
    have h2 : ¬ (index - bc.locked.length > c.length) := by omega
    simp only [h2, if_false]
    have hacn : AcyclicPl f (register CF.empty.parent []
        (lockNodes bc.finder.parent (bc.finder.trees.map (·.2)) ((c.reverse.take (index - bc.locked.length)).reverse))).1 := by
      intro k v hk
      rcases register_new _ _ _ k v hk with h | h
      · simp [CF.empty, dget] at h
      · exact hac k v (lockNodes_spec _ _ _ k v h).1
    obtain ⟨finder', hl⟩ := loadNodes_ok f rev rank CF.empty _ InvX.empty hacn
    simp only [hl]
    refine ⟨_, _, rfl, ?_⟩
    simp only
    rw [loadNodes_parent rev rank CF.empty finder' _ hl]; exact hacn

/-- a step is well formed: delivered headers do not carry the anchor's hash and rank above their parents -/
def Step.wf (f : Nat → Nat) (anchor0 : Nat) : Step → Prop
  | .add batch _ => ∀ hd ∈ batch, hd.hash ≠ anchor0 ∧ f hd.parent < f hd.hash
  | .lock _ _ => True

/-- every `lock_to_index(i)` of the history is called with `i ≤ length()` -/
def LocksWithin (rev : Bool) : BC → List Step → Prop
  | _, [] => True
  | bc, s :: ss =>
    (match s with
      | .lock index _ => ∀ n, bc.length rev = .ok n → index ≤ n
      | .add _ _ => True) ∧
    ∀ o bc', bc.step rev s = .ok (o, bc') → LocksWithin rev bc' ss

/-- **well-formed histories never raise**: acyclic headers outside the anchor, locks within the reported chain -/
theorem run_ok (f : Nat → Nat) (anchor0 : Nat) (rev : Bool) : ∀ (steps : List Step) (bc : BC) (c : List Nat),
    Full anchor0 bc c → AcyclicPl f bc.finder.parent → (∀ s ∈ steps, s.wf f anchor0) → LocksWithin rev bc steps →
    ∃ res, runHist rev bc steps = .ok res
  | [], bc, _, _, _, _, _ => ⟨([], bc), rfl⟩
  | s :: ss, bc, c, fl, hac, hwf, hlk => by
      have hwf' : ∀ s ∈ ss, s.wf f anchor0 := fun s hs => hwf s (List.mem_cons_of_mem _ hs)
      obtain ⟨hlk1, hlk2⟩ := hlk
      cases s with
      | add batch rank =>
        have hw := hwf (.add batch rank) (by simp)
        have h0 : ∀ hd ∈ batch, hd.hash ≠ anchor0 := fun hd hm => (hw hd hm).1
        have hb : ∀ hd ∈ batch, f hd.parent < f hd.hash := fun hd hm => (hw hd hm).2
        obtain ⟨⟨ops, bc1⟩, h1⟩ := addHeaders_ok f anchor0 rev rank bc c batch h0 fl hac hb
        obtain ⟨c1, fl1, _, _⟩ := addHeaders_full anchor0 rev rank bc bc1 c batch ops h0 fl h1
        have hac1 := addHeaders_acyclic f rev rank bc bc1 c batch ops fl.good.cur hac hb h1
        have hstep : bc.step rev (.add batch rank) = .ok (⟨ops, none⟩, bc1) := by
          simp [BC.step, h1, bind, Except.bind]
        obtain ⟨⟨os, bc2⟩, h2⟩ := run_ok f anchor0 rev ss bc1 c1 fl1 hac1 hwf' (hlk2 _ _ hstep)
        exact ⟨(_ :: os, bc2), by unfold runHist; rw [hstep]; simp only [bind, Except.bind, h2]; rfl⟩
      | lock index rank =>
        have hin : index ≤ c.length + bc.locked.length := by
          have := hlk1 _ (length_good rev fl.good)
          simpa [lockedHashes, Nat.add_comm] using this
        obtain ⟨cb, bc1, h1, hac1⟩ := lockToIndex_ok f anchor0 rev rank bc c index fl hac hin
        obtain ⟨c1, fl1, _⟩ := lockToIndex_full' anchor0 rev rank bc bc1 c index cb fl h1
        have hstep : bc.step rev (.lock index rank) = .ok (⟨[], cb⟩, bc1) := by
          simp [BC.step, h1, bind, Except.bind]
        obtain ⟨⟨os, bc2⟩, h2⟩ := run_ok f anchor0 rev ss bc1 c1 fl1 hac1 hwf' (hlk2 _ _ hstep)
        exact ⟨(_ :: os, bc2), by unfold runHist; rw [hstep]; simp only [bind, Except.bind, h2]; rfl⟩

end Pycoin.Chain
