import Pycoin.Proofs.Lo32
import Pycoin.Proofs.Ripemd160
import Pycoin.Model.Murmur3Py
import Pycoin.Spec.Murmur3
/-!
C19 — proof that the model of `pycoin/bloomfilter.py:murmur3` (`Model/Murmur3Py.lean`: unbounded
Python integers, the code's own masks, shifts and literals from `Gen/HashTables.lean`, any seed)
computes MurmurHash3 x86_32 (`Spec/Murmur3.lean`) with the seed reduced mod 2^32.  Core Lean only.
-/
set_option linter.unusedSimpArgs false
set_option linter.unusedVariables false
namespace Pycoin.Murmur3Py
open Pycoin.Hash Pycoin.Gen.HashTables
open Pycoin.Ripemd160Py (ok_bind pure_eq_ok lo32_ones and_ones)

theorem pyGetItem_nat {α} (l : List α) (i : Nat) :
    pyGetItem l (i : Int) = match l[i]? with | some v => .ok v | none => .error .indexError := by
  have : ¬ ((i : Int) < 0) := by omega
  simp only [pyGetItem, this, if_false, Int.toNat_natCast]
  cases l[i]? <;> rfl

theorem byteAt_nat (l : Bytes) (i : Nat) :
    byteAt l (i : Int) = match l[i]? with | some v => .ok (v.toNat : Int) | none => .error .indexError := by
  simp only [byteAt, pyGetItem_nat]
  cases l[i]? <;> rfl

/-- the code's rotation idiom with its literals is a 32-bit rotation -/
theorem rotIdiom_ok (v : Int) (l : Nat) (h0 : 0 < l) (h1 : l < 32) :
    ∃ r, rotIdiom v (l : Int) 0xFFFFFFFF ((32 - l : Nat) : Int) = .ok r ∧ lo32 r = mmRotl (lo32 v) l := by
  refine ⟨pyOr (v <<< l) ((pyAnd v 0xFFFFFFFF) >>> (32 - l)), ?_, ?_⟩
  · have e1 : ¬ ((l : Int) < 0) := by omega
    have e2 : ¬ (((32 - l : Nat) : Int) < 0) := by omega
    simp only [rotIdiom, pyShlE, pyShrE, e1, e2, if_false, ok_bind, pure_eq_ok, Int.toNat_natCast]
  · rw [lo32_or, lo32_shl _ h1, lo32_shr_masked _ (by omega : 32 - l < 32)]; rfl

theorem mixK_ok (k : Int) : ∃ r, rotIdiom (k * mm_c1) 15 0xFFFFFFFF 17 = .ok r ∧
    lo32 (r * mm_c2) = mmMixK (lo32 k) := by
  obtain ⟨r, h1, h2⟩ := rotIdiom_ok (k * mm_c1) 15 (by decide) (by decide)
  exact ⟨r, h1, by rw [lo32_mul, h2, lo32_mul]; rfl⟩

theorem or_bytes2 (a b : Nat) (ha : a < 256) : a ||| b <<< 8 = a + 256 * b := by
  have := Nat.two_pow_add_eq_or_of_lt (i := 8) (b := a) (by omega) b
  rw [Nat.shiftLeft_eq, Nat.or_comm, Nat.mul_comm]
  omega
theorem or_bytes3 (a b c : Nat) (ha : a < 256) (hb : b < 256) : a ||| b <<< 8 ||| c <<< 16 = a + 256 * (b + 256 * c) := by
  rw [or_bytes2 a b ha]
  have := Nat.two_pow_add_eq_or_of_lt (i := 16) (b := a + 256 * b) (by omega) c
  rw [Nat.shiftLeft_eq, Nat.or_comm, Nat.mul_comm]
  omega
theorem or_bytes4 (a b c d : Nat) (ha : a < 256) (hb : b < 256) (hc : c < 256) :
    a ||| b <<< 8 ||| c <<< 16 ||| d <<< 24 = a + 256 * (b + 256 * (c + 256 * d)) := by
  rw [or_bytes3 a b c ha hb]
  have := Nat.two_pow_add_eq_or_of_lt (i := 24) (b := a + 256 * (b + 256 * c)) (by omega) d
  rw [Nat.shiftLeft_eq, Nat.or_comm, Nat.mul_comm]
  omega

theorem mask255 (a : Nat) (h : a < 256) : pyAnd (a : Int) 255 = (a : Int) := by
  show ((a &&& (2 ^ 8 - 1) : Nat) : Int) = _
  rw [Nat.and_two_pow_sub_one_eq_mod]
  congr 1
  omega

theorem body_ok (data : Bytes) (h : Int) (i : Int) (a b c d : Nat) (ha : a < 256) (hb : b < 256) (hc : c < 256)
    (h0 : byteAt data i = .ok (a : Int)) (h1 : byteAt data (i + 1) = .ok (b : Int))
    (h2 : byteAt data (i + 2) = .ok (c : Int)) (h3 : byteAt data (i + 3) = .ok (d : Int)) :
    ∃ r, body data h i = .ok r ∧ lo32 r = mmBlock (lo32 h) (UInt32.ofNat (a + 256 * (b + 256 * (c + 256 * d)))) := by
  obtain ⟨k, hk1, hk2⟩ := mixK_ok ((a + 256 * (b + 256 * (c + 256 * d)) : Nat) : Int)
  obtain ⟨r, hr1, hr2⟩ := rotIdiom_ok (pyXor h (k * mm_c2)) 13 (by decide) (by decide)
  have e8 : pyShlE (b : Int) mm_b1Shift = .ok ((b <<< 8 : Nat) : Int) := rfl
  have e16 : pyShlE (c : Int) mm_b2Shift = .ok ((c <<< 16 : Nat) : Int) := rfl
  have e24 : pyShlE (d : Int) mm_b3Shift = .ok ((d <<< 24 : Nat) : Int) := rfl
  have eor : pyOr (pyOr (pyOr (a : Int) ((b <<< 8 : Nat) : Int)) ((c <<< 16 : Nat) : Int)) ((d <<< 24 : Nat) : Int) =
      ((a + 256 * (b + 256 * (c + 256 * d)) : Nat) : Int) := by
    show ((a ||| b <<< 8 ||| c <<< 16 ||| d <<< 24 : Nat) : Int) = _
    rw [or_bytes4 a b c d ha hb hc]
  refine ⟨r * mm_hMul + mm_hAdd, ?_, ?_⟩
  · have m0 : pyAnd (a : Int) mm_b0Mask = (a : Int) := mask255 a ha
    have m1 : pyAnd (b : Int) mm_b1Mask = (b : Int) := mask255 b hb
    have m2 : pyAnd (c : Int) mm_b2Mask = (c : Int) := mask255 c hc
    have hr1' : rotIdiom (pyXor h (k * mm_c2)) mm_hRotL mm_hRotMask mm_hRotR = .ok r := hr1
    have hk1' : rotIdiom (((a + 256 * (b + 256 * (c + 256 * d)) : Nat) : Int) * mm_c1) mm_kRotL mm_kRotMask mm_kRotR = .ok k := hk1
    simp only [body, h0, h1, h2, h3, ok_bind, m0, m1, m2, e8, e16, e24, eor, pure_eq_ok, hk1', hr1']
  · rw [lo32_add, lo32_mul, hr2, lo32_xor, hk2, lo32_natCast]; rfl


theorem body_congr (d1 d2 : Bytes) (i1 i2 : Int) (h : Int) (e0 : byteAt d1 i1 = byteAt d2 i2)
    (e1 : byteAt d1 (i1 + 1) = byteAt d2 (i2 + 1)) (e2 : byteAt d1 (i1 + 2) = byteAt d2 (i2 + 2))
    (e3 : byteAt d1 (i1 + 3) = byteAt d2 (i2 + 3)) : body d1 h i1 = body d2 h i2 := by
  simp only [body, e0, e1, e2, e3]

theorem tail_congr (d1 d2 : Bytes) (i1 i2 : Int) (val h : Int) (e0 : byteAt d1 i1 = byteAt d2 i2)
    (e1 : byteAt d1 (i1 + 1) = byteAt d2 (i2 + 1)) (e2 : byteAt d1 (i1 + 2) = byteAt d2 (i2 + 2)) :
    tail d1 i1 val h = tail d2 i2 val h := by
  simp only [tail, e0, e1, e2]

theorem byteAt_shift (a b c d : UInt8) (rest : Bytes) (i : Nat) (j : Int) (hj : j = ((i + 4 : Nat) : Int)) :
    byteAt (a :: b :: c :: d :: rest) j = byteAt rest (i : Int) := by
  subst hj
  rw [byteAt_nat, byteAt_nat]
  simp

theorem pyOr_zero_nat (n : Nat) : pyOr 0 (n : Int) = (n : Int) := by
  show ((0 ||| n : Nat) : Int) = _
  rw [Nat.zero_or]

theorem pyOr_nat (m n : Nat) : pyOr (m : Int) (n : Int) = ((m ||| n : Nat) : Int) := rfl

theorem tail_ok (t : Bytes) (ht : t.length < 4) (h : Int) :
    ∃ v, tail t 0 (t.length : Int) h = .ok v ∧ lo32 v = mmBody (lo32 h) t := by
  match t, ht with
  | [], _ => exact ⟨h, rfl, rfl⟩
  | [a], _ =>
    obtain ⟨k, hk1, hk2⟩ := mixK_ok ((a.toNat + 256 * 0 : Nat) : Int)
    refine ⟨pyXor h (k * mm_c2), ?_, ?_⟩
    · have b0 : byteAt [a] 0 = .ok (a.toNat : Int) := rfl
      have ek : pyOr 0 (pyAnd (a.toNat : Int) mm_t0Mask) = ((a.toNat + 256 * 0 : Nat) : Int) := by
        have : pyAnd (a.toNat : Int) mm_t0Mask = (a.toNat : Int) := mask255 _ a.toNat_lt
        rw [this, pyOr_zero_nat]; rfl
      have hk1' : rotIdiom (((a.toNat + 256 * 0 : Nat) : Int) * mm_c1) mm_tRotL mm_tRotMask mm_tRotR = .ok k := hk1
      show tail [a] 0 1 h = _
      have c1 : ¬ ((1 : Int) = 3) := by decide
      have c2 : ¬ ((1 : Int) = 2 ∨ (1 : Int) = 3) := by decide
      have c3 : ((1 : Int) = 1 ∨ (1 : Int) = 2 ∨ (1 : Int) = 3) := by decide
      simp only [tail, Int.reduceEq, or_false, false_or, or_true, true_or, or_self, if_true, if_false, b0, ek, hk1', ok_bind, pure_eq_ok]
    · rw [lo32_xor, hk2, lo32_natCast]; rfl
  | [a, b], _ =>
    obtain ⟨k, hk1, hk2⟩ := mixK_ok ((a.toNat + 256 * (b.toNat + 256 * 0) : Nat) : Int)
    refine ⟨pyXor h (k * mm_c2), ?_, ?_⟩
    · have b0 : byteAt [a, b] 0 = .ok (a.toNat : Int) := rfl
      have b1 : byteAt [a, b] (0 + 1) = .ok (b.toNat : Int) := rfl
      have s1 : pyShlE (b.toNat : Int) mm_t1Shift = .ok ((b.toNat <<< 8 : Nat) : Int) := rfl
      have m0 : pyAnd (a.toNat : Int) mm_t0Mask = (a.toNat : Int) := mask255 _ a.toNat_lt
      have m1 : pyAnd (b.toNat : Int) mm_t1Mask = (b.toNat : Int) := mask255 _ b.toNat_lt
      have ek : pyOr (pyOr 0 ((b.toNat <<< 8 : Nat) : Int)) (a.toNat : Int) =
          ((a.toNat + 256 * (b.toNat + 256 * 0) : Nat) : Int) := by
        rw [pyOr_zero_nat, pyOr_nat, Nat.or_comm, or_bytes2 _ _ a.toNat_lt]; rfl
      have hk1' : rotIdiom (((a.toNat + 256 * (b.toNat + 256 * 0) : Nat) : Int) * mm_c1) mm_tRotL mm_tRotMask mm_tRotR = .ok k := hk1
      show tail [a, b] 0 2 h = _
      have c1 : ¬ ((2 : Int) = 3) := by decide
      have c2 : ((2 : Int) = 2 ∨ (2 : Int) = 3) := by decide
      have c3 : ((2 : Int) = 1 ∨ (2 : Int) = 2 ∨ (2 : Int) = 3) := by decide
      simp only [tail, Int.reduceEq, or_false, false_or, or_true, true_or, or_self, if_true, if_false, b0, b1, m0, m1, s1, ek, hk1', ok_bind, pure_eq_ok]
    · rw [lo32_xor, hk2, lo32_natCast]; rfl
  | [a, b, c], _ =>
    obtain ⟨k, hk1, hk2⟩ := mixK_ok ((a.toNat + 256 * (b.toNat + 256 * (c.toNat + 256 * 0)) : Nat) : Int)
    refine ⟨pyXor h (k * mm_c2), ?_, ?_⟩
    · have b0 : byteAt [a, b, c] 0 = .ok (a.toNat : Int) := rfl
      have b1 : byteAt [a, b, c] (0 + 1) = .ok (b.toNat : Int) := rfl
      have b2 : byteAt [a, b, c] (0 + 2) = .ok (c.toNat : Int) := rfl
      have s1 : pyShlE (b.toNat : Int) mm_t1Shift = .ok ((b.toNat <<< 8 : Nat) : Int) := rfl
      have s2 : pyShlE (c.toNat : Int) mm_t2Shift = .ok ((c.toNat <<< 16 : Nat) : Int) := rfl
      have m0 : pyAnd (a.toNat : Int) mm_t0Mask = (a.toNat : Int) := mask255 _ a.toNat_lt
      have m1 : pyAnd (b.toNat : Int) mm_t1Mask = (b.toNat : Int) := mask255 _ b.toNat_lt
      have m2 : pyAnd (c.toNat : Int) mm_t2Mask = (c.toNat : Int) := mask255 _ c.toNat_lt
      have ek : pyOr (pyOr ((c.toNat <<< 16 : Nat) : Int) ((b.toNat <<< 8 : Nat) : Int)) (a.toNat : Int) =
          ((a.toNat + 256 * (b.toNat + 256 * (c.toNat + 256 * 0)) : Nat) : Int) := by
        rw [pyOr_nat, pyOr_nat]
        have : c.toNat <<< 16 ||| b.toNat <<< 8 ||| a.toNat = a.toNat ||| b.toNat <<< 8 ||| c.toNat <<< 16 := by
          rw [Nat.or_comm (c.toNat <<< 16), Nat.or_comm _ a.toNat, Nat.or_assoc]
        rw [this, or_bytes3 _ _ _ a.toNat_lt b.toNat_lt]; rfl
      have hk1' : rotIdiom (((a.toNat + 256 * (b.toNat + 256 * (c.toNat + 256 * 0)) : Nat) : Int) * mm_c1)
          mm_tRotL mm_tRotMask mm_tRotR = .ok k := hk1
      show tail [a, b, c] 0 3 h = _
      have c1 : ((3 : Int) = 3) := by decide
      have c2 : ((3 : Int) = 2 ∨ (3 : Int) = 3) := by decide
      have c3 : ((3 : Int) = 1 ∨ (3 : Int) = 2 ∨ (3 : Int) = 3) := by decide
      simp only [tail, Int.reduceEq, or_false, false_or, or_true, true_or, or_self, if_true, if_false, b0, b1, b2, m0, m1, m2, s1, s2, ek, hk1', ok_bind, pure_eq_ok]
    · rw [lo32_xor, hk2, lo32_natCast]; rfl


/-- the block loop followed by the tail, for `n` blocks -/
def core (data : Bytes) (n : Nat) (val : Int) (h : Int) : M Int := do
  let h1 ← (List.range n).foldlM (fun h (t : Nat) => body data h (4 * (t : Int))) h
  tail data ((4 * n : Nat) : Int) val h1

theorem core_succ (a b c d : UInt8) (rest : Bytes) (n : Nat) (val h : Int) :
    core (a :: b :: c :: d :: rest) (n + 1) val h =
      (body (a :: b :: c :: d :: rest) h 0 >>= fun h' => core rest n val h') := by
  unfold core
  rw [List.range_succ_eq_map, List.foldlM_cons]
  simp only [List.foldlM_map, bind_assoc]
  have hb : ∀ (t : Nat) (h : Int), body (a :: b :: c :: d :: rest) h (4 * ((Nat.succ t : Nat) : Int)) = body rest h (4 * (t : Int)) := by
    intro t h
    apply body_congr
    · have := byteAt_shift a b c d rest (4 * t) (4 * ((Nat.succ t : Nat) : Int)) (by omega)
      rw [this]; congr 1
    · have := byteAt_shift a b c d rest (4 * t + 1) (4 * ((Nat.succ t : Nat) : Int) + 1) (by omega)
      rw [this]; congr 1
    · have := byteAt_shift a b c d rest (4 * t + 2) (4 * ((Nat.succ t : Nat) : Int) + 2) (by omega)
      rw [this]; congr 1
    · have := byteAt_shift a b c d rest (4 * t + 3) (4 * ((Nat.succ t : Nat) : Int) + 3) (by omega)
      rw [this]; congr 1
  have ht : ∀ h : Int, tail (a :: b :: c :: d :: rest) ((4 * (n + 1) : Nat) : Int) val h = tail rest ((4 * n : Nat) : Int) val h := by
    intro h
    apply tail_congr
    · exact byteAt_shift a b c d rest (4 * n) _ (by omega)
    · have := byteAt_shift a b c d rest (4 * n + 1) (((4 * (n + 1) : Nat) : Int) + 1) (by omega)
      rw [this]; congr 1
    · have := byteAt_shift a b c d rest (4 * n + 2) (((4 * (n + 1) : Nat) : Int) + 2) (by omega)
      rw [this]; congr 1
  simp only [hb, ht]
  rfl

theorem mmBody_cons4 (h : UInt32) (a b c d : UInt8) (rest : Bytes) :
    mmBody h (a :: b :: c :: d :: rest) = mmBody (mmBlock h (UInt32.ofNat (leNat [a, b, c, d]))) rest := by
  simp only [mmBody, mmWords, mmTail, List.foldl_cons]

theorem leNat4 (a b c d : UInt8) : leNat [a, b, c, d] = a.toNat + 256 * (b.toNat + 256 * (c.toNat + 256 * d.toNat)) := by
  simp [leNat]

theorem core_ok : ∀ (n : Nat) (data : Bytes) (h : Int), 4 * n ≤ data.length → data.length < 4 * n + 4 →
    ∃ v, core data n ((data.length - 4 * n : Nat) : Int) h = .ok v ∧ lo32 v = mmBody (lo32 h) data
  | 0, data, h, _, h2 => by
    obtain ⟨v, hv1, hv2⟩ := tail_ok data (by omega) h
    exact ⟨v, by simpa [core] using hv1, hv2⟩
  | n + 1, a :: b :: c :: d :: rest, h, h1, h2 => by
    obtain ⟨r, hr1, hr2⟩ := body_ok (a :: b :: c :: d :: rest) h 0 a.toNat b.toNat c.toNat d.toNat
      a.toNat_lt b.toNat_lt c.toNat_lt rfl rfl rfl rfl
    obtain ⟨v, hv1, hv2⟩ := core_ok n rest r (by simp at h1; omega) (by simp at h2; omega)
    refine ⟨v, ?_, ?_⟩
    · rw [core_succ, hr1, ok_bind]
      have : (a :: b :: c :: d :: rest).length - 4 * (n + 1) = rest.length - 4 * n := by simp; omega
      rw [this]; exact hv1
    · rw [mmBody_cons4, leNat4, hv2, hr2]
  | n + 1, [], _, h1, _ => by simp at h1
  | n + 1, [_], _, h1, _ => by simp at h1; omega
  | n + 1, [_, _], _, h1, _ => by simp at h1; omega
  | n + 1, [_, _, _], _, h1, _ => by simp at h1; omega

theorem and_round_mask (n : Nat) (h : n < 2 ^ 32) : n &&& 0xFFFFFFFC = 4 * (n / 4) := by
  have e : (0xFFFFFFFC : Nat) = 2 ^ 2 * (2 ^ 30 - 1) := by decide
  have e4 : 4 * (n / 4) = 2 ^ 2 * (n / 2 ^ 2) := rfl
  rw [e, e4]
  apply Nat.eq_of_testBit_eq
  intro i
  simp only [Nat.testBit_and, Nat.testBit_two_pow_mul, Nat.testBit_two_pow_sub_one, Nat.testBit_div_two_pow]
  by_cases h2 : 2 ≤ i
  · have e2 : i - 2 + 2 = i := by omega
    by_cases h3 : i < 32
    · have : i - 2 < 30 := by omega
      simp [h2, this, e2]
    · have : n.testBit i = false := Nat.testBit_lt_two_pow (Nat.lt_of_lt_of_le h (Nat.pow_le_pow_right (by decide) (by omega)))
      simp [h2, this, e2]
  · simp [h2]

theorem fmix_ok (h : Int) : fmix h = .ok ((mmFmix (lo32 h)).toNat : Int) := by
  have s16 : ∀ x : Int, pyShrE (pyAnd x mm_f1Mask) mm_f1Shift = .ok ((pyAnd x 0xFFFFFFFF) >>> 16) := fun _ => rfl
  have s13 : ∀ x : Int, pyShrE (pyAnd x mm_f2Mask) mm_f2Shift = .ok ((pyAnd x 0xFFFFFFFF) >>> 13) := fun _ => rfl
  have s16' : ∀ x : Int, pyShrE (pyAnd x mm_f3Mask) mm_f3Shift = .ok ((pyAnd x 0xFFFFFFFF) >>> 16) := fun _ => rfl
  simp only [fmix, s16, s13, s16', ok_bind, pure_eq_ok]
  have e : mm_outMask = 0xFFFFFFFF := rfl
  rw [e, pyAnd_mask32]
  congr 2
  simp only [lo32_xor, lo32_mul, lo32_shr_masked _ (by decide : 16 < 32), lo32_shr_masked _ (by decide : 13 < 32)]
  rfl

/-- `bloomfilter.murmur3(data, seed)` is MurmurHash3 x86_32 of `data` with the seed reduced mod 2^32, for every
byte string shorter than 2^32 and every integer seed -/
theorem murmur3_py_eq_spec (data : Bytes) (seed : Int) (hlen : data.length < 2 ^ 32) :
    murmur3 data seed = .ok ((Hash.murmur3 data (lo32 seed)).toNat : Int) := by
  have hre : pyAnd (data.length : Int) mm_roundMask = ((4 * (data.length / 4) : Nat) : Int) := by
    show ((data.length &&& 0xFFFFFFFC : Nat) : Int) = _
    rw [and_round_mask _ hlen]
  have hval : pyAnd (data.length : Int) mm_valMask = ((data.length - 4 * (data.length / 4) : Nat) : Int) := by
    show ((data.length &&& (2 ^ 2 - 1) : Nat) : Int) = _
    rw [Nat.and_two_pow_sub_one_eq_mod]
    congr 1
    omega
  obtain ⟨v, hv1, hv2⟩ := core_ok (data.length / 4) data seed (by omega) (by omega)
  have hn : ((4 * (data.length / 4) : Nat) : Int).toNat = 4 * (data.length / 4) := by omega
  have hn2 : (4 * (data.length / 4) + 3) / 4 = data.length / 4 := by omega
  simp only [core] at hv1
  simp only [murmur3, hre, hval, hn, hn2]
  rw [← bind_assoc, hv1, ok_bind, fmix_ok, lo32_xor, hv2, lo32_natCast]
  rfl

end Pycoin.Murmur3Py
