import Mathlib.Tactic.SplitIfs
import Pycoin.Proofs.VMSigEnc
/-!
pycoin's port of the lax DER reader (`der.sigdecode_der_lax`, index based) against the specification's
`ecdsa_signature_parse_der_lax` (`laxDerParse`, list based): same failures, same `(r, s)` up to libsecp256k1's
replacement of an out-of-range signature by `(0, 0)`; and every signature that passes `IsValidSignatureEncoding`
is read by it.
-/
namespace Pycoin.VM
open Pycoin.Spec Pycoin.Gen.VM Consensus

theorem stripZeros_zero (t : Bytes) : stripZeros (0 :: t) = stripZeros t := by
  simp [stripZeros]

theorem stripZeros_ne (b : UInt8) (t : Bytes) (h : b ≠ 0) : stripZeros (b :: t) = b :: t := by
  rw [stripZeros.eq_2]
  intro rest hr
  injection hr with h1 h2
  exact h h1

theorem stripZeros_len_le (l : Bytes) : (stripZeros l).length ≤ l.length := by
  induction l with
  | nil => simp [stripZeros]
  | cons b t ih =>
    by_cases h : b = 0
    · subst h; rw [stripZeros_zero]; simp only [List.length_cons]; omega
    · rw [stripZeros_ne b t h]

theorem skipZeros_eq : ∀ (k : Nat) (pre rest : Bytes), k ≤ rest.length →
    skipZeros (pre ++ rest) pre.length k =
      (pre.length + (k - (stripZeros (rest.take k)).length), (stripZeros (rest.take k)).length) := by
  intro k
  induction k with
  | zero => intro pre rest _; simp [skipZeros, stripZeros]
  | succ k ih =>
    intro pre rest hk
    cases rest with
    | nil => simp at hk
    | cons b t =>
      have hb : (pre ++ b :: t)[pre.length]? = some b := by simp
      simp only [skipZeros, hb, List.take_succ_cons]
      by_cases h0 : b = 0
      · subst h0
        simp only [if_true, stripZeros_zero]
        have := ih (pre ++ [0]) t (by simpa using hk)
        simp only [List.append_assoc, List.singleton_append, List.length_append, List.length_singleton] at this
        rw [this]
        have hl := stripZeros_len_le (t.take k)
        have hl2 : (t.take k).length ≤ k := List.length_take_le _ _
        congr 1; omega
      · have : ¬ (some b = some (0 : UInt8)) := by simpa using h0
        simp only [this, if_false, stripZeros_ne b _ h0, List.length_cons, List.length_take]
        simp only [List.length_cons] at hk
        have : min k t.length = k := by omega
        rw [this]; congr 1; omega

def laxIntL (rest : Bytes) : Option (Nat × Nat) :=
  match rest with
  | tag :: lb :: r =>
    if tag ≠ 2 then none else
    if lb.toNat ≥ 128 then
      let k := lb.toNat - 128
      if k > r.length then none else
      let f := stripZeros (r.take k)
      if f.length ≥ 4 then none else
      if beNat f > r.length - k then none else some (2 + k, beNat f)
    else if lb.toNat > r.length then none else some (2, lb.toNat)
  | _ => none

theorem slice_app (pre rest : Bytes) (a l : Nat) :
    slice (pre ++ rest) (pre.length + a) (pre.length + a + l) = (rest.drop a).take l := by
  unfold slice
  rw [show pre.length + a + l - (pre.length + a) = l by omega, ← List.drop_drop, List.drop_left]

theorem stripZeros_drop (l : Bytes) : stripZeros l = l.drop (l.length - (stripZeros l).length) := by
  induction l with
  | nil => simp [stripZeros]
  | cons b t ih =>
    by_cases h : b = 0
    · subst h
      rw [stripZeros_zero]
      have := stripZeros_len_le t
      rw [show (0 :: t).length - (stripZeros t).length = (t.length - (stripZeros t).length) + 1 by
        simp only [List.length_cons]; omega, List.drop_succ_cons]
      exact ih
    · rw [stripZeros_ne b t h]; simp

theorem laxInteger_eq (pre rest : Bytes) :
    laxInteger (pre ++ rest) pre.length =
      (laxIntL rest).map (fun p => (pre.length + p.1, p.2, pre.length + p.1 + p.2)) := by
  rcases rest with _ | ⟨tag, _ | ⟨lb, r⟩⟩
  · simp [laxInteger, laxIntL]
  · by_cases ht : tag = 2 <;> simp [laxInteger, laxIntL, ht]
  · have h0 : (pre ++ tag :: lb :: r)[pre.length]? = some tag := by simp
    have h1 : (pre ++ tag :: lb :: r)[pre.length + 1]? = some lb := by
      rw [List.getElem?_append_right (by omega)]; simp
    by_cases ht : tag = 2
    · subst ht
      have hsz : (pre ++ 2 :: lb :: r).length = pre.length + 2 + r.length := by simp; omega
      simp only [laxInteger, laxIntL, h0, h1, hsz, bind, Option.bind, pure]
      have e1 : List.length pre + 2 + r.length - (List.length pre + 1 + 1) = r.length := by omega
      have e2 : ¬ (List.length pre = List.length pre + 2 + r.length) := by omega
      have e3 : ¬ (List.length pre + 1 = List.length pre + 2 + r.length) := by omega
      simp only [e1, e2, e3, decide_false, ne_eq, not_true_eq_false, Bool.or_self, Bool.false_eq_true, if_false]
      by_cases hlb : lb.toNat ≥ 128
      · simp only [hlb, if_true]
        generalize lb.toNat - 128 = k
        by_cases hk : k > r.length
        · simp [hk]
        · simp only [hk, if_false]
          have hk' : k ≤ r.length := by omega
          have hpre : pre ++ 2 :: lb :: r = (pre ++ [2, lb]) ++ r := by simp
          have hlen : List.length pre + 1 + 1 = (pre ++ [2, lb]).length := by simp
          have hskip := skipZeros_eq (k) (pre ++ [2, lb]) r hk'
          rw [hpre, hlen, hskip]
          simp only []
          have hL := stripZeros_len_le (r.take (k))
          have hL2 : (r.take (k)).length = k := by
            rw [List.length_take]; exact Nat.min_eq_left hk'
          rw [slice_app]
          have hfield : List.take (stripZeros (List.take (k) r)).length
              (List.drop (k - (stripZeros (List.take (k) r)).length) r) =
              stripZeros (List.take (k) r) := by
            conv => rhs; rw [stripZeros_drop (List.take (k) r)]
            rw [hL2, List.drop_take]
            congr 1; omega
          rw [hfield]
          generalize stripZeros (List.take (k) r) = fld at *
          by_cases h4 : fld.length ≥ 4
          · simp [h4]
          · simp only [h4, if_false]
            have hP : (pre ++ [2, lb]).length = pre.length + 2 := by simp
            rw [hL2] at hL
            have e4 : List.length (pre ++ [2, lb]) + r.length - (List.length (pre ++ [2, lb]) + (k - List.length fld) + List.length fld) =
                r.length - (k) := by omega
            simp only [List.length_append] at e4 ⊢
            rw [e4]
            by_cases h5 : beNat fld > r.length - (k)
            · simp [h5]
            · simp only [h5, if_false, Option.map_some, List.length_cons, List.length_nil]
              have : List.length pre + (0 + 1 + 1) + (k - List.length fld) + List.length fld = List.length pre + (2 + k) := by
                omega
              rw [this]
      · simp only [hlb, if_false]
        by_cases hk : lb.toNat > r.length
        · simp [hk]
        · simp only [hk, if_false, Option.map_some]
    · simp [laxInteger, laxIntL, ht]

theorem laxIntL_bound (rest : Bytes) (o l : Nat) (h : laxIntL rest = some (o, l)) : o + l ≤ rest.length := by
  rcases rest with _ | ⟨tag, _ | ⟨lb, r⟩⟩
  · simp [laxIntL] at h
  · simp [laxIntL] at h
  · simp only [laxIntL] at h
    split_ifs at h <;> simp only [Option.some.injEq, Prod.mk.injEq] at h
    all_goals obtain ⟨rfl, rfl⟩ := h
    all_goals simp only [List.length_cons]
    all_goals omega

def laxSigL (sig : Bytes) : Option (Nat × Nat) :=
  match sig with
  | t :: lb :: r =>
    if t ≠ 0x30 then none else
    let skip := if lb.toNat ≥ 128 then lb.toNat - 128 else 0
    if skip > r.length then none else
    let r1 := r.drop skip
    match laxIntL r1 with
    | none => none
    | some (o1, l1) =>
      let r2 := r1.drop (o1 + l1)
      match laxIntL r2 with
      | none => none
      | some (o2, l2) => some (beNat ((r1.drop o1).take l1), beNat ((r2.drop o2).take l2))
  | _ => none

theorem sigdecodeDerLax_eq (sig : Bytes) : sigdecodeDerLax sig = laxSigL sig := by
  rcases sig with _ | ⟨t, _ | ⟨lb, r⟩⟩
  · simp [sigdecodeDerLax, laxSigL]
  · by_cases ht : t = 0x30 <;> simp [sigdecodeDerLax, laxSigL, ht]
  · by_cases ht : t = 0x30
    swap
    · simp [sigdecodeDerLax, laxSigL, ht]
    subst ht
    have key : ∀ skip, skip ≤ r.length →
        (do
          let (rpos, rlen, pos) ← laxInteger (0x30 :: lb :: r) (2 + skip)
          let (spos, slen, _) ← laxInteger (0x30 :: lb :: r) pos
          pure (beNat (slice (0x30 :: lb :: r) rpos (rpos + rlen)), beNat (slice (0x30 :: lb :: r) spos (spos + slen))) : Option (Nat × Nat)) =
        (match laxIntL (r.drop skip) with
          | none => none
          | some (o1, l1) =>
            match laxIntL ((r.drop skip).drop (o1 + l1)) with
            | none => none
            | some (o2, l2) =>
              some (beNat (((r.drop skip).drop o1).take l1), beNat ((((r.drop skip).drop (o1 + l1)).drop o2).take l2))) := by
      intro skip hskip
      have hsplit : (0x30 : UInt8) :: lb :: r = (0x30 :: lb :: r.take skip) ++ r.drop skip := by simp
      have hlen1 : (0x30 :: lb :: r.take skip).length = 2 + skip := by
        simp only [List.length_cons, List.length_take, Nat.min_eq_left hskip]; omega
      rw [← hlen1]
      conv => lhs; rw [hsplit]
      rw [laxInteger_eq]
      cases h1 : laxIntL (r.drop skip) with
      | none => simp [bind, Option.bind]
      | some p1 =>
        obtain ⟨o1, l1⟩ := p1
        have hb1 := laxIntL_bound _ _ _ h1
        simp only [Option.map_some, bind, Option.bind]
        have hsplit2 : (0x30 :: lb :: r.take skip) ++ r.drop skip =
            ((0x30 :: lb :: r.take skip) ++ (r.drop skip).take (o1 + l1)) ++ (r.drop skip).drop (o1 + l1) := by
          rw [List.append_assoc, List.take_append_drop]
        have hlen2 : ((0x30 :: lb :: r.take skip) ++ (r.drop skip).take (o1 + l1)).length =
            (0x30 :: lb :: r.take skip).length + o1 + l1 := by
          rw [List.length_append, List.length_take, Nat.min_eq_left hb1]; omega
        rw [← hlen2]
        conv => lhs; rw [hsplit2]
        rw [laxInteger_eq]
        cases h2 : laxIntL ((r.drop skip).drop (o1 + l1)) with
        | none => simp
        | some p2 =>
          obtain ⟨o2, l2⟩ := p2
          simp only [Option.map_some, pure]
          rw [slice_app, ← hsplit2, hlen2, slice_app]
    unfold sigdecodeDerLax laxSigL
    simp only [List.length_cons, List.getElem?_cons_zero, List.getElem?_cons_succ, bind, Option.bind, pure]
    simp only [bind, Option.bind, pure] at key
    have e0 : ¬ (0 = r.length + 1 + 1) := by omega
    have e1 : ¬ (0 + 1 = r.length + 1 + 1) := by omega
    have e2 : r.length + 1 + 1 - (0 + 1 + 1) = r.length := by omega
    simp only [e0, e1, e2, decide_false, ne_eq, not_true_eq_false, Bool.or_self, Bool.false_eq_true, if_false]
    by_cases hlb : lb.toNat ≥ 128
    · simp only [hlb, if_true]
      generalize lb.toNat - 128 = k
      by_cases hk : k > r.length
      · simp [hk]
      · simp only [hk, if_false]
        rw [show 0 + 1 + 1 + k = 2 + k by omega]
        exact key k (by omega)
    · simp only [hlb, if_false, Nat.not_lt_zero]
      have := key 0 (by omega)
      simpa using this

theorem u8_bne0 (x : UInt8) : (x != 0) = (x.toNat != 0) := by
  by_cases h : x = 0
  · subst h; rfl
  · have h2 : x.toNat ≠ 0 := fun h' => h (UInt8.toNat_inj.mp (by simpa using h'))
    have a : (x != 0) = true := by simpa using h
    have b : (x.toNat != 0) = true := by simpa using h2
    rw [a, b]

theorem u8_hi (b : UInt8) : (b &&& 0x80 != 0) = decide (b.toNat ≥ 128) := by
  have key : ∀ m, m < 256 → ((m &&& 0x80 != 0) = decide (m ≥ 128)) := by decide +kernel
  rw [u8_bne0, UInt8.toNat_and]
  exact key b.toNat b.toNat_lt

/-- the list-based reader of one INTEGER against `laxLen` of the specification -/
theorem laxIntL_spec (tag : UInt8) (r : Bytes) :
    laxIntL (tag :: r) =
      if tag ≠ 2 then none else
      match laxLen r with
      | none => none
      | some (len, r') => if len > r'.length then none else some (1 + (r.length - r'.length), len) := by
  rcases r with _ | ⟨lb, r⟩
  · by_cases ht : tag = 2 <;> simp [laxIntL, laxLen, ht]
  · by_cases ht : tag = 2
    swap
    · simp [laxIntL, ht]
    subst ht
    simp only [laxIntL, laxLen, u8_hi, ne_eq, not_true_eq_false, if_false, decide_eq_true_eq]
    by_cases hlb : lb.toNat ≥ 128
    · simp only [hlb, if_true]
      generalize lb.toNat - 128 = k
      by_cases hk : k > r.length
      · simp [hk]
      · simp only [hk, if_false]
        by_cases h4 : (stripZeros (List.take k r)).length ≥ 4
        · simp [h4]
        · simp only [h4, if_false, List.length_drop, List.length_cons]
          split_ifs
          · rfl
          · congr 2; omega
    · simp only [hlb, if_false, List.length_cons]
      split_ifs
      · rfl
      · congr 2; omega

theorem laxLen_rest (r : Bytes) (len : Nat) (r' : Bytes) (h : laxLen r = some (len, r')) :
    r' = r.drop (r.length - r'.length) := by
  rcases r with _ | ⟨lb, r⟩
  · simp [laxLen] at h
  · simp only [laxLen] at h
    split_ifs at h with _ hk <;> simp only [Option.some.injEq, Prod.mk.injEq] at h
    · obtain ⟨_, rfl⟩ := h
      simp only [List.length_cons, List.length_drop]
      rw [show r.length + 1 - (r.length - (lb.toNat - 128)) = (lb.toNat - 128) + 1 by omega, List.drop_succ_cons]
    · obtain ⟨_, rfl⟩ := h
      simp

/-- libsecp256k1 turns a signature with an out-of-range component into the (invalid) signature (0, 0) -/
def normSig (p : Nat × Nat) : Nat × Nat := if p.1 ≥ secp256k1N ∨ p.2 ≥ secp256k1N then (0, 0) else p

theorem beNat_zero_cons (b : Bytes) : beNat (0 :: b) = beNat b := by
  simp [beNat, leNat_append, leNat]

theorem beNat_stripZeros (l : Bytes) : beNat (stripZeros l) = beNat l := by
  induction l with
  | nil => simp [stripZeros]
  | cons b t ih =>
    by_cases h : b = 0
    · subst h; rw [stripZeros_zero, ih, beNat_zero_cons]
    · rw [stripZeros_ne b t h]

theorem stripZeros_head (l t : Bytes) : stripZeros l ≠ 0 :: t := by
  induction l with
  | nil => simp [stripZeros]
  | cons b r ih =>
    by_cases h : b = 0
    · subst h; rw [stripZeros_zero]; exact ih
    · rw [stripZeros_ne b r h]; intro hh; injection hh with h1 _; exact h h1

theorem stripZeros_big (l : Bytes) (h : (stripZeros l).length > 32) : beNat l ≥ secp256k1N := by
  rw [← beNat_stripZeros]
  generalize hs : stripZeros l = s at h
  cases s with
  | nil => simp at h
  | cons b t =>
    have hb : b ≠ 0 := by
      intro hb0; subst hb0
      exact stripZeros_head l t hs
    have hbn : 1 ≤ b.toNat := by
      rcases Nat.eq_zero_or_pos b.toNat with h0 | h0
      · exact absurd (UInt8.toNat_inj.mp (by simpa using h0)) hb
      · exact h0
    have ht : 32 ≤ t.length := by simp only [List.length_cons] at h; omega
    simp only [beNat, List.reverse_cons, leNat_append, List.length_reverse, leNat, Nat.mul_zero, Nat.add_zero]
    have hp : 256 ^ 32 ≤ 256 ^ t.length := Nat.pow_le_pow_right (by decide) ht
    have hm : 256 ^ t.length * 1 ≤ 256 ^ t.length * b.toNat := Nat.mul_le_mul_left _ hbn
    have hN : secp256k1N ≤ 256 ^ 32 := by decide
    omega



theorem normSig_spec (a b : Bytes) :
    (if (decide ((stripZeros a).length > 32) || decide ((stripZeros b).length > 32) ||
          decide (beNat (stripZeros a) ≥ secp256k1N) || decide (beNat (stripZeros b) ≥ secp256k1N)) = true then some (0, 0)
      else some (beNat (stripZeros a), beNat (stripZeros b))) = some (normSig (beNat a, beNat b)) := by
  simp only [beNat_stripZeros, normSig]
  by_cases h1 : beNat a ≥ secp256k1N
  · simp [h1]
  by_cases h2 : beNat b ≥ secp256k1N
  · simp [h2]
  have h3 : ¬ (stripZeros a).length > 32 := fun h => h1 (stripZeros_big a h)
  have h4 : ¬ (stripZeros b).length > 32 := fun h => h2 (stripZeros_big b h)
  simp [h1, h2, h3, h4]

/-- the part of `ecdsa_signature_parse_der_lax` after the SEQUENCE header, on the bytes `r1` that follow it -/
theorem laxTail_eq (r1 : Bytes) :
    (match (some r1 : Option Bytes) with
    | none => none
    | some (2 :: rest) =>
      match laxLen rest with
      | none => none
      | some (rlen, rest) =>
        if rlen > List.length rest then none
        else
          match List.drop rlen rest with
          | 2 :: rest_1 =>
            match laxLen rest_1 with
            | none => none
            | some (slen, rest_2) =>
              if slen > List.length rest_2 then none
              else
                if
                    (decide (List.length (stripZeros (List.take rlen rest)) > 32) ||
                            decide (List.length (stripZeros (List.take slen rest_2)) > 32) ||
                          decide (beNat (stripZeros (List.take rlen rest)) ≥ secp256k1N) ||
                        decide (beNat (stripZeros (List.take slen rest_2)) ≥ secp256k1N)) =
                      true then
                  some (0, 0)
                else some (beNat (stripZeros (List.take rlen rest)), beNat (stripZeros (List.take slen rest_2)))
          | x => none
    | some val => none) =
    Option.map normSig
      (match laxIntL r1 with
        | none => none
        | some (o1, l1) =>
          match laxIntL (List.drop (o1 + l1) r1) with
          | none => none
          | some (o2, l2) =>
            some (beNat (List.take l1 (List.drop o1 r1)), beNat (List.take l2 (List.drop o2 (List.drop (o1 + l1) r1))))) := by
  rcases r1 with _ | ⟨tag, rest⟩
  · simp [laxIntL]
  by_cases ht : tag = 2
  swap
  · rw [laxIntL_spec]; simp [ht]
  subst ht
  rw [laxIntL_spec]
  simp only [ne_eq, not_true_eq_false, if_false]
  cases h1 : laxLen rest with
  | none => simp
  | some p1 =>
    obtain ⟨rlen, rest'⟩ := p1
    have hr := laxLen_rest _ _ _ h1
    simp only []
    by_cases hl : rlen > rest'.length
    · simp [hl]
    simp only [hl, if_false]
    have hle : rest'.length ≤ rest.length := by
      have := congrArg List.length hr
      simp only [List.length_drop] at this; omega
    have hd1 : List.drop (1 + (rest.length - rest'.length)) (2 :: rest) = rest' := by
      rw [Nat.add_comm, List.drop_succ_cons]; exact hr.symm
    have hd2 : List.drop (1 + (rest.length - rest'.length) + rlen) (2 :: rest) = List.drop rlen rest' := by
      rw [← List.drop_drop, hd1]
    rw [hd1, hd2]
    rcases hdr : List.drop rlen rest' with _ | ⟨tag2, rest1⟩
    · simp [laxIntL]
    by_cases ht2 : tag2 = 2
    swap
    · rw [laxIntL_spec]; simp [ht2]
    subst ht2
    rw [laxIntL_spec]
    simp only [ne_eq, not_true_eq_false, if_false]
    cases h2 : laxLen rest1 with
    | none => simp
    | some p2 =>
      obtain ⟨slen, rest2⟩ := p2
      have hr2 := laxLen_rest _ _ _ h2
      simp only []
      by_cases hl2 : slen > rest2.length
      · simp [hl2]
      simp only [hl2, if_false]
      have hd3 : List.drop (1 + (rest1.length - rest2.length)) (2 :: rest1) = rest2 := by
        rw [Nat.add_comm, List.drop_succ_cons]; exact hr2.symm
      rw [hd3, normSig_spec]
      rfl

theorem laxDerParse_eq (sig : Bytes) : laxDerParse sig = (laxSigL sig).map normSig := by
  rcases sig with _ | ⟨t, _ | ⟨lb, r⟩⟩
  · simp [laxDerParse, laxSigL]
  · by_cases ht : t = 0x30
    · subst ht; simp [laxDerParse, laxSigL]
    · simp [laxDerParse, laxSigL, ht]
  · by_cases ht : t = 0x30
    swap
    · simp [laxDerParse, laxSigL, ht]
    subst ht
    simp only [laxDerParse, laxSigL, u8_hi, ne_eq, not_true_eq_false, if_false, decide_eq_true_eq]
    by_cases hlb : lb.toNat ≥ 128
    · simp only [hlb, if_true]
      generalize lb.toNat - 128 = k
      by_cases hk : k > r.length
      · simp [hk]
      · simp only [hk, if_false]
        exact laxTail_eq (List.drop k r)
    · simp only [hlb, if_false, Nat.not_lt_zero, List.drop_zero]
      exact laxTail_eq r

theorem validEnc_facts (sig : Bytes) (hv : isValidSignatureEncoding sig = true) :
    9 ≤ sig.length ∧ sig.length ≤ 73 ∧ byteAt sig 0 = 0x30 ∧ byteAt sig 2 = 2 ∧
    5 + byteAt sig 3 < sig.length ∧ byteAt sig 3 + byteAt sig (5 + byteAt sig 3) + 7 = sig.length ∧
    byteAt sig (byteAt sig 3 + 4) = 2 ∧ byteAt sig 1 = sig.length - 3 := by
  unfold isValidSignatureEncoding at hv
  by_cases h1 : sig.length < 9
  · simp [h1] at hv
  by_cases h2 : sig.length > 73
  · simp [h1, h2] at hv
  by_cases h3 : byteAt sig 0 = 0x30
  case neg => simp [h1, h2, h3] at hv
  by_cases h4 : byteAt sig 1 = sig.length - 3
  case neg => simp [h1, h2, h3, h4] at hv
  by_cases h5 : 5 + byteAt sig 3 ≥ sig.length
  · simp [h1, h2, h3, h4, h5] at hv
  by_cases h6 : byteAt sig 3 + byteAt sig (5 + byteAt sig 3) + 7 = sig.length
  case neg => simp [h1, h2, h3, h4, h5, h6] at hv
  by_cases h7 : byteAt sig 2 = 2
  case neg => simp [h1, h2, h3, h4, h5, h6, h7] at hv
  by_cases h8 : byteAt sig 3 = 0
  · simp [h1, h2, h3, h4, h7, h8] at hv
  by_cases h11 : byteAt sig (byteAt sig 3 + 4) = 2
  case neg =>
    simp only [h1, h2, h3, h4, h5, h6, h7, h8, h11, if_false, bne_self_eq_false, Bool.false_eq_true, beq_iff_eq,
      bne_iff_ne, ne_eq, not_false_eq_true, if_true] at hv
    split_ifs at hv
  exact ⟨by omega, by omega, h3, h7, by omega, h6, h11, h4⟩

theorem u8_of_toNat {b : UInt8} {n : Nat} (hn : n < 256) (h : b.toNat = n) : b = UInt8.ofNat n := by
  apply UInt8.toNat_inj.mp
  rw [h, UInt8.toNat_ofNat']
  exact (Nat.mod_eq_of_lt hn).symm

/-- a signature that passes `IsValidSignatureEncoding` is read by the lax parser (short-form lengths throughout) -/
theorem valid_lax (sig : Bytes) (hv : isValidSignatureEncoding sig = true) : ∃ r s, laxSigL sig.dropLast = some (r, s) := by
  obtain ⟨f1, f2, f3, f4, f5, f6, f7, f8⟩ := validEnc_facts sig hv
  rcases sig with _ | ⟨a0, _ | ⟨a1, _ | ⟨a2, _ | ⟨a3, rest4⟩⟩⟩⟩
  · simp at f1
  · simp at f1
  · simp at f1
  · simp at f1
  have hb0 : byteAt (a0 :: a1 :: a2 :: a3 :: rest4) 0 = a0.toNat := by simp [byteAt]
  have hb2 : byteAt (a0 :: a1 :: a2 :: a3 :: rest4) 2 = a2.toNat := by simp [byteAt]
  have hb3 : byteAt (a0 :: a1 :: a2 :: a3 :: rest4) 3 = a3.toNat := by simp [byteAt]
  rw [hb0] at f3; rw [hb2] at f4; rw [hb3] at f5 f6 f7
  have e0 : a0 = 0x30 := u8_of_toNat (by decide) f3
  have e2 : a2 = 2 := u8_of_toNat (by decide) f4
  subst e0; subst e2
  simp only [List.length_cons] at f1 f2 f5 f6
  have hne : rest4 ≠ [] := by intro h; subst h; simp at f1
  have hdl : (0x30 :: a1 :: 2 :: a3 :: rest4).dropLast = 0x30 :: a1 :: 2 :: a3 :: rest4.dropLast := by
    simp [List.dropLast_cons_of_ne_nil, hne]
  have hDl : rest4.dropLast.length = rest4.length - 1 := by simp
  generalize hL : a3.toNat = L at *
  -- the two bytes that start the S integer
  have hg : ∀ i (hi : i < rest4.dropLast.length), byteAt (0x30 :: a1 :: 2 :: a3 :: rest4) (i + 4) = (rest4.dropLast[i]'hi).toNat := by
    intro i hi
    have : (0x30 :: a1 :: 2 :: a3 :: rest4)[i + 4]? = some (rest4.dropLast[i]'hi) := by
      simp only [List.getElem?_cons_succ]
      rw [List.getElem_dropLast, List.getElem?_eq_getElem]
    simp [byteAt, this]
  have hi1 : L < rest4.dropLast.length := by omega
  have hi2 : L + 1 < rest4.dropLast.length := by omega
  have g1 := hg L hi1
  have g2 := hg (L + 1) hi2
  rw [show L + 1 + 4 = 5 + L by omega] at g2
  rw [f7] at g1
  have d1 : rest4.dropLast.drop L = rest4.dropLast[L]'hi1 :: rest4.dropLast.drop (L + 1) :=
    List.drop_eq_getElem_cons (by omega)
  have d2 : rest4.dropLast.drop (L + 1) = rest4.dropLast[L + 1]'hi2 :: rest4.dropLast.drop (L + 1 + 1) :=
    List.drop_eq_getElem_cons (by omega)
  have e7 : rest4.dropLast[L]'hi1 = 2 := u8_of_toNat (by decide) g1.symm
  generalize rest4.dropLast[L + 1]'hi2 = ls at d2 g2
  rw [g2] at f6
  rw [hdl]
  have ha1 : ¬ a1.toNat ≥ 128 := by
    have : byteAt (0x30 :: a1 :: 2 :: a3 :: rest4) 1 = a1.toNat := by simp [byteAt]
    rw [this] at f8
    simp only [List.length_cons] at f8
    omega
  have hskip : ¬ (0 > rest4.dropLast.length + 2) := by omega
  have hL1 : ¬ L ≥ 128 := by omega
  have hL2 : ¬ L > rest4.dropLast.length := by omega
  have hls1 : ¬ ls.toNat ≥ 128 := by omega
  have hls2 : ¬ ls.toNat > (rest4.dropLast.drop (L + 1 + 1)).length := by
    rw [List.length_drop]; omega
  have hd : List.drop (2 + L) ((2 : UInt8) :: a3 :: rest4.dropLast) = List.drop L rest4.dropLast := by
    rw [show 2 + L = L + 1 + 1 by omega]; rfl
  simp only [laxSigL, ne_eq, not_true_eq_false, if_false, ha1, List.length_cons, List.drop_zero, laxIntL, hL, hL1, hL2,
    List.drop_succ_cons, hd, d1, d2, e7, hls1, hls2, Nat.not_lt_zero]
  exact ⟨_, _, rfl⟩

/-- **lax DER**: pycoin's `sigdecode_der_lax` and the specification's parser fail together and read the same numbers -/
theorem sigdecodeDerLax_spec (sig : Bytes) : laxDerParse sig = (sigdecodeDerLax sig).map normSig := by
  rw [laxDerParse_eq, sigdecodeDerLax_eq]

theorem valid_decodes (sig : Bytes) (hv : isValidSignatureEncoding sig = true) :
    ∃ r s, sigdecodeDerLax sig.dropLast = some (r, s) := by
  rw [sigdecodeDerLax_eq]; exact valid_lax sig hv

end Pycoin.VM
