import Mathlib.Tactic.SplitIfs
import Pycoin.Proofs.VMInstrSig
import Pycoin.Proofs.VMInstr3
namespace Pycoin.VM
open Pycoin.Spec Pycoin.Gen.VM CondStack Consensus

variable (chk : Bytes → Bytes → Bytes → Bool → Bool) (cfg : Config)

/-- **one instruction, all 256 opcode values**: `eval_instruction` on the pycoin state representing `st` and one
iteration of Core's loop agree -/
theorem instr_eq_all (st : Consensus.State) (pc : Nat) (hpc : pc < cfg.script.length)
    (hw : hasFlag cfg.flags VERIFY_MINIMALIF = true → cfg.witness = true)
    (hwp : hasFlag cfg.flags VERIFY_WITNESS_PUBKEYTYPE = true → cfg.witness = true) (hchk : ChkWF chk)
    (hdel : ∀ sigs, (∀ x ∈ sigs, x ∈ st.stack) → DelAgrees cfg st sigs) :
    match getScriptOp (cfg.script.drop pc) with
    | none => (evalInstruction (stdEnv chk) cfg (absS st pc)).toOption = none
    | some (op, data, _, size) =>
        Agree (pc + size) (evalInstruction (stdEnv chk) cfg (absS st pc)) (specStep chk cfg st op data (pc + size)) := by
  have h0 := instr_eq chk cfg st pc hpc hw
  have hr := getOp_refines cfg.script pc (hasFlag cfg.flags VERIFY_MINIMALDATA && (absS st pc).cond.allIfTrue) hpc
  unfold GetOpRefines at hr
  cases hg : getScriptOp (cfg.script.drop pc) with
  | none => rw [hg] at h0; exact h0
  | some r =>
    obtain ⟨op, data, rest, size⟩ := r
    rw [hg] at h0 hr
    simp only at h0 hr ⊢
    by_cases hs : 0xac ≤ op ∧ op ≤ 0xaf
    · have e1 : ¬ op ≤ OP_PUSHDATA4 := by simp only [OP_PUSHDATA4]; omega
      have e2 : ¬ (op = OP_1NEGATE ∨ (OP_1 ≤ op ∧ op ≤ OP_16)) := by simp only [OP_1NEGATE, OP_1, OP_16]; omega
      simp only [e1, e2, if_false] at hr
      have hdata : data = [] := by
        cases hd : cfg.script.drop pc with
        | nil => rw [hd] at hg; simp [getScriptOp] at hg
        | cons b tl =>
          rw [hd] at hg
          have hopb := getScriptOp_op b tl op data rest size hg
          rw [spec_other b tl (by rw [← hopb]; omega)] at hg
          simp only [Option.some.injEq, Prod.mk.injEq] at hg
          exact hg.2.1.symm
      subst hdata
      exact instr_sig chk cfg hwp hchk st pc (pc + size) op hs hr hdel
    · exact h0 hs
end Pycoin.VM
