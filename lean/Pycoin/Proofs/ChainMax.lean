import Pycoin.Proofs.ChainLockFull
/-! maximum weight of the chain picked by `_longest_local_block_chain`, given a complete finder (core Lean only) -/
namespace Pycoin.Chain

theorem chainWeight_append (w : Dict Nat) (a b : List Nat) : chainWeight w (a ++ b) = chainWeight w a + chainWeight w b := by
  simp [chainWeight]

theorem pickBest_max (w : Dict Nat) : ∀ (cs : List (List Nat)) (mw : Nat) (best : List Nat),
    (∀ c ∈ cs, chainWeight w c ≤ (pickBest w cs (mw, best)).1) ∧ mw ≤ (pickBest w cs (mw, best)).1 ∧
    (((pickBest w cs (mw, best)).2 ∈ cs ∧ (pickBest w cs (mw, best)).1 = chainWeight w (pickBest w cs (mw, best)).2) ∨
      (pickBest w cs (mw, best)) = (mw, best))
  | [], mw, best => by simp [pickBest]
  | c :: cs, mw, best => by
      unfold pickBest
      by_cases h : chainWeight w c > mw
      · simp only [h, if_true]
        obtain ⟨i1, i2, i3⟩ := pickBest_max w cs (chainWeight w c) c
        refine ⟨?_, by omega, ?_⟩
        · intro c' hc'
          rcases List.mem_cons.mp hc' with e | e
          · subst e; exact i2
          · exact i1 c' e
        · rcases i3 with ⟨m, e⟩ | e
          · exact Or.inl ⟨List.mem_cons_of_mem _ m, e⟩
          · left; rw [e]; simp
      · simp only [h, if_false]
        obtain ⟨i1, i2, i3⟩ := pickBest_max w cs mw best
        refine ⟨?_, i2, ?_⟩
        · intro c' hc'
          rcases List.mem_cons.mp hc' with e | e
          · subst e; omega
          · exact i1 c' e
        · rcases i3 with ⟨m, e⟩ | e
          · exact Or.inl ⟨List.mem_cons_of_mem _ m, e⟩
          · exact Or.inr e

/-- the finder is complete for the anchor `a`: every chain of registered headers that ends right above `a`
(tip first) is the upper part of one of the enumerated leaf-to-anchor paths -/
def FinderComplete (rev : Bool) (cf : CF) (a : Nat) : Prop :=
  ∀ c' : List Nat, c' ≠ [] → UpPath cf.parent (c' ++ [a]) →
    ∃ chains pre, cf.allChainsEndingAt rev a = .ok chains ∧ (pre ++ c' ++ [a]) ∈ chains

/-- **C15_blockchain_over_spec** (partial: one `add_headers` call from a state satisfying the BlockChain
invariant `Good`, stated over the finder's own parent relation rather than over `Spec.Chain`).  IF the finder
is sound and complete after the call THEN the unlocked chain reported after it is a chain from the anchor and no
chain from the anchor among the registered headers is heavier.  (`lock_to_index` does not change the reported
chain: `lockToIndex_good`.) -/
theorem addHeaders_max (anchor0 : Nat) (rev : Bool) (rank : List Nat) (bc bc' : BC) (c : List Nat)
    (batch : List Header) (ops : List Op)
    (h0 : ∀ hd ∈ batch, hd.hash ≠ anchor0) (g : Good anchor0 bc c)
    (hr : bc.addHeaders rev rank batch = .ok (ops, bc'))
    (hs : FinderSound bc'.finder) (hc : FinderComplete rev bc'.finder bc'.parentHash) :
    ∃ c', Good anchor0 bc' c' ∧ bc'.cache = some c' ∧ UpPath bc'.finder.parent (c' ++ [bc'.parentHash]) ∧
      ∀ c'' : List Nat, UpPath bc'.finder.parent (c'' ++ [bc'.parentHash]) →
        chainWeight bc'.weight c'' ≤ chainWeight bc'.weight c' := by
  obtain ⟨c', g', _, _⟩ := addHeaders_good anchor0 rev rank bc bc' c batch ops h0 g hr hs
  -- what the call left in the cache
  unfold BC.addHeaders at hr
  obtain ⟨⟨old, bc1⟩, h1, hr⟩ := bind_ok hr
  try simp only at hr
  obtain ⟨finder', h2, hr⟩ := bind_ok hr
  try simp only at hr
  obtain ⟨⟨new, bc3⟩, h3, hr⟩ := bind_ok hr
  try simp only at hr
  obtain ⟨⟨oldPath, newPath⟩, h4, hr⟩ := bind_ok hr
  try simp only at hr
  unfold BC.longest at h3
  try simp only at h3
  obtain ⟨chains, h3a, h3⟩ := bind_ok h3
  simp only [Except.ok.injEq, Prod.mk.injEq] at h3
  obtain ⟨rfl, rfl⟩ := h3
  unfold BC.emitOps at hr
  obtain ⟨⟨rops, m1⟩, h5, hr⟩ := bind_ok hr
  try simp only at hr
  simp only [Except.ok.injEq, Prod.mk.injEq] at hr
  obtain ⟨_, rfl⟩ := hr
  simp only at hs hc g' h3a ⊢
  have hcache : c' = (pickBest (feed bc1.h2i bc1.locked.length bc1.weight batch).1 chains (0, [])).2.dropLast := by
    rcases g'.cur with h | ⟨h, _⟩
    · simp only [Option.some.injEq] at h; exact h.symm
    · cases h
  generalize hw : (feed bc1.h2i bc1.locked.length bc1.weight batch).1 = w at *
  refine ⟨c', g', by rw [hcache], g'.path, ?_⟩
  intro c'' hu
  by_cases hne : c'' = []
  · subst hne; simp [chainWeight]
  · obtain ⟨chains', pre, hch, hm⟩ := hc c'' hne hu
    rw [h3a] at hch
    injection hch with hch; subst hch
    obtain ⟨i1, _, i3⟩ := pickBest_max w chains 0 []
    have hle := i1 _ hm
    rw [chainWeight_append, chainWeight_append] at hle
    rcases i3 with ⟨m, e⟩ | e
    · obtain ⟨_, hl⟩ := allChains_spec rev finder' hs bc1.parentHash chains h3a _ m
      obtain ⟨ys, hys⟩ := List.getLast?_eq_some_iff.mp hl
      rw [e, hys, chainWeight_append] at hle
      rw [hcache, hys]; simp only [List.dropLast_concat]
      omega
    · rw [e] at hle
      simp only at hle
      rw [hcache, e]; simp [chainWeight] at hle ⊢
      omega


end Pycoin.Chain
