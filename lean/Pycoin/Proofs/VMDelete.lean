import Mathlib.Tactic.SplitIfs
import Pycoin.Proofs.VMWalk
/-!
Signature deletion: pycoin's `_delete_signature` (instruction walk that drops the instructions whose bytes equal the
canonical push of the signature and keeps an undecodable tail verbatim; signatures taken bottom-most first) and Core's
`FindAndDelete(scriptCode, CScript() << sig)` (top-most first) produce the same script code for **every** script code and
all signatures of at most 520 bytes (`delAgrees_all`).  Both are the filter "instruction ≠ push of a signature" on the
instruction list, followed by the undecodable tail; decoding is local (`getScriptOp_local`), so the rebuilt script walks as
the filtered list with the same tail (`secs_rebuild`) and the filters commute.
-/
namespace Pycoin.VM
open Pycoin.Spec Pycoin.Gen.VM CondStack Consensus

/-- decoding an instruction only looks at the instruction: with the same bytes in front, whatever follows, the same
instruction is decoded -/
theorem getScriptOp_local (rest : Bytes) (op : Nat) (d rest' : Bytes) (sz : Nat)
    (h : getScriptOp rest = some (op, d, rest', sz)) (t : Bytes) :
    getScriptOp (rest.take sz ++ t) = some (op, d, t, sz) := by
  cases rest with
  | nil => simp [getScriptOp] at h
  | cons b tl =>
    by_cases c1 : b.toNat < 76
    · rw [spec_direct b tl c1] at h
      split_ifs at h with hl
      simp only [Option.some.injEq, Prod.mk.injEq] at h
      obtain ⟨rfl, rfl, rfl, rfl⟩ := h
      rw [show 1 + 0 + b.toNat = b.toNat + 1 by omega, List.take_succ_cons, List.cons_append, spec_direct b _ c1]
      have hlen : (tl.take b.toNat).length = b.toNat := by rw [List.length_take]; exact Nat.min_eq_left hl
      have hle : b.toNat ≤ (tl.take b.toNat ++ t).length := by rw [List.length_append, hlen]; omega
      simp only [hle, if_true]
      rw [List.take_left' hlen, List.drop_left' hlen, show 1 + 0 + b.toNat = b.toNat + 1 by omega]
    · by_cases c2 : b.toNat ≤ 78
      · have hcase : b.toNat = 76 ∨ b.toNat = 77 ∨ b.toNat = 78 := by omega
        have aux : ∀ k, ((b.toNat = 76 ∧ k = 1) ∨ (b.toNat = 77 ∧ k = 2) ∨ (b.toNat = 78 ∧ k = 4)) →
            getScriptOp ((b :: tl).take sz ++ t) = some (op, d, t, sz) := by
          intro k hk
          by_cases hkl : k ≤ tl.length
          · rw [spec_var b tl k hk hkl] at h
            split_ifs at h with hl
            simp only [Option.some.injEq, Prod.mk.injEq] at h
            obtain ⟨rfl, rfl, rfl, rfl⟩ := h
            set n := leNat (tl.take k) with hn
            have hdl : (tl.drop k).length = tl.length - k := List.length_drop
            rw [show 1 + k + n = (k + n) + 1 by omega, List.take_succ_cons, List.cons_append]
            have hk2 : k ≤ (tl.take (k + n) ++ t).length := by
              rw [List.length_append, List.length_take]; omega
            rw [spec_var b _ k hk hk2]
            have htk : (tl.take (k + n) ++ t).take k = tl.take k := by
              rw [List.take_append_of_le_length (by rw [List.length_take]; omega), List.take_take]
              congr 1; omega
            have hdk : (tl.take (k + n) ++ t).drop k = (tl.drop k).take n ++ t := by
              rw [List.drop_append_of_le_length (by rw [List.length_take]; omega), List.drop_take]
              congr 2; omega
            rw [htk, hdk, ← hn]
            have hlen : ((tl.drop k).take n).length = n := by rw [List.length_take]; exact Nat.min_eq_left hl
            have hle : n ≤ ((tl.drop k).take n ++ t).length := by rw [List.length_append, hlen]; omega
            simp only [hle, if_true]
            rw [List.take_left' hlen, List.drop_left' hlen, show 1 + k + n = k + n + 1 by omega]
          · rw [spec_var_trunc b tl k hk hkl] at h; cases h
        rcases hcase with e | e | e
        · exact aux 1 (Or.inl ⟨e, rfl⟩)
        · exact aux 2 (Or.inr (Or.inl ⟨e, rfl⟩))
        · exact aux 4 (Or.inr (Or.inr ⟨e, rfl⟩))
      · rw [spec_other b tl (by omega)] at h
        simp only [Option.some.injEq, Prod.mk.injEq] at h
        obtain ⟨rfl, rfl, rfl, rfl⟩ := h
        simp only [List.take_succ_cons, List.take_zero, List.cons_append, List.nil_append]
        exact spec_other b t (by omega)

/-- `sub` is one whole instruction: decoding it consumes exactly `sub`, whatever follows -/
def IsInstr (sub : Bytes) : Prop :=
  sub ≠ [] ∧ ∀ t, ∃ op d, getScriptOp (sub ++ t) = some (op, d, t, sub.length)

/-- the instructions of a script as byte strings -/
def secs : Nat → Bytes → List Bytes
  | 0, _ => []
  | f + 1, rest =>
    match getScriptOp rest with
    | none => []
    | some (_, _, rest', sz) => rest.take sz :: secs f rest'


/-- what `GetScriptOp` cannot decode at the end of the script (empty for a script whose pushes are complete) -/
def tl : Nat → Bytes → Bytes
  | 0, rest => rest
  | f + 1, rest =>
    match getScriptOp rest with
    | none => rest
    | some (_, _, rest', _) => tl f rest'

theorem getScriptOp_nil : getScriptOp [] = none := rfl

theorem secs_tl_flatten : ∀ (f : Nat) (rest : Bytes), (secs f rest).flatten ++ tl f rest = rest := by
  intro f
  induction f with
  | zero => intro rest; simp [secs, tl]
  | succ f ih =>
    intro rest
    cases hg : getScriptOp rest with
    | none => simp [secs, tl, hg]
    | some r =>
      obtain ⟨op, d, rest', sz⟩ := r
      obtain ⟨hr, _, _⟩ := getScriptOp_rest _ _ _ _ _ hg
      simp only [secs, tl, hg, List.flatten_cons, List.append_assoc, ih rest']
      rw [hr, List.take_append_drop]

theorem tl_none : ∀ (f : Nat) (rest : Bytes), rest.length ≤ f → getScriptOp (tl f rest) = none := by
  intro f
  induction f with
  | zero =>
    intro rest h
    have : rest = [] := List.eq_nil_of_length_eq_zero (by omega)
    subst this; rfl
  | succ f ih =>
    intro rest h
    cases hg : getScriptOp rest with
    | none => simp only [tl, hg]
    | some r =>
      obtain ⟨op, d, rest', sz⟩ := r
      obtain ⟨hr, hpos, hle⟩ := getScriptOp_rest _ _ _ _ _ hg
      simp only [tl, hg]
      exact ih rest' (by rw [hr, List.length_drop]; omega)

theorem secs_isInstr : ∀ (f : Nat) (rest : Bytes), ∀ s ∈ secs f rest, IsInstr s := by
  intro f
  induction f with
  | zero => intro rest s hs; simp [secs] at hs
  | succ f ih =>
    intro rest s hs
    cases hg : getScriptOp rest with
    | none => simp [secs, hg] at hs
    | some r =>
      obtain ⟨op, d, rest', sz⟩ := r
      obtain ⟨hr, hpos, hle⟩ := getScriptOp_rest _ _ _ _ _ hg
      simp only [secs, hg, List.mem_cons] at hs
      rcases hs with rfl | hs
      · have hlen : (rest.take sz).length = sz := by rw [List.length_take]; exact Nat.min_eq_left hle
        refine ⟨by intro h0; rw [h0] at hlen; simp at hlen; omega, fun t => ⟨op, d, ?_⟩⟩
        rw [hlen]
        exact getScriptOp_local rest op d rest' sz hg t
      · exact ih rest' s hs

/-- the walk of whole instructions followed by an undecodable tail is those instructions and that tail -/
theorem secs_of_instrs (T : Bytes) (hT : getScriptOp T = none) : ∀ (L : List Bytes), (∀ s ∈ L, IsInstr s) →
    ∀ f, (L.flatten ++ T).length ≤ f → secs f (L.flatten ++ T) = L ∧ tl f (L.flatten ++ T) = T := by
  intro L
  induction L with
  | nil => intro _ f _; cases f <;> simp [secs, tl, hT]
  | cons a L ih =>
    intro hI f hf
    obtain ⟨hne, hdec⟩ := hI a (by simp)
    obtain ⟨op, d, hg⟩ := hdec (L.flatten ++ T)
    have hpos : 0 < a.length := List.length_pos_iff.mpr hne
    simp only [List.flatten_cons, List.append_assoc, List.length_append] at hf ⊢
    cases f with
    | zero => omega
    | succ f =>
      obtain ⟨h1, h2⟩ := ih (fun s hs => hI s (by simp [hs])) f (by simp only [List.length_append]; omega)
      exact ⟨by simp only [secs, hg, h1, List.take_left' rfl], by simp only [tl, hg, h2]⟩

theorem isPrefixOf_iff' {a s : Bytes} : a.isPrefixOf s = true ↔ ∃ t, s = a ++ t := by
  rw [List.isPrefixOf_iff_prefix]
  constructor
  · rintro ⟨t, ht⟩; exact ⟨t, ht.symm⟩
  · rintro ⟨t, ht⟩; exact ⟨t, ht.symm⟩

/-- `FindAndDelete` of a whole instruction drops exactly the instructions equal to it and keeps the undecodable tail -/
theorem findAndDeleteAux_secs (sub : Bytes) (hsub : IsInstr sub) : ∀ (f : Nat) (rest : Bytes), rest.length ≤ f →
    Consensus.findAndDeleteAux sub (f + 1) rest = ((secs f rest).filter (fun x => x ≠ sub)).flatten ++ tl f rest := by
  have hnp : sub.isPrefixOf [] = false := by
    cases hs : sub with
    | nil => exact absurd hs hsub.1
    | cons a as => rfl
  intro f
  induction f with
  | zero =>
    intro rest h
    have : rest = [] := List.eq_nil_of_length_eq_zero (by omega)
    subst this
    simp [Consensus.findAndDeleteAux, secs, tl, getScriptOp_nil, hnp]
  | succ f ih =>
    intro rest hf
    unfold Consensus.findAndDeleteAux
    by_cases hp : sub.isPrefixOf rest = true
    · obtain ⟨t, ht⟩ := isPrefixOf_iff'.mp hp
      obtain ⟨op', d', hg'⟩ := hsub.2 t
      rw [← ht] at hg'
      have hpos : 0 < sub.length := List.length_pos_iff.mpr hsub.1
      have htl : t.length ≤ f := by
        have := congrArg List.length ht
        simp only [List.length_append] at this; omega
      have hsec : rest.take sub.length = sub := by rw [ht, List.take_left' rfl]
      have hdrop : rest.drop sub.length = t := by rw [ht, List.drop_left' rfl]
      simp only [hp, if_true, hdrop, ih t htl, secs, tl, hg', hsec, List.filter_cons, ne_eq, not_true_eq_false, decide_false,
        Bool.false_eq_true, if_false]
    · simp only [hp, Bool.false_eq_true, if_false]
      cases hg : getScriptOp rest with
      | none => simp [secs, tl, hg]
      | some r =>
        obtain ⟨op, d, rest', sz⟩ := r
        obtain ⟨hr, hpos, hle⟩ := getScriptOp_rest _ _ _ _ _ hg
        have hsec : rest.take sz ≠ sub := by
          intro hh
          apply hp
          exact isPrefixOf_iff'.mpr ⟨rest', by rw [← hh, hr, List.take_append_drop]⟩
        have hl' : rest'.length ≤ f := by rw [hr, List.length_drop]; omega
        simp only [ih rest' hl', secs, tl, hg, List.filter_cons, ne_eq, hsec, not_false_eq_true, decide_true, if_true,
          List.flatten_cons, List.append_assoc]

theorem findAndDelete_secs (code sub : Bytes) (hsub : IsInstr sub) :
    Consensus.findAndDelete code sub =
      ((secs code.length code).filter (fun x => x ≠ sub)).flatten ++ tl code.length code := by
  unfold Consensus.findAndDelete
  have : sub.isEmpty = false := by
    cases hs : sub with
    | nil => exact absurd hs hsub.1
    | cons a as => rfl
  simp only [this, Bool.false_eq_true, if_false]
  exact findAndDeleteAux_secs sub hsub code.length code (Nat.le_refl _)

/-! ### pycoin's `delete_subscript` as the same section filter -/

theorem u8_ofNat_mod256 (n : Nat) : UInt8.ofNat (n % 256) = UInt8.ofNat n := by
  apply UInt8.toNat_inj.mp
  simp [UInt8.toNat_ofNat']

theorem deleteSubscript_secs (script sub : Bytes) : ∀ (fuel pc : Nat), pc ≤ script.length → script.length - pc ≤ fuel →
    deleteSubscript script sub fuel pc =
      .ok (((secs fuel (script.drop pc)).filter (fun x => x ≠ sub)).flatten ++ tl fuel (script.drop pc)) := by
  intro fuel
  induction fuel with
  | zero =>
    intro pc hpc hf
    have : script.drop pc = [] := List.drop_eq_nil_iff.mpr (by omega)
    simp [deleteSubscript, secs, tl, this]
  | succ f ih =>
    intro pc hpc hf
    by_cases hlt : pc < script.length
    swap
    · have : script.drop pc = [] := List.drop_eq_nil_iff.mpr (by omega)
      simp [deleteSubscript, hlt, secs, tl, this, getScriptOp_nil]
    cases hg : getScriptOp (script.drop pc) with
    | none =>
      have hr := getOp_refines script pc false hlt
      unfold GetOpRefines at hr
      rw [hg] at hr
      obtain ⟨fd, hfd, hok, _⟩ := hr
      simp [deleteSubscript, hlt, hfd, hok, secs, tl, hg, bind, Except.bind, pure, Except.pure]
    | some r =>
      obtain ⟨op, d, rest', sz⟩ := r
      obtain ⟨hrest, hpos, hle⟩ := getScriptOp_rest _ _ _ _ _ hg
      have hlen : (script.drop pc).length = script.length - pc := List.length_drop
      have hdrop : rest' = script.drop (pc + sz) := by rw [hrest, List.drop_drop]
      obtain ⟨dd, hgo⟩ := getOp_false script pc hlt op d rest' sz hg
      have hsl : slice script pc (pc + sz) = (script.drop pc).take sz := by
        unfold slice; rw [show pc + sz - pc = sz by omega]
      simp only [deleteSubscript, hlt, if_true, hgo, bind, Except.bind, Bool.not_true, Bool.false_eq_true, if_false,
        ih (pc + sz) (by omega) (by omega), pure, Except.pure, secs, tl, hg, hsl, hdrop, List.filter_cons]
      by_cases hs : (script.drop pc).take sz = sub <;> simp [hs]

theorem sizedEncoder_none : ∀ n, 76 ≤ n → sizedEncoder.find? (·.1 = n) = none := by
  have h : sizedEncoder.all (fun e => decide (e.1 ≤ 75)) = true := by decide +kernel
  intro n hn
  apply List.find?_eq_none.mpr
  intro e he
  have := List.all_eq_true.mp h e he
  simp only [decide_eq_true_eq] at this ⊢
  omega

/-- the byte string `_delete_signature` looks for is `CScript() << sig` (for items a script can hold) -/
theorem modelSub_eq (sig : Bytes) (hl : sig.length ≤ 520) :
    ∃ sub0, compilePushData sig = .ok sub0 ∧ (if sig.length = 1 then 1 :: sig else sub0) = pushData sig := by
  rcases sig with _ | ⟨x, _ | ⟨y, r⟩⟩
  · exact ⟨[0], by decide, by decide⟩
  · have hp : pushData [x] = [1, x] := by simp [pushData, OP_PUSHDATA1]
    have hc : ∃ sub0, compilePushData [x] = .ok sub0 := by
      unfold compilePushData
      cases constEncoder.find? (·.1 = [x]) with
      | some e => exact ⟨_, rfl⟩
      | none =>
        simp only [List.length_cons, List.length_nil, sizedEncoder_find 1 (by omega) (by omega)]
        exact ⟨_, rfl⟩
    obtain ⟨sub0, h0⟩ := hc
    exact ⟨sub0, h0, by simp [hp]⟩
  · set d := x :: y :: r with hd
    have hlen2 : 2 ≤ d.length := by simp [hd]
    have hne1 : ¬ d.length = 1 := by omega
    by_cases h75 : d.length ≤ 75
    · exact ⟨_, compilePushData_direct d hlen2 h75, by simp [hne1]⟩
    have hc : constEncoder.find? (·.1 = d) = none := by
      apply List.find?_eq_none.mpr
      intro e he
      have := constEncoder_short e he
      intro heq
      simp only [decide_eq_true_eq] at heq
      rw [heq] at this; omega
    have hs := sizedEncoder_none d.length (by omega)
    by_cases h255 : d.length ≤ 255
    · refine ⟨UInt8.ofNat 76 :: leBytes d.length 1 ++ d, ?_, ?_⟩
      · unfold compilePushData
        simp only [hc, hs]
        have : variableEncoder.find? (fun e => decide (d.length ≤ e.1)) = some (255, 76, 1) := by
          simp [variableEncoder, h255]
        simp only [this]
      · have h1 : ¬ d.length < 76 := by omega
        simp only [hne1, if_false, pushData, h1, h255, if_true, OP_PUSHDATA1, leBytes, u8_ofNat_mod256]
        rfl
    · refine ⟨UInt8.ofNat 77 :: leBytes d.length 2 ++ d, ?_, ?_⟩
      · unfold compilePushData
        simp only [hc, hs]
        have : variableEncoder.find? (fun e => decide (d.length ≤ e.1)) = some (65535, 77, 2) := by
          have a : ¬ d.length ≤ 255 := h255
          have b : d.length ≤ 65535 := by omega
          simp [variableEncoder, a, b]
        simp only [this]
      · have h1 : ¬ d.length < 76 := by omega
        have h2 : d.length ≤ 0xffff := by omega
        simp only [hne1, if_false, pushData, h1, h255, h2, if_true, OP_PUSHDATA1, OP_PUSHDATA2]
        rfl

theorem pushData_isInstr (d : Bytes) (hl : d.length ≤ 520) : IsInstr (pushData d) := by
  have hne : pushData d ≠ [] := by unfold pushData; simp only []; split_ifs <;> simp
  refine ⟨hne, fun t => ?_⟩
  by_cases h75 : d.length < 76
  · have hp : pushData d = UInt8.ofNat d.length :: d := by simp [pushData, OP_PUSHDATA1, h75]
    have hb : (UInt8.ofNat d.length).toNat = d.length := by rw [UInt8.toNat_ofNat']; omega
    rw [hp, List.cons_append, spec_direct _ _ (by rw [hb]; exact h75)]
    simp only [hb, List.length_append, List.length_cons]
    have : d.length ≤ d.length + t.length := by omega
    simp only [this, if_true, List.take_left' rfl, List.drop_left' rfl]
    exact ⟨_, _, by rw [show 1 + 0 + d.length = d.length + 1 by omega]⟩
  · by_cases h255 : d.length ≤ 255
    · have hp : pushData d = UInt8.ofNat 76 :: UInt8.ofNat d.length :: d := by
        simp [pushData, OP_PUSHDATA1, h75, h255]
      have hb : (UInt8.ofNat d.length).toNat = d.length := by rw [UInt8.toNat_ofNat']; omega
      rw [hp, List.cons_append, List.cons_append,
        spec_var (UInt8.ofNat 76) _ 1 (Or.inl ⟨by decide, rfl⟩) (by simp)]
      simp only [List.take_succ_cons, List.take_zero, leNat, hb, List.drop_succ_cons, List.drop_zero, Nat.mul_zero,
        Nat.add_zero, List.length_append, List.length_cons]
      have : d.length ≤ d.length + t.length := by omega
      simp only [this, if_true, List.take_left' rfl, List.drop_left' rfl]
      exact ⟨_, _, by rw [show 1 + 1 + d.length = d.length + 1 + 1 by omega]⟩
    · have hp : pushData d = UInt8.ofNat 77 :: (leBytes d.length 2 ++ d) := by
        have : d.length ≤ 0xffff := by omega
        simp [pushData, OP_PUSHDATA1, OP_PUSHDATA2, h75, h255, this]
      have hle : leNat (leBytes d.length 2) = d.length := leNat_leBytes_of_lt (by norm_num; omega)
      rw [hp, List.cons_append, List.append_assoc,
        spec_var (UInt8.ofNat 77) _ 2 (Or.inr (Or.inl ⟨by decide, rfl⟩)) (by simp)]
      have ht : (leBytes d.length 2 ++ (d ++ t)).take 2 = leBytes d.length 2 := List.take_left' (by simp)
      have hdr : (leBytes d.length 2 ++ (d ++ t)).drop 2 = d ++ t := List.drop_left' (by simp)
      simp only [ht, hdr, hle, List.length_append, List.length_cons, leBytes_length]
      have : d.length ≤ d.length + t.length := by omega
      simp only [this, if_true, List.take_left' rfl, List.drop_left' rfl]
      exact ⟨_, _, by rw [show 1 + 2 + d.length = 2 + d.length + 1 by omega]⟩

/-- `_delete_signature(script, sig)` drops exactly the instructions equal to `CScript() << sig`, keeps the undecodable tail -/
theorem deleteSignature_secs (code sig : Bytes) (hl : sig.length ≤ 520) :
    deleteSignature code sig =
      .ok (((secs code.length code).filter (fun x => x ≠ pushData sig)).flatten ++ tl code.length code) := by
  obtain ⟨sub0, h0, hsub⟩ := modelSub_eq sig hl
  unfold deleteSignature
  simp only [h0, bind, Except.bind, hsub]
  have := deleteSubscript_secs code (pushData sig) code.length 0 (Nat.zero_le _) (by omega)
  simpa using this

/-- what is left of the instruction list after removing the pushes of `subs` -/
def keepNot (subs : List Bytes) (L : List Bytes) : List Bytes :=
  L.filter (fun x => subs.all (fun s => decide (x ≠ pushData s)))

theorem keepNot_cons (s : Bytes) (ss : List Bytes) (L : List Bytes) :
    keepNot (s :: ss) L = keepNot ss (L.filter (fun x => x ≠ pushData s)) := by
  unfold keepNot
  rw [List.filter_filter]
  congr 1
  funext x
  simp only [List.all_cons, Bool.and_comm]

theorem filter_instr (L : List Bytes) (p : Bytes → Bool) (h : ∀ s ∈ L, IsInstr s) : ∀ s ∈ L.filter p, IsInstr s :=
  fun s hs => h s (List.mem_filter.mp hs).1

/-- the walk of a script rebuilt from some of its own instructions and its undecodable tail -/
theorem secs_rebuild (code : Bytes) (p : Bytes → Bool) :
    let code1 := ((secs code.length code).filter p).flatten ++ tl code.length code
    secs code1.length code1 = (secs code.length code).filter p ∧ tl code1.length code1 = tl code.length code :=
  secs_of_instrs _ (tl_none _ _ (Nat.le_refl _)) _ (filter_instr _ p (secs_isInstr code.length code)) _ (Nat.le_refl _)

theorem deleteSignatures_secs : ∀ (l : List Bytes) (code : Bytes), (∀ s ∈ l, s.length ≤ 520) →
    deleteSignatures code l = .ok ((keepNot l (secs code.length code)).flatten ++ tl code.length code) := by
  intro l
  induction l with
  | nil =>
    intro code _
    have hf : ∀ L : List Bytes, L.filter (fun _ => true) = L := fun L => by simp
    simp only [deleteSignatures, keepNot, List.all_nil, hf, secs_tl_flatten]
  | cons s ss ih =>
    intro code hl
    simp only [deleteSignatures, deleteSignature_secs code s (hl s (by simp)), bind, Except.bind]
    obtain ⟨h1, h2⟩ := secs_rebuild code (fun x => x ≠ pushData s)
    rw [ih _ (fun x hx => hl x (by simp [hx])), h1, h2, keepNot_cons]

theorem foldl_findAndDelete_secs : ∀ (l : List Bytes) (code : Bytes), (∀ s ∈ l, s.length ≤ 520) →
    l.foldl (fun c s => Consensus.findAndDelete c (pushData s)) code =
      (keepNot l (secs code.length code)).flatten ++ tl code.length code := by
  intro l
  induction l with
  | nil =>
    intro code _
    have hf : ∀ L : List Bytes, L.filter (fun _ => true) = L := fun L => by simp
    simp only [List.foldl_nil, keepNot, List.all_nil, hf, secs_tl_flatten]
  | cons s ss ih =>
    intro code hl
    simp only [List.foldl_cons]
    rw [findAndDelete_secs code _ (pushData_isInstr s (hl s (by simp)))]
    obtain ⟨h1, h2⟩ := secs_rebuild code (fun x => x ≠ pushData s)
    rw [ih _ (fun x hx => hl x (by simp [hx])), h1, h2, keepNot_cons]

theorem keepNot_reverse (l L : List Bytes) : keepNot l.reverse L = keepNot l L := by
  unfold keepNot
  congr 1
  funext x
  rw [List.all_reverse]

/-- **signature deletion agrees** on every script code: pycoin's `_delete_signature` walk, bottom-most signature first,
and Core's `FindAndDelete`, top-most first, give the same bytes (signatures of at most 520 bytes) -/
theorem delAgrees_all (cfg : Config) (st : Consensus.State) (sigs : List Bytes) (hl : ∀ s ∈ sigs, s.length ≤ 520) :
    DelAgrees cfg st sigs := by
  unfold DelAgrees pyCode scriptCodeFor
  cases hwit : cfg.witness
  · have hsv : ((specEnv cfg).sigversion == SigVersion.base) = true := by simp [specEnv, hwit]
    simp only [Bool.false_eq_true, if_false, hsv, if_true]
    rw [deleteSignatures_secs _ _ (fun s hs => hl s (by simpa using hs)), keepNot_reverse]
    exact congrArg Except.ok (foldl_findAndDelete_secs sigs _ hl).symm
  · have hsv : ((specEnv cfg).sigversion == SigVersion.base) = false := by simp [specEnv, hwit]
    simp only [hsv, if_true, Bool.false_eq_true, if_false, pure, Except.pure]
    rfl

theorem delAgrees_walkable (cfg : Config) (st : Consensus.State) (sigs : List Bytes)
    (_hw : Walkable (cfg.script.drop st.codeSep)) (hl : ∀ s ∈ sigs, s.length ≤ 520) : DelAgrees cfg st sigs :=
  delAgrees_all cfg st sigs hl

end Pycoin.VM
