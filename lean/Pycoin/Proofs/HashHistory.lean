import Pycoin.Proofs.Ripemd160
import Pycoin.Model.HashHistory
/-!
C19 — histories: run with the implementation models, every digest answer in any history on reused buffers equals
the standard digest of the buffer's contents at that step.  (Immediate from the per-call theorems, because the
model keeps no state between calls — which is exactly what the correspondence check tests against the code.)
-/
namespace Pycoin.HashHistory
open Pycoin.Hash

/-- a byte string (`bytes` or `bytearray`) the code can length-encode -/
def GoodBuf (b : Buf) : Prop := b.kind ≠ .memoryview ∧ b.data.length < 2 ^ 61

def GoodStep : Step → Prop
  | .new _ k d => k ≠ .memoryview ∧ d.length < 2 ^ 61
  | .set _ d => d.length < 2 ^ 61
  | _ => True

def GoodState (st : State) : Prop := ∀ p ∈ st.env, GoodBuf p.2

theorem mem_of_lookup {α} : ∀ (l : List (Nat × α)) (i : Nat) (b : α), l.lookup i = some b → (i, b) ∈ l
  | [], _, _, h => by simp at h
  | (j, c) :: l, i, b, h => by
    simp only [List.lookup_cons] at h
    by_cases e : i = j
    · subst e; simp at h; subst h; simp
    · have : (i == j) = false := by simpa using e
      rw [this] at h
      exact List.mem_cons_of_mem _ (mem_of_lookup l i b h)

theorem getBuf_good {st : State} (hs : GoodState st) {i : Nat} {b : Buf} (h : getBuf st i = .ok b) : GoodBuf b := by
  unfold getBuf at h
  cases e : st.env.lookup i with
  | none => rw [e] at h; cases h
  | some c =>
    rw [e] at h
    injection h with h
    subst h
    exact hs _ (mem_of_lookup _ _ _ e)

theorem sha256_len (m : Bytes) : (sha256 m).length = 32 := by simp [sha256, u32be]

theorem fns_agree (impl : HashPy.Impl) (b : Buf) (hb : GoodBuf b) :
    (implFns impl).rmd b = specFns.rmd b ∧ (implFns impl).h160 b = specFns.h160 b ∧
    (implFns impl).contrib b = specFns.contrib b := by
  obtain ⟨hk, hl⟩ := hb
  refine ⟨?_, ?_, ?_⟩
  · simp only [implFns, specFns, hk, and_false, if_false]
    cases impl
    · rfl
    · rfl
    · exact Ripemd160Py.ripemd160_py_eq_spec _ hl
  · simp only [implFns, specFns]
    cases impl
    · rfl
    · rfl
    · exact Ripemd160Py.ripemd160_py_eq_spec _ (by rw [sha256_len]; decide)
  · simp only [implFns, specFns, hk, if_false]
    exact Ripemd160Py.ripemd160_py_eq_spec _ hl

theorem step_agree (impl : HashPy.Impl) (st : State) (hs : GoodState st) (s : Step) (hg : GoodStep s) :
    step (implFns impl) st s = step specFns st s ∧ GoodState (step specFns st s).1 := by
  cases s with
  | new i k d =>
    refine ⟨rfl, ?_⟩
    intro p hp
    simp only [step, List.mem_cons] at hp
    rcases hp with rfl | hp
    · exact hg
    · exact hs p hp
  | set i d =>
    refine ⟨rfl, ?_⟩
    simp only [step]
    cases e : getBuf st i with
    | error _ => exact hs
    | ok b =>
      intro p hp
      simp only [List.mem_cons] at hp
      rcases hp with rfl | hp
      · exact ⟨(getBuf_good hs e).1, hg⟩
      · exact hs p hp
  | rmd i =>
    refine ⟨?_, hs⟩
    simp only [step]
    cases e : getBuf st i with
    | error _ => rfl
    | ok b => simp only [Ripemd160Py.ok_bind, (fns_agree impl b (getBuf_good hs e)).1]
  | h160 i =>
    refine ⟨?_, hs⟩
    simp only [step]
    cases e : getBuf st i with
    | error _ => rfl
    | ok b => simp only [Ripemd160Py.ok_bind, (fns_agree impl b (getBuf_good hs e)).2.1]
  | contrib i =>
    refine ⟨?_, hs⟩
    simp only [step]
    cases e : getBuf st i with
    | error _ => rfl
    | ok b => simp only [Ripemd160Py.ok_bind, (fns_agree impl b (getBuf_good hs e)).2.2]
  | dsha i => exact ⟨rfl, hs⟩
  | murmur i seed => exact ⟨rfl, hs⟩
  | bnew size nh tweak =>
    refine ⟨rfl, ?_⟩
    simp only [step]
    cases Bloom.new size nh tweak <;> exact hs
  | badd i =>
    refine ⟨rfl, ?_⟩
    simp only [step]
    split <;> exact hs
  | bfilter => exact ⟨rfl, hs⟩
  | bcontains i => exact ⟨rfl, hs⟩

theorem exec_agree (impl : HashPy.Impl) : ∀ (steps : List Step) (st : State), GoodState st → (∀ s ∈ steps, GoodStep s) →
    exec (implFns impl) st steps = exec specFns st steps
  | [], _, _, _ => rfl
  | s :: rest, st, hs, hg => by
    obtain ⟨h1, h2⟩ := step_agree impl st hs s (hg s (by simp))
    simp only [exec, h1]
    rw [exec_agree impl rest _ h2 (fun t ht => hg t (by simp [ht]))]

end Pycoin.HashHistory
