import Mathlib.Tactic.SplitIfs
import Pycoin.Proofs.VMPushOnly
import Pycoin.Proofs.VMItems
/-!
Scripts with an undecodable instruction (`Walkable` fails): evaluation fails on both sides — Core's loop stops at the
instruction with BAD_OPCODE, and pycoin's `eval_instruction` raises BAD_OPCODE there too, whatever happened before
(proved without any assumption on signature deletion: the CHECKSIG-family handlers only touch the data stack and raise
the op count, `Frame`).
-/
namespace Pycoin.VM
open Pycoin.Spec Pycoin.Gen.VM CondStack Consensus

/-- every instruction of the script decodes (`GetScriptOp` succeeds up to the end) -/
inductive Walkable : Bytes → Prop
  | nil : Walkable []
  | cons {rest rest' d : Bytes} {op sz : Nat} : getScriptOp rest = some (op, d, rest', sz) → Walkable rest' → Walkable rest

theorem walkable_of_walk : ∀ (fuel : Nat) (rest : Bytes), (walkOps fuel rest).isSome = true → Walkable rest := by
  intro fuel
  induction fuel with
  | zero =>
    intro rest h
    cases rest with
    | nil => exact .nil
    | cons b t => simp [walkOps] at h
  | succ f ih =>
    intro rest h
    cases rest with
    | nil => exact .nil
    | cons b t =>
      simp only [walkOps, List.isEmpty_cons, Bool.false_eq_true, if_false] at h
      cases hg : getScriptOp (b :: t) with
      | none => rw [hg] at h; cases h
      | some r =>
        obtain ⟨op, d, rest', sz⟩ := r
        rw [hg] at h
        simp only at h
        cases hw : walkOps f rest' with
        | none => rw [hw] at h; cases h
        | some l => exact .cons hg (ih rest' (by rw [hw]; rfl))

theorem walk_of_walkable (rest : Bytes) (h : Walkable rest) : ∀ fuel, rest.length ≤ fuel → (walkOps fuel rest).isSome = true := by
  induction h with
  | nil => intro fuel _; cases fuel <;> rfl
  | @cons rest rest' d op sz hg hw ih =>
    intro fuel hf
    obtain ⟨hr, hpos, hle⟩ := getScriptOp_rest _ _ _ _ _ hg
    have hne : rest.isEmpty = false := by cases rest <;> simp_all [getScriptOp]
    have hl' : rest'.length = rest.length - sz := by rw [hr, List.length_drop]
    cases fuel with
    | zero => cases rest <;> simp_all
    | succ f =>
      simp only [walkOps, hne, Bool.false_eq_true, if_false, hg]
      have := ih f (by omega)
      cases hw' : walkOps f rest' with
      | none => rw [hw'] at this; cases this
      | some l => rfl

theorem walkable_step {rest rest' d : Bytes} {op sz : Nat} (hg : getScriptOp rest = some (op, d, rest', sz))
    (h : Walkable rest) : Walkable rest' := by
  cases h with
  | nil => simp [getScriptOp] at hg
  | cons hg' hw => rw [hg] at hg'; cases hg'; exact hw

/-! ### what the CHECKSIG-family handlers leave alone -/

/-- `s'` differs from `s` in the data stack only, and in an op count that did not go down -/
def Frame (s s' : State) : Prop :=
  s'.pc = s.pc ∧ s'.cond = s.cond ∧ s'.altstack = s.altstack ∧ s'.beginCodeHash = s.beginCodeHash ∧ s.opCount ≤ s'.opCount

theorem Frame.refl (s : State) : Frame s s := ⟨rfl, rfl, rfl, rfl, Int.le_refl _⟩

theorem Frame.trans {a b c : State} (h1 : Frame a b) (h2 : Frame b c) : Frame a c := by
  obtain ⟨a1, a2, a3, a4, a5⟩ := h1
  obtain ⟨b1, b2, b3, b4, b5⟩ := h2
  exact ⟨b1.trans a1, b2.trans a2, b3.trans a3, b4.trans a4, Int.le_trans a5 b5⟩

theorem push_frame (x : Bytes) (s : State) : Frame s (push x s) := ⟨rfl, rfl, rfl, rfl, Int.le_refl _⟩

theorem pop_frame (s s' : State) (x : Bytes) (h : pop s = .ok (x, s')) : Frame s s' := by
  unfold pop at h
  cases hs : s.stack with
  | nil => rw [hs] at h; cases h
  | cons a r =>
    rw [hs] at h
    simp only [Except.ok.injEq, Prod.mk.injEq] at h
    obtain ⟨_, rfl⟩ := h
    exact ⟨rfl, rfl, rfl, rfl, Int.le_refl _⟩

theorem popN_frame : ∀ (k : Nat) (s s' : State) (xs : List Bytes), popN k s = .ok (xs, s') → Frame s s' := by
  intro k
  induction k with
  | zero => intro s s' xs h; simp only [popN, Except.ok.injEq, Prod.mk.injEq] at h; obtain ⟨_, rfl⟩ := h; exact Frame.refl _
  | succ k ih =>
    intro s s' xs h
    simp only [popN, bind, Except.bind] at h
    cases hp : pop s with
    | error e => rw [hp] at h; cases h
    | ok p =>
      obtain ⟨x, s1⟩ := p
      rw [hp] at h
      simp only at h
      cases hq : popN k s1 with
      | error e => rw [hq] at h; cases h
      | ok q =>
        obtain ⟨ys, s2⟩ := q
        rw [hq] at h
        simp only [pure, Except.pure, Except.ok.injEq, Prod.mk.injEq] at h
        obtain ⟨_, rfl⟩ := h
        exact (pop_frame _ _ _ hp).trans (ih _ _ _ hq)

theorem popInt_frame (flags : Nat) (s s' : State) (v : Int) (k : Nat) (h : popInt flags s k = .ok (v, s')) : Frame s s' := by
  simp only [popInt, bind, Except.bind] at h
  cases hpk : peek 1 s with
  | error e => rw [hpk] at h; cases h
  | ok top =>
    rw [hpk] at h
    simp only at h
    split_ifs at h
    cases hp : pop s with
    | error e => rw [hp] at h; cases h
    | ok p =>
      obtain ⟨x, s1⟩ := p
      rw [hp] at h
      simp only at h
      cases hi : intFromScriptBytes x (hasFlag flags VERIFY_MINIMALDATA) with
      | error e => rw [hi] at h; cases h
      | ok n =>
        rw [hi] at h
        simp only [pure, Except.pure, Except.ok.injEq, Prod.mk.injEq] at h
        obtain ⟨_, rfl⟩ := h
        exact pop_frame _ _ _ hp

theorem checksigs_frame (env : Env) (cfg : Config) (sigs pubs : List Bytes) (s s' : State)
    (h : checksigs env cfg sigs pubs s = .ok s') : Frame s s' := by
  simp only [checksigs, bind, Except.bind] at h
  cases hl : checksigsLoop env cfg
      (if cfg.witness = true then pure (List.drop s.beginCodeHash cfg.script)
        else deleteSignatures (List.drop s.beginCodeHash cfg.script) sigs.reverse) sigs pubs with
  | error e => rw [hl] at h; cases h
  | ok b =>
    rw [hl] at h
    simp only at h
    cases b
    · simp only [Bool.false_eq_true, if_false] at h
      split_ifs at h
      simp only [pure, Except.pure, Except.ok.injEq] at h
      subst h
      exact push_frame _ _
    · simp only [if_true, pure, Except.pure, Except.ok.injEq] at h
      subst h
      exact push_frame _ _

theorem verifyTop_frame (code : Nat) (s s' : State) (h : verifyTop code s = .ok s') : Frame s s' := by
  simp only [verifyTop, bind, Except.bind] at h
  cases hp : pop s with
  | error e => rw [hp] at h; cases h
  | ok p =>
    obtain ⟨x, s1⟩ := p
    rw [hp] at h
    simp only at h
    cases hb : boolFromScriptBytes x with
    | error e => rw [hb] at h; cases h
    | ok b =>
      rw [hb] at h
      simp only at h
      split_ifs at h
      simp only [pure, Except.pure, Except.ok.injEq] at h
      subst h
      exact pop_frame _ _ _ hp

theorem do_CHECKSIG_frame (env : Env) (cfg : Config) (s s' : State) (h : do_CHECKSIG env cfg s = .ok s') : Frame s s' := by
  simp only [do_CHECKSIG, bind, Except.bind] at h
  cases h1 : pop s with
  | error e => rw [h1] at h; cases h
  | ok p1 =>
    obtain ⟨pk, s1⟩ := p1
    rw [h1] at h
    simp only at h
    cases h2 : pop s1 with
    | error e => rw [h2] at h; cases h
    | ok p2 =>
      obtain ⟨sg, s2⟩ := p2
      rw [h2] at h
      simp only at h
      exact ((pop_frame _ _ _ h1).trans (pop_frame _ _ _ h2)).trans (checksigs_frame _ _ _ _ _ _ h)

theorem do_CHECKMULTISIG_frame (env : Env) (cfg : Config) (s s' : State) (h : do_CHECKMULTISIG env cfg s = .ok s') :
    Frame s s' := by
  simp only [do_CHECKMULTISIG, bind, Except.bind] at h
  cases h1 : popInt cfg.flags s with
  | error e => rw [h1] at h; cases h
  | ok p1 =>
    obtain ⟨kc, s1⟩ := p1
    rw [h1] at h
    simp only at h
    split_ifs at h with hr
    cases h2 : popN kc.toNat s1 with
    | error e => rw [h2] at h; cases h
    | ok p2 =>
      obtain ⟨pubs, s2⟩ := p2
      rw [h2] at h
      simp only at h
      cases h3 : popInt cfg.flags s2 with
      | error e => rw [h3] at h; cases h
      | ok p3 =>
        obtain ⟨sc, s3⟩ := p3
        rw [h3] at h
        simp only at h
        split_ifs at h
        cases h4 : popN sc.toNat s3 with
        | error e => rw [h4] at h; cases h
        | ok p4 =>
          obtain ⟨sigs, s4⟩ := p4
          rw [h4] at h
          simp only at h
          cases h5 : pop s4 with
          | error e => rw [h5] at h; cases h
          | ok p5 =>
            obtain ⟨hb, s5⟩ := p5
            rw [h5] at h
            simp only at h
            split_ifs at h
            cases h6 : checksigs env cfg sigs pubs s5 with
            | error e => rw [h6] at h; cases h
            | ok s6 =>
              rw [h6] at h
              simp only [pure, Except.pure, Except.ok.injEq] at h
              subst h
              have hkc : 0 ≤ kc := by
                have : ¬ (kc < 0 ∨ kc > 20) := by simpa using hr
                omega
              have f := ((((popInt_frame _ _ _ _ _ h1).trans (popN_frame _ _ _ _ h2)).trans (popInt_frame _ _ _ _ _ h3)).trans
                (popN_frame _ _ _ _ h4)).trans ((pop_frame _ _ _ h5).trans (checksigs_frame _ _ _ _ _ _ h6))
              obtain ⟨a1, a2, a3, a4, a5⟩ := f
              exact ⟨a1, a2, a3, a4, by simp only; omega⟩

theorem sigHandler_frame (env : Env) (cfg : Config) (h : Handler) (s s' : State)
    (hh : h = .sig_CHECKSIG ∨ h = .sig_CHECKSIGVERIFY ∨ h = .sig_CHECKMULTISIG ∨ h = .sig_CHECKMULTISIGVERIFY)
    (hr : runHandler env cfg h s = .ok s') : Frame s s' := by
  rcases hh with rfl | rfl | rfl | rfl
  · exact do_CHECKSIG_frame env cfg s s' hr
  · simp only [runHandler, do_CHECKSIGVERIFY, bind, Except.bind] at hr
    cases h1 : do_CHECKSIG env cfg s with
    | error e => rw [h1] at hr; cases hr
    | ok s1 => rw [h1] at hr; exact (do_CHECKSIG_frame env cfg s s1 h1).trans (verifyTop_frame _ _ _ hr)
  · exact do_CHECKMULTISIG_frame env cfg s s' hr
  · simp only [runHandler, do_CHECKMULTISIGVERIFY, bind, Except.bind] at hr
    cases h1 : do_CHECKMULTISIG env cfg s with
    | error e => rw [h1] at hr; cases hr
    | ok s1 => rw [h1] at hr; exact (do_CHECKMULTISIG_frame env cfg s s1 h1).trans (verifyTop_frame _ _ _ hr)

variable (chk : Bytes → Bytes → Bytes → Bool → Bool) (cfg : Config)

theorem absS_of_frame (st : Consensus.State) (pcN : Nat) (s3 : State) (hf : Frame (absS st pcN) s3) :
    s3 = absS ⟨s3.stack, st.alt, st.vfExec, s3.opCount.toNat, st.codeSep⟩ pcN := by
  obtain ⟨a1, a2, a3, a4, a5⟩ := hf
  rcases s3 with ⟨p, stk, al, c, oc, bc⟩
  simp only [absS] at a1 a2 a3 a4 a5 ⊢
  subst a1; subst a2; subst a3; subst a4
  have : ((oc.toNat : Nat) : Int) = oc := Int.toNat_of_nonneg (by omega)
  simp [this]

/-- a successful `eval_instruction` from a state that represents a Core state ends in a state that represents one,
at the next instruction boundary (needs nothing about signature deletion) -/
theorem instr_lands (hw : hasFlag cfg.flags VERIFY_MINIMALIF = true → cfg.witness = true)
    (st : Consensus.State) (pc : Nat) (hpc : pc < cfg.script.length) (op : Nat) (data rest' : Bytes) (size : Nat)
    (hg : getScriptOp (cfg.script.drop pc) = some (op, data, rest', size)) (s' : State)
    (h : evalInstruction (stdEnv chk) cfg (absS st pc) = .ok s') : ∃ st', s' = absS st' (pc + size) := by
  by_cases hs : 0xac ≤ op ∧ op ≤ 0xaf
  · -- CHECKSIG family: by what the handlers leave alone
    have hr := getOp_refines cfg.script pc (hasFlag cfg.flags VERIFY_MINIMALDATA && (absS st pc).cond.allIfTrue) hpc
    unfold GetOpRefines at hr
    rw [hg] at hr
    have e1 : ¬ op ≤ OP_PUSHDATA4 := by simp only [OP_PUSHDATA4]; omega
    have e2 : ¬ (op = OP_1NEGATE ∨ (OP_1 ≤ op ∧ op ≤ OP_16)) := by simp only [OP_1NEGATE, OP_1, OP_16]; omega
    simp only [e1, e2, if_false] at hr
    obtain ⟨t1, t2, t3, t4⟩ := sig_table
    have hcase : op = 0xac ∨ op = 0xad ∨ op = 0xae ∨ op = 0xaf := by omega
    obtain ⟨hd, htab, hhd⟩ : ∃ hd, lookupList[op]? = some (hd, false) ∧
        (hd = .sig_CHECKSIG ∨ hd = .sig_CHECKSIGVERIFY ∨ hd = .sig_CHECKMULTISIG ∨ hd = .sig_CHECKMULTISIGVERIFY) := by
      rcases hcase with rfl | rfl | rfl | rfl
      · exact ⟨_, t1, Or.inl rfl⟩
      · exact ⟨_, t2, Or.inr (Or.inl rfl)⟩
      · exact ⟨_, t3, Or.inr (Or.inr (Or.inl rfl))⟩
      · exact ⟨_, t4, Or.inr (Or.inr (Or.inr rfl))⟩
    rw [evalInstr_op (stdEnv chk) cfg (absS st pc) op (pc + size) hd false hr htab, absS_bump] at h
    simp only [Bool.or_false] at h
    cases hx : (absS st pc).cond.allIfTrue
    · rw [hx] at h
      simp only [Bool.false_eq_true, if_false, Except.bind] at h
      split_ifs at h
      cases h
      exact ⟨_, rfl⟩
    · rw [hx] at h
      simp only [if_true] at h
      cases hrh : runHandler (stdEnv chk) cfg hd (absS { st with nOpCount := st.nOpCount + 1 } (pc + size)) with
      | error e => rw [hrh] at h; cases h
      | ok s3 =>
        rw [hrh] at h
        simp only [Except.bind] at h
        split_ifs at h
        cases h
        have hf := sigHandler_frame (stdEnv chk) cfg hd _ _ hhd hrh
        exact ⟨_, absS_of_frame _ _ _ hf⟩
  · have hi := instr_eq chk cfg st pc hpc hw
    rw [hg] at hi
    simp only at hi
    have hag := hi hs
    unfold Agree at hag
    rw [h] at hag
    cases hsp : specStep chk cfg st op data (pc + size) with
    | error e => rw [hsp] at hag; simp [Except.toOption] at hag
    | ok st' =>
      rw [hsp] at hag
      simp only [Except.toOption, Option.map, Option.some.injEq] at hag
      exact ⟨st', hag⟩

/-- on a script with an undecodable instruction ahead, pycoin's loop fails whatever the handlers do (decode failure is an
error even in dead branches) -/
theorem evalLoop_unwalkable (hw : hasFlag cfg.flags VERIFY_MINIMALIF = true → cfg.witness = true) :
    ∀ (fuel : Nat) (st : Consensus.State) (pc : Nat), pc ≤ cfg.script.length → ¬ Walkable (cfg.script.drop pc) →
      (evalLoop (stdEnv chk) cfg fuel (absS st pc)).toOption = none := by
  intro fuel
  induction fuel with
  | zero =>
    intro st pc hpc hnw
    have hlt : pc < cfg.script.length := by
      rcases Nat.lt_or_ge pc cfg.script.length with h | h
      · exact h
      · exfalso; apply hnw
        have : cfg.script.drop pc = [] := List.drop_eq_nil_iff.mpr h
        rw [this]; exact .nil
    have : (absS st pc).pc < cfg.script.length := hlt
    simp [evalLoop, this, Except.toOption]
  | succ f ih =>
    intro st pc hpc hnw
    have hlt : pc < cfg.script.length := by
      rcases Nat.lt_or_ge pc cfg.script.length with h | h
      · exact h
      · exfalso; apply hnw
        have : cfg.script.drop pc = [] := List.drop_eq_nil_iff.mpr h
        rw [this]; exact .nil
    have hps : (absS st pc).pc < cfg.script.length := hlt
    simp only [evalLoop, hps, if_true, bind, Except.bind]
    cases hi : evalInstruction (stdEnv chk) cfg (absS st pc) with
    | error e => rfl
    | ok s' =>
      simp only []
      cases hg : getScriptOp (cfg.script.drop pc) with
      | none =>
        -- an undecodable instruction is an error
        have h0 := instr_eq chk cfg st pc hlt hw
        rw [hg] at h0
        simp only at h0
        rw [hi] at h0
        simp [Except.toOption] at h0
      | some r =>
        obtain ⟨op, data, rest', size⟩ := r
        obtain ⟨st', rfl⟩ := instr_lands chk cfg hw st pc hlt op data rest' size hg s' hi
        obtain ⟨hrest, hpos, hle⟩ := getScriptOp_rest _ _ _ _ _ hg
        have hlen : (cfg.script.drop pc).length = cfg.script.length - pc := List.length_drop
        have hdrop : rest' = cfg.script.drop (pc + size) := by rw [hrest, List.drop_drop]
        apply ih st' (pc + size) (by omega)
        intro hw'
        apply hnw
        rw [← hdrop] at hw'
        exact .cons hg hw'

theorem evalScript_unwalkable (hw : hasFlag cfg.flags VERIFY_MINIMALIF = true → cfg.witness = true)
    (hnw : ¬ Walkable cfg.script) (stack : List Bytes) :
    (evalScript (stdEnv chk) cfg stack).toOption = none ∧
      (Consensus.evalScript (specChk chk) stack cfg.script (Flags.ofBits cfg.flags)
        ⟨cfg.ctx.version, cfg.ctx.lockTime, cfg.ctx.sequence⟩ (if cfg.witness then .witnessV0 else .base)).toOption = none := by
  constructor
  · unfold evalScript
    by_cases hsz : cfg.script.length > Gen.VM.MAX_SCRIPT_LENGTH
    · simp [hsz, bind, Except.bind, Except.toOption]
    · simp only [hsz, if_false, bind, Except.bind, pure, Except.pure]
      have h0 : (absS { stack := stack } 0 : State) = { stack := stack } := by simp [absS, absC]
      have := evalLoop_unwalkable chk cfg hw cfg.script.length { stack := stack } 0 (Nat.zero_le _) (by simpa using hnw)
      rw [h0] at this
      obtain ⟨e, he⟩ := (toOption_none_iff _).mp this
      simp [he, Except.toOption]
  · rw [specEval_def]
    split_ifs
    · rfl
    · cases hs : specLoop chk cfg cfg.script.length cfg.script 0 { stack := stack } with
      | error e => rfl
      | ok st' =>
        exfalso
        exact hnw (walkable_of_walk _ _ (walk_of_loop chk cfg _ _ _ _ _ hs))
end Pycoin.VM
