import Pycoin.Proofs.SignPass2
/-!
C05 — sequences of signing passes over one m-of-n input.

* sets: `passSet` adds keys until `m` have signed (`pass_card`), all of them when they fit (`pass_all`); for a sequence of
  lookups `runSets` reaches `min m |union|` signatures (`runSets_card`) and, when the union fits, exactly the union
  (`runSets_all`) — so completeness never depends on the order of the passes, and neither does the result while at most `m`
  distinct listed keys are supplied (`runSets_perm_card`, `runSets_perm_eq`);
* the model: `solveBase … (.multisig m keys)` run on the rendering of a state returns the rendering of the next state
  (`solveBase_multisig_pass`), hence so does any sequence of passes (`runPasses_state`).
-/
namespace Pycoin.Sign
open Pycoin Pycoin.Curve

/-- how many listed keys have signed -/
def card (n : Nat) (sgn : Nat → Bool) : Nat := (signedList n sgn).length

theorem card_eq_countP (n : Nat) (sgn : Nat → Bool) : card n sgn = (List.range n).countP sgn := by
  simp [card, signedList, List.countP_eq_length_filter]

theorem card_mono {n : Nat} {a b : Nat → Bool} (h : ∀ i, i < n → a i = true → b i = true) : card n a ≤ card n b := by
  rw [card_eq_countP, card_eq_countP]
  exact List.countP_mono_left (fun x hx => h x (List.mem_range.mp hx))

theorem signedList_congr {n : Nat} {a b : Nat → Bool} (h : ∀ i, i < n → a i = b i) : signedList n a = signedList n b :=
  List.filter_congr (fun x hx => h x (List.mem_range.mp hx))

theorem card_congr {n : Nat} {a b : Nat → Bool} (h : ∀ i, i < n → a i = b i) : card n a = card n b := by
  unfold card; rw [signedList_congr h]

/-- the candidates of a pass: keys the lookup holds that have not signed, last index first -/
def cands (n : Nat) (sgn inT : Nat → Bool) : List Nat := (List.range n).reverse.filter (fun i => !sgn i && inT i)

theorem picks_eq (n m : Nat) (sgn inT : Nat → Bool) : picks n m sgn inT = (cands n sgn inT).take (m - card n sgn) := rfl

theorem countP_or (a b : Nat → Bool) (l : List Nat) :
    l.countP (fun i => a i || b i) = l.countP a + l.countP (fun i => !a i && b i) := by
  induction l with
  | nil => rfl
  | cons x r ih =>
    simp only [List.countP_cons, ih]
    cases a x <;> cases b x <;> simp <;> omega

theorem cands_length (n : Nat) (sgn inT : Nat → Bool) :
    (cands n sgn inT).length = (List.range n).countP (fun i => !sgn i && inT i) := by
  unfold cands
  rw [List.filter_reverse, List.length_reverse, List.countP_eq_length_filter]

theorem card_union (n : Nat) (sgn inT : Nat → Bool) :
    card n (fun i => sgn i || inT i) = card n sgn + (cands n sgn inT).length := by
  rw [card_eq_countP, card_eq_countP, cands_length, countP_or]

/-- the new state as a list: what was there, then what the pass added -/
theorem passSet_perm (n m : Nat) (sgn inT : Nat → Bool) :
    (signedList n sgn ++ picks n m sgn inT).Perm (signedList n (passSet n m sgn inT)) := by
  have hnd : (signedList n sgn ++ picks n m sgn inT).Nodup := by
    rw [List.nodup_append]
    refine ⟨signedList_nodup _ _, picks_nodup _ _ _ _, ?_⟩
    intro a ha b hb hab
    subst hab
    have h1 := (mem_signedList.mp ha).2
    have h2 := (mem_picks hb).2.1
    rw [h1] at h2; cases h2
  apply (List.perm_ext_iff_of_nodup hnd (signedList_nodup _ _)).mpr
  intro i
  rw [List.mem_append, mem_signedList, mem_signedList]
  simp only [passSet, Bool.or_eq_true, List.contains_iff_mem]
  constructor
  · rintro (⟨h1, h2⟩ | h)
    · exact ⟨h1, Or.inl h2⟩
    · exact ⟨(mem_picks h).1, Or.inr h⟩
  · rintro ⟨h1, h2 | h2⟩
    · exact Or.inl ⟨h1, h2⟩
    · exact Or.inr h2

/-- **a pass adds signatures until `m` are there** -/
theorem pass_card (n m : Nat) (sgn inT : Nat → Bool) :
    card n (passSet n m sgn inT) = card n sgn + min (m - card n sgn) (cands n sgn inT).length := by
  have := (passSet_perm n m sgn inT).length_eq
  rw [List.length_append, picks_eq, List.length_take] at this
  unfold card at *
  omega

theorem pass_card_le (n m : Nat) (sgn inT : Nat → Bool) (h : card n sgn ≤ m) : card n (passSet n m sgn inT) ≤ m := by
  rw [pass_card]; omega

theorem pass_superset (n m : Nat) (sgn inT : Nat → Bool) (i : Nat) (h : sgn i = true) : passSet n m sgn inT i = true := by
  simp [passSet, h]

/-- **when everything the lookup holds fits, all of it signs** -/
theorem pass_all (n m : Nat) (sgn inT : Nat → Bool) (h : card n (fun i => sgn i || inT i) ≤ m) (i : Nat) (hi : i < n) :
    passSet n m sgn inT i = (sgn i || inT i) := by
  rw [card_union] at h
  have hp : picks n m sgn inT = cands n sgn inT := by
    rw [picks_eq]; exact List.take_of_length_le (by omega)
  unfold passSet
  rw [hp]
  have hc : (cands n sgn inT).contains i = (!sgn i && inT i) := by
    rw [Bool.eq_iff_iff, List.contains_iff_mem]
    simp [cands, hi]
  rw [hc]
  cases sgn i <;> cases inT i <;> rfl

/-- the state after a sequence of passes -/
def runSets (n m : Nat) : List (Nat → Bool) → (Nat → Bool) → (Nat → Bool)
  | [], s => s
  | T :: Ts, s => runSets n m Ts (passSet n m s T)

/-- the keys signed at the start together with every key some pass's lookup holds -/
def unionSets (Ts : List (Nat → Bool)) (s : Nat → Bool) : Nat → Bool := fun i => s i || Ts.any (fun T => T i)

theorem unionSets_cons (T : Nat → Bool) (Ts : List (Nat → Bool)) (s : Nat → Bool) (i : Nat) :
    unionSets (T :: Ts) s i = unionSets Ts (fun j => s j || T j) i := by
  simp [unionSets, Bool.or_assoc]

theorem runSets_card_le (n m : Nat) : ∀ (Ts : List (Nat → Bool)) (s : Nat → Bool), card n s ≤ m → card n (runSets n m Ts s) ≤ m
  | [], _, h => h
  | T :: Ts, s, h => runSets_card_le n m Ts _ (pass_card_le n m s T h)

/-- signatures never disappear -/
theorem runSets_superset (n m : Nat) : ∀ (Ts : List (Nat → Bool)) (s : Nat → Bool) (i : Nat), s i = true →
    runSets n m Ts s i = true
  | [], _, _, h => h
  | T :: Ts, s, i, h => runSets_superset n m Ts _ i (pass_superset n m s T i h)

/-- **exactly when `m` distinct listed keys have been supplied**: after any sequence of passes the number of signatures is
`min m (number of distinct listed keys supplied so far)` -/
theorem runSets_card (n m : Nat) : ∀ (Ts : List (Nat → Bool)) (s : Nat → Bool), card n s ≤ m →
    card n (runSets n m Ts s) = min m (card n (unionSets Ts s))
  | [], s, h => by
    have : card n (unionSets [] s) = card n s := card_congr (fun i _ => by simp [unionSets])
    rw [this]; simp only [runSets]; omega
  | T :: Ts, s, h => by
    have ih := runSets_card n m Ts (passSet n m s T) (pass_card_le n m s T h)
    simp only [runSets]
    rw [ih]
    have hcons : card n (unionSets (T :: Ts) s) = card n (unionSets Ts (fun j => s j || T j)) :=
      card_congr (fun i _ => unionSets_cons T Ts s i)
    rw [hcons]
    by_cases hfit : card n (fun i => s i || T i) ≤ m
    · have : card n (unionSets Ts (passSet n m s T)) = card n (unionSets Ts (fun j => s j || T j)) :=
        card_congr (fun i hi => by simp only [unionSets]; rw [pass_all n m s T hfit i hi])
      rw [this]
    · have h1 : card n (passSet n m s T) = m := by
        rw [pass_card]; rw [card_union] at hfit; omega
      have h2 : card n (passSet n m s T) ≤ card n (unionSets Ts (passSet n m s T)) :=
        card_mono (fun i _ hi => by simp [unionSets, hi])
      have h3 : card n (fun i => s i || T i) ≤ card n (unionSets Ts (fun j => s j || T j)) :=
        card_mono (fun i _ hi => by simp only [unionSets]; rw [hi]; rfl)
      omega

/-- while at most `m` distinct listed keys are supplied, exactly those sign -/
theorem runSets_all (n m : Nat) : ∀ (Ts : List (Nat → Bool)) (s : Nat → Bool), card n (unionSets Ts s) ≤ m →
    ∀ i, i < n → runSets n m Ts s i = unionSets Ts s i
  | [], s, _, i, _ => by simp [runSets, unionSets]
  | T :: Ts, s, h, i, hi => by
    have hcons : card n (unionSets (T :: Ts) s) = card n (unionSets Ts (fun j => s j || T j)) :=
      card_congr (fun i _ => unionSets_cons T Ts s i)
    have hfit : card n (fun i => s i || T i) ≤ m := by
      have : card n (fun i => s i || T i) ≤ card n (unionSets Ts (fun j => s j || T j)) :=
        card_mono (fun i _ hi => by simp only [unionSets]; rw [hi]; rfl)
      omega
    have heq : card n (unionSets Ts (passSet n m s T)) = card n (unionSets Ts (fun j => s j || T j)) :=
      card_congr (fun i hi => by simp only [unionSets]; rw [pass_all n m s T hfit i hi])
    simp only [runSets]
    rw [runSets_all n m Ts (passSet n m s T) (by omega) i hi, unionSets_cons]
    simp only [unionSets]
    rw [pass_all n m s T hfit i hi]

theorem unionSets_perm {Ts₁ Ts₂ : List (Nat → Bool)} (h : Ts₁.Perm Ts₂) (s : Nat → Bool) (i : Nat) :
    unionSets Ts₁ s i = unionSets Ts₂ s i := by
  simp only [unionSets]
  rw [h.any_eq]

/-- **completeness does not depend on the order of the passes** -/
theorem runSets_perm_card (n m : Nat) {Ts₁ Ts₂ : List (Nat → Bool)} (h : Ts₁.Perm Ts₂) (s : Nat → Bool) (hs : card n s ≤ m) :
    card n (runSets n m Ts₁ s) = card n (runSets n m Ts₂ s) := by
  rw [runSets_card n m Ts₁ s hs, runSets_card n m Ts₂ s hs, card_congr (fun i _ => unionSets_perm h s i)]

/-- **nor does the result, while at most `m` distinct listed keys are supplied** -/
theorem runSets_perm_eq (n m : Nat) {Ts₁ Ts₂ : List (Nat → Bool)} (h : Ts₁.Perm Ts₂) (s : Nat → Bool)
    (hfit : card n (unionSets Ts₁ s) ≤ m) : signedList n (runSets n m Ts₁ s) = signedList n (runSets n m Ts₂ s) := by
  apply signedList_congr
  intro i hi
  have hfit2 : card n (unionSets Ts₂ s) ≤ m := by
    rw [← card_congr (fun i _ => unionSets_perm h s i)]; exact hfit
  rw [runSets_all n m Ts₁ s hfit i hi, runSets_all n m Ts₂ s hfit2 i hi, unionSets_perm h]

/-! ## the model on renderings of states -/

variable {C : Crypto} {dig : Digest} {ht : Nat} {z : Int} {sg : Nat → Bytes}

/-- the values of the signature variables in state `sgn`: `m − |sgn|` placeholders, then the signatures by key index -/
def stateItems (n m : Nat) (sg : Nat → Bytes) (ph : Bytes) (sgn : Nat → Bool) : List (Option Bytes) :=
  List.replicate (m - card n sgn) (some ph) ++ (signedList n sgn).map (fun i => some (sg i))

/-- the blobs the next pass sees: the dummy, the signature slots bottom first, then whatever follows (redeem / witness script) -/
def stateSlots (n m : Nat) (ph : Bytes) (sgn : Nat → Bool) (extra : List Bytes) : List Slot :=
  Slot.junk [] :: (((signedList n sgn).reverse.map Slot.sig ++ List.replicate (m - card n sgn) (Slot.dud ph)) ++
    extra.map Slot.junk)

theorem stateSlots_render (n m : Nat) (ph : Bytes) (sgn : Nat → Bool) (extra : List Bytes) :
    (stateSlots n m ph sgn extra).map (·.render sg) =
      ((some ([] : Bytes) :: (stateItems n m sg ph sgn).reverse).filterMap id) ++ extra := by
  have e1 : ((fun x => Slot.render sg x) ∘ Slot.sig) = sg := rfl
  have e2 : ((fun x => Slot.render sg x) ∘ Slot.junk) = id := rfl
  have e3 : Slot.render sg (Slot.junk []) = [] := rfl
  have e4 : Slot.render sg (Slot.dud ph) = ph := rfl
  simp [stateSlots, stateItems, List.filterMap_append, List.filterMap_map, e1, e2, e3, e4, List.map_reverse]

theorem stateSlots_idxs (n m : Nat) (ph : Bytes) (sgn : Nat → Bool) (extra : List Bytes) :
    slotIdxs (stateSlots n m ph sgn extra) = (signedList n sgn).reverse := by
  unfold slotIdxs stateSlots
  rw [idx_junk, List.filterMap_append, List.filterMap_append]
  have h1 : ((signedList n sgn).reverse.map Slot.sig).filterMap (·.idx) = (signedList n sgn).reverse := by
    rw [List.filterMap_map]
    have : ((fun x : Slot => x.idx) ∘ Slot.sig) = some := rfl
    rw [this, List.filterMap_some]
  have h2 : (List.replicate (m - card n sgn) (Slot.dud ph)).filterMap (·.idx) = [] := by
    rw [List.filterMap_eq_nil_iff]; intro a ha; rw [(List.mem_replicate.mp ha).2]; rfl
  have h3 : (extra.map Slot.junk).filterMap (·.idx) = [] := by
    rw [List.filterMap_eq_nil_iff]; intro a ha
    obtain ⟨b, _, rfl⟩ := List.mem_map.mp ha; rfl
  rw [h1, h2, h3]; simp

theorem stateSlots_counts (n m : Nat) (ph : Bytes) (sgn : Nat → Bool) (extra : List Bytes) (h : card n sgn ≤ m) :
    ((stateSlots n m ph sgn extra).filter (·.counts)).length ≤ m := by
  unfold stateSlots
  rw [counts_junk, List.filter_append, List.filter_append]
  have h3 : (extra.map Slot.junk).filter (·.counts) = [] := by
    rw [List.filter_eq_nil_iff]; intro a ha
    obtain ⟨b, _, rfl⟩ := List.mem_map.mp ha; simp [Slot.counts]
  rw [h3, List.append_nil, List.length_append]
  have a1 := List.length_filter_le (fun x : Slot => x.counts) ((signedList n sgn).reverse.map Slot.sig)
  have a2 := List.length_filter_le (fun x : Slot => x.counts) (List.replicate (m - card n sgn) (Slot.dud ph))
  simp only [List.length_map, List.length_reverse, List.length_replicate] at a1 a2
  unfold card at *
  omega

theorem stateSlots_ok (K : List Bytes) (m : Nat) (ph : Bytes) (sgn : Nat → Bool) (extra : List Bytes)
    (hph : Slot.ok C dig K (.dud ph)) (hextra : ∀ b ∈ extra, parseSignatureBlob b = none) :
    ∀ s ∈ stateSlots K.length m ph sgn extra, s.ok C dig K := by
  intro s hs
  unfold stateSlots at hs
  rcases List.mem_cons.mp hs with h | h
  · subst h; show parseSignatureBlob [] = none; rfl
  · rcases List.mem_append.mp h with h | h
    · rcases List.mem_append.mp h with h | h
      · obtain ⟨i, hi, rfl⟩ := List.mem_map.mp h
        exact (mem_signedList.mp (List.mem_reverse.mp hi)).1
      · rw [(List.mem_replicate.mp h).2]; exact hph
    · obtain ⟨b, hb, rfl⟩ := List.mem_map.mp h
      exact hextra b hb

/-- **One model pass over a multisig input in state `sgn`.**  `solveBase` run on the blobs of the state returns the dummy and the
signature variables of the next state `passSet … sgn (keys the lookup holds)`. -/
theorem solveBase_multisig_pass (keys : List Bytes) (F : KeyFacts C dig ht z keys.reverse sg) (lookup : Lookup) (m : Nat)
    (ph : Bytes) (sgn : Nat → Bool) (extra : List Bytes)
    (hph : Slot.ok C dig keys.reverse (.dud ph)) (hextra : ∀ b ∈ extra, parseSignatureBlob b = none)
    (hc : card keys.reverse.length sgn ≤ m)
    (hh : LookupHonest C lookup ht z sg (enumFrom 0 keys.reverse).reverse) :
    solveBase C lookup dig ((stateSlots keys.reverse.length m ph sgn extra).map (·.render sg)) ht (some ph) (.multisig m keys) =
      .ok (some [] :: (stateItems keys.reverse.length m sg ph
        (passSet keys.reverse.length m sgn (inTOf lookup keys.reverse))).reverse) := by
  simp only [solveBase]
  rw [signingSolver_pass F lookup m _ ph sgn (stateSlots_ok keys.reverse m ph sgn extra hph hextra)
    (stateSlots_counts _ m ph sgn extra hc)
    (by rw [stateSlots_idxs]; exact (List.reverse_perm _).nodup_iff.mpr (signedList_nodup _ _))
    (by intro i; rw [stateSlots_idxs, List.mem_reverse, mem_signedList]) hh]
  rfl

/-- the same from a fresh input (no script, no witness) -/
theorem solveBase_multisig_fresh (keys : List Bytes) (hz : dig ht = some z) (lookup : Lookup) (m : Nat)
    (ph : Bytes) (hh : LookupHonest C lookup ht z sg (enumFrom 0 keys.reverse).reverse) :
    solveBase C lookup dig [] ht (some ph) (.multisig m keys) =
      .ok (some [] :: (stateItems keys.reverse.length m sg ph
        (passSet keys.reverse.length m (fun _ => false) (inTOf lookup keys.reverse))).reverse) := by
  simp only [solveBase]
  rw [signingSolver_fresh lookup hz m ph hh]
  rfl

/-- what one pass leaves for the next to read: the data of the solution, then `extra` -/
def passExisting (C : Crypto) (dig : Digest) (ht : Nat) (ph : Bytes) (m : Nat) (keys : List Bytes) (extra : List Bytes)
    (lookup : Lookup) (existing : List Bytes) : Except Err (List Bytes) :=
  match solveBase C lookup dig existing ht (some ph) (.multisig m keys) with
  | .error e => .error e
  | .ok items => .ok (items.filterMap id ++ extra)

/-- a sequence of passes, each reading what the one before left -/
def runPasses (C : Crypto) (dig : Digest) (ht : Nat) (ph : Bytes) (m : Nat) (keys : List Bytes) (extra : List Bytes) :
    List Lookup → List Bytes → Except Err (List Bytes)
  | [], ex => .ok ex
  | l :: ls, ex =>
    match passExisting C dig ht ph m keys extra l ex with
    | .error e => .error e
    | .ok ex' => runPasses C dig ht ph m keys extra ls ex'

/-- **Any sequence of passes, on the model.**  Starting from the blobs of state `sgn`, passes with lookups `ls` leave the blobs of
the state `runSets … (keys held by each lookup) sgn`. -/
theorem runPasses_state (keys : List Bytes) (F : KeyFacts C dig ht z keys.reverse sg) (m : Nat) (ph : Bytes) (extra : List Bytes)
    (hph : Slot.ok C dig keys.reverse (.dud ph)) (hextra : ∀ b ∈ extra, parseSignatureBlob b = none) :
    ∀ (ls : List Lookup) (sgn : Nat → Bool), card keys.reverse.length sgn ≤ m →
      (∀ l ∈ ls, LookupHonest C l ht z sg (enumFrom 0 keys.reverse).reverse) →
      runPasses C dig ht ph m keys extra ls ((stateSlots keys.reverse.length m ph sgn extra).map (·.render sg)) =
        .ok ((stateSlots keys.reverse.length m ph
          (runSets keys.reverse.length m (ls.map (fun l => inTOf l keys.reverse)) sgn) extra).map (·.render sg))
  | [], sgn, _, _ => rfl
  | l :: ls, sgn, hc, hh => by
    simp only [runPasses, passExisting]
    rw [solveBase_multisig_pass keys F l m ph sgn extra hph hextra hc (hh l (by simp))]
    simp only []
    rw [← stateSlots_render]
    exact runPasses_state keys F m ph extra hph hextra ls _ (pass_card_le _ m sgn _ hc)
      (fun l' hl' => hh l' (List.mem_cons_of_mem _ hl'))

/-- … and from a fresh input, for at least one pass -/
theorem runPasses_fresh (keys : List Bytes) (F : KeyFacts C dig ht z keys.reverse sg) (m : Nat) (ph : Bytes) (extra : List Bytes)
    (hph : Slot.ok C dig keys.reverse (.dud ph)) (hextra : ∀ b ∈ extra, parseSignatureBlob b = none)
    (l : Lookup) (ls : List Lookup)
    (hh : ∀ l' ∈ l :: ls, LookupHonest C l' ht z sg (enumFrom 0 keys.reverse).reverse) :
    runPasses C dig ht ph m keys extra (l :: ls) [] =
      .ok ((stateSlots keys.reverse.length m ph
        (runSets keys.reverse.length m ((l :: ls).map (fun l => inTOf l keys.reverse)) (fun _ => false)) extra).map
          (·.render sg)) := by
  simp only [runPasses, passExisting]
  rw [solveBase_multisig_fresh keys F.hz l m ph (hh l (by simp))]
  simp only []
  rw [← stateSlots_render]
  have hc0 : card keys.reverse.length (fun _ => false) ≤ m := by
    rw [card_eq_countP]; simp
  exact runPasses_state keys F m ph extra hph hextra ls _ (pass_card_le _ m _ _ hc0)
    (fun l' hl' => hh l' (List.mem_cons_of_mem _ hl'))

end Pycoin.Sign
