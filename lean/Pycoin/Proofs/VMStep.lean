import Pycoin.Model.VM.Eval
import Pycoin.Spec.Consensus
import Pycoin.Proofs.VMNum
import Pycoin.Proofs.VMCond
import Pycoin.Proofs.VMGetOp
/-!
One instruction of pycoin's VM against one iteration of Core's `EvalScript` loop.
`absS` maps a Core state (with the `pc` of its loop) to the pycoin state that represents it.
-/
namespace Pycoin.VM
open Pycoin.Spec Pycoin.Gen.VM CondStack

/-- Core's fixed inputs for a pycoin VM configuration -/
def specEnv (cfg : Config) : Consensus.Env :=
  { script := cfg.script, flags := Consensus.Flags.ofBits cfg.flags,
    sigversion := if cfg.witness then .witnessV0 else .base,
    tx := ⟨cfg.ctx.version, cfg.ctx.lockTime, cfg.ctx.sequence⟩ }

/-- the pycoin state representing a Core state at loop position `pc` -/
def absS (st : Consensus.State) (pc : Nat) : State :=
  { pc := pc, stack := st.stack, altstack := st.alt, cond := absC st.vfExec, opCount := st.nOpCount,
    beginCodeHash := st.codeSep }

/-- the model's hash parameters instantiated with the functions the specification uses -/
def stdEnv (chk : Bytes → Bytes → Bytes → Bool → Bool) : Env :=
  { ripemd160 := Hash.ripemd160, sha1 := Hash.sha1, sha256 := Hash.sha256, checkSig := chk }

/-- agreement up to the error code: both fail, or both succeed with corresponding states -/
def Agree (pc' : Nat) (r : M State) (c : Consensus.Res Consensus.State) : Prop :=
  r.toOption = c.toOption.map (absS · pc')

/-! ### flags -/

theorem and_two_pow' (n k : Nat) : n &&& 2 ^ k = if n.testBit k then 2 ^ k else 0 := by
  apply Nat.eq_of_testBit_eq; intro i
  rw [Nat.testBit_and, Nat.testBit_two_pow]
  by_cases h : k = i
  · subst h; cases hb : n.testBit k <;> simp [Nat.testBit_two_pow]
  · cases hb : n.testBit k <;> simp [h, Nat.testBit_two_pow]

theorem hasFlag_pow (n k : Nat) : hasFlag n (2 ^ k) = n.testBit k := by
  unfold hasFlag
  rw [and_two_pow']
  cases n.testBit k <;> simp

theorem flag_minimaldata (n : Nat) : hasFlag n VERIFY_MINIMALDATA = (Consensus.Flags.ofBits n).minimaldata :=
  hasFlag_pow n 6
theorem flag_nops (n : Nat) : hasFlag n VERIFY_DISCOURAGE_UPGRADABLE_NOPS = (Consensus.Flags.ofBits n).discourageUpgradableNops :=
  hasFlag_pow n 7
theorem flag_cltv (n : Nat) : hasFlag n VERIFY_CHECKLOCKTIMEVERIFY = (Consensus.Flags.ofBits n).checklocktimeverify :=
  hasFlag_pow n 9
theorem flag_csv (n : Nat) : hasFlag n VERIFY_CHECKSEQUENCEVERIFY = (Consensus.Flags.ofBits n).checksequenceverify :=
  hasFlag_pow n 10
theorem flag_minimalif (n : Nat) : hasFlag n VERIFY_MINIMALIF = (Consensus.Flags.ofBits n).minimalif :=
  hasFlag_pow n 13

end Pycoin.VM
