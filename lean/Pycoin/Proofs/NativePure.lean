import Pycoin.Proofs.NativeEcdsa
/-!
Non-vacuity of the contract: the executable `pureLib c` (libcrypto played by the pure-Python model) satisfies
`LibCryptoSpec` on every curve all of whose points are killed by the order (`#E(F_p) = n`: secp256k1, secp256r1, toy
curves of prime order).
-/
namespace Pycoin.Native
open Pycoin Pycoin.Curve WeierstrassCurve

variable (c : CurveParams) [Good c]

theorem toInt_pureLib (b : BN) : Ossl.toInt (pureLib c) b = bnVal b := rfl

theorem pureLib_spec (hn0 : c.n ≠ 0) (htors : ∀ P : Pt, OnCurve c P → (c.n : Int) • toPoint c P = 0) :
    LibCryptoSpec c (pureLib c) (fun P => P) where
  mpi := by
    intro buf len v h
    refine ⟨bnOfInt v, ?_, toInt_bnOfInt (pureLib c) rfl v⟩
    show (mpiDecode buf len).map bnOfInt = _
    rw [h]; rfl
  set_ok := by
    intro pt bx by_ x y hx hy x0 x1 y0 y1 hc
    rw [toInt_pureLib] at hx hy
    have : (pureLib c).setAffine pt bx by_ = (true, some (x, y)) := by
      show (if 0 ≤ bnVal bx ∧ bnVal bx < c.p ∧ 0 ≤ bnVal by_ ∧ bnVal by_ < c.p ∧ containsXY c (bnVal bx) (bnVal by_) = true
        then (true, some (bnVal bx, bnVal by_)) else (false, pt)) = _
      rw [hx, hy, if_pos ⟨x0, x1, y0, y1, hc⟩]
    rw [this]; exact ⟨rfl, rfl⟩
  mul_ok := by
    intro res pt be e hne hon hred he e0 en
    rw [toInt_pureLib] at he
    obtain ⟨R, h1, h2, h3⟩ := multiply_refines c pt hon e (fun _ => htors pt hon) (fun h => absurd h hn0)
    have : (pureLib c).ecMul res pt be = (true, reducePt c R) := by
      show (match Curve.multiply c pt (bnVal be) with
        | .ok R => (true, reducePt c R)
        | .error _ => (false, res)) = _
      rw [he, h1]
    rw [this]
    exact ⟨rfl, onCurve_reducePt h2, reduced_reducePt R, by rw [toPoint_reducePt h2, h3]⟩
  get_ok := by
    intro pt bx by_ x y h
    have hpt : pt = some (x, y) := h
    subst hpt
    exact ⟨rfl, toInt_bnOfInt (pureLib c) rfl x, toInt_bnOfInt (pureLib c) rfl y⟩
  get_inf := by
    intro pt bx by_ h
    have hpt : pt = none := h
    subst hpt
    rfl
  inv_ok := by
    intro ba bm a m ha hm h1 hg
    rw [toInt_pureLib] at ha hm
    obtain ⟨r, hr, r1, r2, r3⟩ := inverseMod_spec a m h1 hg
    refine ⟨bnOfInt r, ?_, ?_⟩
    · show (match Curve.inverseMod (bnVal ba) (bnVal bm) with
        | .ok r => some (bnOfInt r)
        | .error _ => none) = _
      rw [ha, hm, hr]
    · rw [toInt_bnOfInt (pureLib c) rfl r]
      exact ⟨by omega, r2, r3⟩
  inv_none := by
    intro ba bm a m ha hm h1 hg
    rw [toInt_pureLib] at ha hm
    show (match Curve.inverseMod (bnVal ba) (bnVal bm) with
      | .ok r => some (bnOfInt r)
      | .error _ => none) = _
    rw [ha, hm, inverseMod_not_coprime a m h1 hg]

/-- the contract is satisfiable -/
theorem pureLib_ok (hn0 : c.n ≠ 0) (htors : ∀ P : Pt, OnCurve c P → (c.n : Int) • toPoint c P = 0) :
    LibCryptoOk (pureLib c) c :=
  ⟨fun P => P, pureLib_spec c hn0 htors⟩

end Pycoin.Native
