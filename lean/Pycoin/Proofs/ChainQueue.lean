import Pycoin.Model.BlockChainApi
import Pycoin.Proofs.ChainFull
/-! the change-callback queue helper `_update_q` fed with the ops of a history (core Lean only) -/
namespace Pycoin.Chain

/-- the queue that holds one "add" per block of the chain `L`, in index order -/
def addsFrom : Nat → List Nat → List Op
  | _, [] => []
  | i, h :: r => .add (some h) (i : Int) :: addsFrom (i + 1) r

def addsOf (L : List Nat) : List Op := addsFrom 0 L

theorem addsFrom_append : ∀ (a b : List Nat) (i : Nat), addsFrom i (a ++ b) = addsFrom i a ++ addsFrom (i + a.length) b
  | [], b, i => by simp [addsFrom]
  | x :: a, b, i => by
      simp only [List.cons_append, addsFrom, List.length_cons, List.cons.injEq, true_and]
      rw [addsFrom_append a b (i + 1)]
      congr 2; omega

theorem addsOf_snoc (L : List Nat) (h : Nat) : addsOf (L ++ [h]) = addsOf L ++ [.add (some h) (L.length : Int)] := by
  simp [addsOf, addsFrom_append, addsFrom]

def Op.isRemove : Op → Bool
  | .remove _ _ => true
  | .add _ _ => false

/-- leading "remove" ops that replay on `L` cancel against the queue of `L` -/
theorem updateQ_removes : ∀ (rops : List Op) (L L1 : List Nat) (rest : List Op),
    (∀ o ∈ rops, o.isRemove = true) → replay rops L = some L1 →
    updateQ (addsOf L) (rops ++ rest) = updateQ (addsOf L1) rest
  | [], L, L1, rest, _, h => by
      simp only [replay, Option.some.injEq] at h; subst h; rfl
  | .add _ _ :: r, _, _, _, hall, _ => by
      have := hall _ (List.mem_cons_self ..)
      simp [Op.isRemove] at this
  | .remove none i :: r, L, L1, rest, _, h => by simp [replay, replayOp] at h
  | .remove (some x) i :: r, L, L1, rest, hall, h => by
      simp only [replay, replayOp] at h
      by_cases hc : L.getLast? = some x ∧ i + 1 = (L.length : Int)
      · simp only [hc, and_self, if_true, Option.bind_some] at h
        obtain ⟨L0, hL⟩ : ∃ L0, L = L0 ++ [x] := by
          rcases List.eq_nil_or_concat L with hn | ⟨L0, y, hy⟩
          · rw [hn] at hc; simp at hc
          · have hy' : L = L0 ++ [y] := by simpa using hy
            rw [hy'] at hc
            simp at hc
            exact ⟨L0, by rw [hy', hc.1]⟩
        subst hL
        have hi : i = (L0.length : Int) := by
          have := hc.2; simp at this; omega
        subst hi
        rw [List.dropLast_concat] at h
        simp only [List.cons_append, updateQ, addsOf_snoc, List.getLast?_append, List.getLast?_singleton,
          Option.some_or, Op.key, ne_eq, not_true_eq_false, if_false, List.dropLast_concat]
        exact updateQ_removes r L0 L1 rest (fun o ho => hall o (List.mem_cons_of_mem _ ho)) h
      · simp [hc] at h

theorem updateQ_adds (q : List Op) : ∀ (aops : List Op), (∀ o ∈ aops, o.isRemove = false) →
    updateQ q aops = .ok (q ++ aops)
  | [], _ => by simp [updateQ]
  | .add _ _ :: r, _ => by simp [updateQ]
  | .remove _ _ :: r, hall => by
      have := hall _ (List.mem_cons_self ..)
      simp [Op.isRemove] at this

theorem replay_adds : ∀ (aops : List Op) (L L' : List Nat), (∀ o ∈ aops, o.isRemove = false) →
    replay aops L = some L' → addsOf L ++ aops = addsOf L'
  | [], L, L', _, h => by simp only [replay, Option.some.injEq] at h; subst h; simp
  | .remove _ _ :: r, _, _, hall, _ => by
      have := hall _ (List.mem_cons_self ..)
      simp [Op.isRemove] at this
  | .add none i :: r, L, L', _, h => by simp [replay, replayOp] at h
  | .add (some x) i :: r, L, L', hall, h => by
      simp only [replay, replayOp] at h
      by_cases hc : i = (L.length : Int)
      · simp only [hc, if_true, Option.bind_some] at h
        have := replay_adds r (L ++ [x]) L' (fun o ho => hall o (List.mem_cons_of_mem _ ho)) h
        rw [← this, addsOf_snoc, hc]; simp
      · simp [hc] at h

/-- **one delivery**: ops that are removes followed by adds and replay from `L` to `L'` turn the queue of `L` into
the queue of `L'`; `q.pop()` never fails -/
theorem updateQ_step (rops aops : List Op) (L L' : List Nat)
    (hr : ∀ o ∈ rops, o.isRemove = true) (ha : ∀ o ∈ aops, o.isRemove = false)
    (h : replay (rops ++ aops) L = some L') : updateQ (addsOf L) (rops ++ aops) = .ok (addsOf L') := by
  rw [replay_append] at h
  cases h1 : replay rops L with
  | none => simp [h1] at h
  | some L1 =>
    simp only [h1, Option.bind_some] at h
    rw [updateQ_removes rops L L1 aops hr h1, updateQ_adds _ aops ha, replay_adds aops L1 L' ha h]

/-- the queue of `L` replays to `L` -/
theorem replay_addsFrom : ∀ (L B : List Nat), replay (addsFrom B.length L) B = some (B ++ L)
  | [], B => by simp [addsFrom, replay]
  | x :: r, B => by
      have := replay_addsFrom r (B ++ [x])
      simp only [List.length_append, List.length_singleton, List.append_assoc, List.singleton_append] at this
      simp [addsFrom, replay, replayOp, this]

theorem replay_addsOf (L : List Nat) : replay (addsOf L) [] = some L := by
  simpa [addsOf] using replay_addsFrom L []

/-! ### the ops of `add_headers` are removes followed by adds -/

theorem removeOps_isRemove (bc : BC) (size : Int) : ∀ (path : List Nat) (idx : Nat) (m m' : Dict Int) (ops : List Op),
    removeOps bc size idx path m = .ok (ops, m') → ∀ o ∈ ops, o.isRemove = true
  | [], _, _, _, _, h => by
      simp only [removeOps, Except.ok.injEq, Prod.mk.injEq] at h
      obtain ⟨rfl, _⟩ := h; simp
  | x :: r, idx, m, m', ops, h => by
      unfold removeOps at h
      split at h
      · obtain ⟨⟨ops1, m1⟩, h1, h⟩ := bind_ok h
        simp only [Except.ok.injEq, Prod.mk.injEq] at h
        obtain ⟨rfl, _⟩ := h
        intro o ho
        rcases List.mem_cons.mp ho with e | ho
        · subst e; rfl
        · exact removeOps_isRemove bc size r (idx + 1) _ m1 ops1 h1 o ho
      · cases h

theorem addOps_isAdd (bc : BC) (size : Int) : ∀ (xs : List (Nat × Nat)) (m : Dict Int),
    ∀ o ∈ (addOps bc size xs m).1, o.isRemove = false
  | [], _ => by simp [addOps]
  | (idx, h) :: r, m => by
      intro o ho
      simp only [addOps] at ho
      rcases List.mem_cons.mp ho with e | ho
      · subst e; rfl
      · exact addOps_isAdd bc size r _ o ho

theorem addHeaders_ops_shape (rev : Bool) (rank : List Nat) (bc bc' : BC) (c : List Nat) (batch : List Header)
    (ops : List Op) (hcur : curChain bc c) (hr : bc.addHeaders rev rank batch = .ok (ops, bc')) :
    ∃ rops aops, ops = rops ++ aops ∧ (∀ o ∈ rops, o.isRemove = true) ∧ (∀ o ∈ aops, o.isRemove = false) := by
  unfold BC.addHeaders at hr
  obtain ⟨⟨old, bc1⟩, h1, hr⟩ := bind_ok hr
  have e1 := h1.symm.trans (longest_of_cur rev bc c hcur)
  simp only [Except.ok.injEq, Prod.mk.injEq] at e1
  obtain ⟨e1a, e1b⟩ := e1
  subst e1b
  try simp only at hr
  obtain ⟨finder', h2, hr⟩ := bind_ok hr
  try simp only at hr
  obtain ⟨⟨new, bc3⟩, h3, hr⟩ := bind_ok hr
  try simp only at hr
  obtain ⟨⟨oldPath, newPath⟩, h4, hr⟩ := bind_ok hr
  try simp only at hr
  unfold BC.emitOps at hr
  obtain ⟨⟨rops, m1⟩, h5, hr⟩ := bind_ok hr
  try simp only at hr
  simp only [Except.ok.injEq, Prod.mk.injEq] at hr
  obtain ⟨rfl, _⟩ := hr
  exact ⟨rops, _, rfl, removeOps_isRemove _ _ _ _ _ _ _ h5, addOps_isAdd _ _ _ _⟩

end Pycoin.Chain
