import Pycoin.Proofs.Murmur3
import Pycoin.Model.Bloom
/-!
C19 — proofs about the model of `pycoin/bloomfilter.py:BloomFilter` (`Model/Bloom.lean`):
`set_bit` sets exactly one BIP37 bit, `add_item` sets exactly the bits of the `hash_function_count`
hash functions (seed `k * 0xFBA4C795 + tweak` mod 2^32), and over any history of adds bits are only
ever added, so every added element still matches.  Core Lean only.
-/
set_option linter.unusedSimpArgs false
namespace Pycoin.Bloom
open Pycoin.Hash Pycoin.Gen.HashTables
open Pycoin.Ripemd160Py (ok_bind pure_eq_ok)
open Pycoin.Murmur3Py (pyGetItem_nat)

/-- the invariant `__init__` establishes: `bit_count = 8 * len(filter_bytes)`, and the filter is not empty -/
def WF (f : Filter) : Prop := f.bitCount = ((8 * f.filterBytes.length : Nat) : Int) ∧ 0 < f.filterBytes.length

/-- everything but the bits is unchanged -/
def Same (f f' : Filter) : Prop :=
  f'.bitCount = f.bitCount ∧ f'.hashFunctionCount = f.hashFunctionCount ∧ f'.tweak = f.tweak ∧
  f'.filterBytes.length = f.filterBytes.length

theorem Same.refl (f : Filter) : Same f f := ⟨rfl, rfl, rfl, rfl⟩
theorem Same.trans {f g h : Filter} (a : Same f g) (b : Same g h) : Same f h :=
  ⟨b.1.trans a.1, b.2.1.trans a.2.1, b.2.2.1.trans a.2.2.1, b.2.2.2.trans a.2.2.2⟩
theorem Same.wf {f g : Filter} (a : Same f g) (h : WF f) : WF g := by
  unfold WF at *; rw [a.1, a.2.2.2]; exact h

theorem mask_tbl : ∀ m : Nat, m < 8 → pyGetItem bloomMaskArray (m : Int) = .ok ((2 ^ m : Nat) : Int) := by decide

theorem pyMod_nat (a m : Nat) (hm : 0 < m) : pyMod (a : Int) (m : Int) = .ok ((a % m : Nat) : Int) := by
  have : ¬ ((m : Int) = 0) := by omega
  simp only [pyMod, this, if_false, pure_eq_ok, Int.ofNat_fmod]

theorem setBit_ok (f : Filter) (hwf : WF f) (p : Nat) (hp : p < 8 * f.filterBytes.length) :
    ∃ f', setBit f (p : Int) = .ok f' ∧ Same f f' ∧
      ∀ i, Bip37.testBit f'.filterBytes i = (Bip37.testBit f.filterBytes i || decide (i = p)) := by
  obtain ⟨hbc, hpos⟩ := hwf
  have hlt : p / 8 < f.filterBytes.length := by omega
  have hget : f.filterBytes[p / 8]? = some (f.filterBytes[p / 8]) := List.getElem?_eq_getElem hlt
  let old := f.filterBytes[p / 8]
  let nb : UInt8 := UInt8.ofNat (old.toNat ||| 2 ^ (p % 8))
  have hm : p % 8 < 8 := Nat.mod_lt _ (by decide)
  have hnb : old.toNat ||| 2 ^ (p % 8) < 2 ^ 8 :=
    Nat.or_lt_two_pow old.toNat_lt (Nat.pow_lt_pow_right (by decide) hm)
  refine ⟨{ f with filterBytes := f.filterBytes.set (p / 8) nb }, ?_, ⟨rfl, rfl, rfl, by simp⟩, ?_⟩
  · have e1 : pyMod (p : Int) f.bitCount = .ok (p : Int) := by
      rw [hbc, pyMod_nat _ _ (by omega), Nat.mod_eq_of_lt hp]
    have e2 : Int.fdiv (p : Int) 8 = ((p / 8 : Nat) : Int) := (Int.ofNat_fdiv p 8).symm
    have e3 : Int.fmod (p : Int) 8 = ((p % 8 : Nat) : Int) := (Int.ofNat_fmod p 8).symm
    have e4 : pyGetItem f.filterBytes ((p / 8 : Nat) : Int) = .ok old := by
      rw [pyGetItem_nat, hget]
    have e5 : pyOr (old.toNat : Int) ((2 ^ (p % 8) : Nat) : Int) = ((old.toNat ||| 2 ^ (p % 8) : Nat) : Int) := rfl
    have c1 : ¬ (((p / 8 : Nat) : Int) < 0) := by omega
    have c2 : ¬ (((p / 8 : Nat) : Int) < 0 ∨ ((p / 8 : Nat) : Int) ≥ (f.filterBytes.length : Int)) := by omega
    have c4 : ¬ (((p / 8 : Nat) : Int) ≥ (f.filterBytes.length : Int)) := by omega
    have c3 : ¬ (((old.toNat ||| 2 ^ (p % 8) : Nat) : Int) < 0 ∨ ((old.toNat ||| 2 ^ (p % 8) : Nat) : Int) ≥ 256) := by omega
    simp only [setBit, indexForBit, e1, e2, e3, mask_tbl _ hm, e4, e5, ok_bind, pure_eq_ok, setByte, c1, c2, c3, c4, false_or, if_false,
      Int.toNat_natCast]
    rfl
  · intro i
    simp only [Bip37.testBit]
    by_cases hi : i / 8 = p / 8
    · rw [hi, List.getElem?_set_self hlt, hget]
      have : nb.toNat = old.toNat ||| 2 ^ (p % 8) := by
        simp only [nb, UInt8.toNat_ofNat']
        exact Nat.mod_eq_of_lt hnb
      simp only [this, Nat.testBit_or, Nat.testBit_two_pow]
      congr 1
      have : (p % 8 = i % 8) ↔ (i = p) := by omega
      simp [this]
    · rw [List.getElem?_set_ne (by omega)]
      have : ¬ (i = p) := by intro h; subst h; exact hi rfl
      simp [this]


theorem seed_lo32 (k : Nat) (tweak : Int) :
    lo32 ((k : Int) * bloomSeedMul + tweak) = Bip37.seed k (lo32 tweak) := by
  rw [lo32_add, lo32_mul, lo32_natCast]; rfl

theorem addStep_ok (item : Bytes) (hlen : item.length < 2 ^ 32) (f : Filter) (hwf : WF f) (k : Nat) :
    ∃ f', addStep item f k = .ok f' ∧ Same f f' ∧
      ∀ i, Bip37.testBit f'.filterBytes i =
        (Bip37.testBit f.filterBytes i || decide (i = Bip37.bitIndex f.filterBytes.length (lo32 f.tweak) item k)) := by
  have hpos : 0 < 8 * f.filterBytes.length := by have := hwf.2; omega
  obtain ⟨f', h1, h2, h3⟩ := setBit_ok f hwf (Bip37.bitIndex f.filterBytes.length (lo32 f.tweak) item k)
    (Nat.mod_lt _ hpos)
  refine ⟨f', ?_, h2, h3⟩
  simp only [addStep, Murmur3Py.murmur3_py_eq_spec item _ hlen, ok_bind, seed_lo32, hwf.1, pyMod_nat _ _ hpos]
  exact h1

/-- the first `m` hash functions -/
theorem addLoop_ok (item : Bytes) (hlen : item.length < 2 ^ 32) (f : Filter) (hwf : WF f) : ∀ m : Nat,
    ∃ f', (List.range m).foldlM (addStep item) f = .ok f' ∧ Same f f' ∧
      ∀ i, Bip37.testBit f'.filterBytes i =
        (Bip37.testBit f.filterBytes i ||
          (List.range m).any fun k => decide (i = Bip37.bitIndex f.filterBytes.length (lo32 f.tweak) item k))
  | 0 => ⟨f, rfl, Same.refl f, by simp⟩
  | m + 1 => by
    obtain ⟨f1, h1, s1, b1⟩ := addLoop_ok item hlen f hwf m
    obtain ⟨f2, h2, s2, b2⟩ := addStep_ok item hlen f1 (s1.wf hwf) m
    refine ⟨f2, ?_, s1.trans s2, ?_⟩
    · rw [List.range_succ, List.foldlM_append, h1, ok_bind]
      simp only [List.foldlM_cons, List.foldlM_nil, h2, ok_bind, pure_eq_ok]
    · intro i
      rw [b2, b1, s1.2.2.2, s1.2.2.1, List.range_succ, List.any_append]
      simp [Bool.or_assoc]

theorem addItem_ok (f : Filter) (hwf : WF f) (item : Bytes) (hlen : item.length < 2 ^ 32) :
    ∃ f', addItem f item = .ok f' ∧ Same f f' ∧
      ∀ i, Bip37.testBit f'.filterBytes i =
        (Bip37.testBit f.filterBytes i ||
          (List.range f.hashFunctionCount.toNat).any fun k =>
            decide (i = Bip37.bitIndex f.filterBytes.length (lo32 f.tweak) item k)) :=
  addLoop_ok item hlen f hwf _

theorem history_ok : ∀ (items : List Bytes) (f : Filter), WF f → (∀ x ∈ items, x.length < 2 ^ 32) →
    ∃ f', items.foldlM addItem f = .ok f' ∧ Same f f' ∧
      (∀ i, Bip37.testBit f.filterBytes i = true → Bip37.testBit f'.filterBytes i = true) ∧
      ∀ x ∈ items, Bip37.contains f'.filterBytes f.hashFunctionCount.toNat (lo32 f.tweak) x = true
  | [], f, _, _ => ⟨f, rfl, Same.refl f, fun _ h => h, by simp⟩
  | x :: rest, f, hwf, hl => by
    obtain ⟨f1, h1, s1, b1⟩ := addItem_ok f hwf x (hl x (by simp))
    obtain ⟨f2, h2, s2, m2, c2⟩ := history_ok rest f1 (s1.wf hwf) (fun y hy => hl y (by simp [hy]))
    refine ⟨f2, ?_, s1.trans s2, ?_, ?_⟩
    · simp only [List.foldlM_cons, h1, ok_bind, h2]
    · intro i hi
      apply m2
      rw [b1, hi]; rfl
    · intro y hy
      rw [s1.2.1, s1.2.2.1] at c2
      rcases List.mem_cons.1 hy with rfl | hy
      · simp only [Bip37.contains, List.all_eq_true, List.mem_range]
        intro k hk
        apply m2
        rw [b1, (s1.trans s2).2.2.2]
        have : ((List.range f.hashFunctionCount.toNat).any fun k' =>
            decide (Bip37.bitIndex f.filterBytes.length (lo32 f.tweak) y k = Bip37.bitIndex f.filterBytes.length (lo32 f.tweak) y k')) = true := by
          rw [List.any_eq_true]
          exact ⟨k, List.mem_range.2 hk, by simp⟩
        rw [this, Bool.or_true]
      · exact c2 y hy

theorem new_ok (size : Nat) (h0 : 0 < size) (h1 : size ≤ 36000) (nh tweak : Int) :
    ∃ f, new (size : Int) nh tweak = .ok f ∧ WF f ∧ f.filterBytes = List.replicate size 0 ∧
      f.hashFunctionCount = nh ∧ f.tweak = tweak := by
  have c1 : ¬ ((size : Int) > bloomMaxSize) := by show ¬ ((size : Int) > 36000); omega
  have c2 : ¬ ((size : Int) < 0) := by omega
  refine ⟨⟨List.replicate size 0, 8 * (size : Int), nh, tweak⟩, ?_, ⟨?_, ?_⟩, rfl, rfl, rfl⟩
  · simp only [new, c1, c2, if_false, pure_eq_ok, Int.toNat_natCast]
  · simp
  · simpa using h0

end Pycoin.Bloom
