import Mathlib.Tactic.SplitIfs
import Pycoin.Proofs.VMVerifyFlags
/-!
`_check_script_push_only` (walks `get_opcode`, ignores decode failures, `data_opcodes` leaves OP_RESERVED out) against
`CScript::IsPushOnly` (every instruction decodes, opcode ≤ OP_16): they agree on every script that `EvalScript` runs to
the end — a script on which they differ (a truncated push, an executed OP_RESERVED) fails its evaluation on both sides.
-/
namespace Pycoin.VM
open Pycoin.Spec Pycoin.Gen.VM CondStack Consensus

/-- the opcodes Core's walk meets, `none` when an instruction does not decode -/
def walkOps : Nat → Bytes → Option (List Nat)
  | 0, rest => if rest.isEmpty then some [] else none
  | f + 1, rest =>
    if rest.isEmpty then some [] else
    match getScriptOp rest with
    | none => none
    | some (op, _, rest', _) => (walkOps f rest').map (op :: ·)

variable (chk : Bytes → Bytes → Bytes → Bool → Bool) (cfg : Config)

theorem walk_of_loop : ∀ (fuel : Nat) (rest : Bytes) (pc : Nat) (st st' : Consensus.State),
    specLoop chk cfg fuel rest pc st = .ok st' → (walkOps fuel rest).isSome = true := by
  intro fuel
  induction fuel with
  | zero =>
    intro rest pc st st' h
    rw [specLoop_zero] at h
    by_cases he : rest.isEmpty = true
    · simp [walkOps, he]
    · simp [he] at h
  | succ f ih =>
    intro rest pc st st' h
    rw [specLoop_succ] at h
    by_cases he : rest.isEmpty = true
    · simp [walkOps, he]
    · simp only [he, Bool.false_eq_true, if_false] at h
      simp only [walkOps, he, Bool.false_eq_true, if_false]
      cases hg : getScriptOp rest with
      | none => rw [hg] at h; cases h
      | some r =>
        obtain ⟨op, data, rest', size⟩ := r
        rw [hg] at h
        simp only at h ⊢
        cases hs : specStep chk cfg st op data (pc + size) with
        | error e => rw [hs] at h; cases h
        | ok st1 =>
          rw [hs] at h
          have := ih rest' (pc + size) st1 st' h
          cases hw : walkOps f rest' with
          | none => rw [hw] at this; cases this
          | some l => rfl

theorem pushOnly_walk : ∀ (fuel : Nat) (rest : Bytes) (ops : List Nat), walkOps fuel rest = some ops →
    isPushOnlyAux fuel rest = ops.all (fun o => decide (o ≤ 0x60)) := by
  intro fuel
  induction fuel with
  | zero =>
    intro rest ops h
    by_cases he : rest.isEmpty = true
    · simp only [walkOps, he, if_true, Option.some.injEq] at h; subst h; simp [isPushOnlyAux, he]
    · simp [walkOps, he] at h
  | succ f ih =>
    intro rest ops h
    by_cases he : rest.isEmpty = true
    · simp only [walkOps, he, if_true, Option.some.injEq] at h; subst h; simp [isPushOnlyAux, he]
    · simp only [walkOps, he, Bool.false_eq_true, if_false] at h
      simp only [isPushOnlyAux, he, Bool.false_eq_true, if_false]
      cases hg : getScriptOp rest with
      | none => rw [hg] at h; cases h
      | some r =>
        obtain ⟨op, data, rest', size⟩ := r
        rw [hg] at h
        simp only at h ⊢
        cases hw : walkOps f rest' with
        | none => rw [hw] at h; cases h
        | some l =>
          rw [hw] at h
          simp only [Option.map_some, Option.some.injEq] at h
          subst h
          rw [ih rest' l hw]
          simp only [List.all_cons, OP_16]
          by_cases ho : op > 0x60
          · have : ¬ op ≤ 0x60 := by omega
            simp [ho, this]
          · have : op ≤ 0x60 := by omega
            simp [ho, this]

theorem getOp_false (script : Bytes) (pc : Nat) (hpc : pc < script.length) (op : Nat) (data rest' : Bytes) (size : Nat)
    (hg : getScriptOp (script.drop pc) = some (op, data, rest', size)) :
    ∃ d, getOpcode script pc false = .ok ⟨op, d, pc + size, true⟩ := by
  have hr := getOp_refines script pc false hpc
  unfold GetOpRefines at hr
  rw [hg] at hr
  simp only [Bool.false_and, Bool.false_eq_true, if_false] at hr
  split_ifs at hr
  · exact ⟨_, hr⟩
  · exact ⟨_, hr⟩
  · exact ⟨_, hr⟩

theorem spans_walk (script : Bytes) : ∀ (fuel pc : Nat) (ops : List Nat), pc ≤ script.length →
    walkOps fuel (script.drop pc) = some ops →
    ∃ spans, opcodeSpans script fuel pc = .ok spans ∧ spans.map (·.1) = ops := by
  intro fuel
  induction fuel with
  | zero =>
    intro pc ops _ h
    by_cases he : (script.drop pc).isEmpty = true
    · simp only [walkOps, he, if_true, Option.some.injEq] at h; subst h
      exact ⟨[], rfl, rfl⟩
    · simp [walkOps, he] at h
  | succ f ih =>
    intro pc ops hpc h
    by_cases hlt : pc < script.length
    swap
    · have he : (script.drop pc).isEmpty = true := by
        have : script.drop pc = [] := List.drop_eq_nil_iff.mpr (by omega)
        rw [this]; rfl
      simp only [walkOps, he, if_true, Option.some.injEq] at h; subst h
      exact ⟨[], by simp [opcodeSpans, hlt], rfl⟩
    have he : (script.drop pc).isEmpty = false := by
      cases hd : script.drop pc with
      | nil => have := List.drop_eq_nil_iff.mp hd; omega
      | cons => rfl
    simp only [walkOps, he, Bool.false_eq_true, if_false] at h
    cases hg : getScriptOp (script.drop pc) with
    | none => rw [hg] at h; cases h
    | some r =>
      obtain ⟨op, data, rest', size⟩ := r
      rw [hg] at h
      simp only at h
      obtain ⟨hrest, hpos, hle⟩ := getScriptOp_rest _ _ _ _ _ hg
      have hlen : (script.drop pc).length = script.length - pc := List.length_drop
      have hdrop : rest' = script.drop (pc + size) := by rw [hrest, List.drop_drop]
      cases hw : walkOps f rest' with
      | none => rw [hw] at h; cases h
      | some l =>
        rw [hw] at h
        simp only [Option.map_some, Option.some.injEq] at h
        subst h
        rw [hdrop] at hw
        obtain ⟨spans, hs1, hs2⟩ := ih (pc + size) l (by omega) hw
        obtain ⟨d, hgo⟩ := getOp_false script pc hlt op data rest' size hg
        refine ⟨(op, pc, pc + size) :: spans, ?_, by simp [hs2]⟩
        simp [opcodeSpans, hlt, hgo, hs1, bind, Except.bind, pure, Except.pure]

theorem dataOpcodes_le : ∀ o, dataOpcodes.contains o = true → o ≤ 0x60 := by
  have h : dataOpcodes.all (fun o => decide (o ≤ 0x60)) = true := by decide +kernel
  intro o ho
  have hm : o ∈ dataOpcodes := by simpa using ho
  have := List.all_eq_true.mp h o hm
  simpa using this

theorem dataOpcodes_ge : ∀ o, o ≤ 0x60 → o ≠ 0x50 → dataOpcodes.contains o = true := by decide +kernel

/-- one iteration on a push opcode (`≤ OP_16`) outside any conditional: OP_RESERVED fails, everything else leaves
`vfExec` empty -/
theorem pushStep (st st1 : Consensus.State) (op : Nat) (data : Bytes) (pcNext : Nat) (hv : st.vfExec = [])
    (hop : op ≤ 0x60) (hd : 0x4e < op → data = []) (h : specStep chk cfg st op data pcNext = .ok st1) :
    op ≠ 0x50 ∧ st1.vfExec = [] := by
  rcases st with ⟨stk, alt, vf, n, cs⟩
  simp only at hv
  subst hv
  by_cases h1 : op ≤ 0x4e
  · rw [specStep_push chk cfg _ op pcNext data h1] at h
    simp only [List.all_nil, if_true] at h
    refine ⟨by omega, ?_⟩
    split_ifs at h <;> simp only [afterC] at h <;> split_ifs at h <;> cases h <;> rfl
  · have h1' : 0x4e < op := by omega
    have hns : ¬ (0xac ≤ op ∧ op ≤ 0xaf) := by omega
    rw [hd h1', specStep_op chk cfg _ op pcNext h1' hns] at h
    have hng : ¬ op > 0x60 := by omega
    have hnd := not_disabled_low op hop
    simp only [hng, if_false, hnd, Bool.false_eq_true, List.all_nil, Bool.true_or, if_true] at h
    by_cases h50 : op = 0x50
    · subst h50
      exfalso
      have hbad := h_bad cfg ⟨stk, alt, [], n, cs⟩ pcNext true 0x50 (Or.inl rfl) (.py "x")
      simp only [Agree, Except.toOption, Option.map] at hbad
      cases hx : execOp (specEnv cfg) ⟨stk, alt, [], n, cs⟩ true 0x50 pcNext with
      | error e => rw [hx] at h; simp only [afterC] at h; split_ifs at h
      | ok v => rw [hx] at hbad; simp at hbad
    · refine ⟨h50, ?_⟩
      have h2 : op = OP_1NEGATE ∨ (OP_1 ≤ op ∧ op ≤ OP_16) := by simp only [OP_1NEGATE, OP_1, OP_16]; omega
      have hexec : execOp (specEnv cfg) ⟨stk, alt, [], n, cs⟩ true op pcNext =
          .ok ⟨scriptNumEncode (Int.ofNat op - Int.ofNat (OP_1 - 1)) :: stk, alt, [], n, cs⟩ := by
        simp [execOp, h2]
      rw [hexec] at h
      simp only [afterC] at h
      split_ifs at h
      cases h
      rfl

theorem getScriptOp_data (rest : Bytes) (op : Nat) (d r : Bytes) (sz : Nat)
    (h : getScriptOp rest = some (op, d, r, sz)) (ho : 0x4e < op) : d = [] := by
  cases rest with
  | nil => simp [getScriptOp] at h
  | cons b tl =>
    have hopb := getScriptOp_op b tl op d r sz h
    rw [spec_other b tl (by rw [← hopb]; exact ho)] at h
    simp only [Option.some.injEq, Prod.mk.injEq] at h
    exact h.2.1.symm

/-- a script Core's loop runs to the end from outside any conditional, whose opcodes are all `≤ OP_16`, has no
OP_RESERVED: pycoin's `data_opcodes` (which leaves OP_RESERVED out) and `IsPushOnly` then say the same -/
theorem no_reserved : ∀ (fuel : Nat) (rest : Bytes) (pc : Nat) (st st' : Consensus.State) (ops : List Nat),
    st.vfExec = [] → specLoop chk cfg fuel rest pc st = .ok st' → walkOps fuel rest = some ops →
    ops.all (fun o => decide (o ≤ 0x60)) = true → ops.all (fun o => dataOpcodes.contains o) = true := by
  intro fuel
  induction fuel with
  | zero =>
    intro rest pc st st' ops _ _ hw _
    by_cases he : rest.isEmpty = true
    · simp only [walkOps, he, if_true, Option.some.injEq] at hw; subst hw; rfl
    · simp [walkOps, he] at hw
  | succ f ih =>
    intro rest pc st st' ops hv h hw hall
    by_cases he : rest.isEmpty = true
    · simp only [walkOps, he, if_true, Option.some.injEq] at hw; subst hw; rfl
    · rw [specLoop_succ] at h
      simp only [he, Bool.false_eq_true, if_false] at h
      simp only [walkOps, he, Bool.false_eq_true, if_false] at hw
      cases hg : getScriptOp rest with
      | none => rw [hg] at h; cases h
      | some r =>
        obtain ⟨op, data, rest', size⟩ := r
        rw [hg] at h hw
        simp only at h hw
        cases hs : specStep chk cfg st op data (pc + size) with
        | error e => rw [hs] at h; cases h
        | ok st1 =>
          rw [hs] at h
          cases hw' : walkOps f rest' with
          | none => rw [hw'] at hw; cases hw
          | some l =>
            rw [hw'] at hw
            simp only [Option.map_some, Option.some.injEq] at hw
            subst hw
            simp only [List.all_cons, Bool.and_eq_true, decide_eq_true_eq] at hall ⊢
            obtain ⟨h50, hv1⟩ := pushStep chk cfg st st1 op data (pc + size) hv hall.1
              (fun ho => getScriptOp_data rest op data rest' size hg ho) hs
            exact ⟨dataOpcodes_ge op hall.1 h50, ih rest' (pc + size) st1 st' l hv1 h hw' hall.2⟩

/-- **SIGPUSHONLY / P2SH push-only test**: for a script that `EvalScript` runs to the end (from an empty
conditional stack), `_check_script_push_only` accepts exactly when `IsPushOnly` does -/
theorem pushonly_agree (stack : List Bytes) (st' : Consensus.State)
    (h : specLoop chk cfg cfg.script.length cfg.script 0 { stack := stack } = .ok st') :
    (checkScriptPushOnly cfg.script = .ok ()) ↔ isPushOnly cfg.script = true := by
  have hw := walk_of_loop chk cfg _ _ _ _ _ h
  cases hwo : walkOps cfg.script.length cfg.script with
  | none => rw [hwo] at hw; cases hw
  | some ops =>
    obtain ⟨spans, hs1, hs2⟩ := spans_walk cfg.script cfg.script.length 0 ops (Nat.zero_le _) (by simpa using hwo)
    have hpo := pushOnly_walk _ _ _ hwo
    unfold isPushOnly
    rw [hpo]
    unfold checkScriptPushOnly
    simp only [hs1, bind, Except.bind]
    have hall : (spans.all fun x => dataOpcodes.contains x.1) = ops.all (fun o => dataOpcodes.contains o) := by
      rw [← hs2, List.all_map]; rfl
    have hall' : (spans.all fun x => match x with | (op, _, _) => dataOpcodes.contains op) =
        ops.all (fun o => dataOpcodes.contains o) := by
      rw [← hall]
    rw [hall']
    constructor
    · intro hok
      have : ops.all (fun o => dataOpcodes.contains o) = true := by
        cases hc : ops.all (fun o => dataOpcodes.contains o) with
        | true => rfl
        | false => rw [hc] at hok; simp at hok
      apply List.all_eq_true.mpr
      intro o ho
      have := List.all_eq_true.mp this o ho
      simpa using dataOpcodes_le o this
    · intro hle
      have := no_reserved chk cfg _ _ _ _ _ ops rfl h hwo hle
      rw [this]
      rfl

/-! ### canonical pushes -/

theorem constEncoder_short : ∀ e ∈ constEncoder, e.1.length ≤ 1 := by decide +kernel

theorem sizedEncoder_find : ∀ n, 1 ≤ n → n ≤ 75 → sizedEncoder.find? (·.1 = n) = some (n, n) := by decide +kernel

/-- `compile_push_data` of 2..75 bytes is the direct push `len ‖ data` = `CScript() << data` -/
theorem compilePushData_direct (d : Bytes) (h2 : 2 ≤ d.length) (h75 : d.length ≤ 75) :
    compilePushData d = .ok (pushData d) := by
  unfold compilePushData pushData
  have hc : constEncoder.find? (·.1 = d) = none := by
    apply List.find?_eq_none.mpr
    intro e he
    have := constEncoder_short e he
    intro heq
    simp only [decide_eq_true_eq] at heq
    rw [heq] at this; omega
  have hlt : d.length < OP_PUSHDATA1 := by simp only [OP_PUSHDATA1]; omega
  simp only [hc, sizedEncoder_find d.length (by omega) h75, hlt, if_true]

end Pycoin.VM
