import Pycoin.Spec.Merkle
import Pycoin.Model.Merkle
/-! Lemmas for C14: tree widths, Core's height loop, `merkle` loop = level lists (core Lean only). -/
namespace Pycoin.Spec.Merkle
open Pycoin.Merkle

theorem treeWidth_eq (n h : Nat) : treeWidth n h = (n + 2 ^ h - 1) / 2 ^ h := by
  simp [treeWidth, Nat.shiftRight_eq_div_pow, Nat.one_shiftLeft]

theorem treeWidth_zero (n : Nat) : treeWidth n 0 = n := by
  simp [treeWidth_eq]

theorem lt_treeWidth (n h pos : Nat) : pos < treeWidth n h ↔ pos * 2 ^ h < n := by
  rw [treeWidth_eq]
  have hA : 0 < 2 ^ h := Nat.pow_pos (by decide)
  rw [Nat.lt_iff_add_one_le, Nat.le_div_iff_mul_le hA, Nat.add_mul]
  omega

theorem eq_of_lt_iff {a b : Nat} (h : ∀ p, p < a ↔ p < b) : a = b := by
  have := h a; have := h b; omega

theorem treeWidth_succ (n h : Nat) : treeWidth n (h + 1) = (treeWidth n h + 1) / 2 := by
  apply eq_of_lt_iff
  intro p
  rw [lt_treeWidth]
  have : p < (treeWidth n h + 1) / 2 ↔ 2 * p < treeWidth n h := by omega
  rw [this, lt_treeWidth, Nat.pow_succ]
  have : p * (2 ^ h * 2) = 2 * p * 2 ^ h := by
    rw [Nat.mul_comm (2^h) 2, ← Nat.mul_assoc, Nat.mul_comm p 2]
  rw [this]

theorem treeWidth_pos {n : Nat} (hn : 0 < n) (h : Nat) : 0 < treeWidth n h := by
  rw [lt_treeWidth]; simpa using hn

/-- fuel `n` is enough for Core's height loop -/
theorem heightLoop_done (n : Nat) : ∀ f k, treeWidth n k ≤ f + 1 → treeWidth n (heightLoop n f k) ≤ 1 := by
  intro f
  induction f with
  | zero => intro k h; simpa [heightLoop] using h
  | succ f ih =>
    intro k h
    unfold heightLoop
    split
    · apply ih; rw [treeWidth_succ]; omega
    · omega

theorem treeWidth_height {n : Nat} (hn : 0 < n) : treeWidth n (height n) = 1 := by
  have h1 := heightLoop_done n n 0 (by rw [treeWidth_zero]; omega)
  have h2 := treeWidth_pos hn (height n)
  unfold height; unfold height at h2; omega

variable (H : Bytes → Bytes)

/-- all nodes at height `k`, left to right -/
def level (leaf : Nat → Bytes) (n k : Nat) : List Bytes := (List.range' 0 (treeWidth n k)).map (calcHash H leaf n k)

theorem merklePair_range' (f : Nat → Bytes) (w : Nat) : ∀ t,
    merklePair H ((List.range' (2 * t) w).map f) =
      (List.range' t ((w + 1) / 2)).map (fun i => H (f (2 * i) ++ (if 2 * i + 1 < 2 * t + w then f (2 * i + 1) else f (2 * i)))) := by
  induction w using Nat.strongRecOn with
  | _ w ih =>
    intro t
    match w with
    | 0 => simp [merklePair]
    | 1 => simp [merklePair, List.range']
    | w + 2 =>
      have e1 : (w + 2 + 1) / 2 = (w + 1) / 2 + 1 := by omega
      have e2 : 2 * t + 1 + 1 = 2 * (t + 1) := by omega
      rw [e1]
      simp only [List.range'_succ, List.map_cons, merklePair, e2, ih w (by omega) (t + 1)]
      have e3 : 2 * (t + 1) + w = 2 * t + (w + 2) := by omega
      have e4 : 2 * t + 1 < 2 * t + (w + 2) := by omega
      simp [e3, e4]

theorem merklePair_level (leaf : Nat → Bytes) (n k : Nat) :
    merklePair H (level H leaf n k) = level H leaf n (k + 1) := by
  have := merklePair_range' H (calcHash H leaf n k) (treeWidth n k) 0
  simp only [Nat.mul_zero, Nat.zero_add] at this
  simp only [level, this, treeWidth_succ, calcHash]

theorem merkleLoop_level (leaf : Nat → Bytes) (n : Nat) : ∀ f k,
    merkleLoop H f (level H leaf n k) = level H leaf n (heightLoop n f k) := by
  intro f
  induction f with
  | zero => intro k; rfl
  | succ f ih =>
    intro k
    simp only [merkleLoop, heightLoop, level, List.length_map, List.length_range']
    split
    · have := ih (k + 1)
      rw [← merklePair_level] at this
      simpa [level] using this
    · rfl

end Pycoin.Spec.Merkle
