import Pycoin.Model.Address
/-!
Lemmas behind C08/C18: how `ScriptTools.compile` treats the hex token `for_info` writes for a hash
(`b2h(hash)` is not an opcode name, not `0x…`, not a decimal literal: it is unhexlified and pushed),
and what the classifier does with the five standard scripts.  Core Lean only.
-/
namespace Pycoin.Addr
open Pycoin.Gen.Networks

/-! ## hex digits -/

theorem digit_facts : ∀ n, n < 16 →
    Hex.val? (Hex.digit n) = some n ∧ (Hex.digit n).toUpper ≠ 'X' ∧ Hex.digit n ≠ '[' ∧ Hex.digit n ≠ '\'' ∧
    Hex.digit n ≠ '-' ∧ Hex.digit n ≠ '+' ∧ Hex.digit n ≠ '_' ∧
    ((Hex.digit n).isDigit = true → Hex.digit n ≠ '0' → 1 ≤ (Hex.digit n).toNat - 48) := by
  decide

theorem decode_encode (d : Bytes) : Hex.decodeChars (Hex.encodeChars d) = some d := by
  induction d with
  | nil => rfl
  | cons b bs ih =>
    have hb : b.toNat < 256 := b.toNat_lt
    have h1 := (digit_facts (b.toNat / 16) (by omega)).1
    have h2 := (digit_facts (b.toNat % 16) (by omega)).1
    simp only [Hex.encodeChars, Hex.decodeChars, h1, h2, ih, bind, Option.bind, pure]
    have : 16 * (b.toNat / 16) + b.toNat % 16 = b.toNat := by omega
    rw [this]; simp

theorem encodeChars_length (d : Bytes) : (Hex.encodeChars d).length = 2 * d.length := by
  induction d with
  | nil => rfl
  | cons b bs ih => simp [Hex.encodeChars, ih]; omega

theorem encodeChars_no_underscore (d : Bytes) : ∀ c ∈ Hex.encodeChars d, c ≠ '_' := by
  induction d with
  | nil => simp [Hex.encodeChars]
  | cons b bs ih =>
    have hb : b.toNat < 256 := b.toNat_lt
    intro c hc
    simp only [Hex.encodeChars, List.mem_cons] at hc
    rcases hc with rfl | rfl | hc
    · exact (digit_facts (b.toNat / 16) (by omega)).2.2.2.2.2.2.1
    · exact (digit_facts (b.toNat % 16) (by omega)).2.2.2.2.2.2.1
    · exact ih c hc

@[simp] theorem b2h_toList (d : Bytes) : (b2h d).toList = Hex.encodeChars d := by
  simp [b2h, String.toList_ofList]

theorem b2h_length (d : Bytes) : (b2h d).length = 2 * d.length := by
  rw [← String.length_toList, b2h_toList, encodeChars_length]

/-! ## decimal literals -/

theorem pyIntDigits_ge (cs : List Char) (hcs : ∀ c ∈ cs, c ≠ '_') :
    ∀ prev acc cnt v, pyIntDigits cs prev acc cnt = some v → acc * 10 ^ cs.length ≤ v := by
  induction cs with
  | nil =>
    intro prev acc cnt v h
    simp only [pyIntDigits] at h
    split at h
    · cases h; simp
    · cases h
  | cons c cs ih =>
    intro prev acc cnt v h
    have hc : c ≠ '_' := hcs c (by simp)
    have ih' := ih (fun c hc => hcs c (by simp [hc]))
    simp only [pyIntDigits] at h
    split at h
    · have := ih' _ _ _ _ h
      simp only [List.length_cons, Nat.pow_succ]
      calc acc * (10 ^ cs.length * 10) = acc * 10 * 10 ^ cs.length := by
            rw [Nat.mul_comm (10 ^ cs.length) 10, Nat.mul_assoc]
        _ ≤ (acc * 10 + (c.toNat - 48)) * 10 ^ cs.length := Nat.mul_le_mul_right _ (by omega)
        _ ≤ v := this
    · simp [hc] at h

theorem pyInt_of_head (s : String) (c : Char) (cs : List Char) (hs : s.toList = c :: cs) (h1 : c ≠ '-') (h2 : c ≠ '+') :
    pyInt s = Option.map (fun n : Nat => (n : Int)) (pyIntDigits (c :: cs) false 0 0) := by
  unfold pyInt
  rw [hs]
  split
  · rename_i heq; injection heq with h; exact absurd h h1
  · rename_i heq; injection heq with h; exact absurd h h2
  · rfl

/-- a token of at least 22 hex characters is never taken for a decimal literal that fits 64 bits -/
theorem decimalLiteral_hex (b : UInt8) (bs : Bytes) (hlen : 10 ≤ bs.length) : decimalLiteral (b2h (b :: bs)) = none := by
  have hb : b.toNat < 256 := b.toNat_lt
  have f := digit_facts (b.toNat / 16) (by omega)
  have hs : (b2h (b :: bs)).toList = Hex.digit (b.toNat / 16) :: (Hex.digit (b.toNat % 16) :: Hex.encodeChars bs) := by
    simp [Hex.encodeChars]
  have hrest : ∀ c ∈ Hex.digit (b.toNat % 16) :: Hex.encodeChars bs, c ≠ '_' := by
    intro c hc
    exact encodeChars_no_underscore (b :: bs) c (by simp only [Hex.encodeChars]; exact List.mem_cons_of_mem _ hc)
  unfold decimalLiteral
  rw [pyInt_of_head _ _ _ hs f.2.2.2.2.1 f.2.2.2.2.2.1]
  cases hd : pyIntDigits (Hex.digit (b.toNat / 16) :: (Hex.digit (b.toNat % 16) :: Hex.encodeChars bs)) false 0 0 with
  | none => rfl
  | some n =>
    simp only [Option.map_some, hs, List.head?_cons]
    rw [if_neg]
    intro ⟨hsmall, hhead⟩
    have hhead' : Hex.digit (b.toNat / 16) ≠ '0' := fun h => hhead (by rw [h])
    rw [pyIntDigits] at hd
    split at hd
    · rename_i hdig
      have h1 := f.2.2.2.2.2.2.2 hdig hhead'
      have := pyIntDigits_ge _ hrest _ _ _ _ hd
      simp only [List.length_cons, encodeChars_length] at this
      have hp : (10 : Nat) ^ 21 ≤ 10 ^ (2 * bs.length + 1) := Nat.pow_le_pow_right (by decide) (by omega)
      have h21 : (0xFFFFFFFFFFFFFFFF : Nat) < 10 ^ 21 := by decide
      have hmul : 1 * 10 ^ (2 * bs.length + 1) ≤ (0 * 10 + ((Hex.digit (b.toNat / 16)).toNat - 48)) * 10 ^ (2 * bs.length + 1) :=
        Nat.mul_le_mul_right _ (by omega)
      simp only [Int.natAbs_natCast] at hsmall
      omega
    · simp [f.2.2.2.2.2.2.1] at hd

/-! ## opcode names are short -/

theorem opcode_names_short : ∀ e ∈ opcodeToInt, e.1.length ≤ 22 := by decide +kernel

theorem opcodeByName_long (name : String) (h : 22 < name.length) : opcodeByName name = none := by
  unfold opcodeByName
  rw [Option.map_eq_none_iff, List.find?_eq_none]
  intro e he
  have := opcode_names_short e he
  simp only [decide_eq_true_eq]
  intro heq
  rw [heq] at this
  omega

theorem upperAscii_length (s : String) : (upperAscii s).length = s.length := by
  simp [upperAscii, String.length_ofList, String.length_toList]

/-! ## pushes -/

theorem constEncoder_short : ∀ e ∈ constEncoder, e.1.length ≤ 1 := by decide +kernel

theorem sizedEncoder_id : ∀ n, n < 76 → 1 ≤ n → lookupNat sizedEncoder n = some n := by decide +kernel

theorem compilePush_sized (d : Bytes) (h1 : 2 ≤ d.length) (h2 : d.length ≤ 75) :
    compilePush d = some (UInt8.ofNat d.length :: d) := by
  unfold compilePush
  have hc : (constEncoder.find? (·.1 = d)).map (·.2) = none := by
    rw [Option.map_eq_none_iff, List.find?_eq_none]
    intro e he
    have := constEncoder_short e he
    simp only [decide_eq_true_eq]
    intro heq; rw [heq] at this; omega
  rw [hc, sizedEncoder_id d.length (by omega) (by omega)]

/-- the hex token `for_info` writes for `d` compiles to the direct push of `d` -/
theorem compileToken_hex (d : Bytes) (h1 : 12 ≤ d.length) (h2 : d.length ≤ 75) :
    compileToken (b2h d) = .ok (UInt8.ofNat d.length :: d) := by
  obtain ⟨b, bs, rfl⟩ : ∃ b bs, d = b :: bs := by
    cases d with
    | nil => simp at h1
    | cons b bs => exact ⟨b, bs, rfl⟩
  have hb : b.toNat < 256 := b.toNat_lt
  have hlen : (b2h (b :: bs)).length = 2 * (bs.length + 1) := by rw [b2h_length]; simp
  have h1' : 11 ≤ bs.length := by simpa using h1
  have h2' : bs.length ≤ 74 := by simpa using h2
  have hn1 : opcodeByName (upperAscii (b2h (b :: bs))) = none :=
    opcodeByName_long _ (by rw [upperAscii_length, hlen]; omega)
  have hn2 : opcodeByName ("OP_" ++ upperAscii (b2h (b :: bs))) = none :=
    opcodeByName_long _ (by
      have h3 : "OP_".length = 3 := by decide
      rw [String.length_append, upperAscii_length, hlen, h3]; omega)
  have f0 := digit_facts (b.toNat / 16) (by omega)
  have f1 := digit_facts (b.toNat % 16) (by omega)
  have h0x : ¬ ((upperAscii (b2h (b :: bs))).toList.take 2 = ['0', 'X']) := by
    simp only [upperAscii, String.toList_ofList, b2h_toList, Hex.encodeChars, List.map_cons, List.take_succ_cons,
      List.take_zero, List.cons.injEq, and_true, not_and]
    intro _ h; exact absurd h f1.2.1
  have hexpr : compileExpression (b2h (b :: bs)) = .ok (b :: bs) := by
    unfold compileExpression
    have hh : (b2h (b :: bs)).toList.head? = some (Hex.digit (b.toNat / 16)) := by simp [Hex.encodeChars]
    simp only [hh, Option.some.injEq, f0.2.2.1, f0.2.2.2.1, false_and, if_false]
    rw [decimalLiteral_hex b bs (by omega)]
    simp only [unhexlify, b2h_toList, decode_encode]
  unfold compileToken
  simp only [hn1, hn2, Option.isSome_none, Bool.false_eq_true, if_false, h0x, hexpr, bind, Except.bind]
  rw [compilePush_sized _ (by omega) h2]

/-! ## `for_info` on the five standard kinds -/

theorem compileTokens_cons (t : String) (ts : List String) :
    compileTokens (t :: ts) = (compileToken t).bind fun a => (compileTokens ts).bind fun b => .ok (a ++ b) := by rfl
theorem compileTokens_nil : compileTokens [] = .ok [] := by rfl
theorem except_bind_ok {ε α β} (a : α) (f : α → Except ε β) : (Except.ok a : Except ε α).bind f = f a := rfl

theorem ct_dup : compileToken "OP_DUP" = .ok [118] := by rfl
theorem ct_hash160 : compileToken "OP_HASH160" = .ok [169] := by rfl
theorem ct_equalverify : compileToken "OP_EQUALVERIFY" = .ok [136] := by rfl
theorem ct_checksig : compileToken "OP_CHECKSIG" = .ok [172] := by rfl
theorem ct_equal : compileToken "OP_EQUAL" = .ok [135] := by rfl
theorem ct_0 : compileToken "OP_0" = .ok [0] := by rfl
theorem ct_1 : compileToken "OP_1" = .ok [81] := by rfl
theorem ct_return : compileToken "OP_RETURN" = .ok [106] := by rfl

theorem shape_p2pkh : shapeOf "p2pkh" =
    some [.lit "OP_DUP", .lit "OP_HASH160", .field "hash160", .lit "OP_EQUALVERIFY", .lit "OP_CHECKSIG"] := by rfl
theorem shape_p2sh : shapeOf "p2sh" = some [.lit "OP_HASH160", .field "hash160", .lit "OP_EQUAL"] := by rfl
theorem shape_p2pkh_wit : shapeOf "p2pkh_wit" = some [.lit "OP_0", .field "hash160"] := by rfl
theorem shape_p2sh_wit : shapeOf "p2sh_wit" = some [.lit "OP_0", .field "hash256"] := by rfl
theorem shape_p2tr : shapeOf "p2tr" = some [.lit "OP_1", .field "synthetic_key"] := by rfl

theorem nonempty_of_len {d : Bytes} {n : Nat} (h : d.length = n + 1) : d.isEmpty = false := by
  cases d with
  | nil => simp at h
  | cons _ _ => rfl

/-- the scripts `ContractAPI.for_p2pkh` … build -/
def stdScript : Info → Bytes
  | .p2pkh h => [118, 169, 20] ++ h ++ [136, 172]
  | .p2sh h => [169, 20] ++ h ++ [135]
  | .p2pkhWit h => [0, 20] ++ h
  | .p2shWit h => [0, 32] ++ h
  | .p2tr k => [81, 32] ++ k
  | _ => []

/-- a standard kind with a hash of the kind's length -/
def Info.wellSized : Info → Bool
  | .p2pkh h => h.length = 20
  | .p2sh h => h.length = 20
  | .p2pkhWit h => h.length = 20
  | .p2shWit h => h.length = 32
  | .p2tr k => k.length = 32
  | _ => false


theorem forInfo_p2pkh (h : Bytes) (hl : h.length = 20) : forInfo (.p2pkh h) = .ok (stdScript (.p2pkh h)) := by
  show forInfoText (.p2pkh h) = _
  have ht : (Info.p2pkh h).typeName = "p2pkh" := rfl
  unfold forInfoText
  rw [ht, shape_p2pkh]
  simp only [tokTexts, tokText, Info.field, nonempty_of_len hl, bind, Except.bind, pure, Except.pure,
    List.append_nil, List.cons_append, List.nil_append, Bool.false_eq_true, if_false]
  simp only [compileTokens_cons, compileTokens_nil, ct_dup, ct_hash160, ct_equalverify, ct_checksig,
    compileToken_hex h (by omega) (by omega), hl, except_bind_ok]
  simp [stdScript]

theorem forInfo_p2sh (h : Bytes) (hl : h.length = 20) : forInfo (.p2sh h) = .ok (stdScript (.p2sh h)) := by
  show forInfoText (.p2sh h) = _
  have ht : (Info.p2sh h).typeName = "p2sh" := rfl
  unfold forInfoText
  rw [ht, shape_p2sh]
  simp only [tokTexts, tokText, Info.field, nonempty_of_len hl, bind, Except.bind, pure, Except.pure,
    List.append_nil, List.cons_append, List.nil_append, Bool.false_eq_true, if_false]
  simp only [compileTokens_cons, compileTokens_nil, ct_hash160, ct_equal,
    compileToken_hex h (by omega) (by omega), hl, except_bind_ok]
  simp [stdScript]

theorem forInfo_p2pkhWit (h : Bytes) (hl : h.length = 20) : forInfo (.p2pkhWit h) = .ok (stdScript (.p2pkhWit h)) := by
  show forInfoText (.p2pkhWit h) = _
  have ht : (Info.p2pkhWit h).typeName = "p2pkh_wit" := rfl
  unfold forInfoText
  rw [ht, shape_p2pkh_wit]
  simp only [tokTexts, tokText, Info.field, nonempty_of_len hl, bind, Except.bind, pure, Except.pure,
    List.append_nil, List.cons_append, List.nil_append, Bool.false_eq_true, if_false]
  simp only [compileTokens_cons, compileTokens_nil, ct_0,
    compileToken_hex h (by omega) (by omega), hl, except_bind_ok]
  simp [stdScript]

theorem forInfo_p2shWit (h : Bytes) (hl : h.length = 32) : forInfo (.p2shWit h) = .ok (stdScript (.p2shWit h)) := by
  show forInfoText (.p2shWit h) = _
  have ht : (Info.p2shWit h).typeName = "p2sh_wit" := rfl
  unfold forInfoText
  rw [ht, shape_p2sh_wit]
  simp only [tokTexts, tokText, Info.field, nonempty_of_len hl, bind, Except.bind, pure, Except.pure,
    List.append_nil, List.cons_append, List.nil_append, Bool.false_eq_true, if_false]
  simp only [compileTokens_cons, compileTokens_nil, ct_0,
    compileToken_hex h (by omega) (by omega), hl, except_bind_ok]
  simp [stdScript]

theorem forInfo_p2tr (h : Bytes) (hl : h.length = 32) : forInfo (.p2tr h) = .ok (stdScript (.p2tr h)) := by
  show forInfoText (.p2tr h) = _
  have ht : (Info.p2tr h).typeName = "p2tr" := rfl
  unfold forInfoText
  rw [ht, shape_p2tr]
  simp only [tokTexts, tokText, Info.field, nonempty_of_len hl, bind, Except.bind, pure, Except.pure,
    List.append_nil, List.cons_append, List.nil_append, Bool.false_eq_true, if_false]
  simp only [compileTokens_cons, compileTokens_nil, ct_1,
    compileToken_hex h (by omega) (by omega), hl, except_bind_ok]
  simp [stdScript]

theorem forInfo_std (i : Info) (hw : i.wellSized = true) : forInfo i = .ok (stdScript i) := by
  cases i <;> simp only [Info.wellSized, decide_eq_true_eq] at hw <;> try (exact absurd hw (by simp))
  · exact forInfo_p2pkh _ hw
  · exact forInfo_p2pkhWit _ hw
  · exact forInfo_p2shWit _ hw
  · exact forInfo_p2sh _ hw
  · exact forInfo_p2tr _ hw

/-! ## the classifier on the five standard scripts (explicit bytes, then evaluation) -/

theorem len_succ' {α} {P : List α → Prop} {n : Nat} (hP : ∀ a, ∀ t, t.length = n → P (a :: t)) :
    ∀ l, l.length = n + 1 → P l := by
  intro l h
  cases l with
  | nil => simp at h
  | cons a t => exact hP a t (by simpa using h)

theorem len_zero' {α} {P : List α → Prop} (hP : P []) : ∀ l : List α, l.length = 0 → P l := by
  intro l h; rw [List.eq_nil_of_length_eq_zero h]; exact hP

theorem classify_p2pkh : ∀ (h : Bytes), h.length = 20 → classify (stdScript (.p2pkh h)) = .ok (.p2pkh h) := by
  repeat (refine len_succ' fun _ => ?_)
  refine len_zero' ?_
  rfl

theorem classify_p2sh : ∀ (h : Bytes), h.length = 20 → classify (stdScript (.p2sh h)) = .ok (.p2sh h) := by
  repeat (refine len_succ' fun _ => ?_)
  refine len_zero' ?_
  rfl

theorem classify_p2pkhWit : ∀ (h : Bytes), h.length = 20 → classify (stdScript (.p2pkhWit h)) = .ok (.p2pkhWit h) := by
  repeat (refine len_succ' fun _ => ?_)
  refine len_zero' ?_
  rfl

theorem classify_p2shWit : ∀ (h : Bytes), h.length = 32 → classify (stdScript (.p2shWit h)) = .ok (.p2shWit h) := by
  repeat (refine len_succ' fun _ => ?_)
  refine len_zero' ?_
  rfl

theorem classify_p2tr : ∀ (h : Bytes), h.length = 32 → classify (stdScript (.p2tr h)) = .ok (.p2tr h) := by
  repeat (refine len_succ' fun _ => ?_)
  refine len_zero' ?_
  rfl

theorem classify_std (i : Info) (hw : i.wellSized = true) : classify (stdScript i) = .ok i := by
  cases i <;> simp only [Info.wellSized, decide_eq_true_eq] at hw <;> try (exact absurd hw (by simp))
  · exact classify_p2pkh _ hw
  · exact classify_p2pkhWit _ hw
  · exact classify_p2shWit _ hw
  · exact classify_p2sh _ hw
  · exact classify_p2tr _ hw

/-- `info_for_script` recognises each standard script as its kind -/
theorem infoForScript_std (i : Info) (hw : i.wellSized = true) : infoForScript (stdScript i) = .ok i := by
  unfold infoForScript
  simp only [classify_std i hw, forInfo_std i hw, bind, Except.bind, pure, Except.pure, ne_eq, not_true_eq_false, if_false]

end Pycoin.Addr
