import Pycoin.Model.RealKeyEnv
import Pycoin.Proofs.ParseKeyRt
import Pycoin.Proofs.KeyOrder
import Pycoin.Proofs.Reduced
import Pycoin.Proofs.Sqrt
import Pycoin.Proofs.CurveFacts.Order
/-!
C18 — `KeyLaws realKeyEnv`: the curve hypotheses of the re-serialisation theorems discharged for the key environment the
driver runs (`Model/RealKeyEnv.lean`: the C02 curve model over the generator parameters of `Gen/Networks.lean`).

Bridge: the parameters are the generated `secp256k1` (`curve_eq`, kernel evaluation), so the C02 facts apply —
`pointsForX_spec` with `no_root_secp256k1` (no side condition), `rawMul_refines` / `rawMul_reduced`, and
`smul_basis_ne_zero` (`se • G ≠ ∞` for `1 ≤ se < n`, from the primality of `n`).
-/
namespace Pycoin.Addr
open Pycoin Pycoin.Curve Pycoin.Gen.Curves Pycoin.Gen.Networks WeierstrassCurve

/-- the generator parameters every network shares are the generated `secp256k1` -/
theorem curve_eq : curve = secp256k1 := by decide +kernel

theorem genP_eq : genP = secp256k1.p := by decide +kernel
theorem genOrder_eq : genOrder = secp256k1.n := by decide +kernel

theorem k1_n_ne_zero : secp256k1.n ≠ 0 := by decide +kernel
theorem k1_n_le : secp256k1.n ≤ 2 ^ 256 := by decide +kernel
theorem k1_p_le : secp256k1.p ≤ 2 ^ 256 := by decide +kernel
theorem k1_p_mod4 : secp256k1.p % 4 = 3 := by decide +kernel
theorem k1_basis_reduced : Reduced secp256k1 (basis secp256k1) := by
  show 0 ≤ secp256k1.gx ∧ secp256k1.gx < (secp256k1.p : Int) ∧ 0 ≤ secp256k1.gy ∧ secp256k1.gy < (secp256k1.p : Int)
  decide +kernel

/-- the constructor's table exists: `powersTable` is the table `Curve.rawMul` builds -/
theorem powers_curve : Curve.powers curve = .ok powersTable := by
  obtain ⟨R, h, -⟩ := rawMul_refines secp256k1 G_on_curve_secp256k1 k1_n_ne_zero k1_n_le order_G_secp256k1 0
  unfold powersTable
  rw [curve_eq]
  cases hp : Curve.powers secp256k1 with
  | ok t => rfl
  | error e => simp [rawMul, k1_n_ne_zero, hp] at h

/-- what the environment computes for `se * G` is `Generator.raw_mul(se)` of the C02 model -/
theorem realMulG_eq (se : Nat) :
    realMulG se = match Curve.rawMul secp256k1 (se : Int) with | .ok (some pt) => pt | _ => (0, 0) := by
  have hp := powers_curve
  rw [curve_eq] at hp
  unfold realMulG Curve.rawMul
  rw [curve_eq, genOrder_eq]
  simp only [k1_n_ne_zero, if_false, hp]
  generalize rawMulLoop secp256k1 powersTable _ none = r
  rcases r with _ | (_ | _) <;> rfl

/-- ★ for a valid secret exponent the fall-through is not taken: `mulG se` is the affine, reduced curve point the model's
`raw_mul` returns, and it denotes `se • G` -/
theorem realMulG_spec (se : Nat) (h1 : 1 ≤ se) (h2 : se < genOrder) :
    ∃ x y : Int, Curve.rawMul secp256k1 (se : Int) = .ok (some (x, y)) ∧ realMulG se = (x, y) ∧
      containsXY secp256k1 x y = true ∧ 0 ≤ x ∧ x < (genP : Int) ∧ 0 ≤ y ∧ y < (genP : Int) ∧
      toPoint secp256k1 (some (x, y)) = (se : Int) • toPoint secp256k1 (basis secp256k1) := by
  obtain ⟨R, hR, hon, hpt⟩ :=
    rawMul_refines secp256k1 G_on_curve_secp256k1 k1_n_ne_zero k1_n_le order_G_secp256k1 (se : Int)
  have hred := rawMul_reduced secp256k1 G_on_curve_secp256k1 k1_basis_reduced _ _ hR
  cases R with
  | none =>
    exfalso
    rw [toPoint_none] at hpt
    rw [genOrder_eq] at h2
    exact smul_basis_ne_zero secp256k1 G_on_curve_secp256k1 prime_n_secp256k1 order_G_secp256k1 (se : Int)
      (by exact_mod_cast h1) (by exact_mod_cast h2) hpt.symm
  | some P =>
    obtain ⟨x, y⟩ := P
    obtain ⟨a, b, c', d⟩ := hred
    refine ⟨x, y, hR, ?_, by simpa [OnCurve, containsPoint] using hon, a, ?_, c', ?_, hpt⟩
    · rw [realMulG_eq, hR]
    · rw [genP_eq]; exact b
    · rw [genP_eq]; exact d

theorem k1_p_odd : (secp256k1.p : Int) % 2 = 1 := by decide +kernel

theorem hmacSha512_len (k m : Bytes) : (Hash.hmacSha512 k m).length = 64 := by
  simp [Hash.hmacSha512, Hash.hmacWith, Hash.sha512, Hash.u64be]

/-- what `realKeyEnv.pointsForX` answers, from `pointsForX_spec` without side condition -/
theorem real_pointsForX_some {x : Int} {e o : Pt} (h : realKeyEnv.pointsForX x = some (e, o)) :
    ∃ y0 y1 : Int, e = (x, y0) ∧ o = (x, y1) ∧ 0 < y0 ∧ y0 < (secp256k1.p : Int) ∧ 0 < y1 ∧ y1 < (secp256k1.p : Int) ∧
      y0 % 2 = 0 ∧ y0 + y1 = secp256k1.p := by
  obtain ⟨hsq, hns⟩ := pointsForX_spec secp256k1 k1_p_mod4 x (no_root_secp256k1 _)
  simp only [realKeyEnv, curve_eq] at h
  by_cases hs : IsSquare (alphaOf secp256k1 x)
  · obtain ⟨y0, y1, hp, -, -, a, b, c', d, ev, su, -⟩ := hsq hs
    rw [hp] at h
    simp only [Option.some.injEq, Prod.mk.injEq] at h
    exact ⟨y0, y1, h.1.symm, h.2.symm, a, b, c', d, ev, su⟩
  · rw [(hns hs).1] at h
    cases h

/-- ★ the key environment the C18 driver runs satisfies the laws the re-serialisation theorems assume -/
theorem real_key_laws : KeyLaws realKeyEnv where
  pfx_sound x e o h := by
    obtain ⟨y0, y1, rfl, rfl, a, b, c', d, ev, su⟩ := real_pointsForX_some h
    have hodd := k1_p_odd
    have hp : (realKeyEnv.p : Int) = secp256k1.p := by show ((genP : Nat) : Int) = _; rw [genP_eq]
    refine ⟨rfl, rfl, ?_, ?_, ?_, ?_, ev, ?_⟩ <;> simp only [hp] <;> omega
  pfx_complete x y hon hx0 hx1 hy0 hy1 := by
    obtain ⟨hsq, hns⟩ := pointsForX_spec secp256k1 k1_p_mod4 x (no_root_secp256k1 _)
    have hon' : containsXY secp256k1 x y = true := by simpa only [realKeyEnv, curve_eq] using hon
    have hy1' : y < (secp256k1.p : Int) := by
      have : (realKeyEnv.p : Int) = secp256k1.p := by show ((genP : Nat) : Int) = _; rw [genP_eq]
      rw [← this]; exact hy1
    by_cases hs : IsSquare (alphaOf secp256k1 x)
    · obtain ⟨y0, y1, hp, -, -, a, b, c', d, ev, su, huniq⟩ := hsq hs
      have hodd := k1_p_odd
      refine ⟨(x, y0), (x, y1), ?_, ?_⟩
      · simp only [realKeyEnv, curve_eq, hp]
      · rcases huniq y hy0 hy1' hon' with rfl | rfl
        · have : ¬ (y % 2 = 1) := by omega
          simp only [this, if_false]
        · have : y % 2 = 1 := by omega
          simp only [this, if_true]
    · have := (hns hs).2 y
      rw [this] at hon'
      cases hon'
  mulG_reduced se h1 h2 := by
    obtain ⟨x, y, -, hm, -, a, b, c', d, -⟩ := realMulG_spec se h1 h2
    show 0 ≤ (realMulG se).1 ∧ (realMulG se).1 < (genP : Int) ∧ 0 ≤ (realMulG se).2 ∧ (realMulG se).2 < (genP : Int)
    rw [hm]
    exact ⟨a, b, c', d⟩
  p256 := by show genP ≤ 2 ^ 256; rw [genP_eq]; exact k1_p_le
  order256 := by show genOrder ≤ 2 ^ 256; rw [genOrder_eq]; exact k1_n_le
  hmac_len := hmacSha512_len

/-- `se * G` is on the curve for a valid secret exponent: `Key.__init__`'s `contains_point` check passes -/
theorem real_mulG_on_curve (se : Nat) (h1 : 1 ≤ se) (h2 : se < realKeyEnv.order) :
    realKeyEnv.containsPoint (realKeyEnv.mulG se).1 (realKeyEnv.mulG se).2 = true := by
  obtain ⟨x, y, -, hm, hon, -⟩ := realMulG_spec se h1 h2
  show containsXY curve (realMulG se).1 (realMulG se).2 = true
  rw [hm, curve_eq]
  exact hon

end Pycoin.Addr
