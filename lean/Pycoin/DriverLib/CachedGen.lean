import Pycoin.Model.NativeCurve
import Pycoin.Model.RFC6979
import Pycoin.Gen.Curves
/-!
Driver-side evaluation of the `Generator` methods of secp256k1 / secp256r1 with the table `_powers` built ONCE (the shipped
generator objects also build it once, in `__init__`): `Generator.raw_mul` of the model rebuilds the 256-entry table on every
call, which is what makes a model signature cost two table constructions.  `methodsFor c` is the method table of
`Model/NativeCurve.lean` whose `rawMul` reads the cached table; `Proofs/CachedGen.lean` proves `methodsFor c = pureMethods c`, so
`Gen.verify (methodsFor c)` etc. ARE the pure model's functions (`C01_driver_cached_is_model`).
-/
namespace Pycoin.DriverLib.CachedGen
open Pycoin Pycoin.Curve Pycoin.Native

/-- `Generator.raw_mul(e)` over a given `_powers` table -/
def rawMulTbl (c : CurveParams) (tbl : Except Err (List Pt)) (e : Int) : Except Err Pt :=
  if c.n = 0 then .error .assertion
  else
    match tbl with
    | .error er => .error er
    | .ok t => rawMulLoop c t (fmod e c.n) none

def tblK1 : Except Err (List Pt) := powers Gen.Curves.secp256k1
def tblR1 : Except Err (List Pt) := powers Gen.Curves.secp256r1

def methodsFor (c : CurveParams) : Methods :=
  if c = Gen.Curves.secp256k1 then
    { inverseMod := Curve.inverseMod, multiply := Curve.multiply c, rawMul := rawMulTbl c tblK1 }
  else if c = Gen.Curves.secp256r1 then
    { inverseMod := Curve.inverseMod, multiply := Curve.multiply c, rawMul := rawMulTbl c tblR1 }
  else pureMethods c

/-- `Generator.sign(d, val)` / `sign_with_recid` / `verify` / recovery / `d * G` with the default nonce and blinding factor 0 -/
def signF (c : CurveParams) (d val : Int) : Except Err (Int × Int) :=
  Gen.sign (methodsFor c) c 0 Pycoin.RFC6979.deterministicGenerateK d val
def signRecidF (c : CurveParams) (d val : Int) : Except Err (Int × Int × Int) :=
  Gen.signWithRecid (methodsFor c) c 0 Pycoin.RFC6979.deterministicGenerateK d val
def verifyF (c : CurveParams) (Q : Pt) (val r s : Int) : Except Err Bool := Gen.verify (methodsFor c) c 0 Q val r s
def recoverF (c : CurveParams) (val r s : Int) (par : Option Int) : Except Err (List Pt) :=
  Gen.possiblePublicPairsForSignature (methodsFor c) c 0 val r s par
def mulGF (c : CurveParams) (e : Int) : Except Err Pt := Gen.mulG (methodsFor c) c 0 e

end Pycoin.DriverLib.CachedGen
