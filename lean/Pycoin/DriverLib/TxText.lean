import Pycoin.Driver.Core
import Pycoin.Model.Tx
/-!
Text form of transactions on the line protocol (driver side; not mentioned by any theorem).

    tx    := version ";" lock ";" ins ";" outs          ins/outs: items joined by "|", "~" for none
    in    := hash ":" index ":" script ":" sequence ":" witness
    witness := "~" | item "/" item …                      (items are bytes)
    out   := value ":" script
    bytes := part "+" part …     part := "-" (empty) | hex | "r" hh "x" count   (count copies of byte hh)

Printing always uses plain hex.  Loops here are tail recursive: scripts of 10^6 bytes go through them.
-/
namespace Pycoin.DriverLib
open Pycoin Pycoin.Driver

def decodeHexGo : List Char → Array UInt8 → Option Bytes
  | [], acc => some acc.toList
  | [_], _ => none
  | a :: b :: r, acc =>
    match Hex.val? a, Hex.val? b with
    | some x, some y => decodeHexGo r (acc.push (UInt8.ofNat (16 * x + y)))
    | _, _ => none

def decodeHexFast (s : String) : Option Bytes := decodeHexGo s.toList #[]

def encodeHexFast (b : Bytes) : String :=
  if b.isEmpty then "-" else
  b.foldl (fun s x => (s.push (Hex.digit (x.toNat / 16))).push (Hex.digit (x.toNat % 16))) ""

def charsHexFast (cs : List Char) : String := String.ofList cs

def parsePart? (s : String) : Option Bytes :=
  if s = "-" then some []
  else if s.startsWith "r" then
    match (s.drop 1).toString.splitOn "x" with
    | [hh, n] => do
      let b ← decodeHexFast hh
      let n ← n.toNat?
      match b with
      | [x] => some (List.replicate n x)
      | _ => none
    | _ => none
  else decodeHexFast s

def parseBytes? (s : String) : Option Bytes := do
  let parts ← (s.splitOn "+").mapM parsePart?
  pure parts.flatten

def parseWitness? (s : String) : Option (List Bytes) :=
  if s = "~" then some [] else (s.splitOn "/").mapM parseBytes?

def parseTxIn? (s : String) : Option TxIn :=
  match s.splitOn ":" with
  | [h, i, sc, q, w] => do
    pure ⟨← parseBytes? h, ← parseInt? i, ← parseBytes? sc, ← parseInt? q, ← parseWitness? w⟩
  | _ => none

def parseTxOut? (s : String) : Option TxOut :=
  match s.splitOn ":" with
  | [v, sc] => do pure ⟨← parseInt? v, ← parseBytes? sc⟩
  | _ => none

def parseItems? {α} (f : String → Option α) (s : String) : Option (List α) :=
  if s = "~" then some [] else (s.splitOn "|").mapM f

def parseTx? (s : String) : Option Tx :=
  match s.splitOn ";" with
  | [v, l, ins, outs] => do
    pure ⟨← parseInt? v, ← parseItems? parseTxIn? ins, ← parseItems? parseTxOut? outs, ← parseInt? l⟩
  | _ => none

def showWitness (w : List Bytes) : String :=
  if w.isEmpty then "~" else "/".intercalate (w.map encodeHexFast)

def showTxIn (t : TxIn) : String :=
  s!"{encodeHexFast t.prevHash}:{t.prevIndex}:{encodeHexFast t.script}:{t.sequence}:{showWitness t.witness}"

def showTxOut (t : TxOut) : String := s!"{t.value}:{encodeHexFast t.script}"

def showItems {α} (f : α → String) (l : List α) : String :=
  if l.isEmpty then "~" else "|".intercalate (l.map f)

def showTx (tx : Tx) : String :=
  s!"{tx.version};{tx.lockTime};{showItems showTxIn tx.ins};{showItems showTxOut tx.outs}"

def showUnspents (us : List (Option TxOut)) : String :=
  showItems (fun o => match o with | none => "none" | some t => showTxOut t) us

def parseUnspents? (s : String) : Option (List (Option TxOut)) :=
  parseItems? (fun x => if x = "none" then some none else (parseTxOut? x).map some) s

def parseCoin? : String → Option Coin
  | "btc" => some .btc | "ltc" => some .ltc | "grs" => some .grs | "bch" => some .bch | "btg" => some .btg
  | _ => none

end Pycoin.DriverLib
