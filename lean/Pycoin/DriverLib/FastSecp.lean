import Pycoin.Model.SignSecp
/-!
Driver-side fast evaluation of the signer's `Crypto` parameter on secp256k1 (Jacobian coordinates, one inversion per
scalar multiplication).  Not mentioned by any theorem: the model is parametric in `Crypto`; the instance the theorems
name is `Sign.secp256k1Crypto` (affine arithmetic, as pycoin's pure-Python classes), and the op `c05_fastcheck`
compares the two instances on every run.  The nonce is the model's `RFC6979.deterministicGenerateK`.
-/
namespace Pycoin.DriverLib.FastSecp
open Pycoin Pycoin.Curve

def cv : CurveParams := Pycoin.Gen.Curves.secp256k1
def P : Nat := cv.p
def N : Nat := cv.n

abbrev J := Nat × Nat × Nat

def jInf : J := (1, 1, 0)

/-- doubling for a = 0 -/
def jDouble (pt : J) : J :=
  let (x, y, z) := pt
  if y = 0 ∨ z = 0 then jInf
  else
    let y2 := y * y % P
    let s := 4 * x * y2 % P
    let m := 3 * x * x % P
    let x' := (m * m + 2 * P - 2 * s % P) % P
    let y' := (m * ((s + P - x') % P) + P - 8 * (y2 * y2 % P) % P) % P
    (x', y', 2 * y * z % P)

def jAdd (p q : J) : J :=
  let (x1, y1, z1) := p
  let (x2, y2, z2) := q
  if z1 = 0 then q else if z2 = 0 then p
  else
    let z1s := z1 * z1 % P
    let z2s := z2 * z2 % P
    let u1 := x1 * z2s % P
    let u2 := x2 * z1s % P
    let s1 := y1 * (z2s * z2 % P) % P
    let s2 := y2 * (z1s * z1 % P) % P
    if u1 = u2 then (if s1 = s2 then jDouble p else jInf)
    else
      let h := (u2 + P - u1) % P
      let r := (s2 + P - s1) % P
      let h2 := h * h % P
      let h3 := h2 * h % P
      let x3 := (r * r + 2 * P - h3 - 2 * (u1 * h2 % P) % P) % P
      let y3 := (r * ((u1 * h2 % P + P - x3) % P) + P - s1 * h3 % P) % P
      (x3, y3, h * z1 % P * z2 % P)

def jMulLoop : Nat → Nat → J → J → J
  | 0, _, _, acc => acc
  | f + 1, k, base, acc =>
    if k = 0 then acc
    else jMulLoop f (k / 2) (jDouble base) (if k % 2 = 1 then jAdd acc base else acc)

def jMul (k : Nat) (p : J) : J := jMulLoop 300 k p jInf

def toAffine (p : J) : Pt :=
  let (x, y, z) := p
  if z = 0 then none
  else
    match inverseMod z P with
    | .error _ => none
    | .ok zi =>
      let zi := zi.toNat
      let zi2 := zi * zi % P
      some (((x * zi2 % P : Nat) : Int), ((y * (zi2 * zi % P) % P : Nat) : Int))

def ofAffine : Pt → J
  | none => jInf
  | some (x, y) => ((fmod x P).toNat, (fmod y P).toNat, 1)

def G : J := ((fmod cv.gx P).toNat, (fmod cv.gy P).toNat, 1)

/-- `generator.sign(d, z)` -/
def sign (d z : Int) : Except Curve.Err (Int × Int) :=
  if z = 0 then .error .value
  else
    match RFC6979.deterministicGenerateK N d z with
    | .error e => .error e
    | .ok k =>
      match toAffine (jMul (fmod k N).toNat G), inverseMod k N with
      | some (x, _), .ok kInv =>
        let r := fmod x N
        let s := fmod (kInv * (z + fmod (d * r) N)) N
        if r ≠ 0 ∧ s ≠ 0 then .ok (r, s) else RFC6979.sign cv 0 d z
      | _, _ => RFC6979.sign cv 0 d z

/-- `generator.verify(Q, z, (r, s))` -/
def verify (Q : Pt) (z r s : Int) : Except Curve.Err Bool :=
  if z = 0 then .ok false
  else if r < 1 ∨ r ≥ N ∨ s < 1 ∨ s ≥ N then .ok false
  else
    match inverseMod s N with
    | .error e => .error e
    | .ok sInv =>
      if ¬ containsPoint cv Q then .error .noSuchPoint
      else
        let u1 := fmod (z * sInv) N
        let u2 := fmod (r * sInv) N
        match toAffine (jAdd (jMul u1.toNat G) (jMul u2.toNat (ofAffine Q))) with
        | none => .ok false
        | some (x, _) => .ok (fmod x N = r)

def crypto : Sign.Crypto :=
  { order := N, sign := sign, verify := verify, secToPair := Sign.secToPublicPair cv }

end Pycoin.DriverLib.FastSecp
