import Pycoin.DriverLib.TxText
import Pycoin.Model.TxHistory
/-!
Line protocol for histories: `tx_hist coin tx steps` / `check_hist coin tx steps`; steps joined by `!`, arguments by `=`.
Observers: id hash w_id w_hash blanked as_bin bin_len as_hex as_bin_u check is_coinbase bad.
Mutators: script=i=bytes witness=i=wit setwit=i=wit seq=i=n idx=i=n phash=i=bytes oval=j=n oscript=j=bytes addin=txin delin=i
addout=txout delout=j ver=n lock=n unspents=list.   Answer: `ok a!a!…` (`.` for a mutator that succeeded).
-/
namespace Pycoin.DriverLib
open Pycoin Pycoin.Driver Pycoin.History Pycoin.Wire

def parseStep? (s : String) : Option Step :=
  match s.splitOn "=" with
  | ["id"] => some (.obs .id) | ["hash"] => some (.obs .hash) | ["w_id"] => some (.obs .wId)
  | ["w_hash"] => some (.obs .wHash) | ["blanked"] => some (.obs .blankedHash) | ["as_bin"] => some (.obs .asBin)
  | ["bin_len"] => some (.obs .binLen) | ["as_hex"] => some (.obs .asHex) | ["as_bin_u"] => some (.obs .asBinU)
  | ["check"] => some (.obs .check) | ["is_coinbase"] => some (.obs .isCoinbase) | ["bad"] => some (.obs .badSolutionCount)
  | ["script", i, b] => do some (.mut (.script (← parseNat? i) (← parseBytes? b)))
  | ["witness", i, w] => do some (.mut (.witness (← parseNat? i) (← parseWitness? w)))
  | ["setwit", i, w] => do some (.mut (.setWitness (← parseNat? i) (← parseWitness? w)))
  | ["seq", i, v] => do some (.mut (.sequence (← parseNat? i) (← parseInt? v)))
  | ["idx", i, v] => do some (.mut (.prevIndex (← parseNat? i) (← parseInt? v)))
  | ["phash", i, b] => do some (.mut (.prevHash (← parseNat? i) (← parseBytes? b)))
  | ["oval", j, v] => do some (.mut (.outValue (← parseNat? j) (← parseInt? v)))
  | ["oscript", j, b] => do some (.mut (.outScript (← parseNat? j) (← parseBytes? b)))
  | ["addin", t] => do some (.mut (.addIn (← parseTxIn? t)))
  | ["delin", i] => do some (.mut (.delIn (← parseNat? i)))
  | ["addout", o] => do some (.mut (.addOut (← parseTxOut? o)))
  | ["delout", j] => do some (.mut (.delOut (← parseNat? j)))
  | ["ver", v] => do some (.mut (.version (← parseInt? v)))
  | ["lock", v] => do some (.mut (.lockTime (← parseInt? v)))
  | ["unspents", us] => do some (.mut (.unspents (← parseUnspents? us)))
  | _ => none

def showAns : Ans → String
  | .mutOk => "."
  | .mutErr .indexError => "err:IndexError"
  | .mutErr .valueError => "err:ValueError"
  | .bytes (.ok b) => encodeHexFast b
  | .bytes (.error e) => "err:" ++ e.tag
  | .chars (.ok s) => if s.isEmpty then "-" else String.ofList s
  | .chars (.error e) => "err:" ++ e.tag
  | .nat (.ok n) => toString n
  | .nat (.error e) => "err:" ++ e.tag
  | .check (.ok ()) => "ok"
  | .check (.error e) => e.tag
  | .bool b => showBool b
  | .count (some n) => toString n
  | .count none => "n/a"

def histOp (c tx steps : String) : Option String := do
  let c ← parseCoin? c
  let tx ← parseTx? tx
  let steps ← (steps.splitOn "!").mapM parseStep?
  some ("ok " ++ "!".intercalate ((run c ⟨tx, []⟩ steps).map showAns))

end Pycoin.DriverLib
