import Pycoin.Driver.Core
import Pycoin.Model.ScriptNum
import Pycoin.Model.ScriptStreamer
import Pycoin.Model.ScriptTools
/-!
C12 ops:
  numenc v                      -> ok <bytes>
  numdec <0|1> <bytes>          -> ok v | err ScriptError
  push <d1,d2,…>                -> ok <bytes> | err <Class>        (entries: hex, `-` empty, `none` = Python None)
  getop <script> <pc> <0|1>     -> ok <opcode> <data|none> <newpc> <0|1> | err <Class>
  ops <script> <0|1>            -> ok <opcode:data:pc:newpc,…> [err <Class>]
  disasm <script>               -> ok <hex of the UTF-8 text>
  compile <hex of UTF-8 text>   -> ok <bytes> | err <Class>
-/
namespace Pycoin.Driver.C12
open Pycoin.Driver Pycoin.ScriptNum Pycoin.Script

def parseFlag? (s : String) : Option Bool :=
  if s = "0" then some false else if s = "1" then some true else none

def parseOptBytes? (s : String) : Option (Option Bytes) :=
  if s = "none" then some none else (parseHex? s).map some

def showData : Option Bytes → String
  | none => "none"
  | some d => hx d

def textOfBytes? (b : Bytes) : Option Text :=
  (String.fromUTF8? (ByteArray.mk b.toArray)).map String.toList

def handleCore : Handler := fun op args =>
  match op, args with
  | "numenc", [v] => do
    some ("ok " ++ hx (intToScriptBytes (← parseInt? v)))
  | "numdec", [m, b] => do
    match intFromScriptBytes (← parseHex? b) (← parseFlag? m) with
    | .ok v => some s!"ok {v}"
    | .error .scriptError => some "err ScriptError"
  | "push", [l] => do
    match compilePushDataList (← parseList? parseOptBytes? l) with
    | .ok b => some ("ok " ++ hx b)
    | .error e => some ("err " ++ e.tag)
  | "getop", [s, pc, m] => do
    match getOpcode (← parseHex? s) (← parseNat? pc) (← parseFlag? m) with
    | .ok r => some s!"ok {r.opcode.toNat} {showData r.data} {r.pc} {showBool r.isOk}"
    | .error e => some ("err " ++ e.tag)
  | "ops", [s, m] => do
    let r := getOpcodes (← parseHex? s) (← parseFlag? m) 0
    let items := showList (fun (it : Item) => s!"{it.opcode.toNat}:{showData it.data}:{it.pc}:{it.newPc}") r.1
    match r.2 with
    | none => some ("ok " ++ items)
    | some e => some ("ok " ++ items ++ " err " ++ e.tag)
  | "disasm", [s] => do
    some ("ok " ++ hx (utf8 (disassemble (← parseHex? s))))
  | "compile", [t] => do
    let txt ← textOfBytes? (← parseHex? t)
    match compile txt with
    | .ok b => some ("ok " ++ hx b)
    | .error e => some ("err " ++ e.tag)
  | _, _ => none

/-- `dialect_then <op> <args…>`: the harness first builds and uses a second `ScriptStreamer` of another (toy) dialect in the
same process and then evaluates `<op>` on the network's streamer; the model has no shared state, so the answer is that of
`<op>` alone -/
def handle : Handler := fun op args =>
  match op, args with
  | "dialect_then", op' :: args' => handleCore op' args'
  -- `asview <kind> <op> …`: the script is handed over as a bytearray / memoryview instead of bytes: same answer
  | "asview", _kind :: op' :: args' => handleCore op' args'
  | _, _ => handleCore op args

end Pycoin.Driver.C12
