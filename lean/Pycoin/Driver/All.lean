import Pycoin.Driver.Core
import Pycoin.Driver.C13
namespace Pycoin.Driver
def allHandlers : List Handler := [C13.handle]
end Pycoin.Driver
