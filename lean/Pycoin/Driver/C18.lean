import Pycoin.Driver.C08
import Pycoin.Model.ParseText
import Pycoin.Model.Hmac
import Pycoin.Model.Curve
import Pycoin.Model.RealKeyEnv
/-!
C18 ops: `c18parse <net> <entry> <texthex>` evaluates one `ParseAPI` entry point and prints the object that came back
together with its text forms.  `drvKeyEnv` is `realKeyEnv` (`Model/RealKeyEnv.lean`) with a faster `se·G`; `realKeyEnv` is the C02 curve model (`raw_mul`, `points_for_x`, `contains_point`) over the generated generator
parameters; `Proofs/RealKeyEnv.lean: real_key_laws` proves `KeyLaws realKeyEnv`, which the `_real` theorems of `Props/C18.lean` instantiate.
-/
namespace Pycoin.Driver.C18
open Pycoin.Addr Pycoin.Driver Pycoin.Gen.Networks
open Pycoin.Driver.C08 (parseText? showInfo)

def powMod (a e m : Nat) : Nat := Id.run do
  let mut r := 1
  let mut b := a % m
  let mut k := e
  while k > 0 do
    if k % 2 = 1 then r := r * b % m
    b := b * b % m
    k := k / 2
  return r

def P := genP

def imod (x : Int) : Nat := (x % (P : Int)).toNat

def invP (a : Nat) : Nat := powMod a (P - 2) P

/-- Jacobian doubling on y² = x³ + ax + b over F_p; Z = 0 is the point at infinity -/
def jDouble (pt : Nat × Nat × Nat) : Nat × Nat × Nat :=
  let (x, y, z) := pt
  if y = 0 ∨ z = 0 then (1, 1, 0)
  else
    let y2 := y * y % P
    let s := 4 * x * y2 % P
    let z2 := z * z % P
    let m := (3 * x * x + genA * (z2 * z2 % P)) % P
    let x' := (m * m + 2 * P - 2 * s % P) % P
    let y' := (m * ((s + P - x') % P) + P - 8 * (y2 * y2 % P) % P) % P
    (x', y', 2 * y * z % P)

def jAdd (p q : Nat × Nat × Nat) : Nat × Nat × Nat :=
  let (x1, y1, z1) := p
  let (x2, y2, z2) := q
  if z1 = 0 then q else if z2 = 0 then p
  else
    let z1s := z1 * z1 % P
    let z2s := z2 * z2 % P
    let u1 := x1 * z2s % P
    let u2 := x2 * z1s % P
    let s1 := y1 * (z2s * z2 % P) % P
    let s2 := y2 * (z1s * z1 % P) % P
    if u1 = u2 then (if s1 = s2 then jDouble p else (1, 1, 0))
    else
      let h := (u2 + P - u1) % P
      let r := (s2 + P - s1) % P
      let h2 := h * h % P
      let h3 := h2 * h % P
      let x3 := (r * r + 2 * P - h3 - 2 * (u1 * h2 % P) % P) % P
      let y3 := (r * ((u1 * h2 % P + P - x3) % P) + P - s1 * h3 % P) % P
      (x3, y3, h * z1 % P * z2 % P)

def ecMul (k : Nat) (p : Option (Nat × Nat)) : Option (Nat × Nat) := Id.run do
  match p with
  | none => return none
  | some (gx, gy) =>
    let mut r : Nat × Nat × Nat := (1, 1, 0)
    let mut a : Nat × Nat × Nat := (gx, gy, 1)
    let mut n := k
    while n > 0 do
      if n % 2 = 1 then r := jAdd r a
      a := jDouble a
      n := n / 2
    let (x, y, z) := r
    if z = 0 then return none
    let zi := invP z
    let zi2 := zi * zi % P
    return some (x * zi2 % P, y * (zi2 * zi % P) % P)

/-- the Jacobian ladder for `se·G` (≈10× faster than the affine table walk of the C02 model); op `c18mulg` cross-checks it
against `realKeyEnv.mulG` (= `Curve.rawMul`, `Proofs/RealKeyEnv.lean`) and the implementation -/
def fastMulG (se : Nat) : Pt := match ecMul se (some (genGx, genGy)) with
  | some (x, y) => ((x : Int), (y : Int))
  | none => (0, 0)

/-- what the driver evaluates: `realKeyEnv` (`Model/RealKeyEnv.lean`, the environment of the `_real` theorems) with `se·G`
computed by the Jacobian ladder instead of the C02 model's table walk (`realMulG`: 25 ms per call, three times the quick
tier's budget).  The two agree on every exponent tried by op `c18mulg` (boundary and random exponents on every run), and every
key op compares the resulting public pair with the implementation; all other fields are the proved ones. -/
def drvKeyEnv : KeyEnv := { realKeyEnv with mulG := fastMulG }

/-- `realEnv` with the two decodings of `text` computed once (what `parseable_str.cache` does) -/
def memoEnv (text : String) : Env :=
  let d58 := realEnv.b58cDec .sha256d text
  let d58g := realEnv.b58cDec .groestl text
  let d32 := realEnv.bech32Parse text
  { realEnv with
    b58cDec := fun k s => if s = text then (match k with | .sha256d => d58 | .groestl => d58g) else realEnv.b58cDec k s
    bech32Parse := fun s => if s = text then d32 else realEnv.bech32Parse s }

def showExcept {α} (f : α → String) : Except Err α → String
  | .ok a => f a
  | .error e => "err:" ++ e.tag

def showKey (k : KeyObj) : String :=
  s!"se={match k.se with | some s => toString s | none => "-"} x={k.pub.1} y={k.pub.2} c={showBool k.compressed}"

def showObj (net : Network) : Obj → String
  | .contract i =>
    "contract " ++ showInfo i ++ " script=" ++ showExcept hx (contractScript i)
      ++ " address=" ++ showExcept (fun o => o.getD "None") (contractAddress realEnv net i)
  | .key k => "key " ++ showKey k ++ " text=" ++ showExcept id (keyText realEnv net k)
  | .electrum k => "electrum " ++ showKey k ++ " text=" ++ showExcept id (keyText realEnv net k)
  | .node n =>
    s!"bip{n.kind} depth={n.depth} fp={hx n.fingerprint} idx={n.childIndex} chain={hx n.chainCode} " ++ showKey n.key
      ++ " text=" ++ showExcept id (hwif realEnv net n false)
      ++ " prv=" ++ (if n.key.se.isSome then showExcept id (hwif realEnv net n true) else "-")

def showPOut (net : Network) : POut → String
  | .error e => "err " ++ e.tag
  | .ok none => "ok None"
  | .ok (some o) => "ok " ++ showObj net o

/-- one `parseable_str` object through a list of `net:entry` calls; answers joined by ` | ` -/
def history (text steps : String) : Option String := do
  let text ← parseText? text
  let steps ← parseList? (fun st => match st.splitOn ":" with
    | [n, e] => do pure ((← findNet n), e)
    | _ => none) steps
  let outs := historyRun realEnv text (fun e (st : Network × String) => (st.1, parseEntry e drvKeyEnv st.1 st.2 text)) PsCache.empty steps
  let shown ← outs.mapM fun (net, r) => r.map (showPOut net)
  some ("ok " ++ " | ".intercalate shown)

def handle : Handler := fun op args =>
  match op, args with
  -- `c18made`: the same call, on a text the network's own producer of that kind wrote (the harness then insists on acceptance)
  | "c18made", [net, entry, text] => do
    let net ← findNet net
    let text ← parseText? text
    let r ← parseEntry (memoEnv text) drvKeyEnv net entry text
    some (showPOut net r)
  | "c18parse", [net, entry, text] => do
    let net ← findNet net
    let text ← parseText? text
    let r ← parseEntry (memoEnv text) drvKeyEnv net entry text
    some (showPOut net r)
  | "c18kinds", [net, text] => do
    let net ← findNet net
    let text ← parseText? text
    let env := memoEnv text
    let rec go : List String → List String → String
      | [], acc => "ok " ++ showList id acc.reverse
      | e :: es, acc =>
        match parseEntry env drvKeyEnv net e text with
        | some (.error err) => "err " ++ e ++ ":" ++ err.tag
        | some (.ok (some _)) => go es (e :: acc)
        | _ => go es acc
    some (go checksummedEntries [])
  | "c08history", [text, steps] => history text steps
  | "c18history", [text, steps] => history text steps
  | "c18mulg", [se] => do
    let se ← parseNat? se
    let fast := fastMulG se
    match Curve.rawMulLoop curve powersTable (fmod (se : Int) genOrder) none with
    | .ok (some pt) => some (if pt = fast then s!"ok {pt.1} {pt.2}" else "ok MISMATCH")
    | _ => some "ok infinity"
  | "c18number", [text] => do
    match asNumber (← parseText? text) with
    | some v => some ("ok " ++ (if v < 0 then "-" else "") ++ String.ofList (Nat.toDigits 16 v.natAbs))
    | none => some "ok None"
  | _, _ => none

end Pycoin.Driver.C18
