import Pycoin.Driver.Core
import Pycoin.DriverLib.TxText
import Pycoin.Model.Message
import Pycoin.Model.P2PObjects
/-!
Line protocol for p2p messages (see harness/msglib.py for the value syntax):
`msg_rt <name> <fields> [tag]` packs then parses; `msg_parse <name> <hex>` parses.
Embedded transactions / blocks / headers travel as the hex of their bytes and are parsed with the BTC classes.
-/
namespace Pycoin.Driver.C16
open Pycoin Pycoin.Driver Pycoin.DriverLib Pycoin.Msg

def coin : Coin := .btc
def btcNet : Net := ⟨.btc, false⟩

def findNet (code : String) : Option Net :=
  (Pycoin.Gen.Messages.networks.find? (·.1 = code.toList)).map fun r => ⟨r.2.1, r.2.2⟩

def parseScalar? (n : Net) (s : String) : Option MVal :=
  if s = "N" then some .none
  else if s = "T" then some (.bool true)
  else if s = "F" then some (.bool false)
  else
    match s.toList with
    | 'x' :: rest => if rest.isEmpty then some (.bytes []) else (decodeHexFast (String.ofList rest)).map .bytes
    | 'A' :: rest =>
      match (String.ofList rest).splitOn "_" with
      | [a, b, p] => do pure (.addr (← parseInt? a) (← decodeHexFast b) (← parseInt? p))
      | _ => none
    | 'V' :: rest =>
      match (String.ofList rest).splitOn "_" with
      | [a, b] => do pure (.inv (← parseInt? a) (← decodeHexFast b))
      | _ => none
    | 't' :: rest => do
      let b ← decodeHexFast (String.ofList rest)
      match Tx.parse n.coin b with
      | .ok (t, []) => some (.tx t)
      | _ => none
    | 'b' :: rest => do
      let b ← decodeHexFast (String.ofList rest)
      if n.btgHeader then
        match BtgBlock.parse n.coin b with
        | .ok (blk, []) => some (.blockBtg blk)
        | _ => none
      else
      match Block.parse n.coin true true b with
      | .ok (blk, []) => some (.block blk)
      | _ => none
    | 'h' :: rest => do
      let b ← decodeHexFast (String.ofList rest)
      if n.btgHeader then
        match BtgBlock.parseAsHeader b with
        | .ok (h, []) => some (.blockBtg ⟨h, []⟩)
        | _ => none
      else
      match Block.parseAsHeader b with
      | .ok (h, []) => some (.block ⟨h, []⟩)
      | _ => none
    | _ => (parseInt? s).map .int

def parseElem? (n : Net) (s : String) : Option MVal :=
  if s.startsWith "(" then
    (((s.drop 1).toString.dropEnd 1).toString.splitOn "/").mapM (parseScalar? n) |>.map .seq
  else parseScalar? n s

def parseVal? (n : Net) (s : String) : Option MVal :=
  if s = "[]" then some (.seq [])
  else if s.startsWith "[" then
    (((s.drop 1).toString.dropEnd 1).toString.splitOn ",").mapM (parseElem? n) |>.map .seq
  else parseScalar? n s

def parseFields? (n : Net) (s : String) : Option Kwargs :=
  if s = "~" then some [] else
  (s.splitOn ";").mapM fun item =>
    match item.splitOn "=" with
    | [k, v] => do pure (k.toList, ← parseVal? n v)
    | _ => none

def hexOf (b : Bytes) : String := if b.isEmpty then "" else encodeHexFast b

def showScalar : MVal → String
  | .int v => toString v
  | .bytes b => "x" ++ hexOf b
  | .bool b => if b then "T" else "F"
  | .none => "N"
  | .addr s ip p => s!"A{s}_{hexOf ip}_{p}"
  | .inv t d => s!"V{t}_{hexOf d}"
  | .tx t => match Tx.stream t with | .ok b => "t" ++ hexOf b | .error _ => "t?"
  | .block blk =>
    if blk.txs.isEmpty then (match Block.streamHeader blk.hdr with | .ok b => "h" ++ hexOf b | .error _ => "h?")
    else (match Block.stream blk with | .ok b => "b" ++ hexOf b | .error _ => "b?")
  | .blockBtg blk =>
    if blk.txs.isEmpty then (match BtgBlock.streamHeader blk.hdr with | .ok b => "h" ++ hexOf b | .error _ => "h?")
    else (match BtgBlock.stream blk with | .ok b => "b" ++ hexOf b | .error _ => "b?")
  | .seq _ => "?"
  | .dict _ => "?"

def showElem : MVal → String
  | .seq l => "(" ++ "/".intercalate (l.map showScalar) ++ ")"
  | v => showScalar v

def showVal : MVal → String
  | .seq l => "[" ++ ",".intercalate (l.map showElem) ++ "]"
  | .dict l => "{" ++ "&".intercalate (l.map fun (k, v) => String.ofList k ++ "=" ++
      (match v with | .seq l => "[" ++ ",".intercalate (l.map showElem) ++ "]" | x => showScalar x)) ++ "}"
  | v => showScalar v

/-- fields of the layout first, then (`+name=`) whatever a post-processor added -/
def showDict (nFields : Nat) (d : Kwargs) : String :=
  if d.isEmpty then "~" else
  ";".intercalate ((d.zipIdx).map fun ((k, v), i) => (if i < nFields then "" else "+") ++ String.ofList k ++ "=" ++ showVal v)

def layoutFieldCount (name : List Char) : Nat :=
  match findLayout name Pycoin.Gen.Messages.layouts with
  | none => 0
  | some l => match parserNamesTypes l with | .ok (ns, _) => ns.length | .error _ => 0

def hexOrDash (b : Bytes) : String := if b.isEmpty then "-" else encodeHexFast b


/-! ### helper objects as objects -/
open Pycoin.P2P in
def flags6 (lt eq : Bool) : String :=
  String.ofList ([eq, !eq, lt, leOf lt eq, gtOf lt eq, geOf lt].map fun b => if b then '1' else '0')

open Pycoin.P2P in
def paAnswer (a : PeerAddress) (st : List String) : Option (String × PeerAddress) :=
  match st with
  | ["host"] => some (String.ofList a.host, a)
  | ["bin"] => some ((match Msg.peerAddressSer (.addr a.services a.ip a.port) with | .ok b => hexOrDash b | .error e => "err:" ++ e.tag), a)
  | ["set", "services", v] => do some ("-", { a with services := ← parseInt? v })
  | ["set", "port", v] => do some ("-", { a with port := ← parseInt? v })
  | ["set", "ip", v] => do some ("-", { a with ip := ← parseHex? v })
  | ["cmp", s, ip, p] => do
    let b ← PeerAddress.new (← parseInt? s) (← parseHex? ip) (← parseInt? p)
    some (flags6 (a.lt b) (a.eq b), a)
  | _ => none

open Pycoin.P2P in
def invAnswer (a : InvItem) (st : List String) : Option (String × InvItem) :=
  match st with
  | ["bin"] => some ((match Msg.invItemSer (.inv a.itemType a.data) with | .ok b => hexOrDash b | .error e => "err:" ++ e.tag), a)
  | ["set", "type", v] => do some ("-", { a with itemType := ← parseInt? v })
  | ["set", "data", v] => do some ("-", { a with data := ← parseHex? v })
  | ["cmp", t, d] => do
    let b ← InvItem.new (← parseInt? t) (← parseHex? d) true
    some (flags6 (a.lt b) (a.eq b) ++ toString (setSize (a.eq b)), a)
  | _ => none

def runObj {α : Type} (f : α → List String → Option (String × α)) : α → List String → Option (List String)
  | _, [] => some []
  | a, st :: sts => do
    let (ans, a') ← f a (st.splitOn ":")
    let rest ← runObj f a' sts
    some (ans :: rest)

open Pycoin.P2P in
def handleObj : Handler := fun op args =>
  match op, args with
  | "pa_new", [s, ip, p] => do
    match PeerAddress.new (← parseInt? s) (← parseHex? ip) (← parseInt? p) with
    | none => some "err AssertionError"
    | some a => some s!"ok {a.services} {hx a.ip} {a.port} {String.ofList a.host}"
  | "pa_cmp", [s1, ip1, p1, s2, ip2, p2] => do
    let a ← PeerAddress.new (← parseInt? s1) (← parseHex? ip1) (← parseInt? p1)
    let b ← PeerAddress.new (← parseInt? s2) (← parseHex? ip2) (← parseInt? p2)
    some ("ok " ++ flags6 (a.lt b) (a.eq b) ++ " 0")
  | "pa_hist", [s, ip, p, steps] => do
    let a ← PeerAddress.new (← parseInt? s) (← parseHex? ip) (← parseInt? p)
    some ("ok " ++ "|".intercalate (← runObj paAnswer a (steps.splitOn ",")))
  | "inv_new", [t, d, dc] => do
    match InvItem.new (← parseInt? t) (← parseHex? d) (dc = "1") with
    | none => some "err AssertionError"
    | some a => some s!"ok {a.itemType} {hx a.data}"
  | "inv_cmp", [t1, d1, t2, d2] => do
    let a ← InvItem.new (← parseInt? t1) (← parseHex? d1) true
    let b ← InvItem.new (← parseInt? t2) (← parseHex? d2) true
    some ("ok " ++ flags6 (a.lt b) (a.eq b) ++ " " ++ toString (setSize (a.eq b)) ++ " 1 0")
  | "inv_hist", [t, d, steps] => do
    let a ← InvItem.new (← parseInt? t) (← parseHex? d) true
    some ("ok " ++ "|".intercalate (← runObj invAnswer a (steps.splitOn ",")))
  | _, _ => none

def handle : Handler := fun op args =>
  match op, args with
  | "msg_rt", name :: fields :: _tag =>
    match parseFields? btcNet fields with
    | none => some "err build"
    | some kw =>
      match Msg.pack coin name.toList kw with
      | .error e => some ("err pack " ++ e.tag)
      | .ok data =>
        match Msg.parse coin name.toList data with
        | .error e => some s!"err parse {e.tag} {hexOrDash data}"
        | .ok d => some s!"ok {hexOrDash data} {showDict (layoutFieldCount name.toList) d}"
  | "msg_parse", [name, data] => do
    let data ← if data = "-" then some [] else decodeHexFast data
    match Msg.parse coin name.toList data with
    | .error e => some ("err " ++ e.tag)
    | .ok d => some ("ok " ++ showDict (layoutFieldCount name.toList) d)
  -- a process history over several networks: steps `net:pack:name:fields` / `net:parse:name:hex` joined by `|`;
  -- one answer per step, joined by `|` (the model keeps no state between steps: `Msg.runHistory`)
  | "msg_hist", [steps] =>
    let one (st : String) : Option (Option Call × Nat) :=
      match st.splitOn ":" with
      | [net, "pack", name, fields] => do
        let n ← findNet net
        match parseFields? n fields with
        | none => some (none, 0)
        | some kw => some (some (.pack n name.toList kw), layoutFieldCount name.toList)
      | [net, "parse", name, data] => do
        let n ← findNet net
        let data ← if data = "-" then some [] else decodeHexFast data
        some (some (.parse n name.toList data), layoutFieldCount name.toList)
      | _ => none
    match (steps.splitOn "|").mapM one with
    | none => none
    | some calls =>
      let answers := runHistory () (calls.filterMap (·.1))
      let rec zip : List (Option Call × Nat) → List Answer → List String
        | [], _ => []
        | (none, _) :: cs, as => "err:build" :: zip cs as
        | (some _, nf) :: cs, a :: as =>
          (match a with
           | .bytes (.ok b) => hexOrDash b
           | .bytes (.error e) => "err:" ++ e.tag
           | .dict (.ok d) => showDict nf d
           | .dict (.error e) => "err:" ++ e.tag) :: zip cs as
        | (some _, _) :: _, [] => []
      some ("ok " ++ "|".intercalate (zip calls answers))
  | _, _ => handleObj op args

end Pycoin.Driver.C16
