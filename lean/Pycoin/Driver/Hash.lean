import Pycoin.Driver.Core
import Pycoin.Model.Hash
/-! Driver ops of the shared hash foundation (standard-spec functions; validated against hashlib/hmac by C19). -/
namespace Pycoin.Driver.Hash
open Pycoin.Driver Pycoin.Hash

def handle : Handler := fun op args =>
  match op, args with
  | "sha256", [m] => do some ("ok " ++ hx (sha256 (← parseHex? m)))
  | "dsha256", [m] => do some ("ok " ++ hx (dsha256 (← parseHex? m)))
  | "sha512", [m] => do some ("ok " ++ hx (sha512 (← parseHex? m)))
  | "sha1", [m] => do some ("ok " ++ hx (sha1 (← parseHex? m)))
  | "ripemd160_spec", [m] => do some ("ok " ++ hx (ripemd160 (← parseHex? m)))
  | "hash160", [m] => do some ("ok " ++ hx (hash160 (← parseHex? m)))
  | "hmac256", [k, m] => do some ("ok " ++ hx (hmacSha256 (← parseHex? k) (← parseHex? m)))
  | "hmac512", [k, m] => do some ("ok " ++ hx (hmacSha512 (← parseHex? k) (← parseHex? m)))
  | _, _ => none
end Pycoin.Driver.Hash
