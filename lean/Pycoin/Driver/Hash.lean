import Pycoin.Driver.Core
import Pycoin.Model.Sha256
namespace Pycoin.Driver.Hash
open Pycoin.Driver Pycoin.Hash

def handle : Handler := fun op args =>
  match op, args with
  | "sha256", [m] => do some ("ok " ++ hx (sha256 (← parseHex? m)))
  | "dsha256", [m] => do some ("ok " ++ hx (dsha256 (← parseHex? m)))
  | _, _ => none
end Pycoin.Driver.Hash
