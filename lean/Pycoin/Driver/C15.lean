import Pycoin.Driver.Core
import Pycoin.Model.BlockChainApi
/-!
`c15 <anchor> <iter> <headers> <steps>` — a whole history of `add_headers` / `lock_to_index` calls
(see harness/props/c15.py for the syntax and the answer format).
-/
namespace Pycoin.Driver.C15
open Pycoin.Chain Pycoin.Driver

def parseDots? (s : String) : Option (List Nat) :=
  if s = "" then some [] else (s.splitOn ".").mapM parseNat?

def parseHeader? (s : String) : Option Header :=
  match s.splitOn ":" with
  | [h, p, w] => do pure ⟨← parseNat? h, ← parseNat? p, ← parseNat? w⟩
  | _ => none

/-- a step of the line protocol: a call the theorems speak about, or `preload_locked_blocks` -/
inductive DStep
  | s (st : Step)
  | pre (hdrs : List Header)

def parseStep? (hdrs : List Header) (s : String) : Option DStep := do
  let kind := s.take 1 |>.toString
  let rest := (s.drop 1).toString
  let (body, rk) ← match rest.splitOn "!" with
    | [b] => some (b, "")
    | [b, r] => some (b, r)
    | _ => none
  let rank ← parseDots? rk
  if kind = "A" then
    let hs ← parseDots? body
    let batch ← hs.mapM fun h => hdrs.find? (·.hash = h)
    pure (.s (Step.add batch rank))
  else if kind = "L" then
    pure (.s (Step.lock (← parseNat? body) rank))
  else if kind = "P" then
    let hs ← parseDots? body
    let pre ← hs.mapM fun h => hdrs.find? (·.hash = h)
    pure (.pre pre)
  else none

def dots (l : List String) : String := if l.isEmpty then "~" else ".".intercalate l

def showOp : Op → String
  | .add h i => "+" ++ (match h with | some h => toString h | none => "-1") ++ "@" ++ toString i
  | .remove h i => "-" ++ (match h with | some h => toString h | none => "-1") ++ "@" ++ toString i

def showItem (t : Item) : String :=
  s!"{t.1}:{t.2.1}:" ++ (match t.2.2 with | some w => toString w | none => "-")

def showErr (e : Err) : String := "err " ++ e.tag

/-- a `lock_to_index` beyond the reported chain: outside the property, the history stops before the call -/
def beyond (rev : Bool) (bc : BC) : DStep → Bool
  | .s (.lock index _) => match bc.length rev with
    | .ok n => index > n
    | .error _ => false
  | _ => false

def showExH : Except Err Nat → String
  | .ok h => toString h
  | .error _ => "E"

/-- everything the harness reads after a step -/
def observe (rev : Bool) (hdrs : List Header) (isAdd : Bool) (o : Obs) (q : List Op) (bc : BC) : Except Err String := do
  let n ← bc.length rev
  let chain ← (List.range n).mapM (bc.hashForIndex rev)
  let tups ← (List.range n).mapM (bc.tupleForIndex rev)
  let last ← bc.lastBlockHashI rev
  let sops := if isAdd then dots (o.ops.map showOp) else "~"
  let lk := match o.lockCb with
    | some (items, start) => s!"{start}:" ++ dots (items.map showItem)
    | none => "~"
  let idx := dots (hdrs.map fun h => s!"{h.hash}:" ++ (match bc.indexForHash h.hash with | some i => toString i | none => "-"))
  -- negative indices -1 … -n, the first index out of range on either side, the whole tuple at -1
  let neg ← (List.range n).mapM fun (i : Nat) => bc.hashForIndexI rev (-(i : Int) - 1)
  let oob := showExH (bc.hashForIndexI rev (-(n : Int) - 1)) ++ "," ++ showExH (bc.hashForIndexI rev (n : Int))
  let nt := match bc.tupleForIndexI rev (-1) with
    | .ok t => showItem t
    | .error _ => "E"
  let ul ← bc.unlockedLength rev
  let known := String.join (hdrs.map fun h => showBool (bc.isHashKnown h.hash))
  .ok (s!"ops={sops};cb={sops};lk={lk};len={n};locked={bc.lockedLength};chain={dots (chain.map toString)};last={last};idx={idx};tup={dots (tups.map showItem)}" ++
       s!";neg={dots (neg.map toString)};oob={oob};nt={nt};ul={ul};known={if known.isEmpty then "~" else known};q={dots (q.map showOp)}")

/-- one call; the change callback feeds its ops through `_update_q` into the queue `q` -/
def dstep (rev : Bool) (bc : BC) (q : List Op) : DStep → Except Err (Obs × BC × List Op × Bool)
  | .s (.add batch rank) => do
    let (o, bc') ← bc.step rev (.add batch rank)
    let q' ← updateQ q o.ops
    .ok (o, bc', q', true)
  | .s (.lock index rank) => do
    let (o, bc') ← bc.step rev (.lock index rank)
    .ok (o, bc', q, false)
  | .pre pre => .ok (⟨[], none⟩, bc.preload pre, q, false)

def run (rev : Bool) (hdrs : List Header) : List DStep → BC → List Op → List String → List String
  | [], _, _, acc => acc.reverse
  | s :: ss, bc, q, acc =>
    if beyond rev bc s then ("outside" :: acc).reverse else
    match dstep rev bc q s with
    | .error e => (showErr e :: acc).reverse
    | .ok (o, bc', q', isAdd) =>
      match observe rev hdrs isAdd o q' bc' with
      | .error e => (showErr e :: acc).reverse
      | .ok line => run rev hdrs ss bc' q' (line :: acc)

/-! `c15inv`: the finder-side hypotheses of the C15 theorems (`FinderSound`, `CF.Covers`, the cached chain is an
upward path of the current finder), evaluated after every step of the history -/

def upPathB (pl : Dict Nat) : List Nat → Bool
  | [] => false
  | [x] => (dget pl x).isNone
  | x :: y :: r => dget pl x == some y && upPathB pl (y :: r)

def soundB (cf : CF) : Bool :=
  cf.trees.all (fun e => e.2.head? == some e.1 && upPathB cf.parent e.2) &&
  cf.dbt.all (fun e => e.2.all fun b => match dget cf.trees b with
    | some t => t.getLast? == some e.1
    | none => false)

def coversB (cf : CF) : Bool :=
  cf.parent.all fun e => cf.trees.any fun tr =>
    tr.2.contains e.1 && (match tr.2.getLast? with
      | some top => (match dget cf.dbt top with
        | some s => s.contains tr.1
        | none => false)
      | none => false)

/-- `missing_parents()` with a non-empty set = parents of registered hashes that are not registered -/
def missingB (cf : CF) : Bool :=
  let waited := (cf.dbt.filter fun e => match dget cf.dbt e.1 with | some (_ :: _) => true | _ => false).map (·.1)
  let tops := (cf.parent.filter fun e => (dget cf.parent e.2).isNone).map (·.2)
  waited.all (tops.contains ·) && tops.all (waited.contains ·)

def cacheB (bc : BC) : Bool :=
  match bc.cache with
  | some c => upPathB bc.finder.parent (c ++ [bc.parentHash])
  | none => true

def runInv (rev : Bool) : List DStep → BC → List String → List String
  | [], _, acc => acc.reverse
  | s :: ss, bc, acc =>
    if beyond rev bc s then ("outside" :: acc).reverse else
    match (match s with
      | .s st => (match bc.step rev st with | .ok (_, b) => Except.ok b | .error e => .error e)
      | .pre pre => Except.ok (bc.preload pre) : Except Err BC) with
    | .error e => (showErr e :: acc).reverse
    | .ok bc' =>
      runInv rev ss bc' ((showBool (soundB bc'.finder) ++ showBool (coversB bc'.finder) ++ showBool (cacheB bc') ++
        showBool (missingB bc'.finder)) :: acc)

/-- `+h@i` / `-h@i`; `h = -1` stands for a block that is not in storage (`None`) -/
def parseOp? (s : String) : Option Op := do
  let kind := s.take 1 |>.toString
  match ((s.drop 1).toString).splitOn "@" with
  | [h, i] =>
    let i ← parseInt? i
    let h ← if h = "-1" then some none else (parseNat? h).map some
    if kind = "+" then some (Op.add h i) else if kind = "-" then some (Op.remove h i) else none
  | _ => none

def parseOps? (s : String) : Option (List Op) :=
  if s = "~" then some [] else (s.splitOn ".").mapM parseOp?

def handleCore : Handler := fun op args =>
  match op, args with
  | "c15q", [q, ops] => do
    -- `_update_q(q, ops)` on its own
    let q ← parseOps? q
    let ops ← parseOps? ops
    match updateQ q ops with
    | .ok q' => some ("ok " ++ dots (q'.map showOp))
    | .error e => some (showErr e)
  | "c15", [anchor, iter, hdrs, steps] => do
    let anchor ← parseNat? anchor
    let rev := iter = "1"
    let hdrs ← if hdrs = "~" then some [] else (hdrs.splitOn ",").mapM parseHeader?
    let steps ← if steps = "~" then some [] else (steps.splitOn ",").mapM (parseStep? hdrs)
    let out := run rev hdrs steps (BC.new anchor) [] []
    some ("ok " ++ (if out.isEmpty then "~" else "|".intercalate out))
  | "c15two", [iter, anchorA, hdrsA, anchorB, hdrsB, steps] => do
    -- two objects fed interleaved: in the model they share nothing, so each is its own history
    let rev := iter = "1"
    let parseH := fun (h : String) => if h = "~" then some [] else (h.splitOn ",").mapM parseHeader?
    let hA ← parseH hdrsA
    let hB ← parseH hdrsB
    let aA ← parseNat? anchorA
    let aB ← parseNat? anchorB
    let tagged := if steps = "~" then [] else steps.splitOn ","
    let stA ← (tagged.filter (·.startsWith "0")).mapM fun t => parseStep? hA (t.drop 1).toString
    let stB ← (tagged.filter (·.startsWith "1")).mapM fun t => parseStep? hB (t.drop 1).toString
    let show' := fun (out : List String) => if out.isEmpty then "~" else "|".intercalate out
    some ("ok " ++ show' (run rev hA stA (BC.new aA) [] []) ++ "#" ++ show' (run rev hB stB (BC.new aB) [] []))
  | "c15inv", [anchor, iter, hdrs, steps] => do
    let anchor ← parseNat? anchor
    let rev := iter = "1"
    let hdrs ← if hdrs = "~" then some [] else (hdrs.splitOn ",").mapM parseHeader?
    let steps ← if steps = "~" then some [] else (steps.splitOn ",").mapM (parseStep? hdrs)
    let out := runInv rev steps (BC.new anchor) []
    some ("ok " ++ (if out.isEmpty then "~" else "|".intercalate out))
  | _, _ => none

/-- `c15real <net> <anchor> <iter> <headers> <steps>`: the harness runs the same history on real header objects of the
network's Block class (parsed from wire bytes) and translates 32-byte hashes back to the header numbers; the model's
answer is that of `c15` (BlockChain does not look inside headers beyond hash, parent and difficulty) -/
def handle : Handler := fun op args =>
  match op, args with
  | "c15real", _net :: rest => handleCore "c15" rest
  | _, _ => handleCore op args

end Pycoin.Driver.C15
