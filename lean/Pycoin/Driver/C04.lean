import Pycoin.Driver.Core
import Pycoin.DriverLib.TxText
import Pycoin.Model.Sighash
import Pycoin.Spec.Sighash
/-!
C04 ops (all prefixed `c04_`).  `tx` is the canonical text form of `DriverLib/TxText.lean`, `us` the unspents list of
the same file (`none` entries allowed), scripts are bytes, `sigs` is a `/`-separated list of byte strings (`~` = none).
Digests are printed as 64 hex digits (the integer `_signature_hash` returns, big endian).
-/
namespace Pycoin.Driver.C04
open Pycoin Pycoin.Driver Pycoin.DriverLib Pycoin.Sighash

def hex64 (n : Nat) : String := encodeHexFast (beBytes n 32)

def showRes : Except Err Nat → String
  | .ok n => "ok " ++ hex64 n
  | .error e => "err " ++ e.tag

def showBytesRes : Except Err Bytes → String
  | .ok b => "ok " ++ encodeHexFast b
  | .error e => "err " ++ e.tag

def parseSigs? (s : String) : Option (List Bytes) :=
  if s = "~" then some [] else (s.splitOn "/").mapM parseBytes?

/-- the digest function consensus prescribes for the class: double SHA-256, single for Groestlcoin -/
def specH : Coin → Bytes → Bytes
  | .grs => Pycoin.Hash.sha256
  | _ => Pycoin.Hash.dsha256

/-- the amount spent by input `idx` according to `us` (0 when unknown: the spec is only consulted when it is known) -/
def amountOf (us : List (Option TxOut)) (idx : Nat) : Option Nat :=
  match us[idx]? with
  | some (some o) => some o.value.toNat
  | _ => none

/-- what consensus says `_signature_hash` of the class must return -/
def specSighash (c : Coin) (tx : Tx) (us : List (Option TxOut)) (script : Bytes) (idx ht : Nat) : String :=
  if idx ≥ tx.ins.length then "na" else
  match c with
  | .btc | .ltc | .grs => "ok " ++ encodeHexFast (Spec.Sighash.signatureHashLegacy (specH c) tx idx script ht)
  | .bch | .btg =>
    match amountOf us idx with
    | none => "na"
    | some amt =>
      match Spec.Sighash.signatureHashForkId (if c == .btg then Spec.Sighash.BTG_FORK_ID else Spec.Sighash.BCH_FORK_VALUE)
          (specH c) tx idx script amt ht with
      | none => "refused"
      | some d => "ok " ++ encodeHexFast d

/-- what consensus says `_signature_for_hash_type_segwit` of the class must return -/
def specSegwit (c : Coin) (tx : Tx) (us : List (Option TxOut)) (script : Bytes) (idx ht : Nat) : String :=
  if idx ≥ tx.ins.length then "na" else
  match amountOf us idx with
  | none => "na"
  | some amt =>
    match c with
    | .btg =>
      match Spec.Sighash.signatureHashForkId Spec.Sighash.BTG_FORK_ID (specH c) tx idx script amt ht with
      | none => "refused"
      | some d => "ok " ++ encodeHexFast d
    | _ => "ok " ++ encodeHexFast (Spec.Sighash.signatureHashBip143 (specH c) tx idx script amt ht)

def handle : Handler := fun op args =>
  match op, args with
  | "c04_sighash", [c, tx, us, idx, script, ht] => do
    some (showRes (signatureHash (← parseCoin? c) (← parseTx? tx) (← parseUnspents? us) (← parseBytes? script)
      (← parseNat? idx) (← parseNat? ht)))
  | "c04_sighash_segwit", [c, tx, us, idx, script, ht] => do
    some (showRes (segwitSignatureHash (← parseCoin? c) (← parseTx? tx) (← parseUnspents? us) (← parseBytes? script)
      (← parseNat? idx) (← parseNat? ht)))
  | "c04_sighash_spec", [c, tx, us, idx, script, ht] => do
    some (specSighash (← parseCoin? c) (← parseTx? tx) (← parseUnspents? us) (← parseBytes? script)
      (← parseNat? idx) (← parseNat? ht))
  | "c04_sighash_segwit_spec", [c, tx, us, idx, script, ht] => do
    some (specSegwit (← parseCoin? c) (← parseTx? tx) (← parseUnspents? us) (← parseBytes? script)
      (← parseNat? idx) (← parseNat? ht))
  -- the temporary transaction of the legacy path (shows which field of the preimage differs)
  | "c04_tmp_tx", [c, tx, idx, script, ht] => do
    let _ ← parseCoin? c
    let tx ← parseTx? tx; let script ← parseBytes? script; let idx ← parseNat? idx; let ht ← parseNat? ht
    match deleteSubscript script Gen.Sighash.strippedSubscript with
    | .error e => some ("err " ++ e.tag)
    | .ok s' =>
      match legacyTmpTx tx s' idx ht with
      | .error e => some ("err " ++ e.tag)
      | .ok none => some "ok single-bug"
      | .ok (some t) => some ("ok " ++ showTx t)
  | "c04_preimage_legacy", [c, tx, idx, script, ht] => do
    match legacyPreimage (← parseCoin? c) (← parseTx? tx) (← parseBytes? script) (← parseNat? idx) (← parseNat? ht) with
    | .error e => some ("err " ++ e.tag)
    | .ok none => some "ok single-bug"
    | .ok (some p) => some ("ok " ++ encodeHexFast p)
  | "c04_preimage_legacy_spec", [tx, idx, script, ht] => do
    let tx ← parseTx? tx; let script ← parseBytes? script; let idx ← parseNat? idx; let ht ← parseNat? ht
    if idx ≥ tx.ins.length then some "na"
    else if Spec.Sighash.fHashSingle ht && decide (idx ≥ tx.outs.length) then some "ok single-bug"
    else some ("ok " ++ encodeHexFast (Spec.Sighash.legacyPreimage tx idx script ht))
  | "c04_preimage_segwit", [c, tx, us, idx, script, ht] => do
    some (showBytesRes (segwitPreimage (← parseCoin? c) (← parseTx? tx) (← parseUnspents? us) (← parseBytes? script)
      (← parseNat? idx) (← parseNat? ht)))
  | "c04_preimage_segwit_spec", [c, tx, us, idx, script, ht] => do
    let c ← parseCoin? c
    let us ← parseUnspents? us; let idx ← parseNat? idx
    let txv ← parseTx? tx
    if idx ≥ txv.ins.length then some "na" else
    match amountOf us idx with
    | none => some "na"
    | some amt =>
      some ("ok " ++ encodeHexFast (Spec.Sighash.bip143Preimage (specH c) (← parseTx? tx) idx (← parseBytes? script) amt (← parseNat? ht)))
  | "c04_delete_subscript", [script, sub] => do
    some (showBytesRes (deleteSubscript (← parseBytes? script) (← parseBytes? sub)))
  | "c04_find_and_delete", [script, sigs] => do
    some (showBytesRes (deleteSignatures (← parseBytes? script) (← parseSigs? sigs)))
  | "c04_find_and_delete_spec", [script, sigs] => do
    some ("ok " ++ encodeHexFast (Spec.Sighash.scriptCodeFor (← parseBytes? script) (← parseSigs? sigs)))
  | "c04_script_code_spec", [script] => do
    some ("ok " ++ encodeHexFast (Spec.Sighash.serializeScriptCode (← parseBytes? script)))
  -- the closures of `_make_sighash_f` / `_make_witness_sighash_f`: what is handed to `generator.verify`
  | "c04_sighash_f", [c, kind, tx, us, idx, script, sigs, ht] => do
    let c ← parseCoin? c
    let tx ← parseTx? tx; let us ← parseUnspents? us; let script ← parseBytes? script; let sigs ← parseSigs? sigs
    let idx ← parseNat? idx; let ht ← parseNat? ht
    if kind = "legacy" then some (showRes (sighashF c tx us script sigs idx ht))
    else if kind = "witness" then some (showRes (witnessSighashF c tx us script sigs idx ht))
    else none
  -- the same closures called with a VM whose `begin_code_hash` is `begin` (the position after the last executed
  -- OP_CODESEPARATOR): the script code is `vm.script[vm.begin_code_hash:]`
  | "c04_sighash_fb", [c, kind, tx, us, idx, script, begin, sigs, ht] => do
    let c ← parseCoin? c
    let tx ← parseTx? tx; let us ← parseUnspents? us; let script ← parseBytes? script; let sigs ← parseSigs? sigs
    let idx ← parseNat? idx; let ht ← parseNat? ht; let b ← parseNat? begin
    if kind = "legacy" then some (showRes (sighashF c tx us (script.drop b) sigs idx ht))
    else if kind = "witness" then some (showRes (witnessSighashF c tx us (script.drop b) sigs idx ht))
    else none
  | "c04_sighash_f_spec", [c, kind, tx, us, idx, script, sigs, ht] => do
    let c ← parseCoin? c
    let tx ← parseTx? tx; let us ← parseUnspents? us; let script ← parseBytes? script; let sigs ← parseSigs? sigs
    let idx ← parseNat? idx; let ht ← parseNat? ht
    if kind = "legacy" then
      -- Bitcoin Cash: `CleanupScriptCode` skips FindAndDelete for signatures that use SIGHASH_FORKID
      let code := if c == .bch then script else Spec.Sighash.scriptCodeFor script sigs
      some (specSighash c tx us code idx ht)
    else if kind = "witness" then some (specSegwit c tx us script idx ht)
    else none
  -- a sequence of calls on one checker / one transaction object: `l:idx:ht` (`_signature_hash`) or `w:idx:ht`
  -- (`_signature_for_hash_type_segwit`); the model is a function, so every call is evaluated on its own
  -- one object edited in place between two groups of calls: each answer is the digest of the transaction as it is then
  | "c04_seq2", [c, tx1, us1, tx2, us2, script, calls1, calls2] => do
    let c ← parseCoin? c
    let tx1 ← parseTx? tx1; let us1 ← parseUnspents? us1; let tx2 ← parseTx? tx2; let us2 ← parseUnspents? us2
    let script ← parseBytes? script
    let run := fun (tx : _) (us : _) (calls : String) => (calls.splitOn ",").mapM fun call =>
      match call.splitOn ":" with
      | [k, idx, ht] => do
        let idx ← parseNat? idx; let ht ← parseNat? ht
        let r ← (if k = "l" then some (signatureHash c tx us script idx ht)
                 else if k = "w" then some (segwitSignatureHash c tx us script idx ht) else none)
        match r with
        | .ok n => some (hex64 n)
        | .error e => some ("!" ++ e.tag)
      | _ => none
    let r1 ← run tx1 us1 calls1
    let r2 ← run tx2 us2 calls2
    some ("ok " ++ ";".intercalate (r1 ++ r2))
  | "c04_seq", [c, tx, us, script, calls] => do
    let c ← parseCoin? c
    let tx ← parseTx? tx; let us ← parseUnspents? us; let script ← parseBytes? script
    let rs ← (calls.splitOn ",").mapM fun call =>
      match call.splitOn ":" with
      | [k, idx, ht] => do
        let idx ← parseNat? idx; let ht ← parseNat? ht
        let r ← (if k = "l" then some (signatureHash c tx us script idx ht)
                 else if k = "w" then some (segwitSignatureHash c tx us script idx ht) else none)
        match r with
        | .ok n => some (hex64 n)
        | .error e => some ("!" ++ e.tag)
      | _ => none
    some ("ok " ++ ";".intercalate rs)
  -- Tx.check_solution observed: `trace` = the calls of the sighash closures (`kind:ht:script:sigs`, comma separated),
  -- `vmap` = for every call of generator.verify, which closure call produced its message
  | "c04_checksol", [c, tx, us, idx, trace, vmap] => do
    let c ← parseCoin? c
    let tx ← parseTx? tx; let us ← parseUnspents? us; let idx ← parseNat? idx
    let rs ← (if trace = "~" then some [] else (trace.splitOn ",").mapM fun e =>
      match e.splitOn ":" with
      | [k, ht, script, sigs] => do
        let ht ← parseNat? ht; let script ← parseBytes? script; let sigs ← parseSigs? sigs
        if k = "legacy" then some (sighashF c tx us script sigs idx ht)
        else if k = "witness" then some (witnessSighashF c tx us script sigs idx ht) else none
      | _ => none)
    let vm ← parseList? parseNat? vmap
    let vals ← vm.mapM fun j => rs[j]?
    some ("ok " ++ showList (fun r => match r with | .ok n => hex64 n | .error e => "!" ++ e.tag) vals)
  | _, _ => none

end Pycoin.Driver.C04
