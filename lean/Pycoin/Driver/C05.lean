import Pycoin.Driver.Core
import Pycoin.DriverLib.TxText
import Pycoin.Model.SignSecp
import Pycoin.DriverLib.FastSecp
import Pycoin.Model.Sighash
import Pycoin.Model.WhoSigned
/-!
C05 ops.

    c05_der r s                                    sigencode_der
    c05_lax blob                                   sigdecode_der_lax
    c05_sec x y compressed                         public_pair_to_sec
    c05_sign_solver keys nsigs existing lookup ht placeholder digests
    c05_sign_tx coin mech tx unspents p2sh ht subset keys passes digests   (passes := idxs ":" valid [":" ht] "|" …, a per-pass hash type overrides ht; mech is for the harness)
    c05_keychain script
    c05_who_signed coin tx unspents                 public_pairs_signed of every input: inputs separated by "|", signers "x.y.sigtype" by ";" ("~" none)

    lookup   := "~" | entry "," entry …      entry := h160 "=" secret "." x "." y "." ("c"|"u")
    digests  := "~" | (ht "=" z) "," …       (sign_solver)        | (idx "." ht "=" z) "," …   (sign_tx)
    p2sh     := "~" | script "," script …
    subset   := "all" | "~" | idx "," idx …
    valid    := one character 0/1 per input ("-" for no inputs)
-/
namespace Pycoin.Driver.C05
open Pycoin Pycoin.Driver Pycoin.DriverLib Pycoin.Sign

def showE {α} (f : α → String) : Except Sign.Err α → String
  | .ok a => "ok " ++ f a
  | .error e => "err " ++ e.tag

def parseEntry? (s : String) : Option (Bytes × Entry) :=
  match s.splitOn "=" with
  | [h, v] =>
    match v.splitOn "." with
    | [d, x, y, c] => do
      let c ← if c = "c" then some true else if c = "u" then some false else none
      pure (← parseHex? h, ⟨← parseInt? d, ← parseInt? x, ← parseInt? y, c⟩)
    | _ => none
  | _ => none

def parseLookup? (s : String) : Option Lookup := do
  let es ← parseList? parseEntry? s
  pure (fun h => assocGet h es)

def parseDigests1? (s : String) : Option Digest := do
  let es ← parseList? (fun e => match e.splitOn "=" with
    | [h, z] => do pure (← parseNat? h, ← parseInt? z)
    | _ => none) s
  pure (fun ht => (es.find? (·.1 = ht)).map (·.2))

def parseDigestsTx? (s : String) : Option (Nat → Digest) := do
  let es ← parseList? (fun e => match e.splitOn "=" with
    | [k, z] =>
      match k.splitOn "." with
      | [i, h] => do pure (← parseNat? i, ← parseNat? h, ← parseInt? z)
      | _ => none
    | _ => none) s
  pure (fun i ht => (es.find? (fun t => t.1 = i ∧ t.2.1 = ht)).map (·.2.2))

def showSigs (l : List (Option Bytes)) : String :=
  showList (fun o => match o with | none => "none" | some b => hx b) l

/-- the fast instance; `c05_fastcheck` compares it with `secp256k1Crypto` -/
def crypto : Crypto := Pycoin.DriverLib.FastSecp.crypto

/-! keychain scripts: actions separated by `,`
    `path:h160:pathhex:fp`   add_key_paths (h160 of the sub-key computed by the harness)
    `secret:fp:d:x:y`        add_secret
    `p2s:script`             add_p2s_script
    `sub:fp:d:pathhex=fp':d':x':y'`   (not an action) one line of the derivation table
    `get:h160`               get → `none` | `d.x.y.c` | `script:<hex>` -/
structure KcState where
  kc : Keychain := {}
  derive : List ((Bytes × Int × String) × KeyRec) := []
  out : List String := []

def pathStr (b : Bytes) : String := String.ofList (b.map fun x => Char.ofNat x.toNat)

def kcStep (st : KcState) (a : String) : Option (Except Sign.Err KcState) :=
  match a.splitOn ":" with
  | ["path", h, p, fp, _seed] => do
    pure (.ok { st with kc := st.kc.addPath (← parseHex? h) (pathStr (← parseHex? p)) (← parseHex? fp) })
  | ["secret", fp, d, x, y, _seed] => do
    match st.kc.addSecret ⟨← parseHex? fp, ← parseInt? d, ← parseInt? x, ← parseInt? y⟩ with
    | .ok kc => pure (.ok { st with kc := kc })
    | .error e => pure (.error e)
  | ["p2s", sc] => do pure (.ok { st with kc := st.kc.addP2s (← parseHex? sc) })
  | ["sub", fp, d, pe, d', x', y'] =>
    match pe.splitOn "=" with
    | [p, fp'] => do
      let k : KeyRec := ⟨← parseHex? fp', ← parseInt? d', ← parseInt? x', ← parseInt? y'⟩
      pure (.ok { st with derive := st.derive ++ [((← parseHex? fp, ← parseInt? d, pathStr (← parseHex? p)), k)] })
    | _ => none
  | ["get", h] => do
    let h ← parseHex? h
    match st.kc.p2sForHash h with
    | some sc => pure (.ok { st with out := st.out ++ ["script:" ++ hx sc] })
    | none =>
      let derive := fun (k : KeyRec) (p : String) =>
        (st.derive.find? (fun t => t.1 = (k.fingerprint, k.secret, p))).map (·.2)
      match st.kc.get derive h with
      | .error e => pure (.error e)
      | .ok (kc, r) =>
        let s := match r with
          | none => "none"
          | some e => s!"{e.secret}.{e.x}.{e.y}.{if e.compressed then "c" else "u"}"
        pure (.ok { st with kc := kc, out := st.out ++ [s] })
  | _ => none

def kcRun : List String → KcState → Option (Except Sign.Err KcState)
  | [], st => some (.ok st)
  | a :: r, st =>
    match kcStep st a with
    | none => none
    | some (.error e) => some (.error e)
    | some (.ok st') => kcRun r st'

/-- script code and closure kind (`true` = BIP143 witness closure) the digest of an input commits to; driver-side
mirror of the unwrapping in `Sign.solve`, used only to cross-check the digests the harness supplies -/
def codeOf (p2sh : Bytes → Option Bytes) (puzzle : Bytes) : Option (Bool × Bytes) :=
  let wit := fun (s : Bytes) =>
    let prog := s.drop 2
    if prog.length = 32 then (p2sh prog).map (fun ws => (true, ws))
    else if prog.length = 20 then some (true, [0x76, 0xa9, 0x14] ++ prog ++ [0x88, 0xac])
    else none
  match scriptHashFromScript puzzle with
  | some h =>
    match p2sh h with
    | none => none
    | some u => if isWitnessV0 u then wit u else some (false, u)
  | none => if isWitnessV0 puzzle then wit puzzle else some (false, puzzle)

def handle : Handler := fun op args =>
  match op, args with
  | "c05_der", [r, s] => do
    some (showE hx (sigencodeDer (← parseInt? r) (← parseInt? s)))
  | "c05_lax", [b] => do
    match sigdecodeDerLax (← parseBytes? b) with
    | none => some "err UnexpectedDER"
    | some (r, s) => some s!"ok {r} {s}"
  | "c05_sec", [x, y, c] => do
    some (showE hx (publicPairToSec (← parseInt? x) (← parseInt? y) (c = "c")))
  | "c05_sign_solver", [keys, nsigs, existing, lookup, ht, ph, digests] => do
    let keys ← parseList? parseHex? keys
    let existing ← parseList? parseHex? existing
    let ph ← if ph = "none" then some none else (parseHex? ph).map some
    some (showE showSigs (signingSolver crypto (← parseLookup? lookup) (← parseDigests1? digests) keys (← parseNat? nsigs)
      existing (← parseNat? ht) ph))
  | "c05_sign_tx", [coin, _mech, tx, us, p2sh, ht, subset, keys, passes, digests] => do
    let tx ← parseTx? tx
    let us ← parseUnspents? us
    let scripts ← parseList? parseHex? p2sh
    let ht ← if ht = "none" then some none else (parseNat? ht).map some
    let subset ← if subset = "all" then some none else (parseList? parseNat? subset).map some
    let entries ← parseList? parseEntry? keys
    let table ← parseList? (fun e => match e.splitOn "=" with
      | [k, z] =>
        match k.splitOn "." with
        | [i, h] => do pure (← parseNat? i, ← parseNat? h, ← parseInt? z)
        | _ => none
      | _ => none) digests
    let passes ← (passes.splitOn "|").mapM fun p =>
      match p.splitOn ":" with
      | [idxs, valid] => do pure (← parseList? parseNat? idxs, valid.toList, (none : Option Nat))
      | [idxs, valid, h] => do pure (← parseList? parseNat? idxs, valid.toList, some (← parseNat? h))
      | _ => none
    let cls ← (Gen.Sign.coinClass.find? (·.1 = coin)).map (·.2)
    let c ← parseCoin? cls
    let p2shF := p2shLookup scripts
    -- cross-check: every digest the harness computed with pycoin equals the model's
    let bad := table.find? fun (i, ht, z) =>
      match us[i]?.join with
      | none => true
      | some u =>
        match codeOf p2shF u.script with
        | none => true
        | some (w, code) => modelSighash c tx us i w code ht != some z
    if let some (i, ht, _) := bad then some s!"err DigestMismatch {i}.{ht}" else
    let step := fun (acc : Except Sign.Err Tx) (p : List Nat × List Char × Option Nat) =>
      match acc with
      | .error e => .error e
      | .ok tx =>
        let es := p.1.filterMap (fun i => entries[i]?)
        let a : SignArgs := {
          C := crypto, fork := Gen.Sign.forkidCoins.contains coin, lookup := fun h => assocGet h es,
          p2sh := p2shF, sighash := modelSighash c tx us,
          valid := fun i => p.2.1[i]? == some '1', ht := (p.2.2 <|> ht), subset := subset }
        signTx a tx us
    some (showE showTx (passes.foldl step (.ok tx)))
  | "c05_fastcheck", [d, z, flip] => do
    let d ← parseInt? d; let z ← parseInt? z
    let a := secp256k1Crypto.sign d z
    let b := crypto.sign d z
    let sh := fun (r : Except Curve.Err (Int × Int)) => match r with | .ok (r, s) => s!"{r}.{s}" | .error e => e.tag
    match a with
    | .ok (r, s) =>
      -- verify the signature (or a damaged one) for the right key with both instances
      let s' := if flip = "1" then s + 1 else s
      match Curve.mulG Pycoin.Gen.Curves.secp256k1 0 d with
      | .ok Q =>
        let va := secp256k1Crypto.verify Q z r s'
        let vb := crypto.verify Q z r s'
        let sv := fun (r : Except Curve.Err Bool) => match r with | .ok b => showBool b | .error e => e.tag
        some s!"ok {sh a} {sh b} {sv va} {sv vb}"
      | .error e => some ("err " ++ e.tag)
    | .error _ => some s!"ok {sh a} {sh b} - -"
  | "c05_who_signed", [coin, tx, us] => do
    let tx ← parseTx? tx
    let us ← parseUnspents? us
    let cls ← (Gen.Sign.coinClass.find? (·.1 = coin)).map (·.2)
    let c ← parseCoin? cls
    let one := fun (i : Nat) (tin : TxIn) =>
      let puzzle := match us[i]?.join with | some u => u.script | none => []
      let sighash := fun (wit : Bool) (code blob : Bytes) (ht : Nat) =>
        match (if wit then Sighash.witnessSighashF c tx us code [blob] i ht else Sighash.sighashF c tx us code [blob] i ht) with
        | .ok z => some (z : Int)
        | .error _ => none
      whoSignedInput crypto sighash puzzle tin.script tin.witness
    let rec go (i : Nat) (ins : List TxIn) : Except WErr (List String) :=
      match ins with
      | [] => .ok []
      | tin :: r =>
        match one i tin with
        | .error e => .error e
        | .ok l =>
          match go (i + 1) r with
          | .error e => .error e
          | .ok rest =>
            let sh := l.map fun (Q, t) => match Q with | some (x, y) => s!"{x}.{y}.{t}" | none => s!"inf.{t}"
            .ok ((if sh.isEmpty then "~" else ";".intercalate sh) :: rest)
    match go 0 tx.ins with
    | .error e => some ("err " ++ e.tag)
    | .ok l => some ("ok " ++ (if l.isEmpty then "-" else "|".intercalate l))
  | "c05_keychain", [script] => do
    match ← kcRun (script.splitOn ",") {} with
    | .error e => some ("err " ++ e.tag)
    | .ok st => some ("ok " ++ showList id st.out)
  | _, _ => none

end Pycoin.Driver.C05
