import Pycoin.Driver.Core
import Pycoin.Model.Hash
import Pycoin.Model.VM.Verify
/-!
Driver ops of the C03 *model side* (prefix `vm_`): the Lean model of pycoin's VM on the line protocol.
Signature oracle: the last argument of `vm_eval`/`vm_verify` is a table `sig:pub:key,…` (`~` = empty) of the
triples for which the real verification succeeds, `key` = first 8 bytes of `sha256(scriptCode ‖ witnessByte)`.
-/
namespace Pycoin.Driver.C03model
open Pycoin.Driver Pycoin.VM

def codeKey (code : Bytes) (wit : Bool) : Bytes := (Pycoin.Hash.sha256 (code ++ [if wit then 1 else 0])).take 8

def parseSigTable? (s : String) : Option (List (Bytes × Bytes × Bytes)) :=
  parseList? (fun e => match e.splitOn ":" with
    | [a, b, c] => do pure (← parseHex? a, ← parseHex? b, ← parseHex? c)
    | _ => none) s

def mkEnv (table : List (Bytes × Bytes × Bytes)) : Env where
  ripemd160 := Pycoin.Hash.ripemd160
  sha1 := Pycoin.Hash.sha1
  sha256 := Pycoin.Hash.sha256
  checkSig := fun sig pub code wit => table.contains (sig, pub, codeKey code wit)

/-- `locktime:sequence:version[:amount]` (the amount is only used by the Python side) -/
def parseCtx? (s : String) : Option TxCtx :=
  match s.splitOn ":" with
  | l :: q :: v :: _ => do pure ⟨← parseNat? l, ← parseNat? q, ← parseNat? v⟩
  | _ => none

def showErr (e : Err) : String := "err " ++ e.tag

def showOptBytes : Option Bytes → String
  | none => "None"
  | some b => hx b

def parseBool? (s : String) : Option Bool := if s = "1" then some true else if s = "0" then some false else none

def handle : Handler := fun op args =>
  match op, args with
  | "vm_eval", [flags, wit, script, stack, ctx, tbl] => do
    let flags ← parseNat? flags; let wit ← parseBool? wit
    let script ← parseHex? script
    let stackPy ← parseList? parseHex? stack
    let ctx ← parseCtx? ctx
    let env := mkEnv (← parseSigTable? tbl)
    match evalScript env ⟨script, ctx, flags, wit⟩ stackPy.reverse with
    | .ok s => some s!"ok {showList hx s.stack.reverse} alt={showList hx s.altstack.reverse} ops={s.opCount} cs={s.beginCodeHash}"
    | .error e => some (showErr e)
  | "vm_verify", [flags, sig, spk, wit, ctx, tbl] => do
    let flags ← parseNat? flags
    let sig ← parseHex? sig; let spk ← parseHex? spk
    let wit ← parseList? parseHex? wit
    let ctx ← parseCtx? ctx
    let env := mkEnv (← parseSigTable? tbl)
    match checkSolution env ⟨sig, spk, wit, ctx⟩ flags with
    | .ok () => some "ok"
    | .error e => some (showErr e)
  | "vm_num_dec", [b, m] => do
    match intFromScriptBytes (← parseHex? b) (← parseBool? m) with
    | .ok v => some s!"ok {v}"
    | .error e => some (showErr e)
  | "vm_num_enc", [v] => do some ("ok " ++ hx (intToScriptBytes (← parseInt? v)))
  | "vm_bool", [b, m] => do
    match boolFromScriptBytes (← parseHex? b) (← parseBool? m) with
    | .ok v => some ("ok " ++ showBool v)
    | .error e => some (showErr e)
  | "vm_getop", [script, pc, m] => do
    match getOpcode (← parseHex? script) (← parseNat? pc) (← parseBool? m) with
    | .ok f => some s!"ok {f.opcode} {showOptBytes f.data} {f.pc} {showBool f.isOk}"
    | .error e => some (showErr e)
  | "vm_pushdata", [d] => do
    match compilePushData (← parseHex? d) with
    | .ok b => some ("ok " ++ hx b)
    | .error e => some (showErr e)
  | "vm_delsig", [script, sig] => do
    match deleteSignature (← parseHex? script) (← parseHex? sig) with
    | .ok b => some ("ok " ++ hx b)
    | .error e => some (showErr e)
  | "vm_pushonly", [script] => do
    match checkScriptPushOnly (← parseHex? script) with
    | .ok () => some "ok"
    | .error e => some (showErr e)
  | "vm_der", [sig] => do
    match sigdecodeDerLax (← parseHex? sig) with
    | some (r, s) => some s!"ok {r} {s}"
    | none => some "err caught"
  | "vm_sigenc", [flags, sig] => do
    match parseAndCheckSignatureBlob (← parseHex? sig) (← parseNat? flags) with
    | .ok .parsed => some "ok parsed"
    | .ok .unparseable => some "ok caught"
    | .error e => some (showErr e)
  | "vm_pubenc", [k] => do
    match checkPublicKeyEncoding (← parseHex? k) with
    | .ok () => some "ok"
    | .error e => some (showErr e)
  | "vm_secshape", [k] => do some ("ok " ++ showBool (pubkeyShapeOk (← parseHex? k)))
  | "vm_wpv", [script] => do
    match witnessProgramVersion (← parseHex? script) with
    | some v => some s!"ok {v}"
    | none => some "ok None"
  | "vm_p2sh", [script] => do some ("ok " ++ showBool (isPayToScriptHash (← parseHex? script)))
  | "vm_cond", [ops] => do
    -- ops: string over I (IF true) i (IF false) N (NOTIF true) n (NOTIF false) E (ELSE) F (ENDIF) Z (check_final_state)
    let step (acc : M CondStack) (ch : Char) : M CondStack := do
      let c ← acc
      match ch with
      | 'I' => pure (c.opIf true) | 'i' => pure (c.opIf false)
      | 'N' => pure (c.opIf true true) | 'n' => pure (c.opIf false true)
      | 'E' => c.opElse | 'F' => c.opEndif
      | 'Z' => do c.checkFinalState; pure c
      | _ => .error (.py "bad-op")
    match (if ops = "-" then [] else ops.toList).foldl step (.ok {}) with
    | .ok c => some s!"ok {c.trueCount} {c.falseCount} {showBool c.allIfTrue}"
    | .error e => some (showErr e)
  | _, _ => none

end Pycoin.Driver.C03model
