import Pycoin.Driver.Core
import Pycoin.Driver.C08
import Pycoin.Driver.C02
import Pycoin.Model.MsgSigning
import Pycoin.Gen.Curves
/-!
C17 ops.  Networks are named by their module under pycoin/symbols (`btc`, `xtn`, `ltc`, `doge`, …); every text
argument travels as the hex of its UTF-8 bytes (`-` = empty).  `cfg` (`pure` / `openssl`) names the arithmetic
configuration of the implementation and is ignored by the model.

* `msg_hash net text`                       → `ok <decimal>`
* `msg_sign net cfg d comp verbose text`    → `ok <hex of the returned str>`
* `msg_verify net cfg key sig text`         → `ok 0|1`; `key` = `k:<d>:<comp>` (private key object), `p:<x>,<y>` (public key
                                              object), `a:<hex>` (address text)
* `msg_verify_h net cfg key sig z`          → the `msg_hash=` form
* `msg_recover net cfg sig z`               → `ok <x>,<y> <comp>` (`pair_for_message_hash`)
* `armour net text addr sig`                → `signature_template.format(...)`
* `parse_armour text`                       → `ok <msg> <addr> <sig>`
* `c17_b64dec bytes`, `c17_b64dec_s text`, `c17_b64enc bytes`   `binascii.a2b_base64` / `b2a_base64`
-/
namespace Pycoin.Driver.C17
open Pycoin Pycoin.Driver Pycoin.MsgSigning

def parseStr? (s : String) : Option Str := do
  let b ← parseHex? s
  let t ← String.fromUTF8? ⟨b.toArray⟩
  pure t.toList

def showStr (s : Str) : String := hx (utf8 s)

def curve : Curve.CurveParams := Pycoin.Gen.Curves.secp256k1

def envFor (net : Addr.Network) : Env where
  c := curve
  bf := 0
  networkName := net.networkName.toList
  parseAddress s :=
    match Addr.parseAddress C08.realEnv net (String.ofList s) with
    | .ok (some i) => .contract i.typeName (i.field "hash160")
    | _ => .pyNone
  p2pkhAddress h :=
    match Addr.forP2pkh C08.realEnv net h with
    | .ok (some s) => .ok s.toList
    | _ => .error .unsupported

def showE {α} (f : α → String) : Except Err α → String
  | .ok a => "ok " ++ f a
  | .error e => "err " ++ e.tag

def parseBool? (s : String) : Option Bool :=
  if s = "1" then some true else if s = "0" then some false else none

/-- the key argument: `none` = the op is malformed; `some (.error tag)` = building the object raises -/
def parseKey? (s : String) : Option (Except Err KeyOrAddress) :=
  match s.splitOn ":" with
  | ["k", d, _] => do
    let d ← parseInt? d
    match Curve.mulG curve 0 d with
    | .ok P => some (.ok (.obj (.key P)))
    | .error e => some (.error (.curve e))
  | ["p", xy] =>
    match xy.splitOn "," with
    | [x, y] => do some (.ok (.obj (.key (some (← parseInt? x, ← parseInt? y)))))
    | _ => none
  | ["a", t] => do some (.ok (.text (← parseStr? t)))
  | _ => none

def handleBase : Handler := fun op args =>
  match op, args with
  | "c17_b64dec", [b] => do
    match a2bBase64 (← parseHex? b) with
    | .ok r => some ("ok " ++ hx r)
    | .error e => some ("err " ++ e.tag)
  | "c17_b64dec_s", [t] => do
    match a2bBase64Str (← parseStr? t) with
    | .ok r => some ("ok " ++ hx r)
    | .error e => some ("err " ++ e.tag)
  | "c17_b64enc", [b] => do some ("ok " ++ hx (b2aBase64 (← parseHex? b)))
  | "msg_hash", [net, text] => do
    let net ← Addr.findNet net
    some (showE toString (hashForSigning net.networkName.toList (← parseStr? text)))
  | "msg_sign", [net, _, d, comp, verbose, text] => do
    let net ← Addr.findNet net
    some (showE showStr (signMessage (envFor net) (← parseInt? d) (← parseBool? comp) (← parseStr? text) (← parseBool? verbose)))
  -- signing with a public key object (`p:x,y`): ValueError
  | "msg_sign_pub", [net, _, _key, verbose, text] => do
    let net ← Addr.findNet net
    some (showE showStr (signMessageWithKey (envFor net) none true (← parseStr? text) (← parseBool? verbose)))
  | "msg_verify", [net, _, key, sig, text] => do
    let net ← Addr.findNet net
    let sig ← parseStr? sig
    let text ← parseStr? text
    match ← parseKey? key with
    | .error e => some ("err " ++ e.tag)
    | .ok ka => some (showE showBool (verifyMessage (envFor net) ka sig (some text)))
  | "msg_verify_h", [net, _, key, sig, z] => do
    let net ← Addr.findNet net
    let sig ← parseStr? sig
    let z ← parseInt? z
    match ← parseKey? key with
    | .error e => some ("err " ++ e.tag)
    | .ok ka => some (showE showBool (verifyMessage (envFor net) ka sig none (some z)))
  | "msg_recover", [net, _, sig, z] => do
    let _ ← Addr.findNet net
    let r := pairForMessageHash curve 0 (← parseStr? sig) (← parseInt? z)
    some (showE (fun (pc : Curve.Pt × Bool) => C02.showPt pc.1 ++ " " ++ showBool pc.2) r)
  | "armour", [net, text, addr, sig] => do
    let net ← Addr.findNet net
    some (showE showStr (armour (net.networkName.toList.map asciiUpper) (← parseStr? text) (← parseStr? addr) (← parseStr? sig)))
  | "parse_armour", [text] => do
    match parseSignedMessage (← parseStr? text) with
    | .ok (m, a, s) => some s!"ok {showStr m} {showStr a} {showStr s}"
    | .error e => some ("err " ++ e.tag)
  | _, _ => none

/-- `msg_history cfg order steps`: the implementation runs the steps one after the other on shared objects in a new
process that creates the networks in `order`; the model is a function of each step's arguments, so it answers step by
step.  A step is an op line with `~` for the spaces; steps are separated by `;`. -/
def handle : Handler := fun op args =>
  match op, args with
  | "msg_history", [_, _, steps] =>
    let answers := (steps.splitOn ";").map fun st =>
      match (st.replace "~" " ").splitOn " " with
      | [] => "bad-op"
      | o :: as =>
        match handleBase o as with
        | some r => r.replace " " "~"
        | none => "bad-op"
    if answers.contains "bad-op" then none else some ("ok " ++ ";".intercalate answers)
  | _, _ => handleBase op args

end Pycoin.Driver.C17
