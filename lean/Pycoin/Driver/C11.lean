import Pycoin.Driver.Core
import Pycoin.Model.Base58
import Pycoin.Model.Bech32
import Pycoin.Model.ParseableStr
/-!
C11 ops.  Every Python `str` travels as the hex of its UTF-8 bytes (`-` = empty string).
-/
namespace Pycoin.Driver.C11
open Pycoin.Driver Pycoin

/-- hex of UTF-8 → code points (`none` when the bytes are not UTF-8: the harness never sends that) -/
def parseStr? (s : String) : Option (List Char) := do
  let b ← parseHex? s
  let str ← String.fromUTF8? (ByteArray.mk b.toArray)
  pure str.toList

def showStr (cs : List Char) : String := hx (String.ofList cs).toUTF8.toList

def showB58 : Except Base58.Err Bytes → String
  | .ok b => "ok " ++ hx b
  | .error .encodingError => "err EncodingError"

def showSpec : Bech32.Encoding → String
  | .bech32 => toString Gen.Codecs.encBech32
  | .bech32m => toString Gen.Codecs.encBech32m

def showRaw (text : List Char) : String :=
  match Bech32.bech32Decode text with
  | some (hrp, data, spec) => s!"ok {showStr hrp} {showList toString data} {showSpec spec}"
  | none => "none"

def parseStep? (s : String) : Option (Option Pstr.Dec) :=
  if s = "b58" then some (some .b58)
  else if s = "b58sha" then some (some .b58sha)
  else if s = "b58grs" then some (some .b58grs)
  else if s = "bech32" then some (some .bech32)
  else if s.startsWith "net:" then some none      -- a network-level parser: not modelled, prints `*`
  else none

def showVal : Pstr.Val → String
  | .bytes none => "none"
  | .bytes (some b) => "ok " ++ hx b
  | .bech none => "none"
  | .bech (some (hrp, v, d, spec)) => s!"ok {showStr hrp} {v} {showList toString d} {showSpec spec}"

/-- the steps applied in turn to one cache (the stateful model); unmodelled steps leave it alone -/
def pstrSeq (tb : Bytes) (tc : List Char) : List (Option Pstr.Dec) → Pstr.Cache → List String
  | [], _ => []
  | none :: ds, c => "*" :: pstrSeq tb tc ds c
  | some d :: ds, c =>
    let r := Pstr.run d tb tc c
    showVal r.1 :: pstrSeq tb tc ds r.2

def handle : Handler := fun op args =>
  match op, args with
  | "b58enc", [d] => do some (showB58 (Base58.b2a (← parseHex? d)))
  | "b58dec", [s] => do some (showB58 (Base58.a2b (← parseHex? s)))
  | "b58cenc", [d] => do some (showB58 (Base58.b2aHashed (← parseHex? d)))
  -- `b58cenc_mut d1 d2`: ONE mutable buffer (bytearray) holding d1 is encoded, overwritten in place with d2, encoded again:
  -- each answer is that of the bytes the buffer holds at that moment
  | "b58cenc_mut", [d1, d2] => do
    some (showB58 (Base58.b2aHashed (← parseHex? d1)) ++ " | " ++ showB58 (Base58.b2aHashed (← parseHex? d2)))
  | "b58cdec", [s] => do some (showB58 (Base58.a2bHashed (← parseHex? s)))
  | "b58cvalid", [s] => do some ("ok " ++ showBool (Base58.isHashedValid (← parseHex? s)))
  | "c11_pb58", [s] => do
    match Base58.parseB58DoubleSha256 (← parseHex? s) with
    | some d => some ("ok " ++ hx d)
    | none => some "none"
  | "bech32enc", [hrp, ver, prog] => do
    let hrp ← parseStr? hrp
    let ver ← parseNat? ver
    let prog ← parseHex? prog
    match Bech32.encode hrp ver (prog.map (·.toNat)) with
    | .ok (some s) => some ("ok " ++ showStr s)
    | .ok none => some "none"
    | .error .indexError => some "err IndexError"
  | "bech32dec", [hrp, text] => do
    let hrp ← parseStr? hrp
    let text ← parseStr? text
    match Bech32.decode hrp text with
    | some (v, p) => some s!"ok {v} {showList toString p}"
    | none => some "none"
  | "bech32raw", [text] => do some (showRaw (← parseStr? text))
  | "bech32err", [orig, text] => do
    -- a valid string and a corruption of it: both decoded (the harness oracle states what must be refused)
    some (showRaw (← parseStr? orig) ++ " ; " ++ showRaw (← parseStr? text))
  | "c11_pbech32", [text] => do
    match Bech32.parseBech32 (← parseStr? text) with
    | some (hrp, v, d, spec) => some s!"ok {showStr hrp} {v} {showList toString d} {showSpec spec}"
    | none => some "none"
  | "pstr_seq", [text, steps] => do
    let tb ← parseHex? text
    let tc ← parseStr? text
    let steps ← (steps.splitOn ",").mapM parseStep?
    some (" | ".intercalate (pstrSeq tb tc steps []))
  | "convertbits", [data, f, t, pad] => do
    let data ← parseList? parseNat? data
    let f ← parseNat? f
    let t ← parseNat? t
    let pad ← parseNat? pad
    if ht : 0 < t then
      match Bech32.convertbits data f t ht (pad ≠ 0) with
      | some r => some ("ok " ++ showList toString r)
      | none => some "none"
    else none
  | "bech32chk", [hrp, data, spec] => do
    -- bech32_create_checksum then bech32_verify_checksum of data ++ checksum
    let hrp ← parseStr? hrp
    let data ← parseList? parseNat? data
    let spec ← parseNat? spec
    let sp := if spec = Gen.Codecs.encBech32m then Bech32.Encoding.bech32m else Bech32.Encoding.bech32
    let cs := Bech32.createChecksum hrp data sp
    let v := match Bech32.verifyChecksum hrp (data ++ cs) with
      | some e => showSpec e
      | none => "none"
    some s!"ok {showList toString cs} {v}"
  | _, _ => none

end Pycoin.Driver.C11
