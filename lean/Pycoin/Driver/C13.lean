import Pycoin.Driver.Core
import Pycoin.Model.Value
import Pycoin.Model.TxBuild
namespace Pycoin.Driver.C13
open Pycoin.Value Pycoin.Driver
open Pycoin.Build

def parseOut? (s : String) : Option Out :=
  match s.splitOn ":" with
  | [v, sc] => do pure ⟨← parseInt? v, ← parseHex? sc⟩
  | _ => none

def parseIn? (s : String) : Option In :=
  match s.splitOn ":" with
  | [h, i] => do pure ⟨← parseHex? h, ← parseNat? i⟩
  | _ => none

/-- `h=v:s;v:s` entries separated by `|`; `~` = empty db -/
def parseDb? (s : String) : Option (List (Bytes × List Out)) :=
  if s = "~" then some [] else
  (s.splitOn "|").mapM fun e =>
    match e.splitOn "=" with
    | [h, outs] => do
      let hb ← parseHex? h
      let os ← if outs = "" then some [] else (outs.splitOn ";").mapM parseOut?
      pure (hb, os)
    | _ => none

def showVErr : VErr → String
  | .keyError => "KeyError" | .badSpendable => "BadSpendableError" | .indexError => "IndexError"


/-! ### second part: recommended fee, create_tx as a whole, histories with coinbase / missing unspents, lying db -/

def hexChars (b : Bytes) : String := hx b

/-- `F:v:script:hash:idx`, F = o (object) | t (its `as_text()`) | d (its `as_dict()`) -/
def parseSpForm? (s : String) : Option SpForm :=
  match s.splitOn ":" with
  | [f, v, sc, h, i] => do
    let sp : Pycoin.Spendable := ⟨← parseInt? v, ← parseHex? sc, ← parseHex? h, ← parseInt? i, 0, 0, 0⟩
    if f = "o" then some (.obj sp)
    else if f = "t" then some (.text sp.asText)
    else if f = "d" then some (.dict sp.asDict)
    else none
  | _ => none

/-- `F:v:script`, F = p (pair) | b (bare address: value 0 whatever is written) -/
def parsePayable? (s : String) : Option Payable :=
  match s.splitOn ":" with
  | [f, v, sc] => do
    let v ← parseInt? v
    let sc ← parseHex? sc
    if f = "p" then some ⟨v, sc⟩ else if f = "b" then some ⟨0, sc⟩ else none
  | _ => none

def parseFee? (s : String) : Option (Option Int) :=
  if s = "std" then some none else (parseInt? s).map some

def showBuilt (b : Built) : String :=
  let outs := b.tx.outs.map (·.value)
  let ins := b.unspents.map (·.coinValue)
  "ok " ++ showList toString outs ++ " fee=" ++ toString (Value.fee ins outs)
    ++ " in=" ++ showList (fun (i : Pycoin.TxIn) => hx i.prevHash ++ ":" ++ toString i.prevIndex) b.tx.ins
    ++ " us=" ++ showList toString ins

def parseOptInt? (s : String) : Option (Option Int) :=
  if s = "n" then some none else (parseInt? s).map some

def parseHStep? (t : String) : Option HStep :=
  match t.splitOn ":" with
  | ["fee"] => some .fee
  | ["total_in"] => some .totalIn
  | ["total_out"] => some .totalOut
  | ["set_unspents", vs] => (parseList? parseOptInt? vs).map .setUnspents
  | ["assign", vs] => (parseList? parseOptInt? vs).map .assign
  | ["from_db", vs, ign] => do some (.fromDb (← parseList? parseOptInt? vs) (ign = "1"))
  | ["set_out", i, v] => do some (.setOut (← parseNat? i) (← parseInt? v))
  | _ => none

def showHAns : HAns → String
  | .val v => toString v
  | .done => "-"
  | .err e => e.tag

/-- `key=hash=v:s;v:s` entries separated by `|`; `~` = empty db -/
def parseDbH? (s : String) : Option (List (Bytes × SrcTx)) :=
  if s = "~" then some [] else
  (s.splitOn "|").mapM fun e =>
    match e.splitOn "=" with
    | [k, h, outs] => do
      let kb ← parseHex? k
      let hb ← parseHex? h
      let os ← if outs = "" then some [] else (outs.splitOn ";").mapM parseOut?
      pure (kb, ⟨hb, os⟩)
    | _ => none

def handle2 : Handler := fun op args =>
  match op, args with
  | "recfee_n", [n] => do some s!"ok {recommendedFeeForSize (← parseNat? n)}"
  | "recfee", [h] => do
    let b ← parseHex? h
    match Pycoin.Tx.fromBin .btc b with
    | .error e => some ("err " ++ e.tag)
    | .ok (tx, _) =>
      match recommendedFeeForTx tx with
      | .ok f => some s!"ok {f}"
      | .error e => some ("err " ++ e.tag)
  | "ctx", [fee, sps, pays] => do
    let fee ← parseFee? fee
    let sps ← parseList? parseSpForm? sps
    let pays ← parseList? parsePayable? pays
    match createTx sps pays fee with
    | .ok b => some (showBuilt b)
    | .error e => some ("err " ++ e.tag)
  | "csigned", [fee, ins, keys, pays, supplied] => do
    let fee ← parseFee? fee
    let ins ← parseList? parseInt? ins
    let keys ← parseList? parseNat? keys
    let pays ← parseList? parsePayable? pays
    let supplied ← parseList? parseNat? supplied
    if ins.length ≠ keys.length then none else
    let sps : List SpForm := (ins.zip (List.range ins.length)).map fun (v, i) =>
      .obj ⟨v, [], List.replicate 32 (UInt8.ofNat (i + 1)), (i : Int), 0, 0, 0⟩
    match createSignedTx sps pays fee keys supplied with
    | .ok b =>
      let outs := b.tx.outs.map (·.value)
      some ("ok " ++ showList toString outs ++ " fee=" ++ toString (Value.fee ins outs))
    | .error e => some ("err " ++ e.tag)
  | "chain", [srcs, picks, pays, fee, tamper] => do
    -- source transactions (real hashes) → tx_outs_as_spendable → create_tx → validate_unspents against those sources
    let fee ← parseFee? fee
    let pays ← parseList? parsePayable? pays
    let srcOuts ← (srcs.splitOn "|").mapM fun e => (e.splitOn ";").mapM parseOut?
    let srcTxs : List Pycoin.Tx := (srcOuts.zip (List.range srcOuts.length)).map fun (outs, j) =>
      ⟨1, [⟨List.replicate 32 (UInt8.ofNat (j + 1)), (j : Int), [], 4294967295, []⟩], outs.map (fun o => ⟨o.value, o.script⟩), 0⟩
    let hashed ← srcTxs.mapM fun t => match Pycoin.Tx.hash .btc t with | .ok h => some (h, t) | .error _ => none
    let picks ← parseList? (fun p => match p.splitOn ":" with | [j, i] => do some ((← parseNat? j), (← parseNat? i)) | _ => none) picks
    let sps ← picks.mapM fun (j, i) => do
      let (h, t) ← hashed[j]?
      let o ← t.outs[i]?
      some (SpForm.obj ⟨o.value, o.script, h, (i : Int), 0, 0, 0⟩)
    let tam ← if tamper = "-" then some none else
      match tamper.splitOn ":" with | [k, dv] => do some (some ((← parseNat? k), (← parseInt? dv))) | _ => none
    match createTx sps pays fee with
    | .error e => some ("err " ++ e.tag)
    | .ok b =>
      let us : List Out := (b.unspents.zip (List.range b.unspents.length)).map fun (u, k) =>
        ⟨match tam with | some (k', dv) => if k = k' then u.coinValue + dv else u.coinValue | none => u.coinValue, u.script⟩
      let ins : List In := b.tx.ins.map fun i => ⟨i.prevHash, i.prevIndex.toNat⟩
      let db : Bytes → Option SrcTx := fun h => (hashed.find? (·.1 = h)).map fun (h', t) => ⟨h', t.outs.map fun o => ⟨o.value, o.script⟩⟩
      match validateUnspentsFull db ins us with
      | .error e => some ("err " ++ showVErr e)
      | .ok () =>
        let outs := b.tx.outs.map (·.value)
        some ("ok " ++ showList toString outs ++ " fee=" ++ toString (Value.fee (us.map (·.value)) outs))
  | "txhist2", [cb, us, outs, steps] => do
    let cb ← parseList? (fun s => if s = "1" then some true else if s = "0" then some false else none) cb
    let us ← parseList? parseOptInt? us
    let outs ← parseList? parseInt? outs
    let steps ← (steps.splitOn ";").mapM parseHStep?
    some ("ok " ++ ";".intercalate ((hRun ⟨cb, us, outs⟩ steps).map showHAns))
  | "validate_unspents_h", [ins, us, outs, db] => do
    let ins ← parseList? parseIn? ins
    let us ← parseList? parseOut? us
    let outs ← parseList? parseInt? outs
    let db ← parseDbH? db
    match validateUnspentsFull (fun h => (db.find? (·.1 = h)).map (·.2)) ins us with
    | .error e => some ("err " ++ showVErr e)
    | .ok () =>
      let st : TxSt := ⟨ins.map (fun i => i.prevHash == Value.zero32 && i.prevIndex == 4294967295), us.map (fun o => some o.value), outs⟩
      match st.fee with
      | .ok f => some s!"ok {f}"
      | .error e => some ("err " ++ e.tag)
  | _, _ => none

def handleCore : Handler := fun op args =>
  match op, args with
  | "split", [t, c] => do
    let t ← parseNat? t; let c ← parseNat? c
    if c = 0 then some "err ZeroDivisionError" else
    some ("ok " ++ showList toString (splitWithRemainder t c))
  | "distribute", [ins, outs, fee] => do
    let ins ← parseList? parseInt? ins
    let outs ← parseList? parseInt? outs
    let fee ← parseInt? fee
    match distribute ins outs fee with
    | .ok r => some ("ok " ++ showList toString r ++ " fee=" ++ toString (Value.fee ins r))
    | .error .insufficient => some "err insufficient"
    | .error .notEnough => some "err notEnough"
  | "sat2btc", [n] => do
    let d := satoshiToBtc (← parseInt? n)
    some s!"ok {d.coeff} {d.exp}"
  | "btc2sat", [c, e] => do
    some s!"ok {btcToSatoshi ⟨← parseInt? c, ← parseInt? e⟩}"
  | "btc2sat_s", [t] => do
    let b ← parseHex? t
    match Dec.ofString? (String.ofList (b.map fun x => Char.ofNat x.toNat)) with
    | some d => some s!"ok {btcToSatoshi d}"
    | none => some "err InvalidOperation"
  | "mbtc2sat_s", [t] => do
    let b ← parseHex? t
    match Dec.ofString? (String.ofList (b.map fun x => Char.ofNat x.toNat)) with
    | some d => some s!"ok {mbtcToSatoshi d}"
    | none => some "err InvalidOperation"
  | "sat2mbtc", [n] => do
    let d := satoshiToMbtc (← parseInt? n)
    some s!"ok {d.coeff} {d.exp}"
  | "mbtc2sat", [c, e] => do
    some s!"ok {mbtcToSatoshi ⟨← parseInt? c, ← parseInt? e⟩}"
  | "txhist", [us, outs, steps] => do
    let us ← parseList? parseInt? us
    let outs ← parseList? parseInt? outs
    let steps ← (steps.splitOn ";").mapM fun t =>
      match t.splitOn ":" with
      | ["fee"] => some TxStep.fee
      | ["total_in"] => some TxStep.totalIn
      | ["total_out"] => some TxStep.totalOut
      | [k, vs] => if k = "set_unspents" ∨ k = "from_db" ∨ k = "assign" then (parseList? parseInt? vs).map TxStep.setUnspents else none
      | ["set_out", i, v] => do some (TxStep.setOut (← parseNat? i) (← parseInt? v))
      | _ => none
    some ("ok " ++ ";".intercalate ((txRun ⟨us, outs⟩ steps).map fun a => match a with | some v => toString v | none => "-"))
  | "validate_unspents", [ins, us, db] => do
    let ins ← parseList? parseIn? ins
    let us ← parseList? parseOut? us
    let db ← parseDb? db
    match validateUnspents (fun h => (db.find? (·.1 = h)).map (·.2)) ins us with
    | .ok () => some "ok"
    | .error e => some ("err " ++ showVErr e)
  | _, _ => handle2 op args

/-- `services_then <op> <args…>`: the harness first exercises the library's own service layer (imports every provider module,
asks the chain.so provider for spendables through a canned HTTP reply) in the same process, then evaluates `<op>`; the
conversions do not depend on what the process did before, so the model's answer is that of `<op>` alone -/
def handle : Handler := fun op args =>
  match op, args with
  | "services_then", op' :: args' => handleCore op' args'
  | "faithful_then", op' :: args' => handleCore op' args'   -- the same transaction validated with faithful records first: no memory
  | _, _ => handleCore op args

end Pycoin.Driver.C13
