import Pycoin.Driver.Core
import Pycoin.Model.Value
namespace Pycoin.Driver.C13
open Pycoin.Value Pycoin.Driver

def parseOut? (s : String) : Option Out :=
  match s.splitOn ":" with
  | [v, sc] => do pure ⟨← parseInt? v, ← parseHex? sc⟩
  | _ => none

def parseIn? (s : String) : Option In :=
  match s.splitOn ":" with
  | [h, i] => do pure ⟨← parseHex? h, ← parseNat? i⟩
  | _ => none

/-- `h=v:s;v:s` entries separated by `|`; `~` = empty db -/
def parseDb? (s : String) : Option (List (Bytes × List Out)) :=
  if s = "~" then some [] else
  (s.splitOn "|").mapM fun e =>
    match e.splitOn "=" with
    | [h, outs] => do
      let hb ← parseHex? h
      let os ← if outs = "" then some [] else (outs.splitOn ";").mapM parseOut?
      pure (hb, os)
    | _ => none

def showVErr : VErr → String
  | .keyError => "KeyError" | .badSpendable => "BadSpendableError" | .indexError => "IndexError"

def handle : Handler := fun op args =>
  match op, args with
  | "split", [t, c] => do
    let t ← parseNat? t; let c ← parseNat? c
    if c = 0 then some "err ZeroDivisionError" else
    some ("ok " ++ showList toString (splitWithRemainder t c))
  | "distribute", [ins, outs, fee] => do
    let ins ← parseList? parseInt? ins
    let outs ← parseList? parseInt? outs
    let fee ← parseInt? fee
    match distribute ins outs fee with
    | .ok r => some ("ok " ++ showList toString r ++ " fee=" ++ toString (Value.fee ins r))
    | .error .insufficient => some "err insufficient"
    | .error .notEnough => some "err notEnough"
  | "sat2btc", [n] => do
    let d := satoshiToBtc (← parseInt? n)
    some s!"ok {d.coeff} {d.exp}"
  | "btc2sat", [c, e] => do
    some s!"ok {btcToSatoshi ⟨← parseInt? c, ← parseInt? e⟩}"
  | "btc2sat_s", [t] => do
    let b ← parseHex? t
    match Dec.ofString? (String.ofList (b.map fun x => Char.ofNat x.toNat)) with
    | some d => some s!"ok {btcToSatoshi d}"
    | none => some "err InvalidOperation"
  | "mbtc2sat_s", [t] => do
    let b ← parseHex? t
    match Dec.ofString? (String.ofList (b.map fun x => Char.ofNat x.toNat)) with
    | some d => some s!"ok {mbtcToSatoshi d}"
    | none => some "err InvalidOperation"
  | "sat2mbtc", [n] => do
    let d := satoshiToMbtc (← parseInt? n)
    some s!"ok {d.coeff} {d.exp}"
  | "mbtc2sat", [c, e] => do
    some s!"ok {mbtcToSatoshi ⟨← parseInt? c, ← parseInt? e⟩}"
  | "txhist", [us, outs, steps] => do
    let us ← parseList? parseInt? us
    let outs ← parseList? parseInt? outs
    let steps ← (steps.splitOn ";").mapM fun t =>
      match t.splitOn ":" with
      | ["fee"] => some TxStep.fee
      | ["total_in"] => some TxStep.totalIn
      | ["total_out"] => some TxStep.totalOut
      | [k, vs] => if k = "set_unspents" ∨ k = "from_db" ∨ k = "assign" then (parseList? parseInt? vs).map TxStep.setUnspents else none
      | ["set_out", i, v] => do some (TxStep.setOut (← parseNat? i) (← parseInt? v))
      | _ => none
    some ("ok " ++ ";".intercalate ((txRun ⟨us, outs⟩ steps).map fun a => match a with | some v => toString v | none => "-"))
  | "validate_unspents", [ins, us, db] => do
    let ins ← parseList? parseIn? ins
    let us ← parseList? parseOut? us
    let db ← parseDb? db
    match validateUnspents (fun h => (db.find? (·.1 = h)).map (·.2)) ins us with
    | .ok () => some "ok"
    | .error e => some ("err " ++ showVErr e)
  | _, _ => none

end Pycoin.Driver.C13
