import Pycoin.Driver.C05
import Pycoin.Model.ConstraintSolver
/-!
C05 ops of the solver's symbolic machinery (`Model/Constraints.lean`, `Model/ConstraintSolver.lean`).

    c05_constraints coin tx unspents p2sh idx ht
        `Solver.determine_constraints(idx, p2sh_lookup)`: `ok n c_1 … c_n`; a constraint is printed as
        bytes (hex, `-` empty) | x_i | w_i | HASH160(t) | EQUAL(t,t) | IS_PUBKEY(t) | IS_SIGNATURE(t)
        | SIGNATURES_CORRECT([t;…],[t;…],z)   with z = what the sighash closure answers for hash type `ht` (`none`: ScriptError)
    c05_solve_machinery coin tx unspents p2sh idx ht keys placeholder
        `Solver(tx).solve(lookup, idx, hash_type=ht, p2sh_lookup=…[, signature_placeholder=…])` of the coin's Solver class:
        `ok script witness|none` (an unsolved witness item is printed `none`); placeholder := "default" | "none" | hex
    c05_sign_machinery coin tx unspents p2sh ht keys valid
        one `tx.sign` pass over all inputs with `solve` = the machinery (`Solve.signOne`); `valid` as in `c05_sign_tx`
-/
namespace Pycoin.Driver.C05solve
open Pycoin Pycoin.Driver Pycoin.DriverLib Pycoin.Sign Pycoin.Solve Pycoin.Driver.C05

def showAtom : Atom → String
  | .x n => s!"x_{n}"
  | .w n => s!"w_{n}"

def showLeaf : Leaf → String
  | .const b => hx b
  | .atom a => showAtom a

def showTerm (dig : Bool → Bytes → Option Int) : Term → String
  | .const b => hx b
  | .atom a => showAtom a
  | .hash160 t => "HASH160(" ++ showTerm dig t ++ ")"
  | .equal a b => "EQUAL(" ++ showTerm dig a ++ "," ++ showTerm dig b ++ ")"
  | .isPubkey t => "IS_PUBKEY(" ++ showTerm dig t ++ ")"
  | .isSignature t => "IS_SIGNATURE(" ++ showTerm dig t ++ ")"
  | .sigsCorrect secs sigs w code =>
    "SIGNATURES_CORRECT([" ++ ";".intercalate (secs.map showLeaf) ++ "],[" ++ ";".intercalate (sigs.map showLeaf) ++ "]," ++
      (match dig w code with | some z => toString z | none => "none") ++ ")"

def ctxOf (tx : Tx) (idx : Nat) : VM.TxCtx :=
  ⟨tx.lockTime.toNat, (tx.ins[idx]?.map (·.sequence.toNat)).getD 0, tx.version.toNat⟩

def puzzleOf (us : List (Option TxOut)) (idx : Nat) : Bytes :=
  match us[idx]?.join with | some u => u.script | none => []

def handle : Handler := fun op args =>
  match op, args with
  | "c05_constraints", [coin, tx, us, p2sh, idx, ht] => do
    let tx ← parseTx? tx
    let us ← parseUnspents? us
    let scripts ← parseList? parseHex? p2sh
    let idx ← parseNat? idx
    let ht ← parseNat? ht
    let cls ← (Gen.Sign.coinClass.find? (·.1 = coin)).map (·.2)
    let c ← parseCoin? cls
    match determineConstraints (p2shLookup scripts) (ctxOf tx idx) (puzzleOf us idx) with
    | .error e => some ("err " ++ e.tag)
    | .ok cons =>
      let dig := fun (w : Bool) (code : Bytes) => modelSighash c tx us idx w code ht
      some (" ".intercalate (("ok " ++ toString cons.length) :: cons.map (showTerm dig)))
  | "c05_solve_machinery", [coin, tx, us, p2sh, idx, ht, keys, ph] => do
    let tx ← parseTx? tx
    let us ← parseUnspents? us
    let scripts ← parseList? parseHex? p2sh
    let idx ← parseNat? idx
    let ht ← if ht = "none" then some none else (parseNat? ht).map some
    let entries ← parseList? parseEntry? keys
    let ph ← if ph = "default" then some (some Gen.Sign.defaultPlaceholder) else if ph = "none" then some none
      else (parseHex? ph).map some
    let cls ← (Gen.Sign.coinClass.find? (·.1 = coin)).map (·.2)
    let c ← parseCoin? cls
    let tin ← tx.ins[idx]?
    let sa : SolveArgs := { C := crypto, lookup := fun h => assocGet h entries, p2sh := p2shLookup scripts,
                            sighash := modelSighash c tx us idx,
                            ht := effectiveHashType (Gen.Sign.forkidCoins.contains coin) ht, placeholder := ph }
    match Solve.solve sa (ctxOf tx idx) (puzzleOf us idx) tin.script tin.witness with
    | .error e => some ("err " ++ e.tag)
    | .ok (sc, w) =>
      let sw := match w with
        | none => "none"
        | some w => if w.isEmpty then "~" else "/".intercalate (w.map fun o => match o with | some b => hx b | none => "none")
      some s!"ok {hx sc} {sw}"
  | "c05_sign_machinery", [coin, tx, us, p2sh, ht, keys, valid] => do
    let tx ← parseTx? tx
    let us ← parseUnspents? us
    let scripts ← parseList? parseHex? p2sh
    let ht ← if ht = "none" then some none else (parseNat? ht).map some
    let entries ← parseList? parseEntry? keys
    let cls ← (Gen.Sign.coinClass.find? (·.1 = coin)).map (·.2)
    let c ← parseCoin? cls
    let valid := valid.toList
    let a : SignArgs := {
      C := crypto, fork := Gen.Sign.forkidCoins.contains coin, lookup := fun h => assocGet h entries,
      p2sh := p2shLookup scripts, sighash := modelSighash c tx us,
      valid := fun i => valid[i]? == some '1', ht := ht, subset := none }
    if tx.missingUnspents us then some "err ValueError" else
    let rec go (idxs : List Nat) (ins : List TxIn) : Except Sign.Err (List TxIn) :=
      match idxs with
      | [] => .ok ins
      | i :: r =>
        match Solve.signOne a (ctxOf tx) us ins i with
        | .error e => .error e
        | .ok ins' => go r ins'
    match go (List.range tx.ins.length) tx.ins with
    | .error e => some ("err " ++ e.tag)
    | .ok ins => some ("ok " ++ showTx { tx with ins := ins })
  | _, _ => none

end Pycoin.Driver.C05solve
