import Pycoin.Driver.Core
import Pycoin.Spec.Consensus
import Pycoin.Spec.Secp256k1
/-!
Driver ops of the consensus specification (`Pycoin.Spec.Consensus`), all prefixed `spec_`.

    spec_eval     flags script stack ctx sigversion sigtable   -> ok <stack> | fail | need … | precondition
    spec_verify   flags scriptSig scriptPubKey witness ctx sigtable -> ok | fail | need … | precondition
    spec_eval_x / spec_verify_x   same arguments; failures carry Core's error name: `fail <SCRIPT_ERR name>`
    spec_laxder   sig            -> ok r s | fail          (ecdsa_signature_parse_der_lax)
    spec_sigenc   flags sig      -> ok | fail <name>       (CheckSignatureEncoding)
    spec_keyenc   flags ver key  -> ok | fail <name>       (CheckPubKeyEncoding)
    spec_scriptnum minimal maxlen vch -> ok n | fail
    spec_numenc   n              -> ok vch
    spec_fad      script sig     -> ok script'             (FindAndDelete of `CScript() << sig`)
    spec_checksig sig pubkey digest -> ok 0|1             (CheckSig with the signature hash given: libsecp256k1 key parsing, lax DER,
                                                           ECDSA over secp256k1 — all in Lean, Spec/Secp256k1.lean; cross-checks the oracle)
    spec_pubkey   key            -> ok x y | fail

* `flags`: Core's `SCRIPT_VERIFY_*` bit mask, decimal.  `stack`/`witness`: items bottom first, comma separated (`~` = none).
* `ctx`: `version:locktime:sequence[:…]` (further fields are for the harness: amount, transaction).
* `sigversion`: `0` base, `1` witness v0.
* `sigtable`: the signature oracle, entries `sig/pubkey/scriptCode/sigversion=0|1` separated by `,` (`~` = empty).
  **This is the single switch point of the oracle**: `SigOracle.check` below answers `CheckSig` from the table; when
  the curve and sighash models exist it is replaced by a function computing the answer in Lean (the table argument then
  carries the transaction instead).  A request that is not in the table aborts the evaluation with
  `need sig pubkey scriptCode sigversion`, so that the harness can add the entry and ask again.
-/
namespace Pycoin.Driver.C03spec
open Pycoin.Driver Pycoin.Spec.Consensus

structure Query where
  sig : Bytes
  pubkey : Bytes
  scriptCode : Bytes
  sv : SigVersion
  deriving DecidableEq

def svCode : SigVersion → String
  | .base => "0" | .witnessV0 => "1"

def parseSv? : String → Option SigVersion
  | "0" => some .base | "1" => some .witnessV0 | _ => none

abbrev SigTable := List (Query × Bool)

def parseEntry? (s : String) : Option (Query × Bool) :=
  match s.splitOn "=" with
  | [k, v] =>
    match k.splitOn "/" with
    | [a, b, c, d] => do
      let q : Query := ⟨← parseHex? a, ← parseHex? b, ← parseHex? c, ← parseSv? d⟩
      let v ← if v = "1" then some true else if v = "0" then some false else none
      pure (q, v)
    | _ => none
  | _ => none

def parseTable? (s : String) : Option SigTable := parseList? parseEntry? s

namespace SigOracle
/-- the oracle monad: a missing answer aborts with the query -/
abbrev M := Except Query

/-- `CheckSig` answered from the table (version 1 of the oracle: answers computed outside Lean) -/
def check (t : SigTable) : SigChecker M := fun sig pk sc sv =>
  let q : Query := ⟨sig, pk, sc, sv⟩
  match t.find? (fun e => e.1 = q) with
  | some (_, v) => .ok v
  | none => .error q
end SigOracle

def parseCtx? (s : String) : Option TxCtx :=
  match s.splitOn ":" with
  | v :: l :: q :: _ => do pure ⟨← parseNat? v, ← parseNat? l, ← parseNat? q⟩
  | _ => none

def parseStack? (s : String) : Option (List Bytes) := parseList? parseHex? s

def showNeed (q : Query) : String :=
  s!"need {hx q.sig} {hx q.pubkey} {hx q.scriptCode} {svCode q.sv}"

def showFail (withName : Bool) (e : ScriptError) : String :=
  if withName then "fail " ++ e.name else "fail"

def doEval (withName : Bool) (args : List String) : Option String :=
  match args with
  | [flags, script, stack, ctx, sv, table] => do
    let bits ← parseNat? flags
    let script ← parseHex? script
    let stack ← parseStack? stack
    let tx ← parseCtx? ctx
    let sv ← parseSv? sv
    let table ← parseTable? table
    let flags := Flags.ofBits bits
    match evalScriptM (SigOracle.check table) stack.reverse script flags tx sv with
    | .error q => some (showNeed q)
    | .ok (.error e) => some (showFail withName e)
    | .ok (.ok out) => some ("ok " ++ showList hx out.reverse)
  | _ => none

def doVerify (withName : Bool) (args : List String) : Option String :=
  match args with
  | [flags, scriptSig, scriptPubKey, witness, ctx, table] => do
    let bits ← parseNat? flags
    let scriptSig ← parseHex? scriptSig
    let scriptPubKey ← parseHex? scriptPubKey
    let witness ← parseStack? witness
    let tx ← parseCtx? ctx
    let table ← parseTable? table
    let flags := Flags.ofBits bits
    if !flags.permitted then some "precondition" else
    match verifyScriptM (SigOracle.check table) scriptSig scriptPubKey witness flags tx with
    | .error q => some (showNeed q)
    | .ok (some e) => some (showFail withName e)
    | .ok none => some "ok"
  | _ => none

def handle : Handler := fun op args =>
  match op, args with
  | "spec_eval", _ => doEval false args
  | "spec_eval_x", _ => doEval true args
  | "spec_verify", _ => doVerify false args
  | "spec_verify_x", _ => doVerify true args
  -- `_h`: the same op, evaluated by the harness in a process where the bundled pure-Python RIPEMD-160 is selected
  -- (PYCOIN_USE_PYTHON_RIPEMD160): consensus does not depend on which implementation computes the digest
  | "spec_eval_h", _ => doEval false args
  | "spec_verify_h", _ => doVerify false args
  | "spec_laxder", [sig] => do
    match laxDerParse (← parseHex? sig) with
    | some (r, s) => some s!"ok {r} {s}"
    | none => some "fail"
  | "spec_sigenc", [flags, sig] => do
    match checkSignatureEncoding (← parseHex? sig) (Flags.ofBits (← parseNat? flags)) with
    | none => some "ok"
    | some e => some ("fail " ++ e.name)
  | "spec_keyenc", [flags, sv, key] => do
    match checkPubKeyEncoding (← parseHex? key) (Flags.ofBits (← parseNat? flags)) (← parseSv? sv) with
    | none => some "ok"
    | some e => some ("fail " ++ e.name)
  | "spec_scriptnum", [minimal, maxlen, vch] => do
    match scriptNum (← parseHex? vch) (minimal = "1") (← parseNat? maxlen) with
    | .ok n => some s!"ok {n}"
    | .error _ => some "fail"
  | "spec_numenc", [n] => do some ("ok " ++ hx (scriptNumEncode (← parseInt? n)))
  | "spec_checksig", [sig, pk, digest] => do
    let d ← parseHex? digest
    some ("ok " ++ showBool (Pycoin.Spec.Secp256k1.checkSigWith (fun _ => d) (← parseHex? sig) (← parseHex? pk)))
  | "spec_pubkey", [key] => do
    match Pycoin.Spec.Secp256k1.parsePubKey (← parseHex? key) with
    | some (x, y) => some s!"ok {x} {y}"
    | none => some "fail"
  | "spec_fad", [script, sig] => do
    some ("ok " ++ hx (findAndDelete (← parseHex? script) (pushData (← parseHex? sig))))
  | _, _ => none

end Pycoin.Driver.C03spec
