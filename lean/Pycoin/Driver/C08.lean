import Pycoin.Driver.Core
import Pycoin.Model.RealEnv
import Pycoin.Model.ScriptTools
import Pycoin.Model.TxInAddr
/-!
C08 ops.  Networks are named by their module under pycoin/symbols (`btc`, `xtn`, …); text arguments travel as the
hex of their UTF-8 bytes.  `realEnv` (Model/RealEnv.lean) plugs the C11 codec models and the hash models into the address model.
-/
namespace Pycoin.Driver.C08
open Pycoin.Addr Pycoin.Driver

/-- the codec/hash instance (defined in `Model/RealEnv.lean`; other drivers refer to it under this name) -/
def realEnv : Env := Pycoin.Addr.realEnv

def parseText? (s : String) : Option String := do
  let b ← parseHex? s
  String.fromUTF8? ⟨b.toArray⟩

def showInfo : Info → String
  | .multisig m ks => s!"multisig:{m}:" ++ (if ks.isEmpty then "~" else "/".intercalate (ks.map hx))
  | .unknown s => "unknown:" ++ hx s
  | .nulldata d => "nulldata:" ++ hx d
  | .p2pkh h => "p2pkh:" ++ hx h
  | .p2pkhWit h => "p2pkh_wit:" ++ hx h
  | .p2shWit h => "p2sh_wit:" ++ hx h
  | .p2sh h => "p2sh:" ++ hx h
  | .p2pk s => "p2pk:" ++ hx s
  | .p2tr k => "p2tr:" ++ hx k

def parseInfo? (s : String) : Option Info :=
  match s.splitOn ":" with
  | ["multisig", m, ks] => do
    let m ← parseNat? m
    let ks ← if ks = "~" then some [] else (ks.splitOn "/").mapM parseHex?
    pure (.multisig m ks)
  | [t, d] => do
    let d ← parseHex? d
    match t with
    | "p2pkh" => some (.p2pkh d) | "p2pkh_wit" => some (.p2pkhWit d) | "p2sh_wit" => some (.p2shWit d)
    | "p2sh" => some (.p2sh d) | "p2pk" => some (.p2pk d) | "p2tr" => some (.p2tr d)
    | "nulldata" => some (.nulldata d) | "unknown" => some (.unknown d)
    | _ => none
  | _ => none

def showAddr : AddrOut → String
  | .ok (some s) => "ok " ++ s
  | .ok none => "ok None"
  | .error e => "err " ++ e.tag

def showBytesR : Except Err Bytes → String
  | .ok b => "ok " ++ hx b
  | .error e => "err " ++ e.tag

/-- a parsed Contract: its info, `script()`, `address()` -/
def showContract (env : Env) (net : Network) : ParseOut → String
  | .error e => "err " ++ e.tag
  | .ok none => "ok None"
  | .ok (some i) =>
    "ok " ++ showInfo i ++ " script=" ++ (match contractScript i with | .ok b => hx b | .error e => "err:" ++ e.tag)
      ++ " address=" ++ (match contractAddress env net i with
        | .ok (some s) => s | .ok none => "None" | .error e => "err:" ++ e.tag)

def parseFlag? : String → Option (Option Bool)
  | "c" => some (some true) | "u" => some (some false) | "d" => some none | _ => none

def parseKeyStep? (s : String) : Option KeyStep :=
  match s.splitOn ":" with
  | ["public_copy"] => some .publicCopy
  | ["hash160", f] => (parseFlag? f).map .hash160
  | ["fingerprint", f] => (parseFlag? f).map .fingerprint
  | ["address", f] => (parseFlag? f).map .address
  | ["sec", f] => (parseFlag? f).map .sec
  | _ => none

def handle : Handler := fun op args =>
  match op, args with
  | "c08addr", [net, script] => do
    some (showAddr (forScript realEnv (← findNet net) (← parseHex? script)))
  | "c08kind", [net, kind, h] => do
    let net ← findNet net
    let h ← parseHex? h
    match kind with
    | "p2pkh" => some (showAddr (forP2pkh realEnv net h))
    | "p2sh" => some (showAddr (forP2sh realEnv net h))
    | "p2pkh_wit" => some (showAddr (forP2pkhWit realEnv net h))
    | "p2sh_wit" => some (showAddr (forP2shWit realEnv net h))
    | "p2tr" => some (showAddr (forP2tr realEnv net h))
    | "p2s" => some (showAddr (forP2s realEnv net h))
    | "p2s_wit" => some (showAddr (forP2sWit realEnv net h))
    | _ => none
  | "c08parse", [net, text] => do
    let net ← findNet net
    some (showContract realEnv net (parseAddress realEnv net (← parseText? text)))
  | "c08foraddress", [net, text] => do
    let net ← findNet net
    match forAddress realEnv net (← parseText? text) with
    | .ok (some b) => some ("ok " ++ hx b)
    | .ok none => some "ok None"
    | .error e => some ("err " ++ e.tag)
  | "c08info", [script] => do
    match infoForScript (← parseHex? script) with
    | .ok i => some ("ok " ++ showInfo i ++ " rebuilt=" ++ (match forInfo i with | .ok b => hx b | .error e => "err:" ++ e.tag))
    | .error e => some ("err " ++ e.tag)
  | "c08forinfo", [info] => do
    some (showBytesR (forInfo (← parseInfo? info)))
  | "c08keyaddr", [net, kind, sec] => do
    let net ← findNet net
    let sec ← parseHex? sec
    match kind with
    | "key" => some (showAddr (keyAddress realEnv net sec))
    | "bip49" => some (showAddr (bip49Address realEnv net sec))
    | "bip84" => some (showAddr (bip84Address realEnv net sec))
    | _ => none
  | "c08keyseq", [net, kind, _se, prv, flag, secC, secU, steps] => do
    -- a key object's history: `_se` tells the implementation side which key to make; the model needs only the two SECs
    let net ← findNet net
    let kind ← match kind with
      | "key" => some KeyKind.key | "bip32" => some .bip32 | "bip49" => some .bip49 | "bip84" => some .bip84 | _ => none
    let secC ← parseHex? secC
    let secU ← parseHex? secU
    let steps ← parseList? parseKeyStep? steps
    let outs := keyRun realEnv net kind secC secU (freshKey (prv = "1") (flag = "1")) steps
    some ("ok " ++ ";".intercalate (outs.map fun
      | .bytes b => hx b
      | .addr (.ok (some a)) => a
      | .addr (.ok none) => "None"
      | .addr (.error e) => "err:" ++ e.tag
      | .unit => "-"))
  | "c08registry", [] => some ("ok " ++ ",".intercalate networkCodes)
  | "c08netfor", [text] => do
    match networkForNetcode (← parseText? text) with
    | some n => some ("ok " ++ n.module)
    | none => some "err ValueError"
  | "c08contract", [kind, data] => do
    let d ← parseHex? data
    match kind with
    | "nulldata" => some (showBytesR (forNulldata d))
    | "nulldata_push" => some (showBytesR (forNulldataPush d))
    | "p2s" => some (showBytesR (contractForP2s realEnv d))
    | "p2s_wit" => some (showBytesR (contractForP2sWit realEnv d))
    | _ => none
  -- parse an address on net1, move the Contract to net2: its script and address there, and its disassembly
  | "c08override", [net1, net2, text] => do
    let net1 ← findNet net1
    let net2 ← findNet net2
    match parseAddress realEnv net1 (← parseText? text) with
    | .error e => some ("err " ++ e.tag)
    | .ok none => some "ok None"
    | .ok (some i) =>
      let (sc, ad) := overrideContract realEnv net2 i
      some ("ok script=" ++ (match sc with | .ok b => hx b | .error e => "err:" ++ e.tag)
        ++ " address=" ++ (match ad with | .ok (some s) => s | .ok none => "None" | .error e => "err:" ++ e.tag)
        ++ " asm=" ++ (match sc with
          | .ok b => hx (Pycoin.Script.utf8 (Pycoin.Script.disassemble b))
          | .error e => "err:" ++ e.tag)
        ++ " h160=" ++ (match i.field "hash160" with | some h => hx h | none => "None"))
  -- TxIn(...).public_key_sec() / .address(network.address): `cb` = 1 for the null outpoint
  | "c08txin", [net, cb, script] => do
    let net ← findNet net
    let script ← parseHex? script
    let sec := match txInPublicKeySec (cb = "1") script with
      | .ok (some b) => hx b | .ok none => "None" | .error e => "err:" ++ e.tag
    let ad := match txInAddress realEnv net (cb = "1") script with
      | .ok (some a) => a | .ok none => "None" | .error e => "err:" ++ e.tag
    some s!"ok sec={sec} address={ad}"
  | "c08compile", [text] => do
    some (showBytesR (compileText (← parseText? text)))
  | _, _ => none

end Pycoin.Driver.C08
