import Pycoin.Driver.Core
import Pycoin.Driver.C02
import Pycoin.Model.RFC6979
import Pycoin.Spec.RFC6979
/-!
C01 ops: `rfc6979 c d z`, `rfc6979n n d z`, `rfc6979_spec n d z` (the RFC-text spec on the 32-byte hash `z`),
`sign c d z`, `verify c Q z r s`, `recover c z r s par` (`par` = `~` for `None`), `c01_hmac256 key msg`.
The model runs with blinding factor 0; the implementation's is random (that the result does not depend on it
is part of C02).
-/
namespace Pycoin.Driver.C01
open Pycoin.Curve Pycoin.Driver Pycoin.Driver.C02 Pycoin.Native

def handle : Handler := fun op args =>
  match op, args with
  | "c01_hmac256", [k, m] => do
    some ("ok " ++ hx (Pycoin.Hash.hmacSha256L (← parseHex? k) (← parseHex? m)))
  | "rfc6979", [c, d, z] => do
    let c ← parseCurve? c
    some (showRes toString (Pycoin.RFC6979.deterministicGenerateK c.n (← parseInt? d) (← parseInt? z)))
  | "rfc6979n", [n, d, z] => do
    some (showRes toString (Pycoin.RFC6979.deterministicGenerateK (← parseNat? n) (← parseInt? d) (← parseInt? z)))
  | "rfc6979_spec", [n, d, h] => do
    match Pycoin.Spec.RFC6979.generateK Pycoin.RFC6979.defaultFuel (← parseNat? n) (← parseNat? d) (← parseHex? h) with
    | some k => some s!"ok {k}"
    | none => some "err OutOfFuel"
  | "sign", [c, d, z] => do
    let r := Pycoin.RFC6979.signWithRecid (← parseCurve? c) 0 (← parseInt? d) (← parseInt? z)
    some (showRes (fun (t : Int × Int × Int) => s!"{t.1} {t.2.1} {t.2.2}") r)
  | "verify", [c, Q, z, r, s] => do
    some (showRes showBool (verify (← parseCurve? c) 0 (← parsePt? Q) (← parseInt? z) (← parseInt? r) (← parseInt? s)))
  | "recover", [c, z, r, s, par] => do
    let par ← if par = "~" then some none else (parseInt? par).map some
    let res := possiblePublicPairsForSignature (← parseCurve? c) 0 (← parseInt? z) (← parseInt? r) (← parseInt? s) par
    some (showRes (fun l => if l.isEmpty then "~" else ";".intercalate (l.map showPt)) res)
  -- Generator.sign_with_recid / verify / possible_public_pairs_for_signature run over the GLUE MODEL of the OpenSSL class
  -- (`Gen.*` over `Ossl.methods`, libcrypto played by the pure model), compared with the real OpenSSL-configured class
  | "ossl_sign", [c, d, z] => do
    let c ← parseCurve? c
    let r := Gen.signWithRecid (Ossl.methods (pureLib c) c) c 0 Pycoin.RFC6979.deterministicGenerateK (← parseInt? d) (← parseInt? z)
    some (showRes (fun (t : Int × Int × Int) => s!"{t.1} {t.2.1} {t.2.2}") r)
  | "ossl_verify", [c, Q, z, r, s] => do
    let c ← parseCurve? c
    some (showRes showBool (Gen.verify (Ossl.methods (pureLib c) c) c 0 (← parsePt? Q) (← parseInt? z) (← parseInt? r) (← parseInt? s)))
  | "ossl_recover", [c, z, r, s, par] => do
    let c ← parseCurve? c
    let par ← if par = "~" then some none else (parseInt? par).map some
    let res := Gen.possiblePublicPairsForSignature (Ossl.methods (pureLib c) c) c 0 (← parseInt? z) (← parseInt? r) (← parseInt? s) par
    some (showRes (fun l => if l.isEmpty then "~" else ";".intercalate (l.map showPt)) res)
  -- Key.sign / Key.verify: the Key constructor's range / on-curve checks, then Generator.sign / verify; the DER
  -- wrapper is encode-then-decode of (r, s) and `except (UnexpectedDER, ValueError): return False`
  | "keysign", [c, d, z] => do
    let c ← parseCurve? c
    let d ← parseInt? d
    if d < 1 ∨ d ≥ c.n then some "err InvalidSecretExponentError" else
    some (showRes (fun (t : Int × Int) => s!"{t.1} {t.2}") (Pycoin.RFC6979.sign c 0 d (← parseInt? z)))
  | "keyverify", [c, Q, z, r, s] => do
    let c ← parseCurve? c
    let Q ← parsePt? Q
    if Q = none ∨ ¬ containsPoint c Q then some "err InvalidPublicPairError" else
    match verify c 0 Q (← parseInt? z) (← parseInt? r) (← parseInt? s) with
    | .ok b => some ("ok " ++ showBool b)
    | .error e => if e.isValueError then some "ok 0" else some ("err " ++ e.tag)
  | "toy_sign", [c, d, zmax] => do
    let c ← parseCurve? c
    let d ← parseInt? d
    let zmax ← parseNat? zmax
    let one := fun (z : Nat) =>
      match Pycoin.RFC6979.signWithRecid c 0 d ((z : Int) + 1) with
      | .ok (r, s, v) => s!"{r}.{s}.{v}"
      | .error e => e.tag
    some ("ok " ++ ";".intercalate ((List.range zmax).map one))
  | "toy_verify", [c, d, z] => do
    let c ← parseCurve? c
    let d ← parseInt? d
    let z ← parseInt? z
    match mulG c 0 d with
    | .error e => some ("err " ++ e.tag)
    | .ok Q =>
      let cell := fun (r s : Nat) =>
        match verify c 0 Q z r s with
        | .ok true => "1" | .ok false => "0" | .error _ => "E"
      some ("ok " ++ String.join ((List.range (c.n + 2)).flatMap fun r => (List.range (c.n + 2)).map fun s => cell r s))
  | _, _ => none

end Pycoin.Driver.C01
