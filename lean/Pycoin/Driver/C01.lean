import Pycoin.Driver.Core
import Pycoin.Driver.C02
import Pycoin.Model.RFC6979
import Pycoin.Spec.RFC6979
import Pycoin.Model.KeySign
import Pycoin.DriverLib.CachedGen
/-!
C01 ops: `rfc6979 c d z`, `rfc6979n n d z`, `rfc6979_spec n d z` (the RFC-text spec on the 32-byte hash `z`),
`sign c d z`, `verify c Q z r s`, `recover c z r s par` (`par` = `~` for `None`), `c01_hmac256 key msg`.
The model runs with blinding factor 0; the implementation's is random (that the result does not depend on it
is part of C02).  `sign`, `verify`, `recover`, `keysign*`, `keyverify*`, `keyhist` evaluate the model through
`DriverLib/CachedGen.lean` (`_powers` table of secp256k1 / secp256r1 built once): `Props/C01.lean`, `C01_driver_cached_is_model`,
proves these are the pure model's functions.
-/
namespace Pycoin.Driver.C01
open Pycoin.Curve Pycoin.Driver Pycoin.Driver.C02 Pycoin.Native

/-- `d:<d>:<comp>` = `Key(secret_exponent=d, is_compressed=comp)`, `pair:<x>,<y>:<comp>` = `Key(public_pair=…)`,
`sec:<hex>` = `Key.from_sec(…)` -/
def parseKeyCtor? (c : CurveParams) (s : String) : Option (Except Pycoin.Sec.Err Pycoin.KeyCtor.Key) :=
  match s.splitOn ":" with
  | ["d", d, comp] => do
    pure (Pycoin.KeyCtor.keyFromSecretWith c (Pycoin.DriverLib.CachedGen.mulGF c) (← parseInt? d) (comp = "1"))
  | ["pair", pt, comp] => do
    pure (Pycoin.KeyCtor.keyFromPair c (← parsePt? pt) (comp = "1"))
  | ["sec", h] => do
    pure (Pycoin.KeyCtor.keyFromSec c (← parseHex? h))
  | _ => none

def parseStep? (s : String) : Option Pycoin.KeySign.Step :=
  match s.splitOn ":" with
  | ["s", h] => do pure (.sign (← parseHex? h))
  | ["v", h, sig] => do pure (.verify (← parseHex? h) (← parseHex? sig))
  | ["l", h] => do pure (.verifyLast (← parseHex? h))
  | ["p"] => some .pubCopy
  | ["c"] => some .viaSec
  | _ => none

def handle : Handler := fun op args =>
  match op, args with
  | "c01_hmac256", [k, m] => do
    some ("ok " ++ hx (Pycoin.Hash.hmacSha256L (← parseHex? k) (← parseHex? m)))
  | "rfc6979", [c, d, z] => do
    let c ← parseCurve? c
    some (showRes toString (Pycoin.RFC6979.deterministicGenerateK c.n (← parseInt? d) (← parseInt? z)))
  | "rfc6979n", [n, d, z] => do
    some (showRes toString (Pycoin.RFC6979.deterministicGenerateK (← parseNat? n) (← parseInt? d) (← parseInt? z)))
  | "rfc6979_spec", [n, d, h] => do
    match Pycoin.Spec.RFC6979.generateK Pycoin.RFC6979.defaultFuel (← parseNat? n) (← parseNat? d) (← parseHex? h) with
    | some k => some s!"ok {k}"
    | none => some "err OutOfFuel"
  | "sign", [c, d, z] => do
    let r := Pycoin.DriverLib.CachedGen.signRecidF (← parseCurve? c) (← parseInt? d) (← parseInt? z)
    some (showRes (fun (t : Int × Int × Int) => s!"{t.1} {t.2.1} {t.2.2}") r)
  | "verify", [c, Q, z, r, s] => do
    some (showRes showBool (Pycoin.DriverLib.CachedGen.verifyF (← parseCurve? c) (← parsePt? Q) (← parseInt? z) (← parseInt? r) (← parseInt? s)))
  | "recover", [c, z, r, s, par] => do
    let par ← if par = "~" then some none else (parseInt? par).map some
    let res := Pycoin.DriverLib.CachedGen.recoverF (← parseCurve? c) (← parseInt? z) (← parseInt? r) (← parseInt? s) par
    some (showRes (fun l => if l.isEmpty then "~" else ";".intercalate (l.map showPt)) res)
  -- Generator.sign_with_recid / verify / possible_public_pairs_for_signature run over the GLUE MODEL of the OpenSSL class
  -- (`Gen.*` over `Ossl.methods`, libcrypto played by the pure model), compared with the real OpenSSL-configured class
  | "ossl_sign", [c, d, z] => do
    let c ← parseCurve? c
    let r := Gen.signWithRecid (Ossl.methods (pureLib c) c) c 0 Pycoin.RFC6979.deterministicGenerateK (← parseInt? d) (← parseInt? z)
    some (showRes (fun (t : Int × Int × Int) => s!"{t.1} {t.2.1} {t.2.2}") r)
  | "ossl_verify", [c, Q, z, r, s] => do
    let c ← parseCurve? c
    some (showRes showBool (Gen.verify (Ossl.methods (pureLib c) c) c 0 (← parsePt? Q) (← parseInt? z) (← parseInt? r) (← parseInt? s)))
  | "ossl_recover", [c, z, r, s, par] => do
    let c ← parseCurve? c
    let par ← if par = "~" then some none else (parseInt? par).map some
    let res := Gen.possiblePublicPairsForSignature (Ossl.methods (pureLib c) c) c 0 (← parseInt? z) (← parseInt? r) (← parseInt? s) par
    some (showRes (fun l => if l.isEmpty then "~" else ";".intercalate (l.map showPt)) res)
  -- Key.sign / Key.verify: the Key constructor's range / on-curve checks, then Generator.sign / verify; the DER
  -- wrapper is encode-then-decode of (r, s) and `except (UnexpectedDER, ValueError): return False`
  | "keysign", [c, d, z] => do
    let c ← parseCurve? c
    let d ← parseInt? d
    if d < 1 ∨ d ≥ c.n then some "err InvalidSecretExponentError" else
    some (showRes (fun (t : Int × Int) => s!"{t.1} {t.2}") (Pycoin.DriverLib.CachedGen.signF c d (← parseInt? z)))
  | "keyverify", [c, Q, z, r, s] => do
    let c ← parseCurve? c
    let Q ← parsePt? Q
    if Q = none ∨ ¬ containsPoint c Q then some "err InvalidPublicPairError" else
    match Pycoin.DriverLib.CachedGen.verifyF c Q (← parseInt? z) (← parseInt? r) (← parseInt? s) with
    | .ok b => some ("ok " ++ showBool b)
    | .error e => if e.isValueError then some "ok 0" else some ("err " ++ e.tag)
  -- Key.sign / Key.verify on byte strings (Model/KeySign.lean): the DER blob itself, any bytes as signature, any bytes as hash
  | "keysign_der", [c, ctor, h] => do
    let c ← parseCurve? c
    match ← parseKeyCtor? c ctor with
    | .error e => some ("err " ++ e.tag)
    | .ok k =>
      match Pycoin.KeySign.keySignWith (Pycoin.DriverLib.CachedGen.signF c) k (← parseHex? h) with
      | .ok blob => some ("ok " ++ hx blob)
      | .error e => some ("err " ++ e.tag)
  | "keyverify_der", [c, ctor, h, sig] => do
    let c ← parseCurve? c
    match ← parseKeyCtor? c ctor with
    | .error e => some ("err " ++ e.tag)
    | .ok k =>
      match Pycoin.KeySign.keyVerifyWith (Pycoin.DriverLib.CachedGen.verifyF c) k (← parseHex? h) (← parseHex? sig) with
      | .ok b => some ("ok " ++ showBool b)
      | .error e => some ("err " ++ e.tag)
  | "keyhist", [c, ctor, steps] => do
    let c ← parseCurve? c
    let steps ← (steps.splitOn ",").mapM parseStep?
    match ← parseKeyCtor? c ctor with
    | .error e => some ("err " ++ e.tag)
    | .ok k => some ("ok " ++ ";".intercalate (Pycoin.KeySign.runWith c (Pycoin.DriverLib.CachedGen.signF c) (Pycoin.DriverLib.CachedGen.verifyF c) ⟨k, []⟩ steps))
  -- all affine curve points under which (z, r, s) verifies (enumeration of the toy curve), and what recovery returns when
  -- called with the abscissa r and with r + n: the first set is the union of the other two (C01_verifying_keys_*)
  | "toy_keys", [c, z, r, s] => do
    let c ← parseCurve? c
    let z ← parseInt? z; let r ← parseInt? r; let s ← parseInt? s
    let ver := (toyPoints c).filter fun Q => Q.isSome && (match verify c 0 Q z r s with | .ok true => true | _ => false)
    let rec1 := possiblePublicPairsForSignature c 0 z r s none
    let rec2 := possiblePublicPairsForSignature c 0 z (r + c.n) s none
    let sh := fun (l : List Pt) => if l.isEmpty then "~" else ";".intercalate (l.map showPt)
    let she := fun (e : Except Err (List Pt)) => match e with | .ok l => sh l | .error er => "!" ++ er.tag
    some s!"ok {sh ver}|{she rec1}|{she rec2}"
  | "toy_sign", [c, d, zmax] => do
    let c ← parseCurve? c
    let d ← parseInt? d
    let zmax ← parseNat? zmax
    let one := fun (z : Nat) =>
      match Pycoin.RFC6979.signWithRecid c 0 d ((z : Int) + 1) with
      | .ok (r, s, v) => s!"{r}.{s}.{v}"
      | .error e => e.tag
    some ("ok " ++ ";".intercalate ((List.range zmax).map one))
  | "toy_verify", [c, d, z] => do
    let c ← parseCurve? c
    let d ← parseInt? d
    let z ← parseInt? z
    match mulG c 0 d with
    | .error e => some ("err " ++ e.tag)
    | .ok Q =>
      let cell := fun (r s : Nat) =>
        match verify c 0 Q z r s with
        | .ok true => "1" | .ok false => "0" | .error _ => "E"
      some ("ok " ++ String.join ((List.range (c.n + 2)).flatMap fun r => (List.range (c.n + 2)).map fun s => cell r s))
  | _, _ => none

end Pycoin.Driver.C01
