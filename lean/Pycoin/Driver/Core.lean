import Pycoin.Py.Bytes
/-!
Line protocol helpers.  One request per line: `op arg…` separated by single
spaces; bytes are lower-case hex (`-` = empty), integers decimal (optional
leading `-`), lists `a,b,c` (`~` = empty list).  One answer per line.
-/
namespace Pycoin.Driver

abbrev Handler := String → List String → Option String

def parseInt? (s : String) : Option Int := s.toInt?
def parseNat? (s : String) : Option Nat := s.toNat?
def parseHex? (s : String) : Option Bytes := Hex.decode s

def parseList? {α} (f : String → Option α) (s : String) : Option (List α) :=
  if s = "~" then some [] else (s.splitOn ",").mapM f

def showList {α} (f : α → String) (l : List α) : String :=
  if l.isEmpty then "~" else ",".intercalate (l.map f)

def showBool (b : Bool) : String := if b then "1" else "0"

def hx (b : Bytes) : String := Hex.encode b

/-- first handler that recognises the op answers; `bad-op` when none does or when arguments do not parse -/
def dispatch (hs : List Handler) (line : String) : String :=
  match (line.trimAscii.toString).splitOn " " with
  | [] => "bad-op"
  | op :: args =>
    match hs.findSome? (fun h => h op args) with
    | some r => r
    | none => "bad-op"

end Pycoin.Driver
