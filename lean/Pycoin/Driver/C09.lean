import Pycoin.Driver.Core
import Pycoin.Model.BIP32
import Pycoin.Model.Electrum
import Pycoin.Gen.Curves
import Pycoin.Gen.Networks
import Pycoin.Spec.BIP32
import Pycoin.Driver.C08
/-!
C09 ops.

Tokens
* node: `K:depth:fp:idx:cc:key`, `K` ∈ 32|49|84 (the class), `fp`/`cc` hex, `key` = `s<decimal>` (secret exponent)
  or `p<x>,<y>` (public pair).  A node token in a *request* is handed to the constructor (`mkNode`), so an
  invalid one answers with the constructor's exception.  In an *answer* the token is
  `K:depth:fp:idx:cc:<se|->:<x>,<y>`.
* text (paths, extended keys): hex of the UTF-8 bytes, `-` for the empty string.
* network: module name under `pycoin/symbols/` (`btc`, `xtn`, `ltc`, …).
-/
namespace Pycoin.Driver.C09
open Pycoin Pycoin.BIP32 Pycoin.Driver

/-- the generator object every network shares (`secp256k1_generator`); blinding factor 0 — any other value gives
the same points (`C02_blindedMul_eq`) -/
def gen : Gen :=
  match Gen.new Pycoin.Gen.Curves.secp256k1 0 with
  | .ok g => g
  | .error _ => ⟨Pycoin.Gen.Curves.secp256k1, 0, [], none⟩   -- never taken; would make every answer differ

def fuel : Nat := 64

def parseKind? : String → Option Kind
  | "32" => some .bip32 | "49" => some .bip49 | "84" => some .bip84 | _ => none

def showKind : Kind → String
  | .bip32 => "32" | .bip49 => "49" | .bip84 => "84"

def parsePair? (s : String) : Option (Int × Int) :=
  match s.splitOn "," with
  | [x, y] => do pure (← parseInt? x, ← parseInt? y)
  | _ => none

def parseKeyArg? (s : String) : Option KeyArg :=
  match s.toList with
  | 's' :: r => (parseInt? (String.ofList r)).map .priv
  | 'p' :: r => if r = "inf".toList then some (.pub none) else (parsePair? (String.ofList r)).map fun q => .pub (some q)
  | _ => none

/-- a node token of a request: parsed, then constructed -/
def parseNode? (s : String) : Option (Except Err Node) :=
  match s.splitOn ":" with
  | [k, depth, fp, idx, cc, key] => do
    let k ← parseKind? k
    let depth ← parseNat? depth
    let fp ← parseHex? fp
    let idx ← parseNat? idx
    let cc ← parseHex? cc
    let key ← parseKeyArg? key
    pure (mkNode gen k cc depth fp idx key)
  | _ => none

def showNode (n : Node) : String :=
  s!"{showKind n.kind}:{n.depth}:{hx n.parentFingerprint}:{n.childIndex}:{hx n.chainCode}:" ++
  (match n.secretExponent with | some se => toString se | none => "-") ++
  s!":{n.publicPair.1},{n.publicPair.2}"

def showR {α} (f : α → String) : Except Err α → String
  | .ok a => "ok " ++ f a
  | .error e => "err " ++ e.tag

/-- answers inside a list: `!Tag` for an exception -/
def showItem : Except Err Node → String
  | .ok n => showNode n
  | .error e => "!" ++ e.tag

def textOf? (s : String) : Option (List Char) := do
  let b ← parseHex? s
  (String.fromUTF8? ⟨b.toArray⟩).map (·.toList)

def hexOfText (cs : List Char) : String := hx (String.ofList cs).toUTF8.toList

def parseOptBool? : String → Option (Option Bool)
  | "0" => some (some false) | "1" => some (some true) | "n" => some none | _ => none

def parseBool? : String → Option Bool
  | "0" => some false | "1" => some true | _ => none

def findNet? (name : String) : Option Pycoin.Addr.Network :=
  Pycoin.Gen.Networks.all.find? (·.module = name)

def parseCall? (s : String) : Option (Int × Bool × Option Bool) :=
  match s.splitOn "/" with
  | [i, h, p] => do pure (← parseInt? i, ← parseBool? h, ← parseOptBool? p)
  | _ => none

open Pycoin.Electrum in
def parseWalletArg? (s : String) : Option Arg :=
  match s.splitOn ":" with
  | ["seed", t] => (textOf? t).map .initialKey
  | ["prv", k] => (parseInt? k).map .masterPrivateKey
  | ["pub", q] => if q = "inf" then some (.publicPair none) else (parsePair? q).map fun q => .publicPair (some q)
  | ["mpk", b] => (parseHex? b).map .masterPublicKey
  | _ => none

open Pycoin.Electrum in
def showWallet (w : Wallet) : String :=
  (match w.secretExponent with | some se => toString se | none => "-") ++
  s!" {w.publicPair.1},{w.publicPair.2} " ++
  (match w.masterPublicKey with | .ok b => hx b | .error e => "!" ++ e.tag)

/-- the BIP32 *specification* (`Spec/BIP32.lean`) read over the executable curve model: used by `bip32_spec` only, to
validate the specification against the BIP's test vectors and against the implementation -/
def execCrypto : Pycoin.Spec.BIP32.Crypto Curve.Pt where
  n := gen.c.n
  point k := match gen.mul (k : Int) with | .ok p => p | .error _ => none
  add P Q := match Curve.add gen.c P Q with | .ok r => r | .error _ => none
  inf := none
  serP := fun P => match P with
    | none => []
    | some pp => match publicPairToSec pp with | .ok b => b | .error _ => []
  hmacSha512 := Hash.hmacSha512
  hash160 := Hash.hash160

open Pycoin.Spec.BIP32 in
/-- fold CKDpriv (private chain) or CKDpub (public chain) of the specification along full child numbers -/
def specChain (priv : Bool) : ExtKey Curve.Pt → List Nat → Result (ExtKey Curve.Pt)
  | e, [] => .ok e
  | e, i :: rest =>
    let next : Result (ExtKey Curve.Pt) :=
      match e.key with
      | .inl k => if priv then childPriv execCrypto e k i else .failure
      | .inr K => childPub execCrypto e K i
    match next with
    | .ok e' => specChain priv e' rest
    | .invalid => .invalid
    | .failure => .failure

/-- a text accessor's answer: hex of the text, `!Tag` for an exception -/
def showText : Except Err Bytes → String
  | .ok b => hx b
  | .error e => "!" ++ e.tag

/-- `node.as_text(as_private=…)` — the class attribute `as_text = hwif` of the node's own class -/
def asText (net : Pycoin.Addr.Network) (n : Node) (p : Bool) : Except Err Bytes := hwif net n p

/-- `repr(node)`: `as_text(as_private=False)` inside `<…>`, prefixed by `private_for ` when there is a secret -/
def reprText (net : Pycoin.Addr.Network) (n : Node) : Except Err Bytes :=
  match asText net n false with
  | .error e => .error e
  | .ok t =>
    let pre := match n.secretExponent with
      | some se => if se ≠ 0 then "private_for <".toUTF8.toList else "<".toUTF8.toList
      | none => "<".toUTF8.toList
    .ok (pre ++ t ++ ">".toUTF8.toList)

/-- `Key.wif()`: `None` for a public node -/
def wifText (net : Pycoin.Addr.Network) (n : Node) : String :=
  match n.secretExponent with
  | none => "none"
  | some se =>
    match toBytes32 se with
    | .error e => "!" ++ e.tag
    | .ok b =>
      match net.outWif with
      | none => "!TypeError"
      | some p =>
        match Base58.b2aHashedK net.hashWif (p ++ b ++ [1]) with
        | .ok t => hx t
        | .error _ => "!EncodingError"

/-- an answer of a family history: the node and what its text accessors say -/
def showFamItem (net : Pycoin.Addr.Network) : Except Err Node → String
  | .error e => "!" ++ e.tag
  | .ok n => showNode n ++ "|" ++ showText (asText net n n.secretExponent.isSome) ++ "|" ++ showText (reprText net n)

def parseFStep? (s : String) : Option FStep :=
  match s.toList with
  | 'c' :: r => (parseNat? (String.ofList r)).map .pubcopy
  | 's' :: r =>
    match (String.ofList r).splitOn "/" with
    | [o, i, h, p] => do pure (.subkey (← parseNat? o) (← parseInt? i) (← parseBool? h) (← parseOptBool? p))
    | _ => none
  | 'p' :: r =>
    match (String.ofList r).splitOn "/" with
    | [o, t] => do pure (.path (← parseNat? o) (← textOf? t))
    | _ => none
  | _ => none

def withNode (tok : String) (f : Node → String) : Option String :=
  match parseNode? tok with
  | none => none
  | some (.error e) => some ("err " ++ e.tag)
  | some (.ok n) => some (f n)

def handle1 : Handler := fun op args =>
  match op, args with
  | "bip32_master", [k, seed] => do
    some (showR showNode (fromMasterSecret gen (← parseKind? k) (← parseHex? seed)))
  | "bip32_node", [n] => withNode n fun n => "ok " ++ showNode n
  | "bip32_pubcopy", [n] => withNode n fun n => showR showNode (n.publicCopy gen)
  | "bip32_ckd", [n, i, h, p] => do
    let i ← parseInt? i; let h ← parseBool? h; let p ← parseOptBool? p
    withNode n fun n => showR showNode (subkey0 gen fuel n i h p)
  | "bip32_path", [net, k, seed, path, pubFirst] => do
    let net ← findNet? net
    let k ← parseKind? k; let seed ← parseHex? seed; let path ← textOf? path; let pubFirst ← parseBool? pubFirst
    let root : Except Err Node :=
      match fromMasterSecret gen k seed with
      | .error e => .error e
      | .ok m => if pubFirst then m.publicCopy gen else .ok m
    match root with
    | .error e => some ("err " ++ e.tag)
    | .ok m =>
      match subkeyForPath gen fuel m path with
      | .error e => some ("err " ++ e.tag)
      | .ok n =>
        let t (p : Bool) : String :=
          match hwif net n p with
          | .ok b => hx b
          | .error e => "!" ++ e.tag
        some s!"ok {showNode n} {t true} {t false}"
  | "bip32_nodepath", [n, path] => do
    let path ← textOf? path
    withNode n fun n => showR showNode (subkeyForPath gen fuel n path)
  | "bip32_ser", [n, p] => do
    let p ← parseOptBool? p
    withNode n fun n => showR hx (n.serialize p)
  | "bip32_deser", [k, blob] => do
    some (showR showNode (deserialize gen (← parseKind? k) (← parseHex? blob)))
  | "hwif", [net, n, p] => do
    let net ← findNet? net; let p ← parseBool? p
    withNode n fun n =>
      showR hx (hwif net n p)
  | "hparse", [net, k, text] => do
    let net ← findNet? net; let k ← parseKind? k; let text ← parseHex? text
    match parseBip gen net k text with
    | .ok none => some "none"
    | .ok (some n) => some ("ok " ++ showNode n ++ " " ++ showText (asText net n n.secretExponent.isSome))
    | .error e => some ("err " ++ e.tag)
  | "subpaths", [text] => do
    let text ← textOf? text
    match Subpaths.subpathsForPathRange text with
    | .ok ps => some ("ok " ++ showList hexOfText ps)
    | .error e => some ("err " ++ e.tag)
  | "bip32_hist", [n, calls] => do
    let calls ← parseList? parseCall? calls
    withNode n fun n => "ok " ++ ";".intercalate ((subkeyRun gen fuel n [] calls).map showItem)
  -- the same history after `node.fingerprint(is_compressed=False)` was asked of the object first (the model keeps no memo)
  | "bip32_hist_fpu", [n, calls] => do
    let calls ← parseList? parseCall? calls
    withNode n fun n => "ok " ++ ";".intercalate ((subkeyRun gen fuel n [] calls).map showItem)
  | "bip32_pathhist", [n, paths] => do
    let paths ← parseList? textOf? paths
    withNode n fun n => "ok " ++ ";".intercalate ((pathRun gen fuel n [] paths).map showItem)
  -- `node.override_network(<net>)`: the fields of the rebuilt node and its text on the other network
  | "bip32_override", [n, net] => do
    let net ← findNet? net
    withNode n fun n =>
      match n.overrideNetwork gen with
      | .error e => "err " ++ e.tag
      | .ok m => "ok " ++ showNode m ++ " " ++ showText (asText net m m.secretExponent.isSome)
  -- the constructor with `secret_exponent` / `public_pair` each given or not (`-` = None)
  | "bip32_ctor", [k, depth, fp, idx, cc, se, pp] => do
    let k ← parseKind? k; let depth ← parseNat? depth; let fp ← parseHex? fp; let idx ← parseNat? idx; let cc ← parseHex? cc
    let se ← if se = "-" then some none else (parseInt? se).map some
    let pp ← if pp = "-" then some none else if pp = "inf" then some (some none) else (parsePair? pp).map fun q => some (some q)
    some (showR showNode (mkNodeArgs gen k cc depth fp idx se pp))
  | "bip32_children", [n, maxLevel, start, hard] => do
    let maxLevel ← parseNat? maxLevel; let start ← parseNat? start; let hard ← parseBool? hard
    withNode n fun n => showR (fun l => ";".intercalate (l.map showNode)) (n.children gen fuel maxLevel start hard)
  | "bip32_subkeys", [n, range] => do
    let range ← textOf? range
    withNode n fun n =>
      match subkeys gen fuel n range with
      | .ok l => "ok " ++ ";".intercalate (l.map showNode)
      | .error e => "err " ++ e.tag
  -- `bip32.py` called directly with a generator whose `order()` is `n` (a stub in the harness): makes the retry loop
  -- of `subkey_secret_exponent_chain_code_pair` reachable (`I_L ≥ n` about half of the time for `n ≈ 2²⁵⁵`)
  -- the same function called without `public_pair` (its default `None`): the pair is `secret_exponent * generator`
  | "bip32_ckdraw0", [se, cc, i, h] => do
    let se ← parseInt? se; let cc ← parseHex? cc; let i ← parseInt? i; let h ← parseBool? h
    match gen.mul se with
    | .ok (some pp) => some (showR (fun (r : Int × Bytes) => s!"{r.1} {hx r.2}") (subkeySecretExponentChainCodePair gen fuel se cc i h pp))
    | _ => none
  | "bip32_ckdraw", [n, se, cc, i, h, pp] => do
    let n ← parseNat? n; let se ← parseInt? se; let cc ← parseHex? cc; let i ← parseInt? i; let h ← parseBool? h
    let pp ← parsePair? pp
    let g' : Gen := { gen with c := { gen.c with n := n } }
    some (showR (fun (r : Int × Bytes) => s!"{r.1} {hx r.2}") (subkeySecretExponentChainCodePair g' fuel se cc i h pp))
  | "bip32_ckdpubraw", [n, pp, cc, i] => do
    let n ← parseNat? n; let cc ← parseHex? cc; let i ← parseInt? i; let pp ← parsePair? pp
    let g' : Gen := { gen with c := { gen.c with n := n } }
    some (showR (fun (r : (Int × Int) × Bytes) => s!"{r.1.1},{r.1.2} {hx r.2}") (subkeyPublicPairChainCodePair g' pp cc i))
  -- `node.address()`: the class decides the form — BIP32Node p2pkh, BIP49Node p2sh-p2wpkh, BIP84Node p2wpkh
  -- (the address forms themselves are the C08 model of the "addr" builder: `Addr.keyAddress/bip49Address/bip84Address`)
  | "bip32_address", [net, n] => do
    let net ← findNet? net
    withNode n fun n =>
      match n.sec with
      | .error e => "err " ++ e.tag
      | .ok sec =>
        let r := match n.kind with
          | .bip32 => Pycoin.Addr.keyAddress Pycoin.Driver.C08.realEnv net sec
          | .bip49 => Pycoin.Addr.bip49Address Pycoin.Driver.C08.realEnv net sec
          | .bip84 => Pycoin.Addr.bip84Address Pycoin.Driver.C08.realEnv net sec
        match r with
        | .ok (some t) => "ok " ++ hx t.toUTF8.toList
        | .ok none => "none"
        | .error e => "err " ++ e.tag
  -- a history over the family of objects derived from one root (public copies, shared children, one cache each)
  | "bip32_fam", [net, n, steps] => do
    let net ← findNet? net
    let steps ← parseList? parseFStep? steps
    withNode n fun n => "ok " ++ ";".intercalate ((famRun gen fuel (Fam.root n) steps).map (showFamItem net))
  -- every text accessor of one node: hwif / as_text, private and public; repr; wif
  | "bip32_texts", [net, n] => do
    let net ← findNet? net
    withNode n fun n =>
      "ok " ++ "|".intercalate [showText (hwif net n true), showText (hwif net n false), showText (asText net n true),
        showText (asText net n false), showText (reprText net n), wifText net n]
  | "bip32_spec", [net, k, seed, idxs, pubFirst] => do
    let net ← findNet? net
    let k ← parseKind? k; let seed ← parseHex? seed; let idxs ← parseList? parseNat? idxs; let pubFirst ← parseBool? pubFirst
    match Pycoin.Spec.BIP32.master execCrypto seed with
    | none => some "invalid"
    | some x =>
      let m : Pycoin.Spec.BIP32.ExtKey Curve.Pt := Pycoin.Spec.BIP32.masterKey x
      let root : Pycoin.Spec.BIP32.ExtKey Curve.Pt :=
        if pubFirst then { m with key := .inr (execCrypto.point x.k) } else m
      match specChain (!pubFirst) root idxs with
      | .invalid => some "invalid"
      | .failure => some "failure"
      | .ok e =>
        let text (ver : Option Bytes) (e : Pycoin.Spec.BIP32.ExtKey Curve.Pt) : String :=
          match ver with
          | none => "!TypeError"
          | some v =>
            match Base58.b2aHashedK net.hashParse (Pycoin.Spec.BIP32.serialize execCrypto v e) with
            | .ok t => hx t
            | .error _ => "!EncodingError"
        let pubE : Pycoin.Spec.BIP32.ExtKey Curve.Pt :=
          match e.key with
          | .inl kk => { e with key := .inr (execCrypto.point kk) }
          | .inr _ => e
        let prvT := match e.key with
          | .inl _ => text (parsePrefix net k true) e
          | .inr _ => "-"
        some s!"ok {prvT} {text (parsePrefix net k false) pubE}"
  | "electrum_new", [w] => do
    some (showR showWallet (Electrum.mkWallet gen (← parseWalletArg? w)))
  | "electrum_args", [ws] => do
    let args ← if ws = "~" then some [] else (ws.splitOn "+").mapM parseWalletArg?
    some (showR showWallet (Electrum.mkWalletArgs gen args))
  | "electrum_ser", [w] => do
    match Electrum.mkWallet gen (← parseWalletArg? w) with
    | .error e => some ("err " ++ e.tag)
    | .ok w => some (showR hx w.serialize)
  | "electrum_deser", [b] => do
    match Electrum.deserialize gen (← parseHex? b) with
    | .error e => some ("err " ++ e.tag)
    | .ok none => some "ok none"
    | .ok (some w) => some ("ok " ++ showWallet w)
  -- `subkeys(range)`; mode 0: on the wallet, 1: on its public copy, 2: on the public copy of its public copy
  | "electrum_subkeys", [w, range, mode] => do
    let a ← parseWalletArg? w; let range ← textOf? range; let mode ← parseNat? mode
    let w : Except Err Electrum.Wallet :=
      match Electrum.mkWallet gen a with
      | .error e => .error e
      | .ok w =>
        if mode = 0 then .ok w
        else match w.publicCopy gen with
          | .error e => .error e
          | .ok w1 => if mode = 1 then .ok w1 else w1.publicCopy gen
    match w with
    | .error e => some ("err " ++ e.tag)
    | .ok w => some (showR (fun l => ";".intercalate (l.map showWallet)) (w.subkeys gen range))
  -- `subkey_for_path(path)` is `subkey(path)`
  | "electrum_sfp", [w, path] => do
    let a ← parseWalletArg? w; let path ← textOf? path
    match Electrum.mkWallet gen a with
    | .error e => some ("err " ++ e.tag)
    | .ok w => some (showR showWallet (w.subkey gen path))
  | "electrum_subkey", [w, path, pubFirst] => do
    let a ← parseWalletArg? w; let path ← textOf? path; let pubFirst ← parseBool? pubFirst
    let w : Except Err Electrum.Wallet :=
      match Electrum.mkWallet gen a with
      | .error e => .error e
      | .ok w => if pubFirst then w.publicCopy gen else .ok w
    match w with
    | .error e => some ("err " ++ e.tag)
    | .ok w => some (showR showWallet (w.subkey gen path))
  | _, _ => none

/-- `c09pure <op> …`: the same op evaluated by the implementation under `PYCOIN_NATIVE=none`; the model is the same -/
def handle : Handler := fun op args =>
  match op, args with
  | "c09pure", op' :: args' => handle1 op' args'
  | _, _ => handle1 op args

end Pycoin.Driver.C09
