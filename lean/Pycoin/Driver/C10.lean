import Pycoin.Driver.Core
import Pycoin.Model.Der
import Pycoin.Model.Wif
import Pycoin.Model.KeyOps
import Pycoin.Gen.Curves
import Pycoin.Gen.Networks
/-!
C10 ops.  A `str` travels as the hex of its UTF-8 bytes; a network is named by its module under
`pycoin/symbols/`; `cfg` (`ossl` | `pure`) names the arithmetic configuration of the implementation and is
ignored by the model; flags are `0`/`1`.

  sec_enc x y comp                 public_pair_to_sec                       ok <hex> | err <Class>
  sec_dec strict hex               sec_to_public_pair(sec, generator, strict) ok x y | err <Class>
  sec_dec_c curve strict hex       the same with the generator of `curve` (secp256k1 | secp256r1 | bls12_381)
  key_from_sec net hex             network.keys.public(sec)                 ok x y comp sec h160 addr | err <Class>
  key_ctor_d cfg d                 Key(secret_exponent=d)                   ok x y | err <Class>
  key_ctor_pair x y | inf          Key(public_pair=…)                       ok | err <Class>
  key_addr cfg net d comp          keys.private(d, comp): sec, hash160, address   ok sec h160 addr
  wif_enc cfg net d comp           keys.private(d, comp).wif()              ok <hex> | err <Class>
  wif_dec cfg net text             network.parse.wif(text)                  ok none | ok d comp | err <Class>
  der_enc r s                      sigencode_der                            ok <hex> | err <Class>
  der_dec strict hex               sigdecode_der(sig, not strict)           ok r s | err <Class>
  der_int r / der_len l / der_rdlen hex / der_rmint strict hex / der_rmseq hex
  key_verify sec h sig             keys.public(sec).verify(h, sig) on raw bytes   ok 0|1 | err <Class>
  key_sign_pub net sec h           keys.public(sec).sign(h)                 err RuntimeError
  key_override cfg net1 net2 d comp   keys.private(d, comp).override_network(net2)  ok d comp wif | err <Class>
  key_override_pub net1 net2 sec   keys.public(sec).override_network(net2)  err ValueError
  key_public net item flag         keys.public(item, is_compressed=flag); item s<hex> | p<x>,<y> | pinf; flag c|u|d
-/
namespace Pycoin.Driver.C10
open Pycoin.Driver Pycoin
open Pycoin.Curve (Pt)

def k1 : Curve.CurveParams := Gen.Curves.secp256k1

/-- the generator's `_powers` table, built once -/
def k1Powers : Except Curve.Err (List Pt) := Curve.powers k1

/-- `Curve.rawMul k1 e` with the table taken from `k1Powers` (the shipped generator object also builds it once);
equal to `Curve.mulG k1 0 e` (blinding factor 0) -/
def mulFast (e : Int) : Except Curve.Err Pt :=
  if k1.n = 0 then .error .assertion
  else
    match k1Powers with
    | .error er => .error er
    | .ok tbl => Curve.rawMulLoop k1 tbl (fmod e k1.n) none

def findNet (s : String) : Option Addr.Network := Gen.Networks.all.find? (·.module = s)

def parseFlag? (s : String) : Option Bool :=
  if s = "1" then some true else if s = "0" then some false else none

def showErr (e : Sec.Err) : String := "err " ++ e.tag
def showDErr (e : Der.Err) : String := "err " ++ e.tag

def showBytesE : Except Sec.Err Bytes → String
  | .ok b => hx b
  | .error e => "!" ++ e.tag

def showOptBytesE : Except Sec.Err (Option Bytes) → String
  | .ok (some b) => hx b
  | .ok none => "None"
  | .error e => "!" ++ e.tag

def showKeyInfo (net : Addr.Network) (k : KeyCtor.Key) : String :=
  showBytesE (k.sec none) ++ " " ++ showBytesE (k.hash160 none) ++ " " ++ showOptBytesE (KeyCtor.Key.address net k none)

def handle : Handler := fun op args =>
  match op, args with
  | "sec_enc", [x, y, comp] => do
    match Sec.publicPairToSec (← parseInt? x) (← parseInt? y) (← parseFlag? comp) with
    | .ok b => some ("ok " ++ hx b)
    | .error e => some (showErr e)
  | "sec_dec", [strict, sec] => do
    match Sec.secToPublicPair k1 (← parseHex? sec) (← parseFlag? strict) with
    | .ok (x, y) => some s!"ok {x} {y}"
    | .error e => some (showErr e)
  | "sec_dec_c", [curve, strict, sec] => do
    -- the same function with another generator (secp256r1: 32-byte field; bls12_381: 48-byte field)
    let c ← (Gen.Curves.named.find? (·.1 = curve)).map (·.2)
    match Sec.secToPublicPair c (← parseHex? sec) (← parseFlag? strict) with
    | .ok (x, y) => some s!"ok {x} {y}"
    | .error e => some (showErr e)
  | "key_from_sec", [net, sec] => do
    let net ← findNet net
    match KeyCtor.keyFromSec k1 (← parseHex? sec) with
    | .ok k => some s!"ok {k.pub.1} {k.pub.2} {showBool k.compressed} {showKeyInfo net k}"
    | .error e => some (showErr e)
  | "key_ctor_d", [_cfg, d] => do
    match KeyCtor.keyFromSecretWith k1 mulFast (← parseInt? d) true with
    | .ok k => some s!"ok {k.pub.1} {k.pub.2}"
    | .error e => some (showErr e)
  | "key_ctor_pair", [x, y] => do
    match KeyCtor.keyFromPair k1 (some (← parseInt? x, ← parseInt? y)) true with
    | .ok _ => some "ok"
    | .error e => some (showErr e)
  | "key_ctor_pair", ["inf"] =>
    match KeyCtor.keyFromPair k1 none true with
    | .ok _ => some "ok"
    | .error e => some (showErr e)
  | "key_addr", [_cfg, net, d, comp] => do
    let net ← findNet net
    match KeyCtor.keyFromSecretWith k1 mulFast (← parseInt? d) (← parseFlag? comp) with
    | .ok k => some ("ok " ++ showKeyInfo net k)
    | .error e => some (showErr e)
  | "wif_enc", [_cfg, net, d, comp] => do
    let net ← findNet net
    match KeyCtor.keyFromSecretWith k1 mulFast (← parseInt? d) (← parseFlag? comp) with
    | .error e => some (showErr e)
    | .ok k =>
      match Wif.Key.wif net k none with
      | .ok (some t) => some ("ok " ++ hx t)
      | .ok none => some "ok None"
      | .error e => some (showErr e)
  | "wif_dec", [_cfg, net, text] => do
    let net ← findNet net
    match Wif.parseWifWith k1 mulFast net (← parseHex? text) with
    | .ok none => some "ok none"
    | .ok (some k) =>
      match k.se with
      | some d => some s!"ok {d} {showBool k.compressed}"
      | none => some "ok public"
    | .error e => some (showErr e)
  | "is_sec", [sec] => do some ("ok " ++ showBool (KeyOps.isSec (← parseHex? sec)))
  -- a plain Key has no hierarchy: subkey(), subkey_for_path(p), subkeys(p) are the key itself
  | "key_nohier", [_net, d, _comp] => do
    match KeyCtor.keyFromSecretWith k1 mulFast (← parseInt? d) true with
    | .ok _ => some "ok 1 1 1"
    | .error e => some (showErr e)
  | "key_verify", [sec, h, sig] => do
    match KeyCtor.keyFromSec k1 (← parseHex? sec) with
    | .error e => some (showErr e)
    | .ok k =>
      match KeyOps.keyVerify k1 0 (some k.pub) (← parseHex? h) (← parseHex? sig) with
      | .ok b => some ("ok " ++ showBool b)
      | .error e => some ("err " ++ e.tag)
  | "key_sign_pub", [_net, sec, _h] => do
    match KeyCtor.keyFromSec k1 (← parseHex? sec) with
    | .error e => some (showErr e)
    | .ok k =>
      match KeyOps.keySignGuard k with
      | .ok () => none
      | .error e => some ("err " ++ e.tag)
  | "key_override", [_cfg, _net1, net2, d, comp] => do
    let net2 ← findNet net2
    match KeyCtor.keyFromSecretWith k1 mulFast (← parseInt? d) (← parseFlag? comp) with
    | .error e => some (showErr e)
    | .ok k =>
      match KeyOps.overrideNetwork k1 mulFast k with
      | .error e => some ("err " ++ e.tag)
      | .ok k' =>
        let d' := match k'.se with | some d => toString d | none => "-"
        match Wif.Key.wif net2 k' none with
        | .ok (some t) => some s!"ok {d'} {showBool k'.compressed} {hx t}"
        | .ok none => some s!"ok {d'} {showBool k'.compressed} None"
        | .error e => some (showErr e)
  | "key_override_pub", [_net1, _net2, sec] => do
    match KeyCtor.keyFromSec k1 (← parseHex? sec) with
    | .error e => some (showErr e)
    | .ok k =>
      match KeyOps.overrideNetwork k1 mulFast k with
      | .error e => some ("err " ++ e.tag)
      | .ok _ => none
  | "key_public", [_net, item, flag] => do
    let flag ← if flag = "c" then some (some true) else if flag = "u" then some (some false) else if flag = "d" then some none else none
    let item ← match item.toList with
      | 's' :: r => (parseHex? (String.ofList r)).map KeyOps.PubItem.sec
      | 'p' :: r =>
        if String.ofList r = "inf" then some (KeyOps.PubItem.pair none)
        else match (String.ofList r).splitOn "," with
          | [x, y] => do some (KeyOps.PubItem.pair (some (← parseInt? x, ← parseInt? y)))
          | _ => none
      | _ => none
    match KeyOps.keysPublic k1 item flag with
    | .ok k => some s!"ok {k.pub.1} {k.pub.2} {showBool k.compressed}"
    | .error e => some ("err " ++ e.tag)
  | "der_enc", [r, s] => do
    match Der.sigencodeDer (← parseInt? r) (← parseInt? s) with
    | .ok b => some ("ok " ++ hx b)
    | .error e => some (showDErr e)
  | "der_dec", [strict, sig] => do
    match Der.sigdecodeDer (← parseHex? sig) (!(← parseFlag? strict)) with
    | .ok (r, s) => some s!"ok {r} {s}"
    | .error e => some (showDErr e)
  | "der_int", [r] => do
    match Der.encodeInteger (← parseInt? r) with
    | .ok b => some ("ok " ++ hx b)
    | .error e => some (showDErr e)
  | "der_len", [l] => do
    match Der.encodeLength (← parseNat? l) with
    | .ok b => some ("ok " ++ hx b)
    | .error e => some (showDErr e)
  | "der_rdlen", [s] => do
    match Der.readLength (← parseHex? s) with
    | .ok (l, k) => some s!"ok {l} {k}"
    | .error e => some (showDErr e)
  | "der_rmint", [strict, s] => do
    match Der.removeInteger (← parseHex? s) (!(← parseFlag? strict)) with
    | .ok (v, rest) => some s!"ok {v} {hx rest}"
    | .error e => some (showDErr e)
  | "der_rmseq", [s] => do
    match Der.removeSequence (← parseHex? s) with
    | .ok (a, b) => some s!"ok {hx a} {hx b}"
    | .error e => some (showDErr e)
  | _, _ => none

end Pycoin.Driver.C10
