import Pycoin.Driver.Core
import Pycoin.DriverLib.TxText
import Pycoin.DriverLib.History
import Pycoin.Model.Tx
import Pycoin.Model.Spendable
import Pycoin.Spec.Wire
namespace Pycoin.Driver.C07
open Pycoin Pycoin.Driver Pycoin.DriverLib Pycoin.Wire

def errS (e : Err) : String := "err " ++ e.tag

partial def showVal : Val → String
  | .int v => s!"i{v}"
  | .bytes b => "b" ++ encodeHexFast b
  | .bool b => if b then "t" else "f"
  | .tup l => "(" ++ ",".intercalate (l.map showVal) ++ ")"

def parseVal? (s : String) : Option Val :=
  if s.startsWith "i" then (s.drop 1).toString.toInt?.map Val.int
  else if s.startsWith "b" then (parseBytes? (s.drop 1).toString).map Val.bytes
  else if s = "t" then some (.bool true) else if s = "f" then some (.bool false) else none

def rawStr (s : String) : List Char := if s = "-" then [] else s.toList
def showStr (cs : List Char) : String := if cs.isEmpty then "-" else String.ofList cs

def parseBool? (s : String) : Option Bool := if s = "1" then some true else if s = "0" then some false else none

def showSp (s : Spendable) : String :=
  s!"{s.coinValue}:{encodeHexFast s.script}:{encodeHexFast s.txHash}:{s.txOutIndex}:{s.blockIndexAvailable}:{s.doesSeemSpent}:{s.blockIndexSpent}"

def parseSp? (s : String) : Option Spendable :=
  match s.splitOn ":" with
  | [v, sc, h, i, a, d, b] => do
    pure ⟨← parseInt? v, ← parseBytes? sc, ← parseBytes? h, ← parseInt? i, ← parseInt? a, ← parseInt? d, ← parseInt? b⟩
  | _ => none

def showOptInt : Option Int → String
  | none => "none" | some v => toString v

def parseOptInt? (s : String) : Option (Option Int) :=
  if s = "none" then some none else (parseInt? s).map some

def showDict (d : Spendable.Dict) : String :=
  s!"{d.coinValue}:{showStr d.scriptHex}:{showStr d.txHashHex}:{d.txOutIndex}:{showOptInt d.blockIndexAvailable}:{showOptInt d.doesSeemSpent}:{showOptInt d.blockIndexSpent}"

def parseDict? (s : String) : Option Spendable.Dict :=
  match s.splitOn ":" with
  | [v, sc, h, i, a, d, b] => do
    pure ⟨← parseInt? v, rawStr sc, rawStr h, ← parseInt? i, ← parseOptInt? a, ← parseOptInt? d, ← parseOptInt? b⟩
  | _ => none

def handle : Handler := fun op args =>
  match op, args with
  | "cs_enc", [n] => do
    match streamSatoshiInt (← parseInt? n) with
    | .ok b => some ("ok " ++ encodeHexFast b)
    | .error e => some (errS e)
  | "cs_dec", [b] => do
    match parseSatoshiInt none (← parseBytes? b) with
    | .ok (n, r) => some s!"ok {n} {encodeHexFast r}"
    | .error e => some (errS e)
  | "ss_enc", [b] => do
    match streamSatoshiString (← parseBytes? b) with
    | .ok b => some ("ok " ++ encodeHexFast b)
    | .error e => some (errS e)
  | "ss_dec", [b] => do
    match parseSatoshiString (← parseBytes? b) with
    | .ok (s, r) => some s!"ok {encodeHexFast s} {encodeHexFast r}"
    | .error e => some (errS e)
  | "struct_parse", [fmt, b] => do
    match parseStruct tbl fmt.toList (← parseBytes? b) with
    | .ok (vs, r) => some s!"ok {showList showVal vs} {encodeHexFast r}"
    | .error e => some (errS e)
  | "struct_stream", [fmt, vals] => do
    match streamStruct tbl fmt.toList (← parseList? parseVal? vals) with
    | .ok b => some ("ok " ++ encodeHexFast b)
    | .error e => some (errS e)
  -- `pack_struct(fmt, *args)` / `unpack_struct(fmt, b)`: the bytes-in / bytes-out forms of the two above
  | "struct_pack", [fmt, vals] => do
    match streamStruct tbl fmt.toList (← parseList? parseVal? vals) with
    | .ok b => some ("ok " ++ encodeHexFast b)
    | .error e => some (errS e)
  | "struct_unpack", [fmt, b] => do
    match parseStruct tbl fmt.toList (← parseBytes? b) with
    | .ok (vs, _) => some s!"ok {showList showVal vs}"
    | .error e => some (errS e)
  -- the deprecated `Tx.tx_from_hex` is `from_hex`
  | "tx_from_hex_dep", [c, s] => do
    match Tx.fromHex (← parseCoin? c) (rawStr s) with
    | .ok (tx, us) => some s!"ok {showTx tx} {showUnspents us}"
    | .error e => some (errS e)
  | "tx_parse", [c, b] => do
    match Tx.parse (← parseCoin? c) (← parseBytes? b) with
    | .ok (tx, r) => some s!"ok {showTx tx} {encodeHexFast r}"
    | .error e => some (errS e)
  | "tx_parse_noseg", [c, b] => do
    let c ← parseCoin? c
    if c.ltcParse then none else
    match Tx.parseBtc false (← parseBytes? b) with
    | .ok (tx, r) => some s!"ok {showTx tx} {encodeHexFast r}"
    | .error e => some (errS e)
  | "tx_from_bin", [c, b] => do
    match Tx.fromBin (← parseCoin? c) (← parseBytes? b) with
    | .ok (tx, us) => some s!"ok {showTx tx} {showUnspents us}"
    | .error e => some (errS e)
  | "tx_from_hex", [c, s] => do
    match Tx.fromHex (← parseCoin? c) (rawStr s) with
    | .ok (tx, us) => some s!"ok {showTx tx} {showUnspents us}"
    | .error e => some (errS e)
  | "tx_ser", [c, tx, blank, wit] => do
    let _ ← parseCoin? c
    match (← parseTx? tx).stream (← parseBool? blank) (← parseBool? wit) with
    | .ok b => some ("ok " ++ encodeHexFast b)
    | .error e => some (errS e)
  | "tx_as_hex", [c, tx] => do
    let _ ← parseCoin? c
    match (← parseTx? tx).asHex with
    | .ok s => some ("ok " ++ showStr s)
    | .error e => some (errS e)
  | "tx_as_bin_u", [c, tx, us] => do
    let _ ← parseCoin? c
    match (← parseTx? tx).asBin (← parseUnspents? us) true with
    | .ok b => some ("ok " ++ encodeHexFast b)
    | .error e => some (errS e)
  | "tx_ids", [c, tx] => do
    let c ← parseCoin? c
    let tx ← parseTx? tx
    match Tx.id c tx, Tx.wId c tx, Tx.hash c tx, Tx.wHash c tx, Tx.blankedHash c tx with
    | .ok i, .ok w, .ok h, .ok wh, .ok bh =>
      some s!"ok {showStr i} {showStr w} {encodeHexFast h} {encodeHexFast wh} {encodeHexFast bh}"
    | .error e, _, _, _, _ => some (errS e)
    | _, .error e, _, _, _ => some (errS e)
    | _, _, .error e, _, _ => some (errS e)
    | _, _, _, .error e, _ => some (errS e)
    | _, _, _, _, .error e => some (errS e)
  | "spec_ser", [tx] => do
    let tx ← parseTx? tx
    some s!"ok {encodeHexFast (Spec.Wire.ser tx)} {encodeHexFast (Spec.Wire.legacy tx)}"
  | "sp_as_bin", [sp, a] => do
    match (← parseSp? sp).asBin (← parseBool? a) with
    | .ok b => some ("ok " ++ encodeHexFast b)
    | .error e => some (errS e)
  | "sp_from_bin", [b] => do
    match Spendable.fromBin (← parseBytes? b) with
    | .ok s => some ("ok " ++ showSp s)
    | .error e => some (errS e)
  | "sp_as_text", [sp] => do some ("ok " ++ showStr (← parseSp? sp).asText)
  | "sp_from_text", [t] =>
    match Spendable.fromText (rawStr t) with
    | .ok s => some ("ok " ++ showSp s)
    | .error e => some (errS e)
  | "sp_as_dict", [sp] => do some ("ok " ++ showDict (← parseSp? sp).asDict)
  | "sp_from_dict", [d] => do
    match Spendable.fromDict (← parseDict? d) with
    | .ok s => some ("ok " ++ showSp s)
    | .error e => some (errS e)
  | "tx_hist", [c, tx, steps] => histOp c tx steps
  | _, _ => none

end Pycoin.Driver.C07
