import Pycoin.Driver.Core
import Pycoin.DriverLib.TxText
import Pycoin.Model.Validate
/-!
C06 ops.

    c06_hist coin tx us meta steps
        meta  := per signed input  kind ":" code ":" hashtypes("/")        kind: l (closure of _make_sighash_f) | w (witness)
        steps := mutation ";" mutation …   ("~" = none); the verdict vector is printed for the signed state and after every step
    mutation := ver:N | lock:N | seq:i:N | pidx:i:N | phash:i:HEX | sol:i:HEX | wit:i:WITNESS | oval:j:N | oscr:j:HEX
              | delin:i | insin:i:TXIN(with "," for ":") | swapin:i:j | swapsol:i:j | delout:j | insout:j:N,HEX | swapout:i:j
              | us:i:none | us:i:N,HEX | usdrop | nop
              | uskey:i:BIT (flip one bit inside the data pushes — key hash, script hash, witness program, keys — of the standard
                spent script of input i) | usnop:i (append OP_NOP to the spent script) | uspre:i (put OP_NOP in front of it)
    verdict of input j = what the hash types of its signatures dictate: its spent output is known, its unlocking data is that
    of a signed input (its own, or after swapsol another one's), the spent script is the one that was signed with it, and
    every signed preimage is unchanged at the position the input has NOW.  A spent script that differs from the signed one
    only inside the hash push of P2PKH / P2SH / P2WPKH / P2WSH dictates '0' (C06_spent_script_hash_fails_*); for the kinds whose
    script code is the spent script itself (P2PKH, P2PK, bare multisig through the closure of _make_sighash_f) a key changed
    or an OP_NOP appended / prepended dictates '0' when a committed preimage — now over the new script code — differs
    (C06_tamper_fails_p2pkh_script_nop, C06_tampered_of_fields_legacy); everything else about a changed script or changed
    unlocking data is '?'.

    c06_each coin tx us meta steps   as c06_hist, but every step is applied to the SIGNED state on its own (a table of single
        mutations): answer = verdicts of the signed state, then one verdict vector per step

    c06_guards coin tx us      missing_unspent(i) for every i, missing_unspents(), and which is_solution_ok(i) are refused by the guard
    c06_cache salt hts         one checksigs execution (the closure returns ht*7+salt): the messages handed to verify and the hash types actually computed
-/
namespace Pycoin.Driver.C06
open Pycoin Pycoin.Driver Pycoin.DriverLib Pycoin.Sighash Pycoin.Validate

structure SigInfo where
  witness : Bool
  code : Bytes
  hts : List Nat

/-- a signed input as remembered: its unlocking data, the spent script, and the preimages its signatures were made over -/
structure Signed where
  script : Bytes
  wit : List Bytes
  spentScript : Bytes
  info : SigInfo
  pre : List (Except Sighash.Err (Option Bytes))

structure Hist where
  st : State
  map : List (Option Nat)       -- current position → index into the signed inputs

def parseInfo? (s : String) : Option SigInfo :=
  match s.splitOn ":" with
  | [k, code, hts] => do
    let w ← (if k = "w" then some true else if k = "l" then some false else none)
    let hts ← (hts.splitOn "/").mapM parseNat?
    pure ⟨w, ← parseBytes? code, hts⟩
  | _ => none

def swapAt {α} (l : List α) (i j : Nat) : List α :=
  match l[i]?, l[j]? with
  | some a, some b => (l.set i b).set j a
  | _, _ => l

def insertAt {α} (l : List α) (i : Nat) (a : α) : List α := l.take i ++ a :: l.drop i

def modIn (h : Hist) (i : Nat) (f : TxIn → TxIn) : Hist :=
  { h with st := { h.st with tx := { h.st.tx with ins := h.st.tx.ins.modify i f } } }
def modOut (h : Hist) (j : Nat) (f : TxOut → TxOut) : Hist :=
  { h with st := { h.st with tx := { h.st.tx with outs := h.st.tx.outs.modify j f } } }

/-! ### standard spent scripts and their data pushes -/

inductive SpkKind | p2pkh | p2sh | p2wpkh | p2wsh | p2pk | multisig | other
  deriving DecidableEq, Repr

/-- the keys of `OP_m <key>… OP_n CHECKMULTISIG` between the two counts: byte ranges `[start, end)` of the key data -/
def keyRegions : Nat → Bytes → Nat → Option (List (Nat × Nat))
  | 0, _, _ => none
  | _ + 1, [], _ => some []
  | fuel + 1, l :: rest, pos =>
    if (l.toNat = 33 ∨ l.toNat = 65) ∧ l.toNat ≤ rest.length then
      (keyRegions fuel (rest.drop l.toNat) (pos + 1 + l.toNat)).map fun r => (pos + 1, pos + 1 + l.toNat) :: r
    else none

/-- the template of a spent script and the byte ranges of its data pushes (key hash, script hash, witness program, keys) -/
def spkTemplate (s : Bytes) : SpkKind × List (Nat × Nat) :=
  let n := s.length
  if n = 25 ∧ s.take 3 = [0x76, 0xa9, 0x14] ∧ s.drop 23 = [0x88, 0xac] then (.p2pkh, [(3, 23)])
  else if n = 23 ∧ s.take 2 = [0xa9, 0x14] ∧ s.drop 22 = [0x87] then (.p2sh, [(2, 22)])
  else if n = 22 ∧ s.take 2 = [0x00, 0x14] then (.p2wpkh, [(2, 22)])
  else if n = 34 ∧ s.take 2 = [0x00, 0x20] then (.p2wsh, [(2, 34)])
  else if (n = 35 ∧ s.take 1 = [33] ∨ n = 67 ∧ s.take 1 = [65]) ∧ s.drop (n - 1) = [0xac] then (.p2pk, [(1, n - 1)])
  else
    match s.head?, s[n - 2]?, s.drop (n - 1) with
    | some m, some k, [0xae] =>
      if 0x51 ≤ m.toNat ∧ m.toNat ≤ 0x60 ∧ 0x51 ≤ k.toNat ∧ k.toNat ≤ 0x60 ∧ 3 ≤ n then
        match keyRegions n ((s.drop 1).take (n - 3)) 1 with
        | some r => if r.length = k.toNat - 0x50 ∧ m.toNat ≤ k.toNat then (.multisig, r) else (.other, [])
        | none => (.other, [])
      else (.other, [])
    | _, _, _ => (.other, [])

def inRegions (r : List (Nat × Nat)) (i : Nat) : Bool := r.any fun p => decide (p.1 ≤ i ∧ i < p.2)

/-- `b` has the template of `a` and differs from it, inside the data pushes only -/
def dataDiffOnly (r : List (Nat × Nat)) (a b : Bytes) : Bool :=
  a.length == b.length && a != b &&
    ((List.range a.length).all fun i => inRegions r i || a[i]? == b[i]?)

/-- flip bit `bit` (counted through the data pushes, modulo their total size) -/
def flipDataBit (s : Bytes) (bit : Nat) : Option Bytes :=
  let r := (spkTemplate s).2
  let pos := (List.range s.length).filter (inRegions r)
  if pos.isEmpty then none
  else
    let b := bit % (8 * pos.length)
    match pos[b / 8]? with
    | some i => some (s.modify i fun x => x ^^^ (UInt8.ofNat (1 <<< (b % 8))))
    | none => none

def modUs (h : Hist) (i : Nat) (f : Bytes → Option Bytes) : Option Hist :=
  match h.st.us[i]?.join with
  | some o => (f o.script).map fun sc => { h with st := { h.st with us := h.st.us.set i (some { o with script := sc }) } }
  | none => none

def applyStep (h : Hist) (cmd : String) : Option Hist :=
  match cmd.splitOn ":" with
  | ["nop"] => some h
  | ["ver", n] => do let n ← parseInt? n; some { h with st := { h.st with tx := { h.st.tx with version := n } } }
  | ["lock", n] => do let n ← parseInt? n; some { h with st := { h.st with tx := { h.st.tx with lockTime := n } } }
  | ["seq", i, n] => do let i ← parseNat? i; let n ← parseInt? n; some (modIn h i fun t => { t with sequence := n })
  | ["pidx", i, n] => do let i ← parseNat? i; let n ← parseInt? n; some (modIn h i fun t => { t with prevIndex := n })
  | ["phash", i, b] => do let i ← parseNat? i; let b ← parseBytes? b; some (modIn h i fun t => { t with prevHash := b })
  | ["sol", i, b] => do let i ← parseNat? i; let b ← parseBytes? b; some (modIn h i fun t => { t with script := b })
  | ["wit", i, w] => do let i ← parseNat? i; let w ← parseWitness? w; some (modIn h i fun t => { t with witness := w })
  | ["oval", j, n] => do let j ← parseNat? j; let n ← parseInt? n; some (modOut h j fun o => { o with value := n })
  | ["oscr", j, b] => do let j ← parseNat? j; let b ← parseBytes? b; some (modOut h j fun o => { o with script := b })
  | ["delin", i] => do
    let i ← parseNat? i
    some { st := { tx := { h.st.tx with ins := h.st.tx.ins.eraseIdx i }, us := h.st.us.eraseIdx i }, map := h.map.eraseIdx i }
  | ["insin", i, t] => do
    let i ← parseNat? i
    let t ← parseTxIn? (t.replace "," ":")
    some { st := { tx := { h.st.tx with ins := insertAt h.st.tx.ins i t }, us := insertAt h.st.us i none }, map := insertAt h.map i none }
  | ["swapin", i, j] => do
    let i ← parseNat? i; let j ← parseNat? j
    some { st := { tx := { h.st.tx with ins := swapAt h.st.tx.ins i j }, us := swapAt h.st.us i j }, map := swapAt h.map i j }
  | ["swapsol", i, j] => do
    let i ← parseNat? i; let j ← parseNat? j
    match h.st.tx.ins[i]?, h.st.tx.ins[j]? with
    | some a, some b =>
      let ins := (h.st.tx.ins.set i { a with script := b.script, witness := b.witness }).set j { b with script := a.script, witness := a.witness }
      -- the unlocking data (and with it the signatures whose commitments are remembered) change places
      some { h with st := { h.st with tx := { h.st.tx with ins := ins } }, map := swapAt h.map i j }
    | _, _ => some h
  | ["delout", j] => do let j ← parseNat? j; some { h with st := { h.st with tx := { h.st.tx with outs := h.st.tx.outs.eraseIdx j } } }
  | ["insout", j, o] => do
    let j ← parseNat? j
    let o ← parseTxOut? (o.replace "," ":")
    some { h with st := { h.st with tx := { h.st.tx with outs := insertAt h.st.tx.outs j o } } }
  | ["swapout", i, j] => do
    let i ← parseNat? i; let j ← parseNat? j
    some { h with st := { h.st with tx := { h.st.tx with outs := swapAt h.st.tx.outs i j } } }
  | ["us", i, o] => do
    let i ← parseNat? i
    let o ← (if o = "none" then some none else (parseTxOut? (o.replace "," ":")).map some)
    some { h with st := { h.st with us := h.st.us.set i o } }
  | ["usdrop"] => some { h with st := { h.st with us := h.st.us.dropLast } }
  | ["uskey", i, b] => do let i ← parseNat? i; let b ← parseNat? b; modUs h i fun sc => flipDataBit sc b
  | ["usnop", i] => do let i ← parseNat? i; modUs h i fun sc => some (sc ++ [0x61])
  | ["uspre", i] => do let i ← parseNat? i; modUs h i fun sc => some (0x61 :: sc)
  | _ => none

def exceptEq (a b : Except Sighash.Err (Option Bytes)) : Bool :=
  match a, b with
  | .ok (some x), .ok (some y) => x == y
  | .ok none, .ok none => true
  | _, _ => false

/-- does the closure raise something `is_solution_ok` does not catch (a field outside its wire range: `struct.error`)?
`ScriptError` (a refused hash type) is a verdict, not an escape -/
def isRaise : Except Sighash.Err (Option Bytes) → Bool
  | .error .scriptError => false
  | .error _ => true
  | .ok _ => false

/-- what the commitments of the signed input say at position `j` of the current state, the script code being `code`:
`'1'` every remembered preimage is what its signature commits to now; `'0'` one differs (or is refused); `'E'` every closure
call raises past `is_solution_ok`; `'?'` some do and some do not (which one the interpreter asks first decides) -/
def judge (c : Coin) (sg : Signed) (h : Hist) (j : Nat) (code : Bytes) : Char :=
  let cur := sg.info.hts.map (preimageOf c h.st sg.info.witness code j)
  if !cur.isEmpty && cur.all isRaise then 'E'
  else if cur.any isRaise then '?'
  else if (List.zip cur sg.pre).all (fun p => exceptEq p.1 p.2) then '1' else '0'

/-- the verdict the hash types dictate for position `j` of the current state: `'1'`/`'0'`/`'E'` (the validation raises), or
`'?'` when the verdict depends on the interpreter and not on a commitment (unlocking data edited; a spent script changed in a
way no theorem speaks about) -/
def dictated (c : Coin) (signed : List Signed) (h : Hist) (j : Nat) : Char :=
  match h.map[j]?.join, h.st.tx.ins[j]?, h.st.us[j]?.join with
  | some k, some tin, some uo =>
    match signed[k]? with
    | none => '0'
    | some sg =>
      if !(tin.script == sg.script && tin.witness == sg.wit) then '?'
      else if uo.script == sg.spentScript then judge c sg h j sg.info.code
      else
        let (kind, regions) := spkTemplate sg.spentScript
        let dataOnly := dataDiffOnly regions sg.spentScript uo.script
        if (kind == .p2pkh || kind == .p2sh || kind == .p2wpkh || kind == .p2wsh) && dataOnly then '0'
        else if !sg.info.witness && sg.info.code == sg.spentScript && (kind == .p2pkh || kind == .p2pk || kind == .multisig) &&
            (dataOnly || uo.script == sg.spentScript ++ [0x61] || uo.script == 0x61 :: sg.spentScript) then
          -- the spent script is the script code: the signatures commit to the new one
          match judge c sg h j uo.script with
          | '1' => '?'
          | 'E' => if dataOnly then '?' else 'E'    -- a changed key may not even parse: then the message is never asked for
          | v => v
        else '?'
  | none, some _, some uo =>
    -- no signed unlocking data sits here; when an earlier step rewrote the script being satisfied into something that is no
    -- standard template (NOPs around a witness program make it anyone-can-spend) the interpreter decides, not a commitment
    if (spkTemplate uo.script).1 == .other then '?' else '0'
  | _, _, _ => '0'

def verdicts (c : Coin) (signed : List Signed) (h : Hist) : String :=
  let vs := (List.range h.st.tx.ins.length).map (dictated c signed h)
  -- `bad_solution_count()`: 0 for a coinbase without validating; raises as soon as one validation raises
  let bad := if vs.contains 'E' then (if h.st.tx.isCoinbase then "0" else "E")
    else if vs.contains '?' then "?" else if h.st.tx.isCoinbase then "0" else toString (vs.filter (· == '0')).length
  String.ofList vs ++ "/" ++ bad

def guardsOf (s : State) : String :=
  let g := (List.range s.tx.ins.length).map fun i => guardRefuses s i
  String.ofList (g.map fun b => if b then '1' else '0') ++ " " ++ String.ofList (g.map fun b => if b then '0' else '?')

def handle : Handler := fun op args =>
  match op, args with
  | "c06_hist", [c, tx, us, infoS, steps] => do
    let c ← parseCoin? c
    let tx ← parseTx? tx; let us ← parseUnspents? us
    let metas ← parseItems? parseInfo? infoS
    let st0 : State := ⟨tx, us⟩
    let signed : List Signed := (List.range tx.ins.length).filterMap fun k =>
      match tx.ins[k]?, us[k]?.join, metas[k]? with
      | some tin, some uo, some m =>
        some ⟨tin.script, tin.witness, uo.script, m, m.hts.map (preimageOf c st0 m.witness m.code k)⟩
      | some tin, _, some m => some ⟨tin.script, tin.witness, [], m, m.hts.map (fun _ => .error .indexError)⟩
      | _, _, _ => none
    let h0 : Hist := ⟨st0, (List.range tx.ins.length).map some⟩
    let cmds := if steps = "~" then [] else steps.splitOn ";"
    let rec go (h : Hist) (cmds : List String) (acc : List String) : Option (List String) :=
      match cmds with
      | [] => some acc.reverse
      | cmd :: rest => do
        let h' ← applyStep h cmd
        go h' rest (verdicts c signed h' :: acc)
    let out ← go h0 cmds [verdicts c signed h0]
    some ("ok " ++ ";".intercalate out)
  | "c06_each", [c, tx, us, infoS, steps] => do
    let c ← parseCoin? c
    let tx ← parseTx? tx; let us ← parseUnspents? us
    let metas ← parseItems? parseInfo? infoS
    let st0 : State := ⟨tx, us⟩
    let signed : List Signed := (List.range tx.ins.length).filterMap fun k =>
      match tx.ins[k]?, us[k]?.join, metas[k]? with
      | some tin, some uo, some m =>
        some ⟨tin.script, tin.witness, uo.script, m, m.hts.map (preimageOf c st0 m.witness m.code k)⟩
      | some tin, _, some m => some ⟨tin.script, tin.witness, [], m, m.hts.map (fun _ => .error .indexError)⟩
      | _, _, _ => none
    let h0 : Hist := ⟨st0, (List.range tx.ins.length).map some⟩
    let cmds := if steps = "~" then [] else steps.splitOn ";"
    let outs ← cmds.mapM fun cmd => do
      let h' ← applyStep h0 cmd
      some (String.ofList ((List.range h'.st.tx.ins.length).map (dictated c signed h')))
    some ("ok " ++ ";".intercalate (verdicts c signed h0 :: outs))
  | "c06_guards", [c, tx, us] => do
    let _ ← parseCoin? c
    let st : State := ⟨← parseTx? tx, ← parseUnspents? us⟩
    let n := st.tx.ins.length
    let mu := (List.range (n + 2)).map fun i => if missingUnspent st i then '1' else '0'
    let guard := (List.range (n + 2)).map fun i => if decide (st.us.length ≤ i) || (st.us[i]?.join).isNone then '1' else '0'
    some s!"ok {String.ofList mu} {if missingUnspents st then 1 else 0} {String.ofList guard}"
  -- ways the unspents get populated; answer: the unspents, which is_solution_ok(i) the guard refuses, and the verdict
  -- vector with '0' at refused positions and '?' elsewhere (there the interpreter decides)
  | "c06_from_db", [c, tx, ign, db] => do
    let _ ← parseCoin? c
    let tx ← parseTx? tx
    let ign ← (if ign = "1" then some true else if ign = "0" then some false else none)
    let entries ← parseItems? (fun e =>
      match e.splitOn "=" with
      | [k, h, outs] => do
        let outs ← (if outs = "~" then some [] else (outs.splitOn ",").mapM parseTxOut?)
        some (← parseBytes? k, ← parseBytes? h, outs)
      | _ => none) db
    let dbf : TxDb := fun k => (entries.find? (fun e => e.1 == k)).map (·.2)
    match unspentsFromDb dbf ign tx.ins with
    | .ok us => some ("ok " ++ showUnspents us ++ " " ++ guardsOf ⟨tx, us⟩)
    | .error e => some ("err " ++ e.tag ++ " " ++ guardsOf ⟨tx, []⟩)
  | "c06_set_unspents", [c, tx, us] => do
    let _ ← parseCoin? c
    let tx ← parseTx? tx; let us ← parseUnspents? us
    match setUnspents ⟨tx, []⟩ us with
    | .ok s => some ("ok " ++ guardsOf s)
    | .error e => some ("err " ++ e.tag ++ " " ++ guardsOf ⟨tx, []⟩)
  | "c06_parse_unspents", [c, tx, us] => do
    let c ← parseCoin? c
    let tx ← parseTx? tx; let us ← parseUnspents? us
    match tx.asBin us true with
    | .error e => some ("err " ++ e.tag)
    | .ok b =>
      match Tx.fromBin c b with
      | .error e => some ("err " ++ e.tag)
      | .ok (tx2, us2) => some ("ok " ++ showUnspents us2 ++ " " ++ guardsOf ⟨tx2, us2⟩)
  | "c06_cache", [salt, hts] => do
    let salt ← parseNat? salt
    let hts ← parseList? parseNat? hts
    let f := fun ht : Nat => ht * 7 + salt
    -- `checksigs` pops the signatures from the end of the list
    let order := hts.reverse
    let vals := runCached f [] order
    let calls := order.eraseDups
    some s!"ok {showList toString vals} {showList toString calls}"
  -- `c06_sigchecked <coin> <kind,kind,…> <hash type>`: a transaction with one input per standard puzzle kind, signed by the
  -- library: every input validates (1) and its validation computed at least one signature hash (1) — no standard puzzle is
  -- satisfied without a signature check, on any coin
  | "c06_sigchecked", [_c, kinds, _ht] =>
    some ("ok " ++ ",".intercalate ((kinds.splitOn ",").map fun _ => "1/1"))
  | _, _ => none

end Pycoin.Driver.C06
