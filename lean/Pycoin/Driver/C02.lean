import Pycoin.Driver.Core
import Pycoin.Model.Curve
import Pycoin.Model.NativeCurve
import Pycoin.Gen.Curves
/-!
C02 ops.  Curves: `secp256k1`, `secp256r1`, `bls12_381`, or inline `toy:p:a:b:gx:gy:n`; an optional
`/config` suffix (`/pure`, `/openssl`) names the implementation's arithmetic configuration and is ignored by
the model.  Points: `x,y` or `inf`.
-/
namespace Pycoin.Driver.C02
open Pycoin.Curve Pycoin.Driver Pycoin.Native

def parseCurve? (s : String) : Option CurveParams :=
  let name := (s.splitOn "/").headD ""
  match name.splitOn ":" with
  | ["toy", p, a, b, gx, gy, n] => do
    pure { p := ← parseNat? p, a := ← parseInt? a, b := ← parseInt? b,
           gx := ← parseInt? gx, gy := ← parseInt? gy, n := ← parseNat? n }
  | [nm] => (Pycoin.Gen.Curves.named.find? (·.1 = nm)).map (·.2)
  | _ => none

def parsePt? (s : String) : Option Pt :=
  if s = "inf" then some none else
  match s.splitOn "," with
  | [x, y] => do pure (some (← parseInt? x, ← parseInt? y))
  | _ => none

def showPt : Pt → String
  | none => "inf"
  | some (x, y) => s!"{x},{y}"

/-- configuration suffix of a curve token -/
def configOf (s : String) : String := ((s.splitOn "/").drop 1).headD "pure"

/-- the OpenSSL class returns `self.Point(x, y)` with the coordinates OpenSSL hands back, which are reduced;
the pure ladder hands an operand back as given when the scalar is ≡ 1.  Same group element (`Native.reducePt`). -/
def viaBackend (cfg : String) (c : CurveParams) (r : Except Err Pt) : Except Err Pt :=
  if cfg = "openssl" then r.map (reducePt c) else r

def showRes {α} (f : α → String) : Except Err α → String
  | .ok a => "ok " ++ f a
  | .error e => "err " ++ e.tag

/-- all points of a toy curve: infinity, then by x, then by y (the harness enumerates in the same order) -/
def toyPoints (c : CurveParams) : List Pt :=
  none :: (List.range c.p).flatMap fun (x : Nat) => (List.range c.p).filterMap fun (y : Nat) =>
    if containsXY c (x : Int) (y : Int) then some (some ((x : Int), (y : Int))) else none

def showE (r : Except Err Pt) : String :=
  match r with
  | .ok P => showPt P
  | .error e => e.tag

/-- `k` from `-2n` to `2n` -/
def kRange (n : Nat) : List Int := (List.range (4 * n + 1)).map fun (i : Nat) => (i : Int) - 2 * (n : Int)

def handleCore : Handler := fun op args =>
  match op, args with
  -- operands are built with `generator.Point(x, y)`, which raises NoSuchPointError off the curve
  | "ec_add", [c, P, Q] => do
    let c ← parseCurve? c; let P ← parsePt? P; let Q ← parsePt? Q
    if ¬ (containsPoint c P ∧ containsPoint c Q) then some "err NoSuchPointError" else
    some (showRes showPt (add c P Q))
  | "ec_sub", [c, P, Q] => do
    let c ← parseCurve? c; let P ← parsePt? P; let Q ← parsePt? Q
    if ¬ (containsPoint c P ∧ containsPoint c Q) then some "err NoSuchPointError" else
    some (showRes showPt (sub c P Q))
  | "ec_neg", [c, P] => do
    let c ← parseCurve? c; let P ← parsePt? P
    if ¬ containsPoint c P then some "err NoSuchPointError" else
    some (showRes showPt (neg c P))
  | "ec_mul", [ct, P, k] | "ec_mulr", [ct, P, k] => do   -- `k * P` (Point.__rmul__) and `P * k` (Point.__mul__)
    let c ← parseCurve? ct
    let P ← parsePt? P
    -- `self.Point(*P)` happens before either backend is entered
    if ¬ containsPoint c P then some "err NoSuchPointError" else
    some (showRes showPt (viaBackend (configOf ct) c (multiply c P (← parseInt? k))))
  | "ec_mul_orderless", [ct, P, k] => do
    let c ← parseCurve? ct
    let P ← parsePt? P
    if ¬ containsPoint c P then some "err NoSuchPointError" else
    some (showRes showPt (multiply { c with n := 0 } P (← parseInt? k)))
  | "ec_rawmul", [c, k] => do
    some (showRes showPt (rawMul (← parseCurve? c) (← parseInt? k)))
  | "ec_blindmul", [c, k, b] => do
    let c ← parseCurve? c
    let k ← parseInt? k
    let b ← parseInt? b
    -- `_blinding_factor = int.from_bytes(entropy_f(32)) % order`
    some (showRes showPt (mulG c (Pycoin.fmod b c.n) k))
  | "ec_assoc", [c, P, Q, R] => do
    let c ← parseCurve? c
    let P ← parsePt? P; let Q ← parsePt? Q; let R ← parsePt? R
    if ¬ (containsPoint c P ∧ containsPoint c Q ∧ containsPoint c R) then some "err NoSuchPointError" else
    let l := match add c P Q with | .ok s => add c s R | .error e => .error e
    let r := match add c Q R with | .ok s => add c P s | .error e => .error e
    match l, r with
    | .ok l, .ok r => some s!"ok {showPt l} {showPt r}"
    | .error e, _ => some ("err " ++ e.tag)
    | _, .error e => some ("err " ++ e.tag)
  | "ec_genmul", [c, k] | "ec_rgenmul", [c, k] => do    -- `G * k` (Generator.__mul__) and `k * G` (Generator.__rmul__)
    some (showRes showPt (mulG (← parseCurve? c) 0 (← parseInt? k)))
  | "ec_invmodc", [_, a, m] => do
    some (showRes toString (inverseMod (← parseInt? a) (← parseInt? m)))
  | "ec_toy_addtable", [c] => do
    let c ← parseCurve? c
    let pts := toyPoints c
    some ("ok " ++ "|".intercalate (pts.map fun P => ";".intercalate (pts.map fun Q => showE (add c P Q))))
  | "ec_toy_multable", [c] => do
    let c ← parseCurve? c
    let pts := toyPoints c
    some ("ok " ++ "|".intercalate (pts.map fun P => ";".intercalate ((kRange c.n).map fun k => showE (multiply c P k))))
  | "ec_toy_gentable", [c, b] => do
    let c ← parseCurve? c
    let bf := Pycoin.fmod (← parseInt? b) c.n
    some ("ok " ++ ";".intercalate ((kRange c.n).map fun k => showE (mulG c bf k) ++ "/" ++ showE (rawMul c k)))
  | "ec_invmod", [a, m] => do
    some (showRes toString (inverseMod (← parseInt? a) (← parseInt? m)))
  | "ec_points_for_x", [c, x] => do
    some (showRes (fun (pq : Pt × Pt) => showPt pq.1 ++ " " ++ showPt pq.2) (pointsForX (← parseCurve? c) (← parseInt? x)))
  | "ec_on_curve", [c, P] => do
    some ("ok " ++ showBool (containsPoint (← parseCurve? c) (← parsePt? P)))
  | "ec_sqrt", [c, a] => do
    some s!"ok {modularSqrt (← parseCurve? c) (← parseInt? a)}"
  | "ec_shared", [ct, d, Q] => do
    let c ← parseCurve? ct
    some (showRes showPt (viaBackend (configOf ct) c (sharedPublicKey c (← parseInt? d) (← parsePt? Q))))
  -- the GLUE MODEL of native/openssl.py run over `pureLib` (libcrypto played by the pure model), compared with the real
  -- OpenSSL-configured class.  `ec_ossl_mul` hands the glue a raw tuple (no `Point` constructor in front of it)
  | "ec_ossl_mul", [ct, P, k] => do
    let c ← parseCurve? ct
    some (showRes showPt (Ossl.multiply (pureLib c) c (← parsePt? P) (← parseInt? k)))
  | "ec_ossl_rawmul", [ct, k] => do
    let c ← parseCurve? ct
    some (showRes showPt (Ossl.rawMul (pureLib c) c (← parseInt? k)))
  | "ec_ossl_inv", [ct, a, m] => do
    let c ← parseCurve? ct
    some (showRes toString (Ossl.inverseMod (pureLib c) (← parseInt? a) (← parseInt? m)))
  | "ec_ossl_add", [ct, P, Q] => do
    let c ← parseCurve? ct; let P ← parsePt? P; let Q ← parsePt? Q
    if ¬ (containsPoint c P ∧ containsPoint c Q) then some "err NoSuchPointError" else
    some (showRes showPt (Gen.add (Ossl.methods (pureLib c) c) c P Q))
  | "ec_ossl_blindmul", [ct, k, b] => do
    let c ← parseCurve? ct
    some (showRes showPt (Gen.mulG (Ossl.methods (pureLib c) c) c (Pycoin.fmod (← parseInt? b) c.n) (← parseInt? k)))
  | "ec_ossl_shared", [ct, d, Q] => do
    let c ← parseCurve? ct
    some (showRes showPt (Gen.sharedPublicKey (Ossl.methods (pureLib c) c) c (← parseInt? d) (← parsePt? Q)))
  -- what the CONTRACT says the library calls return (return codes included), asked of the real library by the harness
  | "ossl_probe", [ct, "mul", P, k] => do
    let c ← parseCurve? ct
    let L := pureLib c
    match ← parsePt? P with
    | none => none
    | some (x, y) =>
      match Ossl.bnInit L x, Ossl.bnInit L y, Ossl.bnInit L (← parseInt? k) with
      | .ok bx, .ok by_, .ok bn =>
        let s := L.setAffine L.ecPointNew bx by_
        let m := L.ecMul L.ecPointNew s.2 bn
        let g := L.getAffine m.2 bx by_
        some s!"ok {showBool s.1} {showBool m.1} {showBool g.1} {Ossl.toInt L g.2.1},{Ossl.toInt L g.2.2}"
      | _, _, _ => some "err OverflowError"
  | "ossl_probe", [ct, "inv", a, m] => do
    let c ← parseCurve? ct
    let L := pureLib c
    match Ossl.bnInit L (← parseInt? a), Ossl.bnInit L (← parseInt? m) with
    | .ok ba, .ok bm =>
      match L.modInverse ba bm with
      | none => some s!"ok null {Ossl.toInt L ba}"
      | some r => some s!"ok ptr {Ossl.toInt L r}"
    | _, _ => some "err OverflowError"
  | "ossl_probe", [ct, "bn", v] => do
    let c ← parseCurve? ct
    let L := pureLib c
    match Ossl.bnInit L (← parseInt? v) with
    | .ok b => some s!"ok {Ossl.toInt L b} {showBool b.neg} {b.d.length}"
    | .error e => some ("err " ++ e.tag)
  | "ossl_probe", [ct, "group"] => do
    let c ← parseCurve? ct
    some s!"ok {c.p} {Pycoin.fmod c.a c.p} {Pycoin.fmod c.b c.p} {c.gx} {c.gy} {c.n}"
  | "ec_gen_init", [c, b] => do
    let c ← parseCurve? c
    some (showRes (fun _ => "1") (generatorInit c (Pycoin.fmod (← parseInt? b) c.n)))
  | _, _ => none

/-- `failed_then <op> <args…>`: the harness first makes calls on the same generator object that the library refuses (a scalar
that is not an integer), then evaluates `<op>`; a refused call changes nothing, so the model's answer is that of `<op>` alone -/
def handle : Handler := fun op args =>
  match op, args with
  | "failed_then", op' :: args' => handleCore op' args'
  | _, _ => handleCore op args

end Pycoin.Driver.C02
