import Pycoin.Driver.Core
import Pycoin.DriverLib.TxText
import Pycoin.DriverLib.History
import Pycoin.Model.TxCheck
import Pycoin.Model.CoinbaseTx
namespace Pycoin.Driver.C20
open Pycoin Pycoin.Driver Pycoin.DriverLib Pycoin.TxCheck

/-- ops: `check_tx coin tx [ids]` (ids: object identity per input position, default all distinct),
`is_coinbase coin tx`, `bad_solution_count coin tx` (no unspents set: no input has a checkable solution) -/
def handle : Handler := fun op args =>
  match op, args with
  | "check_tx", [c, tx] => do
    let c ← parseCoin? c
    let tx ← parseTx? tx
    match check c tx (List.range tx.ins.length) with
    | .ok () => some "ok"
    | .error e => some ("err " ++ e.tag)
  | "check_tx", [c, tx, ids] => do
    let c ← parseCoin? c
    let tx ← parseTx? tx
    let ids ← parseList? parseNat? ids
    if ids.length ≠ tx.ins.length then none else
    match check c tx ids with
    | .ok () => some "ok"
    | .error e => some ("err " ++ e.tag)
  | "is_coinbase", [c, tx] => do
    let _ ← parseCoin? c
    let tx ← parseTx? tx
    some ("ok " ++ showBool tx.isCoinbase)
  | "bad_solution_count", [c, tx] => do
    let _ ← parseCoin? c
    let tx ← parseTx? tx
    some s!"ok {badSolutionCount tx (fun _ => false)}"
  -- Tx.coinbase_tx(sec, value, coinbase_bytes, version, lock_time): the fields, check(), is_coinbase(), bad_solution_count()
  | "cb_tx", [c, sec, v, cb, ver, lt] => do
    let c ← parseCoin? c
    let sec ← parseHex? sec
    let cb ← parseHex? cb
    let tx := coinbaseTx sec (← parseInt? v) cb (← parseInt? ver) (← parseInt? lt)
    let verdict := match check c tx [0] with | .ok () => "ok" | .error e => "err:" ++ e.tag
    some s!"ok {showTx tx} {verdict} {showBool tx.isCoinbase} {badSolutionCount tx (fun _ => false)}"
  | "check_hist", [c, tx, steps] => histOp c tx steps
  | _, _ => none

end Pycoin.Driver.C20
