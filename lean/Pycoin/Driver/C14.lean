import Pycoin.Driver.Core
import Pycoin.Model.Sha256
import Pycoin.Model.Merkle
import Pycoin.Model.MerkleBlock
import Pycoin.Spec.Merkle
import Pycoin.Model.Block
import Pycoin.Model.BlockOffsets
import Pycoin.DriverLib.TxText
namespace Pycoin.Driver.C14
open Pycoin Pycoin.Driver Pycoin.Hash

/-- `0110…` one character per leaf -/
def parseBits? (s : String) : Option (List Bool) :=
  if s = "~" then some [] else
  s.toList.mapM fun c => if c = '1' then some true else if c = '0' then some false else none

def leafFn (hs : List Bytes) : Nat → Bytes := fun i => hs[i]?.getD []
def matchFn (ms : List Bool) : Nat → Bool := fun i => ms[i]?.getD false

def parseField? : String → Option HdrField
  | "version" => some .version | "prev" => some .prev | "root" => some .root
  | "timestamp" => some .timestamp | "difficulty" => some .difficulty | "nonce" => some .nonce
  | _ => none

/-- `id` `hash` `as_bin` `header` `as_blockheader` `set_nonce:<n>` `set:<field>:<int or x<hex>>` -/
def parseStep? (s : String) : Option ObjStep :=
  match s.splitOn ":" with
  | ["id"] => some .id
  | ["hash"] => some .hash
  | ["as_bin"] => some .asBin
  | ["header"] => some .streamHeader
  | ["as_blockheader"] => some .asBlockheader
  | ["as_hex"] => some .asHex
  | ["prev_id"] => some .prevId
  | ["set_nonce", n] => (parseInt? n).map .setNonce
  | ["set", f, v] => do
    let f ← parseField? f
    if v.startsWith "x" then
      let b ← if v = "x" then some [] else DriverLib.decodeHexFast (v.drop 1).toString
      some (.setBytes f b)
    else (parseInt? v).map (.setInt f)
  | _ => none

def hexOrDash (b : Bytes) : String := if b.isEmpty then "-" else DriverLib.encodeHexFast b

/-- what the step prints, on the state before it -/
def answer (o : BlockObj) : ObjStep → String
  | .hash => match o.hash with | .ok (h, _) => hexOrDash h | .error e => "err:" ++ e.tag
  | .id => match o.hash with | .ok (h, _) => String.ofList (Tx.b2hRev h) | .error e => "err:" ++ e.tag
  | .asBin => match Block.stream ⟨o.hdr, o.txs⟩ with | .ok b => hexOrDash b | .error e => "err:" ++ e.tag
  | .streamHeader => match Block.streamHeader o.hdr with | .ok b => hexOrDash b | .error e => "err:" ++ e.tag
  | .asHex => match Block.stream ⟨o.hdr, o.txs⟩ with | .ok b => hexOrDash b | .error e => "err:" ++ e.tag
  | .prevId => hexOrDash o.hdr.prev.reverse
  | _ => "-"

def runSteps (o : BlockObj) : List ObjStep → List String
  | [] => []
  | s :: ss => answer o s :: runSteps (o.step s) ss

def handle : Handler := fun op args =>
  match op, args with
  -- model of pycoin.merkle.merkle(hashes, double_sha256)
  | "merkle", [hs] => do
    let hs ← parseList? parseHex? hs
    match Merkle.merkle dsha256 hs with
    | .ok r => some ("ok " ++ hx r)
    | .error .indexError => some "err IndexError"
  -- the recursive Bitcoin definition (Spec), n ≥ 1
  | "merkle_spec", [hs] => do
    let hs ← parseList? parseHex? hs
    if hs.isEmpty then some "err empty" else
    some ("ok " ++ hx (Spec.Merkle.root dsha256 (leafFn hs) hs.length))
  -- BIP37 builder (Spec): flag bytes, hashes, and the ids a verifier must return
  | "pmt_build", [hs, ms] => do
    let hs ← parseList? parseHex? hs
    let ms ← parseBits? ms
    if hs.isEmpty ∨ ms.length ≠ hs.length then some "err bad-args" else
    let p := Spec.Merkle.proof dsha256 (leafFn hs) (matchFn ms) hs.length
    some ("ok " ++ hx p.1 ++ " " ++ showList hx p.2 ++ " " ++ showList hx (Spec.Merkle.matched (leafFn hs) (matchFn ms) hs.length))
  -- model of post_unpack_merkleblock on the decoded fields (an optional 5th argument is a harness tag, ignored)
  | "pmt_verify", total :: hs :: flags :: root :: _tag => do
    let total ← parseNat? total
    let hs ← parseList? parseHex? hs
    let flags ← parseHex? flags
    let root ← parseHex? root
    match MerkleBlock.verify dsha256 total hs flags root with
    | .ok acc => some ("ok " ++ showList hx acc)
    | .error e => some ("err " ++ e.pyName)
  -- `pmt_verify_after <net> …`: the harness first parses a merkleblock message on ANOTHER network (own header layout) in the
  -- same process; the Bitcoin verdict is that of `pmt_verify` alone (no state is shared between networks)
  | "pmt_verify_after", _net :: total :: hs :: flags :: root :: _tag => do
    let total ← parseNat? total
    let hs ← parseList? parseHex? hs
    let flags ← parseHex? flags
    let root ← parseHex? root
    match MerkleBlock.verify dsha256 total hs flags root with
    | .ok acc => some ("ok " ++ showList hx acc)
    | .error e => some ("err " ++ e.pyName)
  -- Block.from_bin(b) -> as_bin(), id(), len(txs)   (an optional 3rd argument is a harness tag, ignored)
  | "block_rt", c :: data :: _tag => do
    let c ← DriverLib.parseCoin? c
    let data ← DriverLib.decodeHexFast data
    match Block.fromBin c data with
    | .error e => some ("err " ++ e.tag)
    | .ok blk =>
      match Block.stream blk, Block.id blk.hdr with
      | .ok b, .ok i => some s!"ok {DriverLib.encodeHexFast b} {String.ofList i} {blk.txs.length}"
      | .error e, _ => some ("err " ++ e.tag)
      | _, .error e => some ("err " ++ e.tag)
  -- Block.parse(f, include_offsets=True, check_merkle_hash) -> tx.offset_in_block of every transaction, bytes left unread
  | "block_offs", [c, check, data] => do
    let c ← DriverLib.parseCoin? c
    let data ← DriverLib.decodeHexFast data
    match Block.parseWithOffsets c (check = "1") data with
    | .error e => some ("err " ++ e.tag)
    | .ok (_, offs, rest) => some s!"ok {showList toString offs} {rest.length}"
  -- Block.parse_as_header(f) -> stream_header, id(), bytes left unread
  | "header_rt", [data] => do
    let data ← if data = "-" then some [] else DriverLib.decodeHexFast data
    match Block.parseAsHeader data with
    | .error e => some ("err " ++ e.tag)
    | .ok (h, rest) =>
      match Block.streamHeader h, Block.id h with
      | .ok b, .ok i => some s!"ok {DriverLib.encodeHexFast b} {String.ofList i} {rest.length}"
      | .error e, _ => some ("err " ++ e.tag)
      | _, .error e => some ("err " ++ e.tag)
  -- a Block object's history: parse_as_header(<80 bytes>), then the steps; one answer per step
  | "blk_seq", [hdr, steps] => do
    let hdr ← DriverLib.decodeHexFast hdr
    let steps ← (steps.splitOn ",").mapM parseStep?
    match Block.parseAsHeader hdr with
    | .error e => some ("err " ++ e.tag)
    | .ok (h, _) => some ("ok " ++ "|".intercalate (runSteps ⟨h, [], none⟩ steps))
  | _, _ => none
end Pycoin.Driver.C14
