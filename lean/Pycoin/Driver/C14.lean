import Pycoin.Driver.Core
import Pycoin.Model.Sha256
import Pycoin.Model.Merkle
import Pycoin.Model.MerkleBlock
import Pycoin.Spec.Merkle
import Pycoin.Model.Block
import Pycoin.DriverLib.TxText
namespace Pycoin.Driver.C14
open Pycoin.Driver Pycoin.Hash

/-- `0110…` one character per leaf -/
def parseBits? (s : String) : Option (List Bool) :=
  if s = "~" then some [] else
  s.toList.mapM fun c => if c = '1' then some true else if c = '0' then some false else none

def leafFn (hs : List Bytes) : Nat → Bytes := fun i => hs[i]?.getD []
def matchFn (ms : List Bool) : Nat → Bool := fun i => ms[i]?.getD false

def handle : Handler := fun op args =>
  match op, args with
  -- model of pycoin.merkle.merkle(hashes, double_sha256)
  | "merkle", [hs] => do
    let hs ← parseList? parseHex? hs
    match Merkle.merkle dsha256 hs with
    | .ok r => some ("ok " ++ hx r)
    | .error .indexError => some "err IndexError"
  -- the recursive Bitcoin definition (Spec), n ≥ 1
  | "merkle_spec", [hs] => do
    let hs ← parseList? parseHex? hs
    if hs.isEmpty then some "err empty" else
    some ("ok " ++ hx (Spec.Merkle.root dsha256 (leafFn hs) hs.length))
  -- BIP37 builder (Spec): flag bytes, hashes, and the ids a verifier must return
  | "pmt_build", [hs, ms] => do
    let hs ← parseList? parseHex? hs
    let ms ← parseBits? ms
    if hs.isEmpty ∨ ms.length ≠ hs.length then some "err bad-args" else
    let p := Spec.Merkle.proof dsha256 (leafFn hs) (matchFn ms) hs.length
    some ("ok " ++ hx p.1 ++ " " ++ showList hx p.2 ++ " " ++ showList hx (Spec.Merkle.matched (leafFn hs) (matchFn ms) hs.length))
  -- model of post_unpack_merkleblock on the decoded fields (an optional 5th argument is a harness tag, ignored)
  | "pmt_verify", total :: hs :: flags :: root :: _tag => do
    let total ← parseNat? total
    let hs ← parseList? parseHex? hs
    let flags ← parseHex? flags
    let root ← parseHex? root
    match MerkleBlock.verify dsha256 total hs flags root with
    | .ok acc => some ("ok " ++ showList hx acc)
    | .error e => some ("err " ++ e.pyName)
  -- Block.from_bin(b) -> as_bin(), id(), len(txs)   (an optional 3rd argument is a harness tag, ignored)
  | "block_rt", c :: data :: _tag => do
    let c ← DriverLib.parseCoin? c
    let data ← DriverLib.decodeHexFast data
    match Block.fromBin c data with
    | .error e => some ("err " ++ e.tag)
    | .ok blk =>
      match Block.stream blk, Block.id blk.hdr with
      | .ok b, .ok i => some s!"ok {DriverLib.encodeHexFast b} {String.ofList i} {blk.txs.length}"
      | .error e, _ => some ("err " ++ e.tag)
      | _, .error e => some ("err " ++ e.tag)
  -- Block.parse_as_header(f) -> stream_header, id(), bytes left unread
  | "header_rt", [data] => do
    let data ← if data = "-" then some [] else DriverLib.decodeHexFast data
    match Block.parseAsHeader data with
    | .error e => some ("err " ++ e.tag)
    | .ok (h, rest) =>
      match Block.streamHeader h, Block.id h with
      | .ok b, .ok i => some s!"ok {DriverLib.encodeHexFast b} {String.ofList i} {rest.length}"
      | .error e, _ => some ("err " ++ e.tag)
      | _, .error e => some ("err " ++ e.tag)
  | _, _ => none
end Pycoin.Driver.C14
