import Pycoin.Driver.Core
import Pycoin.Model.HashPy
import Pycoin.Model.Bloom
import Pycoin.Model.HashHistory
import Pycoin.Spec.Murmur3
/-! C19 ops: the Python-style models of contrib/ripemd160.py, bloomfilter.py, encoding/hash.py. -/
namespace Pycoin.Driver.C19
open Pycoin.Driver Pycoin

def showE (r : Except PyErr String) : String :=
  match r with
  | .ok s => "ok " ++ s
  | .error e => "err " ++ e.tag

def parseImpl? : String → Option HashPy.Impl
  | "native" => some .native
  | "python" => some .purePython
  | "pycrypto" => some .pycrypto
  | _ => none

def showImpl : HashPy.Impl → String
  | .native => "native" | .purePython => "python" | .pycrypto => "pycrypto"

def parseBool? : String → Option Bool
  | "0" => some false | "1" => some true | _ => none

/-- environment value: `none` = unset, otherwise `=` followed by the hex of the string's bytes (`=` alone: empty string) -/
def parseEnv? (s : String) : Option (Option String) :=
  if s = "none" then some none
  else match s.toList with
    | '=' :: rest => do
      let b ← if rest.isEmpty then some [] else Hex.decodeChars rest
      some (some (String.ofList (b.map fun c => Char.ofNat c.toNat)))
    | _ => none

def parseSt? (s : String) : Option Ripemd160Py.St := do
  match ← parseList? parseInt? s with
  | [a, b, c, d, e] => some ⟨a, b, c, d, e⟩
  | _ => none

inductive Item
  | item (b : Bytes) | hash160 (b : Bytes) | address (b : Bytes) | spendable (h : Bytes) (i : Int)

def parseItem? (s : String) : Option Item :=
  match s.splitOn ":" with
  | ["i", h] => do some (.item (← parseHex? h))
  | ["h", h] => do some (.hash160 (← parseHex? h))
  | ["a", h] => do some (.address (← parseHex? h))
  | ["s", h, i] => do some (.spendable (← parseHex? h) (← parseInt? i))
  | _ => none

def Item.bytes : Item → Option Bytes
  | .item b | .hash160 b | .address b => some b
  | .spendable h i => if 0 ≤ i ∧ i < 2 ^ 32 then some (h ++ leBytes i.toNat 4) else none

def addOne (f : Bloom.Filter) : Item → Except PyErr Bloom.Filter
  | .item b => Bloom.addItem f b
  | .hash160 b => Bloom.addHash160 f b
  | .address b => Bloom.addItem f b      -- `add_address`: `a2b_hashed_base58(address)[1:]` is the 20-byte payload the harness encoded
  | .spendable h i => Bloom.addSpendable f h i

def bloomOp (size nh tweak : Int) (items : List Item) : Except PyErr String := do
  let f0 ← Bloom.new size nh tweak
  let f ← items.foldlM addOne f0
  let ms ← items.mapM fun it =>
    match it.bytes with
    | some b => Bloom.matchesPy f b
    | none => pure false
  pure (hx f.filterBytes ++ " " ++ (if ms.isEmpty then "~" else String.ofList (ms.map fun b => if b then '1' else '0')))

def parseKind? : String → Option HashHistory.Kind
  | "y" => some .bytes | "a" => some .bytearray | "m" => some .memoryview | _ => none

/-- history steps, `:`-separated fields: `ny:0:<hex>` `na:…` `nm:…` new buffer; `s:0:<hex>` overwrite in place;
`r:0` `h:0` `d:0` `c:0` `m:0:<seed>` calls; `bn:<size>:<nh>:<tweak>` `ba:0` `bf` `bc:0` Bloom filter -/
def parseStep? (s : String) : Option HashHistory.Step :=
  match s.splitOn ":" with
  | [k, i, d] =>
    if k = "s" then do some (.set (← parseNat? i) (← parseHex? d))
    else if k = "m" then do some (.murmur (← parseNat? i) (← parseInt? d))
    else match k.toList with
      | ['n', c] => do some (.new (← parseNat? i) (← parseKind? (String.singleton c)) (← parseHex? d))
      | _ => none
  | ["r", i] => do some (.rmd (← parseNat? i))
  | ["h", i] => do some (.h160 (← parseNat? i))
  | ["d", i] => do some (.dsha (← parseNat? i))
  | ["c", i] => do some (.contrib (← parseNat? i))
  | ["bn", a, b, c] => do some (.bnew (← parseInt? a) (← parseInt? b) (← parseInt? c))
  | ["ba", i] => do some (.badd (← parseNat? i))
  | ["bf"] => some .bfilter
  | ["bc", i] => do some (.bcontains (← parseNat? i))
  | _ => none

def showAns : HashHistory.Ans → String
  | .ok .unit => "."
  | .ok (.bytes b) => hx b
  | .ok (.int n) => toString n
  | .ok (.bool b) => showBool b
  | .error e => "err:" ++ e.tag

def handle : Handler := fun op args =>
  match op, args with
  | "c19_pyint", [o, a, b] => do
    let a ← parseInt? a; let b ← parseInt? b
    match o with
    | "and" => some s!"ok {pyAnd a b}"
    | "or" => some s!"ok {pyOr a b}"
    | "xor" => some s!"ok {pyXor a b}"
    | "not" => some s!"ok {~~~a}"
    | "shl" => some (showE ((pyShlE a b).map toString))
    | "shr" => some (showE ((pyShrE a b).map toString))
    | _ => none
  | "c19_rmd_py", [m] => do some (showE ((Ripemd160Py.ripemd160 (← parseHex? m)).map hx))
  | "c19_compress", [st, blk] => do
    let st ← parseSt? st; let blk ← parseHex? blk
    some (showE ((Ripemd160Py.compress st blk).map fun s => showList toString [s.a, s.b, s.c, s.d, s.e]))
  | "c19_rol", [x, i] => do some (showE ((Ripemd160Py.rol (← parseInt? x) (← parseInt? i)).map toString))
  | "c19_fi", [x, y, z, i] => do
    some (showE ((Ripemd160Py.fi (← parseInt? x) (← parseInt? y) (← parseInt? z) (← parseInt? i)).map toString))
  | "c19_select", [alg, env, works, pc] => do
    let e : HashPy.Env := ⟨← parseBool? alg, ← parseEnv? env, ← parseBool? works, ← parseBool? pc⟩
    some ("ok " ++ showImpl (HashPy.getBestRipemd160 e))
  | "c19_ripemd160", [cfg, m] => do some (showE ((HashPy.ripemd160 (← parseImpl? cfg) (← parseHex? m)).map hx))
  | "c19_hash160", [cfg, m] => do some (showE ((HashPy.hash160 (← parseImpl? cfg) (← parseHex? m)).map hx))
  | "c19_dsha256", [m] => do
    let d := HashPy.doubleSha256 (← parseHex? m)
    some ("ok " ++ hx d ++ " " ++ HashPy.b2hRev d)
  | "c19_murmur3", [m, seed] => do
    some (showE ((Murmur3Py.murmur3 (← parseHex? m) (← parseInt? seed)).map toString))
  | "murmur3_spec", [m, seed] => do
    some s!"ok {(Hash.murmur3 (← parseHex? m) (UInt32.ofNat (← parseNat? seed))).toNat}"
  | "c19_bloom", [size, nh, tweak, items] => do
    let items ← parseList? parseItem? items
    some (showE (bloomOp (← parseInt? size) (← parseInt? nh) (← parseInt? tweak) items))
  | "c19_history", [cfg, script] => do
    let impl ← parseImpl? cfg
    let steps ← parseList? parseStep? script
    some ("ok " ++ ";".intercalate ((HashHistory.exec (HashHistory.implFns impl) HashHistory.empty steps).map showAns))
  | _, _ => none

end Pycoin.Driver.C19
