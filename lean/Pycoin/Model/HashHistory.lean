import Pycoin.Model.HashPy
import Pycoin.Model.Bloom
/-!
C19 — histories of calls on reused buffer objects.  The functions of `encoding/hash.py`,
`contrib/ripemd160.py` and `bloomfilter.py` keep no state between calls (the only object with state is the
`BloomFilter` itself), so the model of a history is: every call is the pure function of the contents its
argument has *at that step*.  Buffers are `bytes` (rebinding only), `bytearray` and `memoryview`
(overwritten in place); the kind matters only where the code's `data[k:] + pad` refuses a `memoryview`.
-/
namespace Pycoin.HashHistory

inductive Kind | bytes | bytearray | memoryview
  deriving DecidableEq, Repr

structure Buf where
  kind : Kind
  data : Bytes
  deriving DecidableEq, Repr

inductive Step
  | new (i : Nat) (k : Kind) (d : Bytes)     -- bind name `i` to a new object
  | set (i : Nat) (d : Bytes)                -- overwrite in place (`buf[:] = d`); for `bytes`: rebind to a new equal-kind object
  | rmd (i : Nat)                            -- `pycoin.encoding.hash.ripemd160(buf).digest()`
  | h160 (i : Nat)                           -- `hash160(buf)`
  | dsha (i : Nat)                           -- `double_sha256(buf)`
  | contrib (i : Nat)                        -- `pycoin.contrib.ripemd160.ripemd160(buf)`
  | murmur (i : Nat) (seed : Int)            -- `murmur3(buf, seed)`
  | bnew (size nh tweak : Int)               -- `BloomFilter(size, nh, tweak)`
  | badd (i : Nat)                           -- `filter.add_item(buf)`
  | bfilter                                  -- `bytes(filter.filter_bytes)`
  | bcontains (i : Nat)                      -- all `check_bit`s of `buf`

inductive Out
  | unit | bytes (b : Bytes) | int (n : Int) | bool (b : Bool)
  deriving DecidableEq, Repr

abbrev Ans := Except PyErr Out

structure State where
  env : List (Nat × Buf)
  filter : Option Bloom.Filter

def getBuf (st : State) (i : Nat) : Except PyErr Buf :=
  match st.env.lookup i with
  | some b => .ok b
  | none => .error .keyError

/-- the digest functions, parametrised so that the same state machine can be run with the implementation models
(`implFns impl`) and with the standard functions (`specFns`) -/
structure Fns where
  rmd : Buf → Except PyErr Bytes
  h160 : Buf → Except PyErr Bytes
  contrib : Buf → Except PyErr Bytes

/-- the implementation as modelled: the pure-Python code computes `data[len(data) & ~63:] + pad`, which raises
`TypeError` for a `memoryview`; hashlib accepts every buffer -/
def implFns (impl : HashPy.Impl) : Fns where
  rmd b := if impl = .purePython ∧ b.kind = .memoryview then .error .typeError else HashPy.ripemd160 impl b.data
  h160 b := HashPy.hash160 impl b.data
  contrib b := if b.kind = .memoryview then .error .typeError else Ripemd160Py.ripemd160 b.data

/-- the standard digests of the contents -/
def specFns : Fns where
  rmd b := .ok (Hash.ripemd160 b.data)
  h160 b := .ok (Hash.hash160 b.data)
  contrib b := .ok (Hash.ripemd160 b.data)

def getFilter (st : State) : Except PyErr Bloom.Filter :=
  match st.filter with
  | some f => .ok f
  | none => .error .attributeError

/-- one step: the new state and the answer printed for it -/
def step (F : Fns) (st : State) : Step → State × Ans
  | .new i k d => ({ st with env := (i, ⟨k, d⟩) :: st.env }, .ok .unit)
  | .set i d =>
    match getBuf st i with
    | .ok b => ({ st with env := (i, ⟨b.kind, d⟩) :: st.env }, .ok .unit)
    | .error e => (st, .error e)
  | .rmd i => (st, do let b ← getBuf st i; pure (.bytes (← F.rmd b)))
  | .h160 i => (st, do let b ← getBuf st i; pure (.bytes (← F.h160 b)))
  | .dsha i => (st, do let b ← getBuf st i; pure (.bytes (HashPy.doubleSha256 b.data)))
  | .contrib i => (st, do let b ← getBuf st i; pure (.bytes (← F.contrib b)))
  | .murmur i seed => (st, do let b ← getBuf st i; pure (.int (← Murmur3Py.murmur3 b.data seed)))
  | .bnew size nh tweak =>
    match Bloom.new size nh tweak with
    | .ok f => ({ st with filter := some f }, .ok .unit)
    | .error e => (st, .error e)
  | .badd i =>
    match (do let f ← getFilter st; let b ← getBuf st i; Bloom.addItem f b.data : Except PyErr Bloom.Filter) with
    | .ok f => ({ st with filter := some f }, .ok .unit)
    | .error e => (st, .error e)
  | .bfilter => (st, do let f ← getFilter st; pure (.bytes f.filterBytes))
  | .bcontains i => (st, do let f ← getFilter st; let b ← getBuf st i; pure (.bool (← Bloom.matchesPy f b.data)))

/-- the answers of a whole history -/
def exec (F : Fns) : State → List Step → List Ans
  | _, [] => []
  | st, s :: rest => (step F st s).2 :: exec F (step F st s).1 rest

def empty : State := ⟨[], none⟩

end Pycoin.HashHistory
