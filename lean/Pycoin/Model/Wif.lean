import Pycoin.Model.KeyCtor
/-!
C10 — model of `Key.wif`, `network.wif_for_blob` (`pycoin/networks/bitcoinish.py`) and `ParseAPI.wif`
(`pycoin/networks/ParseAPI.py`, with `parse_b58_hashed`: `parseable_str.parse_b58_double_sha256`, or on the
Groestlcoin family `GRSParseAPI.parse_b58_hashed` = `parse_b58_groestl`) and of the Groestlcoin symbol files' own
`wif_for_blob` (`b2a_hashed_base58_grs(_wif_prefix + blob)`).

The checksum hash is the network's: `Network.hashWif` on the producing side, `Network.hashParse` on the parsing side
(both found by probing, `translate/gen_networks.py`); see `Model/Base58Hash.lean`.
-/
namespace Pycoin.Wif
open Pycoin.Sec Pycoin.KeyCtor
open Pycoin.Curve (CurveParams)
open Pycoin.Addr (Network)

/-- `network.wif_for_blob(blob)`: `b2a_hashed_base58[_grs](_wif_prefix + blob)`; `None + blob` is a `TypeError` -/
def wifForBlob (net : Network) (blob : Bytes) : Except Sec.Err Bytes :=
  match net.outWif with
  | none => .error .typeError
  | some pfx => liftB58 (Base58.b2aHashedK net.hashWif (pfx ++ blob))

/-- `key.wif(is_compressed)`; `.ok none` is `None` (no secret exponent) -/
def Key.wif (net : Network) (k : Key) (isCompressed : Option Bool) : Except Sec.Err (Option Bytes) :=
  match k.se with
  | none => .ok none
  | some d =>
    match toBytes32 d with
    | .error e => .error e
    | .ok blob =>
      (wifForBlob net (if isCompressed.getD k.compressed then blob ++ [1] else blob)).map some

/-- `network.parse.wif(s)`; `.ok none` is `None`; `mul` computes `secret_exponent * generator` -/
def parseWifWith (c : CurveParams) (mul : Int → Except Curve.Err Curve.Pt) (net : Network) (s : Bytes) :
    Except Sec.Err (Option Key) :=
  match Base58.parseB58HashedK net.hashParse s, net.parseWif with
  | some data, some pfx =>
    if pfx.isPrefixOf data then
      let data := data.drop pfx.length
      let build (blob : Bytes) (comp : Bool) : Except Sec.Err (Option Key) :=
        match keyFromSecretWith c mul (fromBytes32 blob) comp with
        | .ok k => .ok (some k)
        | .error e => if e.isValueError then .ok none else .error e     -- `except ValueError: return None`
      if data.length = 33 ∧ data.drop 32 = [1] then build (data.take 32) true
      else if data.length = 32 then build data false
      else .ok none
    else .ok none
  | _, _ => .ok none

/-- `network.parse.wif(s)` with `Generator.__mul__` (blinding factor `bf`) -/
def parseWif (c : CurveParams) (bf : Int) (net : Network) (s : Bytes) : Except Sec.Err (Option Key) :=
  parseWifWith c (Curve.mulG c bf) net s

end Pycoin.Wif
