import Pycoin.Model.NetworkDef
import Pycoin.Gen.Networks
/-!
C08 — model of `pycoin/networks/AddressAPI.py`, `ContractAPI.py`, `Contract.py`, the address half of
`ParseAPI.py`, and the pieces of `vm/ScriptTools.py` / `vm/ScriptStreamer.py` they run through
(`compile`, `compile_expression`, `compile_push_data`, `get_opcode`).

The codecs (Base58Check, Bech32/Bech32m) and hashes are *parameters* (`Env`): the theorems of `Props/C08.lean` are
generic in them, with the C11 round-trip facts as hypotheses; the driver instantiates them with the real models.
Import-free apart from the generated table.
-/
namespace Pycoin.Addr
open Pycoin.Gen.Networks

/-- exceptions that can leave the modelled functions; printed as the Python class name -/
inductive Err
  | keyError | typeError | valueError | syntaxError | indexError | assertionError | structError | attributeError
  | invalidSecretExponent | invalidPublicPair | noSuchPoint | encodingError | overflowError
  | fuel          -- never taken: the loop bound of the model was too small (a model bug, not a Python exception)
  | unsupported   -- Groestl-hashed Base58: no model (and `groestlcoin_hash` is not installed in the sandbox)
  deriving DecidableEq, Repr

def Err.tag : Err → String
  | .keyError => "KeyError" | .typeError => "TypeError" | .valueError => "ValueError"
  | .syntaxError => "SyntaxError" | .indexError => "IndexError" | .assertionError => "AssertionError"
  | .structError => "error" | .attributeError => "AttributeError"
  | .invalidSecretExponent => "InvalidSecretExponentError" | .invalidPublicPair => "InvalidPublicPairError"
  | .noSuchPoint => "NoSuchPointError" | .encodingError => "EncodingError" | .overflowError => "OverflowError"
  | .fuel => "MODEL-FUEL" | .unsupported => "UNSUPPORTED"

inductive BechSpec | bech32 | bech32m
  deriving DecidableEq, Repr

/-- the functions this model does not define itself -/
structure Env where
  /-- `b2a_hashed_base58` (`.sha256d`) / the Groestlcoin symbol files' `b2a_hashed_base58_grs` (`.groestl`) -/
  b58cEnc : HashKind → Bytes → String
  /-- `parseable_str.parse_b58_double_sha256` / `coins/groestlcoin/parse.py:parse_b58_groestl`: `None` for every
  failure, and for empty decoded data -/
  b58cDec : HashKind → String → Option Bytes
  /-- `bech32m.encode(hrp, witver, witprog)` (`None` when the self-check fails) -/
  segwitEnc : String → Nat → Bytes → Option String
  /-- `parseable_str.parse_bech32`: `(hrp, version, decoded_data, spec)` -/
  bech32Parse : String → Option (String × Nat × Bytes × BechSpec)
  hash160 : Bytes → Bytes
  sha256 : Bytes → Bytes

/-! ## script streamer (`vm/ScriptStreamer.py`), over the generated opcode lists -/

def lookupNat {β} (l : List (Nat × β)) (k : Nat) : Option β := (l.find? (·.1 = k)).map (·.2)

/-- `ScriptStreamer.get_opcode(script, pc)` → `(opcode, data, new_pc)`; `none` = `IndexError` (`pc` past the end).
The decoder dict is filled with the variable handlers, then updated with the sized ones, then with the constant ones. -/
def getOpcode (script : Bytes) (pc : Nat) : Option (Nat × Option Bytes × Nat) :=
  match script[pc]? with
  | none => none
  | some b =>
    let opcode := b.toNat
    match lookupNat constDecoder opcode with
    | some data => some (opcode, some data, pc + 1)
    | none =>
      match lookupNat sizedOpcodes opcode with
      | some size =>
        let data := slice script (pc + 1) (pc + 1 + size)
        if data.length < size then some (opcode, none, pc + 2) else some (opcode, some data, pc + 1 + size)
      | none =>
        match lookupNat variableOpcodes opcode with
        | some (_max, w) =>
          let lenField := slice script (pc + 1) (pc + 1 + w)
          -- `struct.unpack` on a short slice raises; the decoder then answers `(0, pc)`
          let size := if lenField.length = w then leNat lenField else 0
          let pc' := if lenField.length = w then pc + 1 + w else pc + 1
          let data := slice script pc' (pc' + size)
          if data.length < size then some (opcode, none, pc' + 1) else some (opcode, some data, pc' + size)
        | none => some (opcode, none, pc + 1)

/-- `ScriptStreamer.compile_push_data(data)`; `none` = `struct.error` (no variable opcode can hold the length) -/
def compilePush (data : Bytes) : Option Bytes :=
  match (constEncoder.find? (·.1 = data)).map (·.2) with
  | some op => some [UInt8.ofNat op]
  | none =>
    match lookupNat sizedEncoder data.length with
    | some op => some (UInt8.ofNat op :: data)
    | none =>
      match variableOpcodes.find? (fun e => data.length ≤ e.2.1) with
      | some (op, _, w) => some (UInt8.ofNat op :: leBytes data.length w ++ data)
      | none => none

/-- `IntStreamer.int_to_script_bytes` for a non-negative value (`while v >= 256` loop as little-endian digits) -/
def natToLE (v : Nat) : Bytes :=
  if h : v < 256 then [UInt8.ofNat v] else UInt8.ofNat (v % 256) :: natToLE (v / 256)
decreasing_by omega

def intToScriptBytes (v : Int) : Bytes :=
  if v = 0 then []
  else
    let ba := natToLE v.natAbs
    match ba.getLast? with
    | none => []
    | some last =>
      if last.toNat ≥ 128 then ba ++ [if v < 0 then 0x80 else 0]
      else if v < 0 then ba.dropLast ++ [last ||| 0x80]
      else ba

/-! ## `ScriptTools.compile` -/

def opcodeByName (name : String) : Option Nat := (opcodeToInt.find? (·.1 = name)).map (·.2)

def upperAscii (s : String) : String := String.ofList (s.toList.map Char.toUpper)

/-- Python `int(t)` on a token without white space: optional sign, ASCII digits, single underscores between digits.
(Unicode decimal digits, which Python also accepts, are outside the model: the harness keeps them out of the
correspondence stream.)  More than 4300 digits: `ValueError`, i.e. `none`. -/
def pyIntDigits : List Char → Bool → Nat → Nat → Option Nat
  -- (remaining, previous char was a digit, accumulated value, digit count)
  | [], prevDigit, acc, cnt => if prevDigit ∧ cnt ≤ 4300 then some acc else none
  | c :: cs, prevDigit, acc, cnt =>
    if c.isDigit then pyIntDigits cs true (acc * 10 + (c.toNat - 48)) (cnt + 1)
    else if c = '_' ∧ prevDigit ∧ !cs.isEmpty then
      match cs with
      | d :: _ => if d.isDigit then pyIntDigits cs false acc cnt else none
      | [] => none
    else none

def pyInt (t : String) : Option Int :=
  match t.toList with
  | '-' :: cs => Option.map (fun n : Nat => -(n : Int)) (pyIntDigits cs false 0 0)
  | '+' :: cs => Option.map (fun n : Nat => (n : Int)) (pyIntDigits cs false 0 0)
  | cs => Option.map (fun n : Nat => (n : Int)) (pyIntDigits cs false 0 0)

/-- `binascii.unhexlify` of a `str` -/
def unhexlify (cs : List Char) : Option Bytes := Hex.decodeChars cs

/-- the `int(t)` branch of `compile_expression`: taken for a decimal literal of magnitude below 2^64 not starting with `0` -/
def decimalLiteral (t : String) : Option Bytes :=
  match pyInt t with
  | some t0 => if t0.natAbs ≤ 0xFFFFFFFFFFFFFFFF ∧ t.toList.head? ≠ some '0' then some (intToScriptBytes t0) else none
  | none => none

/-- `ScriptTools.compile_expression(t)` for a non-empty token -/
def compileExpression (t : String) : Except Err Bytes :=
  if t.toList.head? = some '[' ∧ t.toList.getLast? = some ']' then
    match unhexlify (t.toList.drop 1).dropLast with
    | some b => .ok b
    | none => .error .valueError            -- binascii.Error is a ValueError
  else if t.toList.head? = some '\'' ∧ t.toList.getLast? = some '\'' then
    .ok (String.ofList (t.toList.drop 1).dropLast).toUTF8.toList
  else
    match decimalLiteral t with
    | some b => .ok b
    | none =>
      match unhexlify t.toList with
      | some b => .ok b
      | none => .error .syntaxError

/-- one token of `ScriptTools.compile(s)`: the bytes it writes -/
def compileToken (t : String) : Except Err Bytes :=
  let tUp := upperAscii t
  if (opcodeByName tUp).isSome then
    match opcodeByName t with                      -- `self.opcode_to_int[t]`, not `t_up`
    | some v => .ok [UInt8.ofNat v]
    | none => .error .keyError
  else if (opcodeByName ("OP_" ++ tUp)).isSome then
    match opcodeByName ("OP_" ++ t) with
    | some v => .ok [UInt8.ofNat v]
    | none => .error .keyError
  else if tUp.toList.take 2 = ['0', 'X'] then
    match unhexlify (t.toList.drop 2) with
    | some b => .ok b
    | none => .error .valueError
  else do
    let v ← compileExpression t
    match compilePush v with
    | some b => .ok b
    | none => .error .structError

def compileTokens : List String → Except Err Bytes
  | [] => .ok []
  | t :: ts => do
    let a ← compileToken t
    let b ← compileTokens ts
    pure (a ++ b)

/-- characters `str.split()` treats as separators (`str.isspace`) -/
def pyIsSpace (c : Char) : Bool :=
  let n := c.toNat
  (9 ≤ n ∧ n ≤ 13) ∨ (28 ≤ n ∧ n ≤ 32) ∨ n = 0x85 ∨ n = 0xa0 ∨ n = 0x1680 ∨ (0x2000 ≤ n ∧ n ≤ 0x200a) ∨
  n = 0x2028 ∨ n = 0x2029 ∨ n = 0x202f ∨ n = 0x205f ∨ n = 0x3000

def pySplitAux : List Char → List Char → List String → List String
  | [], cur, acc => (if cur.isEmpty then acc else String.ofList cur.reverse :: acc).reverse
  | c :: cs, cur, acc =>
    if pyIsSpace c then pySplitAux cs [] (if cur.isEmpty then acc else String.ofList cur.reverse :: acc)
    else pySplitAux cs (c :: cur) acc

/-- `s.split()` -/
def pySplit (s : String) : List String := pySplitAux s.toList [] []

/-- `ScriptTools.compile(s)` -/
def compileText (s : String) : Except Err Bytes := compileTokens (pySplit s)

/-- `b2h` -/
def b2h (b : Bytes) : String := String.ofList (Hex.encodeChars b)

/-! ## `ContractAPI` -/

/-- the `script_info` dicts `info_for_script` can return / `for_info` accepts -/
inductive Info
  | p2pkh (hash160 : Bytes)
  | p2pkhWit (hash160 : Bytes)
  | p2shWit (hash256 : Bytes)
  | p2sh (hash160 : Bytes)
  | p2pk (sec : Bytes)
  | p2tr (syntheticKey : Bytes)
  | nulldata (data : Bytes)
  | multisig (m : Nat) (secKeys : List Bytes)
  | unknown (script : Bytes)
  deriving DecidableEq, Repr

def Info.typeName : Info → String
  | .p2pkh _ => "p2pkh" | .p2pkhWit _ => "p2pkh_wit" | .p2shWit _ => "p2sh_wit" | .p2sh _ => "p2sh"
  | .p2pk _ => "p2pk" | .p2tr _ => "p2tr" | .nulldata _ => "nulldata" | .multisig _ _ => "multisig"
  | .unknown _ => "unknown"

/-- `info.get(name)` for the byte-valued fields -/
def Info.field : Info → String → Option Bytes
  | .p2pkh h, "hash160" => some h
  | .p2pkhWit h, "hash160" => some h
  | .p2shWit h, "hash256" => some h
  | .p2sh h, "hash160" => some h
  | .p2pk s, "sec" => some s
  | .p2tr k, "synthetic_key" => some k
  | _, _ => none

/-- the tokens `str.split()` finds in the text `_SCRIPT_LOOKUP[type](info)` builds: hex of empty data vanishes -/
def tokText (info : Info) : Tok → Except Err (List String)
  | .lit t => .ok [t]
  | .field name =>
    match info.field name with
    | some d => .ok (if d.isEmpty then [] else [b2h d])
    | none => .error .typeError            -- `b2h(None)`
  | .keys =>
    match info with
    | .multisig _ ks => .ok ((ks.filter (fun k => !k.isEmpty)).map b2h)
    | _ => .error .typeError
  | .m => match info with | .multisig m _ => .ok [toString m] | _ => .error .typeError
  | .n => match info with | .multisig _ ks => .ok [toString ks.length] | _ => .error .typeError

def tokTexts (info : Info) : List Tok → Except Err (List String)
  | [] => .ok []
  | t :: ts => do
    let a ← tokText info t
    let b ← tokTexts info ts
    pure (a ++ b)

/-- `ContractAPI._SCRIPT_LOOKUP[type]` -/
def shapeOf (typeName : String) : Option (List Tok) := (scriptLookup.find? (·.1 = typeName)).map (·.2)

/-- the text branch of `for_info`: build the tokens, compile them -/
def forInfoText (info : Info) : Except Err Bytes :=
  match shapeOf info.typeName with
  | none => .error .keyError
  | some shape => do
    let toks ← tokTexts info shape
    compileTokens toks

/-- `ContractAPI.for_info(info)` -/
def forInfo (info : Info) : Except Err Bytes :=
  match info with
  | .nulldata d => do
    let r ← compileToken "OP_RETURN"
    pure (r ++ d)
  | .unknown s => .ok s
  | _ => forInfoText info

inductive Slot | pubkey | pubkeyhash | segwit | data | synthetic
  deriving DecidableEq, Repr

/-- bytes of an ASCII literal (`b"PUBKEY"`) -/
def asciiBytes (s : String) : Bytes := s.toList.map (fun c => UInt8.ofNat c.toNat)

/-- which placeholder the data of a template instruction is (`data2 == b"PUBKEY"` …) -/
def slotOf (d2 : Option Bytes) : Option Slot :=
  if d2 = some (asciiBytes "PUBKEY") then some .pubkey
  else if d2 = some (asciiBytes "PUBKEYHASH") then some .pubkeyhash
  else if d2 = some (asciiBytes "SEGWIT") then some .segwit
  else if d2 = some (asciiBytes "DATA") then some .data
  else if d2 = some (asciiBytes "SYNTHETIC_KEY") then some .synthetic
  else none

/-- length test of each placeholder (`DATA` has none) -/
def slotOk (s : Slot) (l1 : Nat) : Bool :=
  match s with
  | .pubkey => !(l1 < 33 ∨ l1 > 120)
  | .pubkeyhash => l1 = 20
  | .segwit => l1 = 32 ∨ l1 = 20
  | .data => true
  | .synthetic => l1 = 32

abbrev MatchRes := List (Slot × Option Bytes)

/-- the `while 1` loop of `ContractAPI.match`; every round moves `pc1` forward, so `script.length + 1` rounds suffice -/
def matchLoop (tpl script : Bytes) : Nat → Nat → Nat → MatchRes → Except Err (Option MatchRes)
  | 0, _, _, _ => .error .fuel
  | fuel + 1, pc1, pc2, r =>
    if pc1 = script.length ∧ pc2 = tpl.length then .ok (some r)
    else if pc1 ≥ script.length ∨ pc2 ≥ tpl.length then .ok none
    else
      match getOpcode script pc1, getOpcode tpl pc2 with
      | some (op1, d1, pc1'), some (op2, d2, pc2') =>
        let l1 := match d1 with | none => 0 | some d => d.length
        match slotOf d2 with
        | some s =>
          if slotOk s l1 then matchLoop tpl script fuel pc1' pc2' (r ++ [(s, d1)]) else .ok none
        | none =>
          if (op1, d1) ≠ (op2, d2) then .ok none else matchLoop tpl script fuel pc1' pc2' r
      | _, _ => .error .indexError

/-- `ContractAPI.match(template, script)` with the template already compiled (generated) -/
def «match» (tpl script : Bytes) : Except Err (Option MatchRes) :=
  matchLoop tpl script (script.length + 1) 0 0 []

/-- `d["X_LIST"][0]` -/
def firstOf (r : MatchRes) (s : Slot) : Except Err Bytes :=
  match r.find? (·.1 = s) with
  | some (_, some d) => .ok d
  | some (_, none) => .error .typeError
  | none => .error .indexError

/-- the key loop of `_info_from_multisig_script`: returns `(opcode that ended the loop, pc after it, keys)`;
`none` when the script ran out (`pc >= len(script)` after the loop) -/
def multisigKeys (script : Bytes) : Nat → Nat → List Bytes → Except Err (Option (Nat × Nat × List Bytes))
  | 0, _, _ => .error .fuel
  | fuel + 1, pc, keys =>
    if pc < script.length then
      match getOpcode script pc with
      | none => .error .indexError
      | some (op, d, pc') =>
        let size := match d with | none => 0 | some d => d.length
        if size < 33 ∨ size > 120 then
          -- `break`: then `if pc >= len(script): return None`
          if pc' ≥ script.length then .ok none else .ok (some (op, pc', keys))
        else
          match d with
          | some d => multisigKeys script fuel pc' (keys ++ [d])
          | none => .error .typeError
    else
      .ok none    -- loop condition failed: `pc >= len(script)` holds

/-- `ContractAPI._info_from_multisig_script` -/
def infoFromMultisig (script : Bytes) : Except Err (Option Info) :=
  if script.length = 0 then .ok none
  else
    match getOpcode script 0 with
    | none => .error .indexError
    | some (op, _, pc) =>
      if ¬ (op1 ≤ op ∧ op < op16) then .ok none
      else
        let m : Int := (op : Int) + (1 - (op1 : Int))
        match multisigKeys script (script.length + 1) pc [] with
        | .error e => .error e
        | .ok none => .ok none
        | .ok (some (opN, pc, keys)) =>
          let n : Int := (opN : Int) + (1 - (op1 : Int))
          if m > n ∨ (keys.length : Int) ≠ n then .ok none
          else
            match getOpcode script pc with
            | none => .error .indexError
            | some (opC, _, pc) =>
              if opC ≠ opCheckMultisig then .ok none
              else if pc ≠ script.length then .ok none
              else .ok (some (.multisig m.toNat keys))

/-- `ContractAPI._classify_script` -/
def classify (script : Bytes) : Except Err Info := do
  match ← «match» template0 script with
  | some d@(_ :: _) => return .p2pkh (← firstOf d .pubkeyhash)
  | _ => pure ()
  match ← «match» template1 script with
  | some d@(_ :: _) =>
    let data ← firstOf d .segwit
    if data.length = 20 then return .p2pkhWit data
    if data.length = 32 then return .p2shWit data
  | _ => pure ()
  match ← «match» template2 script with
  | some d@(_ :: _) => return .p2sh (← firstOf d .pubkeyhash)
  | _ => pure ()
  match ← «match» template3 script with
  | some d@(_ :: _) => return .p2pk (← firstOf d .pubkey)
  | _ => pure ()
  match ← «match» template4 script with
  | some d@(_ :: _) =>
    let k ← firstOf d .synthetic
    if k.length = 32 then return .p2tr k
  | _ => pure ()
  let r ← compileToken "OP_RETURN"
  if r = script.take 1 then return .nulldata (script.drop 1)
  match ← infoFromMultisig script with
  | some i => return i
  | none => pure ()
  return .unknown script

/-- `ContractAPI.info_for_script(script)`: the classification is kept only if `for_info` rebuilds the same bytes -/
def infoForScript (script : Bytes) : Except Err Info := do
  let info ← classify script
  let rebuilt ← forInfo info
  if rebuilt ≠ script then pure (.unknown script) else pure info

/-! ## `AddressAPI` -/

/-- result of an address-producing call: Python `str | None` -/
abbrev AddrOut := Except Err (Option String)

def b58Out (env : Env) (net : Network) (pfx : Option Bytes) (payload : Bytes) : AddrOut :=
  match pfx with
  | none => .ok none
  | some p => .ok (some (env.b58cEnc net.hashAddr (p ++ payload)))

def forP2pkh (env : Env) (net : Network) (h : Bytes) : AddrOut := b58Out env net net.addrP2pkh h
def forP2sh (env : Env) (net : Network) (h : Bytes) : AddrOut := b58Out env net net.addrP2sh h

def forP2pkhWit (env : Env) (net : Network) (h : Bytes) : AddrOut :=
  match net.addrHrp with
  | none => .ok none
  | some hrp => if h.length ≠ 20 then .error .assertionError else .ok (env.segwitEnc hrp 0 h)

def forP2shWit (env : Env) (net : Network) (h : Bytes) : AddrOut :=
  match net.addrHrp with
  | none => .ok none
  | some hrp => if h.length ≠ 32 then .error .assertionError else .ok (env.segwitEnc hrp 0 h)

def forP2tr (env : Env) (net : Network) (k : Bytes) : AddrOut :=
  match net.addrHrp with
  | none => .ok none
  | some hrp => .ok (env.segwitEnc hrp 1 k)

/-- `AddressAPI.for_script_info` -/
def forScriptInfo (env : Env) (net : Network) : Info → AddrOut
  | .p2pkh h => forP2pkh env net h
  | .p2pkhWit h => forP2pkhWit env net h
  | .p2shWit h => forP2shWit env net h
  | .p2pk sec => forP2pkh env net (env.hash160 sec)
  | .p2sh h => forP2sh env net h
  | .p2tr k => forP2tr env net k
  | .nulldata d => .ok (some ("(nulldata " ++ b2h d ++ ")"))
  | _ => .ok (some "???")

/-- `AddressAPI.for_script` -/
def forScript (env : Env) (net : Network) (script : Bytes) : AddrOut := do
  let info ← infoForScript script
  forScriptInfo env net info

def forP2s (env : Env) (net : Network) (script : Bytes) : AddrOut := forP2sh env net (env.hash160 script)
def forP2sWit (env : Env) (net : Network) (script : Bytes) : AddrOut := forP2shWit env net (env.sha256 script)

/-! ## `ParseAPI`: the address parsers -/

/-- `ParseAPI.parse_b58_hashed` (`GRSParseAPI` overrides it with the Groestl checksum): the network's parse-side
checksum hash, `Network.hashParse` -/
def parseB58Hashed (env : Env) (net : Network) (s : String) : Option Bytes :=
  env.b58cDec net.hashParse s

def isPrefixOf (p d : Bytes) : Bool := d.take p.length = p

/-- a parsed `Contract` is its `script_info` -/
abbrev ParseOut := Except Err (Option Info)

/-- shared body of `ParseAPI.p2pkh` / `p2sh` -/
def parseB58Addr (env : Env) (net : Network) (pfx : Option Bytes) (mk : Bytes → Info) (s : String) : ParseOut :=
  match parseB58Hashed env net s, pfx with
  | some data, some p =>
    if !isPrefixOf p data then .ok none
    else if data.length ≠ p.length + 20 then .ok none
    else do
      let script ← forInfo (mk (data.drop p.length))
      let info ← infoForScript script
      pure (some info)
  | _, _ => .ok none

def parseP2pkh (env : Env) (net : Network) (s : String) : ParseOut := parseB58Addr env net net.parseP2pkh .p2pkh s
def parseP2sh (env : Env) (net : Network) (s : String) : ParseOut := parseB58Addr env net net.parseP2sh .p2sh s

/-- `ParseAPI._bech32m(s, expected_version, blob_len, segwit_attr)` -/
def parseBech32m (env : Env) (net : Network) (s : String) (expectedVersion blobLen : Nat) (mk : Bytes → Info) : ParseOut :=
  match env.bech32Parse s with
  | none => .ok none
  | some (hrp, version, decoded, spec) =>
    if some hrp ≠ net.parseHrp then .ok none
    else if decoded.length ≠ blobLen then .ok none
    else if expectedVersion ≠ version then .ok none
    else if version = 0 ∧ spec ≠ .bech32 then .ok none
    else if version ≠ 0 ∧ spec ≠ .bech32m then .ok none
    else do
      let script ← forInfo (mk decoded)
      let info ← infoForScript script
      pure (some info)

def parseP2pkhSegwit (env : Env) (net : Network) (s : String) : ParseOut := parseBech32m env net s 0 20 .p2pkhWit
def parseP2shSegwit (env : Env) (net : Network) (s : String) : ParseOut := parseBech32m env net s 0 32 .p2shWit
def parseP2tr (env : Env) (net : Network) (s : String) : ParseOut := parseBech32m env net s 1 32 .p2tr

/-- `a or b` on parser results: a `Contract` is always truthy -/
def orElse (a : ParseOut) (b : Unit → ParseOut) : ParseOut :=
  match a with
  | .error e => .error e
  | .ok (some i) => .ok (some i)
  | .ok none => b ()

/-- `ParseAPI.address` (replaced by `none_parser` on the Groestlcoin networks when the hash library is missing) -/
def parseAddress (env : Env) (net : Network) (s : String) : ParseOut :=
  if net.disabled.contains "address" then .ok none
  else
    orElse (parseP2pkh env net s) fun _ =>
    orElse (parseP2sh env net s) fun _ =>
    orElse (parseP2pkhSegwit env net s) fun _ =>
    orElse (parseP2shSegwit env net s) fun _ =>
    parseP2tr env net s

/-- `Contract.script()` -/
def contractScript (i : Info) : Except Err Bytes := forInfo i
/-- `Contract.address()` -/
def contractAddress (env : Env) (net : Network) (i : Info) : AddrOut := forScriptInfo env net i

/-- `ContractAPI.for_address` -/
def forAddress (env : Env) (net : Network) (s : String) : Except Err (Option Bytes) := do
  match ← parseAddress env net s with
  | some i => pure (some (← forInfo i))
  | none => pure none

/-- `Key.address(is_compressed)` given the SEC encoding the key produces -/
def keyAddress (env : Env) (net : Network) (sec : Bytes) : AddrOut := forP2pkh env net (env.hash160 sec)
/-- `BIP49Node.address` -/
def bip49Address (env : Env) (net : Network) (sec : Bytes) : AddrOut := do
  let script ← forInfo (.p2pkhWit (env.hash160 sec))
  forP2s env net script
/-- `BIP84Node.address` -/
def bip84Address (env : Env) (net : Network) (sec : Bytes) : AddrOut := forP2pkhWit env net (env.hash160 sec)

/-! ## one `parseable_str` object handed to several parsers in turn

`parseable_str(s)` returns `s` itself when it already is one, so when the same object goes through several networks'
parsers they share one `_cache` dict.  The code keys the entries by *decoder* only (`"b58_double_sha256"`, `"bech32"`, …:
the C11 model `Model/ParseableStr.lean` has that dict as explicit state and proves it transparent,
`C11_pstr_cache_transparent`); no entry depends on the network that asked.  Here the two decoder slots the address and
key parsers read are the state, and a parser run on the shared object sees the decoders *through* them.

Which slots a call fills depends on which decoders it reached; the model fills both after every call.  That is an
over-approximation of the dict's key set only: a filled slot holds the decoder's own answer (`PsCache.Ok`), so the
answers — all that is observable — do not depend on it. -/

structure PsCache where
  /-- `_cache["b58_double_sha256"]` / `_cache["b58_groestl"]` (one key per checksum hash), if present -/
  b58 : HashKind → Option (Option Bytes)
  /-- `_cache["bech32"]`, if present -/
  bech : Option (Option (String × Nat × Bytes × BechSpec))

def PsCache.empty : PsCache := ⟨fun _ => none, none⟩

/-- the decoders as a parser sees them on the shared object `text` -/
def cachedEnv (env : Env) (text : String) (c : PsCache) : Env :=
  { env with
    b58cDec := fun k s => if s = text then (match c.b58 k with | some v => v | none => env.b58cDec k s) else env.b58cDec k s
    bech32Parse := fun s => if s = text then (match c.bech with | some v => v | none => env.bech32Parse s) else env.bech32Parse s }

/-- the dict after a call: an absent slot is computed by the decoder, a present one is left alone -/
def PsCache.fill (env : Env) (text : String) (c : PsCache) : PsCache :=
  ⟨fun k => some (match c.b58 k with | some v => v | none => env.b58cDec k text),
   some (match c.bech with | some v => v | none => env.bech32Parse text)⟩

/-- a list of parser calls (`step e σ` = the call described by `σ`, run with decoders `e`) on one shared object -/
def historyRun {σ α : Type} (env : Env) (text : String) (step : Env → σ → α) : PsCache → List σ → List α
  | _, [] => []
  | c, s :: ss => step (cachedEnv env text c) s :: historyRun env text step (c.fill env text) ss

/-- the address-family entry points by name -/
def parseAddrEntry (env : Env) (net : Network) (entry : String) (s : String) : Option ParseOut :=
  match entry with
  | "address" => some (parseAddress env net s)
  | "p2pkh" => some (parseP2pkh env net s)
  | "p2sh" => some (parseP2sh env net s)
  | "p2pkh_segwit" => some (parseP2pkhSegwit env net s)
  | "p2sh_segwit" => some (parseP2shSegwit env net s)
  | "p2tr" => some (parseP2tr env net s)
  | _ => none

/-! ## key objects over time: the `hash160` caches of `Key` and the copying methods

`Key.__init__` starts with `_hash160_compressed = _hash160_uncompressed = None`; `Key.hash160(is_compressed)` fills the
matching slot on first use and answers from it afterwards; `Key.public_copy()` returns `self` for a public key and a
*new* object (fresh slots, same compression flag) for a private one, and so do `BIP32Node.public_copy()` and its
subclasses.  The two SEC encodings of the key are parameters (they depend on the public pair only). -/

inductive KeyKind | key | bip32 | bip49 | bip84
  deriving DecidableEq, Repr

structure KeyState where
  isPrivate : Bool
  /-- `_is_compressed` (always true for the BIP32 family) -/
  compressed : Bool
  hashC : Option Bytes
  hashU : Option Bytes
  deriving DecidableEq, Repr

/-- `is_compressed` argument: `none` = not given -/
inductive KeyStep
  | hash160 (c : Option Bool)
  | fingerprint (c : Option Bool)
  | address (c : Option Bool)
  | sec (c : Option Bool)
  | publicCopy
  deriving DecidableEq, Repr

inductive KeyOut
  | bytes (b : Bytes)
  | addr (a : AddrOut)
  | unit

def freshKey (isPrivate compressed : Bool) : KeyState := ⟨isPrivate, compressed, none, none⟩

/-- `Key.hash160(is_compressed=c)` with `c` resolved: answer from the slot, filling it on first use -/
def keyHash160 (env : Env) (secC secU : Bytes) (st : KeyState) (c : Bool) : Bytes × KeyState :=
  if c then
    match st.hashC with
    | some h => (h, st)
    | none => (env.hash160 secC, { st with hashC := some (env.hash160 secC) })
  else
    match st.hashU with
    | some h => (h, st)
    | none => (env.hash160 secU, { st with hashU := some (env.hash160 secU) })

/-- the address a key class derives from the hash of its SEC -/
def kindAddress (env : Env) (net : Network) (kind : KeyKind) (h : Bytes) : AddrOut :=
  match kind with
  | .key => forP2pkh env net h
  | .bip32 => forP2pkh env net h
  | .bip84 => forP2pkhWit env net h
  | .bip49 => do
    let script ← forInfo (.p2pkhWit h)
    forP2s env net script

/-- how a missing `is_compressed` argument is resolved: `Key.hash160/fingerprint/address/sec` use the object's flag,
`BIP49Node.address` / `BIP84Node.address` default to `True` -/
def resolveFlag (kind : KeyKind) (st : KeyState) (forAddress : Bool) : Option Bool → Bool
  | some c => c
  | none => if forAddress ∧ (kind = .bip49 ∨ kind = .bip84) then true else st.compressed

/-- one method call on the key object: its answer and the object afterwards -/
def keyStep (env : Env) (net : Network) (kind : KeyKind) (secC secU : Bytes) (st : KeyState) : KeyStep → KeyOut × KeyState
  | .hash160 c => let r := keyHash160 env secC secU st (resolveFlag kind st false c); (.bytes r.1, r.2)
  | .fingerprint c => let r := keyHash160 env secC secU st (resolveFlag kind st false c); (.bytes (r.1.take 4), r.2)
  | .address c =>
    let r := keyHash160 env secC secU st (resolveFlag kind st true c)
    (.addr (kindAddress env net kind r.1), r.2)
  | .sec c => (.bytes (if resolveFlag kind st false c then secC else secU), st)
  | .publicCopy => (.unit, if st.isPrivate then freshKey false st.compressed else st)

def keyRun (env : Env) (net : Network) (kind : KeyKind) (secC secU : Bytes) : KeyState → List KeyStep → List KeyOut
  | _, [] => []
  | st, s :: ss => (keyStep env net kind secC secU st s).1 :: keyRun env net kind secC secU (keyStep env net kind secC secU st s).2 ss

/-- the same call answered without any cache -/
def keyStepFresh (env : Env) (net : Network) (kind : KeyKind) (secC secU : Bytes) (compressed : Bool) : KeyStep → KeyOut
  | .hash160 c => .bytes (env.hash160 (if resolveFlag kind (freshKey true compressed) false c then secC else secU))
  | .fingerprint c => .bytes ((env.hash160 (if resolveFlag kind (freshKey true compressed) false c then secC else secU)).take 4)
  | .address c =>
    .addr (kindAddress env net kind (env.hash160 (if resolveFlag kind (freshKey true compressed) true c then secC else secU)))
  | .sec c => .bytes (if resolveFlag kind (freshKey true compressed) false c then secC else secU)
  | .publicCopy => .unit

def findNet (name : String) : Option Network := all.find? (fun n => n.symbol = name ∨ n.module = name)

/-! ### the rest of `ContractAPI` / `Contract` / `registry` -/

/-- `ContractAPI.for_nulldata(data)` -/
def forNulldata (data : Bytes) : Except Err Bytes := forInfo (.nulldata data)

/-- `ContractAPI.for_nulldata_push(data)`: `compile("OP_RETURN [<hex>]")` — the data as ONE push -/
def forNulldataPush (data : Bytes) : Except Err Bytes := compileText ("OP_RETURN [" ++ b2h data ++ "]")

/-- `ContractAPI.for_p2s(underlying_script)` / `for_p2s_wit` -/
def contractForP2s (env : Env) (script : Bytes) : Except Err Bytes := forInfo (.p2sh (env.hash160 script))
def contractForP2sWit (env : Env) (script : Bytes) : Except Err Bytes := forInfo (.p2shWit (env.sha256 script))

/-- `Contract.override_network(other)`: `other.contract.new(self.info())` — the same info on the other network:
its `script()` and `address()` there -/
def overrideContract (env : Env) (other : Network) (i : Info) : Except Err Bytes × AddrOut :=
  (contractScript i, contractAddress env other i)

def lowerAscii (s : String) : String := String.ofList (s.toList.map Char.toLower)

/-- `registry.network_for_netcode(symbol)` with the default search path: the module `pycoin.symbols.<lower>` must
exist and its network's symbol, upper-cased, must be the upper-cased argument; otherwise `ValueError` (`none`) -/
def networkForNetcode (symbol : String) : Option Network :=
  all.find? fun n => n.module = lowerAscii symbol && upperAscii n.symbol = upperAscii symbol

/-- `registry.network_codes()`: one upper-cased symbol per module, in module order -/
def networkCodes : List String := all.map fun n => upperAscii n.symbol

end Pycoin.Addr
