import Pycoin.Py.Bytes
import Pycoin.Gen.P2PObjects
/-!
C16 — the helper objects of the message layer as objects: `pycoin/message/PeerAddress.py` (`__init__` with the
IPv4 embedding, `host`, `__eq__`, `__lt__` and what `functools.total_ordering` derives) and
`pycoin/message/InvItem.py` (`__init__` with the item-type assertion, `__eq__`, `__lt__`, `__hash__` as the key it
hashes).  Their wire codecs are in `Model/Message.lean`.
-/
namespace Pycoin.P2P
open Pycoin.Gen.P2PObjects (ip4Header checkedItemTypes)

/-- Python's `<` on `bytes`: first differing byte decides, a proper prefix is smaller -/
def bytesLt : Bytes → Bytes → Bool
  | [], [] => false
  | [], _ :: _ => true
  | _ :: _, [] => false
  | a :: as, b :: bs => if a < b then true else if b < a then false else bytesLt as bs

/-! ### PeerAddress -/

structure PeerAddress where
  services : Int
  ip : Bytes
  port : Int
  deriving DecidableEq, Repr

/-- `PeerAddress(services, ip_bin, port)`: a 4-byte address is embedded behind `IP4_HEADER`; `assert len(ip_bin) == 16` -/
def PeerAddress.new (services : Int) (ip : Bytes) (port : Int) : Option PeerAddress :=
  let ip := if ip.length = 4 then ip4Header ++ ip else ip
  if ip.length = 16 then some ⟨services, ip, port⟩ else none

def natToHex (n : Nat) : List Char := Nat.toDigits 16 n
def natToDec (n : Nat) : List Char := Nat.toDigits 10 n

def joinWith (sep : Char) : List (List Char) → List Char
  | [] => []
  | [p] => p
  | p :: ps => p ++ sep :: joinWith sep ps

/-- `struct.unpack(">HHHHHHHH", ip_bin)`: big-endian 16-bit words (pairs of bytes; a trailing odd byte cannot occur on 16 bytes) -/
def words16 : Bytes → List Nat
  | a :: b :: rest => (a.toNat * 256 + b.toNat) :: words16 rest
  | _ => []

/-- `ip_bin_to_ip6_addr` -/
def ip6Text (ip : Bytes) : List Char := joinWith ':' ((words16 ip).map natToHex)

/-- `ip_bin_to_ip4_addr`: `"%d.%d.%d.%d" % tuple(ip_bin[-4:])` -/
def ip4Text (ip : Bytes) : List Char := joinWith '.' ((ip.drop (ip.length - 4)).map fun b => natToDec b.toNat)

/-- `host()` -/
def PeerAddress.host (a : PeerAddress) : List Char :=
  if ip4Header.isPrefixOf a.ip then ip4Text (a.ip.drop (a.ip.length - 4)) else ip6Text a.ip

/-- `__eq__` against another `PeerAddress` -/
def PeerAddress.eq (a b : PeerAddress) : Bool := a.services == b.services && a.ip == b.ip && a.port == b.port

/-- `__lt__`: `(ip_bin, port, services) < (…)` — tuples compare by their first differing component -/
def PeerAddress.lt (a b : PeerAddress) : Bool :=
  if a.ip ≠ b.ip then bytesLt a.ip b.ip
  else if a.port ≠ b.port then a.port < b.port
  else a.services < b.services

/-! what `functools.total_ordering` derives from `__lt__` and `__eq__` (`__ne__` is the default `not __eq__`) -/
def leOf (lt eq : Bool) : Bool := lt || eq
def gtOf (lt eq : Bool) : Bool := !lt && !eq
def geOf (lt : Bool) : Bool := !lt

/-! ### InvItem -/

structure InvItem where
  itemType : Int
  data : Bytes
  deriving DecidableEq, Repr

/-- `InvItem(item_type, data, dont_check)`: the type assertion unless `dont_check`; `assert len(data) == 32` -/
def InvItem.new (itemType : Int) (data : Bytes) (dontCheck : Bool) : Option InvItem :=
  if !dontCheck && !checkedItemTypes.contains itemType then none
  else if data.length = 32 then some ⟨itemType, data⟩ else none

def InvItem.eq (a b : InvItem) : Bool := a.itemType == b.itemType && a.data == b.data

/-- `(item_type, data) < (…)` -/
def InvItem.lt (a b : InvItem) : Bool :=
  if a.itemType ≠ b.itemType then a.itemType < b.itemType else bytesLt a.data b.data

/-- `__hash__` hashes exactly this pair -/
def InvItem.hashKey (a : InvItem) : Int × Bytes := (a.itemType, a.data)

/-- `len({a, b})` -/
def setSize (eq : Bool) : Nat := if eq then 1 else 2

end Pycoin.P2P
