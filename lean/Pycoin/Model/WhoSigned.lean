import Pycoin.Model.Sign
/-!
C05 — model of `pycoin/contrib/who_signed.py` on the standard templates: `_handle_checksig`, `_handle_checkmultisig`,
`extract_signatures`, `public_pairs_for_script`, `public_pairs_signed` (of which `who_signed_tx` is the image under the
public-pair → P2PKH-address map).

`extract_secs_and_signatures` runs `check_solution` with a traceback hook that fires at `OP_CHECKSIG(VERIFY)` /
`OP_CHECKMULTISIG(VERIFY)`; for the standard templates there is at most one such operation, and `sigOpBlobs` says which blobs it
finds on the stack (or that evaluation stops before reaching it).  The digest of a signature blob is the closure of the checker
applied to `(sig_type, [sig_blob])` — a parameter here (C04's model in the driver).
-/
namespace Pycoin.Sign
open Pycoin Pycoin.Curve

/-- exceptions that escape `who_signed_tx` -/
inductive WErr
  | unexpectedDER           -- a blob in a signature position that is not lax DER: only `ValueError` is caught in the handlers
  | curve (e : Curve.Err)
  | unsupported             -- not a standard template / shape: outside the model
  deriving DecidableEq, Repr

def WErr.tag : WErr → String
  | .unexpectedDER => "UnexpectedDER"
  | .curve e => e.tag
  | .unsupported => "Unsupported"

/-- the `(sig_blob, sig_hash)` pairs of `_handle_checksig` / `_handle_checkmultisig`: `sig_hash` stays `0` when the blob is empty
(`ValueError`) or the digest function refuses the hash type (`ScriptError`, e.g. a hash type without the fork-id bit on a fork-id
coin — the placeholder has hash type 1) -/
def sigHashes (dig : Bytes → Nat → Option Int) : List Bytes → Except WErr (List (Bytes × Int))
  | [] => .ok []
  | b :: r =>
    match sigHashes dig r with
    | .error e => .error e
    | .ok rest =>
      if b = [] then .ok ((b, 0) :: rest)
      else
        match parseSignatureBlob b with
        | none => .error .unexpectedDER
        | some (_, t) =>
          match dig b t with
          | some z => .ok ((b, z) :: rest)
          | none => .ok ((b, 0) :: rest)

/-- the inner loop of `public_pairs_signed`: every public pair the signature verifies for -/
def verifiesFor (C : Crypto) (z r s : Int) (t : Nat) : List Pt → Except WErr (List (Pt × Nat))
  | [] => .ok []
  | Q :: rest =>
    match C.verify Q z r s with
    | .error e => .error (.curve e)
    | .ok b =>
      match verifiesFor C z r s t rest with
      | .error e => .error e
      | .ok l => .ok (if b then (Q, t) :: l else l)

/-- `public_pairs_signed` given the blobs of the signature operation: `(public_pair, sig_type)` for every good signature, in
the order of the signatures; blobs that do not parse are skipped (`extract_signatures`), keys that do not decode are skipped
(`public_pairs_for_script`) -/
def publicPairsSigned (C : Crypto) (secs : List Bytes) : List (Bytes × Int) → Except WErr (List (Pt × Nat))
  | [] => .ok []
  | (b, z) :: rest =>
    match parseSignatureBlob b with
    | none => publicPairsSigned C secs rest
    | some ((r, s), t) =>
      match verifiesFor C z r s t (secs.filterMap C.secToPair) with
      | .error e => .error e
      | .ok l =>
        match publicPairsSigned C secs rest with
        | .error e => .error e
        | .ok l' => .ok (l ++ l')

/-- `public_pairs_signed` on the blobs of one signature operation -/
def whoSignedBlobs (C : Crypto) (dig : Bytes → Nat → Option Int) (secs sigs : List Bytes) : Except WErr (List (Pt × Nat)) :=
  match sigHashes dig sigs with
  | .error e => .error e
  | .ok pairs => publicPairsSigned C secs pairs

/-- what the signature operation of a base template finds: `(secs, sigs)` top of stack first; `none` = evaluation stops before
the operation.  `stack` is bottom first. -/
def baseBlobs (code : Bytes) (stack : List Bytes) : Except WErr (Option (List Bytes × List Bytes)) :=
  match classify code with
  | none => .error .unsupported
  | some (.p2pk sec) => .ok (some ([sec], stack.reverse.take 1))
  | some (.p2pkh h) =>
    match stack.reverse with
    | [] => .ok none
    | key :: below => if Hash.hash160 key = h then .ok (some ([key], below.take 1)) else .ok none
  | some (.multisig m keys) => .ok (some (keys.reverse, stack.reverse.take m))

/-- the blobs the signature operation of input sees, with the script code and the kind of digest (`true` = BIP143) -/
def sigOpBlobs (puzzle script : Bytes) (witness : List Bytes) : Except WErr (Option ((List Bytes × List Bytes) × Bytes × Bool)) :=
  let witnessPart := fun (prog : Bytes) =>
    if prog.length = 32 then
      match witness.reverse with
      | [] => (.ok none : Except WErr (Option ((List Bytes × List Bytes) × Bytes × Bool)))
      | ws :: belowRev =>
        if Hash.sha256 ws = prog then
          match baseBlobs ws belowRev.reverse with
          | .error e => .error e
          | .ok r => .ok (r.map (fun x => (x, ws, true)))
        else .ok none
    else if prog.length = 20 then
      if witness.length = 2 then
        let code := [0x76, 0xa9, 0x14] ++ prog ++ [0x88, 0xac]
        match baseBlobs code witness with
        | .error e => .error e
        | .ok r => .ok (r.map (fun x => (x, code, true)))
      else .ok none
    else .error .unsupported
  match Script.getOpcodes script false 0 with
  | (_, some _) => .error .unsupported
  | (ops, none) =>
    let items := ops.filterMap (·.data)
    match scriptHashFromScript puzzle with
    | some h =>
      match items.reverse with
      | [] => .ok none
      | redeem :: belowRev =>
        if Hash.hash160 redeem = h then
          if isWitnessV0 redeem then witnessPart (redeem.drop 2)
          else
            match baseBlobs redeem belowRev.reverse with
            | .error e => .error e
            | .ok r => .ok (r.map (fun x => (x, redeem, false)))
        else .ok none
    | none =>
      if isWitnessV0 puzzle then witnessPart (puzzle.drop 2)
      else
        match baseBlobs puzzle items with
        | .error e => .error e
        | .ok r => .ok (r.map (fun x => (x, puzzle, false)))

/-- `public_pairs_signed(tx, tx_in_idx)` for a standard input; `sighash witness code blob hashType` is the checker's closure -/
def whoSignedInput (C : Crypto) (sighash : Bool → Bytes → Bytes → Nat → Option Int) (puzzle script : Bytes)
    (witness : List Bytes) : Except WErr (List (Pt × Nat)) :=
  match sigOpBlobs puzzle script witness with
  | .error e => .error e
  | .ok none => .ok []
  | .ok (some ((secs, sigs), code, wit)) => whoSignedBlobs C (sighash wit code) secs sigs

end Pycoin.Sign
