import Pycoin.Model.Wire
/-!
C14/C16 — vocabulary shared by the block model, the p2p message model and the generated table
`Gen/Messages.lean`: what a codec letter registered by `standard_parsing_functions` does, and the exceptions
that can leave `Block.parse` / `network.message.pack` / `network.message.parse`.
-/
namespace Pycoin.Msg

/-- the behaviour of one `(parse_f, stream_f)` pair of `standard_parsing_functions(Block, Tx)`; which letter has which
behaviour is *generated* (the translator probes the live functions).  The `…Raises` / `…AnyByte` / `…Trunc` variants are
behaviours the code had or can regress to; no round-trip law holds for them. -/
inductive Codec
  | prim (k : Wire.Kind)   -- an entry of `STREAMER_FUNCTIONS`, or the one-byte `struct` integer
  | int6                   -- `struct.unpack("<Q", f.read(6) + b"\0\0")`, `struct.pack("<Q", v)[:6]` refusing v ≥ 2^48
  | int6Trunc              -- the same without the range check: high bytes silently dropped
  | int6Raises             -- swapped `struct` arguments: streaming raises `TypeError`, parsing `struct.error`
  | optBool                -- absent ↦ None, present ↦ `struct.unpack("?")`; None ↦ nothing, else `struct.pack("B", v)`
  | optBoolAnyByte         -- absent ↦ False, any present byte ↦ True
  | peerAddress            -- `PeerAddress.parse` / `.stream`
  | invItem                -- `InvItem.parse` / `.stream`
  | tx                     -- `Tx.parse` / `tx.stream`
  | block                  -- `Block.parse` / `block.stream`
  | header                 -- `Block.parse_as_header` / `block.stream_header`
  | unknown                -- the probe did not recognise the pair
  deriving DecidableEq, Repr

/-- exceptions, by Python class -/
inductive Err
  | wire (e : Wire.Err)
  | assertionError         -- `assert len(data) == 32` in `InvItem.__init__`, `assert isinstance(..)` in the stream wrappers
  | indexError             -- `merkle([])`, `flags[idx]`, `hashes.pop()`, `type[0]` of an empty type
  | valueError             -- the merkleblock post-processor, `name, type = pair` unpacking
  | badMerkleRootError     -- `Block.check_merkle_hash`
  | keyError               -- unknown message name, missing keyword argument
  | typeError
  deriving DecidableEq, Repr

def Err.tag : Err → String
  | .wire e => e.tag
  | .assertionError => "AssertionError"
  | .indexError => "IndexError"
  | .valueError => "ValueError"
  | .badMerkleRootError => "BadMerkleRootError"
  | .keyError => "KeyError"
  | .typeError => "TypeError"

/-- lift a wire-level result -/
def liftW {α : Type} : Except Wire.Err α → Except Err α
  | .ok a => .ok a
  | .error e => .error (.wire e)

end Pycoin.Msg
