import Pycoin.Model.Murmur3Py
/-!
C19 — model of `pycoin/bloomfilter.py:BloomFilter` (`__init__`, `add_item`, `add_hash160`,
`add_spendable`, `_index_for_bit`, `set_bit`, `check_bit`): the `bytearray` is a `List UInt8`,
mutation is a returned value.
-/
namespace Pycoin.Bloom
open Pycoin.Gen.HashTables

abbrev M := Except PyErr

structure Filter where
  filterBytes : Bytes
  bitCount : Int
  hashFunctionCount : Int
  tweak : Int
  deriving DecidableEq, Repr

/-- `BloomFilter(size_in_bytes, hash_function_count, tweak)`; `bytearray(n)` raises `ValueError` for negative `n` -/
def new (size : Int) (hashFunctionCount tweak : Int) : M Filter :=
  if size > bloomMaxSize then throw .valueError
  else if size < 0 then throw .valueError
  else pure ⟨List.replicate size.toNat 0, 8 * size, hashFunctionCount, tweak⟩

/-- Python `a % b` for integers -/
def pyMod (a b : Int) : M Int :=
  if b = 0 then throw .zeroDivisionError else pure (Int.fmod a b)

/-- `_index_for_bit(v)`: `v %= bit_count; byte_index, mask_index = divmod(v, 8); mask = MASK_ARRAY[mask_index]` -/
def indexForBit (f : Filter) (v : Int) : M (Int × Int) := do
  let v ← pyMod v f.bitCount
  let byteIndex := Int.fdiv v 8
  let maskIndex := Int.fmod v 8
  let mask ← pyGetItem bloomMaskArray maskIndex
  pure (byteIndex, mask)

/-- `bytearray[i] = v`: `IndexError` out of range, `ValueError` unless `0 ≤ v < 256` -/
def setByte (b : Bytes) (i : Int) (v : Int) : M Bytes :=
  let k : Int := if i < 0 then i + b.length else i
  if k < 0 ∨ k ≥ b.length then throw .indexError
  else if v < 0 ∨ v ≥ 256 then throw .valueError
  else pure (b.set k.toNat (UInt8.ofNat v.toNat))

/-- `set_bit(v)`: `filter_bytes[byte_index] |= mask` -/
def setBit (f : Filter) (v : Int) : M Filter := do
  let (byteIndex, mask) ← indexForBit f v
  let old ← pyGetItem f.filterBytes byteIndex
  let fb ← setByte f.filterBytes byteIndex (pyOr (old.toNat : Int) mask)
  pure { f with filterBytes := fb }

/-- `check_bit(v)` -/
def checkBit (f : Filter) (v : Int) : M Bool := do
  let (byteIndex, mask) ← indexForBit f v
  let old ← pyGetItem f.filterBytes byteIndex
  pure (pyAnd (old.toNat : Int) mask = mask)

/-- body of `for hash_index in range(self.hash_function_count)` -/
def addStep (item : Bytes) (f : Filter) (hashIndex : Nat) : M Filter := do
  let seed := (hashIndex : Int) * bloomSeedMul + f.tweak
  let h ← Murmur3Py.murmur3 item seed
  let v ← pyMod h f.bitCount
  setBit f v

/-- `add_item(item_bytes)` -/
def addItem (f : Filter) (item : Bytes) : M Filter :=
  (List.range f.hashFunctionCount.toNat).foldlM (addStep item) f

/-- `add_hash160` -/
def addHash160 (f : Filter) (h : Bytes) : M Filter := addItem f h

/-- `add_spendable`: `tx_hash + struct.pack("<L", tx_out_index)` -/
def addSpendable (f : Filter) (txHash : Bytes) (idx : Int) : M Filter :=
  if 0 ≤ idx ∧ idx < 2 ^ 32 then addItem f (txHash ++ leBytes idx.toNat 4) else throw .structError

/-- the peer-side test as the harness observes it through pycoin: every one of the `hash_function_count` positions
`murmur3(item, k * 0xFBA4C795 + tweak) % bit_count` passes `check_bit` -/
def matchesPy (f : Filter) (b : Bytes) : M Bool :=
  (List.range f.hashFunctionCount.toNat).foldlM (fun acc (k : Nat) => do
    let h ← Murmur3Py.murmur3 b ((k : Int) * bloomSeedMul + f.tweak)
    let v ← pyMod h f.bitCount
    pure (acc && (← checkBit f v))) true

end Pycoin.Bloom
