import Pycoin.Model.Curve
import Pycoin.Model.Hash
import Pycoin.Model.ScriptStreamer
import Pycoin.Model.Tx
import Pycoin.Model.Der
import Pycoin.Model.Sec
import Pycoin.Gen.Sign
/-!
C05 — model of the transaction signer.

* `pycoin/satoshi/der.py`: `sigdecode_der_lax` (the writer `sigencode_der` and `pycoin/encoding/sec.py` are C10's models
  `Model/Der.lean`, `Model/Sec.lean`, wrapped here with the signer's error classes);
* `pycoin/solve/some_solvers.py`: `_find_signatures`, `hash_lookup_solver`, `constant_equality_solver`, `signing_solver`;
* `pycoin/coins/bitcoin/Solver.py`: `Solver.solve` (what `determine_constraints` + `solve_for_constraints` +
  `compile_push_data_list` produce for the standard templates) and `Solver.sign` (the frame);
  `bcash/Solver.py`, `bgold/Solver.py` (`| SIGHASH_FORKID`);
* `pycoin/solve/utils.py`: `build_hash160_lookup`, `build_p2sh_lookup`; `pycoin/key/Keychain.py`: `get`, `add_secret`,
  `add_key_paths`, `add_p2s_script`.

Parameters (owned by other properties, supplied by the caller): ECDSA `sign`/`verify` (`Crypto`; C01), the signature hash
of an input for a hash type (`digest`; C04), whether an input already validates under the default flags (`valid`;
C03), BIP32 derivation (`derive`; C09).

`solve` here is the *result-level* model: it says, template by template, which stack atoms the symbolic run creates (`x_i`, `w_i`)
and what the three registered solvers put into them.  The symbolic machinery itself (`determine_constraints`, the traceback hook,
`solve_for_constraints`) is mirrored in `Model/Constraints.lean` / `Model/ConstraintSolver.lean` (`Solve.solve`), and
`C05_solve_machinery_*` prove that it returns what `solveBase` returns for every standard template; both are tied to the code by
exact equality of what they print.
-/
namespace Pycoin.Sign
open Pycoin Pycoin.Curve

/-- exceptions of the signer, printed as the Python class name -/
inductive Err
  | solving        -- `SolvingError`: `hash_lookup_solver` cannot find the key
  | value          -- `ValueError` (p2sh lookup miss, `bytes([hash_type])` out of range, `sign` of a zero digest, `EncodingError`)
  | script         -- `ScriptError` (the digest function refuses the hash type)
  | index          -- `IndexError`
  | overflow       -- `OverflowError` (`to_bytes_32`)
  | assertion      -- `AssertionError`
  | type           -- `TypeError`
  | unsupported    -- puzzle script outside the standard templates: outside the property, not modelled
  deriving DecidableEq, Repr

def Err.tag : Err → String
  | .solving => "SolvingError" | .value => "ValueError" | .script => "ScriptError" | .index => "IndexError"
  | .overflow => "OverflowError" | .assertion => "AssertionError" | .type => "TypeError" | .unsupported => "Unsupported"

/-- what `Solver.sign` catches around `solve`: `except (SolvingError, ValueError)` -/
def Err.caughtBySign : Err → Bool
  | .solving => true | .value => true | _ => false

def ofCurveErr : Curve.Err → Err
  | .assertion => .assertion | .noSuchPoint => .value | .value => .value | .type => .type
  | .overflow => .overflow | .outOfFuel => .assertion

/-! ## DER (`pycoin/satoshi/der.py`): the writer is C10's model (`Model/Der.lean`); the lax reader is modelled here -/

def ofDerErr : Der.Err → Err
  | .unexpectedDER => .value | .typeError => .type | .valueError => .value | .assertionError => .assertion

/-- `sigencode_der(r, s)` (C10's `Der.sigencodeDer`) -/
def sigencodeDer (r s : Int) : Except Err Bytes :=
  match Der.sigencodeDer r s with
  | .ok b => .ok b
  | .error e => .error (ofDerErr e)

/-- leading zero bytes skipped, at most `k` of them: the `while lenbyte > 0 and sig[pos] == 0` loop -/
def skipZeros : Nat → Bytes → Nat × Bytes
  | 0, b => (0, b)
  | k + 1, 0 :: r => skipZeros k r
  | k + 1, b => (k + 1, b)

/-- `_lax_integer(sig, pos)` on the bytes from `pos` on: the number bytes and what follows them; `none` = `UnexpectedDER` -/
def laxInteger : Bytes → Option (Bytes × Bytes)
  | 0x02 :: lb :: rest =>
    if lb.toNat &&& 0x80 ≠ 0 then
      let k := lb.toNat - 0x80
      if k > rest.length then none
      else
        let (k', rest') := skipZeros k rest
        if k' ≥ 4 then none
        else
          let len := beNat (rest'.take k')
          let rest'' := rest'.drop k'
          if len > rest''.length then none else some (rest''.take len, rest''.drop len)
    else
      let len := lb.toNat
      if len > rest.length then none else some (rest.take len, rest.drop len)
  | _ => none

/-- `sigdecode_der_lax(sig_der)`; `none` = `UnexpectedDER` -/
def sigdecodeDerLax : Bytes → Option (Nat × Nat)
  | 0x30 :: lb :: rest =>
    let after : Option Bytes :=
      if lb.toNat &&& 0x80 ≠ 0 then
        let k := lb.toNat - 0x80
        if k > rest.length then none else some (rest.drop k)
      else some rest
    match after with
    | none => none
    | some rest =>
      match laxInteger rest with
      | none => none
      | some (rb, rest) =>
        match laxInteger rest with
        | none => none
        | some (sb, _) => some (beNat rb, beNat sb)
  | _ => none

/-- `parse_signature_blob(sig_blob)`: `((r, s), signature_type)`; `none` = `ValueError` (empty) or `UnexpectedDER` -/
def parseSignatureBlob (blob : Bytes) : Option ((Nat × Nat) × Nat) :=
  match blob.getLast? with
  | none => none
  | some last =>
    match sigdecodeDerLax blob.dropLast with
    | none => none
    | some rs => some (rs, last.toNat)

/-! ## SEC (`pycoin/encoding/sec.py`): C10's model (`Model/Sec.lean`) -/

def ofSecErr : Sec.Err → Err
  | .overflowError => .overflow | .typeError => .type | .curve e => ofCurveErr e | _ => .value

/-- `public_pair_to_sec(public_pair, compressed)` (C10's `Sec.publicPairToSec`) -/
def publicPairToSec (x y : Int) (compressed : Bool) : Except Err Bytes :=
  match Sec.publicPairToSec x y compressed with
  | .ok b => .ok b
  | .error e => .error (ofSecErr e)

/-- `sec_to_public_pair(sec, generator, strict=True)` as the signer uses it: any failure is an `EncodingError` /
`NoSuchPointError`, both `ValueError`s (`none`) -/
def secToPublicPair (c : CurveParams) (sec : Bytes) : Option Pt :=
  match Sec.secToPublicPair c sec true with
  | .ok P => some (some P)
  | .error _ => none

/-! ## parameters -/

/-- the ECDSA operations the signer calls on `secp256k1_generator` -/
structure Crypto where
  /-- `generator.order()` -/
  order : Nat
  /-- `generator.sign(secret_exponent, val)` (RFC 6979) -/
  sign : Int → Int → Except Curve.Err (Int × Int)
  /-- `generator.verify(public_pair, val, (r, s))` -/
  verify : Pt → Int → Int → Int → Except Curve.Err Bool
  /-- `sec_to_public_pair(sec, generator)` -/
  secToPair : Bytes → Option Pt

/-- one value of a hash160 lookup: `(secret_exponent, public_pair, compressed, generator)` -/
structure Entry where
  secret : Int
  x : Int
  y : Int
  compressed : Bool
  deriving DecidableEq, Repr

abbrev Lookup := Bytes → Option Entry

/-- `signature_for_hash_type_f(hash_type)` of the input being solved; `none` = `ScriptError` -/
abbrev Digest := Nat → Option Int

/-! ## `some_solvers._find_signatures` -/

/-- the `for idx, sec_key in enumerate(sec_keys)` loop for one parsed blob.
`.ok none` = no key verified, or an exception of the caught kinds ended the blob; `.ok (some (idx, sec))` = first match. -/
def findKey (C : Crypto) (digest : Digest) (r s : Int) (ht : Nat) : List Bytes → Nat → Except Err (Option (Nat × Bytes))
  | [], _ => .ok none
  | k :: ks, i =>
    match C.secToPair k with
    | none => .ok none                       -- EncodingError: caught, blob abandoned
    | some Q =>
      match digest ht with
      | none => .ok none                     -- ScriptError: caught
      | some z =>
        match C.verify Q z r s with
        | .error e => if e.isValueError then .ok none else .error (ofCurveErr e)
        | .ok true => .ok (some (i, k))
        | .ok false => findKey C digest r s ht ks (i + 1)

/-- `_find_signatures(script_blobs, …, max_sigs, sec_keys)`: `(signatures, secs_solved)` -/
def findSignatures (C : Crypto) (digest : Digest) (maxSigs : Nat) (secKeys : List Bytes) :
    List Bytes → Nat → Except Err (List (Int × Bytes) × List Bytes)
  | [], _ => .ok ([], [])
  | blob :: rest, seen =>
    if seen ≥ maxSigs then .ok ([], [])
    else
      match parseSignatureBlob blob with
      | none => findSignatures C digest maxSigs secKeys rest seen
      | some ((r, s), ht) =>
        match findKey C digest r s ht secKeys 0 with
        | .error e => .error e
        | .ok hit =>
          match findSignatures C digest maxSigs secKeys rest (seen + 1) with
          | .error e => .error e
          | .ok (sigs, solved) =>
            match hit with
            | none => .ok (sigs, solved)
            | some (i, k) => .ok (((i : Int), blob) :: sigs, k :: solved)

/-! ## `some_solvers.signing_solver` -/

/-- Python's `<` on `bytes` -/
def bytesLt : Bytes → Bytes → Bool
  | [], [] => false
  | [], _ :: _ => true
  | _ :: _, [] => false
  | a :: as, b :: bs => if a.toNat < b.toNat then true else if b.toNat < a.toNat then false else bytesLt as bs

/-- Python's `<=` on the tuples `(int, bytes)` -/
def sigLe (a b : Int × Bytes) : Bool :=
  if a.1 < b.1 then true else if b.1 < a.1 then false else !bytesLt b.2 a.2

def insertSig (a : Int × Bytes) : List (Int × Bytes) → List (Int × Bytes)
  | [] => [a]
  | b :: r => if sigLe a b then a :: b :: r else b :: insertSig a r

/-- `existing_signatures.sort()` (the order is total, so stability is not observable) -/
def sortSigs : List (Int × Bytes) → List (Int × Bytes)
  | [] => []
  | a :: r => insertSig a (sortSigs r)

/-- low-S normalisation: `if s + s > order: s = order - s` -/
def lowS (order : Nat) (s : Int) : Int := if s + s > order then order - s else s

/-- `der.sigencode_der(r, s) + bytes([signature_type])` -/
def binarySignature (r s : Int) (ht : Nat) : Except Err Bytes :=
  match sigencodeDer r s with
  | .error e => .error e
  | .ok d => if ht > 255 then .error .value else .ok (d ++ [UInt8.ofNat ht])

/-- the `for signature_order, sec_key in reversed(list(enumerate(sec_keys)))` loop; `todo` is that reversed
enumeration, `ex` the list `existing_signatures` -/
def signLoop (C : Crypto) (lookup : Lookup) (digest : Digest) (ht nSigs : Nat) (solved : List Bytes) :
    List (Nat × Bytes) → List (Int × Bytes) → Except Err (List (Int × Bytes))
  | [], ex => .ok ex
  | (order, k) :: rest, ex =>
    if k ∈ solved then signLoop C lookup digest ht nSigs solved rest ex
    else if ex.length ≥ nSigs then .ok ex
    else
      match lookup (Hash.hash160 k) with
      | some e =>
        match digest ht with
        | none => .error .script
        | some z =>
          match C.sign e.secret z with
          | .error er => .error (ofCurveErr er)
          | .ok (r, s) =>
            match binarySignature r (lowS C.order s) ht with
            | .error er => .error er
            | .ok bin => signLoop C lookup digest ht nSigs solved rest (ex ++ [((order : Int), bin)])
      | none =>
        -- no signature hints are ever supplied by `tx.sign`: `sec_to_public_pair` is still evaluated first
        match C.secToPair k with
        | none => .error .value
        | some _ => signLoop C lookup digest ht nSigs solved rest ex

def enumFrom {α} : Nat → List α → List (Nat × α)
  | _, [] => []
  | i, a :: r => (i, a) :: enumFrom (i + 1) r

/-- the end of `signing_solver`: pad with the placeholder (`(-1, placeholder)`), `sort()`, `zip` with the signature
variables; `none` = variable left unsolved (only without a placeholder) -/
def assemble (nSigs : Nat) (placeholder : Option Bytes) (ex : List (Int × Bytes)) : List (Option Bytes) :=
  let padded := match placeholder with
    | some ph => ex ++ List.replicate (nSigs - ex.length) ((-1 : Int), ph)
    | none => ex
  let sorted := (sortSigs padded).map (fun t => some t.2)
  (sorted ++ List.replicate (nSigs - sorted.length) none).take nSigs

/-- `signing_solver(m)(solved_values, **kwargs)`: the values of `sig_list[0..nSigs)` -/
def signingSolver (C : Crypto) (lookup : Lookup) (digest : Digest) (secKeys : List Bytes) (nSigs : Nat)
    (existing : List Bytes) (ht : Nat) (placeholder : Option Bytes) : Except Err (List (Option Bytes)) :=
  match findSignatures C digest nSigs secKeys existing 0 with
  | .error e => .error e
  | .ok (found, solved) =>
    match signLoop C lookup digest ht nSigs solved (enumFrom 0 secKeys).reverse found with
    | .error e => .error e
    | .ok ex => .ok (assemble nSigs placeholder ex)

/-! ## standard templates -/

/-- the puzzle scripts the solver's symbolic run understands among the standard ones (after unwrapping) -/
inductive Base
  | p2pk (sec : Bytes)
  | p2pkh (h : Bytes)
  | multisig (m : Nat) (keys : List Bytes)
  deriving DecidableEq, Repr

/-- the number pushed by a small-integer or one-byte push instruction -/
def smallInt (it : Script.Item) : Option Nat :=
  match it.data with
  | some [b] => some b.toNat
  | _ => none

def isKeyPush (it : Script.Item) : Bool :=
  it.opcode.toNat ≤ 0x4b && (match it.data with | some d => d.length == 33 || d.length == 65 | none => false)

/-- recognise `<sec> CHECKSIG`, `DUP HASH160 <20> EQUALVERIFY CHECKSIG`, `m <sec>… n CHECKMULTISIG` -/
def classify (script : Bytes) : Option Base :=
  match script with
  | [0x76, 0xa9, 0x14, h0, h1, h2, h3, h4, h5, h6, h7, h8, h9, h10, h11, h12, h13, h14, h15, h16, h17, h18, h19, 0x88, 0xac] =>
    some (.p2pkh [h0, h1, h2, h3, h4, h5, h6, h7, h8, h9, h10, h11, h12, h13, h14, h15, h16, h17, h18, h19])
  | _ =>
    match Script.getOpcodes script false 0 with
    | (items, none) =>
      match items with
      | [k, cs] =>
        if isKeyPush k && cs.opcode = 0xac then k.data.map Base.p2pk else none
      | first :: rest =>
        match rest.reverse with
        | cms :: nItem :: keysRev =>
          match smallInt first, smallInt nItem with
          | some m, some n =>
            let keys := keysRev.reverse
            if cms.opcode = 0xae && keys.all isKeyPush && keys.length = n && 1 ≤ m && m ≤ n && n ≤ 20
               && first.opcode ≠ 0x4f && nItem.opcode ≠ 0x4f then
              some (.multisig m (keys.filterMap (·.data)))
            else none
          | _, _ => none
        | _ => none
      | _ => none
    | _ => none

/-- the stack items (bottom first) the solvers compute for a base template -/
def solveBase (C : Crypto) (lookup : Lookup) (digest : Digest) (existing : List Bytes) (ht : Nat)
    (placeholder : Option Bytes) : Base → Except Err (List (Option Bytes))
  | .p2pk sec =>
    -- atoms: x_0 = signature
    signingSolver C lookup digest [sec] 1 existing ht placeholder
  | .p2pkh h =>
    -- atoms: x_1 = signature, x_0 = public key (hash_lookup_solver)
    match lookup h with
    | none => .error .solving
    | some e =>
      match publicPairToSec e.x e.y e.compressed with
      | .error er => .error er
      | .ok sec =>
        match signingSolver C lookup digest [sec] 1 existing ht placeholder with
        | .error er => .error er
        | .ok sigs => .ok (sigs ++ [some sec])
  | .multisig m keys =>
    -- the symbolic OP_CHECKMULTISIG pops the keys top first: sec_list = keys reversed; sig_list = x_0 … x_{m-1}
    -- (x_0 on top); x_m = b"" (constant_equality_solver).  Solution: x_m, x_{m-1}, …, x_0.
    match signingSolver C lookup digest keys.reverse m existing ht placeholder with
    | .error er => .error er
    | .ok sigs => .ok (some [] :: sigs.reverse)

/-- `SegwitChecker._witness_program_version(script) == 0` -/
def isWitnessV0 (script : Bytes) : Bool :=
  4 ≤ script.length && script.length ≤ 42 &&
  (match script with
   | op :: len :: _ => len.toNat + 2 == script.length && op == 0
   | _ => false)

/-- `P2SChecker.script_hash_from_script`: `HASH160 <20 bytes> EQUAL` -/
def scriptHashFromScript (script : Bytes) : Option Bytes :=
  if script.length = 23 ∧ script.head? = some 0xa9 ∧ script[1]? = some 0x14 ∧ script.getLast? = some 0x87
  then some (slice script 2 22) else none

/-- `build_p2sh_lookup(scripts).get(h)` -/
def p2shLookup (scripts : List Bytes) (h : Bytes) : Option Bytes :=
  match scripts.reverse.find? (fun s => Hash.sha256 s = h) with
  | some s => some s
  | none => scripts.reverse.find? (fun s => Hash.hash160 s = h)

def pushAll (items : List (Option Bytes)) : Except Err Bytes :=
  match Script.compilePushDataList items with
  | .ok b => .ok b
  | .error _ => .error .value

/-- what `Solver.solve` is given for one input -/
structure SolveArgs where
  C : Crypto
  lookup : Lookup
  p2sh : Bytes → Option Bytes
  /-- `signature_for_hash_type_f` of the input: `sighash witness scriptCode hashType`, with `witness` = the BIP143
  closure of `_make_witness_sighash_f`, else the closure of `_make_sighash_f`; the script code is `vm.script` -/
  sighash : Bool → Bytes → Digest
  ht : Nat
  placeholder : Option Bytes

/-- `existing_script` of `Solver.solve`: the witness when there is one, else the data pushes of the script.
A scriptSig whose last instruction is cut short ends the listing with an exception. -/
def existingScript (script : Bytes) (witness : List Bytes) : Except Err (List Bytes) :=
  if !witness.isEmpty then .ok witness
  else
    match Script.getOpcodes script false 0 with
    | (items, none) => .ok (items.filterMap (·.data))
    | (_, some _) => .error .index

/-- witness-program part of `solve`: `program` is the 20- or 32-byte program of a version-0 script -/
def solveWitness (a : SolveArgs) (existing : List Bytes) (program : Bytes) : Except Err (List Bytes) :=
  if program.length = 32 then
    match a.p2sh program with
    | none => .error .value
    | some ws =>
      match classify ws with
      | none => .error .unsupported
      | some base =>
        match solveBase a.C a.lookup (a.sighash true ws) existing a.ht a.placeholder base with
        | .error e => .error e
        | .ok items => .ok (items.filterMap id ++ [ws])
  else if program.length = 20 then
    -- `_puzzle_script_for_len20_segwit`: DUP HASH160 <program> EQUALVERIFY CHECKSIG
    match solveBase a.C a.lookup (a.sighash true ([0x76, 0xa9, 0x14] ++ program ++ [0x88, 0xac])) existing a.ht a.placeholder
        (.p2pkh program) with
    | .error e => .error e
    | .ok items => .ok (items.filterMap id)
  else .error .unsupported

/-- `Solver.solve(hash160_lookup, tx_in_idx, hash_type, **kwargs)` for a standard puzzle: the new script and,
when the witness list is not empty, the new witness -/
def solve (a : SolveArgs) (puzzle script : Bytes) (witness : List Bytes) : Except Err (Bytes × Option (List Bytes)) :=
  match existingScript script witness with
  | .error e => .error e
  | .ok existing =>
  match scriptHashFromScript puzzle with
  | some h =>
    match a.p2sh h with
    | none => .error .value
    | some underlying =>
      if isWitnessV0 underlying then
        match solveWitness a existing (underlying.drop 2) with
        | .error e => .error e
        | .ok wit =>
          match pushAll [some underlying] with
          | .error e => .error e
          | .ok sc => .ok (sc, some wit)
      else
        match classify underlying with
        | none => .error .unsupported
        | some base =>
          match solveBase a.C a.lookup (a.sighash false underlying) existing a.ht a.placeholder base with
          | .error e => .error e
          | .ok items =>
            match pushAll (items ++ [some underlying]) with
            | .error e => .error e
            | .ok sc => .ok (sc, none)
  | none =>
    if isWitnessV0 puzzle then
      match solveWitness a existing (puzzle.drop 2) with
      | .error e => .error e
      | .ok wit => .ok ([], some wit)
    else
      match classify puzzle with
      | none => .error .unsupported
      | some base =>
        match solveBase a.C a.lookup (a.sighash false puzzle) existing a.ht a.placeholder base with
        | .error e => .error e
        | .ok items =>
          match pushAll items with
          | .error e => .error e
          | .ok sc => .ok (sc, none)

/-! ## `Solver.sign` -/

/-- the hash type `solve` works with: `SIGHASH_ALL` for `None`; fork coins or in `SIGHASH_FORKID` -/
def effectiveHashType (fork : Bool) (ht : Option Nat) : Nat :=
  let h := ht.getD Gen.Sign.SIGHASH_ALL
  if fork then h ||| Gen.Sign.SIGHASH_FORKID else h

/-- what `Solver.sign` is given -/
structure SignArgs where
  C : Crypto
  fork : Bool
  lookup : Lookup
  p2sh : Bytes → Option Bytes
  /-- `signature_for_hash_type_f` of input `i`: `sighash i witness scriptCode hashType` (C04's model in the driver) -/
  sighash : Nat → Bool → Bytes → Digest
  /-- input `i` passes `check_solution(flags=None)` as it stands -/
  valid : Nat → Bool
  ht : Option Nat
  /-- `tx_in_idx_set`; `none` = `None` = every input -/
  subset : Option (List Nat)

def insertNat (a : Nat) : List Nat → List Nat
  | [] => [a]
  | b :: r => if a ≤ b then a :: b :: r else b :: insertNat a r

def sortNat : List Nat → List Nat
  | [] => []
  | a :: r => insertNat a (sortNat r)

/-- one pass of the `for tx_in_idx in sorted(tx_in_idx_set)` loop -/
def signOne (a : SignArgs) (unspents : List (Option TxOut)) (ins : List TxIn) (idx : Nat) : Except Err (List TxIn) :=
  match ins[idx]? with
  | none => .error .index
  | some tin =>
    if a.valid idx then .ok ins
    else
      let puzzle := match unspents[idx]?.join with | some u => u.script | none => []
      let sa : SolveArgs := { C := a.C, lookup := a.lookup, p2sh := a.p2sh, sighash := a.sighash idx,
                              ht := effectiveHashType a.fork a.ht, placeholder := some Gen.Sign.defaultPlaceholder }
      match solve sa puzzle tin.script tin.witness with
      | .ok (sc, none) => .ok (ins.set idx { tin with script := sc })
      | .ok (sc, some w) => .ok (ins.set idx { tin with script := sc, witness := w })
      | .error e => if e.caughtBySign then .ok ins else .error e

def signLoopTx (a : SignArgs) (unspents : List (Option TxOut)) : List Nat → List TxIn → Except Err (List TxIn)
  | [], ins => .ok ins
  | i :: r, ins =>
    match signOne a unspents ins i with
    | .error e => .error e
    | .ok ins' => signLoopTx a unspents r ins'

/-- `Solver.sign(hash160_lookup, tx_in_idx_set, hash_type, **kwargs)`: the transaction afterwards -/
def signTx (a : SignArgs) (tx : Tx) (unspents : List (Option TxOut)) : Except Err Tx :=
  let idxs := match a.subset with
    | none => List.range tx.ins.length
    | some l => sortNat l
  if tx.missingUnspents unspents then .error .value
  else
    match signLoopTx a unspents idxs tx.ins with
    | .error e => .error e
    | .ok ins => .ok { tx with ins := ins }

/-! ## lookups: `build_hash160_lookup`, `Keychain` -/

/-- `dict.get` on an association list in insertion order, later insertions of the same key overriding earlier ones -/
def assocGet {β} (h : Bytes) : List (Bytes × β) → Option β
  | [] => none
  | (k, v) :: r => match assocGet h r with | some v' => some v' | none => if k = h then some v else none

/-- a private key as `Keychain` sees it -/
structure KeyRec where
  fingerprint : Bytes
  secret : Int
  x : Int
  y : Int
  deriving DecidableEq, Repr

/-- the state of a `Keychain`: tables HASH160 and P2S, `_secrets`, `_secret_exponent_cache` -/
structure Keychain where
  /-- `(hash160, path, fingerprint)`, primary key `hash160` (`insert or ignore`) -/
  paths : List (Bytes × String × Bytes) := []
  p2s : List Bytes := []
  /-- `_secrets[fingerprint]` -/
  secrets : List KeyRec := []
  cache : List (Bytes × Entry) := []

/-- `key.hash160(is_compressed)` -/
def keyHash160 (k : KeyRec) (compressed : Bool) : Except Err Bytes :=
  match publicPairToSec k.x k.y compressed with
  | .error e => .error e
  | .ok sec => .ok (Hash.hash160 sec)

/-- `Keychain._add_key_to_cache(key)` -/
def Keychain.addKeyToCache (kc : Keychain) (k : KeyRec) : Except Err Keychain :=
  match keyHash160 k true, keyHash160 k false with
  | .ok hc, .ok hu =>
    .ok { kc with cache := kc.cache ++ [(hc, ⟨k.secret, k.x, k.y, true⟩), (hu, ⟨k.secret, k.x, k.y, false⟩)] }
  | .error e, _ => .error e
  | _, .error e => .error e

/-- `Keychain.add_secret(private_key)` -/
def Keychain.addSecret (kc : Keychain) (k : KeyRec) : Except Err Keychain :=
  Keychain.addKeyToCache { kc with secrets := if k ∈ kc.secrets then kc.secrets else kc.secrets ++ [k] } k

/-- `Keychain.add_key_paths(key, [path])` with `h160 = key.subkey_for_path(path).hash160()` computed by the caller -/
def Keychain.addPath (kc : Keychain) (h160 : Bytes) (path : String) (fingerprint : Bytes) : Keychain :=
  if kc.paths.any (·.1 = h160) then kc else { kc with paths := kc.paths ++ [(h160, path, fingerprint)] }

def Keychain.addP2s (kc : Keychain) (script : Bytes) : Keychain :=
  if kc.p2s.any (fun s => Hash.hash160 s = Hash.hash160 script) then kc else { kc with p2s := kc.p2s ++ [script] }

/-- `Keychain.p2s_for_hash(h)` -/
def Keychain.p2sForHash (kc : Keychain) (h : Bytes) : Option Bytes :=
  kc.p2s.find? (fun s => Hash.hash160 s = h ∨ Hash.sha256 s = h)

/-- the loop `for key in self._secrets.get(fingerprint, []): self._add_key_to_cache(key.subkey_for_path(path))` -/
def Keychain.cacheDerived (derive : KeyRec → String → Option KeyRec) (fp : Bytes) (path : String) :
    List KeyRec → Keychain → Except Err Keychain
  | [], kc => .ok kc
  | k :: r, kc =>
    if k.fingerprint = fp then
      match derive k path with
      | none => .error .value
      | some sub =>
        match kc.addKeyToCache sub with
        | .error e => .error e
        | .ok kc' => Keychain.cacheDerived derive fp path r kc'
    else Keychain.cacheDerived derive fp path r kc

/-- `Keychain.get(h160)` on the key tables (the P2S short-cut answers with a script and is `p2sForHash`):
the new state (the cache grows on a path hit) and the entry.  `derive key path` is `key.subkey_for_path(path)`.
A miss stores nothing. -/
def Keychain.get (derive : KeyRec → String → Option KeyRec) (kc : Keychain) (h160 : Bytes) :
    Except Err (Keychain × Option Entry) :=
  match assocGet h160 kc.cache with
  | some e => .ok (kc, some e)
  | none =>
    match kc.paths.find? (·.1 = h160) with
    | none => .ok (kc, none)
    | some (_, path, fp) =>
      match Keychain.cacheDerived derive fp path kc.secrets kc with
      | .error e => .error e
      | .ok kc' => .ok (kc', assocGet h160 kc'.cache)

end Pycoin.Sign
