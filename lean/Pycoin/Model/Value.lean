import Pycoin.Py.Bytes
/-!
C13 — model of `pycoin/coins/tx_utils.py` (`split_with_remainder`,
`distribute_from_split_pool`), `Tx.fee/total_in/total_out`,
`Tx.validate_unspents` and `pycoin/convention/__init__.py`.
-/
namespace Pycoin.Value

/-- `split_with_remainder(total, count)`, `count > 0`, `total ≥ 0` (guarded by the caller) -/
def splitWithRemainder (total count : Nat) : List Nat :=
  List.replicate (total % count) (total / count + 1) ++
  List.replicate (count - total % count) (total / count)

/-- walk the outputs, giving each zero-valued one the next value of the pool
(`zip(split_with_remainder(..), zero_txs_out)`; zip stops at the shorter list) -/
def fill : List Int → List Nat → List Int
  | [], _ => []
  | o :: os, [] => o :: os
  | o :: os, v :: vs => if o = 0 then (v : Int) :: fill os vs else o :: fill os (v :: vs)

inductive DistErr | insufficient | notEnough
  deriving DecidableEq, Repr

def zeroCount (outs : List Int) : Nat := (outs.filter (· = 0)).length

/-- `distribute_from_split_pool(tx, fee)` with an integer fee: new output values, or the `ValueError` raised -/
def distribute (ins : List Int) (outs : List Int) (fee : Int) : Except DistErr (List Int) :=
  if zeroCount outs = 0 then .ok outs
  else
    let remaining := ins.sum - (outs.sum + fee)
    if remaining < 0 then .error .insufficient
    else if remaining < (zeroCount outs : Int) then .error .notEnough
    else .ok (fill outs (splitWithRemainder remaining.toNat (zeroCount outs)))

/-- `Tx.fee()` for a non-coinbase transaction whose unspents are all present -/
def fee (ins outs : List Int) : Int := ins.sum - outs.sum

/-! ### `validate_unspents` — the comparison loop, source db as a function -/

structure Out where
  value : Int
  script : Bytes
  deriving DecidableEq, Repr

structure In where
  prevHash : Bytes
  prevIndex : Nat
  deriving DecidableEq, Repr

inductive VErr | keyError | badSpendable | indexError
  deriving DecidableEq, Repr

def zero32 : Bytes := List.replicate 32 0

/-- db lookup returns the outputs of the transaction whose hash is `h` (the
`the_tx.hash() != h` test is folded into the lookup: a wrong-hash answer is `none`) -/
def validateUnspents (db : Bytes → Option (List Out)) : List In → List Out → Except VErr Unit
  | [], _ => .ok ()
  | i :: is, us =>
    if i.prevHash = zero32 then
      validateUnspents db is us.tail
    else
      match db i.prevHash with
      | none => .error .keyError
      | some outs =>
        if i.prevIndex > outs.length then .error .badSpendable
        else match outs[i.prevIndex]?, us.head? with
          | none, _ => .error .indexError
          | _, none => .error .indexError
          | some o1, some o2 =>
            if o1.value ≠ o2.value then .error .badSpendable
            else if o1.script ≠ o2.script then .error .badSpendable
            else validateUnspents db is us.tail

/-! ### decimal conversions: `decimal.Decimal` as coefficient × 10^exponent, context precision 28, ROUND_HALF_EVEN -/

structure Dec where
  coeff : Int
  exp : Int
  deriving DecidableEq, Repr

def numDigits (n : Nat) : Nat := if n < 10 then 1 else numDigits (n / 10) + 1
decreasing_by omega

/-- round a non-negative coefficient to at most `prec` digits, half-even -/
def roundNat (c : Nat) (prec : Nat) : Nat × Nat :=
  let d := numDigits c
  if d ≤ prec then (c, 0)
  else
    let k := d - prec
    let q := c / 10 ^ k
    let r := c % 10 ^ k
    let half := 10 ^ k / 2
    let q' := if r > half ∨ (r = half ∧ q % 2 = 1) then q + 1 else q
    -- a carry to prec+1 digits ends in 0 and is shortened by the caller's next rounding; Python does the same
    if numDigits q' > prec then (q' / 10, k + 1) else (q', k)

def Dec.round (d : Dec) : Dec :=
  let (c, k) := roundNat d.coeff.natAbs 28
  { coeff := if d.coeff < 0 then -(c : Int) else c, exp := d.exp + k }

def Dec.mul (a b : Dec) : Dec := Dec.round { coeff := a.coeff * b.coeff, exp := a.exp + b.exp }

/-- `int(Decimal)`: truncation toward zero -/
def Dec.toInt (d : Dec) : Int :=
  if d.exp ≥ 0 then d.coeff * 10 ^ d.exp.toNat
  else Int.tdiv d.coeff (10 ^ (-d.exp).toNat)

/-- `Decimal.quantize(10^e)` when the value is exactly representable at exponent `e ≤ d.exp` or needs rounding -/
def Dec.quantize (d : Dec) (e : Int) : Dec :=
  if d.exp ≥ e then { coeff := d.coeff * 10 ^ (d.exp - e).toNat, exp := e }
  else
    let k := (e - d.exp).toNat
    let c := d.coeff.natAbs
    let q := c / 10 ^ k
    let r := c % 10 ^ k
    let half := 10 ^ k / 2
    let q' := if r > half ∨ (r = half ∧ q % 2 = 1) then q + 1 else q
    { coeff := if d.coeff < 0 then -(q' : Int) else q', exp := e }

def coinPerSatoshi : Dec := ⟨1, -8⟩
def satoshiPerCoin : Dec := ⟨100000000, 0⟩

/-- `satoshi_to_btc` -/
def satoshiToBtc (n : Int) : Dec :=
  if n = 0 then ⟨0, 0⟩ else (Dec.mul ⟨n, 0⟩ coinPerSatoshi).quantize (-8)

/-- `btc_to_satoshi` on a `Decimal` argument -/
def btcToSatoshi (d : Dec) : Int := (Dec.mul d satoshiPerCoin).toInt

/-- `satoshi_to_mbtc`: `n / Decimal(10^5)` is exact below 28 digits; modelled as multiplication by 1E-5 -/
def satoshiToMbtc (n : Int) : Dec :=
  if n = 0 then ⟨0, 0⟩ else (Dec.mul ⟨n, 0⟩ ⟨1, -5⟩).quantize (-5)

def mbtcToSatoshi (d : Dec) : Int := (Dec.mul d ⟨100000, 0⟩).toInt

/-- `Decimal("ddd.ddd")` for plain decimal notation (optional sign, optional fraction) -/
def Dec.ofString? (s : String) : Option Dec :=
  let (neg, body) := match s.toList with
    | '-' :: r => (true, r)
    | '+' :: r => (false, r)
    | r => (false, r)
  let ip := body.takeWhile (· ≠ '.')
  let rest := body.dropWhile (· ≠ '.')
  let fp := rest.drop 1
  if (ip ++ fp).isEmpty ∨ !(ip ++ fp).all Char.isDigit then none
  else
    let c : Nat := (ip ++ fp).foldl (fun (acc : Nat) ch => acc * 10 + (ch.toNat - 48)) 0
    some { coeff := if neg then -(c : Int) else c, exp := -(fp.length : Int) }

/-! ### create_tx pairing: inputs are built from the spendables in order and `unspents` is that same list -/

structure Spendable where
  value : Int
  script : Bytes
  txHash : Bytes
  txOutIndex : Nat
  deriving DecidableEq, Repr

/-- `spendable.tx_in()` keeps the outpoint -/
def Spendable.txIn (s : Spendable) : In := ⟨s.txHash, s.txOutIndex⟩

/-- the `(txs_in, unspents)` pair `create_tx` builds -/
def createTxPairing (sp : List Spendable) : List In × List Spendable := (sp.map Spendable.txIn, sp)

/-! ### histories on one Tx object: the value accessors are recomputed from the current fields (there is no cache) -/

structure TxVals where
  unspents : List Int
  outs : List Int
  deriving Repr

inductive TxStep
  | fee | totalIn | totalOut
  | setUnspents (vs : List Int)     -- set_unspents / unspents_from_db / direct assignment: all replace the list
  | setOut (i : Nat) (v : Int)      -- tx.txs_out[i].coin_value = v
  deriving Repr

/-- one step: new state and the answer printed (`none` for mutators) -/
def txStep (st : TxVals) : TxStep → TxVals × Option Int
  | .fee => (st, some (fee st.unspents st.outs))
  | .totalIn => (st, some st.unspents.sum)
  | .totalOut => (st, some st.outs.sum)
  | .setUnspents vs => ({ st with unspents := vs }, none)
  | .setOut i v => ({ st with outs := st.outs.set i v }, none)

def txRun : TxVals → List TxStep → List (Option Int)
  | _, [] => []
  | st, s :: ss => let (st', a) := txStep st s; a :: txRun st' ss

/-- the state reached after a history -/
def txAfter (st : TxVals) (ss : List TxStep) : TxVals := ss.foldl (fun st s => (txStep st s).1) st

end Pycoin.Value
