import Pycoin.Model.Sign
import Pycoin.Model.VM.Verify
import Pycoin.Gen.Solve
/-!
C05 — the symbolic machinery of the solver, first half: from a puzzle script to constraints.

* `pycoin/solve/constraints.py`: `Atom`, `Operator`, the five `make_op_*` symbolic opcodes, `make_traceback_f`
  (`prelaunch`, `traceback_f`, `postscript`);
* `pycoin/coins/bitcoin/Solver.py`: `DynamicStack`, `Solver.determine_constraints`;
* the part of `pycoin/vm/VM.py` (`eval_script`, `eval_instruction`) and of `SolutionChecker.check_solution` /
  `puzzle_and_solution_iterator` / `p2s_program_tuple` / `witness_program_tuple` the symbolic run goes through.

What runs.  `determine_constraints` runs the *real* VM over the puzzle with a traceback hook; the stack of every puzzle stage is a
`DynamicStack` that invents atoms `x_0, x_1, …` (or `w_…`) instead of underflowing.  Here:

* instructions are fetched with the VM model's `VM.getOpcode` (generated decoder table).  The whole script is fetched first
  (`fetchAll`) and then executed (`execAll`): under the flags of the symbolic run (`DEFAULT_FLAGS`, no MINIMALDATA) fetching does
  not depend on the VM state, so this is the same sequence of events as the interleaved `while pc < len(script)` loop; a fetch
  failure becomes the `ScriptError` it raises at the point where the loop reaches it (`Tail.scriptError`);
* the five tweaked opcodes (generated table `Gen.Solve.tweaked`, with the `stack_size` rule of `traceback_f`) are modelled on
  symbolic stacks exactly; so are the real `OP_DUP`, `OP_DROP`, the hash opcodes, `OP_EQUAL`, `OP_EQUALVERIFY`, `OP_IF`/`OP_NOTIF`/
  `OP_ELSE`/`OP_ENDIF` and every push;
* any other opcode is run through the VM model (`VM.runHandler`, generated `lookupList`) **when the whole stack consists of
  constants and the handler does not underflow**; otherwise the run answers `unsupported` (the Python behaviour is then duck
  typing on `Atom` objects: outside the model).  The real `OP_CHECKSIGVERIFY` / `OP_CHECKMULTISIGVERIFY` (not tweaked) and
  `OP_CODESEPARATOR` (the sighash closure reads `vm.begin_code_hash` lazily) are `unsupported` as well;
* the lists of a `SIGNATURES_CORRECT` operator hold constants and plain atoms only (`Leaf`); a run that would put an
  `Operator` there is `unsupported` (Python then dies with `TypeError`/`KeyError` in the solver).
-/
namespace Pycoin.Solve
open Pycoin Pycoin.Sign Pycoin.Gen.VM

/-- `Atom(name)` for the two name templates `x_%d`, `w_%d` -/
inductive Atom
  | x (n : Nat)
  | w (n : Nat)
  deriving DecidableEq, Repr

/-- `int(name.split("_")[-1])` -/
def Atom.number : Atom → Nat
  | .x n => n | .w n => n

/-- `name.startswith("w")` -/
def Atom.isW : Atom → Bool
  | .x _ => false | .w _ => true

/-- `Atom(fill_template % n)` -/
def Atom.mk (isW : Bool) (n : Nat) : Atom := if isW then .w n else .x n

/-- an element of the two lists of a `SIGNATURES_CORRECT` operator -/
inductive Leaf
  | const (b : Bytes)
  | atom (a : Atom)
  deriving DecidableEq, Repr

/-- what can sit on the symbolic stack or in the constraint list: `bytes`, `Atom`, `Operator(op_name, *args)`.
The sighash closure of `SIGNATURES_CORRECT` is identified by which closure the VM was given (`witness`: BIP143) and the script it
hashes (`vm.script[vm.begin_code_hash:]`, with `begin_code_hash = 0`: `OP_CODESEPARATOR` is outside the model). -/
inductive Term
  | const (b : Bytes)
  | atom (a : Atom)
  | hash160 (t : Term)
  | equal (a b : Term)
  | isPubkey (t : Term)
  | isSignature (t : Term)
  | sigsCorrect (secs sigs : List Leaf) (witness : Bool) (code : Bytes)
  deriving DecidableEq, Repr

/-- `isinstance(v, Atom)` (an `Operator` is an `Atom`) -/
def Term.isAtom : Term → Bool
  | .const _ => false
  | _ => true

def Term.leaf? : Term → Option Leaf
  | .const b => some (.const b)
  | .atom a => some (.atom a)
  | _ => none

def Leaf.term : Leaf → Term
  | .const b => .const b
  | .atom a => .atom a

/-! ## `DynamicStack` -/

/-- `DynamicStack(initial_stack, reserve_count, fill_template)`; `items` has head = top (Python: the end of the list) -/
structure Dyn where
  items : List Term
  /-- `total_item_count` -/
  count : Nat
  /-- `fill_template` is `"w_%d"` (else `"x_%d"`) -/
  isW : Bool
  deriving DecidableEq, Repr

/-- `_fill()`: `self.insert(0, Atom(template % total_item_count)); total_item_count += 1` -/
def Dyn.fill (d : Dyn) : Dyn := { d with items := d.items ++ [.atom (Atom.mk d.isW d.count)], count := d.count + 1 }

/-- `stack.pop()` -/
def Dyn.pop (d : Dyn) : Term × Dyn :=
  match d.items with
  | t :: r => (t, { d with items := r })
  | [] => (.atom (Atom.mk d.isW d.count), { d with count := d.count + 1 })

/-- `stack[-1]` (the stack keeps the atom it had to invent) -/
def Dyn.top (d : Dyn) : Term × Dyn :=
  match d.items with
  | t :: _ => (t, d)
  | [] => (.atom (Atom.mk d.isW d.count), d.fill)

def Dyn.push (t : Term) (d : Dyn) : Dyn := { d with items := t :: d.items }

/-- `for i in range(n): constraints.append(Operator(tag, stack[-1])); out.append(stack.pop())` of `my_op_checkmultisig` -/
def Dyn.popEach : Nat → Dyn → List Term × Dyn
  | 0, d => ([], d)
  | n + 1, d =>
    let (t, d) := d.pop
    let (ts, d) := Dyn.popEach n d
    (t :: ts, d)

/-! ## the symbolic VM -/

/-- how a stage or the whole run ends early -/
inductive Stop
  /-- a `ScriptError`: `determine_constraints` swallows it and keeps the constraints collected so far -/
  | scriptError
  /-- any other Python exception: it leaves `determine_constraints` (and `Solver.sign`, unless it is a `ValueError`) -/
  | py (e : Sign.Err)
  deriving DecidableEq, Repr

/-- one fetched instruction `(opcode, data)` -/
structure Instr where
  opcode : Nat
  data : Option Bytes
  deriving DecidableEq, Repr

/-- how the fetch loop ends: at the end of the script, or with the `ScriptError` of an undecodable instruction -/
inductive Tail
  | done
  | scriptError
  | unsupported
  deriving DecidableEq, Repr

/-- `while self.pc < len(self.script): get_opcode(script, pc, verify_minimal_data=False)`; `fuel = len(script)` suffices
(`C05_constraints_fetch_fuel`) -/
def fetchAll (script : Bytes) : Nat → Nat → List Instr × Tail
  | 0, pc => ([], if pc < script.length then .unsupported else .done)
  | fuel + 1, pc =>
    if pc < script.length then
      match VM.getOpcode script pc false with
      | .error _ => ([], .unsupported)
      | .ok f =>
        if !f.isOk then ([], .scriptError)               -- "malformed data", BAD_OPCODE
        else
          let r := fetchAll script fuel f.pc
          (⟨f.opcode, f.data⟩ :: r.1, r.2)
    else ([], .done)

/-- mutable state of one puzzle stage -/
structure St where
  dyn : Dyn
  altstack : List Bytes := []
  cond : VM.CondStack := {}
  opCount : Int := 0
  /-- the shared `constraints` list -/
  cons : List Term
  deriving Repr

/-- fixed data of one puzzle stage: `VM(puzzle_script, tx_context, sighash_f, flags)` -/
structure StageCfg where
  script : Bytes
  flags : Nat
  /-- the VM was given the BIP143 closure (`_make_witness_sighash_f`) -/
  witness : Bool
  ctx : VM.TxCtx

/-- what `traceback_f(opcode, data, pc, vm)` returns: the symbolic function, unless its `stack_size` top items (as many as
there are: a slice does not fill) are all non-atoms -/
def hook (opcode : Nat) (items : List Term) : Option Gen.Solve.SymOp :=
  match Gen.Solve.tweaked.find? (·.1 = opcode) with
  | none => none
  | some (_, f, stackSize) =>
    if stackSize ≠ 0 && (items.take stackSize).all (fun v => !v.isAtom) then none else some f

/-- `IntStreamer.int_from_script_bytes(v, require_minimal=False)` on a stack item: `len(Atom) == 0` makes every atom 0 -/
def intOf : Term → Int
  | .const b => match VM.intFromScriptBytes b false with | .ok v => v | .error _ => 0
  | _ => 0

def allLeaves (ts : List Term) : Option (List Leaf) := ts.mapM Term.leaf?

/-- the five functions of `MY_OPCODES` -/
def runSym (cfg : StageCfg) (f : Gen.Solve.SymOp) (s : St) : Except Stop St :=
  match f with
  | .hash160 =>
    let (t, d) := s.dyn.pop
    .ok { s with dyn := d.push (.hash160 t) }
  | .equal =>
    let (t1, d) := s.dyn.pop
    let (t2, d) := d.pop
    .ok { s with dyn := d.push (.equal t1 t2) }
  | .equalverify =>
    let (t1, d) := s.dyn.pop
    let (t2, d) := d.pop
    .ok { s with dyn := d, cons := s.cons ++ [.equal t1 t2] }
  | .checksig =>
    let (t1, d) := s.dyn.pop
    let (t2, d) := d.pop
    match t1.leaf?, t2.leaf? with
    | some l1, some l2 =>
      .ok { s with dyn := d.push (.sigsCorrect [l1] [l2] cfg.witness cfg.script),
                   cons := s.cons ++ [.isPubkey t1, .isSignature t2] }
    | _, _ => .error (.py .unsupported)
  | .checkmultisig =>
    let (kc, d) := s.dyn.pop
    let (keys, d) := d.popEach (intOf kc).toNat
    let (sc, d) := d.pop
    let (sigs, d) := d.popEach (intOf sc).toNat
    let (t1, d) := d.pop
    match allLeaves keys, allLeaves sigs with
    | some ks, some ss =>
      .ok { s with dyn := d.push (.sigsCorrect ks ss cfg.witness cfg.script),
                   cons := s.cons ++ keys.map .isPubkey ++ sigs.map .isSignature ++ [.equal t1 (.const [])] }
    | _, _ => .error (.py .unsupported)
  | .unknown _ => .error (.py .unsupported)

def constsOf (ts : List Term) : Option (List Bytes) := ts.mapM (fun t => match t with | .const b => some b | _ => none)

/-- the hash functions the VM model asks for; its signature check is never reached (`realOp`) -/
def vmEnv : VM.Env where
  ripemd160 := Hash.ripemd160
  sha1 := Hash.sha1
  sha256 := Hash.sha256
  checkSig := fun _ _ _ _ => false

/-- the function `INSTRUCTION_LOOKUP[opcode]` on the symbolic stack -/
def realOp (cfg : StageCfg) (h : VM.Handler) (s : St) : Except Stop St :=
  match h with
  | .noOp | .lambda0 | .stack_NOP => .ok s
  | .stack_DUP =>                                   -- `stack.append(stack[-1])`
    let (t, d) := s.dyn.top
    .ok { s with dyn := d.push t }
  | .stack_DROP => .ok { s with dyn := s.dyn.pop.2 }
  | .stack_HASH160 =>                               -- `stack.append(hash160(stack.pop()))`
    match s.dyn.pop with
    | (.const b, d) => .ok { s with dyn := d.push (.const (Hash.hash160 b)) }
    | _ => .error (.py .type)                       -- `hash160(Atom)`: TypeError
  | .stack_SHA256 =>                                -- the other hash opcodes are never tweaked: an atom is a TypeError
    match s.dyn.pop with
    | (.const b, d) => .ok { s with dyn := d.push (.const (Hash.sha256 b)) }
    | _ => .error (.py .type)
  | .stack_HASH256 =>
    match s.dyn.pop with
    | (.const b, d) => .ok { s with dyn := d.push (.const (Hash.sha256 (Hash.sha256 b))) }
    | _ => .error (.py .type)
  | .stack_RIPEMD160 =>
    match s.dyn.pop with
    | (.const b, d) => .ok { s with dyn := d.push (.const (Hash.ripemd160 b)) }
    | _ => .error (.py .type)
  | .stack_SHA1 =>
    match s.dyn.pop with
    | (.const b, d) => .ok { s with dyn := d.push (.const (Hash.sha1 b)) }
    | _ => .error (.py .type)
  | .int_EQUAL =>                                   -- bytes == bytes; anything involving an atom here is a freshly invented one
    let (t1, d) := s.dyn.pop
    let (t2, d) := d.pop
    let eq := match t1, t2 with | .const a, .const b => a == b | _, _ => false
    .ok { s with dyn := d.push (.const (VM.boolToScriptBytes eq)) }
  | .int_EQUALVERIFY =>
    let (t1, d) := s.dyn.pop
    let (t2, d) := d.pop
    let eq := match t1, t2 with | .const a, .const b => a == b | _, _ => false
    if eq then .ok { s with dyn := d } else .error .scriptError
  | .mkIf rev =>                                    -- `make_if(reverse_bool)`: `len(stack) < 1` is tested, nothing is invented
    if !s.cond.allIfTrue then .ok { s with cond := s.cond.opIf false rev }
    else
      match s.dyn.items with
      | [] => .error .scriptError
      | t :: r =>
        if VM.hasFlag cfg.flags VERIFY_MINIMALIF then .error (.py .unsupported)     -- never among the flags of the symbolic run
        else .ok { s with dyn := { s.dyn with items := r }, cond := s.cond.opIf (intOf t != 0) rev }
  | .misc_ELSE => match s.cond.opElse with | .ok c => .ok { s with cond := c } | .error _ => .error .scriptError
  | .misc_ENDIF => match s.cond.opEndif with | .ok c => .ok { s with cond := c } | .error _ => .error .scriptError
  | .sig_CHECKSIG | .sig_CHECKSIGVERIFY | .sig_CHECKMULTISIG | .sig_CHECKMULTISIGVERIFY | .misc_CODESEPARATOR | .unknown _ =>
    .error (.py .unsupported)
  | h =>
    match constsOf s.dyn.items with
    | none => .error (.py .unsupported)
    | some stack =>
      let vs : VM.State := { stack := stack, altstack := s.altstack, cond := s.cond, opCount := s.opCount }
      match VM.runHandler vmEnv ⟨cfg.script, cfg.ctx, cfg.flags, cfg.witness⟩ h vs with
      | .ok vs' =>
        if vs'.beginCodeHash ≠ 0 then .error (.py .unsupported)
        else .ok { s with dyn := { s.dyn with items := vs'.stack.map .const }, altstack := vs'.altstack, cond := vs'.cond,
                          opCount := vs'.opCount }
      | .error e =>
        if e = VM.invalidStack then .error (.py .unsupported)      -- a `DynamicStack` does not underflow
        else match e with
          | .script _ => .error .scriptError
          | .py _ => .error (.py .unsupported)

/-- `eval_instruction` for a fetched instruction.  An error carries the shared constraint list as it is when the exception is
raised. -/
def step (cfg : StageCfg) (i : Instr) (s : St) : Except (Stop × List Term) St :=
  let allIfTrue := s.cond.allIfTrue
  -- `if data and len(data) > self.MAX_BLOB_LENGTH`
  if (match i.data with | some d => decide (d.length > MAX_BLOB_LENGTH) | none => false) then .error (.scriptError, s.cons)
  else
    let s := if i.data.isNone then { s with opCount := s.opCount + 1 } else s
    match lookupList[i.opcode]? with
    | none => .error (.py .unsupported, s.cons)
    | some (h, outsideConditional) =>
      -- `f = self.traceback_f(opcode, data, pc, self) or f` looks at the stack before the data is appended
      let hk := hook i.opcode s.dyn.items
      let s := match i.data with
        | some d => if allIfTrue then { s with dyn := s.dyn.push (.const d) } else s
        | none => s
      let r : Except Stop St :=
        match hk with
        | some f => if allIfTrue then runSym cfg f s else .ok s     -- the symbolic functions carry no `outside_conditional`
        | none => if allIfTrue || outsideConditional then realOp cfg h s else .ok s
      match r with
      | .error e => .error (e, s.cons)
      | .ok s =>
        if s.opCount > MAX_OP_COUNT then .error (.scriptError, s.cons)
        else if s.dyn.items.length + s.altstack.length > MAX_STACK_SIZE then .error (.scriptError, s.cons)
        else .ok s

def execAll (cfg : StageCfg) : List Instr → St → Except (Stop × List Term) St
  | [], s => .ok s
  | i :: r, s =>
    match step cfg i s with
    | .error e => .error e
    | .ok s => execAll cfg r s

/-- one puzzle stage of `check_solution` under the traceback hook: `prelaunch` (`reset_stack_f`), the instruction loop,
`postscript` (the top item, if symbolic, becomes a constraint; the stack becomes `[VM_TRUE]`), `post_script_check`.
`stackPy` is the initial stack in Python order (bottom first).  Returns the constraint list; an error carries the
constraint list as it is when the exception is raised (only `ScriptError` is caught by `determine_constraints`). -/
def runStage (cfg : StageCfg) (reserve : Nat) (isW : Bool) (stackPy : List Term) (cons : List Term) :
    Except (Stop × List Term) (List Term) :=
  if cfg.script.length > MAX_SCRIPT_LENGTH then .error (.scriptError, cons)
  else
    let fetched := fetchAll cfg.script cfg.script.length 0
    match execAll cfg fetched.1 { dyn := ⟨stackPy.reverse, reserve, isW⟩, cons := cons } with
    | .error e => .error e
    | .ok s =>
      match fetched.2 with
      | .unsupported => .error (.py .unsupported, s.cons)
      | .scriptError => .error (.scriptError, s.cons)
      | .done =>
        let t := s.dyn.top.1
        let cons := if t.isAtom then s.cons ++ [t] else s.cons
        match s.cond.checkFinalState with
        | .error _ => .error (.scriptError, cons)
        | .ok _ => .ok cons

/-! ## `Solver.determine_constraints` -/

/-- `P2SChecker.script_hash_from_script` / `is_pay_to_script_hash` (the VM model's) -/
def scriptHash (puzzle : Bytes) : Option Bytes :=
  if VM.isPayToScriptHash puzzle then some (slice puzzle 2 (puzzle.length - 1)) else none

/-- `_puzzle_script_for_len20_segwit(witness_program)` -/
def len20Script (program : Bytes) : Except Sign.Err Bytes :=
  match Script.compilePushData program with
  | .ok p => .ok (segwitV0Len20Prefix ++ p ++ segwitV0Len20Postfix)
  | .error _ => .error .value

/-- `Solver.determine_constraints(tx_in_idx, p2sh_lookup)`.
`ctx` = lock time, sequence, version of the input (read by `OP_CHECKLOCKTIMEVERIFY`/`OP_CHECKSEQUENCEVERIFY` only, which are
no-ops under `DEFAULT_FLAGS`). -/
def determineConstraints (p2sh : Bytes → Option Bytes) (ctx : VM.TxCtx) (puzzle : Bytes) : Except Sign.Err (List Term) :=
  let flags := Gen.Solve.runFlags
  -- P2SH preamble
  let pre : Except Sign.Err (Option Bytes × Option Nat) :=
    match scriptHash puzzle with
    | some h =>
      match p2sh h with
      | none => .error .value
      | some u =>
        -- `tx_context.solution_script = compile_push_data_list([underlying_script])` (`Sign.pushAll`)
        match pushAll [some u] with
        | .error e => .error e
        | .ok _ => .ok (some u, VM.witnessProgramVersion u)
    | none => .ok (none, VM.witnessProgramVersion puzzle)
  match pre with
  | .error e => .error e
  | .ok (underlying, version) =>
  let base := underlying.getD puzzle
  let program := if version = some 0 then base.drop 2 else []
  -- witness-script preamble
  let pre2 : Except Sign.Err (Option Bytes) :=
    if version = some 0 ∧ program.length = 32 then
      match p2sh program with
      | none => .error .value
      | some ws => .ok (some ws)
    else .ok none
  match pre2 with
  | .error e => .error e
  | .ok wscript =>
  let isW := wscript.isSome
  let reserve := if underlying.isSome || wscript.isSome then 1 else 0
  -- the closing constraints, appended whether or not the run was cut short by a `ScriptError`
  let closing : List Term :=
    (match underlying with | some u => [.equal (.atom (.x 0)) (.const u)] | none => []) ++
    (match wscript with | some ws => [.equal (.atom (.w 0)) (.const ws)] | none => [])
  let finish : Except (Stop × List Term) (List Term) → Except Sign.Err (List Term) := fun r =>
    match r with
    | .ok cons => .ok (cons ++ closing)
    | .error (.scriptError, cons) => .ok (cons ++ closing)
    | .error (.py e, _) => .error e
  -- `check_solution(tx_context, traceback_f=…)`
  finish <|
    -- `_solution_script_to_stack`: the solution script is empty or the push of the redeem script
    let solStack : Except (Stop × List Term) (List Term) :=
      match underlying with
      | none => .ok []
      | some u => if u.length > MAX_BLOB_LENGTH then .error (.scriptError, []) else .ok [.const u]
    match solStack with
    | .error e => .error e
    | .ok solStack =>
    -- first stage: the puzzle script itself
    match runStage ⟨puzzle, flags, false, ctx⟩ reserve isW solStack [] with
    | .error e => .error e
    | .ok cons =>
    -- `p2s_program_tuple`: the redeem script on an empty stack, P2SH flag removed
    let afterP2sh : Except (Stop × List Term) (List Term) :=
      match underlying with
      | some u => runStage ⟨u, VM.andNot flags VERIFY_P2SH, false, ctx⟩ reserve isW [] cons
      | none => .ok cons
    match afterP2sh with
    | .error e => .error e
    | .ok cons =>
    -- `witness_program_tuple` on the redeem script (P2SH) or the puzzle script
    match version with
    | none => .error (.scriptError, cons)           -- "witness unexpected": `witness_solution_stack` is never empty here
    | some 0 =>
      if program.length = 32 then
        match wscript with
        | none => .error (.py .unsupported, cons)    -- unreachable: `pre2`
        | some ws =>
          if Hash.sha256 ws ≠ program then .error (.scriptError, cons)      -- "witness program mismatch"
          else runStage ⟨ws, flags ||| VERIFY_CLEANSTACK, true, ctx⟩ reserve isW [] cons
      else if program.length = 20 then
        match len20Script program with
        | .error e => .error (.py e, cons)
        | .ok sc =>
          -- `witness_solution_stack = DynamicStack([w_1, w_0])`, copied with `list(…)`
          runStage ⟨sc, flags ||| VERIFY_CLEANSTACK, true, ctx⟩ reserve isW [.atom (.w 1), .atom (.w 0)] cons
      else .error (.scriptError, cons)               -- "witness program wrong length"
    | some _ =>
      -- a version that is not defined yet: the script `OP_1` (DISCOURAGE_UPGRADABLE_WITNESS_PROGRAM is not among the flags)
      runStage ⟨op1Script, flags, true, ctx⟩ reserve isW [] cons

end Pycoin.Solve
