import Pycoin.Model.Sha256
/-!
SHA-1 (FIPS 180-4) as an executable Lean function over byte lists, in the style of
`Model/Sha256.lean`.  Python's `hashlib.sha1` is *modelled* by this function (validated
against hashlib by the C19 correspondence check on every run).
-/
namespace Pycoin.Hash

def rotl32 (x : UInt32) (n : UInt32) : UInt32 := (x <<< n) ||| (x >>> (32 - n))

def schedule1 (blk : List UInt32) : Array UInt32 := Id.run do
  let mut w : Array UInt32 := blk.toArray
  for i in [16:80] do
    w := w.push (rotl32 (w[i - 3]! ^^^ w[i - 8]! ^^^ w[i - 14]! ^^^ w[i - 16]!) 1)
  return w

structure St1 where
  a : UInt32
  b : UInt32
  c : UInt32
  d : UInt32
  e : UInt32

def compress1 (st : St1) (blk : List UInt32) : St1 := Id.run do
  let w := schedule1 blk
  let mut s := st
  for i in [0:80] do
    let (f, k) : UInt32 × UInt32 :=
      if i < 20 then ((s.b &&& s.c) ||| ((~~~ s.b) &&& s.d), 0x5a827999)
      else if i < 40 then (s.b ^^^ s.c ^^^ s.d, 0x6ed9eba1)
      else if i < 60 then ((s.b &&& s.c) ||| (s.b &&& s.d) ||| (s.c &&& s.d), 0x8f1bbcdc)
      else (s.b ^^^ s.c ^^^ s.d, 0xca62c1d6)
    let t := rotl32 s.a 5 + f + s.e + k + w[i]!
    s := ⟨t, s.a, rotl32 s.b 30, s.c, s.d⟩
  return ⟨st.a + s.a, st.b + s.b, st.c + s.c, st.d + s.d, st.e + s.e⟩

def init1 : St1 := ⟨0x67452301, 0xefcdab89, 0x98badcfe, 0x10325476, 0xc3d2e1f0⟩

def sha1 (msg : Bytes) : Bytes :=
  let s := (chunks 16 (words32 (pad64 msg))).foldl compress1 init1
  u32be s.a ++ u32be s.b ++ u32be s.c ++ u32be s.d ++ u32be s.e

end Pycoin.Hash
