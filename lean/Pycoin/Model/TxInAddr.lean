import Pycoin.Model.Address
import Pycoin.Model.ScriptTools
/-!
C08 — `TxIn.public_key_sec()` / `TxIn.address(address_api)` (`pycoin/coins/bitcoin/TxIn.py`): the key a
pay-to-public-key-hash input reveals, and the address it pays from.
-/
namespace Pycoin.Addr

/-- `TxIn.public_key_sec()`: `None` for the coinbase input; otherwise the script must disassemble to exactly two
items, the first a push starting with byte 0x30 (a DER signature); the second is taken for `[<hex>]` and unhexed
(`ValueError` when it is an opcode name) -/
def txInPublicKeySec (isCoinbase : Bool) (script : Bytes) : Except Err (Option Bytes) :=
  if isCoinbase then .ok none
  else
    match Script.opcodeList' script with
    | [a, b] =>
      if a.take 3 = ['[', '3', '0'] then
        match Script.unhexlify (Script.inner b) with
        | some sec => .ok (some sec)
        | none => .error .valueError
      else .ok none
    | _ => .ok none

/-- `TxIn.address(address_api)` -/
def txInAddress (env : Env) (net : Network) (isCoinbase : Bool) (script : Bytes) : Except Err (Option String) :=
  if isCoinbase then .ok (some "(coinbase)")
  else
    match txInPublicKeySec isCoinbase script with
    | .error e => .error e
    | .ok (some sec) => if sec.isEmpty then .ok (some "(unknown)") else keyAddress env net sec
    | .ok none => .ok (some "(unknown)")

end Pycoin.Addr
