import Pycoin.Model.Sha256
/-!
SHA-512 (FIPS 180-4) as an executable Lean function over byte lists, in the style of
`Model/Sha256.lean`.  Python's `hashlib.sha512` is *modelled* by this function (validated
against hashlib by the C19 correspondence check on every run).
-/
namespace Pycoin.Hash

def k512 : Array UInt64 := #[
  0x428a2f98d728ae22, 0x7137449123ef65cd, 0xb5c0fbcfec4d3b2f, 0xe9b5dba58189dbbc,
  0x3956c25bf348b538, 0x59f111f1b605d019, 0x923f82a4af194f9b, 0xab1c5ed5da6d8118,
  0xd807aa98a3030242, 0x12835b0145706fbe, 0x243185be4ee4b28c, 0x550c7dc3d5ffb4e2,
  0x72be5d74f27b896f, 0x80deb1fe3b1696b1, 0x9bdc06a725c71235, 0xc19bf174cf692694,
  0xe49b69c19ef14ad2, 0xefbe4786384f25e3, 0x0fc19dc68b8cd5b5, 0x240ca1cc77ac9c65,
  0x2de92c6f592b0275, 0x4a7484aa6ea6e483, 0x5cb0a9dcbd41fbd4, 0x76f988da831153b5,
  0x983e5152ee66dfab, 0xa831c66d2db43210, 0xb00327c898fb213f, 0xbf597fc7beef0ee4,
  0xc6e00bf33da88fc2, 0xd5a79147930aa725, 0x06ca6351e003826f, 0x142929670a0e6e70,
  0x27b70a8546d22ffc, 0x2e1b21385c26c926, 0x4d2c6dfc5ac42aed, 0x53380d139d95b3df,
  0x650a73548baf63de, 0x766a0abb3c77b2a8, 0x81c2c92e47edaee6, 0x92722c851482353b,
  0xa2bfe8a14cf10364, 0xa81a664bbc423001, 0xc24b8b70d0f89791, 0xc76c51a30654be30,
  0xd192e819d6ef5218, 0xd69906245565a910, 0xf40e35855771202a, 0x106aa07032bbd1b8,
  0x19a4c116b8d2d0c8, 0x1e376c085141ab53, 0x2748774cdf8eeb99, 0x34b0bcb5e19b48a8,
  0x391c0cb3c5c95a63, 0x4ed8aa4ae3418acb, 0x5b9cca4f7763e373, 0x682e6ff3d6b2b8a3,
  0x748f82ee5defb2fc, 0x78a5636f43172f60, 0x84c87814a1f0ab72, 0x8cc702081a6439ec,
  0x90befffa23631e28, 0xa4506cebde82bde9, 0xbef9a3f7b2c67915, 0xc67178f2e372532b,
  0xca273eceea26619c, 0xd186b8c721c0c207, 0xeada7dd6cde0eb1e, 0xf57d4f7fee6ed178,
  0x06f067aa72176fba, 0x0a637dc5a2c898a6, 0x113f9804bef90dae, 0x1b710b35131c471b,
  0x28db77f523047d84, 0x32caab7b40c72493, 0x3c9ebe0a15c9bebc, 0x431d67c49c100d4c,
  0x4cc5d4becb3e42b6, 0x597f299cfc657e2a, 0x5fcb6fab3ad6faec, 0x6c44198c4a475817]

def rotr64 (x : UInt64) (n : UInt64) : UInt64 := (x >>> n) ||| (x <<< (64 - n))

def be64 (a b c d e f g h : UInt8) : UInt64 :=
  (a.toUInt64 <<< 56) ||| (b.toUInt64 <<< 48) ||| (c.toUInt64 <<< 40) ||| (d.toUInt64 <<< 32) |||
  (e.toUInt64 <<< 24) ||| (f.toUInt64 <<< 16) ||| (g.toUInt64 <<< 8) ||| h.toUInt64

def u64be (x : UInt64) : Bytes :=
  [(x >>> 56).toUInt8, (x >>> 48).toUInt8, (x >>> 40).toUInt8, (x >>> 32).toUInt8,
   (x >>> 24).toUInt8, (x >>> 16).toUInt8, (x >>> 8).toUInt8, x.toUInt8]

def words64 : Bytes → List UInt64
  | a :: b :: c :: d :: e :: f :: g :: h :: rest => be64 a b c d e f g h :: words64 rest
  | _ => []

/-- message padding: 0x80, zeros to 112 mod 128, 128-bit big-endian bit length -/
def pad128 (msg : Bytes) : Bytes :=
  let l := msg.length
  let z := (239 - l % 128) % 128   -- number of zero bytes
  msg ++ [0x80] ++ List.replicate z 0 ++ beBytes (8 * l) 16

def schedule512 (blk : List UInt64) : Array UInt64 := Id.run do
  let mut w : Array UInt64 := blk.toArray
  for i in [16:80] do
    let w15 := w[i - 15]!
    let w2 := w[i - 2]!
    let s0 := rotr64 w15 1 ^^^ rotr64 w15 8 ^^^ (w15 >>> 7)
    let s1 := rotr64 w2 19 ^^^ rotr64 w2 61 ^^^ (w2 >>> 6)
    w := w.push (w[i - 16]! + s0 + w[i - 7]! + s1)
  return w

structure St512 where
  a : UInt64
  b : UInt64
  c : UInt64
  d : UInt64
  e : UInt64
  f : UInt64
  g : UInt64
  h : UInt64

def compress512 (st : St512) (blk : List UInt64) : St512 := Id.run do
  let w := schedule512 blk
  let mut s := st
  for i in [0:80] do
    let S1 := rotr64 s.e 14 ^^^ rotr64 s.e 18 ^^^ rotr64 s.e 41
    let ch := (s.e &&& s.f) ^^^ ((~~~ s.e) &&& s.g)
    let t1 := s.h + S1 + ch + k512[i]! + w[i]!
    let S0 := rotr64 s.a 28 ^^^ rotr64 s.a 34 ^^^ rotr64 s.a 39
    let mj := (s.a &&& s.b) ^^^ (s.a &&& s.c) ^^^ (s.b &&& s.c)
    let t2 := S0 + mj
    s := ⟨t1 + t2, s.a, s.b, s.c, s.d + t1, s.e, s.f, s.g⟩
  return ⟨st.a + s.a, st.b + s.b, st.c + s.c, st.d + s.d, st.e + s.e, st.f + s.f, st.g + s.g, st.h + s.h⟩

def init512 : St512 :=
  ⟨0x6a09e667f3bcc908, 0xbb67ae8584caa73b, 0x3c6ef372fe94f82b, 0xa54ff53a5f1d36f1,
   0x510e527fade682d1, 0x9b05688c2b3e6c1f, 0x1f83d9abfb41bd6b, 0x5be0cd19137e2179⟩

def sha512 (msg : Bytes) : Bytes :=
  let s := (chunks 16 (words64 (pad128 msg))).foldl compress512 init512
  u64be s.a ++ u64be s.b ++ u64be s.c ++ u64be s.d ++ u64be s.e ++ u64be s.f ++ u64be s.g ++ u64be s.h

end Pycoin.Hash
