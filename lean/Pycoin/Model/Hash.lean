import Pycoin.Model.Sha256
import Pycoin.Model.Sha512
import Pycoin.Model.Sha1
import Pycoin.Model.Hmac
import Pycoin.Spec.Ripemd160
/-!
The shared hash foundation (DESIGN.md F3): one import for every hash function symbol other
models use.  `Pycoin.Hash.{sha256, dsha256, sha512, sha1, ripemd160, hmacSha256, hmacSha512, hash160}`,
all `Bytes → Bytes` (HMAC: key → msg → Bytes).  Each is validated against hashlib/hmac by the C19 check.
-/
namespace Pycoin.Hash

/-- `hash160(x) = RIPEMD-160(SHA-256(x))` -/
def hash160 (msg : Bytes) : Bytes := ripemd160 (sha256 msg)

end Pycoin.Hash
