import Pycoin.Model.ParseText
import Pycoin.Model.Hmac
import Pycoin.Model.Curve
/-!
The key model's `KeyEnv` instantiated with the C02 curve model (`Model/Curve.lean`) over the generator parameters every
network shares (`Gen/Networks.genP …`), the HMAC-SHA512 model and the Electrum stretching loop: what the C18 driver
evaluates and what the `_real` theorems of `Props/C18.lean` are about (no curve hypothesis left;
`Proofs/RealKeyEnv.lean: real_key_laws`).  Core Lean only.
-/
namespace Pycoin.Addr
open Pycoin.Gen.Networks

/-- the curve every network's key classes use (`Gen/Networks.generatorShared`), as the C02 model's parameters -/
def curve : Curve.CurveParams :=
  { p := genP, a := genA, b := genB, gx := genGx, gy := genGy, n := genOrder }

/-- `Generator._powers`, built once (the constructor does not fail: `Proofs/RealKeyEnv.lean: powers_curve`) -/
def powersTable : List Curve.Pt := match Curve.powers curve with | .ok t => t | .error _ => []

def electrumLoop (orig : Bytes) : Nat → Bytes → Bytes
  | 0, b => b
  | n + 1, b => electrumLoop orig n (Hash.sha256 (b ++ orig))

/-- `se * generator` as `Generator.raw_mul` computes it (`Curve.rawMul curve se`, with the table taken from `powersTable`);
the fall-through value is never taken for `1 ≤ se < n` (`Proofs/RealKeyEnv.lean: realMulG_spec`) -/
def realMulG (se : Nat) : Pt :=
  match Curve.rawMulLoop curve powersTable (fmod (se : Int) genOrder) none with
  | .ok (some pt) => pt
  | _ => (0, 0)

/-- `KeyEnv` over the C02 curve model: `raw_mul` with the generator's table, `points_for_x`, `contains_point` -/
def realKeyEnv : KeyEnv where
  p := genP
  order := genOrder
  mulG := realMulG
  pointsForX x := match Curve.pointsForX curve x with
    | .ok (some a, some b) => some (a, b)
    | _ => none
  containsPoint x y := Curve.containsXY curve x y
  hmacSha512 := Hash.hmacSha512
  electrumStretch hex := let o := hex.toUTF8.toList; electrumLoop o 100000 o

end Pycoin.Addr
