import Pycoin.Py.Bytes
/-!
Shape of one entry of the generated network table (`Gen/Networks.lean`, written by
`translate/gen_networks.py` from the live objects of every module under `pycoin/symbols/`).

`addr*` is what `AddressAPI` holds (used to *produce* addresses), `parse*` what `ParseAPI` holds (used to
*parse* text), `out*` the prefix found by probing the `wif_for_blob` / `bipNN_as_string` closures.
-/
namespace Pycoin.Addr

/-- which hash supplies the four checksum bytes of a Base58Check text: `double_sha256` (`encoding/b58.py`,
`parseable_str.parse_b58_double_sha256`) or `groestlHash` (`coins/groestlcoin/hash.py`: the Groestlcoin family).
Found per network and per code path by the translator, by probing (translate/gen_networks.py). -/
inductive HashKind | sha256d | groestl
  deriving Repr, DecidableEq

structure Network where
  module : String
  symbol : String
  registered : Bool
  networkName : String
  subnetName : String
  addrP2pkh : Option Bytes
  addrP2sh : Option Bytes
  addrHrp : Option String
  parseP2pkh : Option Bytes
  parseP2sh : Option Bytes
  parseHrp : Option String
  parseWif : Option Bytes
  outWif : Option Bytes
  /-- `sec_prefix`: a `str` when given as `sec_prefix=` (or defaulted to `"<SYMBOL>SEC"`), `bytes` when given as hex -/
  secPrefix : Option (String ⊕ Bytes)
  parseBip32Prv : Option Bytes
  parseBip32Pub : Option Bytes
  parseBip49Prv : Option Bytes
  parseBip49Pub : Option Bytes
  parseBip84Prv : Option Bytes
  parseBip84Pub : Option Bytes
  outBip32Prv : Option Bytes
  outBip32Pub : Option Bytes
  outBip49Prv : Option Bytes
  outBip49Pub : Option Bytes
  outBip84Prv : Option Bytes
  outBip84Pub : Option Bytes
  parseApi : String
  txClass : String
  /-- checksum hash `parse.parse_b58_hashed` accepts (`ParseAPI`: double SHA-256; `GRSParseAPI`: Groestl) -/
  hashParse : HashKind
  /-- checksum hash of `address.b2a` (what `for_p2pkh` / `for_p2sh` write) -/
  hashAddr : HashKind
  /-- checksum hash of the `wif_for_blob` closure; for this and the next three: when the closure has no prefix it raises
  before hashing and the translator reports the parse side's kind (unobservable) -/
  hashWif : HashKind
  /-- checksum hash of the `bip32_as_string` / `bip49_as_string` / `bip84_as_string` closures -/
  hashBip32 : HashKind
  hashBip49 : HashKind
  hashBip84 : HashKind
  /-- parser entry points replaced on the instance by `none_parser` (grs.py, when `groestlcoin_hash` is not installed) -/
  disabled : List String
  deriving Repr, DecidableEq

/-- one token of the text `ContractAPI._SCRIPT_LOOKUP[type](info)` builds -/
inductive Tok
  | lit (t : String)        -- a literal token of the format string (an opcode name)
  | field (name : String)   -- `b2h(info[name])`
  | keys                    -- `" ".join(b2h(sk) for sk in sec_keys)`
  | m                       -- `"%d" % m`
  | n                       -- `"%d" % len(sec_keys)`
  deriving Repr, DecidableEq

end Pycoin.Addr
