import Pycoin.Model.Tx
/-!
C20 — model of the context-free checks of `pycoin/coins/bitcoin/Tx.py`:
`check`, `_check_tx_inout_count`, `_check_txs_out`, `_check_txs_in`, `_check_size_limit`, `is_coinbase`,
`bad_solution_count`.  `MAX_MONEY`/`MAX_TX_SIZE` per transaction class come from `Gen/TxLimits`.
-/
namespace Pycoin.TxCheck
open Pycoin Pycoin.Wire

/-- the `ValidationFailureError` messages, as tags; `raised` = another exception left `check` (`as_bin` can raise
`struct.error` inside `_check_size_limit`) -/
inductive CheckErr
  | txsOutEmpty            -- "txs_out = []"
  | txsInEmpty             -- "txs_in = []"
  | valueRange             -- "tx_out value negative or out of range"
  | totalRange             -- "tx_out total out of range"
  | duplicateInputs        -- "duplicate inputs"
  | badCoinbaseScriptSize  -- "bad coinbase script size"
  | prevoutNull            -- "prevout is null"
  | spendableReused        -- "spendable reused"
  | sizeLimit              -- "size > MAX_TX_SIZE"
  | raised (e : Err)
  deriving DecidableEq, Repr

def CheckErr.tag : CheckErr → String
  | .txsOutEmpty => "txs_out_empty"
  | .txsInEmpty => "txs_in_empty"
  | .valueRange => "value_range"
  | .totalRange => "total_range"
  | .duplicateInputs => "duplicate_inputs"
  | .badCoinbaseScriptSize => "bad_coinbase_script_size"
  | .prevoutNull => "prevout_null"
  | .spendableReused => "spendable_reused"
  | .sizeLimit => "size_limit"
  | .raised e => "raised:" ++ e.tag

/-- `_check_tx_inout_count` -/
def checkInoutCount (tx : Tx) : Except CheckErr Unit :=
  if tx.outs.isEmpty then .error .txsOutEmpty
  else if !tx.isCoinbase && tx.ins.isEmpty then .error .txsInEmpty
  else .ok ()

/-- the loop of `_check_txs_out`; `acc` is `nValueOut` -/
def checkTxsOutGo (maxMoney : Nat) : Int → List TxOut → Except CheckErr Unit
  | _, [] => .ok ()
  | acc, o :: os =>
    if o.value < 0 ∨ o.value > maxMoney then .error .valueRange
    else if acc + o.value > maxMoney then .error .totalRange
    else checkTxsOutGo maxMoney (acc + o.value) os

def checkTxsOut (c : Coin) (tx : Tx) : Except CheckErr Unit := checkTxsOutGo c.maxMoney 0 tx.outs

def outpoint (t : TxIn) : Bytes × Int := (t.prevHash, t.prevIndex)

/-- the `refs` loop of `_check_txs_in` (the set is a list here; only membership is used).
"prevout is null" is `tx_in.is_coinbase()` -/
def checkRefs : List (Bytes × Int) → List TxIn → Except CheckErr Unit
  | _, [] => .ok ()
  | refs, t :: ts =>
    if t.isCoinbase then .error .prevoutNull
    else if outpoint t ∈ refs then .error .spendableReused
    else checkRefs (outpoint t :: refs) ts

/-- `_check_txs_in`.  `TxIn` defines no `__eq__`, so `txs_in.count(x) > 1` holds only when the very same object sits
at two positions: `ids` gives an object identity to every position of `tx.ins`. -/
def checkTxsIn (tx : Tx) (ids : List Nat) : Except CheckErr Unit :=
  if ¬ ids.Nodup then .error .duplicateInputs
  else match tx.ins with
    | [t] =>
      -- `is_coinbase()` is `len(txs_in) == 1 and txs_in[0].is_coinbase()`
      if t.isCoinbase then
        if 2 ≤ t.script.length ∧ t.script.length ≤ 100 then .ok () else .error .badCoinbaseScriptSize
      else checkRefs [] [t]
    | ins => checkRefs [] ins

/-- `_check_size_limit`: measures `as_bin()`, the serialisation *with* witness data -/
def checkSizeLimit (c : Coin) (tx : Tx) : Except CheckErr Unit :=
  match tx.asBin with
  | .error e => .error (.raised e)
  | .ok b => if b.length > c.maxTxSize then .error .sizeLimit else .ok ()

/-- `Tx.check()` -/
def check (c : Coin) (tx : Tx) (ids : List Nat) : Except CheckErr Unit := do
  checkInoutCount tx
  checkTxsOut c tx
  checkTxsIn tx ids
  checkSizeLimit c tx

/-- `check` as a state transformer: the transaction after the call, and the verdict.  No sub-check assigns to a
field, so the state is handed through untouched. -/
def checkSt (c : Coin) (tx : Tx) (ids : List Nat) : Tx × Except CheckErr Unit := (tx, check c tx ids)

/-- `bad_solution_count`: 0 for a coinbase, otherwise the number of inputs whose `is_solution_ok(idx)` is false -/
def badSolutionCount (tx : Tx) (solutionOk : Nat → Bool) : Nat :=
  if tx.isCoinbase then 0
  else ((List.range tx.ins.length).filter (fun idx => !solutionOk idx)).length

end Pycoin.TxCheck
