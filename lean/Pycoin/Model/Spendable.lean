import Pycoin.Model.Tx
/-!
Model of `pycoin/coins/bitcoin/Spendable.py`: `stream`/`parse`/`as_bin`/`from_bin`, `as_text`/`from_text`,
`as_dict`/`from_dict`.  `str(int)` / `int(str)` are rendered by `intToDec` / `pyInt?` (sign and ASCII digits; the
whitespace, underscore and non-ASCII digit forms that Python's `int()` also accepts are outside the model).
-/
namespace Pycoin
open Pycoin.Wire

structure Spendable where
  coinValue : Int
  script : Bytes
  txHash : Bytes
  txOutIndex : Int
  blockIndexAvailable : Int
  doesSeemSpent : Int          -- `int(does_seem_spent)` as stored by the constructor
  blockIndexSpent : Int
  deriving DecidableEq, Repr

namespace Spendable

/-- `Spendable.stream(f, as_spendable)`: the `TxOut` part, then (`as_spendable`) hash, index, heights and the spent flag -/
def stream (s : Spendable) (asSpendable : Bool := false) : Except Err Bytes := do
  let o ← TxOut.stream ⟨s.coinValue, s.script⟩
  if asSpendable then
    let e ← streamStruct tbl F.spendable_stream
      [.bytes s.txHash, .int s.txOutIndex, .int s.blockIndexAvailable, .bool (s.doesSeemSpent != 0), .int s.blockIndexSpent]
    pure (o ++ e)
  else pure o

/-- `Spendable.parse`: `cls(*parse_struct(fmt, f))`; the constructor stores `int(does_seem_spent)` -/
def parse : Parser Spendable := fun b =>
  match parseStruct tbl F.spendable_parse b with
  | .error e => .error e
  | .ok ([.int v, .bytes sc, .bytes h, .int i, .int bia, .bool dss, .int bis], r) =>
    .ok (⟨v, sc, h, i, bia, if dss then 1 else 0, bis⟩, r)
  | .ok _ => .error .typeError

def asBin (s : Spendable) (asSpendable : Bool := false) : Except Err Bytes := s.stream asSpendable

/-- `from_bin(blob)`: what follows the record is ignored -/
def fromBin (blob : Bytes) : Except Err Spendable :=
  match parse blob with
  | .error e => .error e
  | .ok (s, _) => .ok s

/-! ### text form -/

def natToDec (n : Nat) : List Char := Nat.toDigits 10 n

/-- `str(v)` -/
def intToDec (v : Int) : List Char :=
  if v < 0 then '-' :: natToDec v.natAbs else natToDec v.toNat

def digitVal? (c : Char) : Option Nat :=
  if '0' ≤ c ∧ c ≤ '9' then some (c.toNat - 48) else none

def decGo : List Char → Nat → Option Nat
  | [], acc => some acc
  | c :: cs, acc =>
    match digitVal? c with
    | none => none
    | some d => decGo cs (10 * acc + d)

def decToNat? (s : List Char) : Option Nat :=
  match s with
  | [] => none
  | _ => decGo s 0

/-- `int(s)` for an optional sign followed by ASCII digits; anything else is a `ValueError` -/
def pyInt? (s : List Char) : Except Err Int :=
  match s with
  | [] => .error .valueError
  | c :: r =>
    if c = '-' then
      match decToNat? r with | some n => .ok (-(n : Int)) | none => .error .valueError
    else if c = '+' then
      match decToNat? r with | some n => .ok (n : Int) | none => .error .valueError
    else
      match decToNat? (c :: r) with | some n => .ok (n : Int) | none => .error .valueError

/-- `s.split(c)` -/
def splitGo (c : Char) : List Char → List Char → List (List Char)
  | [], cur => [cur.reverse]
  | x :: xs, cur => if x = c then cur.reverse :: splitGo c xs [] else splitGo c xs (x :: cur)

def split (c : Char) (s : List Char) : List (List Char) := splitGo c s []

def join (c : Char) : List (List Char) → List Char
  | [] => []
  | [p] => p
  | p :: ps => p ++ c :: join c ps

/-- `as_text()` -/
def asText (s : Spendable) : List Char :=
  join '/' [Tx.b2hRev s.txHash, intToDec s.txOutIndex, Tx.b2h s.script, intToDec s.coinValue,
    intToDec s.blockIndexAvailable, intToDec s.doesSeemSpent, intToDec s.blockIndexSpent]

/-- `from_text(text)`: missing trailing fields default to "0"; fewer than four fields cannot be unpacked -/
def fromText (text : List Char) : Except Err Spendable :=
  match (split '/' text ++ [['0'], ['0'], ['0']]).take 7 with
  | [hh, idx, sc, cv, bia, dss, bis] => do
    let h ← Tx.h2b hh
    let idx ← pyInt? idx
    let sc ← Tx.h2b sc
    let cv ← pyInt? cv
    let bia ← pyInt? bia
    let dss ← pyInt? dss
    let bis ← pyInt? bis
    pure ⟨cv, sc, h.reverse, idx, bia, if dss = 0 then 0 else 1, bis⟩
  | _ => .error .valueError

/-! ### dict form -/

/-- the JSON-style dictionary of `as_dict`; the last three keys are optional for `from_dict` -/
structure Dict where
  coinValue : Int
  scriptHex : List Char
  txHashHex : List Char
  txOutIndex : Int
  blockIndexAvailable : Option Int
  doesSeemSpent : Option Int
  blockIndexSpent : Option Int
  deriving DecidableEq, Repr

def asDict (s : Spendable) : Dict :=
  ⟨s.coinValue, Tx.b2h s.script, Tx.b2hRev s.txHash, s.txOutIndex, some s.blockIndexAvailable,
    some s.doesSeemSpent, some s.blockIndexSpent⟩

/-- `from_dict(d)`: `d.get(key, 0)` for the optional keys -/
def fromDict (d : Dict) : Except Err Spendable := do
  let sc ← Tx.h2b d.scriptHex
  let h ← Tx.h2b d.txHashHex
  pure ⟨d.coinValue, sc, h.reverse, d.txOutIndex, d.blockIndexAvailable.getD 0, d.doesSeemSpent.getD 0,
    d.blockIndexSpent.getD 0⟩

end Spendable
end Pycoin
