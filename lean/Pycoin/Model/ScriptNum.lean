import Pycoin.Py.Bytes
/-!
C12 — model of `pycoin/satoshi/IntStreamer.py` (`IntStreamer.int_to_script_bytes`,
`IntStreamer.int_from_script_bytes`), function for function.
-/
namespace Pycoin.ScriptNum

/-- exceptions of `IntStreamer`; printed as the Python class name -/
inductive NumErr | scriptError
  deriving DecidableEq, Repr

/-- the `while v >= 256: ba.append(v & 0xFF); v >>= 8` loop of `int_to_script_bytes`:
the bytes appended so far and the value of `v` on leaving the loop (`v & 0xFF = v % 256`, `v >> 8 = v / 256` on `v ≥ 0`) -/
def magLoop (v : Nat) : Bytes × Nat :=
  if 256 ≤ v then
    let r := magLoop (v / 256)
    (UInt8.ofNat (v % 256) :: r.1, r.2)
  else ([], v)
decreasing_by omega

/-- `IntStreamer.int_to_script_bytes(v)` -/
def intToScriptBytes (v : Int) : Bytes :=
  if v = 0 then []
  else
    let isNegative := decide (v < 0)
    let r := magLoop v.natAbs            -- `if is_negative: v = -v`, then the loop
    let last := UInt8.ofNat (r.2 % 256)  -- `ba.append(v & 0xFF)`
    if 128 ≤ last.toNat then r.1 ++ [last, if isNegative then 0x80 else 0]
    else if isNegative then r.1 ++ [last ||| 0x80]
    else r.1 ++ [last]

/-- `for b in ba[1:]: v <<= 8; v += b` -/
def accumulate (v : Nat) (rest : Bytes) : Nat := rest.foldl (fun acc b => acc * 256 + b.toNat) v

/-- `IntStreamer.int_from_script_bytes(s, require_minimal)`; `ba` is `s` reversed, so `ba[0]` is the last byte -/
def intFromScriptBytes (s : Bytes) (requireMinimal : Bool) : Except NumErr Int :=
  match s.reverse with
  | [] => .ok 0                                     -- `if len(s) == 0: return 0`
  | i :: rest =>
    let v := (i &&& 0x7F).toNat
    let second := match rest with                   -- `len(ba) <= 1 or (ba[1] & 0x80) == 0`
      | [] => true
      | b :: _ => (b &&& 0x80) == 0
    if requireMinimal && v == 0 && second then .error .scriptError
    else
      let isNegative := decide ((i &&& 0x80).toNat > 0)
      let v := accumulate v rest
      .ok (if isNegative then -(v : Int) else (v : Int))

end Pycoin.ScriptNum

namespace Pycoin.Spec

/-- Bitcoin Core `CScriptNum::CScriptNum(vch, fRequireMinimal)`: the minimal-encoding test, written from
`script.h`: "if the most-significant-byte — excluding the sign bit — is zero then we're not minimal, unless
there is more than one byte and the most significant bit of the second-most-significant byte is set". -/
def minimalNum (vch : Bytes) : Bool :=
  if vch.length > 0 then
    if (vch[vch.length - 1]?.map (fun b => b.toNat % 128 == 0)) == some true then
      if vch.length ≤ 1 then false
      else (vch[vch.length - 2]?.map (fun b => b.toNat / 128 == 0)) != some true
    else true
  else true

end Pycoin.Spec
