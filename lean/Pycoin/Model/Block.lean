import Pycoin.Model.Tx
import Pycoin.Model.Merkle
import Pycoin.Model.MsgCodec
import Pycoin.Gen.Messages
/-!
C14 — model of `pycoin/block.py`: `Block.parse`, `parse_as_header`, `from_bin`, `stream_header`,
`_stream_transactions`, `stream`, `as_bin`, `_calculate_hash`/`hash`, `id`, `set_txs`, `check_merkle_hash`.
The transaction class is the coin's (`Block.make_subclass(symbol, tx)`, `LTCBlock.Tx = LTCTx`).
Format strings come from `Gen/Messages.lean` (AST extraction), the letter table is `SATOSHI_STREAMER`'s.
-/
namespace Pycoin
open Pycoin.Wire Pycoin.Msg

structure Header where
  version : Int
  prev : Bytes
  merkleRoot : Bytes
  timestamp : Int
  difficulty : Int
  nonce : Int
  deriving DecidableEq, Repr

/-- a `Block` object: header fields and `txs` (empty for a header-only block) -/
structure Block where
  hdr : Header
  txs : List Tx
  deriving DecidableEq, Repr

namespace Block
open Pycoin.Gen.Messages (block_parse_as_header_parse block_stream_header_stream block_parse_parse_count
  block_stream_transactions_stream_count)

/-- `stream_header(f)` -/
def streamHeader (h : Header) : Except Wire.Err Bytes :=
  streamStruct tbl block_stream_header_stream
    [.int h.version, .bytes h.prev, .bytes h.merkleRoot, .int h.timestamp, .int h.difficulty, .int h.nonce]

/-- `parse_as_header(f)` -/
def parseAsHeader : Parser Header := fun b =>
  match parseStruct tbl block_parse_as_header_parse b with
  | .error e => .error e
  | .ok ([.int v, .bytes p, .bytes m, .int t, .int d, .int n], r) => .ok (⟨v, p, m, t, d, n⟩, r)
  | .ok _ => .error .typeError

/-- `_calculate_hash()` / `hash()` (the `__hash` cache is never hit: the attribute name is mangled on assignment only) -/
def hash (h : Header) : Except Wire.Err Bytes := (streamHeader h).map Pycoin.Hash.dsha256

/-- `id()` -/
def id (h : Header) : Except Wire.Err (List Char) := (hash h).map Tx.b2hRev

/-- `[tx.hash() for tx in self.txs]` -/
def txHashes (c : Coin) : List Tx → Except Wire.Err (List Bytes)
  | [] => .ok []
  | t :: ts =>
    match Tx.hash c t with
    | .error e => .error e
    | .ok h =>
      match txHashes c ts with
      | .error e => .error e
      | .ok hs => .ok (h :: hs)

/-- `check_merkle_hash()` -/
def checkMerkleHash (c : Coin) (h : Header) (txs : List Tx) : Except Msg.Err Unit :=
  match txHashes c txs with
  | .error e => .error (.wire e)
  | .ok hs =>
    match Merkle.merkle Pycoin.Hash.dsha256 hs with
    | .error _ => .error .indexError
    | .ok r => if r ≠ h.merkleRoot then .error .badMerkleRootError else .ok ()

/-- `set_txs(txs, check_merkle_hash)` -/
def setTxs (c : Coin) (h : Header) (txs : List Tx) (check : Bool := true) : Except Msg.Err Block :=
  if txs.isEmpty then .ok ⟨h, txs⟩
  else if check then
    match checkMerkleHash c h txs with
    | .error e => .error e
    | .ok () => .ok ⟨h, txs⟩
  else .ok ⟨h, txs⟩

/-- `Block.parse(f, include_transactions, check_merkle_hash)` -/
def parse (c : Coin) (includeTransactions : Bool := true) (check : Bool := true) : Bytes → Except Msg.Err (Block × Bytes) := fun b =>
  match parseAsHeader b with
  | .error e => .error (.wire e)
  | .ok (h, r) =>
    if includeTransactions then
      match parseStruct tbl block_parse_parse_count r with
      | .error e => .error (.wire e)
      | .ok ([.int n], r) =>
        match parseN (Tx.parse c) n.toNat r with
        | .error e => .error (.wire e)
        | .ok (txs, r) =>
          match setTxs c h txs check with
          | .error e => .error e
          | .ok blk => .ok (blk, r)
      | .ok _ => .error .typeError
    else .ok (⟨h, []⟩, r)

/-- `from_bin(bytes)` -/
def fromBin (c : Coin) (b : Bytes) : Except Msg.Err Block := (parse c true true b).map (·.1)

/-- `_stream_transactions(f)`: nothing at all for a block without transactions -/
def streamTransactions (txs : List Tx) : Except Wire.Err Bytes :=
  if txs.isEmpty then .ok []
  else
    match streamStruct tbl block_stream_transactions_stream_count [.int txs.length] with
    | .error e => .error e
    | .ok n =>
      match streamList (fun t => Tx.stream t) txs with
      | .error e => .error e
      | .ok body => .ok (n ++ body)

/-- `stream(f)` / `as_bin()` -/
def stream (blk : Block) : Except Wire.Err Bytes :=
  match streamHeader blk.hdr with
  | .error e => .error e
  | .ok h =>
    match streamTransactions blk.txs with
    | .error e => .error e
    | .ok t => .ok (h ++ t)

end Block

/-! ## Bitcoin Gold: `pycoin/coins/bgold/Block.py` (its own header layout; everything else inherited from `Block`) -/

structure BtgHeader where
  version : Int
  prev : Bytes
  merkleRoot : Bytes
  height : Int
  timestamp : Int
  difficulty : Int
  nonce : Bytes
  solution : Bytes
  deriving DecidableEq, Repr

structure BtgBlock where
  hdr : BtgHeader
  txs : List Tx
  deriving DecidableEq, Repr

namespace BtgBlock
open Pycoin.Gen.Messages (btgBlock_parse_as_header_parse btgBlock_parse_as_header_parse_2 btgBlock_stream_header_stream
  btgBlock_stream_header_stream_2 btgReserved block_parse_parse_count)

/-- `parse_as_header`: `parse_struct("L##L")`, `f.read(28)` (reserved, ignored, silently short), `parse_struct("LL#S")` -/
def parseAsHeader : Parser BtgHeader := fun b =>
  match parseStruct tbl btgBlock_parse_as_header_parse b with
  | .error e => .error e
  | .ok ([.int v, .bytes p, .bytes m, .int h], r) =>
    match parseStruct tbl btgBlock_parse_as_header_parse_2 (r.drop btgReserved.1) with
    | .error e => .error e
    | .ok ([.int t, .int d, .bytes n, .bytes s], r') => .ok (⟨v, p, m, h, t, d, n, s⟩, r')
    | .ok _ => .error .typeError
  | .ok _ => .error .typeError

/-- `stream_header` -/
def streamHeader (h : BtgHeader) : Except Wire.Err Bytes :=
  match streamStruct tbl btgBlock_stream_header_stream [.int h.version, .bytes h.prev, .bytes h.merkleRoot, .int h.height] with
  | .error e => .error e
  | .ok a =>
    match streamStruct tbl btgBlock_stream_header_stream_2 [.int h.timestamp, .int h.difficulty, .bytes h.nonce, .bytes h.solution] with
    | .error e => .error e
    | .ok c => .ok (a ++ (List.replicate btgReserved.2 0 ++ c))

/-- the inherited `Block.parse` with this header and `check_merkle_hash` -/
def parse (c : Coin) : Bytes → Except Msg.Err (BtgBlock × Bytes) := fun b =>
  match parseAsHeader b with
  | .error e => .error (.wire e)
  | .ok (h, r) =>
    match parseStruct tbl block_parse_parse_count r with
    | .error e => .error (.wire e)
    | .ok ([.int n], r) =>
      match parseN (Tx.parse c) n.toNat r with
      | .error e => .error (.wire e)
      | .ok (txs, r) =>
        if txs.isEmpty then .ok (⟨h, txs⟩, r)
        else
          match Block.txHashes c txs with
          | .error e => .error (.wire e)
          | .ok hs =>
            match Merkle.merkle Pycoin.Hash.dsha256 hs with
            | .error _ => .error .indexError
            | .ok root => if root ≠ h.merkleRoot then .error .badMerkleRootError else .ok (⟨h, txs⟩, r)
    | .ok _ => .error .typeError

def stream (blk : BtgBlock) : Except Wire.Err Bytes :=
  match streamHeader blk.hdr with
  | .error e => .error e
  | .ok h =>
    match Block.streamTransactions blk.txs with
    | .error e => .error e
    | .ok t => .ok (h ++ t)

end BtgBlock

/-! ## a `Block` object over time: public attributes can be reassigned, `hash()` keeps a cache attribute -/

/-- header fields, transactions, and the instance attribute `_Block__hash` (`none` = not set) -/
structure BlockObj where
  hdr : Header
  txs : List Tx
  cache : Option Bytes
  deriving Repr

inductive HdrField | version | prev | root | timestamp | difficulty | nonce
  deriving DecidableEq, Repr

inductive ObjStep
  | hash | id | asBin | streamHeader
  | setNonce (n : Int)                       -- `set_nonce(n)`
  | setInt (f : HdrField) (v : Int)          -- `blk.<field> = v`
  | setBytes (f : HdrField) (b : Bytes)
  | asBlockheader                            -- continue with `as_blockheader()`
  | asHex | prevId                           -- `as_hex()`, `previous_block_id()`: observers

namespace BlockObj
open Pycoin.Gen.Messages (block_hash_hasattr block_set_nonce_hasattr block_hash_attr)

/-- `hasattr(self, name)` as far as the cache attribute is concerned: string literals are not name-mangled, so only
the literal mangled name finds what `self.__hash = …` stored -/
def hasattrHash (o : BlockObj) (name : List Char) : Bool := name == block_hash_attr && o.cache.isSome

/-- `hash()`: `if not hasattr(self, <lit>): self.__hash = self._calculate_hash()`; `return self.__hash` -/
def hash (o : BlockObj) : Except Wire.Err (Bytes × BlockObj) :=
  if !(o.hasattrHash block_hash_hasattr) then
    match Block.hash o.hdr with
    | .error e => .error e
    | .ok h => .ok (h, { o with cache := some h })
  else
    match o.cache with
    | some h => .ok (h, o)
    | none => .error .attributeError

/-- `set_nonce(nonce)`: `self.nonce = nonce; if hasattr(self, <lit>): del self.__hash` -/
def setNonce (o : BlockObj) (n : Int) : BlockObj :=
  let o := { o with hdr := { o.hdr with nonce := n } }
  if o.hasattrHash block_set_nonce_hasattr then { o with cache := none } else o

def setInt (o : BlockObj) (f : HdrField) (v : Int) : BlockObj :=
  match f with
  | .version => { o with hdr := { o.hdr with version := v } }
  | .timestamp => { o with hdr := { o.hdr with timestamp := v } }
  | .difficulty => { o with hdr := { o.hdr with difficulty := v } }
  | .nonce => { o with hdr := { o.hdr with nonce := v } }
  | _ => o

def setBytes (o : BlockObj) (f : HdrField) (b : Bytes) : BlockObj :=
  match f with
  | .prev => { o with hdr := { o.hdr with prev := b } }
  | .root => { o with hdr := { o.hdr with merkleRoot := b } }
  | _ => o

/-- the state after a step (answers are produced by `hash` / `Block.stream…` on the state before it) -/
def step (o : BlockObj) : ObjStep → BlockObj
  | .hash | .id => match o.hash with | .ok (_, o') => o' | .error _ => o
  | .asBin | .streamHeader | .asHex | .prevId => o
  | .setNonce n => o.setNonce n
  | .setInt f v => o.setInt f v
  | .setBytes f b => o.setBytes f b
  | .asBlockheader => { hdr := o.hdr, txs := [], cache := none }

def run (o : BlockObj) : List ObjStep → BlockObj
  | [] => o
  | s :: ss => run (o.step s) ss

end BlockObj
end Pycoin
