import Pycoin.Model.Tx
import Pycoin.Model.Merkle
import Pycoin.Model.MsgCodec
import Pycoin.Gen.Messages
/-!
C14 — model of `pycoin/block.py`: `Block.parse`, `parse_as_header`, `from_bin`, `stream_header`,
`_stream_transactions`, `stream`, `as_bin`, `_calculate_hash`/`hash`, `id`, `set_txs`, `check_merkle_hash`.
The transaction class is the coin's (`Block.make_subclass(symbol, tx)`, `LTCBlock.Tx = LTCTx`).
Format strings come from `Gen/Messages.lean` (AST extraction), the letter table is `SATOSHI_STREAMER`'s.
-/
namespace Pycoin
open Pycoin.Wire Pycoin.Msg

structure Header where
  version : Int
  prev : Bytes
  merkleRoot : Bytes
  timestamp : Int
  difficulty : Int
  nonce : Int
  deriving DecidableEq, Repr

/-- a `Block` object: header fields and `txs` (empty for a header-only block) -/
structure Block where
  hdr : Header
  txs : List Tx
  deriving DecidableEq, Repr

namespace Block
open Pycoin.Gen.Messages (block_parse_as_header_parse block_stream_header_stream block_parse_parse_count
  block_stream_transactions_stream_count)

/-- `stream_header(f)` -/
def streamHeader (h : Header) : Except Wire.Err Bytes :=
  streamStruct tbl block_stream_header_stream
    [.int h.version, .bytes h.prev, .bytes h.merkleRoot, .int h.timestamp, .int h.difficulty, .int h.nonce]

/-- `parse_as_header(f)` -/
def parseAsHeader : Parser Header := fun b =>
  match parseStruct tbl block_parse_as_header_parse b with
  | .error e => .error e
  | .ok ([.int v, .bytes p, .bytes m, .int t, .int d, .int n], r) => .ok (⟨v, p, m, t, d, n⟩, r)
  | .ok _ => .error .typeError

/-- `_calculate_hash()` / `hash()` (the `__hash` cache is never hit: the attribute name is mangled on assignment only) -/
def hash (h : Header) : Except Wire.Err Bytes := (streamHeader h).map Pycoin.Hash.dsha256

/-- `id()` -/
def id (h : Header) : Except Wire.Err (List Char) := (hash h).map Tx.b2hRev

/-- `[tx.hash() for tx in self.txs]` -/
def txHashes (c : Coin) : List Tx → Except Wire.Err (List Bytes)
  | [] => .ok []
  | t :: ts =>
    match Tx.hash c t with
    | .error e => .error e
    | .ok h =>
      match txHashes c ts with
      | .error e => .error e
      | .ok hs => .ok (h :: hs)

/-- `check_merkle_hash()` -/
def checkMerkleHash (c : Coin) (h : Header) (txs : List Tx) : Except Msg.Err Unit :=
  match txHashes c txs with
  | .error e => .error (.wire e)
  | .ok hs =>
    match Merkle.merkle Pycoin.Hash.dsha256 hs with
    | .error _ => .error .indexError
    | .ok r => if r ≠ h.merkleRoot then .error .badMerkleRootError else .ok ()

/-- `set_txs(txs, check_merkle_hash)` -/
def setTxs (c : Coin) (h : Header) (txs : List Tx) (check : Bool := true) : Except Msg.Err Block :=
  if txs.isEmpty then .ok ⟨h, txs⟩
  else if check then
    match checkMerkleHash c h txs with
    | .error e => .error e
    | .ok () => .ok ⟨h, txs⟩
  else .ok ⟨h, txs⟩

/-- `Block.parse(f, include_transactions, check_merkle_hash)` -/
def parse (c : Coin) (includeTransactions : Bool := true) (check : Bool := true) : Bytes → Except Msg.Err (Block × Bytes) := fun b =>
  match parseAsHeader b with
  | .error e => .error (.wire e)
  | .ok (h, r) =>
    if includeTransactions then
      match parseStruct tbl block_parse_parse_count r with
      | .error e => .error (.wire e)
      | .ok ([.int n], r) =>
        match parseN (Tx.parse c) n.toNat r with
        | .error e => .error (.wire e)
        | .ok (txs, r) =>
          match setTxs c h txs check with
          | .error e => .error e
          | .ok blk => .ok (blk, r)
      | .ok _ => .error .typeError
    else .ok (⟨h, []⟩, r)

/-- `from_bin(bytes)` -/
def fromBin (c : Coin) (b : Bytes) : Except Msg.Err Block := (parse c true true b).map (·.1)

/-- `_stream_transactions(f)`: nothing at all for a block without transactions -/
def streamTransactions (txs : List Tx) : Except Wire.Err Bytes :=
  if txs.isEmpty then .ok []
  else
    match streamStruct tbl block_stream_transactions_stream_count [.int txs.length] with
    | .error e => .error e
    | .ok n =>
      match streamList (fun t => Tx.stream t) txs with
      | .error e => .error e
      | .ok body => .ok (n ++ body)

/-- `stream(f)` / `as_bin()` -/
def stream (blk : Block) : Except Wire.Err Bytes :=
  match streamHeader blk.hdr with
  | .error e => .error e
  | .ok h =>
    match streamTransactions blk.txs with
    | .error e => .error e
    | .ok t => .ok (h ++ t)

end Block
end Pycoin
