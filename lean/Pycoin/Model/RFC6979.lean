import Pycoin.Model.Curve
import Pycoin.Model.HmacSha256
/-!
C01 — model of `pycoin/ecdsa/rfc6979.py: deterministic_generate_k` with `hash_f = hashlib.sha256`.
-/
namespace Pycoin.RFC6979
open Pycoin Pycoin.Curve Pycoin.Hash

/-- `int.bit_length()` of a non-negative integer -/
def bitLength (n : Nat) : Nat := if n = 0 then 0 else Nat.log2 n + 1

/-- `int.to_bytes(k, "big")`: `OverflowError` on negative or too large values -/
def toBytesBE (v : Int) (k : Nat) : Except Err Bytes :=
  if v < 0 then .error .overflow
  else match beBytes? v.toNat k with
    | none => .error .overflow
    | some b => .ok b

def hashSize : Nat := 32

/-- the inner `while len(t) < order_size` loop: every pass appends `hash_size` bytes, so it runs
`⌈order_size / hash_size⌉` times -/
def genT (k : Bytes) : Nat → Bytes → Bytes → Bytes × Bytes
  | 0, v, t => (v, t)
  | m + 1, v, t =>
    let v := hmacSha256L k v
    genT k m v (t ++ v)

/-- the outer `while 1` loop (no termination argument exists: it depends on HMAC outputs; fuel) -/
def kLoop (n : Nat) (bln orderSize : Nat) : Nat → Bytes → Bytes → Except Err Int
  | 0, _, _ => .error .outOfFuel
  | f + 1, k, v =>
    let (v, t) := genT k ((orderSize + hashSize - 1) / hashSize) v []
    let k1 := beNat t >>> (t.length * 8 - bln)
    if 1 ≤ k1 ∧ k1 < n then .ok (k1 : Int)
    else
      let k := hmacSha256L k (v ++ [0])
      let v := hmacSha256L k v
      kLoop n bln orderSize f k v

/-- `deterministic_generate_k(generator_order, secret_exponent, val)` -/
def deterministicGenerateKFuel (fuel : Nat) (n : Nat) (d val : Int) : Except Err Int :=
  let bln := bitLength n
  let orderSize := (bln + 7) / 8
  let v : Bytes := List.replicate hashSize 1
  let k : Bytes := List.replicate hashSize 0
  match toBytesBE d orderSize with
  | .error e => .error e
  | .ok priv =>
    let val := if 8 * hashSize > bln then val >>> (8 * hashSize - bln) else val
    let val := if val ≥ n then val - n else val
    match toBytesBE val orderSize with
    | .error e => .error e
    | .ok h1 =>
      let k := hmacSha256L k (v ++ [0] ++ priv ++ h1)
      let v := hmacSha256L k v
      let k := hmacSha256L k (v ++ [1] ++ priv ++ h1)
      let v := hmacSha256L k v
      kLoop n bln orderSize fuel k v

/-- fuel used by the driver and by `sign`: each retry succeeds with probability ≥ 1/2 -/
def defaultFuel : Nat := 1000

def deterministicGenerateK (n : Nat) (d val : Int) : Except Err Int :=
  deterministicGenerateKFuel defaultFuel n d val

/-- `Generator.sign_with_recid(d, val)` with the default `gen_k` -/
def signWithRecid (c : CurveParams) (bf d val : Int) : Except Err (Int × Int × Int) :=
  Curve.signWithRecid c bf deterministicGenerateK d val

/-- `Generator.sign(d, val)` with the default `gen_k` -/
def sign (c : CurveParams) (bf d val : Int) : Except Err (Int × Int) :=
  Curve.sign c bf deterministicGenerateK d val

end Pycoin.RFC6979
