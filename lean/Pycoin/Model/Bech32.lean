import Pycoin.Py.Bytes
import Pycoin.Gen.Codecs
/-!
C11 — model of `pycoin/contrib/bech32m.py` (sipa's reference: `bech32_polymod`, `bech32_hrp_expand`,
`bech32_verify_checksum`, `bech32_create_checksum`, `bech32_encode`, `bech32_decode`, `convertbits`,
`decode`, `encode`) and of `parseable_str.parse_bech32_or_32m`.

A Python `str` is a `List Char` (code points); Python `int`s that the code never makes negative are `Nat`
with Python's `>>`, `<<`, `&`, `|`, `^` rendered by the same operators on `Nat` (unbounded, as in Python).
Callers passing negative integers (`witver < 0`, negative data values) are outside the model.
-/
namespace Pycoin.Bech32
open Pycoin.Gen.Codecs

/-- `class Encoding`: `BECH32 = 1`, `BECH32M = 2` (the integer tags are `Gen.Codecs.encBech32/encBech32m`) -/
inductive Encoding | bech32 | bech32m
  deriving DecidableEq, Repr

inductive Err | indexError
  deriving DecidableEq, Repr

/-- one round of the `for value in values` loop of `bech32_polymod`.
`for i in range(5): chk ^= generator[i] if ((top >> i) & 1) else 0` is a fold over the enumerated generator list
(`Props/C11` checks `bech32Generator.length = 5 = polymodRange`). -/
def polymodStep (chk value : Nat) : Nat :=
  let top := chk >>> 25
  let chk := ((chk &&& 0x1FFFFFF) <<< 5) ^^^ value
  bech32Generator.zipIdx.foldl (fun c gi => c ^^^ (if (top >>> gi.2) &&& 1 ≠ 0 then gi.1 else 0)) chk

/-- `bech32_polymod(values)` -/
def polymod (values : List Nat) : Nat := values.foldl polymodStep 1

/-- `bech32_hrp_expand(hrp)` -/
def hrpExpand (hrp : List Char) : List Nat :=
  hrp.map (fun x => x.toNat >>> 5) ++ [0] ++ hrp.map (fun x => x.toNat &&& 31)

/-- `bech32_verify_checksum(hrp, data)` -/
def verifyChecksum (hrp : List Char) (data : List Nat) : Option Encoding :=
  let const := polymod (hrpExpand hrp ++ data)
  if const = 1 then some .bech32
  else if const = bech32mConst then some .bech32m
  else none

def specConst : Encoding → Nat
  | .bech32m => bech32mConst
  | .bech32 => 1

/-- `bech32_create_checksum(hrp, data, spec)` -/
def createChecksum (hrp : List Char) (data : List Nat) (spec : Encoding) : List Nat :=
  let values := hrpExpand hrp ++ data
  let pm := polymod (values ++ [0, 0, 0, 0, 0, 0]) ^^^ specConst spec
  (List.range 6).map (fun i => (pm >>> (5 * (5 - i))) &&& 31)

/-- `bech32_encode(hrp, data, spec)`; `CHARSET[d]` raises `IndexError` for `d ≥ 32` -/
def bech32Encode (hrp : List Char) (data : List Nat) (spec : Encoding) : Except Err (List Char) :=
  let combined := data ++ createChecksum hrp data spec
  match combined.mapM (fun d => bech32Charset[d]?) with
  | none => .error .indexError
  | some cs => .ok (hrp ++ ['1'] ++ cs)

/-- `str.rfind(c)`: `none` is Python's `-1` -/
def rfind (c : Char) : List Char → Option Nat
  | [] => none
  | x :: xs =>
    match rfind c xs with
    | some i => some (i + 1)
    | none => if x = c then some 0 else none

/-- `str.lower()` / `str.upper()`; only ever applied to strings of code points 33..126 (the test before it
short-circuits), where they are the ASCII maps -/
def lower (s : List Char) : List Char := s.map Char.toLower
def upper (s : List Char) : List Char := s.map Char.toUpper

/-- `CHARSET.find(x)` guarded by `x in CHARSET` -/
def charsetFind (x : Char) : Option Nat := bech32Charset.idxOf? x

/-- `bech32_decode(bech, max_length)`; `none` is `(None, None, None)` -/
def bech32Decode (bech : List Char) (maxLength : Nat := bech32MaxLength) : Option (List Char × List Nat × Encoding) :=
  if bech.any (fun x => x.toNat < 33 ∨ x.toNat > 126) ∨ (lower bech ≠ bech ∧ upper bech ≠ bech) then none
  else
    let bech := lower bech
    match rfind '1' bech with
    | none => none                                   -- pos = -1 < 1
    | some pos =>
      if pos < 1 ∨ pos + 7 > bech.length ∨ bech.length > maxLength then none
      else
        -- `all(x in CHARSET ...)` then `[CHARSET.find(x) ...]`
        match (bech.drop (pos + 1)).mapM charsetFind with
        | none => none
        | some data =>
          let hrp := bech.take pos
          match verifyChecksum hrp data with
          | none => none
          | some spec => some (hrp, data.take (data.length - 6), spec)

/-- the inner `while bits >= tobits` loop of `convertbits` (`tobits = 0` would never leave it) -/
def drain (tobits : Nat) (ht : 0 < tobits) (maxv acc : Nat) (bits : Nat) (ret : List Nat) : Nat × List Nat :=
  if _h : bits ≥ tobits then
    drain tobits ht maxv acc (bits - tobits) (ret ++ [(acc >>> (bits - tobits)) &&& maxv])
  else (bits, ret)
termination_by bits
decreasing_by omega

/-- the `for value in data` loop; state `(acc, bits, ret)` -/
def convertLoop (frombits tobits : Nat) (ht : 0 < tobits) (maxv maxAcc : Nat) :
    List Nat → Nat → Nat → List Nat → Option (Nat × Nat × List Nat)
  | [], acc, bits, ret => some (acc, bits, ret)
  | value :: rest, acc, bits, ret =>
    if value >>> frombits ≠ 0 then none
    else
      let acc := ((acc <<< frombits) ||| value) &&& maxAcc
      let (bits, ret) := drain tobits ht maxv acc (bits + frombits) ret
      convertLoop frombits tobits ht maxv maxAcc rest acc bits ret

/-- `convertbits(data, frombits, tobits, pad)` -/
def convertbits (data : List Nat) (frombits tobits : Nat) (ht : 0 < tobits) (pad : Bool) : Option (List Nat) :=
  let maxv := (1 <<< tobits) - 1
  let maxAcc := (1 <<< (frombits + tobits - 1)) - 1
  match convertLoop frombits tobits ht maxv maxAcc data 0 0 [] with
  | none => none
  | some (acc, bits, ret) =>
    if pad then
      if bits ≠ 0 then some (ret ++ [(acc <<< (tobits - bits)) &&& maxv]) else some ret
    else if bits ≥ frombits ∨ ((acc <<< (tobits - bits)) &&& maxv) ≠ 0 then none
    else some ret

theorem pos5 : 0 < 5 := by decide
theorem pos8 : 0 < 8 := by decide

/-- `decode(hrp, addr)`; `none` is `(None, None)`.
`data[1:]`/`data[0]`: for empty `data` Python computes `convertbits([], 5, 8, False) = []` and leaves at the
`len(decoded) < 2` test before `data[0]` is looked at — that is the `[]` branch. -/
def decode (hrp : List Char) (addr : List Char) : Option (Nat × List Nat) :=
  match bech32Decode addr with
  | none => none
  | some (hrpgot, data, spec) =>
    if hrpgot ≠ hrp then none
    else
      match data with
      | [] => none
      | ver :: rest =>
        match convertbits rest 5 8 pos8 false with
        | none => none
        | some decoded =>
          if decoded.length < 2 ∨ decoded.length > 40 then none
          else if ver > 16 then none
          else if ver = 0 ∧ decoded.length ≠ 20 ∧ decoded.length ≠ 32 then none
          else if (ver = 0 ∧ spec ≠ .bech32) ∨ (ver ≠ 0 ∧ spec ≠ .bech32m) then none
          else some (ver, decoded)

/-- `encode(hrp, witver, witprog)`; `.ok none` is `None`, `IndexError` comes from `CHARSET[witver]` for `witver ≥ 32` -/
def encode (hrp : List Char) (witver : Nat) (witprog : List Nat) : Except Err (Option (List Char)) :=
  let spec := if witver = 0 then Encoding.bech32 else Encoding.bech32m
  match convertbits witprog 8 5 pos5 true with
  | none => .ok none
  | some converted =>
    match bech32Encode hrp (witver :: converted) spec with
    | .error e => .error e
    | .ok ret =>
      if decode hrp ret = none then .ok none else .ok (some ret)

/-- `parseable_str.parse_bech32_or_32m(s)` (and `parse_bech32`, its cached form: exceptions ↦ `None`).
`version = data[0]` raises `IndexError` on empty data, which `cache` turns into `None`; a failed
`convertbits` yields empty `decoded_data`, not a failure. -/
def parseBech32 (s : List Char) : Option (List Char × Nat × List Nat × Encoding) :=
  match bech32Decode s with
  | none => none
  | some (hrp, data, spec) =>
    match data with
    | [] => none
    | version :: rest =>
      let decoded := convertbits rest 5 8 pos8 false
      some (hrp, version, decoded.getD [], spec)   -- `decoded or []`

end Pycoin.Bech32
