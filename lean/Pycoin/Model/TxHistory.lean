import Pycoin.Model.TxCheck
/-!
Histories on ONE transaction object: observers (`id`, `hash`, `w_id`, `w_hash`, `as_bin`, `as_hex`, `blanked_hash`,
`check`, `is_coinbase`, `bad_solution_count`, …) interleaved with in-place mutators (attribute assignment on the
object, on its inputs and outputs, `set_witness`, list `append`/`del`, `set_unspents`).

The model has no cache: an observer is the stateless function of `Model/Tx.lean` / `Model/TxCheck.lean` applied to
the fields as they are at that step.  The code must not behave as if it had one.
-/
namespace Pycoin.History
open Pycoin Pycoin.Wire Pycoin.TxCheck

/-- in-place mutators (indexes are non-negative; an index past the end is Python's `IndexError`) -/
inductive Mut
  | script (i : Nat) (s : Bytes)              -- `tx.txs_in[i].script = s`
  | witness (i : Nat) (w : List Bytes)        -- `tx.txs_in[i].witness = w`
  | setWitness (i : Nat) (w : List Bytes)     -- `tx.set_witness(i, w)`
  | sequence (i : Nat) (v : Int)              -- `tx.txs_in[i].sequence = v`
  | prevIndex (i : Nat) (v : Int)             -- `tx.txs_in[i].previous_index = v`
  | prevHash (i : Nat) (h : Bytes)            -- `tx.txs_in[i].previous_hash = h`
  | outValue (j : Nat) (v : Int)              -- `tx.txs_out[j].coin_value = v`
  | outScript (j : Nat) (s : Bytes)           -- `tx.txs_out[j].script = s`
  | addIn (t : TxIn)                          -- `tx.txs_in.append(TxIn(..))` (a fresh object)
  | delIn (i : Nat)                           -- `del tx.txs_in[i]`
  | addOut (o : TxOut)                        -- `tx.txs_out.append(TxOut(..))`
  | delOut (j : Nat)                          -- `del tx.txs_out[j]`
  | version (v : Int)                         -- `tx.version = v`
  | lockTime (v : Int)                        -- `tx.lock_time = v`
  | unspents (us : List (Option TxOut))       -- `tx.set_unspents(us)`

inductive Obs
  | id | hash | wId | wHash | blankedHash | asBin | binLen | asHex | asBinU
  | check | isCoinbase | badSolutionCount
  deriving DecidableEq, Repr

inductive Step
  | mut (m : Mut)
  | obs (o : Obs)

/-- the object: its fields and `tx.unspents` -/
structure St where
  tx : Tx
  unspents : List (Option TxOut)

inductive MutErr | indexError | valueError
  deriving DecidableEq, Repr

/-- what a step answers -/
inductive Ans
  | mutOk
  | mutErr (e : MutErr)
  | bytes (r : Except Err Bytes)
  | chars (r : Except Err (List Char))
  | nat (r : Except Err Nat)
  | check (r : Except CheckErr Unit)
  | bool (b : Bool)
  | count (n : Option Nat)      -- `none`: not modelled (real unspents present: the script interpreter would run)

def modifyAt {α : Type} : List α → Nat → (α → α) → Option (List α)
  | [], _, _ => none
  | a :: as, 0, f => some (f a :: as)
  | a :: as, i + 1, f => (modifyAt as i f).map (a :: ·)

def removeAt {α : Type} : List α → Nat → Option (List α)
  | [], _ => none
  | _ :: as, 0 => some as
  | a :: as, i + 1 => (removeAt as i).map (a :: ·)

def onIn (st : St) (i : Nat) (f : TxIn → TxIn) : Except MutErr St :=
  match modifyAt st.tx.ins i f with
  | none => .error .indexError
  | some ins => .ok { st with tx := { st.tx with ins := ins } }

def onOut (st : St) (j : Nat) (f : TxOut → TxOut) : Except MutErr St :=
  match modifyAt st.tx.outs j f with
  | none => .error .indexError
  | some outs => .ok { st with tx := { st.tx with outs := outs } }

def applyMut (st : St) : Mut → Except MutErr St
  | .script i s => onIn st i (fun t => { t with script := s })
  | .witness i w => onIn st i (fun t => { t with witness := w })
  | .setWitness i w => onIn st i (fun t => { t with witness := w })
  | .sequence i v => onIn st i (fun t => { t with sequence := v })
  | .prevIndex i v => onIn st i (fun t => { t with prevIndex := v })
  | .prevHash i h => onIn st i (fun t => { t with prevHash := h })
  | .outValue j v => onOut st j (fun t => { t with value := v })
  | .outScript j s => onOut st j (fun t => { t with script := s })
  | .addIn t => .ok { st with tx := { st.tx with ins := st.tx.ins ++ [t] } }
  | .delIn i =>
    match removeAt st.tx.ins i with
    | none => .error .indexError
    | some ins => .ok { st with tx := { st.tx with ins := ins } }
  | .addOut o => .ok { st with tx := { st.tx with outs := st.tx.outs ++ [o] } }
  | .delOut j =>
    match removeAt st.tx.outs j with
    | none => .error .indexError
    | some outs => .ok { st with tx := { st.tx with outs := outs } }
  | .version v => .ok { st with tx := { st.tx with version := v } }
  | .lockTime v => .ok { st with tx := { st.tx with lockTime := v } }
  | .unspents us =>
    if us.length ≠ st.tx.ins.length then .error .valueError   -- "wrong number of unspents"
    else .ok { st with unspents := us }

/-- an observer: the stateless function applied to the current fields (every input is its own object) -/
def observe (c : Coin) (st : St) : Obs → Ans
  | .id => .chars (Tx.id c st.tx)
  | .hash => .bytes (Tx.hash c st.tx)
  | .wId => .chars (Tx.wId c st.tx)
  | .wHash => .bytes (Tx.wHash c st.tx)
  | .blankedHash => .bytes (Tx.blankedHash c st.tx)
  | .asBin => .bytes st.tx.asBin
  | .binLen => .nat (st.tx.asBin.map List.length)
  | .asHex => .chars st.tx.asHex
  | .asBinU => .bytes (st.tx.asBin st.unspents true)
  | .check => .check (check c st.tx (List.range st.tx.ins.length))
  | .isCoinbase => .bool st.tx.isCoinbase
  | .badSolutionCount =>
    .count (if st.unspents.all Option.isNone then some (badSolutionCount st.tx (fun _ => false)) else none)

def step (c : Coin) (st : St) : Step → St × Ans
  | .mut m =>
    match applyMut st m with
    | .ok st' => (st', .mutOk)
    | .error e => (st, .mutErr e)
  | .obs o => (st, observe c st o)

/-- the answers of a history, in order -/
def run (c : Coin) : St → List Step → List Ans
  | _, [] => []
  | st, s :: ss => (step c st s).2 :: run c (step c st s).1 ss

/-- the object after a history -/
def after (c : Coin) (st : St) (hist : List Step) : St := hist.foldl (fun st s => (step c st s).1) st

end Pycoin.History
