import Pycoin.Model.Sha256
import Pycoin.Model.Sha512
/-!
HMAC (FIPS 198-1 / RFC 2104) over the SHA-256 and SHA-512 models.  Python's
`hmac.new(key, msg, hashlib.shaXXX).digest()` is *modelled* by these functions
(validated against the `hmac` module by the C19 correspondence check on every run).
-/
namespace Pycoin.Hash

/-- HMAC over hash `h` with block size `blk` bytes -/
def hmacWith (h : Bytes → Bytes) (blk : Nat) (key msg : Bytes) : Bytes :=
  let k0 := if key.length > blk then h key else key
  let k := k0 ++ List.replicate (blk - k0.length) 0
  h (k.map (· ^^^ 0x5c) ++ h (k.map (· ^^^ 0x36) ++ msg))

def hmacSha256 (key msg : Bytes) : Bytes := hmacWith sha256 64 key msg

def hmacSha512 (key msg : Bytes) : Bytes := hmacWith sha512 128 key msg

end Pycoin.Hash
