import Pycoin.Model.Sha256
/-!
HMAC-SHA256 (RFC 2104 / FIPS 198-1) on top of `Pycoin.Hash.sha256`: what
`hmac.new(key, msg, hashlib.sha256).digest()` computes.  Small and separately named so that a general
`Hmac.lean` can replace it.
-/
namespace Pycoin.Hash

def hmacBlock256 : Nat := 64

/-- key longer than a block is hashed first, then zero-padded to the block size -/
def hmacKey256 (key : Bytes) : Bytes :=
  let k := if key.length > hmacBlock256 then sha256 key else key
  k ++ List.replicate (hmacBlock256 - k.length) 0

def hmacSha256 (key msg : Bytes) : Bytes :=
  let k := hmacKey256 key
  let ipad := k.map (· ^^^ 0x36)
  let opad := k.map (· ^^^ 0x5c)
  sha256 (opad ++ sha256 (ipad ++ msg))

end Pycoin.Hash
