import Pycoin.Model.Sha256
/-!
HMAC-SHA256 (RFC 2104 / FIPS 198-1) on top of `Pycoin.Hash.sha256`: what
`hmac.new(key, msg, hashlib.sha256).digest()` computes.  Named `hmacSha256L` (local) so that it does not clash with
`Pycoin.Hash.hmacSha256` of the hash builder's `Model/Hmac.lean` (same function: `hmacWith sha256 64`); small so that the general
`Hmac.lean` can replace it.
-/
namespace Pycoin.Hash

def hmacBlock256L : Nat := 64

/-- key longer than a block is hashed first, then zero-padded to the block size -/
def hmacKey256L (key : Bytes) : Bytes :=
  let k := if key.length > hmacBlock256L then sha256 key else key
  k ++ List.replicate (hmacBlock256L - k.length) 0

def hmacSha256L (key msg : Bytes) : Bytes :=
  let k := hmacKey256L key
  let ipad := k.map (· ^^^ 0x36)
  let opad := k.map (· ^^^ 0x5c)
  sha256 (opad ++ sha256 (ipad ++ msg))

end Pycoin.Hash
