import Pycoin.Model.Constraints
/-!
C05 — the symbolic machinery of the solver, second half: from constraints to the solution.

* `pycoin/solve/ConstraintSolver.py`: `CONSTANT`/`VAR`/`LIST.match`, `constraint_matches`, `solutions_for_constraint`
  (the three registered patterns, in the registration order of the generated `Gen.Solve.solverOrder`);
* `pycoin/solve/some_solvers.py`: the factories `hash_lookup_solver`, `constant_equality_solver`, `signing_solver`
  (targets, dependencies; the functions themselves are `Model/Sign.lean`'s);
* `pycoin/coins/bitcoin/Solver.py`: `Solver.solve_for_constraints` (the `while progress` loop, atoms ordered by their
  number, highest first) and `Solver.solve`.
-/
namespace Pycoin.Solve
open Pycoin Pycoin.Sign

/-- `Operator.dependencies()` / `Atom.dependencies()`: arguments without a `dependencies` attribute (bytes, lists, the sighash
closure) contribute nothing — so `SIGNATURES_CORRECT` has none -/
def Term.deps : Term → List Atom
  | .const _ => []
  | .atom a => [a]
  | .hash160 t => t.deps
  | .equal a b => a.deps ++ b.deps
  | .isPubkey t => t.deps
  | .isSignature t => t.deps
  | .sigsCorrect _ _ _ _ => []

/-- `isinstance(a, Atom)` for an element of a `SIGNATURES_CORRECT` list -/
def Leaf.atom? : Leaf → Option Atom
  | .atom a => some a
  | .const _ => none

/-- what a solver factory returns: `(solution_f, target atoms, dependency atoms)` -/
inductive Sol
  /-- `hash_lookup_solver`: `m["the_hash"]`, `m["1"]` -/
  | hashLookup (theHash : Bytes) (target : Atom)
  /-- `constant_equality_solver`: `m["var"]`, `m["const"]` -/
  | constEq (var : Atom) (const : Bytes)
  /-- `signing_solver`: `m["sec_list"]`, `m["sig_list"]`, `m["signature_for_hash_type_f"]` -/
  | signing (secs : List Leaf) (sigs : List Atom) (witness : Bool) (code : Bytes)
  deriving DecidableEq, Repr

def Sol.targets : Sol → List Atom
  | .hashLookup _ t => [t]
  | .constEq v _ => [v]
  | .signing _ sigs _ _ => sigs

/-- `[a for a in m["sec_list"] if isinstance(a, Atom)]`; `()` for the other two -/
def Sol.deps : Sol → List Atom
  | .signing secs _ _ _ => secs.filterMap Leaf.atom?
  | _ => []

/-- `constraint_matches(c, pattern)` for the pattern of one registered solver, and the factory applied to the match.
`CONSTANT` matches what is not an `Atom`, `VAR` an `Atom` that is not an `Operator`, `LIST` a list.
A signature list that holds a constant would put a `bytes` key into `solved_values` (`k.name` then fails): `unsupported`. -/
def matchSolver : Gen.Solve.SolverId → Term → Option (Except Sign.Err Sol)
  | .hashLookup, .equal (.const h) (.hash160 (.atom v)) => some (.ok (.hashLookup h v))
  | .constantEquality, .equal (.atom v) (.const c) => some (.ok (.constEq v c))
  | .signing, .sigsCorrect secs sigs w code =>
    match sigs.mapM Leaf.atom? with
    | some atoms => some (.ok (.signing secs atoms w code))
    | none => some (.error .unsupported)
  | .unknown _, _ => some (.error .unsupported)
  | _, _ => none

/-- `ConstraintSolver.solutions_for_constraint(c)`: the first registered pattern that matches -/
def solutionsForConstraint (c : Term) : List Gen.Solve.SolverId → Except Sign.Err (Option Sol)
  | [] => .ok none
  | id :: r =>
    match matchSolver id c with
    | some (.ok s) => .ok (some s)
    | some (.error e) => .error e
    | none => solutionsForConstraint c r

/-- `for c in constraints: s = self.solutions_for_constraint(c); if s: solutions.append(s)` -/
def collectSolutions : List Term → Except Sign.Err (List Sol)
  | [] => .ok []
  | c :: r =>
    match solutionsForConstraint c Gen.Solve.solverOrder with
    | .error e => .error e
    | .ok o =>
      match collectSolutions r with
      | .error e => .error e
      | .ok l => .ok (match o with | some s => s :: l | none => l)

/-- the dict `solved_values`: every dependency atom once, `none` = `None` -/
abbrev Solved := List (Atom × Option Bytes)

def Solved.get (sv : Solved) (a : Atom) : Option (Option Bytes) := (sv.find? (·.1 = a)).map (·.2)

/-- `solved_values[k] = v` -/
def Solved.set (a : Atom) (v : Bytes) : Solved → Solved
  | [] => [(a, some v)]
  | (k, old) :: r => if k = a then (k, some v) :: r else (k, old) :: Solved.set a v r

/-- `solved_values.update(s)` -/
def Solved.update (sv : Solved) : List (Atom × Bytes) → Solved
  | [] => sv
  | (a, v) :: r => Solved.update (sv.set a v) r

def dedup : List Atom → List Atom
  | [] => []
  | a :: r => if a ∈ r then dedup r else a :: dedup r

/-- `deps = set(); for c in constraints: deps.update(c.dependencies()); solved_values = {d: None for d in deps}` -/
def initialSolved (constraints : List Term) : Solved := (dedup (constraints.flatMap Term.deps)).map (fun a => (a, none))

/-- `any(solved_values[d] is None for d in dependencies)`; a missing key is a `KeyError` (has no tag in `Sign.Err`; it
cannot happen for constraints produced by the symbolic run, where every listed key is also the argument of an `IS_PUBKEY`) -/
def depsUnsolved (sv : Solved) : List Atom → Except Sign.Err Bool
  | [] => .ok false
  | d :: r =>
    match sv.get d with
    | none => .error .unsupported
    | some none => .ok true
    | some (some _) => depsUnsolved sv r

/-- `solved_values.get(sec_key, sec_key)` -/
def Leaf.value (sv : Solved) : Leaf → Option Bytes
  | .const b => some b
  | .atom x => (sv.get x).join

/-- `solution(solved_values, **kwargs)`: the dict it returns -/
def Sol.apply (a : SolveArgs) (existing : List Bytes) (sv : Solved) : Sol → Except Sign.Err (List (Atom × Bytes))
  | .hashLookup h target =>
    match a.lookup h with
    | none => .error .solving
    | some e =>
      match publicPairToSec e.x e.y e.compressed with
      | .error er => .error er
      | .ok sec => .ok [(target, sec)]
  | .constEq v c => .ok [(v, c)]
  | .signing secs sigs w code =>
    -- `solved_values.get(sec_key, sec_key)` for every listed key
    match secs.mapM (Leaf.value sv) with
    | none => .error .unsupported                    -- excluded by the dependency test
    | some keys =>
      match signingSolver a.C a.lookup (a.sighash w code) keys sigs.length existing a.ht a.placeholder with
      | .error e => .error e
      | .ok vals =>
        -- `dict(zip(signature_variables, (es[-1] for es in existing_signatures)))`
        .ok ((sigs.zip vals).filterMap (fun p => p.2.map (fun v => (p.1, v))))

/-- one round of `for solution, target, dependencies in solutions:`; the new dict and `progress` -/
def solverPass (a : SolveArgs) (existing : List Bytes) : List Sol → Solved → Bool → Except Sign.Err (Solved × Bool)
  | [], sv, progress => .ok (sv, progress)
  | sol :: r, sv, progress =>
    if sol.targets.any (fun t => (sv.get t).join.isSome) then solverPass a existing r sv progress
    else
      match depsUnsolved sv sol.deps with
      | .error e => .error e
      | .ok true => solverPass a existing r sv progress
      | .ok false =>
        match sol.apply a existing sv with
        | .error e => .error e
        | .ok s => solverPass a existing r (sv.update s) (progress || !s.isEmpty)

/-- `while progress and None in solved_values.values():`.  Python has no syntactic bound; `fuel = len(solutions) + 1` rounds
suffice (`C05_solve_loop_fuel`): a round that makes progress blocks one more solution for good. -/
def solverLoop (a : SolveArgs) (existing : List Bytes) (sols : List Sol) : Nat → Solved → Except Sign.Err Solved
  | 0, sv => .ok sv
  | fuel + 1, sv =>
    if !sv.any (fun p => p.2.isNone) then .ok sv
    else
      match solverPass a existing sols sv false with
      | .error e => .error e
      | .ok (sv', progress) => if progress then solverLoop a existing sols fuel sv' else .ok sv'

def insertDesc (a : Atom) : List Atom → List Atom
  | [] => [a]
  | b :: r => if b.number ≤ a.number then a :: b :: r else b :: insertDesc a r

/-- `sorted(keys, key=atom_number, reverse=True)` (atom numbers of one letter are distinct) -/
def sortDesc : List Atom → List Atom
  | [] => []
  | a :: r => insertDesc a (sortDesc r)

/-- `[solved_values.get(k) for k in sorted((k for k in solved_values if k.name.startswith(letter)), …)]` -/
def valuesOf (sv : Solved) (isW : Bool) : List (Option Bytes) :=
  (sortDesc ((sv.map (·.1)).filter (fun k => k.isW == isW))).map (fun k => (sv.get k).join)

/-- `Solver.solve_for_constraints(constraints, **kwargs)`: `(solution_list, witness_list)` -/
def solveForConstraints (a : SolveArgs) (existing : List Bytes) (constraints : List Term) :
    Except Sign.Err (List (Option Bytes) × List (Option Bytes)) :=
  match collectSolutions constraints with
  | .error e => .error e
  | .ok sols =>
    match solverLoop a existing sols (sols.length + 1) (initialSolved constraints) with
    | .error e => .error e
    | .ok sv => .ok (valuesOf sv false, valuesOf sv true)

/-- `Solver.solve(hash160_lookup, tx_in_idx, hash_type, **kwargs)` through the machinery: the new script and, when
`witness_list` is not empty, the new witness.  `None` entries — atoms no solver assigned — are dropped from the script by
`compile_push_data_list`; in the witness list they stay (`none`). -/
def solve (a : SolveArgs) (ctx : VM.TxCtx) (puzzle script : Bytes) (witness : List Bytes) :
    Except Sign.Err (Bytes × Option (List (Option Bytes))) :=
  match existingScript script witness with
  | .error e => .error e
  | .ok existing =>
    match determineConstraints a.p2sh ctx puzzle with
    | .error e => .error e
    | .ok constraints =>
      match solveForConstraints a existing constraints with
      | .error e => .error e
      | .ok (sl, wl) =>
        match pushAll sl with
        | .error e => .error e
        | .ok sc => .ok (sc, if wl.isEmpty then none else some wl)

/-- one pass of the loop of `Solver.sign` with `solve` = the machinery (cf. `Sign.signOne`) -/
def signOne (a : SignArgs) (ctx : Nat → VM.TxCtx) (unspents : List (Option TxOut)) (ins : List TxIn) (idx : Nat) :
    Except Sign.Err (List TxIn) :=
  match ins[idx]? with
  | none => .error .index
  | some tin =>
    if a.valid idx then .ok ins
    else
      let puzzle := match unspents[idx]?.join with | some u => u.script | none => []
      let sa : SolveArgs := { C := a.C, lookup := a.lookup, p2sh := a.p2sh, sighash := a.sighash idx,
                              ht := effectiveHashType a.fork a.ht, placeholder := some Gen.Sign.defaultPlaceholder }
      match solve sa (ctx idx) puzzle tin.script tin.witness with
      | .ok (sc, none) => .ok (ins.set idx { tin with script := sc })
      | .ok (sc, some w) =>
        -- `set_witness(idx, witness_list)`; a `None` among the items (an atom of a non-standard script that no solver
        -- assigned) makes the transaction unusable later on: outside the model
        match w.mapM id with
        | some w => .ok (ins.set idx { tin with script := sc, witness := w })
        | none => .error .unsupported
      | .error e => if e.caughtBySign then .ok ins else .error e

end Pycoin.Solve
