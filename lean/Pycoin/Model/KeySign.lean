import Pycoin.Model.RFC6979
import Pycoin.Model.Der
import Pycoin.Model.KeyCtor
/-!
C01 — model of `pycoin/key/Key.py`: `Key.sign`, `Key.verify`, `Key.public_copy` (the DER wrapper applications use).

```
def sign(self, h):
    if not self.is_private(): raise RuntimeError(...)
    val = from_bytes_32(h)                                   # int.from_bytes(h, "big"): no length check
    r, s = self._generator.sign(self.secret_exponent(), val)
    return sigencode_der(r, s)
def verify(self, h, sig):
    try:
        val = from_bytes_32(h); pubkey = self.public_pair()
        return self._generator.verify(pubkey, val, sigdecode_der(sig, use_broken_open_ssl_mechanism=False))
    except (UnexpectedDER, ValueError):
        return False
```
`UnexpectedDER` derives from `Exception` (not from `ValueError`), `NoSuchPointError` from `ValueError`.  A `Key` is the record
of `Model/KeyCtor.lean` (secret exponent or `None`, public pair, compression flag): the methods read nothing else, and the
model answers every call from these fields — `Key` keeps no cache of signatures or of verification results.
-/
namespace Pycoin.KeySign
open Pycoin
open Pycoin.Curve (CurveParams Pt)
open Pycoin.KeyCtor (Key)

inductive Err
  | runtime                  -- RuntimeError ("Key must be private to be able to sign")
  | curve (e : Curve.Err)    -- whatever `Generator.sign` / `Generator.verify` raised
  | der (e : Der.Err)        -- whatever the DER codec raised
  deriving DecidableEq, Repr

def Err.tag : Err → String
  | .runtime => "RuntimeError"
  | .curve e => e.tag
  | .der e => e.tag

/-- `from_bytes_32(h)`: `int.from_bytes(h, byteorder="big")`, any length -/
def fromBytes32 (h : Bytes) : Int := (beNat h : Int)

/-- `Key.sign(h)` over the generator's `sign` method (`signF d val` = `self._generator.sign(d, val)`) -/
def keySignWith (signF : Int → Int → Except Curve.Err (Int × Int)) (k : Key) (h : Bytes) : Except Err Bytes :=
  match k.se with
  | none => .error .runtime
  | some d =>
    match signF d (fromBytes32 h) with
    | .error e => .error (.curve e)
    | .ok (r, s) =>
      match Der.sigencodeDer r s with
      | .error e => .error (.der e)
      | .ok blob => .ok blob

/-- `Key.sign(h)` with the default (RFC 6979) nonce of `Generator.sign` -/
def keySign (c : CurveParams) (bf : Int) (k : Key) (h : Bytes) : Except Err Bytes :=
  keySignWith (Pycoin.RFC6979.sign c bf) k h

/-- `except (UnexpectedDER, ValueError)` applied to what the DER decoder raises -/
def derCaught : Der.Err → Bool
  | .unexpectedDER => true
  | .valueError => true
  | _ => false

/-- `Key.verify(h, sig)` over the generator's `verify` method: the arguments of `Generator.verify` are evaluated first
(`sigdecode_der` last), all inside the `try` -/
def keyVerifyWith (verifyF : Pt → Int → Int → Int → Except Curve.Err Bool) (k : Key) (h sig : Bytes) : Except Err Bool :=
  match Der.sigdecodeDer sig false with
  | .error e => if derCaught e then .ok false else .error (.der e)
  | .ok (r, s) =>
    match verifyF (some k.pub) (fromBytes32 h) r s with
    | .error e => if e.isValueError then .ok false else .error (.curve e)
    | .ok b => .ok b

/-- `Key.verify(h, sig)` -/
def keyVerify (c : CurveParams) (bf : Int) (k : Key) (h sig : Bytes) : Except Err Bool :=
  keyVerifyWith (Curve.verify c bf) k h sig

/-- `Key.public_copy()`: the same object when there is no secret exponent, else `Key(public_pair=…, is_compressed=…)`
(whose on-curve check the pair has already passed) -/
def publicCopy (k : Key) : Key :=
  match k.se with
  | none => k
  | some _ => { se := none, pub := k.pub, compressed := k.compressed }

/-! ### histories on one `Key` object and the objects derived from it -/

inductive Step
  | sign (h : Bytes)               -- `key.sign(h)`; the signature is remembered as "last"
  | verify (h sig : Bytes)         -- `key.verify(h, sig)`
  | verifyLast (h : Bytes)         -- `key.verify(h, last)`
  | pubCopy                        -- continue with `key.public_copy()`
  | viaSec                         -- continue with `Key.from_sec(key.sec())`
  deriving Repr

structure HState where
  key : Key
  last : Bytes
  deriving Repr

/-- one step over the generator's `sign` / `verify` methods: the new state and the answer (computed from the current
fields only) -/
def stepWith (c : CurveParams) (signF : Int → Int → Except Curve.Err (Int × Int))
    (verifyF : Pt → Int → Int → Int → Except Curve.Err Bool) (st : HState) : Step → HState × String
  | .sign h =>
    match keySignWith signF st.key h with
    | .ok blob => ({ st with last := blob }, Pycoin.Hex.encode blob)
    | .error e => (st, "!" ++ e.tag)
  | .verify h sig =>
    (st, match keyVerifyWith verifyF st.key h sig with | .ok b => (if b then "1" else "0") | .error e => "!" ++ e.tag)
  | .verifyLast h =>
    (st, match keyVerifyWith verifyF st.key h st.last with | .ok b => (if b then "1" else "0") | .error e => "!" ++ e.tag)
  | .pubCopy => ({ st with key := publicCopy st.key }, "pub")
  | .viaSec =>
    match st.key.sec none with
    | .error e => (st, "!" ++ e.tag)
    | .ok sec =>
      match KeyCtor.keyFromSec c sec with
      | .error e => (st, "!" ++ e.tag)
      | .ok k' => ({ st with key := k' }, "sec")

def runWith (c : CurveParams) (signF : Int → Int → Except Curve.Err (Int × Int))
    (verifyF : Pt → Int → Int → Int → Except Curve.Err Bool) : HState → List Step → List String
  | _, [] => []
  | st, s :: ss => let (st', a) := stepWith c signF verifyF st s; a :: runWith c signF verifyF st' ss

/-- one step with the generator's own methods -/
def step (c : CurveParams) (bf : Int) (st : HState) (s : Step) : HState × String :=
  stepWith c (Pycoin.RFC6979.sign c bf) (Curve.verify c bf) st s

def run (c : CurveParams) (bf : Int) (st : HState) (steps : List Step) : List String :=
  runWith c (Pycoin.RFC6979.sign c bf) (Curve.verify c bf) st steps

end Pycoin.KeySign
