import Pycoin.Py.Bytes
/-!
C10 — model of `pycoin/satoshi/der.py`: `encode_integer`, `encode_length`, `encode_sequence`, `read_length`,
`remove_sequence`, `remove_integer`, `sigencode_der`, `sigdecode_der`.

Python semantics kept explicit:
* `int(binascii.hexlify(b""), 16)` is a `ValueError` (`ord(b"")` would be a `TypeError`: not reachable any more);
  `bytes([v])` with `v ≥ 256` is a `ValueError`; `assert r >= 0` is an `AssertionError`;
* slices silently truncate (`remove_sequence` never checks that the announced length is available);
* for a byte `b`, `b & 0x80 == 0` is written `b < 0x80` and `b & 0x7f` (when the top bit is set) `b - 0x80`.
-/
namespace Pycoin.Der

inductive Err
  | unexpectedDER | typeError | valueError | assertionError
  deriving DecidableEq, Repr

def Err.tag : Err → String
  | .unexpectedDER => "UnexpectedDER"
  | .typeError => "TypeError"
  | .valueError => "ValueError"
  | .assertionError => "AssertionError"

/-- number of base-256 digits of `n` (`0` for `0`) -/
def byteLen (n : Nat) : Nat := if n = 0 then 0 else Nat.log2 n / 8 + 1

/-- `h = "%x" % n`, a `0` put in front when `len(h)` is odd, `binascii.unhexlify(h)`:
the shortest big-endian byte string of `n`, with `0 ↦ 00` -/
def hexBytes (n : Nat) : Bytes := beBytes n (if n = 0 then 1 else byteLen n)

/-- `encode_length(length)` (`assert length >= 0`: the argument is a `len(...)`) -/
def encodeLength (l : Nat) : Except Err Bytes :=
  if l < 0x80 then .ok [UInt8.ofNat l]
  else
    let b := hexBytes l
    let v := 0x80 ||| b.length
    if v < 256 then .ok (UInt8.ofNat v :: b) else .error .valueError

/-- `encode_integer(r)` -/
def encodeInteger (r : Int) : Except Err Bytes :=
  if r < 0 then .error .assertionError
  else
    let s := hexBytes r.toNat
    match s with
    | [] => .error .typeError                       -- `ord(b"")`; never happens (`hexBytes` is never empty)
    | b :: _ =>
      if b.toNat ≤ 0x7F then
        match encodeLength s.length with
        | .error e => .error e
        | .ok l => .ok (0x02 :: (l ++ s))
      else
        match encodeLength (s.length + 1) with
        | .error e => .error e
        | .ok l => .ok (0x02 :: (l ++ 0x00 :: s))

/-- `encode_sequence(*pieces)` -/
def encodeSequence (pieces : List Bytes) : Except Err Bytes :=
  match encodeLength (pieces.map List.length).sum with
  | .error e => .error e
  | .ok l => .ok (0x30 :: (l ++ pieces.flatten))

/-- `read_length(string)` → `(length, bytes used)` -/
def readLength (s : Bytes) : Except Err (Nat × Nat) :=
  match s with
  | [] => .error .unexpectedDER                       -- `if len(string) == 0: raise UnexpectedDER`
  | s0 :: _ =>
    if s0.toNat < 0x80 then .ok (s0.toNat, 1)
    else
      let llen := s0.toNat - 0x80
      if llen > s.length - 1 then .error .unexpectedDER
      else if llen = 0 then .error .valueError        -- `int(b"", 16)`
      else .ok (beNat (slice s 1 (1 + llen)), 1 + llen)

/-- `remove_sequence(string)` → `(content, rest)` -/
def removeSequence (s : Bytes) : Except Err (Bytes × Bytes) :=
  if s.take 1 ≠ [0x30] then .error .unexpectedDER
  else
    match readLength (s.drop 1) with
    | .error e => .error e
    | .ok (length, ll) =>
      let endseq := 1 + ll + length
      .ok (slice s (1 + ll) endseq, s.drop endseq)

/-- `remove_integer(string, use_broken_open_ssl_mechanism)` → `(value, rest)` -/
def removeInteger (s : Bytes) (broken : Bool) : Except Err (Int × Bytes) :=
  if s.take 1 ≠ [0x02] then .error .unexpectedDER
  else
    match readLength (s.drop 1) with
    | .error e => .error e
    | .ok (length, llen) =>
      if s.length < 1 + llen + length then .error .unexpectedDER
      else
        let numberbytes := slice s (1 + llen) (1 + llen + length)
        let rest := s.drop (1 + llen + length)
        match numberbytes with
        | [] => .error .valueError                    -- `int(b"", 16)`
        | b :: _ =>
          let v : Int := beNat numberbytes
          if b.toNat ≥ 0x80 ∧ ¬ broken then .ok (v - (2 : Int) ^ (8 * length), rest)
          else .ok (v, rest)

/-- `sigencode_der(r, s)` -/
def sigencodeDer (r s : Int) : Except Err Bytes :=
  match encodeInteger r with
  | .error e => .error e
  | .ok er =>
    match encodeInteger s with
    | .error e => .error e
    | .ok es => encodeSequence [er, es]

/-- `sigdecode_der(sig_der, use_broken_open_ssl_mechanism)` -/
def sigdecodeDer (sig : Bytes) (broken : Bool) : Except Err (Int × Int) :=
  match removeSequence sig with
  | .error e => .error e
  | .ok (rsStrings, remainder) =>
    if remainder ≠ [] ∧ ¬ broken then .error .unexpectedDER
    else
      match removeInteger rsStrings broken with
      | .error e => .error e
      | .ok (r, rest) =>
        match removeInteger rest broken with
        | .error e => .error e
        | .ok (s, remainder) =>
          if remainder ≠ [] ∧ ¬ broken then .error .unexpectedDER
          else .ok (r, s)

end Pycoin.Der
