import Pycoin.Py.Bytes
import Pycoin.Gen.Opcodes
/-!
C12 — model of `pycoin/vm/ScriptStreamer.py` (`compile_push_data`, `get_opcode` and the three handler
kinds) instantiated with the tables of `pycoin/coins/bitcoin/ScriptStreamer.py` as generated into
`Gen/Opcodes.lean`, plus `ScriptTools.get_opcodes` / `compile_push_data_list`.
-/
namespace Pycoin.Script
open Pycoin.Gen.Opcodes

/-- exceptions, printed as the Python class name -/
inductive Err
  | scriptError     -- `ScriptError` (non-minimal push)
  | structError     -- `struct.error` (class name `error`): length does not fit the length field
  | indexError      -- `script[pc]` past the end
  | typeError       -- `bytes([None])`: empty variable-encoder list
  | keyError        -- `opcode_to_int[t]` for a token whose upper-case form is a name
  | syntaxError     -- `compile_expression`: unknown expression
  | binasciiError   -- `binascii.Error` (class name `Error`)
  deriving DecidableEq, Repr

def Err.tag : Err → String
  | .scriptError => "ScriptError" | .structError => "error" | .indexError => "IndexError"
  | .typeError => "TypeError" | .keyError => "KeyError" | .syntaxError => "SyntaxError"
  | .binasciiError => "Error"

/-- `dict.get` on a generated association list -/
def dictGet {κ ν} [DecidableEq κ] (k : κ) : List (κ × ν) → Option ν
  | [] => none
  | (k', v) :: r => if k' = k then some v else dictGet k r

/-- `struct.pack("<B"/"<H"/"<L", n)`: `none` = `struct.error` -/
def packLen (n width : Nat) (bigEndian : Bool) : Option Bytes :=
  if bigEndian then beBytes? n width else leBytes? n width

/-- the `for max_size, opcode, enc_f in self.variable_encoder: if size <= max_size: break` loop:
leaves the loop variables at the first entry that fits, or at the *last* entry when none does;
`none` only for an empty list (`opcode = None`) -/
def pickVariable (size : Nat) : List (Nat × UInt8 × Nat × Bool) → Option (UInt8 × Nat × Bool)
  | [] => none
  | [(_, op, w, be)] => some (op, w, be)
  | (m, op, w, be) :: r => if size ≤ m then some (op, w, be) else pickVariable size r

/-- `ScriptStreamer.compile_push_data(data)` -/
def compilePushData (data : Bytes) : Except Err Bytes :=
  match dictGet data constEncoder with
  | some bs => .ok bs
  | none =>
    let size := data.length
    match dictGet size sizedEncoder with
    | some op => .ok (op :: data)
    | none =>
      match pickVariable size variableEncoder with
      | none => .error .typeError
      | some (op, w, be) =>
        match packLen size w be with
        | none => .error .structError
        | some l => .ok (op :: (l ++ data))

/-- `ScriptTools.compile_push_data_list(data_list)`; `None` entries are skipped -/
def compilePushDataList : List (Option Bytes) → Except Err Bytes
  | [] => .ok []
  | none :: r => compilePushDataList r
  | some d :: r => do
    let a ← compilePushData d
    let b ← compilePushDataList r
    pure (a ++ b)

/-- what `get_opcode` returns: `(opcode, data, pc, is_ok)` -/
structure OpResult where
  opcode : UInt8
  data : Option Bytes
  pc : Nat
  isOk : Bool
  deriving DecidableEq, Repr

/-- `decode_OP_PUSHDATA(script, pc)` of `coins/bitcoin/ScriptStreamer.py`: `(size, pc)`.
`struct.unpack` raises when fewer than `width` bytes are left; the code then returns `(None, pc)`. -/
def decodePushdata (script : Bytes) (pc width : Nat) (bigEndian : Bool) : Option Nat × Nat :=
  let pc := pc + 1
  let field := slice script pc (pc + width)
  if field.length = width then
    (some (if bigEndian then beNat field else leNat field), pc + width)
  else (none, pc)

/-- `make_sized_handler(size, const_values, …)`: `(new pc, data)`; `data = none` is Python's `None` -/
def sizedHandler (size : Nat) (script : Bytes) (pc : Nat) (verifyMinimalData : Bool) : Except Err (Nat × Option Bytes) :=
  let pc := pc + 1
  let data := slice script pc (pc + size)
  if data.length < size then .ok (pc + 1, none)
  else if verifyMinimalData && decide (data ∈ sizedConstValues) then .error .scriptError
  else .ok (pc + size, some data)

/-- `make_variable_handler(dec_f, sized_values, min_size, …)` -/
def variableHandler (width : Nat) (bigEndian : Bool) (minSize : Nat) (script : Bytes) (pc : Nat)
    (verifyMinimalData : Bool) : Except Err (Nat × Option Bytes) :=
  let sp := decodePushdata script pc width bigEndian
  let pc := sp.2
  match sp.1 with
  | none => .ok (pc + 1, none)                       -- `if size is None: return pc + 1, None`
  | some size =>
    let data := slice script pc (pc + size)
    if data.length < size then .ok (pc + 1, none)
    else if verifyMinimalData && (decide (size ∈ variableSizedValues) || decide (size < minSize)) then .error .scriptError
    else .ok (pc + size, some data)

/-- the handler stored in `self.decoder[opcode]` -/
def runHandler : Handler → Bytes → Nat → Bool → Except Err (Nat × Option Bytes)
  | .const data, _, pc, _ => .ok (pc + 1, some data)
  | .sized size, script, pc, vm => sizedHandler size script pc vm
  | .varlen w be m, script, pc, vm => variableHandler w be m script pc vm

/-- `ScriptStreamer.get_opcode(script, pc, verify_minimal_data)` -/
def getOpcode (script : Bytes) (pc : Nat) (verifyMinimalData : Bool) : Except Err OpResult :=
  match script[pc]? with
  | none => .error .indexError
  | some opcode =>
    match dictGet opcode decoder with
    | none => .ok ⟨opcode, none, pc + 1, true⟩
    | some h =>
      match runHandler h script pc verifyMinimalData with
      | .error e => .error e
      | .ok (pc', data) => .ok ⟨opcode, data, pc', data.isSome⟩

theorem decodePushdata_pc_lt (script : Bytes) (pc width : Nat) (be : Bool) :
    pc < (decodePushdata script pc width be).2 := by
  unfold decodePushdata
  by_cases h : (slice script (pc + 1) (pc + 1 + width)).length = width <;> simp [h] <;> omega

theorem runHandler_pc_lt {h : Handler} {script : Bytes} {pc : Nat} {vm : Bool} {r : Nat × Option Bytes}
    (hr : runHandler h script pc vm = .ok r) : pc < r.1 := by
  cases h with
  | const d => simp [runHandler] at hr; subst hr; simp
  | sized n =>
    simp only [runHandler, sizedHandler] at hr
    split at hr
    · cases hr; simp; omega
    · split at hr
      · cases hr
      · cases hr; simp; omega
  | varlen w be m =>
    have := decodePushdata_pc_lt script pc w be
    simp only [runHandler, variableHandler] at hr
    split at hr
    · cases hr; simp; omega
    · split at hr
      · cases hr; simp; omega
      · split at hr
        · cases hr
        · cases hr; simp; omega

/-- every handler moves the program counter forward -/
theorem getOpcode_pc_lt {script : Bytes} {pc : Nat} {vm : Bool} {r : OpResult}
    (h : getOpcode script pc vm = .ok r) : pc < r.pc := by
  unfold getOpcode at h
  split at h
  · cases h
  · split at h
    · cases h; simp
    · split at h
      · cases h
      · rename_i hr
        cases h
        exact runHandler_pc_lt hr

/-- one item yielded by `ScriptTools.get_opcodes`: `(opcode, data, pc, new_pc)` -/
structure Item where
  opcode : UInt8
  data : Option Bytes
  pc : Nat
  newPc : Nat
  deriving DecidableEq, Repr

/-- `ScriptTools.get_opcodes(script, verify_minimal_data, pc)`: the items yielded, and the exception
that ended the iteration if one was raised -/
def getOpcodes (script : Bytes) (verifyMinimalData : Bool) (pc : Nat) : List Item × Option Err :=
  if hlt : pc < script.length then
    match h : getOpcode script pc verifyMinimalData with
    | .error e => ([], some e)
    | .ok r =>
      have : script.length - r.pc < script.length - pc := by
        have := getOpcode_pc_lt h
        omega
      let rest := getOpcodes script verifyMinimalData r.pc
      (⟨r.opcode, r.data, pc, r.pc⟩ :: rest.1, rest.2)
  else ([], none)
termination_by script.length - pc

end Pycoin.Script

namespace Pycoin.Spec

/-- Bitcoin Core `CheckMinimalPush(data, opcode)` (`script/interpreter.cpp`), for `opcode ≤ OP_PUSHDATA4` -/
def checkMinimalPush (opcode : Nat) (data : Bytes) : Bool :=
  if data.length = 0 then opcode = 0x00                                   -- should have used OP_0
  else if data.length = 1 ∧ (data.head?.map fun b => decide (1 ≤ b.toNat ∧ b.toNat ≤ 16)) = some true then false  -- OP_1 .. OP_16
  else if data.length = 1 ∧ (data.head?.map fun b => decide (b.toNat = 0x81)) = some true then false   -- OP_1NEGATE
  else if data.length ≤ 75 then opcode = data.length                         -- direct push
  else if data.length ≤ 255 then opcode = 0x4c                               -- OP_PUSHDATA1
  else if data.length ≤ 65535 then opcode = 0x4d                             -- OP_PUSHDATA2
  else true

/-- Bitcoin Core `GetScriptOp` on the bytes that remain: `(opcode, push payload, rest)`;
`none` = truncated (returns false). Non-push opcodes have an empty payload. -/
def getScriptOp : Bytes → Option (Nat × Bytes × Bytes)
  | [] => none
  | op :: r =>
    let opcode := op.toNat
    if opcode ≤ 0x4e then
      let lenField : Option (Nat × Bytes) :=
        if opcode < 0x4c then some (opcode, r)
        else if opcode = 0x4c then (if r.length < 1 then none else some (leNat (r.take 1), r.drop 1))
        else if opcode = 0x4d then (if r.length < 2 then none else some (leNat (r.take 2), r.drop 2))
        else (if r.length < 4 then none else some (leNat (r.take 4), r.drop 4))
      match lenField with
      | none => none
      | some (n, r) => if r.length < n then none else some (opcode, r.take n, r.drop n)
    else some (opcode, [], r)

/-- what the interpreter puts on the stack for a push instruction (`opcode ≤ OP_16`, not `OP_RESERVED`):
the payload for `opcode ≤ OP_PUSHDATA4`, the script number `opcode − (OP_1 − 1)` for `OP_1NEGATE`, `OP_1..OP_16` -/
def pushValue (opcode : Nat) (payload : Bytes) : Option Bytes :=
  if opcode ≤ 0x4e then some payload
  else if opcode = 0x4f then some [0x81]
  else if 0x51 ≤ opcode ∧ opcode ≤ 0x60 then some [UInt8.ofNat (opcode - 0x50)]
  else none

end Pycoin.Spec
