import Pycoin.Py.Bytes
/-!
C09 — model of `pycoin/key/subpaths.py: subpaths_for_path_range` and of the Python string primitives the
path functions use (`str.split`, `int(str)`, `"%d" % n`).

A Python `str` is a `List Char`.  `int(s)` is modelled for ASCII text: surrounding ASCII white space, an
optional sign, decimal digits with single underscores between digits.  Non-ASCII digits / spaces (which `int`
also accepts) are outside the model and are not generated.
-/
namespace Pycoin.Subpaths

inductive Err
  | value   -- ValueError
  | index   -- IndexError
  deriving DecidableEq, Repr

def Err.tag : Err → String
  | .value => "ValueError"
  | .index => "IndexError"

/-- `s.split(c)`, accumulator form -/
def splitGo (c : Char) : List Char → List Char → List (List Char)
  | [], cur => [cur.reverse]
  | x :: xs, cur => if x = c then cur.reverse :: splitGo c xs [] else splitGo c xs (x :: cur)

/-- `s.split(c)`: never empty; `"".split(c) = [""]` -/
def split (c : Char) (s : List Char) : List (List Char) := splitGo c s []

/-- `s.split(c, 1)` when `c in s`: the text before the first `c` and the text after it -/
def splitOnce (c : Char) (s : List Char) : List Char × List Char :=
  (s.takeWhile (· ≠ c), (s.dropWhile (· ≠ c)).drop 1)

/-- `"/".join(parts)` -/
def join (c : Char) : List (List Char) → List Char
  | [] => []
  | [p] => p
  | p :: ps => p ++ c :: join c ps

/-- characters `str.strip()` / `int()` treat as white space (`Py_UNICODE_ISSPACE`: the ASCII ones, then U+0085, U+00A0,
U+1680, U+2000–U+200A, U+2028, U+2029, U+202F, U+205F, U+3000) -/
def isPySpace (c : Char) : Bool :=
  c = ' ' || (9 ≤ c.toNat && c.toNat ≤ 13) || (0x1c ≤ c.toNat && c.toNat ≤ 0x1f) ||
  c.toNat = 0x85 || c.toNat = 0xa0 || c.toNat = 0x1680 || (0x2000 ≤ c.toNat && c.toNat ≤ 0x200a) ||
  c.toNat = 0x2028 || c.toNat = 0x2029 || c.toNat = 0x202f || c.toNat = 0x205f || c.toNat = 0x3000

/-- code points of the digit zero of every non-ASCII Unicode decimal-digit block (category `Nd`, Unicode 15.0 = the
`unicodedata` of the pinned interpreter; each block is ten consecutive code points with values 0..9).  `int()` maps these
to ASCII digits before parsing (`_PyUnicode_TransformDecimalAndSpaceToASCII`); op `bip32_path` / `subpaths` cases with one
digit of every block compare this table with the interpreter on every run. -/
def uniZeros : List Nat :=
  [1632, 1776, 1984, 2406, 2534, 2662, 2790, 2918, 3046, 3174, 3302, 3430, 3558, 3664, 3792, 3872, 4160, 4240, 6112, 6160,
   6470, 6608, 6784, 6800, 6992, 7088, 7232, 7248, 42528, 43216, 43264, 43472, 43504, 43600, 44016, 65296, 66720, 68912,
   69734, 69872, 69942, 70096, 70384, 70736, 70864, 71248, 71360, 71472, 71904, 72016, 72784, 73040, 73120, 73552, 92768,
   92864, 93008, 120782, 120792, 120802, 120812, 120822, 123200, 123632, 124144, 125264, 130032]

/-- `Py_UNICODE_TODECIMAL` on a non-ASCII character -/
def uniDigit (c : Char) : Option Nat :=
  (uniZeros.find? fun z => z ≤ c.toNat && c.toNat < z + 10).map fun z => c.toNat - z

/-- decimal value of a character `int()` accepts as a digit (ASCII or any Unicode `Nd`) -/
def pyDigit (c : Char) : Option Nat := if c.isDigit then some (c.toNat - 48) else uniDigit c

def strip (cs : List Char) : List Char :=
  ((cs.dropWhile isPySpace).reverse.dropWhile isPySpace).reverse

/-- decimal digits with single underscores between digits; `prev` = the previous character was a digit -/
def digitsVal : List Char → Bool → Nat → Option Nat
  | [], prev, acc => if prev then some acc else none
  | c :: cs, prev, acc =>
    if c.isDigit then digitsVal cs true (acc * 10 + (c.toNat - 48))
    else match uniDigit c with
    | some v => digitsVal cs true (acc * 10 + v)
    | none =>
      if c = '_' ∧ prev then
        match cs with
        | d :: _ => if (pyDigit d).isSome then digitsVal cs false acc else none
        | [] => none
      else none

/-- `int(s)` (base 10) on any `str` (ASCII or Unicode decimal digits and white space); `none` = `ValueError` -/
def pyInt (s : List Char) : Option Int :=
  match strip s with
  | '-' :: r => (digitsVal r false 0).map fun n => -(n : Int)
  | '+' :: r => (digitsVal r false 0).map fun n => (n : Int)
  | r => (digitsVal r false 0).map fun n => (n : Int)

/-- digits of `n`, most significant first (`fuel` ≥ number of digits) -/
def natDigits : Nat → Nat → List Char → List Char
  | 0, _, acc => acc
  | fuel + 1, n, acc =>
    let acc' := Char.ofNat (48 + n % 10) :: acc
    if n < 10 then acc' else natDigits fuel (n / 10) acc'

/-- `"%d" % n` -/
def showInt (n : Int) : List Char :=
  if n < 0 then '-' :: natDigits (n.natAbs + 1) n.natAbs [] else natDigits (n.toNat + 1) n.toNat []

/-- `range(low, high + 1)` -/
def intRange (low high : Int) : List Int :=
  (List.range (high + 1 - low).toNat).map fun (k : Nat) => low + (k : Int)

/-- the default `hardening_chars="'pH"` -/
def hardeningChars : List Char := ['\'', 'p', 'H']

/-- one comma-separated element `r` of `range_iterator` -/
def rangeElement (hc : List Char) (r : List Char) : Except Err (List (List Char)) :=
  match r.getLast? with
  | none => .error .index                                   -- `r[-1]` on the empty string
  | some last =>
    let isHardened := hc.contains last
    -- `hardening_chars[-1]`
    let hardenedChar : List Char := if isHardened then (match hc.getLast? with | some h => [h] | none => []) else []
    let r := if isHardened then r.dropLast else r
    if r.contains '-' then
      let (lo, hi) := splitOnce '-' r
      match pyInt lo with
      | none => .error .value
      | some low =>
        match pyInt hi with
        | none => .error .value
        | some high => .ok ((intRange low high).map fun t => showInt t ++ hardenedChar)
    else .ok [r ++ hardenedChar]

def mapMExcept {α β} (f : α → Except Err β) : List α → Except Err (List β)
  | [] => .ok []
  | a :: as =>
    match f a with
    | .error e => .error e
    | .ok b =>
      match mapMExcept f as with
      | .error e => .error e
      | .ok bs => .ok (b :: bs)

/-- `range_iterator(the_range)`, consumed to the end -/
def rangeIterator (hc : List Char) (theRange : List Char) : Except Err (List (List Char)) :=
  match mapMExcept (rangeElement hc) (split ',' theRange) with
  | .error e => .error e
  | .ok ls => .ok ls.flatten

/-- `itertools.product(*pools)`: last pool varies fastest -/
def product {α} : List (List α) → List (List α)
  | [] => [[]]
  | xs :: rest => xs.flatMap fun x => (product rest).map (x :: ·)

/-- `list(subpaths_for_path_range(path_range, hardening_chars))` — `itertools.product` drains every component
iterator, in order, before the first path is produced, so the first error in component order is the one raised -/
def subpathsForPathRange (pathRange : List Char) (hc : List Char := hardeningChars) : Except Err (List (List Char)) :=
  if pathRange.isEmpty then .ok [[]]
  else
    match mapMExcept (rangeIterator hc) (split '/' pathRange) with
    | .error e => .error e
    | .ok pools => .ok ((product pools).map (join '/'))

end Pycoin.Subpaths
