import Pycoin.Model.Value
import Pycoin.Model.Spendable
import Pycoin.Gen.TxFee
/-!
C13 (second part) — model of the rest of `pycoin/coins/tx_utils.py` and of the value accessors of
`pycoin/coins/bitcoin/Tx.py` that `Model/Value.lean` leaves out:

* `pycoin/convention/tx_fee.py:recommended_fee_for_tx` (the deprecated `fee="standard"` estimator),
* `create_tx` as a whole: `_fix_spendable` (object / text / dict), payables given as bare addresses,
  the transaction that is built (inputs from `spendable.tx_in()`, unspents = the spendables),
* `create_signed_tx`: the `SecretExponentMissing` verdict,
* `Tx.total_in / fee / check_unspents / missing_unspents / unspents_from_db(ignore_missing) / set_unspents`
  with coinbase inputs and missing (`None`) unspents, as a history on one object,
* `Tx.validate_unspents` with a database that may answer with a transaction of another hash.
-/
namespace Pycoin.Build
open Pycoin Pycoin.Wire

/-! ### recommended_fee_for_tx -/

/-- `TX_FEE_PER_THOUSAND_BYTES * ((999 + tx_byte_count) // 1000)` -/
def recommendedFeeForSize (n : Nat) : Nat := Gen.TxFee.txFeePerThousandBytes * ((999 + n) / 1000)

/-- `recommended_fee_for_tx(tx)`: `tx.stream(s)` with the default arguments, then the size formula -/
def recommendedFeeForTx (tx : Tx) : Except Err Nat :=
  match tx.stream with
  | .ok b => .ok (recommendedFeeForSize b.length)
  | .error e => .error e

/-! ### create_tx -/

/-- the three shapes `_fix_spendable` accepts -/
inductive SpForm
  | obj (s : Spendable)
  | text (t : List Char)
  | dict (d : Spendable.Dict)
  deriving Repr

/-- `_fix_spendable` -/
def fixSpendable : SpForm → Except Err Spendable
  | .obj s => .ok s
  | .text t => Spendable.fromText t
  | .dict d => Spendable.fromDict d

/-- `spendable.tx_in()`: the outpoint, an empty script, the final sequence number -/
def txInOf (s : Spendable) : TxIn := ⟨s.txHash, s.txOutIndex, [], 4294967295, []⟩

/-- a payable after `network.contract.for_address`: `(address, coin_value)`; a bare address has `coin_value = 0` -/
structure Payable where
  value : Int
  script : Bytes
  deriving DecidableEq, Repr

inductive CreateErr
  | insufficient | notEnough
  | wire (e : Err)
  | secretExponentMissing
  deriving DecidableEq, Repr

def CreateErr.tag : CreateErr → String
  | .insufficient => "insufficient"
  | .notEnough => "notEnough"
  | .wire e => e.tag
  | .secretExponentMissing => "SecretExponentMissing"

/-- what `create_tx` returns: the transaction and its `unspents` -/
structure Built where
  tx : Tx
  unspents : List Spendable
  deriving Repr

def mapFix : List SpForm → Except Err (List Spendable)
  | [] => .ok []
  | f :: fs =>
    match fixSpendable f with
    | .error e => .error e
    | .ok s =>
      match mapFix fs with
      | .error e => .error e
      | .ok ss => .ok (s :: ss)

/-- the transaction `create_tx` has built when it calls `distribute_from_split_pool` -/
def draftTx (sps : List Spendable) (pay : List Payable) (version lockTime : Int) : Tx :=
  ⟨version, sps.map txInOf, pay.map (fun p => ⟨p.value, p.script⟩), lockTime⟩

/-- the fee `distribute_from_split_pool` sets aside: the integer given, or (`fee == "standard"`, here `none`) the
estimate for the transaction as it is at that moment (unsigned, pool outputs still zero) -/
def feeUsed (draft : Tx) : Option Int → Except Err Int
  | some f => .ok f
  | none => match recommendedFeeForTx draft with
    | .ok n => .ok (n : Int)
    | .error e => .error e

/-- replace the output values, keep the scripts -/
def setValues : List TxOut → List Int → List TxOut
  | o :: os, v :: vs => ⟨v, o.script⟩ :: setValues os vs
  | os, _ => os

/-- `create_tx(network, spendables, payables, fee, lock_time, version)` -/
def createTx (sp : List SpForm) (pay : List Payable) (fee : Option Int) (lockTime : Int := 0) (version : Int := 1) :
    Except CreateErr Built :=
  match mapFix sp with
  | .error e => .error (.wire e)
  | .ok sps =>
    let draft := draftTx sps pay version lockTime
    match feeUsed draft fee with
    | .error e => .error (.wire e)
    | .ok f =>
      match Value.distribute (sps.map (·.coinValue)) (pay.map (·.value)) f with
      | .error .insufficient => .error .insufficient
      | .error .notEnough => .error .notEnough
      | .ok vals => .ok ⟨{ draft with outs := setValues draft.outs vals }, sps⟩

/-- `create_signed_tx` seen from the values: `create_tx`, then `sign_tx` with the keys of `supplied`; input `i` is a
pay-to-public-key-hash output of key `needed[i]`, solved exactly when that key was supplied; any unsolved input raises
`SecretExponentMissing` (errors of `create_tx` come first) -/
def createSignedTx (sp : List SpForm) (pay : List Payable) (fee : Option Int) (needed supplied : List Nat) :
    Except CreateErr Built :=
  match createTx sp pay fee with
  | .error e => .error e
  | .ok b => if needed.all (fun k => supplied.contains k) then .ok b else .error .secretExponentMissing

/-! ### value accessors with coinbase inputs and missing unspents, as a history on one object -/

structure TxSt where
  /-- per input: `tx_in.is_coinbase()` (null outpoint) -/
  cb : List Bool
  /-- `tx.unspents`: `None` or the `coin_value` of the entry -/
  unspents : List (Option Int)
  outs : List Int
  deriving Repr

inductive HErr | valueError | keyError | indexError
  deriving DecidableEq, Repr

def HErr.tag : HErr → String
  | .valueError => "ValueError" | .keyError => "KeyError" | .indexError => "IndexError"

/-- `Tx.is_coinbase`: exactly one input and it is the null outpoint -/
def TxSt.isCoinbase (st : TxSt) : Bool := st.cb == [true]

/-- `missing_unspent(idx)` -/
def TxSt.missingUnspent (st : TxSt) (idx : Nat) : Bool :=
  if st.isCoinbase then true
  else if st.unspents.length ≤ idx then true
  else match st.unspents[idx]? with
    | some (some _) => false
    | _ => true

/-- `missing_unspents()` -/
def TxSt.missingUnspents (st : TxSt) : Bool :=
  if st.isCoinbase then false
  else st.unspents.length != st.cb.length || (List.range st.cb.length).any (fun idx => st.missingUnspent idx)

/-- `total_in()`: a coinbase reports its first output; otherwise `check_unspents()` then the sum -/
def TxSt.totalIn (st : TxSt) : Except HErr Int :=
  if st.isCoinbase then
    match st.outs with
    | [] => .error .indexError
    | o :: _ => .ok o
  else if st.missingUnspents then .error .valueError
  else .ok (st.unspents.filterMap id).sum

def TxSt.totalOut (st : TxSt) : Int := st.outs.sum

/-- `fee()` -/
def TxSt.fee (st : TxSt) : Except HErr Int :=
  match st.totalIn with
  | .ok v => .ok (v - st.totalOut)
  | .error e => .error e

inductive HStep
  | fee | totalIn | totalOut
  | setUnspents (vs : List (Option Int))                    -- `tx.set_unspents(vs)`: length checked
  | assign (vs : List (Option Int))                         -- `tx.unspents = vs`
  | fromDb (found : List (Option Int)) (ignoreMissing : Bool) -- `tx.unspents_from_db(db, ignore_missing)`; `found[i]`: what the db has for input i
  | setOut (i : Nat) (v : Int)                              -- `tx.txs_out[i].coin_value = v`
  deriving Repr

inductive HAns
  | val (v : Int) | done | err (e : HErr)
  deriving DecidableEq, Repr

def HAns.ofExcept : Except HErr Int → HAns
  | .ok v => .val v
  | .error e => .err e

/-- the list `unspents_from_db` builds: `None` for a coinbase input, the entry found, `None` for a missing one when
`ignore_missing`, otherwise `KeyError` -/
def fromDbList (ignoreMissing : Bool) : List Bool → List (Option Int) → Except HErr (List (Option Int))
  | [], _ => .ok []
  | c :: cs, found =>
    let here : Except HErr (Option Int) :=
      if c then .ok none
      else match found.head? with
        | some (some v) => .ok (some v)
        | _ => if ignoreMissing then .ok none else .error .keyError
    match here with
    | .error e => .error e
    | .ok x =>
      match fromDbList ignoreMissing cs found.tail with
      | .error e => .error e
      | .ok xs => .ok (x :: xs)

/-- one step: the new state and the answer -/
def hStep (st : TxSt) : HStep → TxSt × HAns
  | .fee => (st, .ofExcept st.fee)
  | .totalIn => (st, .ofExcept st.totalIn)
  | .totalOut => (st, .val st.totalOut)
  | .setUnspents vs => if vs.length != st.cb.length then (st, .err .valueError) else ({ st with unspents := vs }, .done)
  | .assign vs => ({ st with unspents := vs }, .done)
  | .fromDb found ign =>
    match fromDbList ign st.cb found with
    | .ok us => ({ st with unspents := us }, .done)
    | .error e => (st, .err e)
  | .setOut i v => if i < st.outs.length then ({ st with outs := st.outs.set i v }, .done) else (st, .err .indexError)

def hRun : TxSt → List HStep → List HAns
  | _, [] => []
  | st, s :: ss => (hStep st s).2 :: hRun (hStep st s).1 ss

def hAfter (st : TxSt) (ss : List HStep) : TxSt := ss.foldl (fun st s => (hStep st s).1) st

/-! ### validate_unspents with a database that may lie about the hash -/

/-- what `tx_db.get(h)` returns: a transaction with its own `hash()` and outputs -/
structure SrcTx where
  hash : Bytes
  outs : List Value.Out
  deriving Repr

/-- first loop of `validate_unspents`: every non-null previous hash must be in the db *and* be the hash of what the
db returns (`KeyError` otherwise, whichever hash the set iteration meets first) -/
def lookupFails (db : Bytes → Option SrcTx) (i : Value.In) : Bool :=
  i.prevHash != Value.zero32 &&
    (match db i.prevHash with
     | none => true
     | some t => t.hash != i.prevHash)

/-- `Tx.validate_unspents(tx_db)` up to the final `return self.fee()` -/
def validateUnspentsFull (db : Bytes → Option SrcTx) (ins : List Value.In) (us : List Value.Out) : Except Value.VErr Unit :=
  if ins.any (lookupFails db) then .error .keyError
  else Value.validateUnspents (fun h => (db h).map (·.outs)) ins us

end Pycoin.Build
