import Pycoin.Model.Base58
import Pycoin.Model.Bech32
import Pycoin.Gen.PstrKeys
/-!
C11 — model of the per-string cache of `pycoin/networks/parseable_str.py`: one `parseable_str` object carries a
dict `_cache`; every decoder goes through `ps.cache(key, f)`.  Decoders modelled: `parse_b58` (key from the source),
`parse_b58_double_sha256`, the Groestlcoin copy `pycoin/coins/groestlcoin/parse.py:parse_b58_groestl`, and
`parse_bech32`.  The cache keys are GENERATED (`Gen/PstrKeys.lean`: the key each decoder is observed to insert).

The Groestl hash is the stand-in of `translate/grs_stub.py` (the optional `groestlcoin_hash` package is not installed
here): `sha256(prefix ‖ data)`.
-/
namespace Pycoin.Pstr
open Pycoin Pycoin.Gen.PstrKeys

inductive Dec | b58 | b58sha | b58grs | bech32
  deriving DecidableEq, Repr

/-- a cached answer (`None` is `.bytes none` / `.bech none`) -/
inductive Val
  | bytes (b : Option Bytes)
  | bech (r : Option (List Char × Nat × List Nat × Bech32.Encoding))
  deriving DecidableEq

def key : Dec → String
  | .b58 => keyB58
  | .b58sha => keyB58Sha
  | .b58grs => keyB58Grs
  | .bech32 => keyBech32

/-- the stand-in for `groestlHash` -/
def grsHash (d : Bytes) : Bytes := Hash.sha256 (grsPrefix ++ d)

/-- the body shared by `b58_double_sha256` and `b58_groestl`, after `data = parse_b58(s)`:
`if data: data, the_hash = data[:-4], data[-4:]; if hash_f(data)[:4] == the_hash: return data`; else `None` -/
def checkHashed (h : Bytes → Bytes) : Option Bytes → Option Bytes
  | none => none
  | some data =>
    if data.isEmpty then none
    else
      let body := data.take (data.length - 4)
      let theHash := data.drop (data.length - 4)
      if (h body).take 4 = theHash then some body else none

/-- what a decoder answers on a fresh string (no cache) -/
def pure (d : Dec) (tb : Bytes) (tc : List Char) : Val :=
  match d with
  | .b58 => .bytes (Base58.parseB58 tb)
  | .b58sha => .bytes (checkHashed Hash.dsha256 (Base58.parseB58 tb))
  | .b58grs => .bytes (checkHashed grsHash (Base58.parseB58 tb))
  | .bech32 => .bech (Bech32.parseBech32 tc)

/-! ### the cache -/

abbrev Cache := List (String × Val)

/-- `self._cache[key]` (first binding wins: a later write is consed in front) -/
def get : Cache → String → Option Val
  | [], _ => none
  | (k', v) :: c, k => if k' = k then some v else get c k

/-- `ps.cache(key, f)`: `if key not in _cache: _cache[key] = None; _cache[key] = f(self)`; `return _cache[key]`.
`f` receives the cache (it may itself go through `cache` with other keys) and returns its value and the cache. -/
def viaCache (c : Cache) (k : String) (f : Cache → Val × Cache) : Val × Cache :=
  match get c k with
  | some v => (v, c)
  | none =>
    let r := f ((k, Val.bytes none) :: c)
    (r.1, (k, r.1) :: r.2)

/-- a cached value read as the `data` of `b58_double_sha256`: anything that is not bytes ends in `None`
(a non-empty tuple would make the hash function raise, which `cache` swallows) -/
def asBytes : Val → Option Bytes
  | .bytes b => b
  | .bech _ => none

def leafB58 (tb : Bytes) (c : Cache) : Val × Cache :=
  viaCache c (key .b58) (fun c => (.bytes (Base58.parseB58 tb), c))

/-- one decoder applied to the one `parseable_str` object whose cache is `c` -/
def run (d : Dec) (tb : Bytes) (tc : List Char) (c : Cache) : Val × Cache :=
  match d with
  | .b58 => leafB58 tb c
  | .b58sha => viaCache c (key .b58sha) (fun c =>
      let r := leafB58 tb c
      (.bytes (checkHashed Hash.dsha256 (asBytes r.1)), r.2))
  | .b58grs => viaCache c (key .b58grs) (fun c =>
      let r := leafB58 tb c
      (.bytes (checkHashed grsHash (asBytes r.1)), r.2))
  | .bech32 => viaCache c (key .bech32) (fun c => (.bech (Bech32.parseBech32 tc), c))

/-- a sequence of decoders applied in turn to the same object -/
def runSeq (tb : Bytes) (tc : List Char) : List Dec → Cache → List Val
  | [], _ => []
  | d :: ds, c =>
    let r := run d tb tc c
    r.1 :: runSeq tb tc ds r.2

end Pycoin.Pstr
