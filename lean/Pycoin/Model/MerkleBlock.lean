import Pycoin.Py.Bytes
/-!
C14 — model of the merkleblock post-processor of `pycoin/message/make_parser_and_packer.py`
(`post_unpack_merkleblock`, `_recurse`), exactly as coded.  `d["hashes"]` is the list of 32-byte
strings read by the `[#]` codec, `d["flags"]` the list of ints 0..255 read by `[1]`,
`d["total_transactions"]` the `L` field, `root` is `d["header"].merkle_root`.
-/
namespace Pycoin.MerkleBlock

/-- `IndexError` (`flags[idx]` out of range, `hashes.pop()` on an empty list) or one of the five `ValueError`s;
`unreachable` marks the fuel-exhausted branch that has no Python counterpart -/
inductive Err
  | indexError | sameLeftRight | extraHashes | notEnoughFlags | unconsumedBits | rootMismatch | unreachable
  deriving DecidableEq, Repr

def Err.pyName : Err → String
  | .indexError => "IndexError"
  | .unreachable => "unreachable"
  | _ => "ValueError"

/-- the `while count > 1:` loop: `level_widths.append(count); count += 1; count //= 2`
(fuel = the initial count; the list is in Python append order) -/
def widthsLoop : Nat → Nat → List Nat → List Nat
  | 0, _, acc => acc
  | f + 1, count, acc => if count > 1 then widthsLoop f ((count + 1) / 2) (acc ++ [count]) else acc

/-- `level_widths` after `append(1)` and `reverse()`: `[1, …, ⌈n/4⌉, ⌈n/2⌉, n]` -/
def levelWidths (total : Nat) : List Nat := (widthsLoop total total [] ++ [1]).reverse

/-- `idx, r = divmod(flag_index, 8); flags[idx] & (1 << r)`: `none` = `IndexError`, else whether the bit is set -/
def flagBit (flags : Bytes) (flagIndex : Nat) : Option Bool :=
  match flags[flagIndex / 8]? with
  | none => none
  | some b => some (b.toNat &&& (1 <<< (flagIndex % 8)) != 0)

/-- `hashes.pop()` on a Python list (the last element) -/
def pop (hashes : List Bytes) : Except Err (Bytes × List Bytes) :=
  match hashes.getLast? with
  | none => .error .indexError
  | some h => .ok (h, hashes.dropLast)

/-- `_recurse(level_widths, level_index, node_index, hashes, flags, flag_index, tx_acc)`;
mutation of `hashes` and `tx_acc` is returned: `(hash, hashes', flag_index', tx_acc')`.
`fuel` counts the levels below (`len(level_widths) - 1 - level_index`). -/
def recurse (H : Bytes → Bytes) (widths : List Nat) (flags : Bytes) :
    Nat → Nat → Nat → List Bytes → Nat → List Bytes → Except Err (Bytes × List Bytes × Nat × List Bytes)
  | fuel, levelIndex, nodeIndex, hashes, flagIndex, acc =>
    match flagBit flags flagIndex with
    | none => .error .indexError
    | some false =>
      match pop hashes with
      | .error e => .error e
      | .ok (h, hashes) => .ok (h, hashes, flagIndex + 1, acc)
    | some true =>
      if levelIndex = widths.length - 1 then
        match pop hashes with
        | .error e => .error e
        | .ok (h, hashes) => .ok (h, hashes, flagIndex + 1, acc ++ [h])
      else
        match fuel with
        | 0 => .error .unreachable
        | fuel + 1 =>
          match recurse H widths flags fuel (levelIndex + 1) (nodeIndex * 2) hashes (flagIndex + 1) acc with
          | .error e => .error e
          | .ok (left, hashes, flagIndex, acc) =>
            match widths[levelIndex + 1]? with
            | none => .error .indexError
            | some w =>
              if nodeIndex * 2 + 1 < w then
                match recurse H widths flags fuel (levelIndex + 1) (nodeIndex * 2 + 1) hashes flagIndex acc with
                | .error e => .error e
                | .ok (right, hashes, flagIndex, acc) =>
                  if left = right then .error .sameLeftRight
                  else .ok (H (left ++ right), hashes, flagIndex, acc)
              else .ok (H (left ++ left), hashes, flagIndex, acc)

/-- `post_unpack_merkleblock`: the `tx_hashes` list, or the exception -/
def verify (H : Bytes → Bytes) (total : Nat) (hashes : List Bytes) (flags : Bytes) (root : Bytes) :
    Except Err (List Bytes) :=
  let widths := levelWidths total
  match recurse H widths flags (widths.length - 1) 0 0 hashes.reverse 0 [] with
  | .error e => .error e
  | .ok (h, rest, flagIndex, acc) =>
    if rest.length > 0 then .error .extraHashes
    else
      let idx := (flagIndex - 1) / 8
      let r := (flagIndex - 1) % 8
      if idx ≠ flags.length - 1 then .error .notEnoughFlags
      else
        match flags[idx]? with
        | none => .error .indexError
        | some b =>
          if b.toNat > (1 <<< (r + 1)) - 1 then .error .unconsumedBits
          else if h ≠ root then .error .rootMismatch
          else .ok acc

end Pycoin.MerkleBlock
