import Pycoin.Model.Curve
import Pycoin.Model.RFC6979
/-!
C02 / C01 — model of the native glue: `pycoin/ecdsa/native/openssl.py` (`create_OpenSSLOptimizations`),
`pycoin/ecdsa/native/bignum.py` (`BignumType`), `pycoin/ecdsa/native/secp256k1.py` (`Optimizations`), and of how the
methods of `Generator` reach them.

The C libraries are PARAMETERS: a `LibCrypto` / `LibSecp256k1` value is the collection of C functions the glue calls
through ctypes, each with exactly the inputs the glue passes and the outputs the glue reads (return codes included, also
where the glue ignores them).  What the libraries are *assumed* to compute is a hypothesis of the theorems
(`LibCryptoOk`, `LibSecpOk` in `Proofs/NativeContract.lean`), never an axiom; `pureLib` below is an executable
`LibCrypto` built from the pure-Python model (used by the driver and as the non-vacuity witness of the contract).

1. `Methods` — Python's method resolution made explicit.  `Generator.verify`, `sign_with_recid`, `__mul__`,
   `possible_public_pairs_for_signature`, `Curve.add` call `self.inverse_mod`, `self.multiply`, `self.raw_mul`
   (`k * self` → `self.__mul__`), which the mixin classes override; `Gen.*` is that code once, over a `Methods` record;
   `Gen.f (pureMethods c) = Curve.f c` is proved by unfolding (`Proofs/NativeGen.lean`).
2. `Ossl.*` — the OpenSSL class.   3. `Secp.*` — the libsecp256k1 class.
-/
namespace Pycoin.Native
open Pycoin Pycoin.Curve

/-! ## 1. method resolution -/

/-- what `self.inverse_mod`, `self.multiply`, `self.raw_mul` and `self.__mul__` resolve to in one Generator class -/
structure Methods where
  inverseMod : Int → Int → Except Err Int
  multiply : Pt → Int → Except Err Pt
  rawMul : Int → Except Err Pt
  /-- an override of `Generator.__mul__` (libsecp256k1 class); `none`: `Generator.__mul__` itself -/
  mulOverride : Option (Int → Except Err Pt) := none

/-- the pure-Python classes (`PYCOIN_NATIVE=none`, or no library found) -/
def pureMethods (c : CurveParams) : Methods :=
  { inverseMod := Curve.inverseMod, multiply := Curve.multiply c, rawMul := Curve.rawMul c }

namespace Gen

/-- `Curve.add(p0, p1)`; `self.inverse_mod` is a virtual call -/
def add (M : Methods) (c : CurveParams) (p0 p1 : Pt) : Except Err Pt :=
  match p0, p1 with
  | none, _ => .ok p1
  | some _, none => .ok p0
  | some (x0, y0), some (x1, y1) =>
    if fmod (x0 - x1) c.p = 0 then
      if fmod (y0 + y1) c.p = 0 then .ok none
      else
        match M.inverseMod (2 * y0) c.p with
        | .error e => .error e
        | .ok inv => addFinish c x0 y0 x1 (fmod ((3 * x0 * x0 + c.a) * inv) c.p)
    else
      match M.inverseMod (x1 - x0) c.p with
      | .error e => .error e
      | .ok inv => addFinish c x0 y0 x1 (fmod ((y1 - y0) * inv) c.p)

/-- `Point.__sub__` -/
def sub (M : Methods) (c : CurveParams) (p0 p1 : Pt) : Except Err Pt :=
  match neg c p1 with
  | .error e => .error e
  | .ok q => add M c p0 q

/-- `Generator.__mul__(e)`: `self.raw_mul(e + bf) + self._minus_blinding_factor_g` (the latter is
`self.raw_mul(-bf)`, computed once by the constructor), unless the class overrides `__mul__` -/
def mulG (M : Methods) (c : CurveParams) (bf : Int) (e : Int) : Except Err Pt :=
  match M.mulOverride with
  | some f => f e
  | none =>
    match M.rawMul (e + bf) with
    | .error er => .error er
    | .ok a =>
      match M.rawMul (-bf) with
      | .error er => .error er
      | .ok m => add M c a m

/-- `Generator.inverse(a)` -/
def inverseN (M : Methods) (c : CurveParams) (a : Int) : Except Err Int :=
  if c.n = 0 then .error .assertion else M.inverseMod a c.n

/-- one element of the list comprehension `[s_over_r * p + minus_E_over_r for p in points_list]` -/
def recoverStep (M : Methods) (c : CurveParams) (sOverR : Int) (mE : Pt) (q : Pt) : Except Err Pt :=
  match M.multiply q sOverR with
  | .error e => .error e
  | .ok t => add M c t mE

/-- `Generator.possible_public_pairs_for_signature` -/
def possiblePublicPairsForSignature (M : Methods) (c : CurveParams) (bf : Int) (value r s : Int)
    (yParity : Option Int) : Except Err (List Pt) :=
  if r ≥ c.p then .ok [] else
  match pointsForX c r with
  | .error e => if e.isValueError then .ok [] else .error e
  | .ok (q0, q1) =>
    let pts : List Pt :=
      match yParity with
      | none => [q0, q1]
      | some par => if fmod par 2 = 1 then [q1] else [q0]
    match inverseN M c r with
    | .error e => .error e
    | .ok invR =>
      let sOverR := s * invR
      match mulG M c bf (-(invR * value)) with
      | .error e => .error e
      | .ok minusEOverR =>
        match mapMExcept (recoverStep M c sOverR minusEOverR) pts with
        | .error e => if e.isValueError then .ok [] else .error e
        | .ok l => .ok l

/-- `Generator.verify` (not the libsecp256k1 override) -/
def verify (M : Methods) (c : CurveParams) (bf : Int) (Q : Pt) (val r s : Int) : Except Err Bool :=
  if val = 0 then .ok false
  else if r < 1 ∨ r ≥ c.n ∨ s < 1 ∨ s ≥ c.n then .ok false
  else
    match inverseN M c s with
    | .error e => .error e
    | .ok sInv =>
      let u1 := val * sInv
      let u2 := r * sInv
      match mulG M c bf u1 with
      | .error e => .error e
      | .ok a =>
        if ¬ containsPoint c Q then .error .noSuchPoint
        else
          match M.multiply Q u2 with
          | .error e => .error e
          | .ok b =>
            match add M c a b with
            | .error e => .error e
            | .ok none => .ok false
            | .ok (some (x, _)) => .ok (fmod x c.n = r)

/-- the `while True` loop of `Generator.sign_with_recid` -/
def signLoop (M : Methods) (c : CurveParams) (bf d val : Int) : Nat → Int → Except Err (Int × Int × Int)
  | 0, _ => .error .outOfFuel
  | f + 1, k =>
    match mulG M c bf k with
    | .error e => .error e
    | .ok none => .error .type
    | .ok (some (x, y)) =>
      let n : Int := c.n
      let r := fmod x n
      match inverseN M c k with
      | .error e => .error e
      | .ok kInv =>
        let s := fmod (kInv * (val + fmod (d * r) n)) n
        if r ≠ 0 ∧ s ≠ 0 then
          .ok (r, s, fmod y 2 + (if x > n then 2 else 0))
        else signLoop M c bf d val f (k + 1)

/-- `Generator.sign_with_recid` (no class overrides it) -/
def signWithRecid (M : Methods) (c : CurveParams) (bf : Int) (genK : Nat → Int → Int → Except Err Int) (d val : Int) :
    Except Err (Int × Int × Int) :=
  if val = 0 then .error .value
  else
    match genK c.n d val with
    | .error e => .error e
    | .ok k => signLoop M c bf d val (c.n + 1) k

/-- `Generator.sign` (not the libsecp256k1 override) -/
def sign (M : Methods) (c : CurveParams) (bf : Int) (genK : Nat → Int → Int → Except Err Int) (d val : Int) :
    Except Err (Int × Int) :=
  match signWithRecid M c bf genK d val with
  | .error e => .error e
  | .ok (r, s, _) => .ok (r, s)

/-- `generate_shared_public_key` (encrypt.py): `generator.Point(*pair)` then `my_private_key * p`
(`Point.__rmul__` → `Point.__mul__` → `self._curve.multiply`) -/
def sharedPublicKey (M : Methods) (c : CurveParams) (d : Int) (Q : Pt) : Except Err Pt :=
  if ¬ containsPoint c Q then .error .noSuchPoint else M.multiply Q d

/-- the `_powers` table of the constructor (`Gp += Gp` goes through `Curve.add`, hence `self.inverse_mod`) -/
def powersLoop (M : Methods) (c : CurveParams) : Nat → Pt → Except Err (List Pt)
  | 0, _ => .ok []
  | k + 1, g =>
    match add M c g g with
    | .error e => .error e
    | .ok g2 =>
      match powersLoop M c k g2 with
      | .error e => .error e
      | .ok l => .ok (g :: l)

/-- what `Generator.__init__` checks -/
def generatorInit (M : Methods) (c : CurveParams) (bf : Int) : Except Err Unit :=
  if ¬ containsXY c c.gx c.gy then .error .noSuchPoint
  else
    match powersLoop M c 256 (basis c) with
    | .error e => .error e
    | .ok _ =>
      if fmod c.p 4 ≠ 3 then .error .assertion
      else
        match M.rawMul (-bf) with
        | .error e => .error e
        | .ok _ => .ok ()

end Gen

/-! ## 2. libcrypto and the OpenSSL class -/

/-- the fields of `struct bignum_st` the glue reads through ctypes: the words `d[0 .. top-1]` (as `c_ulong`s) and
`neg`.  A freshly constructed ctypes Structure is zero-filled: `BN.zero`. -/
structure BN where
  d : List Nat
  neg : Bool
  deriving DecidableEq, Repr

def BN.zero : BN := ⟨[], false⟩

/-- libcrypto as the glue sees it, with the group `EC_GROUP_new_by_curve_name(curve_id)` of the class selected.
Every function returns the C return value (as "non-zero / non-NULL") together with the new contents of the objects it
may write; what these are on failure is the library's business (the contract speaks about the cases it covers only). -/
structure LibCrypto where
  /-- `8 * ctypes.sizeof(ctypes.c_ulong)`: the width of the words `BignumType.datawords` reads -/
  ulongBits : Nat
  /-- `BN_mpi2bn(buf, len, bn)` on a zero-filled `bn`: `some` = contents of `*bn` afterwards, `none` = NULL returned
  (`*bn` stays zero-filled).  `len` is the C `int` ctypes makes of the Python integer (wrapped to 32 bits, signed). -/
  mpi2bn : Bytes → Int → Option BN
  /-- contents of an `EC_POINT` -/
  EcPoint : Type
  /-- `EC_POINT_new(group)` -/
  ecPointNew : EcPoint
  /-- `EC_POINT_set_affine_coordinates_GFp(group, point, x, y, ctx)` -/
  setAffine : EcPoint → BN → BN → Bool × EcPoint
  /-- `EC_POINT_mul(group, result, NULL, point, n, ctx)`: return code and new contents of `result` -/
  ecMul : EcPoint → EcPoint → BN → Bool × EcPoint
  /-- `EC_POINT_get_affine_coordinates_GFp(group, point, x, y, ctx)`: return code and new contents of `x`, `y` -/
  getAffine : EcPoint → BN → BN → Bool × BN × BN
  /-- `BN_mod_inverse(a1, a1, m, ctx)` (result written over the operand): `none` = NULL returned -/
  modInverse : BN → BN → Option BN

namespace Ossl

/-- `BignumType.to_int`: `value += w * factor; factor *= ULONG_FACTOR` over `datawords()`, then the sign -/
def toIntLoop (ulongBits : Nat) : List Nat → Int → Int → Int
  | [], value, _ => value
  | w :: ws, value, factor => toIntLoop ulongBits ws (value + (w : Int) * factor) (factor * (2 : Int) ^ ulongBits)

def toInt (L : LibCrypto) (b : BN) : Int :=
  let value := toIntLoop L.ulongBits b.d 0 1
  if b.neg then -value else value

/-- the C `int` ctypes passes for a Python integer argument declared `c_int`: no range check, the low 32 bits, signed -/
def cInt (v : Int) : Int :=
  let w := fmod v (2 ^ 32)
  if w ≥ 2 ^ 31 then w - 2 ^ 32 else w

/-- the buffer `BignumType.__init__` hands to `BN_mpi2bn`:
`struct.pack(">L", the_len + 1) + sign + n.to_bytes(the_len, "big")`; `struct.error` when `the_len + 1 ≥ 2³²`
(an integer of 4 GiB; represented by `.overflow`, the only place where the tag is not the Python class name) -/
def mpiOf (n : Int) : Except Err (Bytes × Nat) :=
  let negative := n < 0
  let mag : Nat := n.natAbs
  let theLen := (Pycoin.RFC6979.bitLength mag + 7) / 8
  let sign : UInt8 := if negative then 0x80 else 0
  if theLen + 1 ≥ 2 ^ 32 then .error .overflow
  else .ok (beBytes (theLen + 1) 4 ++ sign :: beBytes mag theLen, theLen)

/-- `BignumType(n)`: `library.BN_mpi2bn(the_bytes, the_len + 5, self)`, return value ignored -/
def bnInit (L : LibCrypto) (n : Int) : Except Err BN :=
  match mpiOf n with
  | .error e => .error e
  | .ok (buf, theLen) =>
    match L.mpi2bn buf (cInt ((theLen : Int) + 5)) with
    | some b => .ok b
    | none => .ok BN.zero

/-- `Optimizations.multiply(p, e)` -/
def multiply (L : LibCrypto) (c : CurveParams) (P : Pt) (e : Int) : Except Err Pt :=
  let e := if c.n ≠ 0 then fmod e c.n else e          -- `if self._order: e %= self._order`
  match P with
  | none => .ok none                                   -- `e == 0 or p == self._infinity`
  | some (px, py) =>
    if e = 0 then .ok none
    else
      match bnInit L (fmod px c.p) with                -- `BignumType(p[0] % self._p)`
      | .error er => .error er
      | .ok bnX =>
        match bnInit L (fmod py c.p) with
        | .error er => .error er
        | .ok bnY =>
          match bnInit L e with
          | .error er => .error er
          | .ok bnN =>
            let ecResult := L.ecPointNew
            let ecPoint := L.ecPointNew
            let ecPoint := (L.setAffine ecPoint bnX bnY).2       -- return codes are not looked at
            let ecResult := (L.ecMul ecResult ecPoint bnN).2
            let out := L.getAffine ecResult bnX bnY              -- writes bn_x, bn_y (or leaves them as they are)
            mkPoint c (toInt L out.2.1) (toInt L out.2.2)        -- `self.Point(bn_x.to_int(), bn_y.to_int())`

/-- `Optimizations.raw_mul(e)`: `self.multiply(self, e)` -/
def rawMul (L : LibCrypto) (c : CurveParams) (e : Int) : Except Err Pt :=
  multiply L c (basis c) e

/-- `Optimizations.inverse_mod(a, p)`: `assert` on the pointer `BN_mod_inverse` returns (NULL: no inverse) -/
def inverseMod (L : LibCrypto) (a p : Int) : Except Err Int :=
  match bnInit L a with
  | .error er => .error er
  | .ok a1 =>
    match bnInit L p with
    | .error er => .error er
    | .ok bp =>
      match L.modInverse a1 bp with
      | none => .error .assertion
      | some r => .ok (toInt L r)

/-- the same before the repair `fix: OpenSSL inverse_mod …`: the return value was not looked at, and on failure
`BN_mod_inverse` leaves the operand as it is — the operand itself came back -/
def inverseModUnchecked (L : LibCrypto) (a p : Int) : Except Err Int :=
  match bnInit L a with
  | .error er => .error er
  | .ok a1 =>
    match bnInit L p with
    | .error er => .error er
    | .ok bp =>
      match L.modInverse a1 bp with
      | none => .ok (toInt L a1)
      | some r => .ok (toInt L r)

/-- the method table of `class GeneratorWithOptimizations(create_OpenSSLOptimizations(NID), Generator)` -/
def methods (L : LibCrypto) (c : CurveParams) : Methods :=
  { inverseMod := inverseMod L, multiply := multiply L c, rawMul := rawMul L c }

end Ossl

/-! ### an executable `LibCrypto` made of the pure-Python model -/

/-- the MPI format as OpenSSL documents it (`BN_bn2mpi(3)`): 4-byte big-endian length, then the magnitude big-endian
with the most significant bit of the first byte as the sign; the decoder refuses a length that does not match -/
def mpiDecode (buf : Bytes) (len : Int) : Option Int :=
  if len < 4 ∨ len ≠ buf.length then none
  else
    let l := beNat (buf.take 4)
    if l + 4 ≠ buf.length then none
    else if l = 0 then some 0
    else
      let body := buf.drop 4
      let v := beNat body
      if body.headD 0 ≥ 0x80 then some (-((v : Int) - 2 ^ (8 * l - 1))) else some v

/-- little-endian digits of `v` in base `2 ^ bits` (no leading zero word: `top` is minimal) -/
def wordsOf (bits : Nat) : Nat → Nat → List Nat
  | 0, _ => []
  | fuel + 1, v => if v = 0 then [] else v % 2 ^ bits :: wordsOf bits fuel (v / 2 ^ bits)

def bnOfInt (v : Int) : BN := ⟨wordsOf 64 (v.natAbs + 1) v.natAbs, decide (v < 0)⟩

def reducePt (c : CurveParams) : Pt → Pt
  | none => none
  | some (x, y) => some (fmod x c.p, fmod y c.p)

/-- the integer a bignum of base-2⁶⁴ words holds -/
def bnVal (b : BN) : Int :=
  let value := Ossl.toIntLoop 64 b.d 0 1
  if b.neg then -value else value

/-- libcrypto played by the pure model of `Curve`: points are coordinate pairs, bignums base-2⁶⁴ words -/
def pureLib (c : CurveParams) : LibCrypto where
  ulongBits := 64
  mpi2bn buf len := (mpiDecode buf len).map bnOfInt
  EcPoint := Pt
  ecPointNew := none
  setAffine pt bx by_ :=
    let x := bnVal bx
    let y := bnVal by_
    if 0 ≤ x ∧ x < c.p ∧ 0 ≤ y ∧ y < c.p ∧ containsXY c x y then (true, some (x, y))
    else (false, pt)
  ecMul res pt bn :=
    match Curve.multiply c pt (bnVal bn) with
    | .ok R => (true, reducePt c R)
    | .error _ => (false, res)
  getAffine pt bx by_ :=
    match pt with
    | none => (false, bx, by_)
    | some (x, y) => (true, bnOfInt x, bnOfInt y)
  modInverse a m :=
    match Curve.inverseMod (bnVal a) (bnVal m) with
    | .ok r => some (bnOfInt r)
    | .error _ => none

/-! ## 3. libsecp256k1 and its class -/

/-- what `Optimizations.multiply` can return: a point, or the Python value `False` (`if not r: return False` after
`secp256k1_ec_pubkey_parse`) -/
inductive MulRes
  | pt (P : Pt)
  | pyFalse
  deriving DecidableEq, Repr

/-- libsecp256k1 as the glue sees it (one context, created and randomised at import).  Opaque 64-byte objects are
abstract; `create_string_buffer` gives zero-filled ones. -/
structure LibSecp256k1 where
  Pubkey : Type
  Sig : Type
  zeroPubkey : Pubkey
  zeroSig : Sig
  /-- `secp256k1_ec_pubkey_create(ctx, pubkey, seckey32)` -/
  pubkeyCreate : Pubkey → Bytes → Bool × Pubkey
  /-- `secp256k1_ec_pubkey_serialize(ctx, out65, &size, pubkey, flags)`: contents of the zero-filled 65-byte `out65` afterwards -/
  pubkeySerialize : Pubkey → Nat → Bytes
  /-- `secp256k1_ec_pubkey_parse(ctx, pubkey, input, inputlen)` -/
  pubkeyParse : Pubkey → Bytes → Nat → Bool × Pubkey
  /-- `secp256k1_ec_pubkey_tweak_mul(ctx, pubkey, tweak32)` -/
  pubkeyTweakMul : Pubkey → Bytes → Bool × Pubkey
  /-- `secp256k1_ecdsa_sign(ctx, sig, msg32, seckey32, noncefp, NULL)`; `noncefp`: `none` = NULL (the library's default
  nonce function), `some k32` = the ctypes callback of the glue, which writes the constant `k32` and returns 1 -/
  ecdsaSign : Sig → Bytes → Bytes → Option Bytes → Bool × Sig
  /-- `secp256k1_ecdsa_signature_serialize_compact(ctx, out64, sig)` -/
  sigSerializeCompact : Sig → Bytes
  /-- `secp256k1_ecdsa_signature_parse_compact(ctx, sig, input64)` -/
  sigParseCompact : Sig → Bytes → Bool × Sig
  /-- `secp256k1_ecdsa_signature_normalize(ctx, sig, sig)` (in place; the return value is overwritten unread) -/
  sigNormalize : Sig → Sig
  /-- `secp256k1_ecdsa_verify(ctx, sig, msg32, pubkey)` as a C int -/
  ecdsaVerify : Sig → Bytes → Pubkey → Int

namespace Secp

/-- `to_bytes_32(v)`: `v.to_bytes(32, "big")`, `OverflowError` for negative or ≥ 2²⁵⁶ -/
def toBytes32 (v : Int) : Except Err Bytes := Pycoin.RFC6979.toBytesBE v 32

/-- `from_bytes_32` -/
def fromBytes32 (b : Bytes) : Int := (beNat b : Int)

def SECP256K1_EC_UNCOMPRESSED : Nat := 2

/-- serialise, then `x = from_bytes_32(out[1:33])`, `y = from_bytes_32(out[33:])`, `self.Point(x, y)` -/
def pointOfPubkey (S : LibSecp256k1) (c : CurveParams) (pk : S.Pubkey) : Except Err Pt :=
  let out := S.pubkeySerialize pk SECP256K1_EC_UNCOMPRESSED
  mkPoint c (fromBytes32 (slice out 1 33)) (fromBytes32 (out.drop 33))

/-- `Optimizations.__mul__(e)` (no blinding) -/
def mul (S : LibSecp256k1) (c : CurveParams) (e : Int) : Except Err Pt :=
  let e := fmod e c.n
  if e = 0 then .ok none
  else
    match toBytes32 e with
    | .error er => .error er
    | .ok e32 =>
      let pubkey := (S.pubkeyCreate S.zeroPubkey e32).2
      pointOfPubkey S c pubkey

/-- `Optimizations.multiply(p, e)` -/
def multiply (S : LibSecp256k1) (c : CurveParams) (P : Pt) (e : Int) : Except Err MulRes :=
  let e := fmod e c.n
  match P with
  | none => .ok (.pt none)
  | some (px, py) =>
    if e = 0 then .ok (.pt none)
    else
      match toBytes32 px with
      | .error er => .error er
      | .ok x32 =>
        match toBytes32 py with
        | .error er => .error er
        | .ok y32 =>
          let buf := (4 : UInt8) :: (x32 ++ y32)
          let r := S.pubkeyParse S.zeroPubkey buf buf.length
          if ¬ r.1 then .ok .pyFalse
          else
            match toBytes32 e with
            | .error er => .error er
            | .ok e32 =>
              let r2 := S.pubkeyTweakMul r.2 e32
              if ¬ r2.1 then .ok (.pt none)
              else (pointOfPubkey S c r2.2).map .pt

/-- `Optimizations.sign(secret_exponent, val, gen_k)` -/
def sign (S : LibSecp256k1) (c : CurveParams) (genK : Option (Nat → Int → Int → Except Err Int)) (d val : Int) :
    Except Err (Int × Int) :=
  let nonce : Except Err (Option Bytes) :=
    match genK with
    | none => .ok none
    | some g =>
      match g c.n d val with
      | .error e => .error e
      | .ok k => (toBytes32 k).map some
  match nonce with
  | .error e => .error e
  | .ok nonceFn =>
    match toBytes32 val with
    | .error e => .error e
    | .ok msg =>
      match toBytes32 d with
      | .error e => .error e
      | .ok key =>
        let sig := (S.ecdsaSign S.zeroSig msg key nonceFn).2
        let compact := S.sigSerializeCompact sig
        .ok (fromBytes32 (compact.take 32), fromBytes32 (compact.drop 32))

/-- `Optimizations.verify(public_pair, val, signature_pair)`; `Q = none` is `(None, None)`:
`None.to_bytes` is an `AttributeError`, which `Err` does not have — reported as `.type`, outside every theorem -/
def verify (S : LibSecp256k1) (Q : Pt) (val r s : Int) : Except Err Bool :=
  match toBytes32 r with
  | .error e => .error e
  | .ok r32 =>
    match toBytes32 s with
    | .error e => .error e
    | .ok s32 =>
      let p := S.sigParseCompact S.zeroSig (r32 ++ s32)
      if ¬ p.1 then .ok false
      else
        let sig := S.sigNormalize p.2
        match Q with
        | none => .error .type
        | some (qx, qy) =>
          match toBytes32 qx with
          | .error e => .error e
          | .ok x32 =>
            match toBytes32 qy with
            | .error e => .error e
            | .ok y32 =>
              let buf := (4 : UInt8) :: (x32 ++ y32)
              let pk := S.pubkeyParse S.zeroPubkey buf buf.length
              if ¬ pk.1 then .ok false
              else
                match toBytes32 val with
                | .error e => .error e
                | .ok msg => .ok (decide (S.ecdsaVerify sig msg pk.2 = 1))

/-- the method table of `GeneratorWithOptimizations(LibSECP256K1Optimizations, <base>, Generator)`: `multiply` and
`__mul__` come from libsecp256k1, the rest from `base` (the OpenSSL class, or the pure one).  A product that is the
Python value `False` raises `TypeError` at the `+` of the only generic caller that consumes it (recovery). -/
def methods (S : LibSecp256k1) (c : CurveParams) (base : Methods) : Methods :=
  { base with
    multiply := fun P e =>
      match multiply S c P e with
      | .error er => .error er
      | .ok (.pt R) => .ok R
      | .ok .pyFalse => .error .type
    mulOverride := some (mul S c) }

/-- `generate_shared_public_key` in the libsecp256k1 class: the product is returned as it is (possibly `False`) -/
def sharedPublicKey (S : LibSecp256k1) (c : CurveParams) (d : Int) (Q : Pt) : Except Err MulRes :=
  if ¬ containsPoint c Q then .error .noSuchPoint else multiply S c Q d

end Secp

/-! ### an executable `LibSecp256k1` made of the pure-Python model (non-vacuity witness of `LibSecpOk`) -/

/-- libsecp256k1 played by the pure model: public-key objects are points, signature objects pairs `(r, s)` -/
def pureSecp (c : CurveParams) : LibSecp256k1 where
  Pubkey := Pt
  Sig := Int × Int
  zeroPubkey := none
  zeroSig := (0, 0)
  pubkeyCreate pk e32 :=
    let e : Int := (beNat e32 : Int)
    if 0 < e ∧ e < c.n then
      match Curve.rawMul c e with
      | .ok R => (true, R)
      | .error _ => (false, pk)
    else (false, pk)
  pubkeySerialize pk _ :=
    match pk with
    | some (x, y) => (4 : UInt8) :: (beBytes x.toNat 32 ++ beBytes y.toNat 32)
    | none => List.replicate 65 0
  pubkeyParse pk buf len :=
    let x : Int := (beNat (slice buf 1 33) : Int)
    let y : Int := (beNat (buf.drop 33) : Int)
    if len = 65 ∧ buf.length = 65 ∧ buf.headD 0 = 4 ∧ x < c.p ∧ y < c.p ∧ containsXY c x y then (true, some (x, y))
    else (false, pk)
  pubkeyTweakMul pk t32 :=
    let t : Int := (beNat t32 : Int)
    if 0 < t ∧ t < c.n then
      match Curve.multiply c pk t with
      | .ok R => (true, R)
      | .error _ => (false, pk)
    else (false, pk)
  ecdsaSign sig msg key nonce :=
    let z : Int := (beNat msg : Int)
    let d : Int := (beNat key : Int)
    let k? : Option Int :=
      match nonce with
      | some k32 => some (beNat k32 : Int)
      | none =>
        match Pycoin.RFC6979.deterministicGenerateK c.n d z with
        | .ok k => some k
        | .error _ => none
    match k? with
    | none => (false, sig)
    | some k =>
      match Curve.rawMul c k, Curve.inverseN c k with
      | .ok (some (x, _)), .ok ki =>
        let r := x % (c.n : Int)
        let s := (ki * (z + d * r % (c.n : Int))) % (c.n : Int)
        (true, (r, if s > (c.n : Int) / 2 then (c.n : Int) - s else s))
      | _, _ => (false, sig)
  sigSerializeCompact sig := beBytes sig.1.toNat 32 ++ beBytes sig.2.toNat 32
  sigParseCompact sig buf :=
    let r : Int := (beNat (buf.take 32) : Int)
    let s : Int := (beNat (buf.drop 32) : Int)
    if r < c.n ∧ s < c.n then (true, (r, s)) else (false, sig)
  sigNormalize sig := (sig.1, if sig.2 > (c.n : Int) / 2 then (c.n : Int) - sig.2 else sig.2)
  ecdsaVerify sig msg pk :=
    let z : Int := (beNat msg : Int)
    match Curve.verify c 0 pk z sig.1 sig.2 with
    | .ok true => if sig.2 ≤ (c.n : Int) / 2 then 1 else 0
    | _ => 0

end Pycoin.Native
