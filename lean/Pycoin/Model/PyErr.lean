/-! Python exception classes raised by the hash/bloom models (printed by the driver as `err <ClassName>`). Import-free. -/
namespace Pycoin

inductive PyErr
  | indexError | valueError | assertionError | structError | typeError | zeroDivisionError | keyError | attributeError
  deriving DecidableEq, Repr

def PyErr.tag : PyErr → String
  | .indexError => "IndexError"
  | .valueError => "ValueError"
  | .assertionError => "AssertionError"
  | .structError => "error"          -- struct.error's class name
  | .typeError => "TypeError"
  | .zeroDivisionError => "ZeroDivisionError"
  | .keyError => "KeyError"
  | .attributeError => "AttributeError"

instance {ε α} [DecidableEq ε] [DecidableEq α] : DecidableEq (Except ε α)
  | .ok a, .ok b => if h : a = b then isTrue (by rw [h]) else isFalse (fun e => h (by injection e))
  | .error a, .error b => if h : a = b then isTrue (by rw [h]) else isFalse (fun e => h (by injection e))
  | .ok _, .error _ => isFalse (fun e => by injection e)
  | .error _, .ok _ => isFalse (fun e => by injection e)

/-- Python `seq[i]` for an integer index: negative indices count from the end; out of range raises `IndexError` -/
def pyGetItem {α} (l : List α) (i : Int) : Except PyErr α :=
  let k : Int := if i < 0 then i + l.length else i
  if k < 0 then .error .indexError
  else match l[k.toNat]? with
    | some v => .ok v
    | none => .error .indexError

/-- Python `a << k` : `ValueError` (negative shift count) when `k < 0` -/
def pyShlE (a k : Int) : Except PyErr Int :=
  if k < 0 then .error .valueError else .ok (a <<< k.toNat)

/-- Python `a >> k` : `ValueError` (negative shift count) when `k < 0` -/
def pyShrE (a k : Int) : Except PyErr Int :=
  if k < 0 then .error .valueError else .ok (a >>> k.toNat)

end Pycoin
