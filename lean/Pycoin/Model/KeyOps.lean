import Pycoin.Model.Der
import Pycoin.Model.Wif
/-!
C10 — the rest of `pycoin/key/Key.py` and of `network.keys` (`pycoin/networks/bitcoinish.py`):
`Key.verify(h, sig)` on raw DER bytes (malformed DER is `False`, not an exception), `Key.sign` on a public key,
`Key.override_network`, `network.keys.public(item, is_compressed)`.
-/
namespace Pycoin.KeyOps
open Pycoin.Sec Pycoin.KeyCtor
open Pycoin.Curve (CurveParams Pt)

inductive Err
  | runtimeError                -- `Key.sign` on a public key
  | valueError                  -- `override_network` of a public key; `keys.public(sec, is_compressed=…)`
  | der (e : Der.Err)           -- what `sigdecode_der` raises and `Key.verify` does not catch
  | curve (e : Curve.Err)
  | sec (e : Sec.Err)
  deriving DecidableEq, Repr

def Err.tag : Err → String
  | .runtimeError => "RuntimeError"
  | .valueError => "ValueError"
  | .der e => e.tag
  | .curve e => e.tag
  | .sec e => e.tag

/-- `Key.verify(h, sig)`: `from_bytes_32(h)`, strict `sigdecode_der`, `Generator.verify`;
`except (UnexpectedDER, ValueError): return False` -/
def keyVerify (c : CurveParams) (bf : Int) (Q : Pt) (h sig : Bytes) : Except Err Bool :=
  match Der.sigdecodeDer sig false with
  | .error .unexpectedDER => .ok false
  | .error .valueError => .ok false
  | .error e => .error (.der e)
  | .ok (r, s) =>
    match Curve.verify c bf Q (fromBytes32 h) r s with
    | .ok b => .ok b
    | .error e => if e.isValueError then .ok false else .error (.curve e)

/-- `Key.sign(h)` as far as the key kind decides: a public key raises `RuntimeError` before anything is computed -/
def keySignGuard (k : Key) : Except Err Unit :=
  match k.se with
  | some _ => .ok ()
  | none => .error .runtimeError

/-- `Key.override_network(other)`: `other.parse.secret_exponent(secret_exponent)` — a key of the other network with
the same exponent and that parser's default compression (compressed), whatever this key's flag was; a public key
cannot be converted -/
def overrideNetwork (c : CurveParams) (mul : Int → Except Curve.Err Pt) (k : Key) : Except Err Key :=
  match k.se with
  | some d =>
    if d ≠ 0 then
      match keyFromSecretWith c mul d true with
      | .ok k' => .ok k'
      | .error e => .error (.sec e)
    else .error .valueError
  | none => .error .valueError

/-- the `item` of `network.keys.public(item, is_compressed=None)` -/
inductive PubItem
  | pair (P : Pt)
  | sec (b : Bytes)

/-- `network.keys.public(item, is_compressed)`: a tuple is a public pair (default compressed); SEC bytes carry their
own compression, so asking for one is a `ValueError` -/
def keysPublic (c : CurveParams) (item : PubItem) (isCompressed : Option Bool) : Except Err Key :=
  match item with
  | .pair P =>
    match keyFromPair c P (isCompressed.getD true) with
    | .ok k => .ok k
    | .error e => .error (.sec e)
  | .sec b =>
    match isCompressed with
    | some _ => .error .valueError
    | none =>
      match keyFromSec c b with
      | .ok k => .ok k
      | .error e => .error (.sec e)

/-- `encoding.sec.is_sec(sec)`: the shape test — prefix `02`/`03` with 33 bytes or `04` with 65 -/
def isSec (sec : Bytes) : Bool :=
  let c := sec.take 1
  if (c = [2] ∨ c = [3]) ∧ sec.length = 33 then true
  else decide (c = [4] ∧ sec.length = 65)

end Pycoin.KeyOps
