import Pycoin.Model.ScriptNum
import Pycoin.Model.ScriptStreamer
/-!
C12 — model of `pycoin/vm/ScriptTools.py` (`compile`, `compile_expression`, `disassemble`,
`opcode_list`, `disassemble_for_opcode_data`) instantiated as `BitcoinScriptTools`.
Text is `List Char`.  The string layer (Python `str.split()`, `str.upper()`, `int()`,
`binascii.unhexlify`, UTF-8 encoding) is rendered for ASCII text outside quoted tokens.
-/
namespace Pycoin.Script
open Pycoin.Gen.Opcodes Pycoin.ScriptNum

abbrev Text := List Char

/-- `self.opcode_to_int` with `List Char` keys -/
def opcodeToIntC : List (Text × UInt8) := opcodeToInt.map fun p => (p.1.toList, p.2)
/-- `self.int_to_opcode` with `List Char` values -/
def intToOpcodeC : List (UInt8 × Text) := intToOpcode.map fun p => (p.1, p.2.toList)

/-- `str.upper()` on ASCII -/
def upper (t : Text) : Text := t.map Char.toUpper

/-- characters on which `str.split()` splits (`str.isspace`) -/
def isSpace (c : Char) : Bool :=
  let n := c.toNat
  (9 ≤ n && n ≤ 13) || (28 ≤ n && n ≤ 32) || n == 0x85 || n == 0xa0 || n == 0x1680 ||
  (0x2000 ≤ n && n ≤ 0x200a) || n == 0x2028 || n == 0x2029 || n == 0x202f || n == 0x205f || n == 0x3000

/-- `s.split()`: maximal runs of non-space characters -/
def splitWs (s : Text) : List Text :=
  let rec go : Text → Text → List Text
    | [], cur => if cur.isEmpty then [] else [cur.reverse]
    | c :: r, cur =>
      if isSpace c then (if cur.isEmpty then go r [] else cur.reverse :: go r [])
      else go r (c :: cur)
  go s []

/-- `binascii.unhexlify(str)`: ASCII hex digits of either case, even length -/
def unhexlify (t : Text) : Option Bytes := Hex.decodeChars t

/-- `binascii.hexlify(data).decode("utf8")` -/
def hexlify (d : Bytes) : Text := Hex.encodeChars d

def isDigit (c : Char) : Bool := '0' ≤ c && c ≤ '9'

/-- digits of Python's `int(str)` after the sign: decimal digits, single underscores between digits -/
def parseDigits : Text → Nat → Bool → Option Nat
  | [], acc, prevDigit => if prevDigit then some acc else none
  | c :: r, acc, prevDigit =>
    if isDigit c then parseDigits r (acc * 10 + (c.toNat - 48)) true
    else if c = '_' ∧ prevDigit then parseDigits r acc false
    else none

/-- Python `int(t)` for an ASCII token without white space: `none` = `ValueError` -/
def parseInt (t : Text) : Option Int :=
  match t with
  | '-' :: r => (parseDigits r 0 false).map fun n => -(n : Int)
  | '+' :: r => (parseDigits r 0 false).map fun n => (n : Int)
  | r => (parseDigits r 0 false).map fun n => (n : Int)

/-- `str.encode("utf8")` -/
def utf8 (t : Text) : Bytes := (String.ofList t).toUTF8.toList

/-- `t[1:-1]` -/
def inner (t : Text) : Text := (t.drop 1).dropLast

/-- `ScriptTools.compile_expression(t)` for a non-empty token -/
def compileExpression (t : Text) : Except Err Bytes :=
  match t.head?, t.getLast? with
  | some h, some l =>
    if h = '[' ∧ l = ']' then
      match unhexlify (inner t) with
      | some b => .ok b
      | none => .error .binasciiError
    else if h = '\'' ∧ l = '\'' then .ok (utf8 (inner t))
    else
      let viaHex : Except Err Bytes := match unhexlify t with
        | some b => .ok b
        | none => .error .syntaxError
      match parseInt t with
      | some t0 => if t0.natAbs ≤ 0xFFFFFFFFFFFFFFFF ∧ h ≠ '0' then .ok (intToScriptBytes t0) else viaHex
      | none => viaHex
  | _, _ => .error .indexError

/-- one iteration of the loop of `ScriptTools.compile`: the bytes written for token `t` -/
def compileToken (t : Text) : Except Err Bytes :=
  let tUp := upper t
  if (dictGet tUp opcodeToIntC).isSome then
    match dictGet t opcodeToIntC with            -- `self.opcode_to_int[t]`, not `t_up`
    | some b => .ok [b]
    | none => .error .keyError
  else if (dictGet ("OP_".toList ++ tUp) opcodeToIntC).isSome then
    match dictGet ("OP_".toList ++ t) opcodeToIntC with
    | some b => .ok [b]
    | none => .error .keyError
  else if "0X".toList.isPrefixOf tUp then
    match unhexlify (t.drop 2) with
    | some d => .ok d
    | none => .error .binasciiError
  else
    match compileExpression t with
    | .error e => .error e
    | .ok v => compilePushData v

/-- `ScriptTools.compile` on the token list `s.split()` -/
def compileTokens : List Text → Except Err Bytes
  | [] => .ok []
  | t :: r =>
    match compileToken t with
    | .error e => .error e
    | .ok a =>
      match compileTokens r with
      | .error e => .error e
      | .ok b => .ok (a ++ b)

/-- `ScriptTools.compile(s)` -/
def compile (s : Text) : Except Err Bytes := compileTokens (splitWs s)

/-- `ScriptTools.disassemble_for_opcode_data(opcode, data)` -/
def disassembleForOpcodeData (opcode : UInt8) (data : Option Bytes) : Text :=
  let opcodeStr := match dictGet opcode intToOpcodeC with       -- `.get(opcode, "???")`
    | some s => s
    | none => "???".toList
  match data with
  | some d =>
    if d.length > 0 ∧ "OP_PUSH".toList.isPrefixOf opcodeStr then '[' :: (hexlify d ++ [']'])
    else opcodeStr
  | none => opcodeStr

/-- `ScriptTools.opcode_list(script)`: `get_opcodes` without minimal-data verification; if it raised
`ScriptError` the rest of the script from the last `new_pc` is appended as hex -/
def opcodeList' (script : Bytes) : List Text :=
  let r := getOpcodes script false 0
  let toks := r.1.map fun it => disassembleForOpcodeData it.opcode it.data
  match r.2 with
  | some .scriptError =>
    let newPc := match r.1.getLast? with
      | some it => it.newPc
      | none => 0
    toks ++ [hexlify (script.drop newPc)]
  | _ => toks

def joinSpace : List Text → Text
  | [] => []
  | [t] => t
  | t :: r => t ++ ' ' :: joinSpace r

/-- `ScriptTools.disassemble(script)` -/
def disassemble (script : Bytes) : Text := joinSpace (opcodeList' script)

end Pycoin.Script
