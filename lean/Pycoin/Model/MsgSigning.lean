import Pycoin.Model.RFC6979
import Pycoin.Model.Hash
import Pycoin.Model.Wire
import Pycoin.Gen.MsgSigning
/-!
C17 — model of `pycoin/contrib/msg_signing.py` (`MessageSigner`), as repaired by the `fix:` commits
(`_decode_signature` turns undecodable text into `EncodingError`; `pair_for_message_hash` range-checks `r`, `s`,
recovers from `x = r + n` for recovery ids 2 and 3, refuses `x ≥ p`, an empty recovery list and the point at
infinity).

Conventions
* a Python `str` is a `List Char` (`Str`): Unicode scalar values; strings holding lone surrogates (for which
  `.encode("utf8")` raises) are outside the model;
* `binascii.a2b_base64` / `b2a_base64` (CPython 3.12, non-strict mode) are modelled exactly on byte strings:
  characters outside the alphabet are skipped, `=` is skipped unless it completes a quad, everything after a
  completed pad sequence is ignored, a dangling quad is `binascii.Error`; a `str` argument must be ASCII
  (`ValueError` otherwise);
* `parse_sections` is modelled on the list of lines (`text.split("\n")`): every literal and the regular expression
  it uses contain `"\n"` only at their ends, so occurrences are whole lines (see the comments at each function);
* the curve functions come from `Model/Curve.lean` (`possiblePublicPairsForSignature`, `signWithRecid`).
-/
namespace Pycoin.MsgSigning
open Pycoin Pycoin.Curve
open Pycoin.Gen.MsgSigning

abbrev Str := List Char

inductive Err
  | encodingError
  | indexError
  | valueError
  | keyError
  | overflowError
  | attributeError
  | curve (e : Curve.Err)
  | wire (e : Wire.Err)
  | unsupported     -- a shape of the generated literals this model has no semantics for (never on the shipped source)
  deriving DecidableEq, Repr

def Err.tag : Err → String
  | .encodingError => "EncodingError"
  | .indexError => "IndexError"
  | .valueError => "ValueError"
  | .keyError => "KeyError"
  | .overflowError => "OverflowError"
  | .attributeError => "AttributeError"
  | .curve e => e.tag
  | .wire e => e.tag
  | .unsupported => "MODEL-UNSUPPORTED"

/-! ## `str` helpers -/

/-- `s.encode("utf8")` -/
def utf8 (s : Str) : Bytes := s.flatMap String.utf8EncodeChar

/-- `bytes.decode("utf8")` of pure-ASCII bytes (`b2a_base64` output) -/
def asciiStr (b : Bytes) : Str := b.map fun x => Char.ofNat x.toNat

/-- `str.isspace()` of one character (CPython 3.12 / Unicode 15) -/
def pyIsSpace (c : Char) : Bool :=
  let n := c.toNat
  (9 ≤ n && n ≤ 13) || (28 ≤ n && n ≤ 32) || n == 0x85 || n == 0xa0 || n == 0x1680 || (0x2000 ≤ n && n ≤ 0x200a)
    || n == 0x2028 || n == 0x2029 || n == 0x202f || n == 0x205f || n == 0x3000

/-- `str.strip()` -/
def pyStrip (s : Str) : Str := ((s.dropWhile pyIsSpace).reverse.dropWhile pyIsSpace).reverse

/-- head and tail of `s.split(sep)` for a one-character separator -/
def splitOn1 (sep : Char) : Str → Str × List Str
  | [] => ([], [])
  | c :: cs =>
    let r := splitOn1 sep cs
    if c = sep then ([], r.1 :: r.2) else (c :: r.1, r.2)

/-- `s.split(sep)` (never empty) -/
def splitOn (sep : Char) (s : Str) : List Str := (splitOn1 sep s).1 :: (splitOn1 sep s).2

/-- `sep.join(parts)` -/
def joinWith (sep : Str) : List Str → Str
  | [] => []
  | [a] => a
  | a :: b :: rest => a ++ sep ++ joinWith sep (b :: rest)

def splitLines (s : Str) : List Str := splitOn '\n' s
def joinLines (l : List Str) : Str := joinWith ['\n'] l

/-- `needle in s` -/
def isInfix (needle : Str) : Str → Bool
  | [] => needle.isEmpty
  | c :: cs => needle.isPrefixOf (c :: cs) || isInfix needle cs

/-- `str.upper()` / `str.lower()` restricted to what the model needs: ASCII letters change, every other
character is left alone (network names are ASCII: `Props/C17.lean: networkNames_ascii`; for `lower` see `lowerEq`) -/
def asciiUpper (c : Char) : Char := if 'a' ≤ c ∧ c ≤ 'z' then Char.ofNat (c.toNat - 32) else c
def asciiLower (c : Char) : Char := if 'A' ≤ c ∧ c ≤ 'Z' then Char.ofNat (c.toNat + 32) else c

/-- `label.lower() == target` for a target made of the letters `a d e r s`: the only code points whose
`str.lower()` consists of these letters are the ASCII letters themselves (checked over all of Unicode by the harness,
`c17.py: _lower_table_ok`), so comparing after ASCII lower-casing is exact -/
def lowerEq (label target : Str) : Bool := label.map asciiLower == target

/-! ## base64 (`binascii`) -/

/-- the base64 alphabet `A–Z a–z 0–9 + /` as a function of the 6-bit value -/
def b64Enc (v : Nat) : UInt8 :=
  if v < 26 then UInt8.ofNat (65 + v)
  else if v < 52 then UInt8.ofNat (71 + v)
  else if v < 62 then UInt8.ofNat (v - 4)
  else if v = 62 then 43 else 47

/-- `table_a2b_base64` -/
def b64Dec? (c : UInt8) : Option Nat :=
  let n := c.toNat
  if 65 ≤ n ∧ n ≤ 90 then some (n - 65)
  else if 97 ≤ n ∧ n ≤ 122 then some (n - 71)
  else if 48 ≤ n ∧ n ≤ 57 then some (n + 4)
  else if n = 43 then some 62
  else if n = 47 then some 63
  else none

/-- body of `b2a_base64` without the trailing newline -/
def b64Groups : Bytes → Bytes
  | a :: b :: c :: rest =>
    b64Enc (a.toNat / 4) :: b64Enc (a.toNat % 4 * 16 + b.toNat / 16) :: b64Enc (b.toNat % 16 * 4 + c.toNat / 64)
      :: b64Enc (c.toNat % 64) :: b64Groups rest
  | [a, b] => [b64Enc (a.toNat / 4), b64Enc (a.toNat % 4 * 16 + b.toNat / 16), b64Enc (b.toNat % 16 * 4), 61]
  | [a] => [b64Enc (a.toNat / 4), b64Enc (a.toNat % 4 * 16), 61, 61]
  | [] => []

/-- `binascii.b2a_base64(data)` (`newline=True`) -/
def b2aBase64 (b : Bytes) : Bytes := b64Groups b ++ [10]

inductive B64Err
  | binascii   -- `binascii.Error` ("Incorrect padding" / "number of data characters cannot be 1 more than a multiple of 4")
  | value      -- `ValueError`: a `str` argument with a non-ASCII character
  deriving DecidableEq, Repr

def B64Err.tag : B64Err → String
  | .binascii => "Error"
  | .value => "ValueError"

/-- the loop of `binascii.a2b_base64` in non-strict mode: state `quad_pos`, `leftchar`, `pads` -/
def a2bLoop : Bytes → Nat → Nat → Nat → Except B64Err Bytes
  | [], q, _, _ => if q = 0 then .ok [] else .error .binascii
  | ch :: rest, q, lc, pads =>
    if ch = 61 then
      -- `if (quad_pos >= 2 && quad_pos + ++pads >= 4) goto done;` (`++pads` only when `quad_pos >= 2`)
      if q ≥ 2 then
        if q + (pads + 1) ≥ 4 then .ok [] else a2bLoop rest q lc (pads + 1)
      else a2bLoop rest q lc pads
    else
      match b64Dec? ch with
      | none => a2bLoop rest q lc pads
      | some v =>
        if q = 0 then a2bLoop rest 1 v 0
        else if q = 1 then (a2bLoop rest 2 (v % 16) 0).map (UInt8.ofNat (lc * 4 + v / 16) :: ·)
        else if q = 2 then (a2bLoop rest 3 (v % 4) 0).map (UInt8.ofNat (lc * 16 + v / 4) :: ·)
        else (a2bLoop rest 0 0 0).map (UInt8.ofNat (lc * 64 + v) :: ·)

/-- `binascii.a2b_base64(data: bytes)` -/
def a2bBase64 (b : Bytes) : Except B64Err Bytes := a2bLoop b 0 0 0

/-- the ASCII bytes of a `str`, `none` when a character is not ASCII -/
def asciiBytes? (s : Str) : Option Bytes :=
  s.mapM fun c => if c.toNat < 128 then some (UInt8.ofNat c.toNat) else none

/-- `binascii.a2b_base64(data: str)` -/
def a2bBase64Str (s : Str) : Except B64Err Bytes :=
  match asciiBytes? s with
  | none => .error .value
  | some b => a2bBase64 b

/-- `bytes.strip()`: ASCII whitespace `\t \n \v \f \r` and space -/
def isAsciiSpace (b : UInt8) : Bool := (9 ≤ b && b ≤ 13) || b == 32
def bytesStrip (b : Bytes) : Bytes := ((b.dropWhile isAsciiSpace).reverse.dropWhile isAsciiSpace).reverse

/-! ## `hash_for_signing`, `msg_magic_for_netcode` -/

/-- `fmt % arg` for a format with `%s` conversions only (anything else after `%`: no model) -/
def pctFormat : Str → Str → Except Err Str
  | [], _ => .ok []
  | '%' :: 's' :: rest, arg => (pctFormat rest arg).map (arg ++ ·)
  | '%' :: _, _ => .error .unsupported
  | c :: rest, arg => (pctFormat rest arg).map (c :: ·)

/-- `msg_magic_for_netcode()` -/
def msgMagic (networkName : Str) : Except Err Str := pctFormat magicFormat.toList networkName

def liftWire {α} : Except Wire.Err α → Except Err α
  | .ok a => .ok a
  | .error e => .error (.wire e)

def liftCurve {α} : Except Curve.Err α → Except Err α
  | .ok a => .ok a
  | .error e => .error (.curve e)

/-- the byte string that is hashed: both strings with their compact-size length -/
def signingPreimage (networkName msg : Str) : Except Err Bytes := do
  let magic ← msgMagic networkName
  let a ← liftWire (Wire.streamSatoshiString (utf8 magic))
  let b ← liftWire (Wire.streamSatoshiString (utf8 msg))
  pure (a ++ b)

/-- `hash_for_signing(msg)`: `from_bytes_32(double_sha256(...))` -/
def hashForSigning (networkName msg : Str) : Except Err Nat := do
  let pre ← signingPreimage networkName msg
  pure (beNat (Hash.dsha256 pre))

/-! ## compact signatures -/

/-- `to_bytes_32(v)`: `int.to_bytes(32, "big")` raises `OverflowError` outside `[0, 2^256)` -/
def toBytes32 (v : Int) : Except Err Bytes :=
  if v < 0 then .error .overflowError
  else match beBytes? v.toNat 32 with
    | none => .error .overflowError
    | some b => .ok b

/-- `first = 27 + recid + (4 if is_compressed else 0)` -/
def headerByte (recid : Int) (comp : Bool) : Int := 27 + recid + (if comp then 4 else 0)

/-- `b2a_base64(bytes([first]) + to_bytes_32(r) + to_bytes_32(s)).strip().decode("utf8")` -/
def encodeSignature (r s recid : Int) (comp : Bool) : Except Err Str := do
  let first := headerByte recid comp
  -- `bytes([first])` raises `ValueError` outside `range(256)`
  if first < 0 ∨ first ≥ 256 then .error .valueError
  let rb ← toBytes32 r
  let sb ← toBytes32 s
  pure (asciiStr (bytesStrip (b2aBase64 (UInt8.ofNat first.toNat :: (rb ++ sb)))))

/-- `signature_for_message_hash(secret_exponent, msg_hash, is_compressed)` -/
def signatureForMessageHash (c : CurveParams) (bf d z : Int) (comp : Bool) : Except Err Str := do
  let (r, s, recid) ← liftCurve (RFC6979.signWithRecid c bf d z)
  encodeSignature r s recid comp

/-- the range test and bit fields of `_decode_signature` on the first byte -/
def decodeHeader (first : Nat) : Except Err (Bool × Nat) :=
  if 27 ≤ first ∧ first < 35 then .ok ((first - 27) &&& 4 != 0, (first - 27) &&& 3)
  else .error .encodingError

/-- `_decode_signature(signature)` → `(is_compressed, recid, r, s)`.
Repaired: `binascii.Error` and the `ValueError` for non-ASCII text become `EncodingError`. -/
def decodeSignature (sig : Str) : Except Err (Bool × Nat × Nat × Nat) :=
  match a2bBase64Str sig with
  | .error _ => .error .encodingError
  | .ok raw =>
    if raw.length ≠ 65 then .error .encodingError
    else
      match raw with
      | [] => .error .indexError            -- `sig[0]`; excluded by the length test
      | first :: _ =>
        let r := beNat (slice raw 1 33)
        let s := beNat (slice raw 33 (33 + 32))
        match decodeHeader first.toNat with
        | .error e => .error e
        | .ok (comp, recid) => .ok (comp, recid, r, s)

/-- `pair_for_message_hash(signature, msg_hash)` → `(pair, is_compressed)` (repaired) -/
def pairForMessageHash (c : CurveParams) (bf : Int) (sig : Str) (z : Int) : Except Err (Pt × Bool) :=
  match decodeSignature sig with
  | .error e => .error e
  | .ok (comp, recid, r, s) =>
    let n : Int := c.n
    let r : Int := r
    let s : Int := s
    if ¬ (1 ≤ r ∧ r < n ∧ 1 ≤ s ∧ s < n) then .error .encodingError
    else
      -- recovery ids 2 and 3: the abscissa of the nonce point was `r + n`
      let x : Int := if recid > 1 then r + n else r
      if x ≥ c.p then .error .encodingError
      else
        match possiblePublicPairsForSignature c bf z x s (some ((recid &&& 1 : Nat) : Int)) with
        | .error e => .error (.curve e)
        | .ok [] => .error .encodingError
        | .ok (q :: _) => if q = none then .error .encodingError else .ok (q, comp)

/-- `public_pair_to_sec(pair, compressed)` -/
def publicPairToSec (x y : Int) (comp : Bool) : Except Err Bytes := do
  let xb ← toBytes32 x
  if comp then pure (UInt8.ofNat (2 + (fmod y 2).toNat) :: xb)
  else
    let yb ← toBytes32 y
    pure (4 :: (xb ++ yb))

/-- `public_pair_to_hash160_sec(pair, compressed)` -/
def publicPairToHash160Sec (x y : Int) (comp : Bool) : Except Err Bytes :=
  (publicPairToSec x y comp).map Hash.hash160

/-- what `verify_message` compares the recovered pair with -/
inductive KeyObj
  /-- an object with a `public_pair()` method (a `Key`); `none` = the method returns `None` -/
  | key (pub : Option (Int × Int))
  /-- a `Contract` (what `parse.address` returns): `info()["type"]`, and `hash160()`, which may be `None` -/
  | contract (typ : String) (h160 : Option Bytes)
  /-- `None` (`parse.address` did not recognise the text) -/
  | pyNone
  deriving DecidableEq, Repr

/-- `pair_matches_key(pair, key, is_compressed)` -/
def pairMatchesKey (pair : Pt) (key : KeyObj) (comp : Bool) : Except Err Bool :=
  match key with
  | .key pub => .ok (pub == pair)
  | .pyNone => .error .attributeError
  | .contract typ h =>
    -- repaired: only the pay-to-pubkey-hash forms of an address stand for a public key
    if typ ≠ "p2pkh" ∧ typ ≠ "p2pkh_wit" then .ok false
    else
    match pair with
    | none => .error .attributeError        -- `None.to_bytes`; excluded by the repaired `pair_for_message_hash`
    | some (x, y) => (publicPairToHash160Sec x y comp).map fun ph => h == some ph

/-- the per-network environment of a `MessageSigner` -/
structure Env where
  c : CurveParams
  /-- the generator's blinding factor (results do not depend on it: C02) -/
  bf : Int
  networkName : Str
  /-- `network.parse.address(text)` -/
  parseAddress : Str → KeyObj
  /-- `network.address.for_p2pkh(hash160)` (what `Key.address()` returns) -/
  p2pkhAddress : Bytes → Except Err Str

inductive KeyOrAddress
  | obj (k : KeyObj)
  | text (s : Str)

/-- `verify_message(key_or_address, signature, message=None, msg_hash=None)` -/
def verifyMessage (env : Env) (ka : KeyOrAddress) (sig : Str) (message : Option Str) (msgHash : Option Int := none) :
    Except Err Bool :=
  let key := match ka with
    | .text s => env.parseAddress s
    | .obj k => k
  let resolved : Except Err Int :=
    match message with
    | some m => (hashForSigning env.networkName m).map fun (h : Nat) => (h : Int)
    | none =>                                -- `msg_hash or 0`: `None` and `0` both give `0`
      match msgHash with
      | some h => .ok h
      | none => .ok 0
  match resolved with
  | .error e => .error e
  | .ok z =>
    match pairForMessageHash env.c env.bf sig z with
    | .error .encodingError => .ok false
    | .error e => .error e
    | .ok (pair, comp) => pairMatchesKey pair key comp

/-! ## `sign_message` and the armoured text -/

inductive Piece
  | lit (s : Str)
  | field (name : Str)
  deriving DecidableEq, Repr

def isIdentChar (c : Char) : Bool := c.isAlphanum || c == '_'

def flushLit (lit : Str) (ps : List Piece) : List Piece := if lit.isEmpty then ps else .lit lit.reverse :: ps

/-- the replacement fields of a `str.format` template: only `{identifier}`; `{{`, `}}`, conversions and format
specs have no model (`unsupported`).  State: the literal collected so far (reversed) and, inside braces, the
field name collected so far (reversed). -/
def parseTemplateAux : Str → Str → Option Str → Except Err (List Piece)
  | [], lit, none => .ok (flushLit lit [])
  | [], _, some _ => .error .unsupported
  | c :: rest, lit, none =>
    if c = '{' then (parseTemplateAux rest [] (some [])).map (flushLit lit ·)
    else if c = '}' then .error .unsupported
    else parseTemplateAux rest (c :: lit) none
  | c :: rest, lit, some nm =>
    if c = '}' then
      if nm.isEmpty then .error .unsupported
      else (parseTemplateAux rest [] none).map (Piece.field nm.reverse :: ·)
    else if isIdentChar c then parseTemplateAux rest lit (some (c :: nm))
    else .error .unsupported

def parseTemplate (s : Str) : Except Err (List Piece) := parseTemplateAux s [] none

/-- `template.format(**args)`: a missing field is a `KeyError` -/
def formatPieces (args : List (Str × Str)) : List Piece → Except Err Str
  | [] => .ok []
  | .lit s :: rest => (formatPieces args rest).map (s ++ ·)
  | .field n :: rest =>
    match args.find? (·.1 = n) with
    | none => .error .keyError
    | some (_, v) => (formatPieces args rest).map (v ++ ·)

/-- `signature_template.format(msg=…, sig=…, addr=…, net_name=…)` -/
def armour (netNameUpper msg addr sig : Str) : Except Err Str := do
  let ps ← parseTemplate signatureTemplate.toList
  formatPieces [("msg".toList, msg), ("sig".toList, sig), ("addr".toList, addr), ("net_name".toList, netNameUpper)] ps

/-- `sign_message(key, message, verbose)` for a key with secret exponent `d` (`0` = no secret exponent) -/
def signMessage (env : Env) (d : Int) (comp : Bool) (message : Str) (verbose : Bool) : Except Err Str := do
  if d = 0 then .error .valueError
  -- `key.address()`: the P2PKH address of `hash160(sec(d·G))`
  let pub ← liftCurve (mulG env.c env.bf d)
  let addr ← match pub with
    | none => .error .attributeError
    | some (x, y) => do
      let h ← publicPairToHash160Sec x y comp
      env.p2pkhAddress h
  let z ← hashForSigning env.networkName message
  let sig ← signatureForMessageHash env.c env.bf d z comp
  if ¬ verbose then pure sig
  else armour (env.networkName.map asciiUpper) message addr sig

/-! ### `parse_sections` on lines -/

def endsWithCR (l : Str) : Bool := l.getLast? == some '\r'
def stripCR (l : Str) : Str := if endsWithCR l then l.dropLast else l

/-- `f` on every element but the last -/
def mapInit {α} (f : α → α) : List α → List α
  | [] => []
  | [a] => [a]
  | a :: b :: rest => f a :: mapInit f (b :: rest)

def anyInit {α} (p : α → Bool) : List α → Bool
  | [] => false
  | [_] => false
  | a :: b :: rest => p a || anyInit p (b :: rest)

/-- `msg_in.split(needle, 1)[1]` in lines, for a needle `suffix ++ "\n"`: an occurrence is a line other than the
last one ending in `suffix`; the text after the first occurrence is the lines after that line -/
def afterSection (suffix : Str) : List Str → Option (List Str)
  | [] => none
  | [_] => none
  | a :: b :: rest => if suffix.isSuffixOf a then some (b :: rest) else afterSection suffix (b :: rest)

/-- `"\n" ++ line ++ "\n"` matches `\n-----BEGIN [A-Z ]*SIGNATURE-----\n` -/
def isSigMarker (l : Str) : Bool :=
  let pre := "-----BEGIN ".toList
  let suf := "SIGNATURE-----".toList
  let mid := l.drop pre.length
  pre.isPrefixOf l && suf.isSuffixOf mid &&
    (mid.take (mid.length - suf.length)).all fun c => c == ' ' || ('A' ≤ c && c ≤ 'Z')

/-- `re.split(marker, body)` in lines.  A match is `"\n" ++ line ++ "\n"`, so the first and the last line of the
text never match, and the line after a match cannot start another one (its leading `"\n"` is consumed).
`cur` = the lines of the part being collected, `can` = the next line has an unconsumed `"\n"` in front of it. -/
def splitMarkers (cur : List Str) (can : Bool) : List Str → List (List Str)
  | [] => [cur]
  | l :: rest =>
    if can && !rest.isEmpty && isSigMarker l then cur :: splitMarkers [] false rest
    else splitMarkers (cur ++ [l]) true rest

/-- the needle of the first split, without its final newline; `none` when it is not of the form `suffix ++ "\n"` -/
def sectionSuffix : Option Str :=
  let n := sectionNeedle.toList
  if n.getLast? = some '\n' ∧ ¬ n.dropLast.contains '\n' then some n.dropLast else none

/-- `parse_sections(msg_in)` → `(msg, hdr)` -/
def parseSections (msgIn : Str) : Except Err (Str × Str) :=
  let lines0 := splitLines msgIn
  let dosNl := anyInit endsWithCR lines0                 -- `"\r\n" in msg_in`
  let lines := if dosNl then mapInit stripCR lines0 else lines0
  match sectionSuffix with
  | none => .error .unsupported
  | some suffix =>
    match afterSection suffix lines with
    | none => .error .encodingError
    | some body =>
      let parts := splitMarkers [] false body
      if parts.length < 2 then .error .encodingError
      else
        let msg := (parts.dropLast.map joinLines).flatten
        match parts.getLast? with
        | none => .error .encodingError                  -- `parts` is never empty
        | some h =>
          let msg := if dosNl then joinWith ['\r', '\n'] (splitLines msg) else msg
          .ok (msg, joinLines h)

/-- the `for line in hdr` loop of `parse_signed_message`: `none` = `addr` stays `None` -/
def findAddr : List Str → Option Str
  | [] => none
  | line :: rest =>
    let line := pyStrip line
    if line.isEmpty then findAddr rest
    else if endPrefix.toList.isPrefixOf line then none
    else
      match splitOn1 ':' line with
      | (_, []) => some line                                   -- no `:` in the line
      | (label, v :: _) =>
        if lowerEq (pyStrip label) addressLabel.toList then some (pyStrip v)   -- `line.split(":")[1].strip()`
        else findAddr rest

/-- `parse_signed_message(msg_in)` → `(msg, addr, sig)` -/
def parseSignedMessage (msgIn : Str) : Except Err (Str × Str × Str) :=
  match parseSections msgIn with
  | .error e => .error e
  | .ok (msg, hdrStr) =>
    let hdr := ((splitLines hdrStr).map pyStrip).filter (fun l => !l.isEmpty)
    match hdr.reverse with
    | [] => .error .indexError                                 -- `hdr[-1]`
    | last :: before =>
      if ¬ isInfix endMarker.toList last then .error .encodingError
      else
        match before with
        | [] => .error .indexError                             -- `hdr[-2]`
        | sig :: _ =>
          match findAddr hdr with
          | none => .error .encodingError
          | some addr =>
            if addr.isEmpty ∨ addr = sig then .error .encodingError
            else .ok (msg, addr, sig)

/-- `sign_message(key, message, verbose)` on a key OBJECT: `key.secret_exponent()` is `None` for a public key, and
"not secret_exponent" raises `ValueError` before anything is hashed or signed -/
def signMessageWithKey (env : Env) (se : Option Int) (comp : Bool) (message : Str) (verbose : Bool) : Except Err Str :=
  match se with
  | none => .error .valueError
  | some d => signMessage env d comp message verbose

end Pycoin.MsgSigning
