import Pycoin.Model.BlockChain
/-!
C15 — the remaining public surface of `pycoin/blockchain/BlockChain.py` (import-free): lookups with Python `int`
indices (negative ones count from the end), `locked_length`, `unlocked_length`, `is_hash_known`,
`preload_locked_blocks`, and the change-callback queue helper `_update_q` at the top of the file.
-/
namespace Pycoin.Chain

/-- Python `l[i]` for an `int` index: negative indices count from the end, out of range raises `IndexError` -/
def pyIndex {α} (l : List α) (i : Int) : Except Err α :=
  let j := if i < 0 then i + (l.length : Int) else i
  if j < 0 then .error .indexError else
  match l[j.toNat]? with
  | some x => .ok x
  | none => .error .indexError

/-- `tuple_for_index(index)` for any `int`.  `if index < 0: index = self.length() + index`; an index that is still
negative after that satisfies `index < len(_locked_chain)` and is handed to `_locked_chain[index]` as it is (Python
list indexing: it wraps around or raises `IndexError`); everything else is `tupleForIndex` -/
def BC.tupleForIndexI (rev : Bool) (bc : BC) (index : Int) : Except Err Item := do
  let idx ← if index < 0 then (do let n ← bc.length rev; pure ((n : Int) + index)) else pure index
  if idx < 0 then pyIndex bc.locked idx else bc.tupleForIndex rev idx.toNat

/-- `hash_for_index(index)` for any `int` -/
def BC.hashForIndexI (rev : Bool) (bc : BC) (index : Int) : Except Err Nat := do
  let t ← bc.tupleForIndexI rev index
  .ok t.1

/-- `last_block_hash()` as written: `hash_for_index(-1)` unless `length() == 0` -/
def BC.lastBlockHashI (rev : Bool) (bc : BC) : Except Err Nat := do
  let n ← bc.length rev
  if n = 0 then .ok bc.parentHash else bc.hashForIndexI rev (-1)

/-- `locked_length()` -/
def BC.lockedLength (bc : BC) : Nat := bc.locked.length

/-- `unlocked_length()` -/
def BC.unlockedLength (rev : Bool) (bc : BC) : Except Err Nat := do
  let (c, _) ← bc.longest rev
  .ok c.length

/-- `is_hash_known(h)` -/
def BC.isHashKnown (bc : BC) (h : Nat) : Bool := dhas bc.h2i h

/-- the loop of `preload_locked_blocks`: `hash_to_index_lookup[the_hash] = idx` -/
def preloadIdx : Nat → List Header → Dict Int → Dict Int
  | _, [], m => m
  | i, hd :: r, m => preloadIdx (i + 1) r (dset m hd.hash (i : Int))

/-- `preload_locked_blocks(headers_iter)`: `_locked_chain` is replaced by `(hash, previous_block_hash, difficulty)` of
the given headers, the index map learns them, the anchor becomes the last one (unchanged when there is none) -/
def BC.preload (bc : BC) (hdrs : List Header) : BC :=
  { bc with locked := hdrs.map (fun hd => (hd.hash, hd.parent, some hd.weight)),
            h2i := preloadIdx 0 hdrs bc.h2i,
            parentHash := ((hdrs.map (·.hash)).getLast?).getD bc.parentHash }

/-- `op[1:]`: the block and the index -/
def Op.key : Op → Option Nat × Int
  | .add h i => (h, i)
  | .remove h i => (h, i)

/-- `_update_q(q, ops)`; the queue is the list of what was put, `q.pop()` takes the newest entry (`IndexError` on an
empty queue, as for a list).  Leading "remove" ops that undo the newest queued entry cancel against it; at the first
one that does not, the popped entry is put back; whatever is left of `ops` is queued -/
def updateQ : List Op → List Op → Except Err (List Op)
  | q, [] => .ok q
  | q, .remove h i :: r =>
    match q.getLast? with
    | none => .error .indexError
    | some last => if (h, i) ≠ last.key then .ok (q ++ .remove h i :: r) else updateQ q.dropLast r
  | q, .add h i :: r => .ok (q ++ .add h i :: r)

/-- a consumer that feeds every callback's ops through `_update_q` -/
def qRun : List Op → List (List Op) → Except Err (List Op)
  | q, [] => .ok q
  | q, ops :: r => do
    let q' ← updateQ q ops
    qRun q' r

end Pycoin.Chain
