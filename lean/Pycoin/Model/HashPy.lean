import Pycoin.Model.Hash
import Pycoin.Model.Ripemd160Py
/-!
C19 — model of `pycoin/encoding/hash.py` (`get_best_ripemd160`, `ripemd160`, `hash160`,
`double_sha256`) and of the part of `pycoin/encoding/hexbytes.py` its result type uses
(`bytes_as_revhex.__str__` = `b2h_rev`).  `hashlib.sha256` and `hashlib.new("ripemd160")` are
modelled by the standard-spec functions `Pycoin.Hash.sha256` / `Pycoin.Hash.ripemd160`.
-/
namespace Pycoin.HashPy
open Pycoin.Hash

/-- what `get_best_ripemd160()` looks at when the module is imported -/
structure Env where
  /-- `"ripemd160" in hashlib.algorithms_available` -/
  algListed : Bool
  /-- `os.getenv("PYCOIN_USE_PYTHON_RIPEMD160")`: `none` when unset -/
  envVar : Option String
  /-- `hashlib.new("ripemd160", b"").digest()` does not raise (it does on OpenSSL 3 without the legacy provider) -/
  nativeWorks : Bool
  /-- `from Crypto.Hash.RIPEMD import RIPEMD160Hash` succeeds -/
  pycrypto : Bool
  deriving DecidableEq, Repr

inductive Impl | native | pycrypto | purePython
  deriving DecidableEq, Repr

/-- Python truthiness of `os.getenv(...)`: `None` and `""` are false -/
def truthy : Option String → Bool
  | none => false
  | some s => s ≠ ""

/-- `get_best_ripemd160()` -/
def getBestRipemd160 (e : Env) : Impl :=
  let useNative := e.algListed && !truthy e.envVar
  if useNative && e.nativeWorks then .native
  else if e.pycrypto then .pycrypto
  else .purePython

/-- `ripemd160(data).digest()` for the selected factory -/
def ripemd160 (impl : Impl) (data : Bytes) : Except PyErr Bytes :=
  match impl with
  | .native => pure (Hash.ripemd160 data)
  | .pycrypto => pure (Hash.ripemd160 data)   -- PyCrypto is not installed here; modelled by the standard, never run
  | .purePython => Ripemd160Py.ripemd160 data

/-- `hash160(data)` -/
def hash160 (impl : Impl) (data : Bytes) : Except PyErr Bytes :=
  ripemd160 impl (sha256 data)

/-- `double_sha256(data)` (the bytes of the `bytes_as_revhex` result) -/
def doubleSha256 (data : Bytes) : Bytes := sha256 (sha256 data)

/-- `b2h_rev` / `str(bytes_as_revhex)`: hex of the reversed bytes (`""` for empty) -/
def b2hRev (b : Bytes) : String := String.ofList (Hex.encodeChars b.reverse)

end Pycoin.HashPy
