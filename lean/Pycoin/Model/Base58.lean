import Pycoin.Py.Bytes
import Pycoin.Model.Sha256
import Pycoin.Gen.Codecs
/-!
C11 — model of `pycoin/encoding/base_conversion.py` (`to_long`, `from_long`) and
`pycoin/encoding/b58.py` (`b2a_base58`, `a2b_base58`, `b2a_hashed_base58`,
`a2b_hashed_base58`, `is_hashed_base58_valid`), plus the Base58 half of
`pycoin/networks/parseable_str.py` (`parse_b58`, `b58_double_sha256`).

A Python `str` argument is represented by its UTF-8 bytes (`s.encode("utf8")` is the first thing
`a2b_base58` does; `b2a_base58` ends with `.decode("utf8")` of pure ASCII).  Strings holding lone
surrogates (for which `.encode` raises `UnicodeEncodeError`) are outside the model.
-/
namespace Pycoin.Base58
open Pycoin.Gen.Codecs

/-- the only exception class these functions raise -/
inductive Err | encodingError
  deriving DecidableEq, Repr

/-- `to_long` loop body, state `(v, prefix)`.  `lookup_f(c)` raising anything becomes `EncodingError`. -/
def toLongAux {α} (base : Nat) (lookup : α → Option Nat) : List α → Nat → Nat → Except Err (Nat × Nat)
  | [], v, p => .ok (v, p)
  | c :: cs, v, p =>
    match lookup c with
    | none => .error .encodingError
    | some d =>
      let v' := v * base + d
      toLongAux base lookup cs v' (if v' = 0 then p + 1 else p)

/-- `to_long(base, lookup_f, s)` → `(v, prefix)` -/
def toLong {α} (base : Nat) (lookup : α → Option Nat) (s : List α) : Except Err (Nat × Nat) :=
  toLongAux base lookup s 0 0

/-- the `while v > 0: v, mod = divmod(v, base); ba.append(mod)` loop: digits of `v`, least significant first.
The loop terminates only for `base ≥ 2` (Python spins forever on base 1 and raises on base 0); both callers pass a
literal base, so the bound is an argument. -/
def digitsLE (base : Nat) (hb : 2 ≤ base) (v : Nat) : List Nat :=
  if _h : 0 < v then v % base :: digitsLE base hb (v / base) else []
termination_by v
decreasing_by exact Nat.div_lt_self _h hb

def optToExcept {β} : Option β → Except Err β
  | some x => .ok x
  | none => .error .encodingError

/-- `from_long(v, prefix, base, charset)`; `charset(mod)` raising anything becomes `EncodingError` -/
def fromLong {β} (v pfx base : Nat) (hb : 2 ≤ base) (charset : Nat → Option β) : Except Err (List β) := do
  let ds ← optToExcept ((digitsLE base hb v).mapM charset)
  let z ← optToExcept (charset 0)       -- `[charset(0)] * prefix` evaluates `charset(0)` once, even for prefix 0
  pure ((ds ++ List.replicate pfx z).reverse)

/-- `BASE58_LOOKUP[c]` (a dict: `KeyError` ↦ `none`) -/
def lookup58 (c : UInt8) : Option Nat := (base58Lookup.find? (·.1 = c)).map (·.2)

/-- `BASE58_ALPHABET[v]` (`IndexError` ↦ `none`; `v` is never negative here) -/
def alphabet58 (v : Nat) : Option UInt8 := base58Alphabet[v]?

/-- `lambda x: x` followed by `bytearray.append`, which raises `ValueError` outside `range(256)` -/
def byteOf (v : Nat) : Option UInt8 := if v < 256 then some (UInt8.ofNat v) else none

theorem two_le_58 : 2 ≤ 58 := by decide
theorem two_le_256 : 2 ≤ 256 := by decide

/-- `b2a_base58(s)`: the ASCII bytes of the returned `str` -/
def b2a (s : Bytes) : Except Err Bytes := do
  let (v, p) ← toLong 256 (fun (x : UInt8) => some x.toNat) s
  fromLong v p 58 two_le_58 alphabet58

/-- `a2b_base58(s)`, `s` given by its UTF-8 bytes -/
def a2b (s : Bytes) : Except Err Bytes := do
  let (v, p) ← toLong 58 lookup58 s
  fromLong v p 256 two_le_256 byteOf

/-- `b2a_hashed_base58(data)` -/
def b2aHashed (data : Bytes) : Except Err Bytes :=
  b2a (data ++ (Hash.dsha256 data).take 4)

/-- `a2b_hashed_base58(s)`: `data[:-4], data[-4:]` (a short `data` gives `b""` and the whole of `data`) -/
def a2bHashed (s : Bytes) : Except Err Bytes := do
  let data ← a2b s
  let body := data.take (data.length - 4)
  let theHash := data.drop (data.length - 4)
  if (Hash.dsha256 body).take 4 = theHash then pure body else .error .encodingError

/-- `is_hashed_base58_valid` -/
def isHashedValid (s : Bytes) : Bool :=
  match a2bHashed s with
  | .ok _ => true
  | .error _ => false

/-- `parseable_str.parse_b58`: `a2b_base58` with every exception turned into `None` by `cache` -/
def parseB58 (s : Bytes) : Option Bytes :=
  match a2b s with
  | .ok d => some d
  | .error _ => none

/-- `parseable_str.b58_double_sha256` / `parse_b58_double_sha256` (note `if data:` — empty data gives `None`) -/
def parseB58DoubleSha256 (s : Bytes) : Option Bytes :=
  match parseB58 s with
  | none => none
  | some data =>
    if data.isEmpty then none
    else
      let body := data.take (data.length - 4)
      let theHash := data.drop (data.length - 4)
      if (Hash.dsha256 body).take 4 = theHash then some body else none

end Pycoin.Base58
