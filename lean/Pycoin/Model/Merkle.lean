import Pycoin.Py.Bytes
/-!
C14 — model of `pycoin/merkle.py` (`merkle`, `merkle_pair`).  The hash function is a
parameter `H` (pycoin passes `double_sha256`; the driver instantiates `Pycoin.Hash.dsha256`).
-/
namespace Pycoin.Merkle

inductive Err | indexError
  deriving DecidableEq, Repr

/-- `merkle_pair(hashes, hash_f)`: an odd list first gets its last element appended
(`hashes.append(hashes[-1])`), then `items.append(hash_f(hashes[i] + hashes[i+1]))` for `i = 0, 2, 4, …`.
Structural form: a lone trailing element is paired with itself. `merkle_pair([]) = []`. -/
def merklePair (H : Bytes → Bytes) : List Bytes → List Bytes
  | [] => []
  | [a] => [H (a ++ a)]
  | a :: b :: rest => H (a ++ b) :: merklePair H rest

/-- `while len(hashes) > 1: hashes = merkle_pair(hashes, hash_f)`; the fuel is the only non-Python
ingredient (`C14_merkle_terminates` shows `hashes.length` is always enough). -/
def merkleLoop (H : Bytes → Bytes) : Nat → List Bytes → List Bytes
  | 0, hs => hs
  | f + 1, hs => if hs.length > 1 then merkleLoop H f (merklePair H hs) else hs

/-- `merkle(hashes, hash_f)`: `return hashes[0]` raises `IndexError` on the empty list -/
def merkle (H : Bytes → Bytes) (hashes : List Bytes) : Except Err Bytes :=
  match merkleLoop H hashes.length hashes with
  | [] => .error .indexError
  | h :: _ => .ok h

end Pycoin.Merkle
