import Pycoin.Model.Wire
import Pycoin.Model.Sha256
import Pycoin.Gen.Formats
import Pycoin.Gen.TxLimits
/-!
Model of transactions: `pycoin/coins/bitcoin/{TxIn,TxOut,Tx,Spendable}.py`, `pycoin/coins/Tx.py`
(`from_bin`, `from_hex`, `as_bin`, `as_hex`, `id`), `pycoin/coins/litecoin/__init__.py` (`LTCTx.parse`),
`pycoin/coins/groestlcoin/Tx.py` (single SHA-256 ids).  Function for function; exceptions are `Wire.Err`.

Integer fields are `Int`: Python lets any int into the constructor and `struct.pack` refuses the ones that do
not fit when the transaction is streamed.
-/
namespace Pycoin
open Pycoin.Wire

structure TxIn where
  prevHash : Bytes
  prevIndex : Int
  script : Bytes
  sequence : Int
  witness : List Bytes
  deriving DecidableEq, Repr

structure TxOut where
  value : Int
  script : Bytes
  deriving DecidableEq, Repr

structure Tx where
  version : Int
  ins : List TxIn
  outs : List TxOut
  lockTime : Int
  deriving DecidableEq, Repr

/-- the transaction classes `pycoin.symbols.<x>.network.tx` -/
inductive Coin | btc | ltc | grs | bch | btg
  deriving DecidableEq, Repr

namespace Coin
open Pycoin.Gen.TxLimits
def maxMoney : Coin → Nat
  | btc => btc_maxMoney | ltc => ltc_maxMoney | grs => grs_maxMoney | bch => bch_maxMoney | btg => btg_maxMoney
def maxTxSize : Coin → Nat
  | btc => btc_maxTxSize | ltc => ltc_maxTxSize | grs => grs_maxTxSize | bch => bch_maxTxSize | btg => btg_maxTxSize
def allowSegwit : Coin → Bool
  | btc => btc_allowSegwit | ltc => ltc_allowSegwit | grs => grs_allowSegwit | bch => bch_allowSegwit | btg => btg_allowSegwit
def ltcParse : Coin → Bool
  | btc => btc_ltcParse | ltc => ltc_ltcParse | grs => grs_ltcParse | bch => bch_ltcParse | btg => btg_ltcParse
def singleSha : Coin → Bool
  | btc => btc_singleSha | ltc => ltc_singleSha | grs => grs_singleSha | bch => bch_singleSha | btg => btg_singleSha
end Coin

/-- the letter table of `SATOSHI_STREAMER` -/
abbrev tbl : Char → Option Kind := Pycoin.Gen.Formats.letterKind

namespace F
export Pycoin.Gen.Formats (txIn_stream txIn_parse txOut_stream txOut_parse spendable_stream spendable_parse
  tx_parse_version tx_parse_lockTime tx_stream_version tx_stream_lenTxsIn tx_stream_lenTxsOut tx_stream_lenWitness
  tx_stream_lockTime ltcTx_parse_version ltcTx_parse_lockTime)
end F

def zero32 : Bytes := List.replicate 32 0

/-! ## TxIn / TxOut -/

/-- `TxIn.stream(f, blank_solutions)` -/
def TxIn.stream (t : TxIn) (blank : Bool := false) : Except Err Bytes :=
  streamStruct tbl F.txIn_stream
    [.bytes t.prevHash, .int t.prevIndex, .bytes (if blank then [] else t.script), .int t.sequence]

/-- `TxIn.parse`: `cls(*parse_struct(fmt, f))`; the new object has an empty witness -/
def TxIn.parse : Parser TxIn := fun b =>
  match parseStruct tbl F.txIn_parse b with
  | .error e => .error e
  | .ok ([.bytes h, .int i, .bytes s, .int q], r) => .ok (⟨h, i, s, q, []⟩, r)
  | .ok _ => .error .typeError

/-- `TxIn.is_coinbase`: the null outpoint is the zero hash together with index 0xffffffff -/
def TxIn.isCoinbase (t : TxIn) : Bool := t.prevHash == zero32 && t.prevIndex == 0xFFFFFFFF

def TxOut.stream (t : TxOut) : Except Err Bytes :=
  streamStruct tbl F.txOut_stream [.int t.value, .bytes t.script]

def TxOut.parse : Parser TxOut := fun b =>
  match parseStruct tbl F.txOut_parse b with
  | .error e => .error e
  | .ok ([.int v, .bytes s], r) => .ok (⟨v, s⟩, r)
  | .ok _ => .error .typeError

/-! ## Tx.stream -/

namespace Tx

/-- `has_witness_data` -/
def hasWitnessData (tx : Tx) : Bool := tx.ins.any (fun i => i.witness.length > 0)

/-- one input's witness: `stream_struct("I", f, len(witness)); for w in witness: stream_satoshi_string(f, w)` -/
def streamWitness (w : List Bytes) : Except Err Bytes := do
  let n ← streamStruct tbl F.tx_stream_lenWitness [.int w.length]
  let items ← streamList streamSatoshiString w
  pure (n ++ items)

/-- `Tx.stream(f, blank_solutions, include_unspents=False, include_witness_data)` -/
def stream (tx : Tx) (blank : Bool := false) (includeWitnessData : Bool := true) : Except Err Bytes := do
  let iw := includeWitnessData && tx.hasWitnessData
  let v ← streamStruct tbl F.tx_stream_version [.int tx.version]
  let nin ← streamStruct tbl F.tx_stream_lenTxsIn [.int tx.ins.length]
  let ins ← streamList (fun t => TxIn.stream t blank) tx.ins
  let nout ← streamStruct tbl F.tx_stream_lenTxsOut [.int tx.outs.length]
  let outs ← streamList TxOut.stream tx.outs
  let wit ← (if iw then streamList (fun t => streamWitness t.witness) tx.ins else .ok [])
  let lock ← streamStruct tbl F.tx_stream_lockTime [.int tx.lockTime]
  pure (v ++ ((if iw then [0, 1] else []) ++ (nin ++ (ins ++ (nout ++ (outs ++ (wit ++ lock)))))))

/-! ## Tx.parse -/

/-- the witness loop of `parse`: `for tx_in in txs_in: tx_in.witness = [parse_satoshi_string(f) …]` -/
def parseWitnesses : List TxIn → Parser (List TxIn)
  | [] => fun b => .ok ([], b)
  | t :: ts => fun b =>
    match parseCounted parseSatoshiString b with
    | .error e => .error e
    | .ok (w, r) =>
      match parseWitnesses ts r with
      | .error e => .error e
      | .ok (ts', r') => .ok ({ t with witness := w } :: ts', r')

/-- `(x,) = parse_struct(fmt, f)` for a one-integer format -/
def parseInt1 (fmt : List Char) : Parser Int := fun b =>
  match parseStruct tbl fmt b with
  | .error e => .error e
  | .ok ([.int v], r) => .ok (v, r)
  | .ok _ => .error .typeError

/-- what the marker/flag inspection of `bitcoin.Tx.parse` decides: the value to use as the input count
(`v1`), as the output count (`v2`), whether witnesses follow, and the unread bytes -/
def btcMarker (allowSegwit : Bool) (v1 : Nat) (b : Bytes) : Except Err (Option Nat × Option Nat × Bool × Bytes) :=
  if allowSegwit && v1 == 0 then
    match b with
    | [] => .error .valueError                       -- `len(flag) == 0`
    | flag :: r =>
      if flag = 0 then .error .valueError            -- "bad flag in segwit"
      else if flag.toNat &&& 1 ≠ 0 then .ok (none, none, true, r)
      else .ok (some v1, some flag.toNat, false, r)  -- an even flag is taken to be the output count of a 0-input tx
  else .ok (some v1, none, false, b)

/-- `bitcoin.Tx.parse(f, allow_segwit)` -/
def parseBtc (allowSegwit : Bool) : Parser Tx := fun b => do
  let (version, b) ← parseInt1 F.tx_parse_version b
  let (v1, b) ← readByte b
  let (v1o, v2o, isSegwit, b) ← btcMarker allowSegwit v1 b
  let (nin, b) ← parseSatoshiInt v1o b
  let (ins, b) ← parseN TxIn.parse nin b
  let (nout, b) ← parseSatoshiInt v2o b
  let (outs, b) ← parseN TxOut.parse nout b
  let (ins, b) ← (if isSegwit then parseWitnesses ins b else .ok (ins, b))
  let (lock, b) ← parseInt1 F.tx_parse_lockTime b
  pure (⟨version, ins, outs, lock⟩, b)

/-- marker/flag inspection of `LTCTx.parse`: `(v1, is_segwit, has_mweb, rest)` -/
def ltcMarker (v1 : Nat) (b : Bytes) : Except Err (Option Nat × Bool × Bool × Bytes) :=
  if v1 = 0 then
    match b with
    | [] => .error .typeError                        -- `ord(f.read(1))`
    | flag :: r =>
      if flag = 0 then .error .valueError
      else .ok (none, flag.toNat &&& 1 ≠ 0, flag.toNat &&& 8 ≠ 0, r)
  else .ok (some v1, false, false, b)

/-- `LTCTx.parse(f)` -/
def parseLtc : Parser Tx := fun b => do
  let (version, b) ← parseInt1 F.ltcTx_parse_version b
  let (v1, b) ← readByte b
  let (v1o, isSegwit, hasMweb, b) ← ltcMarker v1 b
  let (nin, b) ← parseSatoshiInt v1o b
  let (ins, b) ← parseN TxIn.parse nin b
  let (nout, b) ← parseSatoshiInt none b
  let (outs, b) ← parseN TxOut.parse nout b
  let (ins, b) ← (if isSegwit then parseWitnesses ins b else .ok (ins, b))
  let (_, b) ← (if hasMweb then readByte b else .ok (0, b))   -- `mweb_tx_type`, read and ignored
  let (lock, b) ← parseInt1 F.ltcTx_parse_lockTime b
  pure (⟨version, ins, outs, lock⟩, b)

/-- `network.tx.parse(f)` with the class default `allow_segwit` -/
def parse (c : Coin) : Parser Tx :=
  if c.ltcParse then parseLtc else parseBtc c.allowSegwit

/-! ## coinbase, unspents extension, `as_bin` / `from_bin` -/

/-- `Tx.is_coinbase` -/
def isCoinbase (tx : Tx) : Bool :=
  match tx.ins with
  | [t] => t.isCoinbase
  | _ => false

/-- `missing_unspents`, with `tx.unspents = us` (`none` = Python `None`) -/
def missingUnspents (tx : Tx) (us : List (Option TxOut)) : Bool :=
  if tx.isCoinbase then false
  else us.length != tx.ins.length ||
    (List.range tx.ins.length).any (fun idx => decide (us.length ≤ idx) || (us[idx]?.join).isNone)

/-- `stream_unspents` after `check_unspents` passed: `None` is written as `TxOut(0, b"")` -/
def streamUnspents (us : List (Option TxOut)) : Except Err Bytes :=
  streamList (fun o => TxOut.stream (o.getD ⟨0, []⟩)) us

/-- `as_bin(include_unspents=…)`: `Tx.stream` followed by the unspents when none is missing -/
def asBin (tx : Tx) (us : List (Option TxOut) := []) (includeUnspents : Bool := false) : Except Err Bytes := do
  let b ← tx.stream
  if includeUnspents && !(tx.missingUnspents us) then
    let u ← streamUnspents us
    pure (b ++ u)
  else pure b

/-- `parse_unspents`: one `TxOut` per input, a zero amount reads back as `None` -/
def parseUnspents (n : Nat) : Parser (List (Option TxOut)) := fun b =>
  match parseN TxOut.parse n b with
  | .error e => .error e
  | .ok (os, r) => .ok (os.map (fun o => if o.value = 0 then none else some o), r)

/-- `from_bin(blob)`: parse, then try to read unspents from what is left; any failure there gives `unspents = []` -/
def fromBin (c : Coin) (blob : Bytes) : Except Err (Tx × List (Option TxOut)) :=
  match parse c blob with
  | .error e => .error e
  | .ok (tx, r) =>
    match parseUnspents tx.ins.length r with
    | .error _ => .ok (tx, [])
    | .ok (us, _) => .ok (tx, us)

/-! ## hex -/

/-- `h2b`: `binascii.unhexlify`, any failure is a `ValueError` -/
def h2b (s : List Char) : Except Err Bytes :=
  match Hex.decodeChars s with
  | none => .error .valueError
  | some b => .ok b

def b2h (b : Bytes) : List Char := Hex.encodeChars b
def b2hRev (b : Bytes) : List Char := Hex.encodeChars b.reverse

def asHex (tx : Tx) (us : List (Option TxOut) := []) (includeUnspents : Bool := false) : Except Err (List Char) :=
  (tx.asBin us includeUnspents).map b2h

def fromHex (c : Coin) (s : List Char) : Except Err (Tx × List (Option TxOut)) :=
  match h2b s with
  | .error e => .error e
  | .ok b => fromBin c b

/-! ## ids -/

/-- the digest used for ids: double SHA-256, single for the Groestlcoin class -/
def idDigest (c : Coin) (b : Bytes) : Bytes :=
  if c.singleSha then Pycoin.Hash.sha256 b else Pycoin.Hash.dsha256 b

/-- `Tx.hash()` (no `hash_type`) -/
def hash (c : Coin) (tx : Tx) : Except Err Bytes :=
  (tx.stream false false).map (idDigest c)

/-- `Tx.id()` -/
def id (c : Coin) (tx : Tx) : Except Err (List Char) := (hash c tx).map b2hRev

/-- `Tx.w_hash()` -/
def wHash (c : Coin) (tx : Tx) : Except Err Bytes := (tx.asBin).map (idDigest c)

def wId (c : Coin) (tx : Tx) : Except Err (List Char) := (wHash c tx).map b2hRev

/-- `Tx.blanked_hash()` -/
def blankedHash (c : Coin) (tx : Tx) : Except Err Bytes :=
  (tx.stream true true).map (idDigest c)

end Tx
end Pycoin
