import Pycoin.Model.ChainFinder
/-!
C15 — `meld_new_hashes` as it was before the repair (pycoin commit `fix: ChainFinder.meld_new_hashes lost
orphan subtrees …`): while walking up, every parent met is discarded from `new_hashes` and the walk goes on
through it.  Kept only so that the refutation of the finder invariant for that code stays a checked theorem.
-/
namespace Pycoin.Chain

/-- the old inner loop: `new_hashes.discard(h)` for every parent, no stop at pending hashes -/
def walkUpOld : Nat → PSet → CF → List Nat → Nat → Except Err (List Nat × PSet × CF)
  | 0, _, _, _, _ => .error .loop
  | fuel + 1, pending, cf, path, h =>
    match dget cf.parent h with
    | none => .ok (path, pending, cf)
    | some p =>
      match dget cf.trees p with
      | some (b :: pre) =>
        match dget cf.dbt (pre.getLastD b) with
        | none => .error .keyError
        | some s =>
          if b ∈ s then
            .ok (path ++ (b :: pre), sremove pending p,
                 { cf with trees := ddel cf.trees p, dbt := dset cf.dbt (pre.getLastD b) (sremove s b) })
          else .error .keyError
      | _ => walkUpOld fuel (sremove pending p) cf (path ++ [p]) p

def meldOneOld (rev : Bool) (pending : PSet) (cf : CF) (h : Nat) : Except Err (PSet × CF) := do
  let (path, pending, cf) ← walkUpOld (cf.parent.length + 1) pending cf [h] h
  let trees := dset cf.trees h path
  let top := path.getLastD h
  if top = h then .error .alias else
  let dbt := if dhas cf.dbt top then cf.dbt else dset cf.dbt top []
  let topSet := (dget dbt top).getD []
  match dget dbt h with
  | some (d :: ds) =>
    let trees ← extendWaiting h (path.drop 1) (siter rev (d :: ds)) trees
    let dbt := ddel dbt h
    .ok (pending, { cf with trees := trees, dbt := dset dbt top (supdate rev topSet (d :: ds)) })
  | _ => .ok (pending, { cf with trees := trees, dbt := dset dbt top (sadd topSet h) })

def meldOld (rev : Bool) (rank : List Nat) : Nat → PSet → CF → Except Err CF
  | 0, _, cf => .ok cf
  | n + 1, pending, cf =>
    match pick rank pending with
    | none => .ok cf
    | some h => do
      let (pending, cf) ← meldOneOld rev (sremove pending h) cf h
      meldOld rev rank n pending cf

def CF.loadNodesOld (rev : Bool) (rank : List Nat) (cf : CF) (nodes : List (Nat × Nat)) : Except Err CF :=
  meldOld rev rank (register cf.parent [] nodes).2.length (register cf.parent [] nodes).2
    { cf with parent := (register cf.parent [] nodes).1 }

end Pycoin.Chain
