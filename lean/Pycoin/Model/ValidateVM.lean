import Pycoin.Model.Validate
import Pycoin.Model.VM.Verify
import Pycoin.Spec.Secp256k1
import Pycoin.Gen.Validate
import Pycoin.Model.Hash
/-!
C06 — the interpreter parameter `V` of `Model/Validate.lean` instantiated: `Tx.check_solution(idx)` as the code runs it.

* the interpreter is the model of pycoin's script VM and of `BitcoinSolutionChecker.check_solution`
  (`Model/VM/*.lean`, tied to the code and to the consensus specification under C03), called with the class's
  `DEFAULT_FLAGS` (`Gen/Validate.lean`), as `Tx.check_solution(idx)` calls it (no `flags` argument);
* the signature check proper — the parameter `Env.checkSig` of that model — is `checksigops.checksig` after its encoding
  rules: `public_pair_for_blob` (key parse), `sigdecode_der_lax` of all but the last byte, the closure
  `signature_for_hash_type_f(last byte, …)` of `check_solution` (`Validate.oracle`, i.e. `Model/Sighash.lean`), and
  `generator.verify` — key parse, DER parse and ECDSA as consensus defines them (`Spec/Secp256k1.lean`; pycoin's own are
  tied to these under C01/C03/C10).

The VM model hands `checkSig` the script code with the signature pushes already removed (`checksigs`), so the closure is
queried with an empty deletion list.  A closure that raises makes `chkOf` answer `false`: for `ScriptError` (a hash type
without the fork-id bit on a fork-id coin) that is the verdict of the code for the standard puzzles (the script then fails);
any other exception (a field outside its wire range) escapes `is_solution_ok` in the code — the theorems that use `stdVM`
therefore assume the closure answers for the states they speak about.
-/
namespace Pycoin.Validate
open Pycoin Pycoin.Sighash

/-- `DEFAULT_FLAGS` of the class's `SolutionChecker` -/
def defaultFlags : Coin → Nat
  | .btc => Gen.Validate.btc_defaultFlags | .ltc => Gen.Validate.ltc_defaultFlags | .grs => Gen.Validate.grs_defaultFlags
  | .bch => Gen.Validate.bch_defaultFlags | .btg => Gen.Validate.btg_defaultFlags

/-- `generator.verify(public_pair_for_blob(key), z, sigdecode_der_lax(sig[:-1]))`: does the signature blob (its last byte,
the hash type, is not part of the DER structure) verify under the key blob for the message `z`? -/
def sigVerifies (key sig : Bytes) (z : Nat) : Bool :=
  match Spec.Secp256k1.parsePubKey key, Spec.Consensus.laxDerParse sig.dropLast with
  | some Q, some (r, s) => Spec.Secp256k1.ecdsaVerify Q z r s
  | _, _ => false

/-- `checksig` past its encoding rules, for the sighash closure `f` of `check_solution` -/
def chkOf (f : Query → Except Sighash.Err Nat) (sig key code : Bytes) (witness : Bool) : Bool :=
  match sig.getLast? with
  | none => false
  | some ht =>
    match f ⟨witness, code, [], ht.toNat⟩ with
    | .ok z => sigVerifies key sig z
    | .error _ => false

/-- the hash functions of the VM and the signature check for the closure `f` -/
def vmEnv (f : Query → Except Sighash.Err Nat) : VM.Env :=
  { ripemd160 := Hash.ripemd160, sha1 := Hash.sha1, sha256 := Hash.sha256, checkSig := chkOf f }

/-- the `tx_context` as the VM model reads it -/
def toSolCtx (ctx : TxContext) : VM.SolCtx :=
  ⟨ctx.solutionScript, ctx.puzzleScript, ctx.witnessSolutionStack, ⟨ctx.lockTime.toNat, ctx.sequence.toNat, ctx.version.toNat⟩⟩

/-- `SolutionChecker(tx).check_solution(tx_context)` of class `c`: `ScriptError` → `scriptError`, any other exception escapes -/
def stdVM (c : Coin) : VM := fun ctx f =>
  match VM.checkSolution (vmEnv f) (toSolCtx ctx) (defaultFlags c) with
  | .ok _ => .ok
  | .error (.script _) => .scriptError
  | .error (.py t) => .raised t

end Pycoin.Validate
