import Pycoin.Py.Bytes
import Pycoin.Py.IntBits
import Pycoin.Model.PyErr
import Pycoin.Gen.HashTables
/-!
C19 — model of `pycoin/bloomfilter.py:murmur3(data, seed)` as it is written: Python unbounded
integers, masks and shifts exactly where the code has them (every integer literal of the function
is named by its role below), a seed of any width and sign.  The eleven arithmetic constants of the algorithm
(`c1 c2`, the two rotations, `*5 + n`, the two `fmix` multipliers and three shifts) come from `Gen/HashTables.lean`,
where the translator finds them among the module's literals by probing `murmur3()` itself; the remaining literals
(byte masks and shifts of the little-endian load, the `0xFFFFFFFF` masks, the complementary right-shift counts of the
rotation idiom, `& 0xFFFFFFFC`, `& 0x03`) are rendered here as the source has them and tied by the correspondence check.
-/
namespace Pycoin.Murmur3Py
open Pycoin.Gen.HashTables

abbrev M := Except PyErr

/-! the integer literals of `murmur3`, by role, in source order -/
def mm_c1 : Int := mmC1
def mm_c2 : Int := mmC2
def mm_roundMask : Int := 0xFFFFFFFC
def mm_b0Mask : Int := 0xFF
def mm_b1Mask : Int := 0xFF
def mm_b1Shift : Int := 8
def mm_b2Mask : Int := 0xFF
def mm_b2Shift : Int := 16
def mm_b3Shift : Int := 24
def mm_kRotL : Int := mmR1
def mm_kRotMask : Int := 0xFFFFFFFF
def mm_kRotR : Int := 17
def mm_hRotL : Int := mmR2
def mm_hRotMask : Int := 0xFFFFFFFF
def mm_hRotR : Int := 19
def mm_hMul : Int := mmM
def mm_hAdd : Int := mmN
def mm_valMask : Int := 0x03
def mm_t2Mask : Int := 0xFF
def mm_t2Shift : Int := 16
def mm_t1Mask : Int := 0xFF
def mm_t1Shift : Int := 8
def mm_t0Mask : Int := 0xFF
def mm_tRotL : Int := mmR1
def mm_tRotMask : Int := 0xFFFFFFFF
def mm_tRotR : Int := 17
def mm_f1Mask : Int := 0xFFFFFFFF
def mm_f1Shift : Int := mmS1
def mm_f1Mul : Int := mmF1
def mm_f2Mask : Int := 0xFFFFFFFF
def mm_f2Shift : Int := mmS2
def mm_f2Mul : Int := mmF2
def mm_f3Mask : Int := 0xFFFFFFFF
def mm_f3Shift : Int := mmS3
def mm_outMask : Int := 0xFFFFFFFF

/-- `data[i]` -/
def byteAt (data : Bytes) (i : Int) : M Int := do
  let b ← pyGetItem data i
  pure (b.toNat : Int)

/-- `(v << l) | ((v & mask) >> r)` — the code's `ROTL32` idiom, every literal its own -/
def rotIdiom (v l mask r : Int) : M Int := do
  let hi ← pyShlE v l
  let lo ← pyShrE (pyAnd v mask) r
  pure (pyOr hi lo)

/-- body of `for i in range(0, roundedEnd, 4)` -/
def body (data : Bytes) (h1 : Int) (i : Int) : M Int := do
  let b0 := pyAnd (← byteAt data i) mm_b0Mask
  let b1 ← pyShlE (pyAnd (← byteAt data (i + 1)) mm_b1Mask) mm_b1Shift
  let b2 ← pyShlE (pyAnd (← byteAt data (i + 2)) mm_b2Mask) mm_b2Shift
  let b3 ← pyShlE (← byteAt data (i + 3)) mm_b3Shift
  let k1 := pyOr (pyOr (pyOr b0 b1) b2) b3
  let k1 := k1 * mm_c1
  let k1 ← rotIdiom k1 mm_kRotL mm_kRotMask mm_kRotR
  let k1 := k1 * mm_c2
  let h1 := pyXor h1 k1
  let h1 ← rotIdiom h1 mm_hRotL mm_hRotMask mm_hRotR
  pure (h1 * mm_hMul + mm_hAdd)

/-- the tail (`val = length & 0x03`, three fall-through `if`s) -/
def tail (data : Bytes) (roundedEnd : Int) (val : Int) (h1 : Int) : M Int := do
  let k1 : Int := 0
  let k1 ← if val = 3 then
      (do pyShlE (pyAnd (← byteAt data (roundedEnd + 2)) mm_t2Mask) mm_t2Shift : M Int)
    else pure k1
  let k1 ← if val = 2 ∨ val = 3 then
      (do pure (pyOr k1 (← pyShlE (pyAnd (← byteAt data (roundedEnd + 1)) mm_t1Mask) mm_t1Shift)) : M Int)
    else pure k1
  if val = 1 ∨ val = 2 ∨ val = 3 then do
    let k1 := pyOr k1 (pyAnd (← byteAt data roundedEnd) mm_t0Mask)
    let k1 := k1 * mm_c1
    let k1 ← rotIdiom k1 mm_tRotL mm_tRotMask mm_tRotR
    let k1 := k1 * mm_c2
    pure (pyXor h1 k1)
  else pure h1

/-- `fmix(h1)` and the final mask -/
def fmix (h1 : Int) : M Int := do
  let h1 := pyXor h1 (← pyShrE (pyAnd h1 mm_f1Mask) mm_f1Shift)
  let h1 := h1 * mm_f1Mul
  let h1 := pyXor h1 (← pyShrE (pyAnd h1 mm_f2Mask) mm_f2Shift)
  let h1 := h1 * mm_f2Mul
  let h1 := pyXor h1 (← pyShrE (pyAnd h1 mm_f3Mask) mm_f3Shift)
  pure (pyAnd h1 mm_outMask)

/-- `murmur3(data, seed)` -/
def murmur3 (data : Bytes) (seed : Int) : M Int := do
  let length : Int := data.length
  let roundedEnd := pyAnd length mm_roundMask
  -- `range(0, roundedEnd, 4)`: i = 0, 4, …, the multiples of 4 below roundedEnd (none when roundedEnd ≤ 0)
  let h1 ← (List.range ((roundedEnd.toNat + 3) / 4)).foldlM (fun h (t : Nat) => body data h (4 * (t : Int))) seed
  let h1 ← tail data roundedEnd (pyAnd length mm_valMask) h1
  let h1 := pyXor h1 length
  fmix h1

end Pycoin.Murmur3Py
