import Pycoin.Py.Bytes
import Pycoin.Py.IntBits
import Pycoin.Model.PyErr
import Pycoin.Gen.HashTables
/-!
C19 — model of `pycoin/bloomfilter.py:murmur3(data, seed)` as it is written: Python unbounded
integers, masks and shifts exactly where the code has them (every integer literal of the function
comes from `Gen/HashTables.lean`, named by its role), a seed of any width and sign.
-/
namespace Pycoin.Murmur3Py
open Pycoin.Gen.HashTables

abbrev M := Except PyErr

/-- `data[i]` -/
def byteAt (data : Bytes) (i : Int) : M Int := do
  let b ← pyGetItem data i
  pure (b.toNat : Int)

/-- `(v << l) | ((v & mask) >> r)` — the code's `ROTL32` idiom, every literal its own -/
def rotIdiom (v l mask r : Int) : M Int := do
  let hi ← pyShlE v l
  let lo ← pyShrE (pyAnd v mask) r
  pure (pyOr hi lo)

/-- body of `for i in range(0, roundedEnd, 4)` -/
def body (data : Bytes) (h1 : Int) (i : Int) : M Int := do
  let b0 := pyAnd (← byteAt data i) mm_b0Mask
  let b1 ← pyShlE (pyAnd (← byteAt data (i + 1)) mm_b1Mask) mm_b1Shift
  let b2 ← pyShlE (pyAnd (← byteAt data (i + 2)) mm_b2Mask) mm_b2Shift
  let b3 ← pyShlE (← byteAt data (i + 3)) mm_b3Shift
  let k1 := pyOr (pyOr (pyOr b0 b1) b2) b3
  let k1 := k1 * mm_c1
  let k1 ← rotIdiom k1 mm_kRotL mm_kRotMask mm_kRotR
  let k1 := k1 * mm_c2
  let h1 := pyXor h1 k1
  let h1 ← rotIdiom h1 mm_hRotL mm_hRotMask mm_hRotR
  pure (h1 * mm_hMul + mm_hAdd)

/-- the tail (`val = length & 0x03`, three fall-through `if`s) -/
def tail (data : Bytes) (roundedEnd : Int) (val : Int) (h1 : Int) : M Int := do
  let k1 : Int := 0
  let k1 ← if val = 3 then
      (do pyShlE (pyAnd (← byteAt data (roundedEnd + 2)) mm_t2Mask) mm_t2Shift : M Int)
    else pure k1
  let k1 ← if val = 2 ∨ val = 3 then
      (do pure (pyOr k1 (← pyShlE (pyAnd (← byteAt data (roundedEnd + 1)) mm_t1Mask) mm_t1Shift)) : M Int)
    else pure k1
  if val = 1 ∨ val = 2 ∨ val = 3 then do
    let k1 := pyOr k1 (pyAnd (← byteAt data roundedEnd) mm_t0Mask)
    let k1 := k1 * mm_c1
    let k1 ← rotIdiom k1 mm_tRotL mm_tRotMask mm_tRotR
    let k1 := k1 * mm_c2
    pure (pyXor h1 k1)
  else pure h1

/-- `fmix(h1)` and the final mask -/
def fmix (h1 : Int) : M Int := do
  let h1 := pyXor h1 (← pyShrE (pyAnd h1 mm_f1Mask) mm_f1Shift)
  let h1 := h1 * mm_f1Mul
  let h1 := pyXor h1 (← pyShrE (pyAnd h1 mm_f2Mask) mm_f2Shift)
  let h1 := h1 * mm_f2Mul
  let h1 := pyXor h1 (← pyShrE (pyAnd h1 mm_f3Mask) mm_f3Shift)
  pure (pyAnd h1 mm_outMask)

/-- `murmur3(data, seed)` -/
def murmur3 (data : Bytes) (seed : Int) : M Int := do
  let length : Int := data.length
  let roundedEnd := pyAnd length mm_roundMask
  -- `range(0, roundedEnd, 4)`: i = 0, 4, …, the multiples of 4 below roundedEnd (none when roundedEnd ≤ 0)
  let h1 ← (List.range ((roundedEnd.toNat + 3) / 4)).foldlM (fun h (t : Nat) => body data h (4 * (t : Int))) seed
  let h1 ← tail data roundedEnd (pyAnd length mm_valMask) h1
  let h1 := pyXor h1 length
  fmix h1

end Pycoin.Murmur3Py
