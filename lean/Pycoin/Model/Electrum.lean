import Pycoin.Model.BIP32
/-!
C09 — model of `pycoin/key/electrum.py` (`ElectrumWallet`, `initial_key_to_master_key`).

`ElectrumWallet` is a `Key` with `is_compressed=False`; its state is the secret exponent (or `None`) and the
public pair.  `_initial_key` is kept by the Python object but only read by a branch of `secret_exponent()` that the
constructor makes unreachable (it always sets the exponent when an initial key is given), so it is not modelled.
-/
namespace Pycoin.Electrum
open Pycoin Pycoin.BIP32

structure Wallet where
  secretExponent : Option Int
  publicPair : Int × Int
  deriving DecidableEq, Repr

/-- the one non-`None` constructor argument -/
inductive Arg
  | initialKey (s : List Char)
  | masterPrivateKey (k : Int)
  | publicPair (pp : Curve.Pt)
  | masterPublicKey (b : Bytes)
  deriving Repr

/-- the `for i in range(100000): b = sha256(b + orig_input)` loop -/
def stretchLoop (orig : Bytes) : Nat → Bytes → Bytes
  | 0, b => b
  | k + 1, b => stretchLoop orig k (Hash.sha256 (b ++ orig))

/-- `initial_key_to_master_key(initial_key)` -/
def initialKeyToMasterKey (initialKey : List Char) : Int :=
  let b := (String.ofList initialKey).toUTF8.toList
  fromBytes32 (stretchLoop b 100000 b)

/-- `ElectrumWallet.__init__` with exactly one argument given (`super().__init__(…, is_compressed=False)`) -/
def mkWallet (g : Gen) : Arg → Except Err Wallet
  | .initialKey s =>
    match keyInit g (.priv (initialKeyToMasterKey s)) with
    | .error e => .error e
    | .ok (se, pp) => .ok ⟨se, pp⟩
  | .masterPrivateKey k =>
    match keyInit g (.priv k) with
    | .error e => .error e
    | .ok (se, pp) => .ok ⟨se, pp⟩
  | .publicPair pp =>
    match keyInit g (.pub pp) with
    | .error e => .error e
    | .ok (se, pp) => .ok ⟨se, pp⟩
  | .masterPublicKey b =>
    -- `if master_public_key:` — an empty blob leaves both arguments `None`: `ValueError` from `Key.__init__`
    if b.isEmpty then .error .value
    else
      match keyInit g (.pub (some (fromBytes32 (slice b 0 32), fromBytes32 (slice b 32 64)))) with
      | .error e => .error e
      | .ok (se, pp) => .ok ⟨se, pp⟩

/-- `master_public_key()`: `sec(is_compressed=False)[1:]` -/
def Wallet.masterPublicKey (w : Wallet) : Except Err Bytes :=
  match publicPairToSecUncompressed w.publicPair with
  | .error e => .error e
  | .ok s => .ok (s.drop 1)

/-- `public_copy()` -/
def Wallet.publicCopy (g : Gen) (w : Wallet) : Except Err Wallet :=
  match w.secretExponent with
  | none => .ok w
  | some _ => mkWallet g (.publicPair (some w.publicPair))

/-- the offset of `subkey(path)`: `from_bytes_32(double_sha256((n + ":" + for_change + ":").encode() + mpk))` -/
def offsetFor (w : Wallet) (path : List Char) : Except Err Int :=
  let parts : Except Err (List Char × List Char) :=
    match Subpaths.split '/' path with
    | [n, forChange] => .ok (n, forChange)
    | [n] => .ok (n, ['0'])                 -- `for_change = 0`, then `str(for_change)`
    | _ => .error .value                    -- `(n,) = t` with three or more parts
  match parts with
  | .error e => .error e
  | .ok (n, fc) =>
    match w.masterPublicKey with
    | .error e => .error e
    | .ok mpk =>
      let b := (String.ofList (n ++ ':' :: fc ++ [':'])).toUTF8.toList ++ mpk
      .ok (fromBytes32 (Hash.dsha256 b))

/-- `ElectrumWallet.subkey(path)` (= `subkey_for_path`) -/
def Wallet.subkey (g : Gen) (w : Wallet) (path : List Char) : Except Err Wallet :=
  match offsetFor w path with
  | .error e => .error e
  | .ok offset =>
    -- `if self.secret_exponent():` — truthiness: `None` and `0` both take the public branch
    let priv : Option Int :=
      match w.secretExponent with
      | some k => if k ≠ 0 then some k else none
      | none => none
    match priv with
    | some k => mkWallet g (.masterPrivateKey (fmod (k + offset) g.c.n))
    | none =>
      match g.mul offset with
      | .error e => .error (.curve e)
      | .ok p1 =>
        match Curve.mkPoint g.c w.publicPair.1 w.publicPair.2 with
        | .error e => .error (.curve e)
        | .ok p2 =>
          match Curve.add g.c p1 p2 with
          | .error e => .error (.curve e)
          | .ok p => mkWallet g (.publicPair p)

/-- `ElectrumWallet.__init__` with any number of the four arguments given: exactly one must be -/
def mkWalletArgs (g : Gen) : List Arg → Except Err Wallet
  | [a] => mkWallet g a
  | _ => .error .value

/-- `serialize()`: `if self._secret_exponent:` (truthiness) the 32 bytes of the exponent, else the master public key -/
def Wallet.serialize (w : Wallet) : Except Err Bytes :=
  match w.secretExponent with
  | some k => if k ≠ 0 then toBytes32 k else w.masterPublicKey
  | none => w.masterPublicKey

/-- `ElectrumWallet.deserialize(blob)`: 32 bytes are a master private key, 64 a master public key, anything else `None` -/
def deserialize (g : Gen) (blob : Bytes) : Except Err (Option Wallet) :=
  if blob.length = 32 then
    match mkWallet g (.masterPrivateKey (fromBytes32 blob)) with
    | .error e => .error e
    | .ok w => .ok (some w)
  else if blob.length = 64 then
    match mkWallet g (.masterPublicKey blob) with
    | .error e => .error e
    | .ok w => .ok (some w)
  else .ok none

/-- `subkeys(path)`: one `subkey` per element of `subpaths_for_path_range(path, "'pH")` -/
def Wallet.subkeys (g : Gen) (w : Wallet) (pathRange : List Char) : Except Err (List Wallet) :=
  match Subpaths.subpathsForPathRange pathRange ['\'', 'p', 'H'] with
  | .error e => liftS (.error e)
  | .ok paths => mapMExcept (w.subkey g) paths

end Pycoin.Electrum
