import Pycoin.Model.ChainFinder
/-!
C15 — model of `pycoin/blockchain/BlockChain.py` (import-free): `add_headers` (returned ops = what the
change callbacks receive), `lock_to_index`, `_longest_local_block_chain` with its cache, and the lookups
`length`, `tuple_for_index`, `hash_for_index`, `index_for_hash`, `last_block_hash`.

Chains are kept as the code keeps them: tip first (`longest_chain[-1]` is the block right above
`parent_hash`).  Indices stored in `hash_to_index_lookup` and in ops are Python ints (`Int` here: the code
computes them by subtraction).
-/
namespace Pycoin.Chain

structure Header where
  hash : Nat
  parent : Nat
  weight : Nat
  deriving Repr, DecidableEq

/-- `("add"|"remove", block_for_hash(h), index)`; the block is shown by its hash (`none`: not in storage) -/
inductive Op
  | add (h : Option Nat) (idx : Int)
  | remove (h : Option Nat) (idx : Int)
  deriving Repr, DecidableEq

/-- an entry of `_locked_chain`: `(hash, parent_hash, weight_lookup.get(hash))` -/
abbrev Item := Nat × Nat × Option Nat

structure BC where
  parentHash : Nat
  /-- `hash_to_index_lookup` -/
  h2i : Dict Int
  /-- `weight_lookup`; its keys are also the keys of `unlocked_block_storage` (written together) -/
  weight : Dict Nat
  finder : CF
  /-- `_longest_chain_cache` -/
  cache : Option (List Nat)
  locked : List Item
  deriving Repr

def BC.new (parentHash : Nat) : BC := ⟨parentHash, [], [], CF.empty, none, []⟩

/-- `sum(self.weight_lookup.get(h, 0) for h in chain)` -/
def chainWeight (w : Dict Nat) (chain : List Nat) : Nat :=
  (chain.map fun h => (dget w h).getD 0).sum

/-- the `for chain in …: if weight > max_weight` loop, state `(max_weight, longest)` -/
def pickBest (w : Dict Nat) : List (List Nat) → Nat × List Nat → Nat × List Nat
  | [], acc => acc
  | c :: cs, (mw, best) =>
    if chainWeight w c > mw then pickBest w cs (chainWeight w c, c) else pickBest w cs (mw, best)

/-- `_longest_local_block_chain()`: returns the chain and the state with the cache filled -/
def BC.longest (rev : Bool) (bc : BC) : Except Err (List Nat × BC) :=
  match bc.cache with
  | some c => .ok (c, bc)
  | none => do
    let chains ← bc.finder.allChainsEndingAt rev bc.parentHash
    let c := (pickBest bc.weight chains (0, [])).2.dropLast
    .ok (c, { bc with cache := some c })

/-- `block_for_hash(h)` shown as the hash of the stored header -/
def BC.blockFor (bc : BC) (h : Nat) : Option Nat := if dhas bc.weight h then some h else none

/-- the generator inside `add_headers`: weights recorded, locked duplicates skipped, `(hash, parent)` yielded -/
def feed (h2i : Dict Int) (lockedSize : Nat) : Dict Nat → List Header → Dict Nat × List (Nat × Nat)
  | w, [] => (w, [])
  | w, hd :: r =>
    if (dget h2i hd.hash).getD lockedSize < (lockedSize : Int) then feed h2i lockedSize w r
    else
      ((feed h2i lockedSize (dset w hd.hash hd.weight) r).1,
       (hd.hash, hd.parent) :: (feed h2i lockedSize (dset w hd.hash hd.weight) r).2)

/-- `for idx, h in enumerate(old_path): ops.append(("remove", …, size - idx - 1)); del hash_to_index_lookup[h]` -/
def removeOps (bc : BC) (size : Int) : Nat → List Nat → Dict Int → Except Err (List Op × Dict Int)
  | _, [], m => .ok ([], m)
  | idx, h :: r, m =>
    if dhas m h then do
      let (ops, m') ← removeOps bc size (idx + 1) r (ddel m h)
      .ok (Op.remove (bc.blockFor h) (size - idx - 1) :: ops, m')
    else .error .keyError

/-- `for idx, h in reversed(list(enumerate(new_path)))`: given here the reversed path and the index of its head -/
def addOps (bc : BC) (size : Int) : List (Nat × Nat) → Dict Int → List Op × Dict Int
  | [], m => ([], m)
  | (idx, h) :: r, m =>
    let (ops, m') := addOps bc size r (dset m h (size - idx - 1))
    (Op.add (bc.blockFor h) (size - idx - 1) :: ops, m')

def enumFrom : Nat → List Nat → List (Nat × Nat)
  | _, [] => []
  | i, h :: r => (i, h) :: enumFrom (i + 1) r

/-- the `if old_longest_chain and new_longest_chain: … find_ancestral_path … [:-1]` block -/
def BC.diffPaths (bc : BC) (old new : List Nat) : Except Err (List Nat × List Nat) :=
  match old, new with
  | o :: _, n :: _ => do
    let (a, b) ← bc.finder.findAncestralPath o n
    pure (a.dropLast, b.dropLast)
  | _, _ => pure (old, new)

/-- the two op loops of `add_headers` -/
def BC.emitOps (bc : BC) (old new oldPath newPath : List Nat) : Except Err (List Op × BC) := do
  let (rops, m) ← removeOps bc ((old.length : Int) + bc.locked.length) 0 oldPath bc.h2i
  let (aops, m) := addOps bc ((new.length : Int) + bc.locked.length) (enumFrom 0 newPath).reverse m
  .ok (rops ++ aops, { bc with h2i := m })

/-- `add_headers(header_iter)`: the returned ops (also what every change callback is called with) -/
def BC.addHeaders (rev : Bool) (rank : List Nat) (bc : BC) (batch : List Header) : Except Err (List Op × BC) := do
  let (old, bc) ← bc.longest rev
  let finder ← bc.finder.loadNodes rev rank (feed bc.h2i bc.locked.length bc.weight batch).2
  let bc := { bc with weight := (feed bc.h2i bc.locked.length bc.weight batch).1, finder := finder, cache := none }
  let (new, bc) ← bc.longest rev
  let (oldPath, newPath) ← bc.diffPaths old new
  bc.emitOps old new oldPath newPath

/-- the items appended to `_locked_chain`: walking the chain upwards from the anchor (`r` is the chain in index order) -/
def mkItems (w : Dict Nat) : Nat → List Nat → List Item
  | _, [] => []
  | prev, h :: r => (h, prev, dget w h) :: mkItems w h r

/-- the generator inside `lock_to_index`: every tree is read from its bottom until a hash already seen -/
def lockTree (pl : Dict Nat) : List Nat → List Nat → List Nat × List (Nat × Nat)
  | [], ex => (ex, [])
  | c :: r, ex =>
    if c ∈ ex then (ex, [])
    else
      match dget pl c with
      | some p => ((lockTree pl r (c :: ex)).1, (c, p) :: (lockTree pl r (c :: ex)).2)
      | none => lockTree pl r (c :: ex)

def lockNodes (pl : Dict Nat) : List (List Nat) → List Nat → List (Nat × Nat)
  | [], _ => []
  | t :: ts, ex => (lockTree pl t ex).2 ++ lockNodes pl ts (lockTree pl t ex).1

/-- `lock_to_index(index)`; also returns the arguments `did_lock_to_index_f` is called with, if it is called -/
def BC.lockToIndex (rev : Bool) (rank : List Nat) (bc : BC) (index : Nat) :
    Except Err (Option (List Item × Nat) × BC) := do
  let oldLength := bc.locked.length
  let (longest, bc) ← bc.longest rev
  if index ≤ oldLength then .ok (none, bc) else
  let k := index - oldLength
  -- `longest_chain[-idx - 1]` for idx in range(k)
  if k > longest.length then .error .indexError else
  let taken := (longest.reverse).take k
  let items := mkItems bc.weight bc.parentHash taken
  let theHash := taken.getLastD bc.parentHash
  let nodes := lockNodes bc.finder.parent (bc.finder.trees.map (·.2)) taken.reverse
  let finder ← CF.empty.loadNodes rev rank nodes
  .ok (some (items, oldLength),
       { bc with locked := bc.locked ++ items, finder := finder,
                 cache := some (longest.take (longest.length - k)), parentHash := theHash })

/-- `length()` -/
def BC.length (rev : Bool) (bc : BC) : Except Err Nat := do
  let (c, bc) ← bc.longest rev
  .ok (c.length + bc.locked.length)

/-- `tuple_for_index(index)` for `index ≥ 0` -/
def BC.tupleForIndex (rev : Bool) (bc : BC) (index : Nat) : Except Err Item := do
  if h : index < bc.locked.length then .ok bc.locked[index] else
  let j := index - bc.locked.length
  let (c, bc) ← bc.longest rev
  -- `longest_chain[-j - 1]`, `_longest_chain_cache[-j]`
  if j ≥ c.length then .error .indexError else
  match c[c.length - 1 - j]? with
  | none => .error .indexError
  | some theHash =>
    let parent ← if j = 0 then pure bc.parentHash else
      match c[c.length - j]? with
      | none => throw Err.indexError
      | some p => pure p
    .ok (theHash, parent, dget bc.weight theHash)

/-- `hash_for_index(index)` -/
def BC.hashForIndex (rev : Bool) (bc : BC) (index : Nat) : Except Err Nat := do
  let t ← bc.tupleForIndex rev index
  .ok t.1

/-- `last_block_hash()` -/
def BC.lastBlockHash (rev : Bool) (bc : BC) : Except Err Nat := do
  let n ← bc.length rev
  if n = 0 then .ok bc.parentHash else bc.hashForIndex rev (n - 1)

/-- `index_for_hash(h)` -/
def BC.indexForHash (bc : BC) (h : Nat) : Option Int := dget bc.h2i h

/-! ### histories -/

inductive Step
  | add (batch : List Header) (rank : List Nat)
  | lock (index : Nat) (rank : List Nat)
  deriving Repr

/-- what one step lets the outside see -/
structure Obs where
  ops : List Op
  lockCb : Option (List Item × Nat)
  deriving Repr

def BC.step (rev : Bool) (bc : BC) : Step → Except Err (Obs × BC)
  | .add batch rank => do
    let (ops, bc) ← bc.addHeaders rev rank batch
    .ok (⟨ops, none⟩, bc)
  | .lock index rank => do
    let (cb, bc) ← bc.lockToIndex rev rank index
    .ok (⟨[], cb⟩, bc)

/-- the reported chain, read through `hash_for_index(0 … length()-1)` -/
def BC.reported (rev : Bool) (bc : BC) : Except Err (List Nat) := do
  let n ← bc.length rev
  (List.range n).mapM (bc.hashForIndex rev)

end Pycoin.Chain
