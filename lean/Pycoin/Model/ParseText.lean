import Pycoin.Model.Address
/-!
C18 — model of the text parsers of `pycoin/networks/ParseAPI.py` (with `parseable_str.py`, `BIP32Node.deserialize`,
`Key.__init__`, `ElectrumWallet.__init__`, `encoding/sec.py:sec_to_public_pair`).

Every parser is a total function `text → Except Err (Option Obj)`: `.ok none` is Python's `None`, `.error e` is an
exception that escapes the parser.  C18's totality clause is the theorem that the `.error` branch is never taken.

Curve arithmetic and the stretching hash are parameters (`KeyEnv`), like the codecs in `Env`.
-/
namespace Pycoin.Addr
open Pycoin.Gen.Networks

/-- a public pair as Python holds it: unbounded integers (nothing reduces them modulo `p`) -/
abbrev Pt := Int × Int

/-- what the key classes need from the curve (`network.generator`) and from `hmac`/`hashlib` -/
structure KeyEnv where
  /-- `generator.p()` -/
  p : Nat
  order : Nat
  /-- `secret_exponent * generator` for `1 ≤ se < order` -/
  mulG : Nat → Pt
  /-- `generator.points_for_x(x)` → `(even-y point, odd-y point)`; `none` = `ValueError`/`NoSuchPointError` -/
  pointsForX : Int → Option (Pt × Pt)
  /-- `generator.contains_point(x, y)` -/
  containsPoint : Int → Int → Bool
  /-- `hmac.HMAC(key, msg, sha512).digest()` -/
  hmacSha512 : Bytes → Bytes → Bytes
  /-- `electrum.initial_key_to_master_key(initial_key)` (100000 rounds of SHA-256) as 32 bytes -/
  electrumStretch : String → Bytes

structure KeyObj where
  se : Option Nat
  pub : Pt
  compressed : Bool
  deriving DecidableEq, Repr

structure NodeObj where
  kind : Nat            -- 32, 49, 84
  depth : Nat
  fingerprint : Bytes
  childIndex : Nat
  chainCode : Bytes
  key : KeyObj
  deriving DecidableEq, Repr

inductive Obj
  | contract (i : Info)
  | key (k : KeyObj)
  | node (n : NodeObj)
  | electrum (k : KeyObj)
  deriving DecidableEq, Repr

abbrev POut := Except Err (Option Obj)

def pOr (a : POut) (b : Unit → POut) : POut :=
  match a with
  | .error e => .error e
  | .ok (some o) => .ok (some o)
  | .ok none => b ()

def liftContract : ParseOut → POut
  | .error e => .error e
  | .ok none => .ok none
  | .ok (some i) => .ok (some (.contract i))

/-! ## numbers: `ParseAPI.as_number` -/

def pyStrip (cs : List Char) : List Char :=
  ((cs.dropWhile pyIsSpace).reverse.dropWhile pyIsSpace).reverse

def hexVal? (c : Char) : Option Nat := Hex.val? c

/-- digits of `int(s, 16)` after sign and optional `0x`: hex digits, single underscores between digits (and one allowed
right after the `0x` prefix) -/
def pyHexDigits : List Char → Bool → Nat → Option Nat
  | [], prevDigit, acc => if prevDigit then some acc else none
  | c :: cs, prevDigit, acc =>
    match hexVal? c with
    | some v => pyHexDigits cs true (acc * 16 + v)
    | none =>
      if c = '_' ∧ prevDigit then
        match cs with
        | d :: _ => if (hexVal? d).isSome then pyHexDigits cs false acc else none
        | [] => none
      else none

def pyInt16Body (cs : List Char) : Option Nat :=
  match cs with
  | '0' :: x :: rest =>
    if x = 'x' ∨ x = 'X' then
      match rest with
      | '_' :: r => (match r with | d :: _ => if (hexVal? d).isSome then pyHexDigits r false 0 else none | [] => none)
      | _ => pyHexDigits rest false 0
    else pyHexDigits cs false 0
  | _ => pyHexDigits cs false 0

/-- `int(s, 16)` -/
def pyInt16 (s : String) : Option Int :=
  match pyStrip s.toList with
  | '-' :: cs => Option.map (fun n : Nat => -(n : Int)) (pyInt16Body cs)
  | '+' :: cs => Option.map (fun n : Nat => (n : Int)) (pyInt16Body cs)
  | cs => Option.map (fun n : Nat => (n : Int)) (pyInt16Body cs)

/-- `int(s)` (white space around the number is ignored) -/
def pyInt10 (s : String) : Option Int := pyInt (String.ofList (pyStrip s.toList))

/-- `ParseAPI.as_number` -/
def asNumber (s : String) : Option Int :=
  match pyInt10 s with
  | some v => some v
  | none => pyInt16 s

/-! ## `parseable_str` helpers -/

/-- `s.split(":", 1)` when it has two parts -/
def splitOnce (c : Char) (cs : List Char) : Option (List Char × List Char) :=
  match cs.span (· ≠ c) with
  | (a, _ :: b) => some (a, b)
  | (_, []) => none

/-- `parse_colon_prefix(s)` -/
def parseColonPrefix (s : String) : Option (String × String) :=
  (splitOnce ':' s.toList).map fun (a, b) => (String.ofList a, String.ofList b)

/-- `h2b(s)`: `ValueError` for anything that is not ASCII hex of even length -/
def h2b (s : String) : Option Bytes := unhexlify s.toList

/-! ## key classes -/

/-- `Key.__init__(secret_exponent=se, is_compressed=c)` -/
def mkPrivateKey (ke : KeyEnv) (se : Int) (c : Bool) : Except Err KeyObj :=
  if se < 1 ∨ se ≥ ke.order then .error .invalidSecretExponent
  else if ke.containsPoint (ke.mulG se.toNat).1 (ke.mulG se.toNat).2 then .ok ⟨some se.toNat, ke.mulG se.toNat, c⟩
  else .error .invalidPublicPair

/-- `Key.__init__(public_pair=(x, y), is_compressed=c)` with integer coordinates -/
def mkPublicKey (ke : KeyEnv) (x y : Int) (c : Bool) : Except Err KeyObj :=
  if ke.containsPoint x y then .ok ⟨none, (x, y), c⟩ else .error .invalidPublicPair

/-- `sec_to_public_pair(sec, generator)` (strict) for a 32-byte field; a coordinate not below the field prime is refused -/
def secToPublicPair (ke : KeyEnv) (sec : Bytes) : Except Err Pt :=
  if sec.length = 65 ∧ sec.take 1 = [4] then
    (if beNat (slice sec 1 33) ≥ ke.p ∨ beNat (slice sec 33 65) ≥ ke.p then .error .encodingError
     else .ok ((beNat (slice sec 1 33) : Int), (beNat (slice sec 33 65) : Int)))
  else if sec.length = 33 ∧ (sec.take 1 = [2] ∨ sec.take 1 = [3]) then
    (if beNat (slice sec 1 33) ≥ ke.p then .error .encodingError
     else
      match ke.pointsForX (beNat (slice sec 1 33) : Int) with
      | some (even, odd) => .ok (if sec.take 1 ≠ [2] then odd else even)
      | none => .error .noSuchPoint)
  else .error .encodingError

/-- `keys.public(sec)` = `Key.from_sec(sec)` -/
def keyFromSec (ke : KeyEnv) (sec : Bytes) : Except Err KeyObj := do
  let pp ← secToPublicPair ke sec
  mkPublicKey ke pp.1 pp.2 (sec.take 1 = [2] ∨ sec.take 1 = [3])

/-- `to_bytes_32(v)`: `OverflowError` outside `0 ≤ v < 2^256` -/
def toBytes32 (v : Int) : Except Err Bytes :=
  if v < 0 ∨ v ≥ 2 ^ 256 then .error .overflowError else .ok (beBytes v.toNat 32)

/-- `public_pair_to_sec` (`y & 1` on a Python integer) -/
def secOf (k : KeyObj) (compressed : Bool) : Except Err Bytes := do
  let xs ← toBytes32 k.pub.1
  if compressed then pure ((if k.pub.2 % 2 = 1 then 3 else 2) :: xs)
  else
    let ys ← toBytes32 k.pub.2
    pure (4 :: (xs ++ ys))

/-! ## text forms (`as_text`, `wif`, `hwif`, `sec_as_hex`) -/

/-- the `wif_for_blob` / `bipNN_as_string` closures: Base58Check of prefix + blob under the closure's own checksum hash `k`
(`Network.hashWif`, `hashBip32`, …: double SHA-256, or Groestl where a Groestlcoin symbol file replaced the closure) -/
def b58Text (env : Env) (k : HashKind) (pfx : Option Bytes) (blob : Bytes) : Except Err String :=
  match pfx with
  | none => .error .typeError                   -- `None + blob`
  | some p => .ok (env.b58cEnc k (p ++ blob))

/-- `Key.wif()` of a private key -/
def wifText (env : Env) (net : Network) (se : Nat) (compressed : Bool) : Except Err String :=
  b58Text env net.hashWif net.outWif (beBytes se 32 ++ (if compressed then [1] else []))

/-- `Key.sec_as_hex()` -/
def secText (net : Network) (k : KeyObj) : Except Err String :=
  match net.secPrefix with
  | some (.inl p) => do
    let sec ← secOf k k.compressed
    pure (p ++ b2h sec)
  | _ => .error .typeError

/-- `Key.as_text()` -/
def keyText (env : Env) (net : Network) (k : KeyObj) : Except Err String :=
  match k.se with
  | some se => if se ≠ 0 then wifText env net se k.compressed else secText net k
  | none => secText net k

/-- `BIP32Node.serialize(as_private)` -/
def nodeSerialize (n : NodeObj) (asPrivate : Bool) : Except Err Bytes :=
  let head := [UInt8.ofNat n.depth] ++ n.fingerprint ++ beBytes n.childIndex 4 ++ n.chainCode
  if asPrivate then
    match n.key.se with
    | some se => .ok (head ++ 0 :: beBytes se 32)
    | none => .error .valueError                 -- PublicPrivateMismatchError
  else do
    let sec ← secOf n.key true
    pure (head ++ sec)

def nodeOutPrefix (net : Network) (kind : Nat) (asPrivate : Bool) : Option Bytes :=
  match kind, asPrivate with
  | 32, true => net.outBip32Prv | 32, false => net.outBip32Pub
  | 49, true => net.outBip49Prv | 49, false => net.outBip49Pub
  | 84, true => net.outBip84Prv | 84, false => net.outBip84Pub
  | _, _ => none

/-- the checksum hash of the closure `hwif` goes through (`bip32_as_string` / `bip49_as_string` / `bip84_as_string`) -/
def nodeOutHash (net : Network) (kind : Nat) : HashKind :=
  match kind with
  | 49 => net.hashBip49
  | 84 => net.hashBip84
  | _ => net.hashBip32

/-- `node.hwif(as_private)` -/
def hwif (env : Env) (net : Network) (n : NodeObj) (asPrivate : Bool) : Except Err String := do
  let blob ← nodeSerialize n asPrivate
  b58Text env (nodeOutHash net n.kind) (nodeOutPrefix net n.kind asPrivate) blob

/-! ## the parsers (`ParseAPI`) -/

/-- `keys.private(se, is_compressed)` inside `try … except ValueError: return None` -/
def wifKey (ke : KeyEnv) (blob : Bytes) (c : Bool) : POut :=
  match mkPrivateKey ke (beNat blob) c with
  | .ok k => .ok (some (.key k))
  | .error .invalidSecretExponent => .ok none
  | .error .invalidPublicPair => .ok none
  | .error e => .error e

/-- `ParseAPI.wif`: 33 bytes ending in `01` (compressed) or 32 bytes after the prefix -/
def parseWif (env : Env) (ke : KeyEnv) (net : Network) (s : String) : POut :=
  match parseB58Hashed env net s, net.parseWif with
  | some data, some p =>
    if !isPrefixOf p data then .ok none
    else if (data.drop p.length).length = 33 ∧ (data.drop p.length).drop 32 = [1] then
      wifKey ke ((data.drop p.length).take 32) true
    else if (data.drop p.length).length = 32 then wifKey ke (data.drop p.length) false
    else .ok none
  | _, _ => .ok none

/-- `ParseAPI.secret_exponent` -/
def parseSecretExponent (ke : KeyEnv) (s : String) : POut :=
  match asNumber s with
  | some v =>
    if v = 0 then .ok none
    else match mkPrivateKey ke v true with
      | .ok k => .ok (some (.key k))
      | .error .invalidSecretExponent => .ok none
      | .error .invalidPublicPair => .ok none
      | .error e => .error e
  | none => .ok none

/-- the `even`/`odd` half of one round of `public_pair`: the point `points_for_x` gives, else the point so far -/
def parityPoint (ke : KeyEnv) (v0 : Int) (s1 : String) (point : Option Pt) : Except Err (Option Pt) :=
  if s1 = "even" ∨ s1 = "odd" then
    match ke.pointsForX v0 with
    | some (even, odd) => .ok (some (if s1 = "odd" then odd else even))
    | none => .error .noSuchPoint
  else .ok point

/-- the explicit-`y` half of one round -/
def explicitPoint (ke : KeyEnv) (v0 : Int) (s1 : String) (point : Option Pt) : Option Pt :=
  match asNumber s1 with
  | none => point
  | some v1 =>
    if ¬ (0 < v1 ∧ v1 < ke.p) then point
    else if ke.containsPoint v0 v1 then some (v0, v1)
    else point

/-- one round of the `for c in ",/"` loop of `ParseAPI.public_pair`: the point found for this separator, if any;
`.error` when `points_for_x` raises -/
def publicPairStep (ke : KeyEnv) (s : String) (c : Char) (point : Option Pt) : Except Err (Option Pt) :=
  match splitOnce c s.toList with
  | none => .ok point
  | some (s0, s1) =>
    match asNumber (String.ofList s0) with
    | none => .ok point
    | some v0 =>
      if ¬ (0 < v0 ∧ v0 < ke.p) then .ok point
      else
        match parityPoint ke v0 (String.ofList s1) point with
        | .error e => .error e
        | .ok pt => .ok (explicitPoint ke v0 (String.ofList s1) pt)

/-- the two rounds -/
def publicPairPoint (ke : KeyEnv) (s : String) : Except Err (Option Pt) :=
  match publicPairStep ke s ',' none with
  | .error e => .error e
  | .ok p1 => publicPairStep ke s '/' p1

/-- `ParseAPI.public_pair` (a `ValueError` from the curve is turned into `None`) -/
def parsePublicPair (ke : KeyEnv) (s : String) : POut :=
  match publicPairPoint ke s with
  | .error .noSuchPoint => .ok none
  | .error .valueError => .ok none
  | .error e => .error e
  | .ok none => .ok none
  | .ok (some pt) =>
    match mkPublicKey ke pt.1 pt.2 true with
    | .ok k => .ok (some (.key k))
    | .error .invalidPublicPair => .ok none
    | .error .valueError => .ok none
    | .error e => .error e

/-- the text after an optional `sec_prefix` -/
def secBody (net : Network) (s : String) : String :=
  match net.secPrefix with
  | some (.inl p) =>
    if p ≠ "" ∧ s.toList.take p.length = p.toList then String.ofList (s.toList.drop p.length) else s
  | _ => s

/-- `ParseAPI.sec`: an optional `sec_prefix` in front of the hex; every exception is swallowed -/
def parseSec (ke : KeyEnv) (net : Network) (s : String) : POut :=
  match h2b (secBody net s) with
  | none => .ok none
  | some sec =>
    match keyFromSec ke sec with
    | .ok k => .ok (some (.key k))
    | .error _ => .ok none

/-- the key material of an extended-key blob: `00 || exponent` or a compressed SEC -/
def deserializeKey (ke : KeyEnv) (data : Bytes) : Except Err KeyObj :=
  if slice data 45 46 = [0] then mkPrivateKey ke (beNat (data.drop 46)) true
  else
    match secToPublicPair ke (data.drop 45) with
    | .error e => .error e
    | .ok pp => mkPublicKey ke pp.1 pp.2 true

/-- `BIP32Node.deserialize(data)` on a 78-byte blob -/
def deserialize (ke : KeyEnv) (kind : Nat) (data : Bytes) : Except Err NodeObj :=
  if (slice data 5 13).length ≠ 8 then .error .structError
  else
    match deserializeKey ke data with
    | .error e => .error e
    | .ok k =>
      if (slice data 13 45).length ≠ 32 then .error .valueError
      else .ok ⟨kind, (match data[4]? with | some d => d.toNat | none => 0), slice data 5 9, beNat (slice data 9 13), slice data 13 45, k⟩

def nodeParsePrefix (net : Network) (kind : Nat) (prv : Bool) : Option Bytes :=
  match kind, prv with
  | 32, true => net.parseBip32Prv | 32, false => net.parseBip32Pub
  | 49, true => net.parseBip49Prv | 49, false => net.parseBip49Pub
  | 84, true => net.parseBip84Prv | 84, false => net.parseBip84Pub
  | _, _ => none

/-- `hparse(api, pub_prv, key_type, s)`: length 78 required, `ValueError`/`struct.error` ↦ `None` -/
def hparse (env : Env) (ke : KeyEnv) (net : Network) (kind : Nat) (prv : Bool) (s : String) : POut :=
  match parseB58Hashed env net s, nodeParsePrefix net kind prv with
  | some data, some p =>
    if !isPrefixOf p data then .ok none
    else if data.length ≠ 78 then .ok none
    else
      match deserialize ke kind data with
      | .ok n => .ok (some (.node n))
      | .error .typeError => .error .typeError
      | .error .fuel => .error .fuel
      | .error _ => .ok none
  | _, _ => .ok none

def parseBip (env : Env) (ke : KeyEnv) (net : Network) (kind : Nat) (s : String) : POut :=
  pOr (hparse env ke net kind true s) fun _ => hparse env ke net kind false s

/-- `BIP32Node.from_master_secret` -/
def fromMasterSecret (ke : KeyEnv) (secret : Bytes) : Except Err NodeObj :=
  match mkPrivateKey ke (beNat ((ke.hmacSha512 "Bitcoin seed".toUTF8.toList secret).take 32)) true with
  | .error e => .error e
  | .ok k => .ok ⟨32, 0, [0, 0, 0, 0], 0, (ke.hmacSha512 "Bitcoin seed".toUTF8.toList secret).drop 32, k⟩

/-- the master secret of a `P:`/`H:` form -/
def seedBytes (tag rest : String) : Option Bytes := if tag = "H" then h2b rest else some rest.toUTF8.toList

/-- `ParseAPI.bip32_seed` (and `hd_seed`, the same thing); `pair[0] not in "HP"` is a substring test -/
def parseBip32Seed (ke : KeyEnv) (s : String) : POut :=
  match parseColonPrefix s with
  | none => .ok none
  | some (tag, rest) =>
    if ¬ (tag = "" ∨ tag = "H" ∨ tag = "P" ∨ tag = "HP") then .ok none
    else
      match seedBytes tag rest with
      | none => .ok none
      | some ms =>
        match fromMasterSecret ke ms with
        | .ok n => .ok (some (.node n))
        | .error .invalidSecretExponent => .ok none
        | .error .invalidPublicPair => .ok none
        | .error e => .error e

/-- `ParseAPI._electrum_to_blob` -/
def electrumBlob (s : String) : Option Bytes :=
  match parseColonPrefix s with
  | some ("E", rest) => h2b rest
  | _ => none

def electrumOut : Except Err KeyObj → POut
  | .ok k => .ok (some (.electrum k))
  | .error .invalidSecretExponent => .ok none
  | .error .invalidPublicPair => .ok none
  | .error .valueError => .ok none
  | .error e => .error e

def parseElectrumSeed (ke : KeyEnv) (s : String) : POut :=
  match electrumBlob s with
  | some blob =>
    if blob.length = 16 then electrumOut (mkPrivateKey ke (beNat (ke.electrumStretch (b2h blob))) false) else .ok none
  | none => .ok none

def parseElectrumPrv (ke : KeyEnv) (s : String) : POut :=
  match electrumBlob s with
  | some blob => if blob.length = 32 then electrumOut (mkPrivateKey ke (beNat blob) false) else .ok none
  | none => .ok none

def parseElectrumPub (ke : KeyEnv) (s : String) : POut :=
  match electrumBlob s with
  | some blob =>
    if blob.length = 64 then
      -- coordinates are field elements: anything not below `p` is refused (`contains_point` reduces modulo `p`)
      (if beNat (blob.take 32) ≥ ke.p ∨ beNat (blob.drop 32) ≥ ke.p then .ok none
       else electrumOut (mkPublicKey ke (beNat (blob.take 32) : Nat) (beNat (blob.drop 32) : Nat) false))
    else .ok none
  | none => .ok none

/-- `ParseAPI.script`: compile, classify; every exception ↦ `None` -/
def parseScript (s : String) : POut :=
  match compileText s with
  | .error _ => .ok none
  | .ok script =>
    match infoForScript script with
    | .ok i => .ok (some (.contract i))
    | .error _ => .ok none

def parseAddressO (env : Env) (net : Network) (s : String) : POut := liftContract (parseAddress env net s)

def disabled (net : Network) (name : String) (p : POut) : POut := if net.disabled.contains name then .ok none else p

/-- `ParseAPI.payable`: `self.address(ps) or self.script(ps)` (the instance attribute, if replaced) -/
def parsePayable (env : Env) (net : Network) (s : String) : POut :=
  pOr (parseAddressO env net s) fun _ => parseScript s

/-- `ParseAPI.hierarchical_key` -/
def parseHierarchicalKey (env : Env) (ke : KeyEnv) (net : Network) (s : String) : POut :=
  disabled net "hierarchical_key" <|
  pOr (parseBip32Seed ke s) fun _ =>
  pOr (parseBip env ke net 32 s) fun _ =>
  pOr (parseBip env ke net 49 s) fun _ =>
  pOr (parseBip env ke net 84 s) fun _ =>
  pOr (parseElectrumSeed ke s) fun _ =>
  pOr (parseElectrumPrv ke s) fun _ =>
  parseElectrumPub ke s

/-- `ParseAPI.private_key` -/
def parsePrivateKey (env : Env) (ke : KeyEnv) (net : Network) (s : String) : POut :=
  disabled net "private_key" <|
  pOr (parseWif env ke net s) fun _ => parseSecretExponent ke s

/-- `ParseAPI.secret` -/
def parseSecret (env : Env) (ke : KeyEnv) (net : Network) (s : String) : POut :=
  pOr (parsePrivateKey env ke net s) fun _ => parseHierarchicalKey env ke net s

/-- `ParseAPI.public_key` -/
def parsePublicKey (ke : KeyEnv) (net : Network) (s : String) : POut :=
  disabled net "public_key" <|
  pOr (parsePublicPair ke s) fun _ => parseSec ke net s

/-- `ParseAPI.__call__` -/
def parseAny (env : Env) (ke : KeyEnv) (net : Network) (s : String) : POut :=
  pOr (parsePayable env net s) fun _ => parseSecret env ke net s

/-- every public entry point of `ParseAPI`, by name -/
def parseEntry (env : Env) (ke : KeyEnv) (net : Network) (entry : String) (s : String) : Option POut :=
  match entry with
  | "bip32_seed" => some (parseBip32Seed ke s)
  | "hd_seed" => some (parseBip32Seed ke s)
  | "bip32_prv" => some (hparse env ke net 32 true s)
  | "bip32_pub" => some (hparse env ke net 32 false s)
  | "bip32" => some (parseBip env ke net 32 s)
  | "bip49_prv" => some (hparse env ke net 49 true s)
  | "bip49_pub" => some (hparse env ke net 49 false s)
  | "bip49" => some (parseBip env ke net 49 s)
  | "bip84_prv" => some (hparse env ke net 84 true s)
  | "bip84_pub" => some (hparse env ke net 84 false s)
  | "bip84" => some (parseBip env ke net 84 s)
  | "electrum_seed" => some (parseElectrumSeed ke s)
  | "electrum_prv" => some (parseElectrumPrv ke s)
  | "electrum_pub" => some (parseElectrumPub ke s)
  | "p2pkh" => some (liftContract (parseP2pkh env net s))
  | "p2sh" => some (liftContract (parseP2sh env net s))
  | "p2pkh_segwit" => some (liftContract (parseP2pkhSegwit env net s))
  | "p2sh_segwit" => some (liftContract (parseP2shSegwit env net s))
  | "p2tr" => some (liftContract (parseP2tr env net s))
  | "script" => some (parseScript s)
  | "wif" => some (parseWif env ke net s)
  | "secret_exponent" => some (parseSecretExponent ke s)
  | "public_pair" => some (parsePublicPair ke s)
  | "sec" => some (parseSec ke net s)
  | "address" => some (parseAddressO env net s)
  | "payable" => some (parsePayable env net s)
  | "hierarchical_key" => some (parseHierarchicalKey env ke net s)
  | "private_key" => some (parsePrivateKey env ke net s)
  | "secret" => some (parseSecret env ke net s)
  | "public_key" => some (parsePublicKey ke net s)
  | "input" => some (.ok none)
  | "tx" => some (.ok none)
  | "spendable" => some (.ok none)
  | "script_preimage" => some (.ok none)
  | "call" => some (parseAny env ke net s)
  | _ => none

def entryPoints : List String :=
  ["bip32_seed", "hd_seed", "bip32_prv", "bip32_pub", "bip32", "bip49_prv", "bip49_pub", "bip49", "bip84_prv", "bip84_pub",
   "bip84", "electrum_seed", "electrum_prv", "electrum_pub", "p2pkh", "p2sh", "p2pkh_segwit", "p2sh_segwit", "p2tr", "script",
   "wif", "secret_exponent", "public_pair", "sec", "address", "payable", "hierarchical_key", "private_key", "secret",
   "public_key", "input", "tx", "spendable", "script_preimage", "call"]

/-- the entry points that take checksummed text (Base58Check or Bech32) -/
def checksummedEntries : List String :=
  ["p2pkh", "p2sh", "p2pkh_segwit", "p2sh_segwit", "p2tr", "wif", "bip32_prv", "bip32_pub", "bip49_prv", "bip49_pub",
   "bip84_prv", "bip84_pub"]

end Pycoin.Addr
