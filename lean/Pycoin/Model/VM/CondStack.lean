import Pycoin.Model.VM.Basic
/-!
`pycoin/vm/ConditionalStack.py`: two counters.  `error_f` is `conditional_error_f` (raises UNBALANCED_CONDITIONAL).
-/
namespace Pycoin.VM
open Pycoin.Gen.VM

namespace CondStack

def empty : CondStack := ⟨0, 0⟩

def unbalanced : Err := scriptErr errno_UNBALANCED_CONDITIONAL

def allIfTrue (c : CondStack) : Bool := c.falseCount == 0

/-- `OP_IF(the_bool, reverse_bool)` -/
def opIf (c : CondStack) (theBool : Bool) (reverseBool : Bool := false) : CondStack :=
  if c.falseCount > 0 then { c with falseCount := c.falseCount + 1 }
  else
    let b := if reverseBool then !theBool else theBool
    if b then { c with trueCount := c.trueCount + 1 } else { c with falseCount := 1 }

/-- `OP_ELSE()` -/
def opElse (c : CondStack) : M CondStack :=
  if c.falseCount > 1 then .ok c
  else if c.falseCount = 1 then .ok { trueCount := c.trueCount + 1, falseCount := 0 }
  else if c.trueCount = 0 then .error unbalanced
  else .ok { trueCount := c.trueCount - 1, falseCount := c.falseCount + 1 }

/-- `OP_ENDIF()` -/
def opEndif (c : CondStack) : M CondStack :=
  if c.falseCount > 0 then .ok { c with falseCount := c.falseCount - 1 }
  else if c.trueCount = 0 then .error unbalanced
  else .ok { c with trueCount := c.trueCount - 1 }

/-- `check_final_state()` -/
def checkFinalState (c : CondStack) : M Unit :=
  if c.falseCount > 0 || c.trueCount > 0 then .error unbalanced else .ok ()

end CondStack

end Pycoin.VM
