import Pycoin.Model.VM.Basic
/-!
`pycoin/vm/ScriptStreamer.py` + `pycoin/coins/bitcoin/ScriptStreamer.py` — compact model of what the VM uses:
`get_opcode`, the `get_opcodes` walk, `compile_push_data`, `_check_script_push_only`, `_delete_signature`.
(The "script" builder has the fuller model for property C12.)
-/
namespace Pycoin.VM
open Pycoin.Gen.VM

/-- result of `get_opcode`: `(opcode, data, new_pc, is_ok)` -/
structure Fetched where
  opcode : Nat
  data : Option Bytes
  pc : Nat
  isOk : Bool
  deriving DecidableEq, Repr

def nonMinimal : Err := scriptErr errno_MINIMALDATA

/-- one decoder closure of `ScriptStreamer.decoder` applied at `pc`: `(new_pc, data)` -/
def runDecoder (d : Decoder) (script : Bytes) (pc : Nat) (verifyMinimal : Bool) : M (Nat × Option Bytes) :=
  match d with
  | .none => .ok (pc + 1, none)                       -- not used (see `getOpcode`)
  | .const data => .ok (pc + 1, some data)
  | .sized size constValues =>
    -- pc += 1; data = script[pc:pc+size]; if len(data) < size: return pc + 1, None
    let pc := pc + 1
    let data := slice script pc (pc + size)
    if data.length < size then .ok (pc + 1, none)
    else if verifyMinimal && constValues.contains data then .error nonMinimal
    else .ok (pc + size, some data)
  | .variable lenSize sizedValues minSize =>
    -- dec_f: pc += 1; struct.unpack(fmt, script[pc:pc+n]) failing => (None, pc) else (size, pc + n);
    -- `if size is None: return pc + 1, None`
    let pc := pc + 1
    let lenBytes := slice script pc (pc + lenSize)
    if lenBytes.length ≠ lenSize then .ok (pc + 1, none) else
    let size := leNat lenBytes
    let pc := pc + lenSize
    let data := slice script pc (pc + size)
    if data.length < size then .ok (pc + 1, none)
    else if verifyMinimal && (sizedValues.contains size || size < minSize) then .error nonMinimal
    else .ok (pc + size, some data)
  | .unknownFmt _ => .error (.py "UnknownHandler")

/-- `ScriptStreamer.get_opcode(script, pc, verify_minimal_data)`; `script[pc]` out of range is `IndexError` -/
def getOpcode (script : Bytes) (pc : Nat) (verifyMinimal : Bool) : M Fetched :=
  match script[pc]? with
  | none => .error (.py "IndexError")
  | some b =>
    match decoderList[b.toNat]? with
    | some .none | none => .ok ⟨b.toNat, none, pc + 1, true⟩
    | some d => do
      let (pc', data) ← runDecoder d script pc verifyMinimal
      pure ⟨b.toNat, data, pc', data.isSome⟩

/-- `ScriptTools.get_opcodes(script)` as a list of `(pc, new_pc)` (all the callers here use);
`fuel` bounds the `while pc < len(script)` loop (every step advances `pc`; `fuel = len(script)` suffices) -/
def opcodeSpans (script : Bytes) : Nat → Nat → M (List (Nat × Nat × Nat))
  | 0, _ => .ok []
  | fuel + 1, pc =>
    if pc < script.length then do
      let f ← getOpcode script pc false
      let rest ← opcodeSpans script fuel f.pc
      pure ((f.opcode, pc, f.pc) :: rest)
    else .ok []

/-- `ScriptStreamer.compile_push_data(data)` for data shorter than 2^32 bytes (longer: `struct.error`) -/
def compilePushData (data : Bytes) : M Bytes :=
  match constEncoder.find? (·.1 = data) with
  | some (_, op) => .ok op
  | none =>
    match sizedEncoder.find? (·.1 = data.length) with
    | some (_, op) => .ok (UInt8.ofNat op :: data)
    | none =>
      -- `for max_size, opcode, enc_f in variable_encoder: if size <= max_size: break` (last entry if none fits)
      match variableEncoder.find? (fun e => data.length ≤ e.1), variableEncoder.getLast? with
      | some (_, op, n), _ => .ok (UInt8.ofNat op :: leBytes data.length n ++ data)
      | none, some (_, _, _) => .error (.py "error")      -- struct.error: length does not fit
      | none, none => .error (.py "TypeError")            -- bytes([None])

/-- the `while pc < len(script)` loop of `BitcoinSolutionChecker.delete_subscript`: sections that differ from `sub` are
kept; at an instruction `get_opcode` cannot decode (`is_ok` false: a push cut short by the end of the script) the rest of
the script is kept as it is and the walk ends.  `fuel` as in `opcodeSpans`. -/
def deleteSubscript (script sub : Bytes) : Nat → Nat → M Bytes
  | 0, _ => .ok []
  | fuel + 1, pc =>
    if pc < script.length then do
      let f ← getOpcode script pc false
      if !f.isOk then pure (script.drop pc)
      else
        let sec := slice script pc f.pc
        let rest ← deleteSubscript script sub fuel f.pc
        pure ((if sec = sub then [] else sec) ++ rest)
    else .ok []

/-- `BitcoinSolutionChecker._delete_signature(script, sig_blob)`: `delete_subscript` of the canonical push of `sig_blob` -/
def deleteSignature (script sigBlob : Bytes) : M Bytes := do
  let sub ← compilePushData sigBlob
  -- `if len(sig_blob) == 1: subscript = b"\x01" + sig_blob` (by length alone, never OP_1..OP_16/OP_1NEGATE)
  let sub := if sigBlob.length = 1 then 1 :: sigBlob else sub
  deleteSubscript script sub script.length 0

/-- `_make_sighash_f`: `for sig_blob in sig_blobs: script = _delete_signature(script, sig_blob)` -/
def deleteSignatures (script : Bytes) : List Bytes → M Bytes
  | [] => .ok script
  | s :: ss => do deleteSignatures (← deleteSignature script s) ss

/-- `_check_script_push_only`: every opcode met by the walk must be in `data_opcodes` (decode failures are ignored) -/
def checkScriptPushOnly (script : Bytes) : M Unit := do
  let spans ← opcodeSpans script script.length 0
  if spans.all (fun (op, _, _) => dataOpcodes.contains op) then pure () else .error (scriptErr errno_SIG_PUSHONLY)

end Pycoin.VM
