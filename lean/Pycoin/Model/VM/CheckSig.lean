import Pycoin.Model.VM.Num
import Pycoin.Model.VM.Streamer
/-!
`pycoin/satoshi/checksigops.py` with the parts of `pycoin/satoshi/der.py` and `pycoin/encoding/sec.py` that decide
*which exception* (if any) the signature/public-key preprocessing raises.  The ECDSA verification itself is
`Env.checkSig`.
-/
namespace Pycoin.VM
open Pycoin.Gen.VM

/-! ### der.py (as called with `use_broken_open_ssl_mechanism=True`) -/

/-- exceptions of the DER reader: `UnexpectedDER`/`ValueError` are caught by `checksigs`; `TypeError`
(`ord(b"")` in `read_length`) is not -/
inductive DerErr | unexpected | typeError
  deriving DecidableEq, Repr

/-- `int(binascii.hexlify(b), 16)`; `ValueError` on the empty string -/
def hexInt (b : Bytes) : Except DerErr Nat := if b.isEmpty then .error .unexpected else .ok (beNat b)

/-- `read_length(string)`: `(length, lengthlength)` -/
def readLength (string : Bytes) : Except DerErr (Nat × Nat) :=
  match string with
  | [] => .error .typeError                                   -- ord(string[:1])
  | s0 :: _ =>
    if s0.toNat < 128 then .ok (s0.toNat % 128, 1)
    else
      let llen := s0.toNat % 128
      if llen > string.length - 1 then .error .unexpected
      else do pure (← hexInt (slice string 1 (1 + llen)), 1 + llen)

/-- `remove_sequence(string)` (slices truncate silently) -/
def removeSequence (string : Bytes) : Except DerErr (Bytes × Bytes) :=
  match string with
  | 0x30 :: rest => do
    let (length, ll) ← readLength rest
    let endseq := 1 + ll + length
    pure (slice string (1 + ll) endseq, string.drop endseq)
  | _ => .error .unexpected

/-- `remove_integer(string, True)`: the value is read as unsigned -/
def removeInteger (string : Bytes) : Except DerErr (Nat × Bytes) :=
  match string with
  | 0x02 :: rest => do
    let (length, llen) ← readLength rest
    if string.length < 1 + llen + length then .error .unexpected
    else
      let v ← hexInt (slice string (1 + llen) (1 + llen + length))
      pure (v, string.drop (1 + llen + length))
  | _ => .error .unexpected

/-- `sigdecode_der(sig_der, True)` -/
def sigdecodeDer (sig : Bytes) : Except DerErr (Nat × Nat) := do
  let (rs, _) ← removeSequence sig
  let (r, rest) ← removeInteger rs
  let (s, _) ← removeInteger rest
  pure (r, s)

/-! ### checksigops.py -/

def sigDer : Err := scriptErr errno_SIG_DER

/-- list indexing that the preceding checks keep in range (`IndexError` otherwise) -/
def at' (sig : Bytes) (i : Nat) : M Nat :=
  match sig[i]? with
  | some b => .ok b.toNat
  | none => .error (.py "IndexError")

/-- `_check_valid_signature_1` + `_check_valid_signature_2` (port of `IsValidSignatureEncoding`) -/
def checkValidSignature (sig : Bytes) : M Unit := do
  let ls := sig.length
  if ls < 9 || ls > 73 then .error sigDer
  if (← at' sig 0) ≠ 0x30 then .error sigDer
  if (← at' sig 1) ≠ ls - 3 then .error sigDer
  let rLen ← at' sig 3
  if 5 + rLen ≥ ls then .error sigDer
  let sLen ← at' sig (5 + rLen)
  if rLen + sLen + 7 ≠ ls then .error sigDer
  if (← at' sig 2) ≠ 2 then .error sigDer
  if rLen = 0 then .error sigDer
  if (← at' sig 4) ≥ 128 then .error sigDer
  if rLen > 1 && (← at' sig 4) = 0 && (← at' sig 5) < 128 then .error sigDer
  if (← at' sig (rLen + 4)) ≠ 2 then .error sigDer
  if sLen = 0 then .error sigDer
  if (← at' sig (rLen + 6)) ≥ 128 then .error sigDer
  if sLen > 1 && (← at' sig (rLen + 6)) = 0 && (← at' sig (rLen + 7)) < 128 then .error sigDer

/-- `check_low_der_signature`: compares with `generator.p() - s` (the field prime) -/
def checkLowDerSignature (s : Nat) : M Unit :=
  if (generatorP : Int) - s < s then .error (scriptErr errno_SIG_HIGH_S) else pure ()

/-- `check_defined_hashtype_signature` (non-empty `sig`): `sig[-1] & ~SIGHASH_ANYONECANPAY` -/
def checkDefinedHashtypeSignature (sig : Bytes) : M Unit :=
  match sig.getLast? with
  | none => .error (.script none)
  | some b =>
    let hashType := andNot b.toNat SIGHASH_ANYONECANPAY
    if hashType < SIGHASH_ALL || hashType > SIGHASH_SINGLE then .error (scriptErr errno_SIG_HASHTYPE) else pure ()

/-- outcome of `parse_and_check_signature_blob` inside the `try` of `checksigs` -/
inductive SigParse
  | parsed                    -- `(sig_pair, signature_type)` available
  | unparseable               -- `UnexpectedDER` / `ValueError`: caught, `public_pair_blobs = []`
  deriving DecidableEq, Repr

/-- `parse_and_check_signature_blob(sig_blob, flags, vm)` -/
def parseAndCheckSignatureBlob (sigBlob : Bytes) (flags : Nat) : M SigParse := do
  if sigBlob.length = 0 then return .unparseable
  if hasFlag flags (VERIFY_DERSIG ||| VERIFY_LOW_S ||| VERIFY_STRICTENC) then checkValidSignature sigBlob
  if hasFlag flags VERIFY_STRICTENC then checkDefinedHashtypeSignature sigBlob
  match sigdecodeDer sigBlob.dropLast with
  | .error .unexpected => return .unparseable
  | .error .typeError => .error (.py "TypeError")
  | .ok (_, s) =>
    if hasFlag flags VERIFY_LOW_S then checkLowDerSignature s
    return .parsed

/-- `check_public_key_encoding` -/
def checkPublicKeyEncoding (blob : Bytes) : M Unit :=
  let ok := match blob with
    | fb :: _ => blob.length ≥ 33 && ((fb = 4 && blob.length = 65) || ((fb = 2 || fb = 3) && blob.length = 33))
    | [] => false
  if ok then pure () else .error (scriptErr errno_PUBKEYTYPE)

/-- the length/prefix part of `sec_to_public_pair(sec, generator, strict)` (32-byte coordinates):
`false` = `EncodingError`.  Non-strict: 65 bytes with 04/06/07, or 33 bytes with **any** prefix. -/
def secShapeOk (sec : Bytes) (strict : Bool) : Bool :=
  if sec.length = 65 then
    sec.head? = some 4 || (!strict && (sec.head? = some 6 || sec.head? = some 7))
  else if sec.length = 33 then
    !strict || sec.head? = some 2 || sec.head? = some 3
  else false

/-- `checksig(vm, sig_pair, signature_type, pair_blob, blobs_to_delete, …)`; `code` is the script code the sighash
closure will hash (computed, like `sighash_cache`, only when a key gets this far) -/
def checksig (env : Env) (cfg : Config) (sigBlob pairBlob : Bytes) (code : M Bytes) : M Bool := do
  let verifyStrict := hasFlag cfg.flags VERIFY_STRICTENC
  if verifyStrict then checkPublicKeyEncoding pairBlob
  if hasFlag cfg.flags VERIFY_WITNESS_PUBKEYTYPE then
    match pairBlob with
    | [] => .error (.py "IndexError")                         -- pair_blob[0]
    | fb :: _ => if !(fb = 2 || fb = 3) || pairBlob.length ≠ 33 then .error (scriptErr errno_WITNESS_PUBKEYTYPE)
  if !secShapeOk pairBlob verifyStrict then return false
  return env.checkSig sigBlob pairBlob (← code) cfg.witness

/-- inner `while len(sig_blobs_remaining) < len(public_pair_blobs)` loop: `some rest` after a `break`,
`none` when it runs out (`else:` branch).  `pubs` is top-most key first. -/
def matchKeys (env : Env) (cfg : Config) (sigBlob : Bytes) (code : M Bytes) (nRemaining : Nat) : List Bytes → M (Option (List Bytes))
  | [] => pure none
  | pk :: rest =>
    if nRemaining < rest.length + 1 then do
      if ← checksig env cfg sigBlob pk code then pure (some rest) else matchKeys env cfg sigBlob code nRemaining rest
    else pure none

/-- outer `while len(sig_blobs_remaining) > 0` loop; `sigs`, `pubs` top-most first; `true` = all matched -/
def checksigsLoop (env : Env) (cfg : Config) (code : M Bytes) : List Bytes → List Bytes → M Bool
  | [], _ => pure true
  | sig :: remaining, pubs => do
    let pubs ← match ← parseAndCheckSignatureBlob sig cfg.flags with
      | .parsed => pure pubs
      | .unparseable => pure []
    match ← matchKeys env cfg sig code remaining.length pubs with
    | some pubs => checksigsLoop env cfg code remaining pubs
    | none => pure false

/-- `checksigs(vm, sig_blobs, public_pair_blobs)`; arguments top-most first (the Python lists reversed) -/
def checksigs (env : Env) (cfg : Config) (sigs pubs : List Bytes) (s : State) : M State := do
  let anyNonblank := hasFlag cfg.flags VERIFY_NULLFAIL && sigs.any (fun b => b.length > 0)
  let code0 := cfg.script.drop s.beginCodeHash
  -- `sig_for_hash_type_f`: legacy deletes every signature push (list in Python order), witness does not
  let code : M Bytes := if cfg.witness then pure code0 else deleteSignatures code0 sigs.reverse
  if ← checksigsLoop env cfg code sigs pubs then pure (push VM_TRUE s)
  else if anyNonblank then .error (scriptErr errno_NULLFAIL)
  else pure (push VM_FALSE s)

def do_CHECKSIG (env : Env) (cfg : Config) (s : State) : M State := do
  let (pairBlob, s) ← pop s
  let (sigBlob, s) ← pop s
  checksigs env cfg [sigBlob] [pairBlob] s

def do_CHECKMULTISIG (env : Env) (cfg : Config) (s : State) : M State := do
  let (keyCount, s) ← popInt cfg.flags s
  if keyCount < 0 || keyCount > 20 then .error (scriptErr errno_PUBKEY_COUNT)
  let (pubs, s) ← popN keyCount.toNat s
  let (sigCount, s) ← popInt cfg.flags s
  if sigCount < 0 || sigCount > keyCount then .error (scriptErr errno_SIG_COUNT)
  let (sigs, s) ← popN sigCount.toNat s
  let (hackByte, s) ← pop s
  if hasFlag cfg.flags VERIFY_NULLDUMMY && hackByte != [] then .error (scriptErr errno_SIG_NULLDUMMY)
  let s ← checksigs env cfg sigs pubs s
  pure { s with opCount := s.opCount + keyCount }

def verifyTop (code : Nat) (s : State) : M State := do
  let (x, s) ← pop s
  if ← boolFromScriptBytes x then pure s else .error (scriptErr code)

def do_CHECKMULTISIGVERIFY (env : Env) (cfg : Config) (s : State) : M State := do
  verifyTop errno_VERIFY (← do_CHECKMULTISIG env cfg s)

def do_CHECKSIGVERIFY (env : Env) (cfg : Config) (s : State) : M State := do
  verifyTop errno_VERIFY (← do_CHECKSIG env cfg s)

end Pycoin.VM
